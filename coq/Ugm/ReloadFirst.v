(* C05, configuration clause: limits in force = limits of the configuration
   (a) stay exact under every call that is not a reload, from any state in which they are exact
       in the structural sense KInv (every tracker carries the expected limit, knows its path,
       trackers with a named limit exist, the wild card configuration gives the expected limit
       everywhere else);
   (b) are exact (KInv) after the first configuration is loaded into a fresh manager, for
       configurations whose limits all sit on the root queue.
   Proofs only. *)
From Coq Require Import List NArith ZArith Bool Lia.
From YK Require Import Base.Int64 Base.Res Ugm.Tracker Ugm.Manager Ugm.UgmSpec Ugm.Known Ugm.TrackerFacts Ugm.TreeInv
     Ugm.Enforce Ugm.LimitFacts Ugm.Reload.
Import ListNotations.
Open Scope N_scope.

Definition who_ok (w : who) : Prop :=
  match w with User u => u <> EMPTY /\ u <> WILD | Group g => g <> EMPTY end.
Definition Ew (conf : qconf) (w : who) (names : list qname) : nlimit := spec_limit conf w (ROOT :: names).
Definition Nw (conf : qconf) (w : who) (names : list qname) : bool := named_in conf w (ROOT :: names).
Definition who_wc (s : ugm_state) (w : who) : list (path * limitcfg) := match w with User _ => userWild s | Group _ => [] end.
Definition who_tt (w : who) : ttype := match w with User _ => TUser | Group _ => TGroup end.

(* limits are exact, structurally *)
Definition KInv (conf : qconf) (s : ugm_state) : Prop :=
  forall w, who_ok w ->
    match who_root s w with
    | Some q => good_at [ROOT] (Ew conf w) (Nw conf w) q
    | None => forall names, Nw conf w names = false
    end /\
    wc_ok (who_wc s w) (who_tt w) [ROOT] (Ew conf w) (Nw conf w).
(* named limits count (no zero-valued limit without max applications) *)
Definition conf_real (conf : qconf) : Prop := forall w, who_ok w -> named_real (Ew conf w) (Nw conf w).

Lemma res_eq_list_refl r : res_eq_list r r = true.
Proof. induction r as [|[k v] t IH]; [reflexivity|]. cbn. rewrite N.eqb_refl, Z.eqb_refl. exact IH. Qed.
Lemma nlimit_eqb_refl x : nlimit_eqb x x = true.
Proof. destruct x as [[r|] n]; unfold nlimit_eqb; cbn [fst snd]; rewrite N.eqb_refl, ?res_eq_list_refl; reflexivity. Qed.

(* KInv gives the property's predicate *)
Lemma KInv_exact conf s w names : KInv conf s -> who_ok w -> limit_exact s conf w (ROOT :: names) = true.
Proof.
  intros HK Hok. destruct (HK w Hok) as (Hroot & Hwc). unfold limit_exact.
  assert (in_force s w (ROOT :: names) = Ew conf w names) as ->; [|apply nlimit_eqb_refl].
  unfold in_force, node.
  assert (Hfall : Nw conf w names = false ->
            match w with
            | User _ => match plookup (userWild s) (ROOT :: names) with Some cfg => norm_limit (l_max cfg) (l_apps cfg) | None => no_limit end
            | Group _ => no_limit
            end = Ew conf w names).
  { intros HN. specialize (Hwc names HN). unfold nl, dflt in Hwc. change ([ROOT] ++ names) with (ROOT :: names) in Hwc.
    destruct w; cbn [who_wc who_tt] in Hwc.
    - destruct (plookup (userWild s) (ROOT :: names)); exact Hwc.
    - exact Hwc. }
  destruct (who_root s w) as [q|].
  - rewrite qt_at_sub. destruct Hroot as [G1 G2 G3]. destruct (sub_at names q) as [n|] eqn:En.
    + apply (G1 names (q_max n, q_maxApps n)). unfold alim. rewrite En. reflexivity.
    + apply Hfall. destruct (Nw conf w names) eqn:EN; [|reflexivity]. exfalso. apply (G3 names EN). assumption.
  - apply Hfall. apply Hroot.
Qed.

(* ---- the pieces a call is made of ---- *)
Lemma good_new_root wc tt E N : (forall names, N names = false) -> wc_ok wc tt [ROOT] E N ->
  good_at [ROOT] E N (newRootQT wc tt).
Proof.
  intros HN Hwc. unfold newRootQT. constructor.
  - intros [|c rest] l Hl.
    + unfold alim in Hl. cbn [sub_at] in Hl. injection Hl as <-. rewrite newQT_lim. apply (Hwc []). apply HN.
    + unfold alim in Hl. rewrite sub_at_newQT in Hl. discriminate.
  - intros [|c rest] n Hn.
    + cbn [sub_at] in Hn. injection Hn as <-. rewrite newQT_path. reflexivity.
    + rewrite sub_at_newQT in Hn. discriminate.
  - intros names H. rewrite HN in H. discriminate.
Qed.
Lemma good_removed E N q : named_real E N -> good_at [ROOT] E N q -> removable q = true -> forall names, N names = false.
Proof.
  intros HR [G1 G2 G3] Hrm names. destruct (N names) eqn:EN; [|reflexivity]. exfalso.
  destruct (removable_facts q Hrm) as (Hnc & _ & _ & Hm0 & Hmz). destruct names as [|c rest].
  - apply (HR [] EN). rewrite <- (G1 [] (q_max q, q_maxApps q) eq_refl). unfold nl. cbn [fst snd].
    apply unreal_no_limit. rewrite Hm0, Hmz. reflexivity.
  - apply (G3 _ EN). apply sub_at_no_children. assumption.
Qed.

(* states that differ in trackers only *)
Definition same_cfg (s s' : ugm_state) : Prop := userWild s' = userWild s.

Lemma KInv_update conf s s' :
  KInv conf s -> same_cfg s s' ->
  (forall w, who_ok w ->
     match who_root s' w with
     | Some q' => match who_root s w with
                  | Some q => good_at [ROOT] (Ew conf w) (Nw conf w) q -> good_at [ROOT] (Ew conf w) (Nw conf w) q'
                  | None => (forall names, Nw conf w names = false) -> good_at [ROOT] (Ew conf w) (Nw conf w) q'
                  end
     | None => match who_root s w with
               | Some q => good_at [ROOT] (Ew conf w) (Nw conf w) q -> forall names, Nw conf w names = false
               | None => True
               end
     end) ->
  KInv conf s'.
Proof.
  intros HK Hc H w Hok. destruct (HK w Hok) as (Hr & Hwc). specialize (H w Hok). split.
  - destruct (who_root s' w) as [q'|], (who_root s w) as [q|]; auto.
  - destruct w; cbn [who_wc] in *; [rewrite Hc|]; assumption.
Qed.

(* ---- tree operations for any path ---- *)
Lemma good_increase_any wc tt a u p pre E N q :
  good_at pre E N q -> wc_ok wc tt pre E N -> good_at pre E N (increase wc tt p a u q).
Proof.
  destruct p as [|x tl]; [|apply good_increase]. intros G _. change (increase wc tt [] a u q) with (inc_here a u q).
  destruct (inc_here_same a u q) as (A & B & C & D). apply (good_same pre E N q); assumption.
Qed.
Lemma good_headroom_any wc tt p pre E N q :
  good_at pre E N q -> wc_ok wc tt pre E N -> good_at pre E N (fst (headroom wc tt p q)).
Proof. destruct p as [|x tl]; [intros G _; exact G|apply good_headroom]. Qed.
Lemma good_canRunApp_any wc tt a p pre E N q :
  good_at pre E N q -> wc_ok wc tt pre E N -> good_at pre E N (fst (canRunApp wc tt p a q)).
Proof. destruct p as [|x tl]; [intros G _; exact G|apply good_canRunApp]. Qed.
Lemma good_decrease_any a u rm p pre E N q :
  named_real E N -> good_at pre E N q -> good_at pre E N (fst (decrease p a u rm q)).
Proof.
  destruct p as [|x tl]; [|apply good_decrease]. intros _ G. change (decrease [] a u rm q) with (dec_here a u rm q).
  destruct (dec_here_same a u rm q) as (A & B & C & D). apply (good_same pre E N q); assumption.
Qed.
Lemma decrease_flag_removable p a u rm q : snd (decrease p a u rm q) = true -> removable (fst (decrease p a u rm q)) = true.
Proof.
  assert (Hd : forall q1, snd (dec_here a u rm q1) = true -> removable (fst (dec_here a u rm q1)) = true).
  { intros q1 H. destruct (dec_here_fields a u rm q1) as (Hb & _). cbv zeta in Hb. rewrite <- Hb. exact H. }
  destruct p as [|x tl]; [apply Hd|]. destruct tl as [|c t]; [apply Hd|].
  rewrite decrease_cons. destruct (find_child c q) as [ch|]; [|discriminate].
  destruct (decrease (c :: t) a u rm ch) as [ch' r]. apply Hd.
Qed.

(* ---- who_root through the state constructors ---- *)
Lemma who_root_set_users s u ut' w :
  who_root (set_users s (nset u ut' (users s))) w =
  match w with User u' => if u' =? u then Some (ut_qt ut') else who_root s w | Group _ => who_root s w end.
Proof. destruct w as [u'|g]; cbn [who_root users set_users groups]; [|reflexivity]. rewrite nlookup_nset. destruct (u' =? u); reflexivity. Qed.
Lemma who_root_del_users s u w :
  who_root (set_users s (ndel u (users s))) w =
  match w with User u' => if u' =? u then None else who_root s w | Group _ => who_root s w end.
Proof.
  destruct w as [u'|g]; cbn [who_root users set_users groups]; [|reflexivity].
  destruct (N.eqb_spec u' u) as [->|Hne]; [rewrite nlookup_ndel_same|rewrite nlookup_ndel_other by assumption]; reflexivity.
Qed.
Lemma who_root_set_groups s g gt' w :
  who_root (set_groups s (nset g gt' (groups s))) w =
  match w with Group g' => if g' =? g then Some (gt_qt gt') else who_root s w | User _ => who_root s w end.
Proof. destruct w as [u'|g']; cbn [who_root users set_groups groups]; [reflexivity|]. rewrite nlookup_nset. destruct (g' =? g); reflexivity. Qed.
Lemma who_root_del_groups s g w :
  who_root (set_groups s (ndel g (groups s))) w =
  match w with Group g' => if g' =? g then None else who_root s w | User _ => who_root s w end.
Proof.
  destruct w as [u'|g']; cbn [who_root users set_groups groups]; [reflexivity|].
  destruct (N.eqb_spec g' g) as [->|Hne]; [rewrite nlookup_ndel_same|rewrite nlookup_ndel_other by assumption]; reflexivity.
Qed.

Section Steps.
Variable conf : qconf.
Variable wcU : list (path * limitcfg).
Hypothesis HR : conf_real conf.
Hypothesis Hwc : forall w, who_ok w -> wc_ok (match w with User _ => wcU | Group _ => [] end) (who_tt w) [ROOT] (Ew conf w) (Nw conf w).

Notation G w := (good_at [ROOT] (Ew conf w) (Nw conf w)).
(* how the tracker of w may change in one call *)
Definition T (w : who) (o o' : option qt) : Prop :=
  match o' with
  | Some q' => match o with Some q => G w q -> G w q' | None => (forall names, Nw conf w names = false) -> G w q' end
  | None => match o with Some q => G w q -> forall names, Nw conf w names = false | None => True end
  end.
Definition Tall (s s' : ugm_state) : Prop :=
  userWild s = wcU -> userWild s' = wcU /\ forall w, who_ok w -> T w (who_root s w) (who_root s' w).

Lemma T_refl w o : T w o o.
Proof. destruct o; cbn; auto. Qed.
Lemma T_trans w o1 o2 o3 : T w o1 o2 -> T w o2 o3 -> T w o1 o3.
Proof. destruct o1, o2, o3; cbn; auto. Qed.
Lemma Tall_refl s : Tall s s.
Proof. intros H. split; [assumption|]. intros; apply T_refl. Qed.
Lemma Tall_trans s1 s2 s3 : Tall s1 s2 -> Tall s2 s3 -> Tall s1 s3.
Proof.
  intros H12 H23 H1. destruct (H12 H1) as (H2 & A). destruct (H23 H2) as (H3 & B). split; [assumption|].
  intros w Hok. apply (T_trans w _ (who_root s2 w)); auto.
Qed.

(* getUserTracker *)
Lemma Tall_getUserTracker s u : Tall s (fst (getUserTracker s u)).
Proof.
  unfold getUserTracker. destruct (nlookup (users s) u) as [ut|] eqn:E; [apply Tall_refl|]. cbn [fst]. intros Hs.
  split; [exact Hs|]. intros w Hok. unfold newUserTracker. rewrite who_root_set_users. destruct w as [u'|g]; [|apply T_refl].
  destruct (N.eqb_spec u' u) as [->|]; [|apply T_refl]. cbn [who_root]. rewrite E. cbn [option_map ut_qt T].
  intros HN. rewrite Hs. apply good_new_root; [assumption|]. apply (Hwc (User u) Hok).
Qed.
(* ensure_link *)
Lemma Tall_ensure_link s p a (user : ugi) : Tall s (ensure_link s p a user).
Proof.
  unfold ensure_link. destruct (nlookup (users s) (fst user)) as [ut|] eqn:Hu; [|apply Tall_refl].
  destruct (hasGroupForApp ut a); [apply Tall_refl|]. unfold ensureGroupTrackerForApp. rewrite Hu.
  destruct (hasGroupForApp ut a); [apply Tall_refl|].
  set (g := ensureGroup s user p).
  set (s1 := if g =? EMPTY then s else match nlookup (groups s) g with Some _ => s | None => set_groups s (nset g newGroupTracker (groups s)) end).
  assert (H1 : Tall s s1).
  { unfold s1. destruct (g =? EMPTY); [apply Tall_refl|]. destruct (nlookup (groups s) g) as [gt|] eqn:Eg; [apply Tall_refl|].
    intros Hs. split; [exact Hs|]. intros w Hok. rewrite who_root_set_groups. destruct w as [u'|g']; [apply T_refl|].
    destruct (N.eqb_spec g' g) as [->|]; [|apply T_refl]. cbn [who_root]. rewrite Eg. cbn [option_map gt_qt newGroupTracker T].
    intros HN. apply good_new_root; [assumption|]. apply (Hwc (Group g) Hok). }
  apply (Tall_trans s s1); [exact H1|]. intros Hs. split; [exact Hs|]. intros w Hok. rewrite who_root_set_users.
  destruct w as [u'|g']; [|apply T_refl]. destruct (N.eqb_spec u' (fst user)) as [->|]; [|apply T_refl].
  cbn [ut_qt who_root]. assert (Hu1 : nlookup (users s1) (fst user) = Some ut).
  { unfold s1. destruct (g =? EMPTY); [assumption|]. destruct (nlookup (groups s) g); assumption. }
  rewrite Hu1. apply T_refl.
Qed.
(* the tree of a user / group replaced by the result of a tree operation that keeps [good] *)
Lemma Tall_set_user s u ut links Q' :
  nlookup (users s) u = Some ut ->
  (u <> EMPTY -> u <> WILD -> G (User u) (ut_qt ut) -> G (User u) Q') ->
  Tall s (set_users s (nset u (mkUT links Q') (users s))).
Proof.
  intros Hu HQ Hs. split; [exact Hs|]. intros w Hok. rewrite who_root_set_users. destruct w as [u'|g']; [|apply T_refl].
  destruct (N.eqb_spec u' u) as [->|]; [|apply T_refl]. cbn [who_root ut_qt]. rewrite Hu. cbn [option_map T].
  destruct Hok. apply HQ; assumption.
Qed.
Lemma Tall_set_group s g gt apps GQ' :
  nlookup (groups s) g = Some gt ->
  (g <> EMPTY -> G (Group g) (gt_qt gt) -> G (Group g) GQ') ->
  Tall s (set_groups s (nset g (mkGT apps GQ') (groups s))).
Proof.
  intros Hg HQ Hs. split; [exact Hs|]. intros w Hok. rewrite who_root_set_groups. destruct w as [u'|g']; [apply T_refl|].
  destruct (N.eqb_spec g' g) as [->|]; [|apply T_refl]. cbn [who_root gt_qt]. rewrite Hg. cbn [option_map T].
  apply HQ. exact Hok.
Qed.
Lemma Tall_del_user s u ut Q' :
  nlookup (users s) u = Some ut -> removable Q' = true ->
  (u <> EMPTY -> u <> WILD -> G (User u) (ut_qt ut) -> G (User u) Q') ->
  Tall s (set_users s (ndel u (users s))).
Proof.
  intros Hu Hrm HQ Hs. split; [exact Hs|]. intros w Hok. rewrite who_root_del_users. destruct w as [u'|g']; [|apply T_refl].
  destruct (N.eqb_spec u' u) as [->|]; [|apply T_refl]. cbn [who_root]. rewrite Hu. cbn [option_map T].
  intros HG. destruct Hok as (H1 & H2). apply (good_removed _ _ Q' (HR (User u) (conj H1 H2))); [|assumption]. apply HQ; assumption.
Qed.
Lemma Tall_del_group s g gt GQ' :
  nlookup (groups s) g = Some gt -> removable GQ' = true ->
  (g <> EMPTY -> G (Group g) (gt_qt gt) -> G (Group g) GQ') ->
  Tall s (set_groups s (ndel g (groups s))).
Proof.
  intros Hg Hrm HQ Hs. split; [exact Hs|]. intros w Hok. rewrite who_root_del_groups. destruct w as [u'|g']; [apply T_refl|].
  destruct (N.eqb_spec g' g) as [->|]; [|apply T_refl]. cbn [who_root]. rewrite Hg. cbn [option_map T].
  intros HG. apply (good_removed _ _ GQ' (HR (Group g) Hok)); [|assumption]. apply HQ; assumption.
Qed.
End Steps.

Section Ops.
Variable conf : qconf.
Variable wcU : list (path * limitcfg).
Hypothesis HR : conf_real conf.
Hypothesis Hwc : forall w, who_ok w -> wc_ok (match w with User _ => wcU | Group _ => [] end) (who_tt w) [ROOT] (Ew conf w) (Nw conf w).
Notation TT := (Tall conf wcU).

Lemma Tall_increase s p a r (user : ugi) : TT s (ugm_increase s p a r user).
Proof.
  unfold ugm_increase.
  destruct (match p with [] => true | _ => false end || (a =? EMPTY) || is_nil r || (fst user =? EMPTY)); [apply Tall_refl|].
  destruct (getUserTracker s (fst user)) as [s1 ut0] eqn:Eg.
  assert (T1 : TT s s1) by (replace s1 with (fst (getUserTracker s (fst user))) by (rewrite Eg; reflexivity); apply Tall_getUserTracker; assumption).
  pose proof (Tall_ensure_link conf wcU Hwc s1 p a user) as T2. set (s2 := ensure_link s1 p a user) in *.
  apply (Tall_trans conf wcU s s1); [exact T1|]. apply (Tall_trans conf wcU s1 s2); [exact T2|].
  destruct (nlookup (users s2) (fst user)) as [ut|] eqn:Hu; [|apply Tall_refl].
  intros Hs2.
  set (ut' := mkUT (ut_links ut) (increase (userWild s2) TUser p a r (ut_qt ut))).
  set (s3 := set_users s2 (nset (fst user) ut' (users s2))).
  assert (T3 : TT s2 s3).
  { apply (Tall_set_user conf wcU s2 (fst user) ut); [assumption|]. intros H1 H2 HG. rewrite Hs2.
    apply good_increase_any; [assumption|]. apply (Hwc (User (fst user)) (conj H1 H2)). }
  destruct (getGroupForApp ut' a =? EMPTY) eqn:Ee; [exact (T3 Hs2)|].
  destruct (nlookup (groups s3) (getGroupForApp ut' a)) as [gt|] eqn:Egt; [|exact (T3 Hs2)].
  refine (Tall_trans conf wcU s2 s3 _ T3 _ Hs2).
  apply (Tall_set_group conf wcU s3 _ gt); [assumption|]. intros H1 HG.
  apply good_increase_any; [assumption|]. apply (Hwc (Group (getGroupForApp ut' a)) H1).
Qed.

Lemma Tall_headroom s p a (user : ugi) : TT s (fst (ugm_headroom s p a user)).
Proof.
  unfold ugm_headroom.
  destruct (getUserTracker s (fst user)) as [s1 ut0] eqn:Eg.
  assert (T1 : TT s s1) by (replace s1 with (fst (getUserTracker s (fst user))) by (rewrite Eg; reflexivity); apply Tall_getUserTracker; assumption).
  destruct (getUserTracker_spec s (fst user) s1 ut0 Eg) as (Hu1 & _).
  destruct (headroom (userWild s1) TUser p (ut_qt ut0)) as [uq' uh] eqn:Eh.
  set (s2 := set_users s1 (nset (fst user) (mkUT (ut_links ut0) uq') (users s1))).
  apply (Tall_trans conf wcU s s1); [exact T1|]. intros Hs1.
  assert (T2 : TT s1 s2).
  { apply (Tall_set_user conf wcU s1 (fst user) ut0); [assumption|]. intros H1 H2 HG.
    replace uq' with (fst (headroom (userWild s1) TUser p (ut_qt ut0))) by (rewrite Eh; reflexivity). rewrite Hs1.
    apply good_headroom_any; [assumption|]. apply (Hwc (User (fst user)) (conj H1 H2)). }
  pose proof (Tall_ensure_link conf wcU Hwc s2 p a user) as T3. set (s3 := ensure_link s2 p a user) in *.
  assert (T13 : TT s1 s3) by (apply (Tall_trans conf wcU s1 s2); assumption).
  destruct (nlookup (users s3) (fst user)) as [ut3|]; [|exact (T13 Hs1)].
  destruct (getGroupForApp ut3 a =? EMPTY); [exact (T13 Hs1)|].
  destruct (nlookup (groups s3) (getGroupForApp ut3 a)) as [gt|] eqn:Egt; [|exact (T13 Hs1)].
  destruct (headroom [] TGroup p (gt_qt gt)) as [gq' gh] eqn:Egh. cbn [fst].
  refine (Tall_trans conf wcU s1 s3 _ T13 _ Hs1).
  apply (Tall_set_group conf wcU s3 _ gt); [assumption|]. intros H1 HG.
  replace gq' with (fst (headroom [] TGroup p (gt_qt gt))) by (rewrite Egh; reflexivity).
  apply good_headroom_any; [assumption|]. apply (Hwc (Group (getGroupForApp ut3 a)) H1).
Qed.

Lemma Tall_can_run_app s p a (user : ugi) : TT s (fst (ugm_can_run_app s p a user)).
Proof.
  unfold ugm_can_run_app.
  destruct (getUserTracker s (fst user)) as [s1 ut0] eqn:Eg.
  assert (T1 : TT s s1) by (replace s1 with (fst (getUserTracker s (fst user))) by (rewrite Eg; reflexivity); apply Tall_getUserTracker; assumption).
  destruct (getUserTracker_spec s (fst user) s1 ut0 Eg) as (Hu1 & _).
  destruct (canRunApp (userWild s1) TUser p a (ut_qt ut0)) as [uq' uok] eqn:Eh.
  set (s2 := set_users s1 (nset (fst user) (mkUT (ut_links ut0) uq') (users s1))).
  apply (Tall_trans conf wcU s s1); [exact T1|]. intros Hs1.
  assert (T2 : TT s1 s2).
  { apply (Tall_set_user conf wcU s1 (fst user) ut0); [assumption|]. intros H1 H2 HG.
    replace uq' with (fst (canRunApp (userWild s1) TUser p a (ut_qt ut0))) by (rewrite Eh; reflexivity). rewrite Hs1.
    apply good_canRunApp_any; [assumption|]. apply (Hwc (User (fst user)) (conj H1 H2)). }
  pose proof (Tall_ensure_link conf wcU Hwc s2 p a user) as T3. set (s3 := ensure_link s2 p a user) in *.
  assert (T13 : TT s1 s3) by (apply (Tall_trans conf wcU s1 s2); assumption).
  destruct (nlookup (users s3) (fst user)) as [ut3|]; [|exact (T13 Hs1)].
  destruct (getGroupForApp ut3 a =? EMPTY); [exact (T13 Hs1)|].
  destruct (nlookup (groups s3) (getGroupForApp ut3 a)) as [gt|] eqn:Egt; [|exact (T13 Hs1)].
  destruct (canRunApp [] TGroup p a (gt_qt gt)) as [gq' gok] eqn:Egh. cbn [fst].
  refine (Tall_trans conf wcU s1 s3 _ T13 _ Hs1).
  apply (Tall_set_group conf wcU s3 _ gt); [assumption|]. intros H1 HG.
  replace gq' with (fst (canRunApp [] TGroup p a (gt_qt gt))) by (rewrite Egh; reflexivity).
  apply good_canRunApp_any; [assumption|]. apply (Hwc (Group (getGroupForApp ut3 a)) H1).
Qed.

Lemma Tall_decrease s p a r (user : ugi) rm : TT s (ugm_decrease s p a r user rm).
Proof.
  unfold ugm_decrease.
  destruct (match p with [] => true | _ => false end || (a =? EMPTY) || is_nil r || (fst user =? EMPTY)); [apply Tall_refl|].
  destruct (nlookup (users s) (fst user)) as [ut|] eqn:Hu; [|apply Tall_refl].
  destruct (decrease p a r rm (ut_qt ut)) as [q' rmq] eqn:Ed.
  assert (Eq' : q' = fst (decrease p a r rm (ut_qt ut))) by (rewrite Ed; reflexivity).
  assert (HQ : fst user <> EMPTY -> fst user <> WILD -> good_at [ROOT] (Ew conf (User (fst user))) (Nw conf (User (fst user))) (ut_qt ut) ->
               good_at [ROOT] (Ew conf (User (fst user))) (Nw conf (User (fst user))) q').
  { intros H1 H2 HG. rewrite Eq'. apply good_decrease_any; [apply (HR (User (fst user)) (conj H1 H2))|assumption]. }
  set (links' := if rm then ndel a (ut_links ut) else ut_links ut).
  set (s1 := if rmq then set_users s (ndel (fst user) (users s)) else set_users s (nset (fst user) (mkUT links' q') (users s))).
  assert (T1 : TT s s1).
  { unfold s1. destruct rmq.
    - apply (Tall_del_user conf wcU HR s (fst user) ut q'); try assumption.
      rewrite Eq'. apply decrease_flag_removable. rewrite Ed. reflexivity.
    - apply (Tall_set_user conf wcU s (fst user) ut); assumption. }
  destruct (getGroupForApp ut a =? EMPTY); [exact T1|].
  destruct (nlookup (groups s1) (getGroupForApp ut a)) as [gt|] eqn:Egt; [|exact T1].
  destruct (decrease p a r rm (gt_qt gt)) as [gq' grm] eqn:Edg.
  assert (Egq : gq' = fst (decrease p a r rm (gt_qt gt))) by (rewrite Edg; reflexivity).
  assert (HGQ : getGroupForApp ut a <> EMPTY -> good_at [ROOT] (Ew conf (Group (getGroupForApp ut a))) (Nw conf (Group (getGroupForApp ut a))) (gt_qt gt) ->
               good_at [ROOT] (Ew conf (Group (getGroupForApp ut a))) (Nw conf (Group (getGroupForApp ut a))) gq').
  { intros H1 HG. rewrite Egq. apply good_decrease_any; [apply (HR (Group (getGroupForApp ut a)) H1)|assumption]. }
  apply (Tall_trans conf wcU s s1); [exact T1|]. destruct grm.
  - apply (Tall_del_group conf wcU HR s1 _ gt gq'); try assumption.
    rewrite Egq. apply decrease_flag_removable. rewrite Edg. reflexivity.
  - apply (Tall_set_group conf wcU s1 _ gt); assumption.
Qed.

(* every call that is not a reload keeps the limits exact *)
Lemma KInv_step s o s' :
  KInv conf s -> userWild s = wcU -> match o with OConfig _ _ => False | _ => True end ->
  fst (step s o) = Some s' -> KInv conf s' /\ userWild s' = wcU.
Proof.
  intros HK Hs Hop Hst.
  assert (HT : TT s s').
  { destruct o as [p a r u sched|p a r u rm|p a u|p a u|c rn]; [| | | |contradiction].
    - cbn in Hst. injection Hst as <-. apply Tall_increase.
    - cbn in Hst. injection Hst as <-. apply Tall_decrease.
    - unfold step, step_gen in Hst. destruct (ugm_headroom s p a u) as [s1 h] eqn:E. cbn in Hst. injection Hst as <-.
      replace s1 with (fst (ugm_headroom s p a u)) by (rewrite E; reflexivity). apply Tall_headroom.
    - unfold step, step_gen in Hst. destruct (ugm_can_run_app s p a u) as [s1 h] eqn:E. cbn in Hst. injection Hst as <-.
      replace s1 with (fst (ugm_can_run_app s p a u)) by (rewrite E; reflexivity). apply Tall_can_run_app. }
  destruct (HT Hs) as (Hs' & HTw). split; [|assumption].
  intros w Hok. destruct (HK w Hok) as (Hr & Hw). specialize (HTw w Hok). split.
  - unfold T in HTw. destruct (who_root s' w) as [q'|], (who_root s w) as [q|]; auto.
  - destruct w; cbn [who_wc] in *; [rewrite Hs', <- Hs|]; assumption.
Qed.
End Ops.

(* (a) limits that are exact stay exact until the next reload *)
Lemma KInv_run conf ops : forall s s',
  conf_real conf -> KInv conf s -> no_config ops -> run s ops = Some s' -> KInv conf s'.
Proof.
  induction ops as [|o t IH]; intros s s' HR HK Hno Hr.
  - cbn in Hr. injection Hr as <-. assumption.
  - cbn [run] in Hr. destruct (fst (step s o)) as [s1|] eqn:Es; [|discriminate].
    assert (Hwc : forall w, who_ok w -> wc_ok (match w with User _ => userWild s | Group _ => [] end) (who_tt w) [ROOT] (Ew conf w) (Nw conf w)).
    { intros w Hok. destruct (HK w Hok) as (_ & H). destruct w; exact H. }
    destruct (KInv_step conf (userWild s) HR Hwc s o s1 HK eq_refl (Hno o (or_introl eq_refl)) Es) as (HK1 & _).
    apply (IH s1 s' HR HK1); [|assumption]. intros o' Hin. apply Hno. right. assumption.
Qed.
Theorem limits_stable_lemma conf s0 ops s :
  conf_real conf -> KInv conf s0 -> no_config ops -> run s0 ops = Some s ->
  forall w names, who_ok w -> limit_exact s conf w (ROOT :: names) = true.
Proof. intros HR HK Hno Hr w names Hok. apply KInv_exact; [|assumption]. apply (KInv_run conf ops s0 s); assumption. Qed.

(* ------------------------------------------------------------------ (b) the first load *)
Definition rootT (m : ores) (ma : N) : qt := QT ROOT [ROOT] None [] m ma false [].
Definition root_form (q : qt) : Prop := exists m ma, q = rootT m ma.

Lemma setLimit_root wc tt x m ma q : root_form q -> setLimit wc tt [x] m ma false false q = rootT m ma.
Proof. intros (m0 & ma0 & ->). reflexivity. Qed.
Lemma newRoot_form tt : root_form (newRootQT [] tt).
Proof. exists None, 0. destruct tt; reflexivity. Qed.

(* setUserLimits / setGroupLimits on root-only trackers *)
Definition users_form (s : ugm_state) : Prop := forall u ut, nlookup (users s) u = Some ut -> ut_links ut = [] /\ root_form (ut_qt ut).
Definition groups_form (s : ugm_state) : Prop := forall g gt, nlookup (groups s) g = Some gt -> gt_apps gt = [] /\ root_form (gt_qt gt).

Lemma setUserLimits_spec s u cfg x : userWild s = [] -> users_form s ->
  let s' := setUserLimits s u cfg [x] in
  nlookup (users s') u = Some (mkUT [] (rootT (l_max cfg) (l_apps cfg))) /\
  (forall u', u' <> u -> nlookup (users s') u' = nlookup (users s) u') /\
  groups s' = groups s /\ userWild s' = [] /\ users_form s' /\
  (forall u' ut', In (u', ut') (users s') -> u' = u \/ In (u', ut') (users s)).
Proof.
  intros Hw Hf. unfold setUserLimits. destruct (getUserTracker s u) as [s1 ut] eqn:Eg.
  destruct (getUserTracker_spec s u s1 ut Eg) as (Hu1 & Hg1 & Hw1).
  assert (Hut : ut_links ut = [] /\ root_form (ut_qt ut)).
  { unfold getUserTracker in Eg. destruct (nlookup (users s) u) as [ut0|] eqn:E0; injection Eg as <- <-.
    - apply (Hf u ut0 E0).
    - split; [reflexivity|]. unfold newUserTracker. cbn [ut_qt]. rewrite Hw. apply newRoot_form. }
  destruct Hut as (Hl & Hr). cbv zeta. cbn [users set_users groups userWild].
  rewrite (setLimit_root _ _ x _ _ _ Hr), Hl.
  assert (Hus1 : forall u', u' <> u -> nlookup (users s1) u' = nlookup (users s) u').
  { intros u' Hne. unfold getUserTracker in Eg. destruct (nlookup (users s) u); injection Eg as <- _; [reflexivity|].
    cbn [users set_users]. apply nlookup_nset_other. assumption. }
  split; [|split; [|split; [|split; [|split]]]].
  - apply nlookup_nset_same.
  - intros u' Hne. rewrite nlookup_nset_other by assumption. apply Hus1. assumption.
  - assumption.
  - rewrite Hw1. assumption.
  - intros u' ut' H. cbn [users set_users] in H. rewrite nlookup_nset in H. destruct (N.eqb_spec u' u) as [->|Hne].
    + injection H as <-. cbn. split; [reflexivity|]. eexists. eexists. reflexivity.
    + rewrite Hus1 in H by assumption. apply (Hf u' ut' H).
  - intros u' ut' H. destruct (N.eqb_spec u' u) as [->|Hne]; [left; reflexivity|right].
    clear -H Hne Eg. unfold getUserTracker in Eg.
    assert (Hin1 : In (u', ut') (users s1)).
    { revert H. generalize (users s1). intros l. induction l as [|[k v] t IH]; cbn.
      - intros [H|[]]. injection H as -> _. contradiction Hne. reflexivity.
      - destruct (N.eqb_spec k u) as [->|]; cbn.
        + intros [H|H]; [injection H as -> _; contradiction Hne; reflexivity|right; assumption].
        + intros [H|H]; [left; assumption|right; apply IH; assumption]. }
    clear H. destruct (nlookup (users s) u); injection Eg as <- _; [assumption|].
    cbn [users set_users] in Hin1. revert Hin1. generalize (users s). intros l. induction l as [|[k v] t IH]; cbn.
    + intros [H|[]]. injection H as -> _. contradiction Hne. reflexivity.
    + destruct (N.eqb_spec k u) as [->|]; cbn.
      * intros [H|H]; [injection H as -> _; contradiction Hne; reflexivity|right; assumption].
      * intros [H|H]; [left; assumption|right; apply IH; assumption].
Qed.

Lemma setGroupLimits_spec s g cfg x : groups_form s ->
  let s' := setGroupLimits s g cfg [x] in
  nlookup (groups s') g = Some (mkGT [] (rootT (l_max cfg) (l_apps cfg))) /\
  (forall g', g' <> g -> nlookup (groups s') g' = nlookup (groups s) g') /\
  users s' = users s /\ userWild s' = userWild s /\ groups_form s'.
Proof.
  intros Hf. unfold setGroupLimits. cbv zeta.
  assert (Hgt : gt_apps (match nlookup (groups s) g with Some gt => gt | None => newGroupTracker end) = [] /\
                root_form (gt_qt (match nlookup (groups s) g with Some gt => gt | None => newGroupTracker end))).
  { destruct (nlookup (groups s) g) as [gt|] eqn:E; [apply (Hf g gt E)|]. split; [reflexivity|]. apply newRoot_form. }
  destruct Hgt as (Ha & Hr). rewrite (setLimit_root _ _ x _ _ _ Hr), Ha. cbn [groups set_groups users userWild].
  split; [apply nlookup_nset_same|]. split; [intros g' Hne; apply nlookup_nset_other; assumption|].
  split; [reflexivity|]. split; [reflexivity|].
  intros g' gt' H. cbn [groups set_groups] in H. rewrite nlookup_nset in H. destruct (N.eqb_spec g' g) as [->|Hne].
  - injection H as <-. cbn. split; [reflexivity|]. eexists. eexists. reflexivity.
  - apply (Hf g' gt' H).
Qed.

Lemma path_eqb_refl p : path_eqb p p = true.
Proof. induction p as [|x t IH]; [reflexivity|]. cbn. rewrite N.eqb_refl. exact IH. Qed.
Lemma path_eqb_true a b : path_eqb a b = true -> a = b.
Proof.
  revert b. induction a as [|x t IH]; intros [|y t'] H; try discriminate; [reflexivity|].
  cbn in H. apply andb_true_iff in H. destruct H as (H1 & H2). apply N.eqb_eq in H1. rewrite H1, (IH t' H2). reflexivity.
Qed.
Lemma plookup_pset {A} p (v : A) m p' : plookup (pset p v m) p' = if path_eqb p p' then Some v else plookup m p'.
Proof.
  induction m as [|[k x] t IH]; cbn.
  - reflexivity.
  - destruct (path_eqb k p) eqn:Ekp; cbn.
    + apply path_eqb_true in Ekp. subst k. destruct (path_eqb p p'); reflexivity.
    + destruct (path_eqb k p') eqn:Ekp'; [|exact IH].
      destruct (path_eqb p p') eqn:Epp'; [|reflexivity]. apply path_eqb_true in Ekp', Epp'. subst. rewrite path_eqb_refl in Ekp. discriminate.
Qed.
Lemma in_sub_sub_set {A} (m : list (path * list (N * A))) p u (v : A) p' u' :
  in_sub (sub_set m p u v) p' u' = (path_eqb p p' && (u' =? u)) || in_sub m p' u'.
Proof.
  unfold in_sub, sub_lookup, sub_set. rewrite plookup_pset. destruct (path_eqb p p') eqn:E; cbn [andb orb]; [|reflexivity].
  apply path_eqb_true in E. subst p'. rewrite nlookup_nset. destruct (u' =? u); [reflexivity|].
  destruct (plookup m p); reflexivity.
Qed.

(* ---- the users and groups of one limit object ---- *)
Definition ok_user (u : uname) : Prop := u <> EMPTY /\ u <> WILD.
Definition mkU (cfg : limitcfg) : utracker := mkUT [] (rootT (l_max cfg) (l_apps cfg)).
Definition mkG (cfg : limitcfg) : gtracker := mkGT [] (rootT (l_max cfg) (l_apps cfg)).
Definition tracked_named (s : ugm_state) (nm : newmaps) (x : qname) : Prop :=
  forall u ut, In (u, ut) (users s) -> in_sub (nUL nm) [x] u = true.

Lemma ipc_users_cons p cfg u t s nm :
  ipc_users p cfg (u :: t) (s, nm) =
  ipc_users p cfg t (if u =? EMPTY then (s, nm) else
                     if u =? WILD then (s, mkNM (nUL nm) (nGL nm) (pset p cfg (nUW nm)) (nGW nm) (nCG nm))
                     else (setUserLimits s u cfg p, mkNM (sub_set (nUL nm) p u cfg) (nGL nm) (nUW nm) (nGW nm) (nCG nm))).
Proof. reflexivity. Qed.
Lemma ipc_groups_cons p cfg g t s nm :
  ipc_groups p cfg (g :: t) (s, nm) =
  ipc_groups p cfg t (if g =? EMPTY then (s, nm) else
                      let s' := setGroupLimits s g cfg p in
                      let gl := sub_set (nGL nm) p g cfg in
                      if g =? WILD then (s', mkNM (nUL nm) gl (nUW nm) (pset p cfg (nGW nm)) (nCG nm))
                      else (s', mkNM (nUL nm) gl (nUW nm) (nGW nm)
                                     (pset p (match plookup (nCG nm) p with Some l => l | None => [] end ++ [g]) (nCG nm)))).
Proof. reflexivity. Qed.

Lemma ipc_users_spec x cfg us : forall s nm,
  userWild s = [] -> users_form s -> tracked_named s nm x ->
  let '(s', nm') := ipc_users [x] cfg us (s, nm) in
  userWild s' = [] /\ users_form s' /\ tracked_named s' nm' x /\ groups s' = groups s /\
  (forall u, ok_user u -> nlookup (users s') u = if mem u us then Some (mkU cfg) else nlookup (users s) u) /\
  (forall p, plookup (nUW nm') p = if path_eqb [x] p && mem WILD us then Some cfg else plookup (nUW nm) p).
Proof.
  induction us as [|u0 t IH]; intros s nm Hw Hf Ht.
  - cbn. refine (conj Hw (conj Hf (conj Ht (conj eq_refl (conj _ _))))); [intros; reflexivity|].
    intros p. rewrite andb_false_r. reflexivity.
  - rewrite ipc_users_cons.
    destruct (N.eqb_spec u0 EMPTY) as [E0|N0].
    + specialize (IH s nm Hw Hf Ht). destruct (ipc_users [x] cfg t (s, nm)) as [s' nm']. destruct IH as (A & B & C & D & E & F).
      refine (conj A (conj B (conj C (conj D (conj _ _))))).
      * intros u Hok. rewrite (E u Hok). cbn [mem]. destruct (N.eqb_spec u0 u) as [<-|]; [destruct Hok; contradiction|reflexivity].
      * intros p. rewrite F. cbn [mem]. subst u0. reflexivity.
    + destruct (N.eqb_spec u0 WILD) as [E1|N1].
      * set (nm1 := mkNM (nUL nm) (nGL nm) (pset [x] cfg (nUW nm)) (nGW nm) (nCG nm)).
        assert (Ht1 : tracked_named s nm1 x) by exact Ht.
        specialize (IH s nm1 Hw Hf Ht1). destruct (ipc_users [x] cfg t (s, nm1)) as [s' nm']. destruct IH as (A & B & C & D & E & F).
        refine (conj A (conj B (conj C (conj D (conj _ _))))).
        -- intros u Hok. rewrite (E u Hok). cbn [mem]. destruct (N.eqb_spec u0 u) as [<-|]; [destruct Hok; contradiction|reflexivity].
        -- intros p. rewrite F. cbn [mem nUW nm1]. rewrite plookup_pset. subst u0. rewrite N.eqb_refl. cbn [orb].
           rewrite andb_true_r. destruct (path_eqb [x] p); [|reflexivity]. destruct (mem WILD t); reflexivity.
      * destruct (setUserLimits_spec s u0 cfg x Hw Hf) as (S1 & S2 & S3 & S4 & S5 & S6).
        set (s1 := setUserLimits s u0 cfg [x]) in *.
        set (nm1 := mkNM (sub_set (nUL nm) [x] u0 cfg) (nGL nm) (nUW nm) (nGW nm) (nCG nm)).
        assert (Ht1 : tracked_named s1 nm1 x).
        { intros u ut Hin. cbn [nUL nm1]. rewrite in_sub_sub_set, path_eqb_refl. cbn [andb].
          destruct (S6 u ut Hin) as [->|Hin']; [rewrite N.eqb_refl; reflexivity|]. rewrite (Ht u ut Hin'). apply orb_true_r. }
        specialize (IH s1 nm1 S4 S5 Ht1). destruct (ipc_users [x] cfg t (s1, nm1)) as [s' nm']. destruct IH as (A & B & C & D & E & F).
        refine (conj A (conj B (conj C (conj _ (conj _ _))))).
        -- rewrite D. assumption.
        -- intros u Hok. rewrite (E u Hok). cbn [mem]. destruct (mem u t); [rewrite orb_true_r; reflexivity|]. rewrite orb_false_r.
           destruct (N.eqb_spec u0 u) as [<-|Hne]; [exact S1|apply S2; congruence].
        -- intros p. rewrite F. cbn [mem nUW nm1]. destruct (N.eqb_spec u0 WILD); [contradiction|]. reflexivity.
Qed.

Lemma ipc_groups_spec x cfg gs : forall s nm,
  groups_form s ->
  let '(s', nm') := ipc_groups [x] cfg gs (s, nm) in
  userWild s' = userWild s /\ groups_form s' /\ users s' = users s /\ nUL nm' = nUL nm /\ nUW nm' = nUW nm /\
  (forall g, g <> EMPTY -> nlookup (groups s') g = if mem g gs then Some (mkG cfg) else nlookup (groups s) g).
Proof.
  induction gs as [|g0 t IH]; intros s nm Hf.
  - cbn. refine (conj eq_refl (conj Hf (conj eq_refl (conj eq_refl (conj eq_refl _))))). intros; reflexivity.
  - rewrite ipc_groups_cons. cbv zeta.
    destruct (N.eqb_spec g0 EMPTY) as [E0|N0].
    + specialize (IH s nm Hf). destruct (ipc_groups [x] cfg t (s, nm)) as [s' nm']. destruct IH as (A & B & C & D & E & F).
      refine (conj A (conj B (conj C (conj D (conj E _))))). intros g Hg. rewrite (F g Hg). cbn [mem]. destruct (N.eqb_spec g0 g) as [<-|]; [contradiction|reflexivity].
    + destruct (setGroupLimits_spec s g0 cfg x Hf) as (S1 & S2 & S3 & S4 & S5).
      set (s1 := setGroupLimits s g0 cfg [x]) in *.
      assert (Hgen : forall nm1, nUL nm1 = nUL nm -> nUW nm1 = nUW nm ->
                let '(s', nm') := ipc_groups [x] cfg t (s1, nm1) in
                userWild s' = userWild s /\ groups_form s' /\ users s' = users s /\ nUL nm' = nUL nm /\ nUW nm' = nUW nm /\
                (forall g, g <> EMPTY -> nlookup (groups s') g = if mem g (g0 :: t) then Some (mkG cfg) else nlookup (groups s) g)).
      { intros nm1 H1 H2. specialize (IH s1 nm1 S5). destruct (ipc_groups [x] cfg t (s1, nm1)) as [s' nm']. destruct IH as (A & B & C & D & E & F).
        refine (conj _ (conj B (conj _ (conj _ (conj _ _))))); try congruence.
        intros g Hg. rewrite (F g Hg). cbn [mem]. destruct (mem g t); [rewrite orb_true_r; reflexivity|]. rewrite orb_false_r.
        destruct (N.eqb_spec g0 g) as [<-|Hne]; [exact S1|apply S2; congruence]. }
      destruct (g0 =? WILD); apply Hgen; reflexivity.
Qed.

(* ---- the limits of one queue ---- *)
Definition lim_okb (l : limit) : bool :=
  match lim_max l with Some r => negb ((lim_apps l =? 0) && IsZero (Some r)) | None => false end.
Definition cfg_of (l : limit) : limitcfg := mkLimit (lim_max l) (lim_apps l).

Lemma setUserLimits_maps s u cfg p : userLimits (setUserLimits s u cfg p) = userLimits s /\ groupLimits (setUserLimits s u cfg p) = groupLimits s.
Proof. unfold setUserLimits, getUserTracker. destruct (nlookup (users s) u); split; reflexivity. Qed.
Lemma setGroupLimits_maps s g cfg p : userLimits (setGroupLimits s g cfg p) = userLimits s /\ groupLimits (setGroupLimits s g cfg p) = groupLimits s.
Proof. split; reflexivity. Qed.
Lemma ipc_users_maps p cfg us : forall s nm,
  userLimits (fst (ipc_users p cfg us (s, nm))) = userLimits s /\ groupLimits (fst (ipc_users p cfg us (s, nm))) = groupLimits s.
Proof.
  induction us as [|u t IH]; intros s nm; [split; reflexivity|]. rewrite ipc_users_cons.
  destruct (u =? EMPTY); [apply IH|]. destruct (u =? WILD); [apply IH|].
  destruct (IH (setUserLimits s u cfg p) (mkNM (sub_set (nUL nm) p u cfg) (nGL nm) (nUW nm) (nGW nm) (nCG nm))) as (A & B).
  destruct (setUserLimits_maps s u cfg p) as (C & D). rewrite A, B. split; assumption.
Qed.
Lemma ipc_groups_maps p cfg gs : forall s nm,
  userLimits (fst (ipc_groups p cfg gs (s, nm))) = userLimits s /\ groupLimits (fst (ipc_groups p cfg gs (s, nm))) = groupLimits s.
Proof.
  induction gs as [|g t IH]; intros s nm; [split; reflexivity|]. rewrite ipc_groups_cons. cbv zeta.
  destruct (g =? EMPTY); [apply IH|].
  destruct (g =? WILD); match goal with |- context [ipc_groups p cfg t (?s1, ?nm1)] => destruct (IH s1 nm1) as (A & B) end;
    split; [exact A|exact B|exact A|exact B].
Qed.

Lemma ipc_limits_spec x ls : forall s nm,
  forallb lim_okb ls = true -> userWild s = [] -> users_form s -> groups_form s -> tracked_named s nm x ->
  let '(s', nm', ok) := ipc_limits [x] ls (s, nm) in
  ok = true /\ userWild s' = [] /\ users_form s' /\ groups_form s' /\ tracked_named s' nm' x /\
  userLimits s' = userLimits s /\ groupLimits s' = groupLimits s /\
  (forall u, ok_user u -> nlookup (users s') u =
      match named_limit ls lim_users u with Some l => Some (mkU (cfg_of l)) | None => nlookup (users s) u end) /\
  (forall g, g <> EMPTY -> nlookup (groups s') g =
      match named_limit ls lim_groups g with Some l => Some (mkG (cfg_of l)) | None => nlookup (groups s) g end) /\
  (forall p, plookup (nUW nm') p =
      match (if path_eqb [x] p then named_limit ls lim_users WILD else None) with Some l => Some (cfg_of l) | None => plookup (nUW nm) p end).
Proof.
  induction ls as [|l t IH]; intros s nm Hok Hw Hfu Hfg Ht.
  - cbn [ipc_limits named_limit]. refine (conj eq_refl (conj Hw (conj Hfu (conj Hfg (conj Ht (conj eq_refl (conj eq_refl (conj _ (conj _ _))))))))).
    + intros; reflexivity.
    + intros; reflexivity.
    + intros p. destruct (path_eqb [x] p); reflexivity.
  - cbn [forallb] in Hok. apply andb_true_iff in Hok. destruct Hok as (Hl & Hok).
    cbn [ipc_limits]. unfold lim_okb in Hl. destruct (lim_max l) as [r|] eqn:Er; [|discriminate].
    pose proof (ipc_users_spec x (mkLimit (Some r) (lim_apps l)) (lim_users l) s nm Hw Hfu Ht) as HU.
    pose proof (ipc_users_maps [x] (mkLimit (Some r) (lim_apps l)) (lim_users l) s nm) as HUm.
    destruct (ipc_users [x] (mkLimit (Some r) (lim_apps l)) (lim_users l) (s, nm)) as [s1 nm1].
    destruct HU as (U1 & U2 & U3 & U4 & U5 & U6). cbn [fst] in HUm. destruct HUm as (Um1 & Um2).
    assert (Hfg1 : groups_form s1) by (intros g gt H; rewrite U4 in H; apply (Hfg g gt H)).
    pose proof (ipc_groups_spec x (mkLimit (Some r) (lim_apps l)) (lim_groups l) s1 nm1 Hfg1) as HG.
    pose proof (ipc_groups_maps [x] (mkLimit (Some r) (lim_apps l)) (lim_groups l) s1 nm1) as HGm.
    destruct (ipc_groups [x] (mkLimit (Some r) (lim_apps l)) (lim_groups l) (s1, nm1)) as [s2 nm2].
    destruct HG as (G1 & G2 & G3 & G4 & G5 & G6). cbn [fst] in HGm. destruct HGm as (Gm1 & Gm2).
    assert (Hw2 : userWild s2 = []) by (rewrite G1; assumption).
    assert (Hfu2 : users_form s2) by (intros u ut H; rewrite G3 in H; apply (U2 u ut H)).
    assert (Ht2 : tracked_named s2 nm2 x) by (intros u ut H; rewrite G3 in H; rewrite G4; apply (U3 u ut H)).
    specialize (IH s2 nm2 Hok Hw2 Hfu2 G2 Ht2).
    destruct (ipc_limits [x] t (s2, nm2)) as [[s' nm'] ok]. destruct IH as (I0 & I1 & I2 & I3 & I4 & I5 & I6 & I7 & I8 & I9).
    assert (Ecfg : mkLimit (Some r) (lim_apps l) = cfg_of l) by (unfold cfg_of; rewrite Er; reflexivity).
    refine (conj I0 (conj I1 (conj I2 (conj I3 (conj I4 (conj _ (conj _ (conj _ (conj _ _))))))))).
    + congruence.
    + congruence.
    + intros u Hu. rewrite (I7 u Hu). cbn [named_limit]. destruct (named_limit t lim_users u); [reflexivity|].
      rewrite G3, (U5 u Hu), Ecfg. destruct (mem u (lim_users l)); reflexivity.
    + intros g Hg. rewrite (I8 g Hg). cbn [named_limit]. destruct (named_limit t lim_groups g); [reflexivity|].
      rewrite (G6 g Hg), U4, Ecfg. destruct (mem g (lim_groups l)); reflexivity.
    + intros p. rewrite I9. destruct (path_eqb [x] p) eqn:Ep.
      * cbn [named_limit]. destruct (named_limit t lim_users WILD); [reflexivity|].
        rewrite G5, U6, Ep, Ecfg. cbn [andb]. destruct (mem WILD (lim_users l)); reflexivity.
      * rewrite G5, U6, Ep. reflexivity.
Qed.

(* ---- queues without limits ---- *)
Fixpoint nolim (c : qconf) : bool :=
  let 'QConf _ ls qs := c in
  match ls with [] => true | _ => false end &&
  (fix go (l : list qconf) : bool := match l with [] => true | x :: t => nolim x && go t end) qs.
Lemma nolim_unfold n ls qs : nolim (QConf n ls qs) = match ls with [] => true | _ => false end && forallb nolim qs.
Proof.
  assert (H : forall l, (fix go (l : list qconf) : bool := match l with [] => true | x :: t => nolim x && go t end) l = forallb nolim l).
  { induction l as [|x t IH]; [reflexivity|]. cbn [forallb]. rewrite <- IH. reflexivity. }
  cbn [nolim]. rewrite H. reflexivity.
Qed.

Lemma qconf_ind' (P : qconf -> Prop) :
  (forall n ls qs, Forall P qs -> P (QConf n ls qs)) -> forall c, P c.
Proof.
  intros H. fix IH 1. intros [n ls qs]. apply H. induction qs as [|q t IHt]; constructor; [apply IH|apply IHt].
Qed.

Lemma ipc_nolim fx : forall c p acc, nolim c = true -> ipc fx c p acc = (acc, true).
Proof.
  intros c. induction c as [n ls qs IHq] using qconf_ind'. intros p acc H. rewrite nolim_unfold in H.
  apply andb_true_iff in H. destruct H as (Hls & Hqs). destruct ls; [|discriminate]. cbn [ipc ipc_limits negb].
  revert acc. induction qs as [|q t IHt]; intros acc; [reflexivity|].
  cbn [forallb] in Hqs. apply andb_true_iff in Hqs. destruct Hqs as (Hq & Ht). inversion IHq as [|? ? Pq Pt]; subst.
  destruct q as [cn cls cqs]. rewrite (Pq (p ++ [cfgname fx cn]) acc Hq). apply (IHt Pt Ht).
Qed.

Lemma ipc_children fx p : forall qs acc, forallb nolim qs = true ->
  (fix go (l : list qconf) (acc : ugm_state * newmaps) : ugm_state * newmaps * bool :=
     match l with
     | [] => (acc, true)
     | c :: t => let 'QConf cn _ _ := c in
                 let '(acc', ok) := ipc fx c (p ++ [cfgname fx cn]) acc in
                 if ok then go t acc' else (acc', false)
     end) qs acc = (acc, true).
Proof.
  induction qs as [|q t IH]; intros acc H; [reflexivity|]. cbn [forallb] in H. apply andb_true_iff in H. destruct H as (Hq & Ht).
  destruct q as [cn cls cqs]. rewrite (ipc_nolim fx (QConf cn cls cqs) _ acc Hq). apply (IH acc Ht).
Qed.

Lemma nolim_conf_at : forall rest c c', nolim c = true -> conf_at c rest = Some c' -> nolim c' = true.
Proof.
  induction rest as [|x t IH]; intros c c' Hc H.
  - cbn in H. injection H as <-. assumption.
  - destruct c as [n ls qs]. cbn [conf_at] in H. rewrite nolim_unfold in Hc. apply andb_true_iff in Hc. destruct Hc as (_ & Hqs).
    destruct (conf_find qs x) as [c1|] eqn:Ef; [|discriminate].
    assert (Hc1 : nolim c1 = true).
    { clear -Ef Hqs. induction qs as [|[cn cls cqs] tq IHq]; [discriminate|]. cbn [conf_find] in Ef. cbn [forallb] in Hqs.
      apply andb_true_iff in Hqs. destruct Hqs as (H1 & H2). destruct (qlower cn =? qlower x); [injection Ef as <-; assumption|apply IHq; assumption]. }
    apply (IH c1 c' Hc1 H).
Qed.
Lemma deep_limits n ls qs c rest : forallb nolim qs = true ->
  match conf_at (QConf n ls qs) (c :: rest) with Some (QConf _ ls' _) => ls' = [] | None => True end.
Proof.
  intros Hqs. cbn [conf_at]. destruct (conf_find qs c) as [c1|] eqn:Ef; [|exact I].
  assert (Hc1 : nolim c1 = true).
  { clear -Ef Hqs. induction qs as [|[cn cls cqs] tq IHq]; [discriminate|]. cbn [conf_find] in Ef. cbn [forallb] in Hqs.
    apply andb_true_iff in Hqs. destruct Hqs as (H1 & H2). destruct (qlower cn =? qlower c); [injection Ef as <-; assumption|apply IHq; assumption]. }
  destruct (conf_at c1 rest) as [[n' ls' qs']|] eqn:E; [|exact I].
  pose proof (nolim_conf_at rest c1 _ Hc1 E) as H. rewrite nolim_unfold in H. destruct ls'; [reflexivity|discriminate].
Qed.
Lemma deep_spec n ls qs w c rest : forallb nolim qs = true -> spec_limit (QConf n ls qs) w (ROOT :: c :: rest) = no_limit.
Proof.
  intros Hqs. pose proof (deep_limits n ls qs c rest Hqs) as H. unfold spec_limit.
  destruct (conf_at (QConf n ls qs) (c :: rest)) as [[n' ls' qs']|]; [|reflexivity]. subst ls'. destruct w; reflexivity.
Qed.
Lemma deep_named n ls qs w c rest : forallb nolim qs = true -> named_in (QConf n ls qs) w (ROOT :: c :: rest) = false.
Proof.
  intros Hqs. pose proof (deep_limits n ls qs c rest Hqs) as H. unfold named_in, conf_limits.
  destruct (conf_at (QConf n ls qs) (c :: rest)) as [[n' ls' qs']|]; [|reflexivity]. subst ls'. destruct w; reflexivity.
Qed.

Lemma named_limit_In ls sel k l : named_limit ls sel k = Some l -> In l ls.
Proof.
  induction ls as [|x t IH]; [discriminate|]. cbn [named_limit]. destruct (named_limit t sel k) as [y|].
  - intros H. injection H as <-. right. apply IH. reflexivity.
  - destruct (mem k (sel x)); [intros H; injection H as <-; left; reflexivity|discriminate].
Qed.
Lemma lim_okb_real l : lim_okb l = true -> limit_nf (Some l) <> no_limit.
Proof.
  unfold lim_okb, limit_nf, norm_limit, no_limit. destruct (lim_max l) as [r|]; [|discriminate]. intros H E.
  apply negb_true_iff in H. apply andb_false_iff in H. destruct H as [H|H].
  - injection E as _ E2. rewrite E2 in H. discriminate.
  - rewrite H in E. discriminate.
Qed.

Definition root_only (c : qconf) : Prop :=
  let 'QConf _ ls qs := c in forallb lim_okb ls = true /\ forallb nolim qs = true.

Lemma map_users_id s sel f : (forall u ut, In (u, ut) (users s) -> sel u = false) -> map_users s sel f = s.
Proof.
  intros H. unfold map_users. assert (E : map (fun '(u, ut) => if sel u then (u, mkUT (ut_links ut) (f (ut_qt ut))) else (u, ut)) (users s) = users s).
  { rewrite <- (map_id (users s)) at 2. apply map_ext_in. intros [u ut] Hin. rewrite (H u ut Hin). reflexivity. }
  rewrite E. destruct s; reflexivity.
Qed.
Lemma plookup_In_key {A} (m : list (path * A)) p v : In (p, v) m -> plookup m p <> None.
Proof.
  induction m as [|[k x] t IH]; [contradiction|]. intros [H|H]; cbn.
  - injection H as -> ->. rewrite path_eqb_refl. discriminate.
  - destruct (path_eqb k p); [discriminate|apply IH; assumption].
Qed.

Lemma first_load conf rn : root_only conf -> qlower rn = ROOT ->
  exists s1, ugm_update_config ugm_init conf rn = UOk s1 /\ KInv conf s1 /\ conf_real conf.
Proof.
  destruct conf as [n ls qs]. intros (Hls & Hqs) Hrn.
  unfold ugm_update_config, update_config_gen. unfold cfgname. rewrite Hrn. cbn [ipc].
  assert (Hu0 : users_form ugm_init) by (intros u ut H; discriminate H).
  assert (Hg0 : groups_form ugm_init) by (intros g gt H; discriminate H).
  assert (Ht0 : tracked_named ugm_init nm_empty ROOT) by (intros u ut []).
  pose proof (ipc_limits_spec ROOT ls ugm_init nm_empty Hls eq_refl Hu0 Hg0 Ht0) as HS.
  destruct (ipc_limits [ROOT] ls (ugm_init, nm_empty)) as [[sa nm] ok].
  destruct HS as (-> & Hw & Hfu & Hfg & Htn & Hul & Hgl & HU & HG & HWc). cbn [negb].
  rewrite (ipc_children true [ROOT] qs (sa, nm) Hqs). cbn [negb].
  cbn [userLimits groupLimits ugm_init] in Hul, Hgl. rewrite Hgl. cbn [dropped ordl flat_map clearGroups].
  rewrite Hul. cbn [dropped ordl flat_map clearUsers fold_left].
  assert (Ecw : clearUserWild true false sa nm = sa) by (unfold clearUserWild; rewrite Hw; reflexivity). rewrite Ecw.
  assert (Eaw : applyUserWild false sa nm = sa).
  { unfold applyUserWild, ordl. assert (Hk : forall p cfg, In (p, cfg) (nUW nm) -> p = [ROOT]).
    { intros p cfg Hin. pose proof (plookup_In_key _ _ _ Hin) as Hne. rewrite HWc in Hne.
      destruct (path_eqb [ROOT] p) eqn:Ep; [symmetry; apply path_eqb_true; assumption|]. contradiction Hne. reflexivity. }
    revert Hk. generalize (nUW nm). intros l. induction l as [|[p cfg] t IH]; intros Hk; [reflexivity|]. cbn [fold_left].
    rewrite map_users_id.
    - apply IH. intros p' cfg' Hin. apply (Hk p' cfg'). right. assumption.
    - intros u ut Hin. rewrite (Hk p cfg (or_introl eq_refl)). rewrite (Htn u ut Hin). reflexivity. }
  rewrite Eaw. eexists. split; [reflexivity|].
  set (s1 := replaceLimitConfigs sa nm).
  assert (HW1 : forall p, plookup (userWild s1) p = if path_eqb [ROOT] p then option_map cfg_of (named_limit ls lim_users WILD) else None).
  { intros p. cbn [userWild s1 replaceLimitConfigs]. rewrite HWc. cbn [nUW nm_empty plookup]. destruct (path_eqb [ROOT] p); [|reflexivity].
    destruct (named_limit ls lim_users WILD); reflexivity. }
  assert (Hnf : forall l, limit_nf (Some l) = norm_limit (lim_max l) (lim_apps l)).
  { intros l. unfold limit_nf. destruct (lim_max l); reflexivity. }
  (* the expected limit and the named set on the root, and nothing below *)
  assert (HrootT : forall m ma E N, nl (m, ma) = E [] -> (forall c rest, N (c :: rest) = false) ->
             good_at [ROOT] E N (rootT m ma)).
  { intros m ma E N H0 Hd. constructor.
    - intros [|c rest] l Hl; [unfold alim in Hl; cbn in Hl; injection Hl as <-; assumption|discriminate Hl].
    - intros [|c rest] q Hq; [cbn in Hq; injection Hq as <-; reflexivity|discriminate Hq].
    - intros [|c rest] H; [discriminate|rewrite Hd in H; discriminate]. }
  split.
  - intros w Hok. destruct w as [u|g]; cbn [who_root who_wc who_tt].
    + destruct Hok as (Hne & Hnw). change (users s1) with (users sa). rewrite (HU u (conj Hne Hnw)). cbn [nlookup ugm_init users].
      assert (HN0 : Nw (QConf n ls qs) (User u) [] = match named_limit ls lim_users u with Some _ => true | None => false end) by reflexivity.
      assert (HE0 : Ew (QConf n ls qs) (User u) [] = match named_limit ls lim_users u with Some l => limit_nf (Some l) | None => limit_nf (named_limit ls lim_users WILD) end) by reflexivity.
      split.
      * destruct (named_limit ls lim_users u) as [l|] eqn:El; cbn [option_map mkU ut_qt cfg_of l_max l_apps].
        -- apply HrootT; [rewrite HE0, Hnf; reflexivity|]. intros c rest. apply deep_named. assumption.
        -- intros [|c rest]; [rewrite HN0; reflexivity|apply deep_named; assumption].
      * intros [|c rest] HN.
        -- unfold nl, dflt. change ([ROOT] ++ []) with [ROOT]. rewrite HW1, path_eqb_refl. rewrite HN0 in HN.
           rewrite HE0. destruct (named_limit ls lim_users u); [discriminate|].
           destruct (named_limit ls lim_users WILD) as [l|]; cbn [option_map cfg_of l_max l_apps fst snd]; [rewrite Hnf; reflexivity|reflexivity].
        -- unfold nl, dflt. change ([ROOT] ++ c :: rest) with (ROOT :: c :: rest). rewrite HW1. cbn [path_eqb]. rewrite N.eqb_refl. cbn [andb fst snd].
           unfold Ew. rewrite deep_spec by assumption. reflexivity.
    + change (groups s1) with (groups sa). rewrite (HG g Hok). cbn [nlookup ugm_init groups].
      assert (HN0 : Nw (QConf n ls qs) (Group g) [] = match named_limit ls lim_groups g with Some _ => true | None => false end) by reflexivity.
      assert (HE0 : Ew (QConf n ls qs) (Group g) [] = limit_nf (named_limit ls lim_groups g)) by reflexivity.
      split.
      * destruct (named_limit ls lim_groups g) as [l|] eqn:El; cbn [option_map mkG gt_qt cfg_of l_max l_apps].
        -- apply HrootT; [rewrite HE0, Hnf; reflexivity|]. intros c rest. apply deep_named. assumption.
        -- intros [|c rest]; [rewrite HN0; reflexivity|apply deep_named; assumption].
      * intros [|c rest] HN; unfold nl, dflt; cbn [fst snd].
        -- rewrite HN0 in HN. rewrite HE0. destruct (named_limit ls lim_groups g); [discriminate|reflexivity].
        -- unfold Ew. rewrite deep_spec by assumption. reflexivity.
  - intros w Hok [|c rest] HN.
    + destruct w as [u|g]; unfold Nw, Ew in *; cbn in HN |- *.
      * destruct (named_limit ls lim_users u) as [l|] eqn:El; [|discriminate]. apply lim_okb_real.
        rewrite forallb_forall in Hls. apply Hls. apply (named_limit_In _ _ _ _ El).
      * destruct (named_limit ls lim_groups g) as [l|] eqn:El; [|discriminate]. apply lim_okb_real.
        rewrite forallb_forall in Hls. apply Hls. apply (named_limit_In _ _ _ _ El).
    + unfold Nw in HN. rewrite deep_named in HN by assumption. discriminate.
Qed.

(* (b) + (a): the first configuration loaded into a fresh manager, limits on the root queue only,
   followed by any history without a reload *)
Theorem reload_exact_partial_lemma conf rn ops s :
  root_only conf -> qlower rn = ROOT ->
  no_config ops -> run ugm_init (OConfig conf rn :: ops) = Some s ->
  forall w names, who_ok w -> limit_exact s conf w (ROOT :: names) = true.
Proof.
  intros Hro Hrn Hno Hr. destruct (first_load conf rn Hro Hrn) as (s1 & Hs1 & HK & HR).
  cbn [run] in Hr. unfold step, step_gen in Hr. fold (ugm_update_config ugm_init conf rn) in Hr. rewrite Hs1 in Hr. cbn [fst] in Hr.
  apply (limits_stable_lemma conf s1 ops s HR HK Hno Hr).
Qed.
