(* C05, configuration clause, tree level: a tracker tree is [good] for an expected-limit function
   E and a set N of queues where a named limit is configured when every tracker carries the
   expected limit, stores its own queue path, and the trackers of N exist.  Trackers created on
   the way (increase, headroom, canRunApp) get the expected limit when the wild card
   configuration agrees with E outside N; decrease only removes trackers without a limit.
   Proofs only. *)
From Coq Require Import List NArith ZArith Bool Lia.
From YK Require Import Base.Int64 Base.Res Ugm.Tracker Ugm.Manager Ugm.UgmSpec Ugm.TrackerFacts Ugm.TreeInv.
Import ListNotations.
Open Scope N_scope.

Definition nl (l : ores * N) : nlimit := norm_limit (fst l) (snd l).
(* the limit newQueueTracker gives to a new tracker for the queue path [full] *)
Definition dflt (wc : list (path * limitcfg)) (tt : ttype) (full : path) : ores * N :=
  match (match tt with TUser => plookup wc full | TGroup => None end) with
  | Some cfg => (l_max cfg, l_apps cfg)
  | None => (None, 0)
  end.

Record good_at (pre : path) (E : list qname -> nlimit) (N : list qname -> bool) (q : qt) : Prop := mkGood {
  g_lim : forall names l, alim q names = Some l -> nl l = E names;
  g_path : forall names n, sub_at names q = Some n -> q_path n = pre ++ names;
  g_ex : forall names, N names = true -> sub_at names q <> None }.

Definition named_real (E : list qname -> nlimit) (N : list qname -> bool) : Prop :=
  forall names, N names = true -> E names <> no_limit.
Definition wc_ok (wc : list (path * limitcfg)) (tt : ttype) (pre : path) (E : list qname -> nlimit) (N : list qname -> bool) : Prop :=
  forall names, N names = false -> nl (dflt wc tt (pre ++ names)) = E names.

Lemma newQT_lim wc tt pp c : (q_max (newQT wc tt pp c), q_maxApps (newQT wc tt pp c)) = dflt wc tt (pp ++ [c]).
Proof. unfold newQT, dflt. destruct (match tt with TUser => plookup wc (pp ++ [c]) | TGroup => None end); reflexivity. Qed.
Lemma newQT_path wc tt pp c : q_path (newQT wc tt pp c) = pp ++ [c].
Proof. unfold newQT. destruct (match tt with TUser => plookup wc (pp ++ [c]) | TGroup => None end); reflexivity. Qed.

Lemma unreal_no_limit m ma : (ma =? 0) && IsZero m = true -> norm_limit m ma = no_limit.
Proof. intros H. apply andb_true_iff in H. destruct H as (H1 & H2). apply N.eqb_eq in H1. unfold norm_limit, no_limit. rewrite H1, H2. reflexivity. Qed.

(* the subtree of a child *)
Lemma good_child pre E N q c ch : good_at pre E N q -> find_child c q = Some ch ->
  good_at (pre ++ [c]) (fun names => E (c :: names)) (fun names => N (c :: names)) ch.
Proof.
  intros [G1 G2 G3] Hc. constructor.
  - intros names l Hl. apply (G1 (c :: names)). unfold alim in *. cbn [sub_at]. rewrite Hc. assumption.
  - intros names n Hn. rewrite <- app_assoc. cbn [app]. apply (G2 (c :: names)). cbn [sub_at]. rewrite Hc. assumption.
  - intros names HN. specialize (G3 (c :: names) HN). cbn [sub_at] in G3. rewrite Hc in G3. assumption.
Qed.
Lemma good_new_child wc tt pre E N q c : good_at pre E N q -> wc_ok wc tt pre E N -> find_child c q = None ->
  good_at (pre ++ [c]) (fun names => E (c :: names)) (fun names => N (c :: names)) (newQT wc tt (q_path q) c).
Proof.
  intros [G1 G2 G3] Hwc Hc.
  assert (Hp : q_path q = pre) by (rewrite (G2 [] q eq_refl); apply app_nil_r).
  assert (HN : forall names, N (c :: names) = false).
  { intros names. destruct (N (c :: names)) eqn:E1; [|reflexivity]. exfalso. apply (G3 (c :: names) E1). cbn [sub_at]. rewrite Hc. reflexivity. }
  constructor.
  - intros [|c' rest] l Hl.
    + unfold alim in Hl. cbn [sub_at] in Hl. injection Hl as <-. rewrite newQT_lim, Hp. apply (Hwc [c]). apply HN.
    + unfold alim in Hl. rewrite sub_at_newQT in Hl. discriminate.
  - intros [|c' rest] n Hn.
    + cbn [sub_at] in Hn. injection Hn as <-. rewrite newQT_path, Hp, app_nil_r. reflexivity.
    + rewrite sub_at_newQT in Hn. discriminate.
  - intros names H. rewrite HN in H. discriminate.
Qed.
Lemma good_child_or_new wc tt pre E N q c : good_at pre E N q -> wc_ok wc tt pre E N ->
  good_at (pre ++ [c]) (fun names => E (c :: names)) (fun names => N (c :: names)) (child_or_new wc tt c q).
Proof.
  intros G Hwc. unfold child_or_new. destruct (find_child c q) as [ch|] eqn:Ec.
  - apply (good_child pre E N q c ch); assumption.
  - apply good_new_child; assumption.
Qed.
Lemma wc_ok_child wc tt pre E N c : wc_ok wc tt pre E N ->
  wc_ok wc tt (pre ++ [c]) (fun names => E (c :: names)) (fun names => N (c :: names)).
Proof. intros H names HN. rewrite <- app_assoc. cbn [app]. apply (H (c :: names)). assumption. Qed.

(* putting a good child back under its parent, where only usage/applications of the parent changed *)
Lemma good_set_child pre E N q c X q' : good_at pre E N q ->
  good_at (pre ++ [c]) (fun names => E (c :: names)) (fun names => N (c :: names)) X ->
  q_max q' = q_max q -> q_maxApps q' = q_maxApps q -> q_path q' = q_path q ->
  q_children q' = nset c X (q_children q) ->
  good_at pre E N q'.
Proof.
  intros [G1 G2 G3] [X1 X2 X3] Hm Hma Hp Hch.
  assert (Hsub : forall c' rest, sub_at (c' :: rest) q' = if c' =? c then sub_at rest X else sub_at (c' :: rest) q).
  { intros c' rest. cbn [sub_at]. unfold find_child. rewrite Hch, nlookup_nset. destruct (c' =? c); reflexivity. }
  constructor.
  - intros [|c' rest] l Hl.
    + apply (G1 []). unfold alim in *. cbn [sub_at] in *. rewrite Hm, Hma in Hl. assumption.
    + unfold alim in Hl. rewrite Hsub in Hl. destruct (N.eqb_spec c' c) as [->|].
      * apply (X1 rest l). assumption.
      * apply (G1 (c' :: rest) l). assumption.
  - intros [|c' rest] n Hn.
    + cbn [sub_at] in Hn. injection Hn as <-. rewrite Hp. apply (G2 [] q eq_refl).
    + rewrite Hsub in Hn. destruct (N.eqb_spec c' c) as [->|].
      * rewrite (X2 rest n Hn), <- app_assoc. reflexivity.
      * apply (G2 (c' :: rest) n Hn).
  - intros [|c' rest] HN; [discriminate|]. rewrite Hsub. destruct (N.eqb_spec c' c) as [->|].
    + apply (X3 rest). assumption.
    + apply (G3 (c' :: rest) HN).
Qed.
(* only usage and applications of the root tracker changed *)
Lemma good_same pre E N q q' : good_at pre E N q ->
  q_max q' = q_max q -> q_maxApps q' = q_maxApps q -> q_path q' = q_path q -> q_children q' = q_children q ->
  good_at pre E N q'.
Proof.
  intros [G1 G2 G3] Hm Hma Hp Hch.
  assert (Hsub : forall c' rest, sub_at (c' :: rest) q' = sub_at (c' :: rest) q) by (intros; cbn [sub_at]; unfold find_child; rewrite Hch; reflexivity).
  constructor.
  - intros [|c' rest] l Hl; [apply (G1 []); unfold alim in *; cbn [sub_at] in *; rewrite Hm, Hma in Hl; assumption|].
    apply (G1 (c' :: rest)). unfold alim in *. rewrite Hsub in Hl. assumption.
  - intros [|c' rest] n Hn; [cbn [sub_at] in Hn; injection Hn as <-; rewrite Hp; apply (G2 [] q eq_refl)|].
    rewrite Hsub in Hn. apply (G2 _ _ Hn).
  - intros [|c' rest] HN; [discriminate|]. rewrite Hsub. apply (G3 _ HN).
Qed.

Lemma inc_here_same a u q :
  q_max (inc_here a u q) = q_max q /\ q_maxApps (inc_here a u q) = q_maxApps q /\
  q_path (inc_here a u q) = q_path q /\ q_children (inc_here a u q) = q_children q.
Proof. destruct q; repeat split; reflexivity. Qed.
Lemma set_child_same c X q :
  q_max (set_child c X q) = q_max q /\ q_maxApps (set_child c X q) = q_maxApps q /\
  q_path (set_child c X q) = q_path q /\ q_children (set_child c X q) = nset c X (q_children q).
Proof. destruct q; repeat split; reflexivity. Qed.

(* ---- increase, headroom, canRunApp ---- *)
Lemma good_increase wc tt a u tl : forall x pre E N q,
  good_at pre E N q -> wc_ok wc tt pre E N -> good_at pre E N (increase wc tt (x :: tl) a u q).
Proof.
  induction tl as [|c t IH]; intros x pre E N q G Hwc.
  - change (increase wc tt [x] a u q) with (inc_here a u q).
    destruct (inc_here_same a u q) as (A & B & C & D). apply (good_same pre E N q); assumption.
  - rewrite increase_cons.
    pose proof (IH c (pre ++ [c]) _ _ _ (good_child_or_new wc tt pre E N q c G Hwc) (wc_ok_child wc tt pre E N c Hwc)) as GX.
    set (X := increase wc tt (c :: t) a u (child_or_new wc tt c q)) in *.
    destruct (inc_here_same a u (set_child c X q)) as (A & B & C & D).
    destruct (set_child_same c X q) as (A' & B' & C' & D').
    apply (good_set_child pre E N q c X); try assumption; congruence.
Qed.
Lemma good_headroom wc tt tl : forall x pre E N q,
  good_at pre E N q -> wc_ok wc tt pre E N -> good_at pre E N (fst (headroom wc tt (x :: tl) q)).
Proof.
  induction tl as [|c t IH]; intros x pre E N q G Hwc; [exact G|].
  rewrite headroom_cons.
  pose proof (IH c (pre ++ [c]) _ _ _ (good_child_or_new wc tt pre E N q c G Hwc) (wc_ok_child wc tt pre E N c Hwc)) as GX.
  destruct (headroom wc tt (c :: t) (child_or_new wc tt c q)) as [X chr]. cbn [fst] in *.
  destruct (set_child_same c X q) as (A' & B' & C' & D').
  apply (good_set_child pre E N q c X); assumption.
Qed.
Lemma good_canRunApp wc tt a tl : forall x pre E N q,
  good_at pre E N q -> wc_ok wc tt pre E N -> good_at pre E N (fst (canRunApp wc tt (x :: tl) a q)).
Proof.
  induction tl as [|c t IH]; intros x pre E N q G Hwc; [exact G|].
  rewrite canRunApp_cons.
  pose proof (IH c (pre ++ [c]) _ _ _ (good_child_or_new wc tt pre E N q c G Hwc) (wc_ok_child wc tt pre E N c Hwc)) as GX.
  destruct (canRunApp wc tt (c :: t) a (child_or_new wc tt c q)) as [X ok]. cbn [fst] in *.
  destruct (set_child_same c X q) as (A' & B' & C' & D').
  apply (good_set_child pre E N q c X); assumption.
Qed.

(* ---- decrease ---- *)
Lemma dec_here_same a u rm q :
  q_max (fst (dec_here a u rm q)) = q_max q /\ q_maxApps (fst (dec_here a u rm q)) = q_maxApps q /\
  q_path (fst (dec_here a u rm q)) = q_path q /\ q_children (fst (dec_here a u rm q)) = q_children q.
Proof. destruct q; repeat split; reflexivity. Qed.

Lemma good_del_child pre E N q c q' : good_at pre E N q ->
  (forall names, N (c :: names) = false) ->
  q_max q' = q_max q -> q_maxApps q' = q_maxApps q -> q_path q' = q_path q ->
  q_children q' = ndel c (q_children q) ->
  good_at pre E N q'.
Proof.
  intros [G1 G2 G3] HN Hm Hma Hp Hch.
  assert (Hsub : forall c' rest, sub_at (c' :: rest) q' = if c' =? c then None else sub_at (c' :: rest) q).
  { intros c' rest. cbn [sub_at]. unfold find_child. rewrite Hch. destruct (N.eqb_spec c' c) as [->|Hne].
    - rewrite nlookup_ndel_same. reflexivity.
    - rewrite nlookup_ndel_other by assumption. reflexivity. }
  constructor.
  - intros [|c' rest] l Hl; [apply (G1 []); unfold alim in *; cbn [sub_at] in *; rewrite Hm, Hma in Hl; assumption|].
    unfold alim in Hl. rewrite Hsub in Hl. destruct (c' =? c); [discriminate|]. apply (G1 (c' :: rest) l Hl).
  - intros [|c' rest] n Hn; [cbn [sub_at] in Hn; injection Hn as <-; rewrite Hp; apply (G2 [] q eq_refl)|].
    rewrite Hsub in Hn. destruct (c' =? c); [discriminate|]. apply (G2 _ _ Hn).
  - intros [|c' rest] H; [discriminate|]. rewrite Hsub. destruct (N.eqb_spec c' c) as [->|]; [rewrite HN in H; discriminate|].
    apply (G3 _ H).
Qed.

Lemma good_decrease a u rm tl : forall x pre E N q,
  named_real E N -> good_at pre E N q -> good_at pre E N (fst (decrease (x :: tl) a u rm q)).
Proof.
  induction tl as [|c t IH]; intros x pre E N q HR G.
  - change (decrease [x] a u rm q) with (dec_here a u rm q).
    destruct (dec_here_same a u rm q) as (A & B & C & D). apply (good_same pre E N q); assumption.
  - rewrite decrease_cons. destruct (find_child c q) as [ch|] eqn:Ec; [|exact G].
    assert (HR' : named_real (fun names => E (c :: names)) (fun names => N (c :: names))) by (intros names; apply HR).
    pose proof (IH c (pre ++ [c]) _ _ ch HR' (good_child pre E N q c ch G Ec)) as GX.
    destruct (decrease (c :: t) a u rm ch) as [ch' r] eqn:Ed. cbn [fst] in GX.
    assert (Hr : r = true -> removable ch' = true).
    { clear -Ed. intros ->. destruct t as [|c2 t2].
      - change (decrease [c] a u rm ch) with (dec_here a u rm ch) in Ed. destruct (dec_here_fields a u rm ch) as (H & _). rewrite Ed in H. symmetry. exact H.
      - rewrite decrease_cons in Ed. destruct (find_child c2 ch) as [ch2|]; [|discriminate].
        destruct (decrease (c2 :: t2) a u rm ch2) as [x y]. set (q1 := if y then _ else _) in Ed.
        destruct (dec_here_fields a u rm q1) as (H & _). rewrite Ed in H. symmetry. exact H. }
    destruct r.
    + (* the child is removed: it cannot be a tracker with a named limit *)
      destruct (removable_facts ch' (Hr eq_refl)) as (Hnc & _ & _ & Hm0 & Hmz).
      assert (HN : forall names, N (c :: names) = false).
      { intros names. destruct (N (c :: names)) eqn:EN; [|reflexivity]. exfalso.
        destruct GX as [X1 X2 X3]. pose proof (X3 names EN) as Hex. destruct names as [|c2 rest].
        - apply (HR [c] EN). rewrite <- (X1 [] (q_max ch', q_maxApps ch') eq_refl). unfold nl. cbn [fst snd].
          apply unreal_no_limit. rewrite Hm0, Hmz. reflexivity.
        - apply Hex. apply sub_at_no_children. assumption. }
      destruct (dec_here_same a u rm (del_child c q)) as (A & B & C & D). cbn [fst].
      apply (good_del_child pre E N q c); try assumption.
      * rewrite A. destruct q; reflexivity.
      * rewrite B. destruct q; reflexivity.
      * rewrite C. destruct q; reflexivity.
      * rewrite D. destruct q; reflexivity.
    + destruct (dec_here_same a u rm (set_child c ch' q)) as (A & B & C & D). cbn [fst].
      destruct (set_child_same c ch' q) as (A' & B' & C' & D').
      apply (good_set_child pre E N q c ch'); try assumption; congruence.
Qed.
