(* Executable model of pkg/scheduler/ugm/manager.go, user_tracker.go, group_tracker.go.
   Definitions only.  API used by other models:
     ugm_state, ugm_init, ugm_increase, ugm_decrease, ugm_headroom, ugm_can_run_app,
     ugm_update_config.
   Go maps are association lists in insertion order.  UpdateConfig iterates Go maps in its
   reset phases; the model iterates them in list order by default and takes the order as a
   parameter (update_config_gen): the correspondence check accepts the implementation's result
   when it is the model's result for some order (see Oracles/UgmCheck.v). *)
From Coq Require Import List NArith ZArith Bool.
From YK Require Import Base.Int64 Base.Res Ugm.Tracker.
Import ListNotations.
Open Scope N_scope.

(* security.UserGroup *)
Definition ugi := (uname * list gname)%type.

(* UserTracker: appGroupTrackers (application -> *GroupTracker, nil allowed: [None]) *)
Record utracker := mkUT { ut_links : list (app * option gname); ut_qt : qt }.
(* GroupTracker: applications (application -> user) *)
Record gtracker := mkGT { gt_apps : list (app * uname); gt_qt : qt }.

Record ugm_state := mkUgm {
  users : list (uname * utracker);
  groups : list (gname * gtracker);
  userWild : list (path * limitcfg);                 (* userWildCardLimitsConfig *)
  groupWild : list (path * limitcfg);                (* groupWildCardLimitsConfig *)
  cfgGroups : list (path * list gname);              (* configuredGroups *)
  userLimits : list (path * list (uname * limitcfg));
  groupLimits : list (path * list (gname * limitcfg)) }.

Definition ugm_init : ugm_state := mkUgm [] [] [] [] [] [] [].

Definition set_users (s : ugm_state) (u : list (uname * utracker)) : ugm_state :=
  mkUgm u (groups s) (userWild s) (groupWild s) (cfgGroups s) (userLimits s) (groupLimits s).
Definition set_groups (s : ugm_state) (g : list (gname * gtracker)) : ugm_state :=
  mkUgm (users s) g (userWild s) (groupWild s) (cfgGroups s) (userLimits s) (groupLimits s).

Definition newUserTracker (s : ugm_state) : utracker := mkUT [] (newRootQT (userWild s) TUser).
Definition newGroupTracker : gtracker := mkGT [] (newRootQT [] TGroup).

(* getUserTracker: creates the tracker when it does not exist *)
Definition getUserTracker (s : ugm_state) (u : uname) : ugm_state * utracker :=
  match nlookup (users s) u with
  | Some ut => (s, ut)
  | None => let ut := newUserTracker s in (set_users s (nset u ut (users s)), ut)
  end.

Definition hasGroupForApp (ut : utracker) (a : app) : bool :=
  match nlookup (ut_links ut) a with Some _ => true | None => false end.
Definition getGroupForApp (ut : utracker) (a : app) : gname :=
  match nlookup (ut_links ut) a with Some (Some g) => g | _ => EMPTY end.

(* ensureGroupInternal: leaf to root; [rp] is the reversed queue path *)
Fixpoint first_match (cgs ugroups : list gname) : option gname :=
  match cgs with
  | [] => None
  | cg :: t => if mem cg ugroups then Some cg else first_match t ugroups
  end.
Fixpoint ensureGroupInternal (s : ugm_state) (ugroups : list gname) (rp : list qname) : gname :=
  match rp with
  | [] => EMPTY
  | _ :: rp' =>
      let p := rev rp in
      match (match plookup (cfgGroups s) p with Some cgs => first_match cgs ugroups | None => None end) with
      | Some g => g
      | None =>
          match plookup (groupWild s) p with
          | Some _ => WILD
          | None => match rp' with [] => EMPTY | _ => ensureGroupInternal s ugroups rp' end
          end
      end
  end.
Definition ensureGroup (s : ugm_state) (user : ugi) (p : path) : gname :=
  match snd user with [] => EMPTY | _ => ensureGroupInternal s (snd user) (rev p) end.

(* ensureGroupTrackerForApp: the user tracker must exist *)
Definition ensureGroupTrackerForApp (s : ugm_state) (p : path) (a : app) (user : ugi) : ugm_state :=
  match nlookup (users s) (fst user) with
  | None => s     (* not reachable: every caller created the tracker *)
  | Some ut =>
      if hasGroupForApp ut a then s else
      let g := ensureGroup s user p in
      let s1 := if g =? EMPTY then s else
                match nlookup (groups s) g with
                | Some _ => s
                | None => set_groups s (nset g newGroupTracker (groups s))
                end in
      let link := if g =? EMPTY then None else Some g in
      set_users s1 (nset (fst user) (mkUT (nset a link (ut_links ut)) (ut_qt ut)) (users s1))
  end.

Definition ensure_link (s : ugm_state) (p : path) (a : app) (user : ugi) : ugm_state :=
  match nlookup (users s) (fst user) with
  | Some ut => if hasGroupForApp ut a then s else ensureGroupTrackerForApp s p a user
  | None => s
  end.

(* IncreaseTrackedResource *)
Definition ugm_increase (s : ugm_state) (p : path) (a : app) (usage : ores) (user : ugi) : ugm_state :=
  if match p with [] => true | _ => false end || (a =? EMPTY) || is_nil usage || (fst user =? EMPTY) then s else
  let '(s1, _) := getUserTracker s (fst user) in
  let s2 := ensure_link s1 p a user in
  match nlookup (users s2) (fst user) with
  | None => s2
  | Some ut =>
      let ut' := mkUT (ut_links ut) (increase (userWild s2) TUser p a usage (ut_qt ut)) in
      let s3 := set_users s2 (nset (fst user) ut' (users s2)) in
      let g := getGroupForApp ut' a in
      if g =? EMPTY then s3 else
      match nlookup (groups s3) g with
      | None => s3                                  (* "group tracker should be available" *)
      | Some gt =>
          let gt' := mkGT (nset a (fst user) (gt_apps gt)) (increase [] TGroup p a usage (gt_qt gt)) in
          set_groups s3 (nset g gt' (groups s3))
      end
  end.

(* DecreaseTrackedResource *)
Definition ugm_decrease (s : ugm_state) (p : path) (a : app) (usage : ores) (user : ugi) (removeApp : bool) : ugm_state :=
  if match p with [] => true | _ => false end || (a =? EMPTY) || is_nil usage || (fst user =? EMPTY) then s else
  match nlookup (users s) (fst user) with
  | None => s
  | Some ut =>
      let g := getGroupForApp ut a in
      let links' := if removeApp then ndel a (ut_links ut) else ut_links ut in
      let '(q', rm) := decrease p a usage removeApp (ut_qt ut) in
      let s1 := if rm then set_users s (ndel (fst user) (users s))
                else set_users s (nset (fst user) (mkUT links' q') (users s)) in
      if g =? EMPTY then s1 else
      match nlookup (groups s1) g with
      | None => s1
      | Some gt =>
          let gapps' := if removeApp then ndel a (gt_apps gt) else gt_apps gt in
          let '(gq', grm) := decrease p a usage removeApp (gt_qt gt) in
          if grm then set_groups s1 (ndel g (groups s1))
          else set_groups s1 (nset g (mkGT gapps' gq') (groups s1))
      end
  end.

(* Headroom *)
Definition ugm_headroom (s : ugm_state) (p : path) (a : app) (user : ugi) : ugm_state * ores :=
  let '(s1, ut) := getUserTracker s (fst user) in
  let '(uq', uh) := headroom (userWild s1) TUser p (ut_qt ut) in
  let s2 := set_users s1 (nset (fst user) (mkUT (ut_links ut) uq') (users s1)) in
  let s3 := ensure_link s2 p a user in
  match nlookup (users s3) (fst user) with
  | None => (s3, uh)
  | Some ut3 =>
      let g := getGroupForApp ut3 a in
      if g =? EMPTY then (s3, uh) else
      match nlookup (groups s3) g with
      | None => (s3, uh)
      | Some gt =>
          let '(gq', gh) := headroom [] TGroup p (gt_qt gt) in
          (set_groups s3 (nset g (mkGT (gt_apps gt) gq') (groups s3)), ComponentWiseMin uh gh)
      end
  end.

(* CanRunApp *)
Definition ugm_can_run_app (s : ugm_state) (p : path) (a : app) (user : ugi) : ugm_state * bool :=
  let '(s1, ut) := getUserTracker s (fst user) in
  let '(uq', uok) := canRunApp (userWild s1) TUser p a (ut_qt ut) in
  let s2 := set_users s1 (nset (fst user) (mkUT (ut_links ut) uq') (users s1)) in
  let s3 := ensure_link s2 p a user in
  match nlookup (users s3) (fst user) with
  | None => (s3, uok)
  | Some ut3 =>
      let g := getGroupForApp ut3 a in
      if g =? EMPTY then (s3, uok) else
      match nlookup (groups s3) g with
      | None => (s3, uok)
      | Some gt =>
          let '(gq', gok) := canRunApp [] TGroup p a (gt_qt gt) in
          (set_groups s3 (nset g (mkGT (gt_apps gt) gq') (groups s3)), uok && gok)
      end
  end.

(* ------------------------------------------------------------------ configuration *)
(* configs.Limit: [lim_max = None] when NewResourceFromConf returns an error *)
Record limit := mkLim { lim_users : list uname; lim_groups : list gname; lim_max : option res; lim_apps : N }.
(* configs.QueueConfig (name, limits, child queues) *)
Inductive qconf := QConf (cname : qname) (limits : list limit) (queues : list qconf).

Record newmaps := mkNM {
  nUL : list (path * list (uname * limitcfg));
  nGL : list (path * list (gname * limitcfg));
  nUW : list (path * limitcfg);
  nGW : list (path * limitcfg);
  nCG : list (path * list gname) }.
Definition nm_empty := mkNM [] [] [] [] [].

Definition sub_lookup {A} (m : list (path * list (N * A))) (p : path) (k : N) : option A :=
  match plookup m p with Some l => nlookup l k | None => None end.
Definition sub_set {A} (m : list (path * list (N * A))) (p : path) (k : N) (v : A) :=
  pset p (nset k v (match plookup m p with Some l => l | None => [] end)) m.

(* setUserLimits / setGroupLimits *)
Definition setUserLimits (s : ugm_state) (u : uname) (cfg : limitcfg) (p : path) : ugm_state :=
  let '(s1, ut) := getUserTracker s u in
  let q' := setLimit (userWild s1) TUser p (l_max cfg) (l_apps cfg) false false (ut_qt ut) in
  set_users s1 (nset u (mkUT (ut_links ut) q') (users s1)).
Definition setGroupLimits (s : ugm_state) (g : gname) (cfg : limitcfg) (p : path) : ugm_state :=
  let gt := match nlookup (groups s) g with Some gt => gt | None => newGroupTracker end in
  let q' := setLimit [] TGroup p (l_max cfg) (l_apps cfg) false false (gt_qt gt) in
  set_groups s (nset g (mkGT (gt_apps gt) q') (groups s)).

Definition ipc_users (p : path) (cfg : limitcfg) (us : list uname) (acc : ugm_state * newmaps) : ugm_state * newmaps :=
  fold_left (fun '(s, nm) u =>
               if u =? EMPTY then (s, nm) else
               if u =? WILD then (s, mkNM (nUL nm) (nGL nm) (pset p cfg (nUW nm)) (nGW nm) (nCG nm)) else
               (setUserLimits s u cfg p,
                mkNM (sub_set (nUL nm) p u cfg) (nGL nm) (nUW nm) (nGW nm) (nCG nm))) us acc.
Definition ipc_groups (p : path) (cfg : limitcfg) (gs : list gname) (acc : ugm_state * newmaps) : ugm_state * newmaps :=
  fold_left (fun '(s, nm) g =>
               if g =? EMPTY then (s, nm) else
               let s' := setGroupLimits s g cfg p in
               let gl := sub_set (nGL nm) p g cfg in
               if g =? WILD then (s', mkNM (nUL nm) gl (nUW nm) (pset p cfg (nGW nm)) (nCG nm))
               else (s', mkNM (nUL nm) gl (nUW nm) (nGW nm)
                              (pset p (match plookup (nCG nm) p with Some l => l | None => [] end ++ [g]) (nCG nm))))
            gs acc.

(* the limits of one queue; [None] = error return *)
Fixpoint ipc_limits (p : path) (ls : list limit) (acc : ugm_state * newmaps) : ugm_state * newmaps * bool :=
  match ls with
  | [] => (acc, true)
  | l :: t =>
      match lim_max l with
      | None => (acc, false)
      | Some r =>
          let cfg := mkLimit (Some r) (lim_apps l) in
          ipc_limits p t (ipc_groups p cfg (lim_groups l) (ipc_users p cfg (lim_users l) acc))
      end
  end.

(* internalProcessConfig; the child path is queuePath + "." + strings.ToLower(child.Name) and the
   path handed in by UpdateConfig is lower-cased as well (fix of finding C05-mixed-case).
   [fixed = false] is the pinned code (names used as they are written in the configuration). *)
Definition cfgname (fixed : bool) (n : qname) : qname := if fixed then qlower n else n.
Fixpoint ipc (fixed : bool) (cur : qconf) (p : path) (acc : ugm_state * newmaps) : ugm_state * newmaps * bool :=
  let 'QConf _ ls qs := cur in
  let '(acc1, ok) := ipc_limits p ls acc in
  if negb ok then (acc1, false) else
  (fix go (l : list qconf) (acc : ugm_state * newmaps) : ugm_state * newmaps * bool :=
     match l with
     | [] => (acc, true)
     | c :: t =>
         let 'QConf cn _ _ := c in
         let '(acc', ok) := ipc fixed c (p ++ [cfgname fixed cn]) acc in
         if ok then go t acc' else (acc', false)
     end) qs acc1.

(* outcome of the reset phases: a nil user tracker is dereferenced in resetGroupEarlierUsage *)
Inductive outcome (A : Type) := Ok (a : A) | Crash.
Arguments Ok {A} a. Arguments Crash {A}.

Definition in_sub {A} (m : list (path * list (N * A))) (p : path) (k : N) : bool :=
  match sub_lookup m p k with Some _ => true | None => false end.
Definition has_path {A} (m : list (path * A)) (p : path) : bool :=
  match plookup m p with Some _ => true | None => false end.

(* resetGroupEarlierUsage.  [fixed = false] is the pinned code, which dereferenced
   m.userTrackers[u] without a check (finding C05-reload-nil-user, fixed) *)
Fixpoint unlink_apps (fixed : bool) (us : list (uname * utracker)) (l : list (app * uname)) : outcome (list (uname * utracker)) :=
  match l with
  | [] => Ok us
  | (a, u) :: t =>
      match nlookup us u with
      | None => if fixed then unlink_apps fixed us t else Crash
      | Some ut => unlink_apps fixed (nset u (mkUT (ndel a (ut_links ut)) (ut_qt ut)) us) t
      end
  end.
Definition resetGroupEarlierUsage (fixed : bool) (s : ugm_state) (g : gname) (p : path) : outcome ugm_state :=
  match nlookup (groups s) g with
  | None => Ok s
  | Some gt =>
      if negb (isTracked p (gt_qt gt)) then Ok s else
      let '(q1, removed) := decreaseDownwards p (gt_qt gt) in
      let appUsers := flat_map (fun a => match nlookup (gt_apps gt) a with Some u => [(a, u)] | None => [] end) removed in
      match unlink_apps fixed (users s) appUsers with
      | Crash => Crash
      | Ok us =>
          let q2 := setLimit [] TGroup p None 0 false false q1 in
          let q3 := if isUnlinkRequired p q2 then fst (unlink p q2) else q2 in
          let s1 := set_users s us in
          if canBeRemoved q3 then Ok (set_groups s1 (ndel g (groups s1)))
          else Ok (set_groups s1 (nset g (mkGT (gt_apps gt) q3) (groups s1)))
      end
  end.
(* resetUserEarlierUsage *)
Definition resetUserEarlierUsage (s : ugm_state) (u : uname) (p : path) : ugm_state :=
  match nlookup (users s) u with
  | None => s
  | Some ut =>
      if negb (isTracked p (ut_qt ut)) then s else
      let q1 := setLimit (userWild s) TUser p None 0 false false (ut_qt ut) in
      let q2 := if isUnlinkRequired p q1 then fst (unlink p q1) else q1 in
      if canBeRemoved q2 then set_users s (ndel u (users s))
      else set_users s (nset u (mkUT (ut_links ut) q2) (users s))
  end.

Definition ordl {A} (ord : bool) (l : list A) : list A := if ord then rev l else l.

(* clearEarlierSetGroupLimits / clearEarlierSetUserLimits: every (path, name) of the current
   configuration that the new configuration no longer has *)
Definition dropped {A} (ord : bool) (old new : list (path * list (N * A))) : list (path * N) :=
  flat_map (fun '(p, l) => flat_map (fun '(k, _) => if in_sub new p k then [] else [(p, k)]) (ordl ord l)) (ordl ord old).
Fixpoint clearGroups (fixed : bool) (s : ugm_state) (l : list (path * gname)) : outcome ugm_state :=
  match l with
  | [] => Ok s
  | (p, g) :: t => match resetGroupEarlierUsage fixed s g p with Crash => Crash | Ok s' => clearGroups fixed s' t end
  end.
Definition clearUsers (s : ugm_state) (l : list (path * uname)) : ugm_state :=
  fold_left (fun s '(p, u) => resetUserEarlierUsage s u p) l s.

(* ut.setLimits / ut.clearLimits applied to every existing user tracker that satisfies [sel] *)
Definition map_users (s : ugm_state) (sel : uname -> bool) (f : qt -> qt) : ugm_state :=
  set_users s (map (fun '(u, ut) => if sel u then (u, mkUT (ut_links ut) (f (ut_qt ut))) else (u, ut)) (users s)).

(* clearEarlierSetUserWildCardLimits.  [fixed = false] is the pinned code, which skipped the
   clearing of a dropped wild card limit when the queue had named user limits in the old and in
   the new configuration (finding C05-stale-wildcard, fixed) *)
Definition clearUserWild (fixed ord : bool) (s : ugm_state) (nm : newmaps) : ugm_state :=
  fold_left (fun s0 '(p, cur) =>
               let currentQPExists := has_path (userLimits s) p in
               let newQPExists := has_path (nUL nm) p in
               let sel := fun u => negb (in_sub (nUL nm) p u) || negb (in_sub (userLimits s) p u) in
               match plookup (nUW nm) p with
               | None =>
                   if fixed || negb currentQPExists || negb newQPExists
                   then map_users s0 sel (setLimit (userWild s) TUser p None 0 false true)
                   else s0
               | Some new =>
                   if negb currentQPExists || negb newQPExists then
                     if negb (l_apps cur =? l_apps new) || negb (Equals (l_max cur) (l_max new))
                     then map_users s0 sel (setLimit (userWild s) TUser p (l_max new) (l_apps new) true true)
                     else s0
                   else s0
               end) (ordl ord (userWild s)) s.

(* applyWildCardUserLimits *)
Definition applyUserWild (ord : bool) (s : ugm_state) (nm : newmaps) : ugm_state :=
  fold_left (fun s0 '(p, new) =>
               map_users s0 (fun u => negb (in_sub (nUL nm) p u))
                         (setLimit (userWild s) TUser p (l_max new) (l_apps new) true false))
            (ordl ord (nUW nm)) s.

(* replaceLimitConfigs *)
Definition replaceLimitConfigs (s : ugm_state) (nm : newmaps) : ugm_state :=
  mkUgm (users s) (groups s) (nUW nm) (nGW nm) (nCG nm) (nUL nm) (nGL nm).

Inductive uc_result := UOk (s : ugm_state) | UErr (s : ugm_state) | UCrash.

(* the (path, group) pairs handed to resetGroupEarlierUsage, in list order *)
Definition dropped_groups (fixed : bool) (s : ugm_state) (conf : qconf) (rootName : qname) : list (path * gname) :=
  let '(s1, nm, ok) := ipc fixed conf [cfgname fixed rootName] (s, nm_empty) in
  dropped false (groupLimits s1) (nGL nm).

(* UpdateConfig(config, queuePath).  [pg] reorders the group resets (Go iterates maps there and
   the outcome can depend on the order), [ord] reverses the iteration of the other phases. *)
Definition update_config_gen (fixed : bool) (pg : list (path * gname) -> list (path * gname)) (ord : bool)
           (s : ugm_state) (conf : qconf) (rootName : qname) : uc_result :=
  let '(s1, nm, ok) := ipc fixed conf [cfgname fixed rootName] (s, nm_empty) in
  if negb ok then UErr s1 else
  match clearGroups fixed s1 (pg (dropped false (groupLimits s1) (nGL nm))) with
  | Crash => UCrash
  | Ok s2 =>
      let s3 := clearUsers s2 (dropped ord (userLimits s2) (nUL nm)) in
      let s4 := clearUserWild fixed ord s3 nm in
      let s5 := applyUserWild ord s4 nm in
      UOk (replaceLimitConfigs s5 nm)
  end.

(* the code as it is now in /repo (with the three fix: commits), maps iterated in list order *)
Definition ugm_update_config (s : ugm_state) (conf : qconf) (rootName : qname) : uc_result :=
  update_config_gen true (fun l => l) false s conf rootName.
