(* C05, conservation, part 3: a decidable sufficient condition for the starting state of
   usage_is_sum (no usage, no application, group limits in place), the stability of the resolved
   group, and examples.  Proofs only. *)
From Coq Require Import List NArith ZArith Bool Lia.
From YK Require Import Base.Int64 Base.Res Base.ResSpec Base.ResLemmas
     Ugm.Tracker Ugm.Manager Ugm.UgmSpec Ugm.TrackerFacts Ugm.TreeInv Ugm.Enforce Ugm.Conserve Ugm.ConserveM.
Import ListNotations.
Open Scope N_scope.

(* ---- every tracker reached by child names is in the flattened tree ---- *)
Lemma nlookup_In {A} (m : list (N * A)) k v : nlookup m k = Some v -> In (k, v) m.
Proof.
  induction m as [|[k' x] t IH]; cbn; [discriminate|]. destruct (N.eqb_spec k' k) as [->|].
  - intros H. injection H as ->. left. reflexivity.
  - intros H. right. apply IH. assumption.
Qed.
Lemma flatten_unfold q :
  flatten q = q :: (fix go (l : list (qname * qt)) : list qt :=
                      match l with [] => [] | (_, cq) :: t => flatten cq ++ go t end) (q_children q).
Proof. destruct q. reflexivity. Qed.
Lemma flatten_child c ch l : In (c, ch) l ->
  incl (flatten ch) ((fix go (l : list (qname * qt)) : list qt :=
                        match l with [] => [] | (_, cq) :: t => flatten cq ++ go t end) l).
Proof.
  induction l as [|[c' cq] t IH]; intros H; [contradiction|]. destruct H as [H|H].
  - injection H as -> ->. intros n Hn. apply in_or_app. left. assumption.
  - intros n Hn. apply in_or_app. right. apply IH; assumption.
Qed.
Lemma sub_at_flatten names : forall q n, sub_at names q = Some n -> In n (flatten q).
Proof.
  induction names as [|c rest IH]; intros q n H.
  - cbn in H. injection H as <-. rewrite flatten_unfold. left. reflexivity.
  - cbn [sub_at] in H. destruct (find_child c q) as [ch|] eqn:Ec; [|discriminate].
    rewrite flatten_unfold. right. apply (flatten_child c ch); [apply nlookup_In; exact Ec|]. apply IH. assumption.
Qed.

(* ---- a state without usage ---- *)
Definition quiet_node (n : qt) : bool := is_nil (q_usage n) && match q_apps n with [] => true | _ => false end.
Definition quietb (q : qt) : bool := forallb quiet_node (flatten q).
Lemma quietb_spec q : quietb q = true -> (forall names, araw q names = None) /\ (forall names, aapps q names = []).
Proof.
  unfold quietb. rewrite forallb_forall. intros H. split; intros names.
  - unfold araw. destruct (sub_at names q) as [n|] eqn:E; [|reflexivity]. specialize (H n (sub_at_flatten names q n E)).
    unfold quiet_node in H. apply andb_true_iff in H. destruct H as (H & _). destruct (q_usage n); [discriminate|reflexivity].
  - unfold aapps. destruct (sub_at names q) as [n|] eqn:E; [|reflexivity]. specialize (H n (sub_at_flatten names q n E)).
    unfold quiet_node in H. apply andb_true_iff in H. destruct H as (_ & H). destruct (q_apps n); [reflexivity|discriminate].
Qed.

Definition anchored_by (q : qt) (names : list qname) : bool :=
  match alim q names with Some l => real l | None => false end.
Lemma anchored_by_spec q names : anchored_by q names = true -> anchored q.
Proof. unfold anchored_by. destruct (alim q names) as [l|] eqn:E; [|discriminate]. intros H. exists names, l. split; assumption. Qed.

Definition has_group (s : ugm_state) (g : gname) : bool := match nlookup (groups s) g with Some _ => true | None => false end.
(* [paths]: where to look for the limit that anchors a group tracker *)
Definition inv0b (s : ugm_state) (paths : list (list qname)) : bool :=
  forallb (fun x => quietb (ut_qt (snd x)) && match ut_links (snd x) with [] => true | _ => false end) (users s) &&
  forallb (fun x => quietb (gt_qt (snd x)) && existsb (anchored_by (gt_qt (snd x))) paths) (groups s) &&
  forallb (fun x => forallb (has_group s) (snd x)) (cfgGroups s) &&
  (match groupWild s with [] => true | _ => has_group s WILD end).

Lemma plookup_In {A} (m : list (path * A)) p v : plookup m p = Some v -> exists p', In (p', v) m.
Proof.
  induction m as [|[k x] t IH]; cbn; [discriminate|]. destruct (path_eqb k p).
  - intros H. injection H as ->. exists k. left. reflexivity.
  - intros H. destruct (IH H) as (p' & Hin). exists p'. right. assumption.
Qed.

Theorem inv0b_Inv s paths : inv0b s paths = true -> Inv s [].
Proof.
  unfold inv0b. intros H. repeat (apply andb_true_iff in H; destruct H as [H ?]).
  rename H into HU, H2 into HG, H1 into HC, H0 into HWd.
  rewrite forallb_forall in HU, HG, HC.
  split; [|split].
  - intros [u|g]; cbn [who_root].
    + destruct (nlookup (users s) u) as [ut|] eqn:E; cbn [option_map]; [|intros e []].
      specialize (HU (u, ut) (nlookup_In _ _ _ E)). cbn [snd] in HU. apply andb_true_iff in HU. destruct HU as (HU & _).
      destruct (quietb_spec _ HU). apply TInv_empty; try assumption. intros e [].
    + destruct (nlookup (groups s) g) as [gt|] eqn:E; cbn [option_map]; [|intros e []].
      specialize (HG (g, gt) (nlookup_In _ _ _ E)). cbn [snd] in HG. apply andb_true_iff in HG. destruct HG as (HG & _).
      destruct (quietb_spec _ HG). apply TInv_empty; try assumption. intros e [].
  - split; [intros e []|]. intros u a g Hl. exfalso. unfold link in Hl.
    destruct (nlookup (users s) u) as [ut|] eqn:E; [|discriminate].
    specialize (HU (u, ut) (nlookup_In _ _ _ E)). cbn [snd] in HU. apply andb_true_iff in HU. destruct HU as (_ & HU).
    destruct (ut_links ut); [discriminate|discriminate].
  - split.
    + intros g gt E. specialize (HG (g, gt) (nlookup_In _ _ _ E)). cbn [snd] in HG. apply andb_true_iff in HG. destruct HG as (_ & HG).
      apply existsb_exists in HG. destruct HG as (names & _ & Hn). apply (anchored_by_spec _ names Hn).
    + intros g (p & [(cgs & Hp & Hin)|(-> & Hp)]).
      * destruct (plookup_In _ _ _ Hp) as (p' & Hin'). specialize (HC (p', cgs) Hin'). cbn [snd] in HC.
        rewrite forallb_forall in HC. specialize (HC g Hin). unfold has_group in HC. destruct (nlookup (groups s) g); [discriminate|discriminate].
      * destruct (groupWild s) as [|x t] eqn:Ew; [contradiction Hp; reflexivity|].
        unfold has_group in HWd. destruct (nlookup (groups s) WILD); [discriminate|discriminate].
Qed.

(* ------------------------------------------------------------------ group_stable *)
(* the running applications of the root after a decrease *)
Lemma decrease_root_apps h b u rm q :
  q_apps (fst (decrease h b u rm q)) = q_apps q \/ q_apps (fst (decrease h b u rm q)) = dec_apps b rm (q_apps q).
Proof.
  assert (Hd : forall q1, q_apps q1 = q_apps q -> q_apps (fst (dec_here b u rm q1)) = dec_apps b rm (q_apps q)).
  { intros q1 E. destruct (dec_here_fields b u rm q1) as (_ & _ & Ha & _). cbv zeta in Ha. rewrite Ha, E. reflexivity. }
  destruct h as [|x tl]; [right; apply Hd; reflexivity|]. destruct tl as [|c t]; [right; apply Hd; reflexivity|].
  rewrite decrease_cons. destruct (find_child c q) as [ch|]; [|left; reflexivity].
  destruct (decrease (c :: t) b u rm ch) as [ch' r]. right. apply Hd.
  destruct r; [apply q_fields_del_child|apply q_fields_set_child].
Qed.
Lemma decrease_flag h b u rm q : snd (decrease h b u rm q) = true -> q_apps (fst (decrease h b u rm q)) = [].
Proof.
  assert (Hd : forall q1, snd (dec_here b u rm q1) = true -> q_apps (fst (dec_here b u rm q1)) = []).
  { intros q1 H. destruct (dec_here_fields b u rm q1) as (Hb & _). cbv zeta in Hb. rewrite H in Hb. symmetry in Hb.
    apply (removable_facts _ Hb). }
  destruct h as [|x tl]; [apply Hd|]. destruct tl as [|c t]; [apply Hd|].
  rewrite decrease_cons. destruct (find_child c q) as [ch|]; [|discriminate].
  destruct (decrease (c :: t) b u rm ch) as [ch' r]. apply Hd.
Qed.

Lemma resolved_ensure_link s p b (user : ugi) u a x :
  resolved s u a = Some x -> resolved (ensure_link s p b user) u a = Some x.
Proof.
  intros H. unfold ensure_link. destruct (nlookup (users s) (fst user)) as [ut|] eqn:Hu; [|assumption].
  destruct (hasGroupForApp ut b) eqn:Hh; [assumption|]. unfold ensureGroupTrackerForApp. rewrite Hu, Hh.
  set (g := ensureGroup s user p). set (s1 := if g =? EMPTY then s else _).
  assert (Hus : users s1 = users s) by (unfold s1; destruct (g =? EMPTY); [reflexivity|destruct (nlookup (groups s) g); reflexivity]).
  unfold resolved. cbn [users set_users]. rewrite Hus, nlookup_nset. destruct (N.eqb_spec u (fst user)) as [->|]; [|exact H].
  cbn [ut_links]. rewrite nlookup_nset. destruct (N.eqb_spec a b) as [->|].
  - exfalso. unfold resolved in H. rewrite Hu in H. unfold hasGroupForApp in Hh. rewrite H in Hh. discriminate.
  - unfold resolved in H. rewrite Hu in H. exact H.
Qed.
Lemma resolved_set_tree' s u ut Q' u' a' : nlookup (users s) u = Some ut ->
  resolved (set_users s (nset u (mkUT (ut_links ut) Q') (users s))) u' a' = resolved s u' a'.
Proof. apply resolved_set_tree. Qed.

(* The group an application is charged to does not change while the application is running:
   only the Decrease that removes this application (or a reload) drops the resolution. *)
Theorem group_stable_lemma s o s' u a x ut :
  fst (step s o) = Some s' ->
  nlookup (users s) u = Some ut -> In a (q_apps (ut_qt ut)) -> resolved s u a = Some x ->
  match o with
  | OConfig _ _ => False
  | ODec _ b _ usr true => ~ (b = a /\ fst usr = u)
  | _ => True
  end ->
  resolved s' u a = Some x.
Proof.
  intros Hs Hu Hrun Hres Hop.
  destruct o as [p b r usr sched|p b r usr rm|p b usr|p b usr|c rn]; [| | | |contradiction].
  - (* Increase *)
    cbn in Hs. injection Hs as <-. unfold ugm_increase.
    destruct (match p with [] => true | _ => false end || (b =? EMPTY) || is_nil r || (fst usr =? EMPTY)); [assumption|].
    destruct (getUserTracker s (fst usr)) as [s1 ut0] eqn:Eg.
    assert (H1 : resolved s1 u a = Some x) by (replace s1 with (fst (getUserTracker s (fst usr))) by (rewrite Eg; reflexivity); rewrite resolved_getUserTracker; assumption).
    pose proof (resolved_ensure_link s1 p b usr u a x H1) as H2. set (s2 := ensure_link s1 p b usr) in *.
    destruct (nlookup (users s2) (fst usr)) as [ut2|] eqn:E2; [|assumption].
    set (ut' := mkUT (ut_links ut2) (increase (userWild s2) TUser p b r (ut_qt ut2))).
    assert (H3 : resolved (set_users s2 (nset (fst usr) ut' (users s2))) u a = Some x) by (unfold ut'; rewrite resolved_set_tree by assumption; assumption).
    destruct (getGroupForApp ut' b =? EMPTY); [assumption|].
    destruct (nlookup (groups (set_users s2 (nset (fst usr) ut' (users s2)))) (getGroupForApp ut' b)); assumption.
  - (* Decrease *)
    cbn in Hs. injection Hs as <-. unfold ugm_decrease.
    destruct (match p with [] => true | _ => false end || (b =? EMPTY) || is_nil r || (fst usr =? EMPTY)); [assumption|].
    destruct (nlookup (users s) (fst usr)) as [utd|] eqn:Ed; [|assumption].
    destruct (decrease p b r rm (ut_qt utd)) as [q' rmq] eqn:Edec.
    set (links' := if rm then ndel b (ut_links utd) else ut_links utd).
    set (s1 := if rmq then set_users s (ndel (fst usr) (users s)) else set_users s (nset (fst usr) (mkUT links' q') (users s))).
    assert (H1 : resolved s1 u a = Some x).
    { destruct (N.eqb_spec u (fst usr)) as [Eu|Hne].
      - (* the user of the running application: its tracker stays and the link stays *)
        subst u. rewrite Ed in Hu. injection Hu as <-.
        assert (Hkeep : ~ (rm = true /\ b = a)) by (intros (-> & ->); apply Hop; split; reflexivity).
        assert (Hin' : In a (q_apps q')).
        { replace q' with (fst (decrease p b r rm (ut_qt utd))) by (rewrite Edec; reflexivity).
          destruct (decrease_root_apps p b r rm (ut_qt utd)) as [->| ->]; [assumption|].
          unfold dec_apps. destruct rm; [|assumption]. apply del_app_In. split; [|assumption].
          intros ->. apply Hkeep. split; reflexivity. }
        assert (rmq = false).
        { destruct rmq; [|reflexivity]. exfalso.
          pose proof (decrease_flag p b r rm (ut_qt utd)) as Hf. rewrite Edec in Hf. cbn [fst snd] in Hf. rewrite (Hf eq_refl) in Hin'. contradiction. }
        subst rmq. unfold s1, resolved. cbn [users set_users]. rewrite nlookup_nset_same. cbn [ut_links]. unfold links'.
        unfold resolved in Hres. rewrite Ed in Hres. destruct rm; [|assumption].
        rewrite nlookup_ndel_other; [assumption|]. intros ->. apply Hkeep. split; reflexivity.
      - unfold s1, resolved. destruct rmq; cbn [users set_users].
        + rewrite nlookup_ndel_other by assumption. exact Hres.
        + rewrite nlookup_nset_other by assumption. exact Hres. }
    destruct (getGroupForApp utd b =? EMPTY); [assumption|].
    destruct (nlookup (groups s1) (getGroupForApp utd b)) as [gt|]; [|assumption].
    destruct (decrease p b r rm (gt_qt gt)) as [gq' grm]. destruct grm; exact H1.
  - (* Headroom *)
    unfold step, step_gen in Hs. destruct (ugm_headroom s p b usr) as [s1 h] eqn:E. cbn in Hs. injection Hs as <-.
    unfold ugm_headroom in E. destruct (getUserTracker s (fst usr)) as [s0 ut0] eqn:Eg.
    assert (H1 : resolved s0 u a = Some x) by (replace s0 with (fst (getUserTracker s (fst usr))) by (rewrite Eg; reflexivity); rewrite resolved_getUserTracker; assumption).
    destruct (getUserTracker_spec s (fst usr) s0 ut0 Eg) as (Hu0 & _).
    destruct (headroom (userWild s0) TUser p (ut_qt ut0)) as [uq' uh].
    set (s2 := set_users s0 (nset (fst usr) (mkUT (ut_links ut0) uq') (users s0))) in *.
    assert (H2 : resolved s2 u a = Some x) by (unfold s2; rewrite resolved_set_tree by assumption; assumption).
    pose proof (resolved_ensure_link s2 p b usr u a x H2) as H3. set (s3 := ensure_link s2 p b usr) in *.
    destruct (nlookup (users s3) (fst usr)) as [ut3|]; [|injection E as <- _; assumption].
    destruct (getGroupForApp ut3 b =? EMPTY); [injection E as <- _; assumption|].
    destruct (nlookup (groups s3) (getGroupForApp ut3 b)) as [gt|]; [|injection E as <- _; assumption].
    destruct (headroom [] TGroup p (gt_qt gt)) as [gq' gh]. injection E as <- _. exact H3.
  - (* CanRunApp *)
    unfold step, step_gen in Hs. destruct (ugm_can_run_app s p b usr) as [s1 h] eqn:E. cbn in Hs. injection Hs as <-.
    unfold ugm_can_run_app in E. destruct (getUserTracker s (fst usr)) as [s0 ut0] eqn:Eg.
    assert (H1 : resolved s0 u a = Some x) by (replace s0 with (fst (getUserTracker s (fst usr))) by (rewrite Eg; reflexivity); rewrite resolved_getUserTracker; assumption).
    destruct (getUserTracker_spec s (fst usr) s0 ut0 Eg) as (Hu0 & _).
    destruct (canRunApp (userWild s0) TUser p b (ut_qt ut0)) as [uq' uok].
    set (s2 := set_users s0 (nset (fst usr) (mkUT (ut_links ut0) uq') (users s0))) in *.
    assert (H2 : resolved s2 u a = Some x) by (unfold s2; rewrite resolved_set_tree by assumption; assumption).
    pose proof (resolved_ensure_link s2 p b usr u a x H2) as H3. set (s3 := ensure_link s2 p b usr) in *.
    destruct (nlookup (users s3) (fst usr)) as [ut3|]; [|injection E as <- _; assumption].
    destruct (getGroupForApp ut3 b =? EMPTY); [injection E as <- _; assumption|].
    destruct (nlookup (groups s3) (getGroupForApp ut3 b)) as [gt|]; [|injection E as <- _; assumption].
    destruct (canRunApp [] TGroup p b (gt_qt gt)) as [gq' gh]. injection E as <- _. exact H3.
Qed.
