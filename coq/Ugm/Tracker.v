(* Executable model of pkg/scheduler/ugm/queue_tracker.go (yunikorn-core): the QueueTracker tree
   that a UserTracker / GroupTracker owns.  Definitions only; every function is a transcription
   of the Go function of the same name, with the same guards in the same order:
   - the recursion is the Go recursion over hierarchy[1:] (structural on the hierarchy list);
   - children are a Go map name -> *QueueTracker, here an association list (no duplicate keys);
   - newQueueTracker reads the user wild card configuration of the package-level manager:
     the map is passed in as [wc] (empty for group trackers);
   - headroom and canRunApp are NOT read-only: they create missing children.
   Names are interned by the harness:  queue name "root" = 0, the empty string = 0 for users,
   groups and applications, "*" = 1 for users and groups.  Case variants of one queue name share
   the value modulo CASE_BASE (see [qlower]). *)
From Coq Require Import List NArith ZArith Bool.
From YK Require Import Base.Int64 Base.Res.
Import ListNotations.
Open Scope N_scope.

Definition qname := N.
Definition path := list qname.
Definition app := N.
Definition uname := N.
Definition gname := N.
Definition ROOT : qname := 0.
Definition EMPTY : N := 0.          (* common.Empty for user, group and application names *)
Definition WILD : N := 1.           (* common.Wildcard "*" *)
Definition CASE_BASE : N := 1000.
(* strings.ToLower on an interned queue name *)
Definition qlower (n : qname) : qname := n mod CASE_BASE.

Fixpoint path_eqb (a b : path) : bool :=
  match a, b with
  | [], [] => true
  | x :: a', y :: b' => (x =? y) && path_eqb a' b'
  | _, _ => false
  end.

(* LimitConfig *)
Record limitcfg := mkLimit { l_max : ores; l_apps : N }.

Fixpoint plookup {A} (m : list (path * A)) (p : path) : option A :=
  match m with
  | [] => None
  | (k, v) :: t => if path_eqb k p then Some v else plookup t p
  end.
(* m[p] = v *)
Fixpoint pset {A} (p : path) (v : A) (m : list (path * A)) : list (path * A) :=
  match m with
  | [] => [(p, v)]
  | (k, x) :: t => if path_eqb k p then (k, v) :: t else (k, x) :: pset p v t
  end.

Fixpoint nlookup {A} (m : list (N * A)) (k : N) : option A :=
  match m with
  | [] => None
  | (k', v) :: t => if k' =? k then Some v else nlookup t k
  end.
Fixpoint nset {A} (k : N) (v : A) (m : list (N * A)) : list (N * A) :=
  match m with
  | [] => [(k, v)]
  | (k', x) :: t => if k' =? k then (k', v) :: t else (k', x) :: nset k v t
  end.
Fixpoint ndel {A} (k : N) (m : list (N * A)) : list (N * A) :=
  match m with
  | [] => []
  | (k', x) :: t => if k' =? k then ndel k t else (k', x) :: ndel k t
  end.

Fixpoint mem (a : N) (l : list N) : bool :=
  match l with [] => false | x :: t => (x =? a) || mem a t end.
(* runningApplications[app] = true *)
Definition add_app (a : app) (l : list app) : list app := if mem a l then l else l ++ [a].
(* delete(runningApplications, app) *)
Definition del_app (a : app) (l : list app) : list app := filter (fun x => negb (x =? a)) l.

Inductive ttype := TUser | TGroup.

Inductive qt : Type :=
  QT (name : qname) (qpath : path) (usage : ores) (apps : list app)
     (max : ores) (maxApps : N) (wild : bool) (children : list (qname * qt)).

Definition q_name (q : qt) := let 'QT n _ _ _ _ _ _ _ := q in n.
Definition q_path (q : qt) := let 'QT _ p _ _ _ _ _ _ := q in p.
Definition q_usage (q : qt) := let 'QT _ _ u _ _ _ _ _ := q in u.
Definition q_apps (q : qt) := let 'QT _ _ _ a _ _ _ _ := q in a.
Definition q_max (q : qt) := let 'QT _ _ _ _ m _ _ _ := q in m.
Definition q_maxApps (q : qt) := let 'QT _ _ _ _ _ ma _ _ := q in ma.
Definition q_wild (q : qt) := let 'QT _ _ _ _ _ _ w _ := q in w.
Definition q_children (q : qt) := let 'QT _ _ _ _ _ _ _ c := q in c.

Definition set_children (q : qt) (c : list (qname * qt)) : qt :=
  let 'QT n p u a m ma w _ := q in QT n p u a m ma w c.
Definition set_usage_apps (q : qt) (u : ores) (a : list app) : qt :=
  let 'QT n p _ _ m ma w c := q in QT n p u a m ma w c.
Definition set_limits (q : qt) (m : ores) (ma : N) (w : bool) : qt :=
  let 'QT n p u a _ _ _ c := q in QT n p u a m ma w c.

Definition find_child (c : qname) (q : qt) : option qt := nlookup (q_children q) c.
Definition set_child (c : qname) (ch : qt) (q : qt) : qt := set_children q (nset c ch (q_children q)).
Definition del_child (c : qname) (q : qt) : qt := set_children q (ndel c (q_children q)).

(* newQueueTracker(queuePath, queueName, trackType): for user trackers the wild card limit
   configured for the full path (in the manager that is current at the time of the call) is
   applied, with useWildCard = true *)
Definition newQT (wc : list (path * limitcfg)) (tt : ttype) (ppath : path) (n : qname) : qt :=
  let full := ppath ++ [n] in
  match (match tt with TUser => plookup wc full | TGroup => None end) with
  | Some cfg => QT n full None [] (Clone (l_max cfg)) (l_apps cfg) true []
  | None => QT n full None [] None 0 false []
  end.
Definition newRootQT (wc : list (path * limitcfg)) (tt : ttype) : qt := newQT wc tt [] ROOT.

(* qt.childQueueTrackers[childName], created when nil *)
Definition child_or_new wc tt (c : qname) (q : qt) : qt :=
  match find_child c q with Some ch => ch | None => newQT wc tt (q_path q) c end.

Definition oprune (o : ores) : ores := match o with Some r => Some (Prune r) | None => None end.

(* increaseTrackedResource *)
Definition inc_here (a : app) (u : ores) (q : qt) : qt :=
  let us := match q_usage q with None => Some [] | x => x end in
  set_usage_apps q (oprune (AddTo us u)) (add_app a (q_apps q)).
Fixpoint increase wc tt (h : path) (a : app) (u : ores) (q : qt) : qt :=
  match h with
  | _ :: tl =>
      match tl with
      | c :: _ => inc_here a u (set_child c (increase wc tt tl a u (child_or_new wc tt c q)) q)
      | [] => inc_here a u q
      end
  | [] => inc_here a u q
  end.

(* decreaseTrackedResource: returns the tracker and removeQT *)
Definition removable (q : qt) : bool :=
  match q_children q with [] => true | _ => false end &&
  match q_apps q with [] => true | _ => false end &&
  IsZero (q_usage q) && (q_maxApps q =? 0) && IsZero (q_max q).
Definition dec_here (a : app) (u : ores) (removeApp : bool) (q : qt) : qt * bool :=
  let q' := set_usage_apps q (oprune (SubFrom (q_usage q) u))
                           (if removeApp then del_app a (q_apps q) else q_apps q) in
  (q', removable q').
Fixpoint decrease (h : path) (a : app) (u : ores) (removeApp : bool) (q : qt) : qt * bool :=
  match h with
  | _ :: tl =>
      match tl with
      | c :: _ =>
          match find_child c q with
          | None => (q, false)                       (* "must be available": return false *)
          | Some ch =>
              let '(ch', rm) := decrease tl a u removeApp ch in
              dec_here a u removeApp (if rm then del_child c q else set_child c ch' q)
          end
      | [] => dec_here a u removeApp q
      end
  | [] => dec_here a u removeApp q
  end.

(* setLimit *)
Fixpoint setLimit wc tt (h : path) (m : ores) (ma : N) (useWild doWildCheck : bool) (q : qt) : qt :=
  match h with
  | _ :: tl =>
      match tl with
      | c :: _ => set_child c (setLimit wc tt tl m ma useWild doWildCheck (child_or_new wc tt c q)) q
      | [] => if doWildCheck && negb (q_wild q) then q else set_limits q m ma useWild
      end
  | [] => q
  end.

(* headroom: returns the (possibly extended) tracker and the headroom *)
Definition hr_here (q : qt) (childHr : ores) : ores :=
  let hr := if negb (IsZero (q_max q)) then SubOnlyExisting (q_max q) (q_usage q) else None in
  match hr with None => childHr | Some _ => ComponentWiseMin hr childHr end.
Fixpoint headroom wc tt (h : path) (q : qt) : qt * ores :=
  match h with
  | _ :: tl =>
      match tl with
      | c :: _ =>
          let '(ch', chr) := headroom wc tt tl (child_or_new wc tt c q) in
          let q' := set_child c ch' q in (q', hr_here q' chr)
      | [] => (q, hr_here q None)
      end
  | [] => (q, hr_here q None)
  end.

(* int(qt.maxRunningApps): uint64 -> int conversion wraps *)
Definition int_of_u64 (n : N) : Z := wrap64 (Z.of_N n).
Definition canrun_here (a : app) (q : qt) : bool :=
  if mem a (q_apps q) then true else
  let running := (Z.of_nat (length (q_apps q)) + 1)%Z in
  if negb (q_maxApps q =? 0) && (int_of_u64 (q_maxApps q) <? running)%Z then false else true.
Fixpoint canRunApp wc tt (h : path) (a : app) (q : qt) : qt * bool :=
  match h with
  | _ :: tl =>
      match tl with
      | c :: _ =>
          let '(ch', ok) := canRunApp wc tt tl a (child_or_new wc tt c q) in
          let q' := set_child c ch' q in
          (q', if ok then canrun_here a q' else false)
      | [] => (q, canrun_here a q)
      end
  | [] => (q, canrun_here a q)
  end.

(* isQueuePathTrackedCompletely *)
Fixpoint isTracked (h : path) (q : qt) : bool :=
  match h with
  | x :: tl =>
      match tl with
      | c :: _ => match find_child c q with Some ch => isTracked tl ch | None => false end
      | [] => (x =? ROOT) || (x =? q_name q)
      end
  | [] => false
  end.

(* isUnlinkRequired *)
Fixpoint isUnlinkRequired (h : path) (q : qt) : bool :=
  match h with
  | x :: tl =>
      match tl with
      | c :: _ => match find_child c q with Some ch => isUnlinkRequired tl ch | None => false end
      | [] => ((x =? ROOT) || (x =? q_name q)) && match q_apps q with [] => true | _ => false end
      end
  | [] => false
  end.

(* unlink with len(hierarchy) <= 1: every child unlinks itself with hierarchy [childName], i.e.
   the same function again, over the whole subtree *)
Fixpoint unlink_all (q : qt) : qt * bool :=
  let 'QT n p u a m ma w ch := q in
  let ch' := (fix go (l : list (qname * qt)) : list (qname * qt) :=
                match l with
                | [] => []
                | (cn, cq) :: t => let '(cq', r) := unlink_all cq in if r then go t else (cn, cq') :: go t
                end) ch in
  (QT n p u a m ma w ch',
   match a with [] => true | _ => false end && match ch' with [] => true | _ => false end).
Definition unlink_result (q : qt) : bool :=
  match q_apps q with [] => true | _ => false end && match q_children q with [] => true | _ => false end.
Fixpoint unlink (h : path) (q : qt) : qt * bool :=
  match h with
  | _ :: tl =>
      match tl with
      | c :: _ =>
          match find_child c q with
          | Some ch =>
              let '(ch', r) := unlink tl ch in
              if r then (del_child c q, false)
              else let q' := set_child c ch' q in (q', unlink_result q')
          | None => (q, unlink_result q)
          end
      | [] => unlink_all q
      end
  | [] => unlink_all q
  end.

(* decreaseTrackedResourceUsageDownwards *)
Definition has_usage (q : qt) : bool :=
  match q_apps q with [] => false | _ => true end && negb (IsZero (q_usage q)).
Definition reset_if_used (q : qt) : qt := if has_usage q then set_usage_apps q None [] else q.
Fixpoint dd_all (q : qt) : qt :=
  let 'QT n p u a m ma w ch := q in
  let ch' := (fix go (l : list (qname * qt)) : list (qname * qt) :=
                match l with
                | [] => []
                | (cn, cq) :: t => (cn, if has_usage cq then dd_all cq else cq) :: go t
                end) ch in
  reset_if_used (QT n p u a m ma w ch').
Fixpoint decreaseDownwards (h : path) (q : qt) : qt * list app :=
  match h with
  | _ :: tl =>
      match tl with
      | c :: _ =>
          match find_child c q with
          | Some ch => let '(ch', r) := decreaseDownwards tl ch in (reset_if_used (set_child c ch' q), r)
          | None => (reset_if_used q, [])
          end
      | [] => (dd_all q, q_apps q)
      end
  | [] => (dd_all q, q_apps q)
  end.

(* canBeRemoved *)
Definition canBeRemovedInternal (q : qt) : bool :=
  match q_apps q with [] => true | _ => false end && IsZero (q_usage q) &&
  match q_children q with [] => true | _ => false end && (q_maxApps q =? 0) && IsZero (q_max q).
Fixpoint canBeRemoved (q : qt) : bool :=
  let 'QT n p u a m ma w ch := q in
  (fix go (l : list (qname * qt)) : bool :=
     match l with
     | [] => true
     | (_, cq) :: t => canBeRemovedInternal cq && canBeRemoved cq && go t
     end) ch && canBeRemovedInternal q.

(* the tracker found by following hierarchy[1:] from q *)
Fixpoint qt_at (h : path) (q : qt) : option qt :=
  match h with
  | _ :: tl =>
      match tl with
      | c :: _ => match find_child c q with Some ch => qt_at tl ch | None => None end
      | [] => Some q
      end
  | [] => None
  end.

(* all trackers of the tree, parents first *)
Fixpoint flatten (q : qt) : list qt :=
  let 'QT n p u a m ma w ch := q in
  q :: (fix go (l : list (qname * qt)) : list qt :=
          match l with [] => [] | (_, cq) :: t => flatten cq ++ go t end) ch.
