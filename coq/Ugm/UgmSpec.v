(* Abstract specification for C05 and the predicates the property is stated with.  The same
   definitions are used by the theorems (on states of the model) and by the oracles (on the copy
   of the implementation's Manager that the harness reads through the verif hook): an
   observation IS a [ugm_state].
     - limits:  limit conf who path = the named limit, else (users only) the wild card limit,
                else none;  [in_force] reads the limit a state enforces for who/path;
     - usage:   sum over the live allocations (ledger) of the applications of who below path;
     - enforcement / max-applications: step predicates over the state before and after an
                Increase that the scheduler decided. *)
From Coq Require Import List NArith ZArith Bool.
From YK Require Import Base.Int64 Base.Res Ugm.Tracker Ugm.Manager.
Import ListNotations.
Open Scope N_scope.

(* ------------------------------------------------------------------ histories *)
Inductive op :=
| OInc (p : path) (a : app) (r : ores) (u : ugi) (sched : bool)   (* sched: gated by CanRunApp+Headroom *)
| ODec (p : path) (a : app) (r : ores) (u : ugi) (removeApp : bool)
| OHeadroom (p : path) (a : app) (u : ugi)
| OCanRun (p : path) (a : app) (u : ugi)
| OConfig (c : qconf) (rootName : qname).

Inductive ret := RUnit | RHead (h : ores) | RCan (b : bool) | RConf (ok : bool) | RCrash.

(* one call of the Manager API; [None] = the process panicked *)
Definition step_gen (fixed : bool) (pg : list (path * gname) -> list (path * gname)) (ord : bool) (s : ugm_state) (o : op) : option ugm_state * ret :=
  match o with
  | OInc p a r u _ => (Some (ugm_increase s p a r u), RUnit)
  | ODec p a r u rm => (Some (ugm_decrease s p a r u rm), RUnit)
  | OHeadroom p a u => let '(s', h) := ugm_headroom s p a u in (Some s', RHead h)
  | OCanRun p a u => let '(s', b) := ugm_can_run_app s p a u in (Some s', RCan b)
  | OConfig c rn =>
      match update_config_gen fixed pg ord s c rn with
      | UOk s' => (Some s', RConf true)
      | UErr s' => (Some s', RConf false)
      | UCrash => (None, RCrash)
      end
  end.
Definition step := step_gen true (fun l => l) false.
Fixpoint run (s : ugm_state) (ops : list op) : option ugm_state :=
  match ops with
  | [] => Some s
  | o :: t => match fst (step s o) with Some s' => run s' t | None => None end
  end.

(* ------------------------------------------------------------------ reading a state *)
Inductive who := User (u : uname) | Group (g : gname).

Definition who_root (s : ugm_state) (w : who) : option qt :=
  match w with
  | User u => option_map ut_qt (nlookup (users s) u)
  | Group g => option_map gt_qt (nlookup (groups s) g)
  end.
(* the queue tracker of who for the queue path h (h = root :: names) *)
Definition node (s : ugm_state) (w : who) (h : path) : option qt :=
  match who_root s w with Some q => qt_at h q | None => None end.
(* the group the application of user u is charged to *)
Definition link (s : ugm_state) (u : uname) (a : app) : option gname :=
  match nlookup (users s) u with
  | Some ut => match nlookup (ut_links ut) a with Some (Some g) => Some g | _ => None end
  | None => None
  end.
(* has the group been resolved (possibly to "no group")? *)
Definition resolved (s : ugm_state) (u : uname) (a : app) : option (option gname) :=
  match nlookup (users s) u with Some ut => nlookup (ut_links ut) a | None => None end.

Definition tracked (s : ugm_state) (w : who) (h : path) (k : tid) : Z :=
  match node s w h with Some q => getz (oget (q_usage q)) k | None => 0%Z end.

(* non-empty prefixes of a queue path: the queues an application in p is accounted in *)
Fixpoint prefixes (p : path) : list path :=
  match p with
  | [] => []
  | x :: t => [x] :: map (cons x) (prefixes t)
  end.
Fixpoint is_prefix (h p : path) : bool :=
  match h, p with
  | [], _ => true
  | x :: h', y :: p' => (x =? y) && is_prefix h' p'
  | _ :: _, [] => false
  end.

(* ------------------------------------------------------------------ limits *)
(* a limit in normal form: maxResources as a sorted vector ([None] when resources.IsZero, which
   is when the code does not look at it) and max applications (0 = none) *)
Definition nlimit := (option res * N)%type.
Definition no_limit : nlimit := (None, 0).
Definition norm_limit (m : ores) (ma : N) : nlimit := (if IsZero m then None else Some (rnorm (oget m)), ma).
Definition nlimit_eqb (a b : nlimit) : bool :=
  match fst a, fst b with
  | None, None => true
  | Some x, Some y => res_eq_list x y
  | _, _ => false
  end && (snd a =? snd b).

(* the queue configuration for a queue path (queue names are case-insensitive: the scheduler
   lower-cases them, validation rejects siblings that differ in case only) *)
Fixpoint conf_find (qs : list qconf) (n : qname) : option qconf :=
  match qs with
  | [] => None
  | (QConf cn _ _ as c) :: t => if qlower cn =? qlower n then Some c else conf_find t n
  end.
Fixpoint conf_at (c : qconf) (rest : list qname) : option qconf :=
  match rest with
  | [] => Some c
  | n :: t => let 'QConf _ _ qs := c in
              match conf_find qs n with Some c' => conf_at c' t | None => None end
  end.
(* the last limit entry of the queue that names k *)
Fixpoint named_limit (ls : list limit) (sel : limit -> list N) (k : N) : option limit :=
  match ls with
  | [] => None
  | l :: t => match named_limit t sel k with
              | Some x => Some x
              | None => if mem k (sel l) then Some l else None
              end
  end.
Definition limit_nf (l : option limit) : nlimit :=
  match l with
  | Some l => norm_limit (match lim_max l with Some r => Some r | None => None end) (lim_apps l)
  | None => no_limit
  end.
(* UgmSpec.limit conf who path *)
Definition spec_limit (conf : qconf) (w : who) (h : path) : nlimit :=
  match h with
  | [] => no_limit
  | _ :: rest =>
      match conf_at conf rest with
      | None => no_limit
      | Some (QConf _ ls _) =>
          match w with
          | User u => match named_limit ls lim_users u with
                      | Some l => limit_nf (Some l)
                      | None => limit_nf (named_limit ls lim_users WILD)
                      end
          | Group g => limit_nf (named_limit ls lim_groups g)
          end
      end
  end.

(* the limit the state enforces for who on queue h: the limit of the queue tracker, and for a
   user without a tracker for h the wild card limit that newQueueTracker applies on creation *)
Definition in_force (s : ugm_state) (w : who) (h : path) : nlimit :=
  match node s w h with
  | Some q => norm_limit (q_max q) (q_maxApps q)
  | None =>
      match w with
      | User _ => match plookup (userWild s) h with
                  | Some cfg => norm_limit (l_max cfg) (l_apps cfg)
                  | None => no_limit
                  end
      | Group _ => no_limit
      end
  end.
Definition limit_exact (s : ugm_state) (conf : qconf) (w : who) (h : path) : bool :=
  nlimit_eqb (in_force s w h) (spec_limit conf w h).

(* ------------------------------------------------------------------ usage *)
(* the ledger of live allocations: one entry per Increase, a negated entry per Decrease that
   keeps the application, nothing of the application once it has been removed *)
Record lentry := mkLE { le_app : app; le_user : uname; le_path : path; le_res : res }.
Definition ledger := list lentry.
Definition neg_res (r : res) : res := map (fun kv => (fst kv, (- snd kv)%Z)) r.

Definition ledger_step (l : ledger) (o : op) : ledger :=
  match o with
  | OInc p a (Some r) u _ => mkLE a (fst u) p r :: l
  | ODec p a (Some r) u false => mkLE a (fst u) p (neg_res r) :: l
  | ODec p a (Some r) u true => filter (fun e => negb (le_app e =? a)) l
  | _ => l
  end.

(* does the allocation entry count for who? users: their applications; groups: the applications
   whose resolved group (in state s) is the group *)
Definition counts (s : ugm_state) (w : who) (e : lentry) : bool :=
  match w with
  | User u => le_user e =? u
  | Group g => match link s (le_user e) (le_app e) with Some g' => g' =? g | None => false end
  end.
Definition spec_usage (s : ugm_state) (l : ledger) (w : who) (h : path) (k : tid) : Z :=
  fold_right (fun e acc => if counts s w e && is_prefix h (le_path e) then (getz (le_res e) k + acc)%Z else acc) 0%Z l.
Definition usage_exact (s : ugm_state) (l : ledger) (w : who) (h : path) (k : tid) : bool :=
  Z.eqb (tracked s w h k) (spec_usage s l w h k).

(* ------------------------------------------------------------------ enforcement *)
(* usage <= limit on the types the limit defines (a limit for which resources.IsZero holds is
   not a limit) *)
Definition res_ok (q : qt) : bool :=
  IsZero (q_max q) || forallb (fun kv => (getz (oget (q_usage q)) (fst kv) <=? snd kv)%Z) (oget (q_max q)).
Definition apps_ok (q : qt) : bool :=
  (q_maxApps q =? 0) || (N.of_nat (length (q_apps q)) <=? q_maxApps q).

(* [ok] holds after the step on every queue of the path where it held before (a queue tracker
   that did not exist before had no usage and no application) *)
Definition kept (ok : qt -> bool) (b a : ugm_state) (w : who) (p : path) : bool :=
  forallb (fun h => match node a w h with
                    | None => true
                    | Some qa => match node b w h with
                                 | Some qb => implb (ok qb) (ok qa)
                                 | None => ok qa
                                 end
                    end) (prefixes p).
(* the step b -> a (an Increase for application ap of user u in queue p) keeps [ok] for the user
   and for the group the application is charged to *)
Definition step_keeps (ok : qt -> bool) (b a : ugm_state) (u : uname) (ap : app) (p : path) : bool :=
  kept ok b a (User u) p &&
  match link a u ap with Some g => kept ok b a (Group g) p | None => true end.
Definition enforce_step := step_keeps res_ok.
Definition canrun_step := step_keeps apps_ok.
