(* C05, conservation, part 2: the Manager.  The invariant relates every user and group tracker
   to the ledger of live allocations; it is preserved by Increase, Decrease, Headroom and
   CanRunApp (no reload), for histories in which increases and decreases are paired.
   Proofs only. *)
From Coq Require Import List NArith ZArith Bool Lia.
From YK Require Import Base.Int64 Base.Res Base.ResSpec Base.ResLemmas Base.ResLaws Base.ResLaws2 Base.ResLawsPred
     Base.Int64Laws Ugm.Tracker Ugm.Manager Ugm.UgmSpec Ugm.TrackerFacts Ugm.TreeInv Ugm.Enforce Ugm.Conserve.
Import ListNotations.
Open Scope N_scope.

(* ------------------------------------------------------------------ the invariant *)
(* every tracker tree agrees with the ledger entries that count for its owner *)
Definition WInv (s : ugm_state) (L : ledger) : Prop :=
  forall w, match who_root s w with
            | Some q => TInv q (counts s w) L
            | None => forall e, In e L -> counts s w e = false
            end.
(* the group of an application that holds something is resolved, and resolved groups have a tracker *)
Definition Links (s : ugm_state) (L : ledger) : Prop :=
  (forall e, In e L -> resolved s (le_user e) (le_app e) <> None) /\
  (forall u a g, link s u a = Some g -> nlookup (groups s) g <> None /\ g <> EMPTY).
(* group trackers carry a limit that counts (so they are never removed), and every group that the
   configuration can resolve has a tracker (so none is created on the fly) *)
Definition anchored (q : qt) : Prop := exists names l, alim q names = Some l /\ real l = true.
Definition resolvable (s : ugm_state) (g : gname) : Prop :=
  exists p, (exists cgs, plookup (cfgGroups s) p = Some cgs /\ In g cgs) \/ (g = WILD /\ plookup (groupWild s) p <> None).
Definition Anch (s : ugm_state) : Prop :=
  (forall g gt, nlookup (groups s) g = Some gt -> anchored (gt_qt gt)) /\
  (forall g, resolvable s g -> nlookup (groups s) g <> None).

(* the ledger: vectors well formed, queue paths start at the root, one user and queue per application *)
Record LInv (L : ledger) : Prop := mkLInv {
  li_wf : entries_wf L;
  li_root : forall e, In e L -> exists tl, le_path e = ROOT :: tl;
  li_cons : forall e1 e2, In e1 L -> In e2 L -> le_app e1 = le_app e2 -> le_user e1 = le_user e2 /\ le_path e1 = le_path e2 }.

(* what a history may do next (pairing discipline) *)
Definition hist_ok (L : ledger) (o : op) : Prop :=
  match o with
  | OInc p a (Some r) u _ =>
      (exists tl, p = ROOT :: tl) /\ a <> EMPTY /\ fst u <> EMPTY /\ wf r /\ res_in_range r /\
      (forall e, In e L -> le_app e = a -> le_user e = fst u /\ le_path e = p)
  | ODec p a (Some r) u rm =>
      (exists tl, p = ROOT :: tl) /\ a <> EMPTY /\ fst u <> EMPTY /\ wf r /\ res_in_range r /\
      (exists e, In e L /\ le_app e = a) /\
      (forall e, In e L -> le_app e = a -> le_user e = fst u /\ le_path e = p) /\
      (rm = true -> forall k, getz r k = asum (fun _ => true) a L k)
  | OHeadroom p a u | OCanRun p a u => exists x tl, p = x :: tl
  | _ => False
  end.

(* ------------------------------------------------------------------ small facts *)
Lemma link_resolved s u a : link s u a = match resolved s u a with Some (Some g) => Some g | _ => None end.
Proof. unfold link, resolved. destruct (nlookup (users s) u); reflexivity. Qed.
Lemma counts_resolved s s' w e :
  resolved s' (le_user e) (le_app e) = resolved s (le_user e) (le_app e) -> counts s' w e = counts s w e.
Proof. intros H. destruct w; cbn [counts]; [reflexivity|]. rewrite !link_resolved, H. reflexivity. Qed.

Lemma TInv_cons_unsel q sel L e0 : sel e0 = false -> TInv q sel L -> TInv q sel (e0 :: L).
Proof.
  intros Hs [T1 T2 T3 T4]. constructor; try assumption.
  - intros names k. rewrite lsum_cons, Hs. cbn [andb]. rewrite T1. lia.
  - intros names b. rewrite T2. split; intros (e & Hin & Hse & Hu & Ha).
    + exists e. repeat split; try assumption. right. assumption.
    + destruct Hin as [<-|Hin]; [rewrite Hs in Hse; discriminate|]. exists e. repeat split; assumption.
Qed.
Lemma lsum_filter_unsel sel a L names k : (forall e, In e L -> sel e = true -> le_app e <> a) ->
  lsum sel (filter (fun e => negb (le_app e =? a)) L) names k = lsum sel L names k.
Proof.
  induction L as [|e t IH]; intros H; [reflexivity|]. cbn [filter].
  assert (IH' := IH (fun e' Hin => H e' (or_intror Hin))).
  destruct (N.eqb_spec (le_app e) a) as [Ea|Ea]; cbn [negb].
  - rewrite IH', lsum_cons. destruct (sel e) eqn:Es; cbn [andb]; [|lia].
    exfalso. exact (H e (or_introl eq_refl) Es Ea).
  - rewrite !lsum_cons, IH'. reflexivity.
Qed.
Lemma TInv_filter_unsel q sel L a : (forall e, In e L -> sel e = true -> le_app e <> a) ->
  TInv q sel L -> TInv q sel (filter (fun e => negb (le_app e =? a)) L).
Proof.
  intros Hs [T1 T2 T3 T4]. constructor; try assumption.
  - intros names k. rewrite lsum_filter_unsel by assumption. apply T1.
  - intros names b. rewrite T2. split; intros (e & Hin & Hse & Hu & Ha).
    + exists e. repeat split; try assumption. apply filter_In. split; [assumption|].
      destruct (N.eqb_spec (le_app e) a) as [Ea|]; [|reflexivity]. exfalso. exact (Hs e Hin Hse Ea).
    + apply filter_In in Hin. exists e. repeat split; try assumption. apply Hin.
Qed.

Lemma araw_newRoot wc tt names : araw (newRootQT wc tt) names = None.
Proof. apply araw_newQT. Qed.
Lemma aapps_newRoot wc tt names : aapps (newRootQT wc tt) names = [].
Proof. apply aapps_newQT. Qed.

(* ---- the bundle ---- *)
Definition Inv (s : ugm_state) (L : ledger) : Prop := WInv s L /\ Links s L /\ Anch s.

(* two states with the same trackers' roots up to readable content, the same resolutions and the
   same groups *)
Lemma WInv_transfer s s' L :
  (forall e, In e L -> resolved s' (le_user e) (le_app e) = resolved s (le_user e) (le_app e)) ->
  (forall w, match who_root s w, who_root s' w with
             | Some q, Some q' => (forall names, araw q' names = araw q names) /\ (forall names, aapps q' names = aapps q names)
             | None, None => True
             | None, Some q' => (forall names, araw q' names = None) /\ (forall names, aapps q' names = [])
             | Some _, None => False
             end) ->
  WInv s L -> WInv s' L.
Proof.
  intros Hres Hroots HW w. specialize (Hroots w). specialize (HW w).
  assert (Hc : forall e, In e L -> counts s' w e = counts s w e) by (intros e Hin; apply counts_resolved; apply Hres; assumption).
  destruct (who_root s w) as [q|], (who_root s' w) as [q'|]; try contradiction.
  - destruct Hroots as (Hr & Ha). apply (TInv_ext q' (counts s w)); [intros; symmetry; apply Hc; assumption|].
    apply (TInv_same q q'); assumption.
  - destruct Hroots as (Hr & Ha). apply TInv_empty; try assumption. intros e Hin. rewrite Hc by assumption. apply HW. assumption.
  - intros e Hin. rewrite Hc by assumption. apply HW. assumption.
Qed.

Ltac roots_same := match goal with |- match ?o with _ => _ end => destruct o; [split; reflexivity|exact I] end.

(* ---- A. getUserTracker ---- *)
Lemma resolved_getUserTracker s u u' a : resolved (fst (getUserTracker s u)) u' a = resolved s u' a.
Proof.
  unfold getUserTracker. destruct (nlookup (users s) u) as [ut|] eqn:E; [reflexivity|]. cbn [fst].
  unfold resolved. cbn [users set_users]. rewrite nlookup_nset. destruct (N.eqb_spec u' u) as [->|]; [|reflexivity].
  rewrite E. reflexivity.
Qed.
Lemma Inv_getUserTracker s L u : Inv s L -> Inv (fst (getUserTracker s u)) L.
Proof.
  intros (HW & (HL1 & HL2) & HA). set (s1 := fst (getUserTracker s u)).
  assert (Hg : groups s1 = groups s) by (unfold s1, getUserTracker; destruct (nlookup (users s) u); reflexivity).
  assert (Hcg : cfgGroups s1 = cfgGroups s /\ groupWild s1 = groupWild s) by (unfold s1, getUserTracker; destruct (nlookup (users s) u); split; reflexivity).
  split; [|split].
  - apply (WInv_transfer s s1 L); [intros; apply resolved_getUserTracker| |assumption].
    intros [u'|g]; cbn [who_root].
    + unfold s1, getUserTracker. destruct (nlookup (users s) u) as [ut|] eqn:E; cbn [fst users set_users].
      * roots_same.
      * rewrite nlookup_nset. destruct (N.eqb_spec u' u) as [->|].
        -- rewrite E. cbn. split; intros; [apply araw_newRoot|apply aapps_newRoot].
        -- roots_same.
    + rewrite Hg. roots_same.
  - split.
    + intros e Hin. unfold s1. rewrite resolved_getUserTracker. apply HL1. assumption.
    + intros u' a g Hl. rewrite Hg. apply (HL2 u' a g). rewrite link_resolved in *. unfold s1 in Hl. rewrite resolved_getUserTracker in Hl. assumption.
  - destruct HA as (HA1 & HA2). destruct Hcg as (Hc1 & Hc2). split.
    + intros g gt. rewrite Hg. apply HA1.
    + intros g (p & Hr). rewrite Hg. apply HA2. exists p. rewrite Hc1, Hc2 in Hr. assumption.
Qed.

(* ---- B. ensure_link ---- *)
Lemma first_match_In cgs ugroups g : first_match cgs ugroups = Some g -> In g cgs.
Proof.
  induction cgs as [|c t IH]; cbn; [discriminate|]. destruct (mem c ugroups); [intros H; injection H as <-; left; reflexivity|].
  intros H. right. apply IH. assumption.
Qed.
Lemma ensureGroupInternal_resolvable s ugroups rp : ensureGroupInternal s ugroups rp <> EMPTY -> resolvable s (ensureGroupInternal s ugroups rp).
Proof.
  induction rp as [|x rp' IH]; [intros H; contradiction H; reflexivity|].
  cbn [ensureGroupInternal]. destruct (plookup (cfgGroups s) (rev (x :: rp'))) as [cgs|] eqn:Ec.
  - destruct (first_match cgs ugroups) as [g|] eqn:Ef.
    + intros _. exists (rev (x :: rp')). left. exists cgs. split; [assumption|]. apply (first_match_In _ _ _ Ef).
    + destruct (plookup (groupWild s) (rev (x :: rp'))) eqn:Ew.
      * intros _. exists (rev (x :: rp')). right. split; [reflexivity|]. rewrite Ew. discriminate.
      * destruct rp'; [intros H; contradiction H; reflexivity|exact IH].
  - destruct (plookup (groupWild s) (rev (x :: rp'))) eqn:Ew.
    + intros _. exists (rev (x :: rp')). right. split; [reflexivity|]. rewrite Ew. discriminate.
    + destruct rp'; [intros H; contradiction H; reflexivity|exact IH].
Qed.
Lemma ensureGroup_resolvable s (user : ugi) p : ensureGroup s user p <> EMPTY -> resolvable s (ensureGroup s user p).
Proof. unfold ensureGroup. destruct (snd user); [intros H; contradiction H; reflexivity|apply ensureGroupInternal_resolvable]. Qed.

Lemma resolved_set_links s u ut a lk u' a' : nlookup (users s) u = Some ut ->
  resolved (set_users s (nset u (mkUT (nset a lk (ut_links ut)) (ut_qt ut)) (users s))) u' a' =
  if (u' =? u) && (a' =? a) then Some lk else resolved s u' a'.
Proof.
  intros Hu. unfold resolved. cbn [users set_users]. rewrite nlookup_nset.
  destruct (N.eqb_spec u' u) as [->|]; cbn [andb]; [|reflexivity]. rewrite Hu. cbn [ut_links]. apply nlookup_nset.
Qed.

Lemma Inv_ensure_link s L p a (user : ugi) : Inv s L -> Inv (ensure_link s p a user) L.
Proof.
  intros (HW & (HL1 & HL2) & (HA1 & HA2)). unfold ensure_link.
  destruct (nlookup (users s) (fst user)) as [ut|] eqn:Hu; [|exact (conj HW (conj (conj HL1 HL2) (conj HA1 HA2)))].
  destruct (hasGroupForApp ut a) eqn:Hh; [exact (conj HW (conj (conj HL1 HL2) (conj HA1 HA2)))|].
  unfold ensureGroupTrackerForApp. rewrite Hu, Hh.
  set (g := ensureGroup s user p). set (lk := if g =? EMPTY then None else Some g).
  assert (Hs1 : (if g =? EMPTY then s else match nlookup (groups s) g with Some _ => s | None => set_groups s (nset g newGroupTracker (groups s)) end) = s).
  { destruct (N.eqb_spec g EMPTY) as [|Hne]; [reflexivity|].
    destruct (nlookup (groups s) g) eqn:Eg; [reflexivity|]. exfalso. apply (HA2 g); [|assumption].
    apply ensureGroup_resolvable. assumption. }
  rewrite Hs1. set (s2 := set_users s _).
  assert (Hnone : resolved s (fst user) a = None).
  { unfold resolved. rewrite Hu. unfold hasGroupForApp in Hh. destruct (nlookup (ut_links ut) a); [discriminate|reflexivity]. }
  assert (Hres : forall u' a', resolved s2 u' a' = if (u' =? fst user) && (a' =? a) then Some lk else resolved s u' a')
    by (intros; apply resolved_set_links; assumption).
  assert (HresL : forall e, In e L -> resolved s2 (le_user e) (le_app e) = resolved s (le_user e) (le_app e)).
  { intros e Hin. rewrite Hres. destruct (N.eqb_spec (le_user e) (fst user)) as [Eu|]; [|reflexivity].
    destruct (N.eqb_spec (le_app e) a) as [Ea|]; [|reflexivity]. exfalso. apply (HL1 e Hin). rewrite Eu, Ea. assumption. }
  split; [|split].
  - apply (WInv_transfer s s2 L HresL); [|assumption]. intros [u'|g']; cbn [who_root].
    + unfold s2. cbn [users set_users]. rewrite nlookup_nset. destruct (N.eqb_spec u' (fst user)) as [->|]; [|roots_same].
      rewrite Hu. cbn. split; reflexivity.
    + change (groups s2) with (groups s). roots_same.
  - split.
    + intros e Hin. rewrite HresL by assumption. apply HL1. assumption.
    + intros u' a' g' Hl. change (groups s2) with (groups s). rewrite link_resolved, Hres in Hl.
      destruct ((u' =? fst user) && (a' =? a)).
      * unfold lk in Hl. destruct (N.eqb_spec g EMPTY) as [|Hne]; [discriminate|]. injection Hl as <-.
        split; [|assumption]. apply HA2. apply ensureGroup_resolvable. assumption.
      * apply (HL2 u' a' g'). rewrite link_resolved. assumption.
  - split; assumption.
Qed.

(* ---- C. / D. a tracker tree replaced by one that reads the same ---- *)
Lemma resolved_set_tree s u ut Q' u' a' : nlookup (users s) u = Some ut ->
  resolved (set_users s (nset u (mkUT (ut_links ut) Q') (users s))) u' a' = resolved s u' a'.
Proof.
  intros Hu. unfold resolved. cbn [users set_users]. rewrite nlookup_nset.
  destruct (N.eqb_spec u' u) as [->|]; [|reflexivity]. rewrite Hu. reflexivity.
Qed.

Lemma Inv_user_tree_same s L u ut Q' : Inv s L -> nlookup (users s) u = Some ut ->
  (forall names, araw Q' names = araw (ut_qt ut) names) -> (forall names, aapps Q' names = aapps (ut_qt ut) names) ->
  Inv (set_users s (nset u (mkUT (ut_links ut) Q') (users s))) L.
Proof.
  intros (HW & (HL1 & HL2) & HA) Hu Hr Ha. set (s' := set_users s _).
  assert (Hres : forall u' a', resolved s' u' a' = resolved s u' a') by (intros; apply resolved_set_tree; assumption).
  split; [|split].
  - apply (WInv_transfer s s' L); [intros; apply Hres| |assumption]. intros [u'|g']; cbn [who_root].
    + unfold s'. cbn [users set_users]. rewrite nlookup_nset. destruct (N.eqb_spec u' u) as [->|]; [|roots_same].
      rewrite Hu. cbn. split; assumption.
    + change (groups s') with (groups s). roots_same.
  - split.
    + intros e Hin. rewrite Hres. apply HL1. assumption.
    + intros u' a' g' Hl. change (groups s') with (groups s). apply (HL2 u' a' g'). rewrite link_resolved in *. rewrite Hres in Hl. assumption.
  - exact HA.
Qed.

Lemma Inv_group_tree_same s L g gt GQ' : Inv s L -> nlookup (groups s) g = Some gt ->
  (forall names, araw GQ' names = araw (gt_qt gt) names) -> (forall names, aapps GQ' names = aapps (gt_qt gt) names) ->
  (forall names l, alim (gt_qt gt) names = Some l -> alim GQ' names = Some l) ->
  Inv (set_groups s (nset g (mkGT (gt_apps gt) GQ') (groups s))) L.
Proof.
  intros (HW & (HL1 & HL2) & (HA1 & HA2)) Hg Hr Ha Hl. set (s' := set_groups s _).
  assert (Hres : forall u' a', resolved s' u' a' = resolved s u' a') by reflexivity.
  split; [|split].
  - apply (WInv_transfer s s' L); [intros; apply Hres| |assumption]. intros [u'|g']; cbn [who_root].
    + change (users s') with (users s). roots_same.
    + unfold s'. cbn [groups set_groups]. rewrite nlookup_nset. destruct (N.eqb_spec g' g) as [->|]; [|roots_same].
      rewrite Hg. cbn. split; assumption.
  - split.
    + intros e Hin. rewrite Hres. apply HL1. assumption.
    + intros u' a' g' Hlk. unfold s'. cbn [groups set_groups]. rewrite nlookup_nset.
      destruct (HL2 u' a' g' Hlk) as (H1 & H2). split; [|assumption]. destruct (N.eqb_spec g' g); [discriminate|assumption].
  - split.
    + intros g' gt'. unfold s'. cbn [groups set_groups]. rewrite nlookup_nset. destruct (N.eqb_spec g' g) as [->|]; [|apply HA1].
      intros H. injection H as <-. cbn [gt_qt]. destruct (HA1 g gt Hg) as (names & l & Hal & Hre).
      exists names, l. split; [apply Hl; assumption|assumption].
    + intros g' Hrv. unfold s'. cbn [groups set_groups]. rewrite nlookup_nset. destruct (N.eqb_spec g' g); [discriminate|].
      apply HA2. exact Hrv.
Qed.

(* ---- Headroom and CanRunApp keep the invariant ---- *)
Lemma Inv_headroom s L x tl a (user : ugi) : Inv s L -> Inv (fst (ugm_headroom s (x :: tl) a user)) L.
Proof.
  intros HI. unfold ugm_headroom.
  destruct (getUserTracker s (fst user)) as [s1 ut] eqn:Eg.
  assert (HI1 : Inv s1 L) by (replace s1 with (fst (getUserTracker s (fst user))) by (rewrite Eg; reflexivity); apply Inv_getUserTracker; assumption).
  destruct (getUserTracker_spec s (fst user) s1 ut Eg) as (Hu1 & _).
  destruct (headroom (userWild s1) TUser (x :: tl) (ut_qt ut)) as [uq' uh] eqn:Eh.
  assert (Euq : uq' = fst (headroom (userWild s1) TUser (x :: tl) (ut_qt ut))) by (rewrite Eh; reflexivity).
  set (s2 := set_users s1 (nset (fst user) (mkUT (ut_links ut) uq') (users s1))).
  assert (HI2 : Inv s2 L).
  { apply Inv_user_tree_same; try assumption; intros; rewrite Euq; [apply headroom_araw|apply headroom_aapps]. }
  pose proof (Inv_ensure_link s2 L (x :: tl) a user HI2) as HI3. set (s3 := ensure_link s2 (x :: tl) a user) in *.
  destruct (nlookup (users s3) (fst user)) as [ut3|]; [|exact HI3].
  destruct (getGroupForApp ut3 a =? EMPTY); [exact HI3|].
  destruct (nlookup (groups s3) (getGroupForApp ut3 a)) as [gt|] eqn:Egt; [|exact HI3].
  destruct (headroom [] TGroup (x :: tl) (gt_qt gt)) as [gq' gh] eqn:Egh. cbn [fst].
  assert (Egq : gq' = fst (headroom [] TGroup (x :: tl) (gt_qt gt))) by (rewrite Egh; reflexivity).
  apply Inv_group_tree_same; try assumption; intros; rewrite Egq; [apply headroom_araw|apply headroom_aapps|apply headroom_alim; assumption].
Qed.
Lemma Inv_can_run_app s L x tl a (user : ugi) : Inv s L -> Inv (fst (ugm_can_run_app s (x :: tl) a user)) L.
Proof.
  intros HI. unfold ugm_can_run_app.
  destruct (getUserTracker s (fst user)) as [s1 ut] eqn:Eg.
  assert (HI1 : Inv s1 L) by (replace s1 with (fst (getUserTracker s (fst user))) by (rewrite Eg; reflexivity); apply Inv_getUserTracker; assumption).
  destruct (getUserTracker_spec s (fst user) s1 ut Eg) as (Hu1 & _).
  destruct (canRunApp (userWild s1) TUser (x :: tl) a (ut_qt ut)) as [uq' uok] eqn:Eh.
  assert (Euq : uq' = fst (canRunApp (userWild s1) TUser (x :: tl) a (ut_qt ut))) by (rewrite Eh; reflexivity).
  set (s2 := set_users s1 (nset (fst user) (mkUT (ut_links ut) uq') (users s1))).
  assert (HI2 : Inv s2 L).
  { apply Inv_user_tree_same; try assumption; intros; rewrite Euq; [apply canRunApp_araw|apply canRunApp_aapps]. }
  pose proof (Inv_ensure_link s2 L (x :: tl) a user HI2) as HI3. set (s3 := ensure_link s2 (x :: tl) a user) in *.
  destruct (nlookup (users s3) (fst user)) as [ut3|]; [|exact HI3].
  destruct (getGroupForApp ut3 a =? EMPTY); [exact HI3|].
  destruct (nlookup (groups s3) (getGroupForApp ut3 a)) as [gt|] eqn:Egt; [|exact HI3].
  destruct (canRunApp [] TGroup (x :: tl) a (gt_qt gt)) as [gq' gok] eqn:Egh. cbn [fst].
  assert (Egq : gq' = fst (canRunApp [] TGroup (x :: tl) a (gt_qt gt))) by (rewrite Egh; reflexivity).
  apply Inv_group_tree_same; try assumption; intros; rewrite Egq; [apply canRunApp_araw|apply canRunApp_aapps|apply canRunApp_alim; assumption].
Qed.

(* ---- Increase ---- *)
Lemma resolved_has ut s u a : nlookup (users s) u = Some ut -> hasGroupForApp ut a = true -> resolved s u a <> None.
Proof. intros Hu Hh. unfold resolved. rewrite Hu. unfold hasGroupForApp in Hh. destruct (nlookup (ut_links ut) a); [discriminate|discriminate]. Qed.
Lemma link_getGroup s u a ut : nlookup (users s) u = Some ut ->
  link s u a = if getGroupForApp ut a =? EMPTY then (match link s u a with Some g => Some g | None => None end) else Some (getGroupForApp ut a).
Proof.
  intros Hu. unfold link, getGroupForApp. rewrite Hu. destruct (nlookup (ut_links ut) a) as [[g|]|]; cbn; try reflexivity.
  destruct (g =? EMPTY); reflexivity.
Qed.

Lemma anchored_increase wc tt x tl a u q : anchored q -> anchored (increase wc tt (x :: tl) a u q).
Proof. intros (names & l & Hl & Hr). exists names, l. split; [apply increase_alim; assumption|assumption]. Qed.

Lemma Inv_increase_prepared s L x tl a r (user : ugi) ut :
  Inv s L -> nlookup (users s) (fst user) = Some ut -> hasGroupForApp ut a = true ->
  wf r -> res_in_range r ->
  bounded L -> bounded (mkLE a (fst user) (x :: tl) r :: L) ->
  Inv (let ut' := mkUT (ut_links ut) (increase (userWild s) TUser (x :: tl) a (Some r) (ut_qt ut)) in
       let s3 := set_users s (nset (fst user) ut' (users s)) in
       let g := getGroupForApp ut a in
       if g =? EMPTY then s3 else
       match nlookup (groups s) g with
       | None => s3
       | Some gt => set_groups s3 (nset g (mkGT (nset a (fst user) (gt_apps gt)) (increase [] TGroup (x :: tl) a (Some r) (gt_qt gt))) (groups s))
       end)
      (mkLE a (fst user) (x :: tl) r :: L).
Proof.
  intros (HW & (HL1 & HL2) & (HA1 & HA2)) Hu Hh Wr Rr B B'. cbv zeta.
  set (u := fst user) in *. set (e0 := mkLE a u (x :: tl) r) in *.
  set (ut' := mkUT (ut_links ut) (increase (userWild s) TUser (x :: tl) a (Some r) (ut_qt ut))).
  set (s3 := set_users s (nset u ut' (users s))).
  set (g := getGroupForApp ut a).
  (* the group side: either nothing changes, or the tracker of the linked group is increased *)
  assert (Hcase : (link s u a = None /\ (if g =? EMPTY then s3 else match nlookup (groups s) g with None => s3 | Some gt => set_groups s3 (nset g (mkGT (nset a u (gt_apps gt)) (increase [] TGroup (x :: tl) a (Some r) (gt_qt gt))) (groups s)) end) = s3) \/
                  (exists gt, link s u a = Some g /\ nlookup (groups s) g = Some gt /\
                     (if g =? EMPTY then s3 else match nlookup (groups s) g with None => s3 | Some gt => set_groups s3 (nset g (mkGT (nset a u (gt_apps gt)) (increase [] TGroup (x :: tl) a (Some r) (gt_qt gt))) (groups s)) end) =
                     set_groups s3 (nset g (mkGT (nset a u (gt_apps gt)) (increase [] TGroup (x :: tl) a (Some r) (gt_qt gt))) (groups s)))).
  { destruct (link s u a) as [g0|] eqn:El.
    - right. destruct (HL2 u a g0 El) as (Hex & Hne).
      assert (g = g0).
      { unfold g, getGroupForApp. unfold link in El. rewrite Hu in El. destruct (nlookup (ut_links ut) a) as [[g1|]|]; congruence. }
      subst g0. destruct (nlookup (groups s) g) as [gt|] eqn:Eg; [|contradiction]. exists gt.
      destruct (N.eqb_spec g EMPTY); [contradiction|]. repeat split; reflexivity.
    - left. split; [reflexivity|].
      assert (g = EMPTY).
      { unfold g, getGroupForApp. unfold link in El. rewrite Hu in El. destruct (nlookup (ut_links ut) a) as [[g1|]|]; congruence. }
      rewrite H. reflexivity. }
  assert (Hres3 : forall u' a', resolved s3 u' a' = resolved s u' a') by (intros; apply resolved_set_tree; assumption).
  assert (Hc0u : forall u', counts s (User u') e0 = (u =? u')) by reflexivity.
  destruct Hcase as [(El & ->)|(gt & El & Eg & ->)].
  - (* no group *)
    split; [|split].
    + intros w. assert (Hc : forall e, counts s3 w e = counts s w e) by (intros; apply counts_resolved; apply Hres3).
      specialize (HW w). destruct w as [u'|g']; cbn [who_root].
      * unfold s3. cbn [users set_users]. rewrite nlookup_nset. destruct (N.eqb_spec u' u) as [->|Hne].
        -- cbn [option_map ut_qt ut']. cbn [who_root] in HW. rewrite Hu in HW. cbn [option_map] in HW.
           apply (TInv_ext _ (counts s (User u))); [intros; symmetry; apply Hc|].
           apply TInv_increase; try assumption. cbn. apply N.eqb_refl.
        -- cbn [who_root] in HW. destruct (nlookup (users s) u') as [ut1|]; cbn [option_map] in *.
           ++ apply (TInv_ext _ (counts s (User u'))); [intros; symmetry; apply Hc|]. apply TInv_cons_unsel; [|assumption].
              cbn. destruct (N.eqb_spec u u'); [congruence|reflexivity].
           ++ intros e [<-|Hin]; [cbn; destruct (N.eqb_spec u u'); [congruence|reflexivity]|rewrite Hc; apply HW; assumption].
      * change (groups s3) with (groups s). cbn [who_root] in HW.
        assert (Hc0 : counts s (Group g') e0 = false) by (cbn; rewrite El; reflexivity).
        destruct (nlookup (groups s) g') as [gt1|]; cbn [option_map] in *.
        -- apply (TInv_ext _ (counts s (Group g'))); [intros; symmetry; apply Hc|]. apply TInv_cons_unsel; assumption.
        -- intros e [<-|Hin]; [rewrite Hc; assumption|rewrite Hc; apply HW; assumption].
    + split.
      * intros e [<-|Hin]; rewrite Hres3; [cbn; apply (resolved_has ut); assumption|apply HL1; assumption].
      * intros u' a' g' Hl. change (groups s3) with (groups s). apply (HL2 u' a' g'). rewrite link_resolved in *. rewrite Hres3 in Hl. assumption.
    + split; assumption.
  - (* group g is charged *)
    set (gt' := mkGT (nset a u (gt_apps gt)) (increase [] TGroup (x :: tl) a (Some r) (gt_qt gt))).
    set (s4 := set_groups s3 (nset g gt' (groups s))).
    assert (Hres4 : forall u' a', resolved s4 u' a' = resolved s u' a') by (intros; apply Hres3).
    split; [|split].
    + intros w. assert (Hc : forall e, counts s4 w e = counts s w e) by (intros; apply counts_resolved; apply Hres4).
      specialize (HW w). destruct w as [u'|g']; cbn [who_root].
      * change (users s4) with (users s3). unfold s3. cbn [users set_users]. rewrite nlookup_nset. destruct (N.eqb_spec u' u) as [->|Hne].
        -- cbn [option_map ut_qt ut']. cbn [who_root] in HW. rewrite Hu in HW. cbn [option_map] in HW.
           apply (TInv_ext _ (counts s (User u))); [intros; symmetry; apply Hc|].
           apply TInv_increase; try assumption. cbn. apply N.eqb_refl.
        -- cbn [who_root] in HW. destruct (nlookup (users s) u') as [ut1|]; cbn [option_map] in *.
           ++ apply (TInv_ext _ (counts s (User u'))); [intros; symmetry; apply Hc|]. apply TInv_cons_unsel; [|assumption].
              cbn. destruct (N.eqb_spec u u'); [congruence|reflexivity].
           ++ intros e [<-|Hin]; [cbn; destruct (N.eqb_spec u u'); [congruence|reflexivity]|rewrite Hc; apply HW; assumption].
      * unfold s4. cbn [groups set_groups]. rewrite nlookup_nset. cbn [who_root] in HW.
        assert (Hc0 : counts s (Group g') e0 = (g =? g')) by (cbn; rewrite El; reflexivity).
        destruct (N.eqb_spec g' g) as [->|Hne].
        -- cbn [option_map gt_qt gt']. rewrite Eg in HW. cbn [option_map] in HW.
           apply (TInv_ext _ (counts s (Group g))); [intros; symmetry; apply Hc|].
           apply TInv_increase; try assumption. exact (eq_trans Hc0 (N.eqb_refl g)).
        -- assert (Hc0' : counts s (Group g') e0 = false) by (rewrite Hc0; destruct (N.eqb_spec g g'); [congruence|reflexivity]).
           destruct (nlookup (groups s) g') as [gt1|]; cbn [option_map] in *.
           ++ apply (TInv_ext _ (counts s (Group g'))); [intros; symmetry; apply Hc|]. apply TInv_cons_unsel; assumption.
           ++ intros e [<-|Hin]; [rewrite Hc; assumption|rewrite Hc; apply HW; assumption].
    + split.
      * intros e [<-|Hin]; rewrite Hres4; [cbn; apply (resolved_has ut); assumption|apply HL1; assumption].
      * intros u' a' g' Hl. unfold s4. cbn [groups set_groups]. rewrite nlookup_nset.
        assert (Hl' : link s u' a' = Some g') by (rewrite link_resolved in *; rewrite Hres4 in Hl; assumption).
        destruct (HL2 u' a' g' Hl') as (H1 & H2). split; [|assumption]. destruct (N.eqb_spec g' g); [discriminate|assumption].
    + split.
      * intros g' gt1. unfold s4. cbn [groups set_groups]. rewrite nlookup_nset. destruct (N.eqb_spec g' g) as [->|]; [|apply HA1].
        intros H. injection H as <-. cbn [gt_qt gt']. apply anchored_increase. apply (HA1 g gt Eg).
      * intros g' Hrv. unfold s4. cbn [groups set_groups]. rewrite nlookup_nset. destruct (N.eqb_spec g' g); [discriminate|].
        apply HA2. exact Hrv.
Qed.

Lemma ugm_increase_prepare s x tl a r (user : ugi) :
  (a =? EMPTY) = false -> (fst user =? EMPTY) = false ->
  ugm_increase s (x :: tl) a (Some r) user =
  ugm_increase (ensure_link (fst (getUserTracker s (fst user))) (x :: tl) a user) (x :: tl) a (Some r) user.
Proof.
  intros Ha Hu. destruct (getUserTracker s (fst user)) as [s1 ut0] eqn:Eg. cbn [fst].
  destruct (getUserTracker_spec s (fst user) s1 ut0 Eg) as (Hu1 & _).
  destruct (ensure_link_spec s1 (x :: tl) a user ut0 Hu1) as (links' & Hl & Hh & _).
  set (s2 := ensure_link s1 (x :: tl) a user) in *.
  rewrite (ugm_increase_resolved s2 x tl a r user _ Ha Hu Hl Hh).
  unfold ugm_increase. rewrite Ha, Hu, Eg. cbn [is_nil orb]. fold s2. rewrite Hl. reflexivity.
Qed.

Lemma Inv_increase s L x tl a r (user : ugi) :
  Inv s L -> (a =? EMPTY) = false -> (fst user =? EMPTY) = false -> wf r -> res_in_range r ->
  bounded L -> bounded (mkLE a (fst user) (x :: tl) r :: L) ->
  Inv (ugm_increase s (x :: tl) a (Some r) user) (mkLE a (fst user) (x :: tl) r :: L).
Proof.
  intros HI Ha Hu Wr Rr B B'. rewrite (ugm_increase_prepare s x tl a r user Ha Hu).
  destruct (getUserTracker s (fst user)) as [s1 ut0] eqn:Eg. cbn [fst].
  assert (HI1 : Inv s1 L) by (replace s1 with (fst (getUserTracker s (fst user))) by (rewrite Eg; reflexivity); apply Inv_getUserTracker; assumption).
  destruct (getUserTracker_spec s (fst user) s1 ut0 Eg) as (Hu1 & _).
  destruct (ensure_link_spec s1 (x :: tl) a user ut0 Hu1) as (links' & Hl & Hh & _).
  pose proof (Inv_ensure_link s1 L (x :: tl) a user HI1) as HI2.
  set (s2 := ensure_link s1 (x :: tl) a user) in *.
  rewrite (ugm_increase_resolved s2 x tl a r user _ Ha Hu Hl Hh).
  apply (Inv_increase_prepared s2 L x tl a r user _ HI2 Hl Hh Wr Rr B B').
Qed.

(* ---- Decrease ---- *)
Definition ledger_dec (L : ledger) (a : app) (u : uname) (p : path) (r : res) (rm : bool) : ledger :=
  if rm then filter (fun e => negb (le_app e =? a)) L else mkLE a u p (neg_res r) :: L.

Lemma asum_ext sel sel' a L k : (forall e, In e L -> le_app e = a -> sel e = sel' e) -> asum sel a L k = asum sel' a L k.
Proof.
  induction L as [|e t IH]; intros H; [reflexivity|]. cbn [asum fold_right]. fold (asum sel a t k) (asum sel' a t k).
  rewrite (IH (fun e' Hin => H e' (or_intror Hin))).
  destruct (N.eqb_spec (le_app e) a) as [Ea|]; [rewrite (H e (or_introl eq_refl) Ea); reflexivity|rewrite !andb_false_r; reflexivity].
Qed.

Lemma TInv_decrease_any q sel L a u x tl r rm q' b :
  TInv q sel L -> wf r -> res_in_range r ->
  (exists e, In e L /\ le_app e = a) ->
  (forall e, In e L -> le_app e = a -> sel e = true /\ le_path e = x :: tl) ->
  sel (mkLE a u (x :: tl) (neg_res r)) = true ->
  (rm = true -> forall k, getz r k = asum (fun _ => true) a L k) ->
  bounded L -> bounded (ledger_dec L a u (x :: tl) r rm) ->
  decrease (x :: tl) a (Some r) rm q = (q', b) ->
  TInv q' sel (ledger_dec L a u (x :: tl) r rm) /\ b = removable q'.
Proof.
  intros HT Wr Rr (e1 & Hin1 & Ha1) Hall Hsel Hsum B B' Hd.
  assert (Hentry : exists e, In e L /\ sel e = true /\ le_app e = a /\ le_path e = x :: tl).
  { exists e1. destruct (Hall e1 Hin1 Ha1). repeat split; assumption. }
  destruct rm; unfold ledger_dec in *.
  - apply (TInv_decrease_remove q sel L a x tl r HT Wr Rr Hentry q' b); try assumption.
    + intros e Hin _ Ha. apply (Hall e Hin Ha).
    + intros k. rewrite (Hsum eq_refl k). apply asum_ext. intros e Hin Ha. symmetry. apply (Hall e Hin Ha).
  - apply (TInv_decrease_keep q sel L a u x tl r HT Wr Rr Hentry q' b); assumption.
Qed.

Lemma TInv_dec_other q sel L a u p r rm :
  (forall e, In e L -> le_app e = a -> sel e = false) -> sel (mkLE a u p (neg_res r)) = false ->
  TInv q sel L -> TInv q sel (ledger_dec L a u p r rm).
Proof.
  intros H1 H2 HT. destruct rm; unfold ledger_dec.
  - apply TInv_filter_unsel; [|assumption]. intros e Hin Hs Ha. rewrite (H1 e Hin Ha) in Hs. discriminate.
  - apply TInv_cons_unsel; assumption.
Qed.
Lemma none_dec_other (sel : lentry -> bool) L a u p r rm :
  (forall e, In e L -> sel e = false) -> sel (mkLE a u p (neg_res r)) = false ->
  forall e, In e (ledger_dec L a u p r rm) -> sel e = false.
Proof.
  intros H1 H2 e. destruct rm; unfold ledger_dec.
  - intros Hin. apply filter_In in Hin. apply H1. apply Hin.
  - intros [<-|Hin]; [assumption|apply H1; assumption].
Qed.

Lemma anchored_not_removable q : anchored q -> removable q = false.
Proof.
  intros (names & l & Hl & Hr). destruct (removable q) eqn:E; [|reflexivity]. exfalso.
  destruct (removable_facts q E) as (Hnc & _ & _ & Hm0 & Hmz). unfold alim in Hl. destruct names as [|c rest].
  - cbn [sub_at] in Hl. injection Hl as <-. unfold real in Hr. cbn [fst snd] in Hr. rewrite Hm0, Hmz in Hr. discriminate.
  - rewrite (sub_at_no_children _ _ _ Hnc) in Hl. discriminate.
Qed.
Lemma under_nil e : (exists tl, le_path e = ROOT :: tl) -> under [] e = true.
Proof. intros (tl & H). unfold under. rewrite H. apply is_prefix_nil. Qed.

Lemma link_cases s u a ut : nlookup (users s) u = Some ut ->
  (link s u a = None /\ (getGroupForApp ut a = EMPTY \/ exists g, False /\ g = getGroupForApp ut a)) \/ link s u a = Some (getGroupForApp ut a).
Proof.
  intros Hu. unfold link, getGroupForApp. rewrite Hu. destruct (nlookup (ut_links ut) a) as [[g|]|].
  - right. reflexivity.
  - left. split; [reflexivity|left; reflexivity].
  - left. split; [reflexivity|left; reflexivity].
Qed.

Lemma anchored_decrease x tl a u rm q q' b : anchored q -> decrease (x :: tl) a u rm q = (q', b) ->
  (exists m, sub_at tl q = Some m) -> anchored q'.
Proof.
  intros (names & l & Hl & Hr) Hd Hm. destruct (decrease_spec a u rm tl x q q' b Hd Hm) as (_ & _ & _ & Hal).
  exists names, l. split; [apply Hal; assumption|assumption].
Qed.

Lemma Inv_decrease s L x tl a r (user : ugi) rm :
  Inv s L -> LInv L ->
  (a =? EMPTY) = false -> (fst user =? EMPTY) = false -> wf r -> res_in_range r ->
  (exists e, In e L /\ le_app e = a) ->
  (forall e, In e L -> le_app e = a -> le_user e = fst user /\ le_path e = x :: tl) ->
  (rm = true -> forall k, getz r k = asum (fun _ => true) a L k) ->
  bounded L -> bounded (ledger_dec L a (fst user) (x :: tl) r rm) ->
  Inv (ugm_decrease s (x :: tl) a (Some r) user rm) (ledger_dec L a (fst user) (x :: tl) r rm).
Proof.
  intros (HW & (HL1 & HL2) & (HA1 & HA2)) HLI Ha Hue Wr Rr (e1 & Hin1 & Ha1) Hall Hsum B B'.
  set (u := fst user) in *. set (L' := ledger_dec L a u (x :: tl) r rm) in *.
  set (e0 := mkLE a u (x :: tl) (neg_res r)).
  destruct (Hall e1 Hin1 Ha1) as (Hu1 & Hp1).
  unfold ugm_decrease. fold u. rewrite Ha, Hue. cbn [is_nil orb].
  (* the user tracker exists *)
  pose proof (HW (User u)) as HWu. cbn [who_root] in HWu.
  destruct (nlookup (users s) u) as [ut|] eqn:Hu; cbn [option_map] in HWu.
  2:{ exfalso. specialize (HWu e1 Hin1). cbn in HWu. rewrite Hu1, N.eqb_refl in HWu. discriminate. }
  destruct (decrease (x :: tl) a (Some r) rm (ut_qt ut)) as [q' rmq] eqn:Ed.
  destruct (TInv_decrease_any (ut_qt ut) (counts s (User u)) L a u x tl r rm q' rmq HWu Wr Rr) as (HTu' & Hrmq); try assumption.
  { exists e1. split; assumption. }
  { intros e Hin Hae. destruct (Hall e Hin Hae) as (He & Hp). split; [cbn; rewrite He; apply N.eqb_refl|assumption]. }
  { cbn. apply N.eqb_refl. }
  set (g := getGroupForApp ut a). set (links' := if rm then ndel a (ut_links ut) else ut_links ut).
  set (s1 := if rmq then set_users s (ndel u (users s)) else set_users s (nset u (mkUT links' q') (users s))).
  assert (Hg1 : groups s1 = groups s) by (unfold s1; destruct rmq; reflexivity).
  (* entries of L' *)
  assert (HinL' : forall e, In e L' -> In e L \/ e = e0).
  { intros e. unfold L', ledger_dec. destruct rm; [intros H; apply filter_In in H; left; apply H|intros [<-|H]; [right; reflexivity|left; assumption]]. }
  assert (Hroot' : forall e, In e L' -> exists t, le_path e = ROOT :: t).
  { intros e Hin. destruct (HinL' e Hin) as [H| ->]; [apply (li_root L HLI); assumption|].
    destruct (li_root L HLI e1 Hin1) as (t & Ht). rewrite Hp1 in Ht. exists tl. cbn. injection Ht as -> _. reflexivity. }
  (* no entry of the user is left when its tracker goes *)
  assert (Hgone : rmq = true -> forall e, In e L' -> counts s (User u) e = false).
  { intros -> e Hin. destruct (counts s (User u) e) eqn:Ec; [|reflexivity]. exfalso.
    symmetry in Hrmq. destruct (removable_facts q' Hrmq) as (_ & Hna & _).
    assert (In (le_app e) (aapps q' [])).
    { apply (ti_apps q' _ L' HTu'). exists e. repeat split; try assumption. apply under_nil. apply Hroot'. assumption. }
    unfold aapps in H. cbn [sub_at] in H. rewrite Hna in H. contradiction. }
  (* resolutions of the applications that still hold something are unchanged *)
  assert (Hres1 : forall e, In e L' -> resolved s1 (le_user e) (le_app e) = resolved s (le_user e) (le_app e)).
  { intros e Hin. unfold resolved, s1. destruct rmq; cbn [users set_users].
    - destruct (N.eqb_spec (le_user e) u) as [Eu|Hne]; [|rewrite nlookup_ndel_other by assumption; reflexivity].
      exfalso. pose proof (Hgone eq_refl e Hin) as Hc. cbn in Hc. rewrite Eu, N.eqb_refl in Hc. discriminate.
    - rewrite nlookup_nset. destruct (N.eqb_spec (le_user e) u) as [Eu|Hne]; [|reflexivity]. rewrite Eu, Hu. cbn [ut_links].
      unfold links'. destruct rm; [|reflexivity]. unfold L', ledger_dec in Hin. apply filter_In in Hin. destruct Hin as (_ & Hf).
      apply nlookup_ndel_other. intros Ea. rewrite Ea, N.eqb_refl in Hf. discriminate. }
  assert (Hsub1 : forall u' a' lk, resolved s1 u' a' = Some lk -> resolved s u' a' = Some lk).
  { intros u' a' lk. unfold resolved, s1. destruct rmq; cbn [users set_users].
    - destruct (N.eqb_spec u' u) as [->|Hne]; [rewrite nlookup_ndel_same; discriminate|rewrite nlookup_ndel_other by assumption; auto].
    - rewrite nlookup_nset. destruct (N.eqb_spec u' u) as [->|Hne]; [|auto]. rewrite Hu. cbn [ut_links]. unfold links'.
      destruct rm; [|auto]. destruct (N.eqb_spec a' a) as [->|Hna]; [rewrite nlookup_ndel_same; discriminate|rewrite nlookup_ndel_other by assumption; auto]. }
  (* the roots of the users after the user side *)
  assert (Hroot1 : forall u', who_root s1 (User u') = if u' =? u then (if rmq then None else Some q') else who_root s (User u')).
  { intros u'. cbn [who_root]. unfold s1. destruct rmq; cbn [users set_users].
    - destruct (N.eqb_spec u' u) as [->|Hne]; [rewrite nlookup_ndel_same; reflexivity|rewrite nlookup_ndel_other by assumption; reflexivity].
    - rewrite nlookup_nset. destruct (N.eqb_spec u' u); reflexivity. }
  (* trackers other than the user's and the linked group's *)
  assert (Hother : forall w, (forall e, In e L -> le_app e = a -> counts s w e = false) -> counts s w e0 = false ->
             match who_root s w with
             | Some q => TInv q (counts s w) L'
             | None => forall e, In e L' -> counts s w e = false
             end).
  { intros w H1 H2. specialize (HW w). destruct (who_root s w) as [q|].
    - apply TInv_dec_other; assumption.
    - apply none_dec_other; assumption. }
  assert (HotherU : forall u', u' <> u -> (forall e, In e L -> le_app e = a -> counts s (User u') e = false) /\ counts s (User u') e0 = false).
  { intros u' Hne. split; [intros e Hin Hae; destruct (Hall e Hin Hae) as (He & _); cbn; rewrite He|cbn];
      (destruct (N.eqb_spec u u'); [congruence|reflexivity]). }
  assert (HotherG : forall g', link s u a <> Some g' -> (forall e, In e L -> le_app e = a -> counts s (Group g') e = false) /\ counts s (Group g') e0 = false).
  { intros g' Hne. assert (Hc : match link s u a with Some g0 => g0 =? g' | None => false end = false).
    { destruct (link s u a) as [g0|]; [|reflexivity]. destruct (N.eqb_spec g0 g'); [subst; contradiction Hne; reflexivity|reflexivity]. }
    split; [intros e Hin Hae; destruct (Hall e Hin Hae) as (He & _); cbn; rewrite He, Hae|cbn]; exact Hc. }
  (* the group side *)
  destruct (link s u a) as [g0|] eqn:El.
  - (* the application is charged to group g0 = g *)
    assert (g0 = g).
    { unfold g, getGroupForApp. unfold link in El. rewrite Hu in El. destruct (nlookup (ut_links ut) a) as [[g1|]|]; congruence. }
    subst g0. destruct (HL2 u a g El) as (Hex & Hgne). destruct (N.eqb_spec g EMPTY); [contradiction|].
    rewrite Hg1. destruct (nlookup (groups s) g) as [gt|] eqn:Eg; [|contradiction].
    pose proof (HW (Group g)) as HWg. cbn [who_root] in HWg. rewrite Eg in HWg. cbn [option_map] in HWg.
    destruct (decrease (x :: tl) a (Some r) rm (gt_qt gt)) as [gq' grm] eqn:Edg.
    destruct (TInv_decrease_any (gt_qt gt) (counts s (Group g)) L a u x tl r rm gq' grm HWg Wr Rr) as (HTg' & Hgrm); try assumption.
    { exists e1. split; assumption. }
    { intros e Hin Hae. destruct (Hall e Hin Hae) as (He & Hp). split; [cbn; rewrite He, Hae, El; apply N.eqb_refl|assumption]. }
    { cbn. rewrite El. apply N.eqb_refl. }
    assert (Hanc : anchored gq').
    { apply (anchored_decrease x tl a (Some r) rm (gt_qt gt) gq' grm (HA1 g gt Eg) Edg).
      apply aapps_nonempty_sub. intros Hn.
      assert (In a (aapps (gt_qt gt) tl)).
      { apply (ti_apps _ _ L HWg). exists e1. repeat split; try assumption.
        - cbn. rewrite Hu1, Ha1, El. apply N.eqb_refl.
        - unfold under. rewrite Hp1. apply is_prefix_refl. }
      rewrite Hn in H. contradiction. }
    rewrite Hgrm, (anchored_not_removable gq' Hanc).
    set (gapps' := if rm then ndel a (gt_apps gt) else gt_apps gt).
    set (s2 := set_groups s1 (nset g (mkGT gapps' gq') (groups s))).
    assert (Hres2 : forall e, In e L' -> resolved s2 (le_user e) (le_app e) = resolved s (le_user e) (le_app e)) by exact Hres1.
    split; [|split].
    + intros w. assert (Hc : forall e, In e L' -> counts s2 w e = counts s w e) by (intros; apply counts_resolved; apply Hres2; assumption).
      destruct w as [u'|g'].
      * change (who_root s2 (User u')) with (who_root s1 (User u')). rewrite Hroot1.
        destruct (N.eqb_spec u' u) as [->|Hne].
        -- destruct rmq.
           ++ intros e Hin. rewrite Hc by assumption. apply Hgone; [reflexivity|assumption].
           ++ apply (TInv_ext _ (counts s (User u))); [intros; symmetry; apply Hc; assumption|assumption].
        -- destruct (HotherU u' Hne) as (H1 & H2). pose proof (Hother (User u') H1 H2) as Ho.
           destruct (who_root s (User u')) as [q|].
           ++ apply (TInv_ext _ (counts s (User u'))); [intros; symmetry; apply Hc; assumption|assumption].
           ++ intros e Hin. rewrite Hc by assumption. apply Ho. assumption.
      * cbn [who_root]. unfold s2. cbn [groups set_groups]. rewrite nlookup_nset. destruct (N.eqb_spec g' g) as [->|Hne].
        -- cbn [option_map gt_qt]. apply (TInv_ext _ (counts s (Group g))); [intros; symmetry; apply Hc; assumption|assumption].
        -- assert (Hl' : Some g <> Some g') by congruence. destruct (HotherG g' Hl') as (H1 & H2).
           pose proof (Hother (Group g') H1 H2) as Ho. cbn [who_root] in Ho.
           destruct (nlookup (groups s) g') as [gt1|]; cbn [option_map] in *.
           ++ apply (TInv_ext _ (counts s (Group g'))); [intros; symmetry; apply Hc; assumption|assumption].
           ++ intros e Hin. rewrite Hc by assumption. apply Ho. assumption.
    + split.
      * intros e Hin. rewrite Hres2 by assumption. destruct (HinL' e Hin) as [H| ->]; [apply HL1; assumption|].
        cbn [le_user le_app e0]. rewrite <- Hu1, <- Ha1. apply HL1. assumption.
      * intros u' a' g' Hl. assert (Hl' : link s u' a' = Some g').
        { rewrite link_resolved in *. change (resolved s2 u' a') with (resolved s1 u' a') in Hl.
          destruct (resolved s1 u' a') as [lk|] eqn:Er; [|discriminate]. rewrite (Hsub1 u' a' lk Er). assumption. }
        destruct (HL2 u' a' g' Hl') as (H1 & H2). split; [|assumption].
        unfold s2. cbn [groups set_groups]. rewrite nlookup_nset. destruct (N.eqb_spec g' g); [discriminate|assumption].
    + split.
      * intros g' gt1. unfold s2. cbn [groups set_groups]. rewrite nlookup_nset. destruct (N.eqb_spec g' g) as [->|]; [|apply HA1].
        intros H. injection H as <-. exact Hanc.
      * intros g' Hrv. unfold s2. cbn [groups set_groups]. rewrite nlookup_nset. destruct (N.eqb_spec g' g); [discriminate|].
        apply HA2. unfold s1 in Hrv. destruct rmq; exact Hrv.
  - (* no group *)
    assert (Eg0 : g = EMPTY).
    { unfold g, getGroupForApp. unfold link in El. rewrite Hu in El. destruct (nlookup (ut_links ut) a) as [[g1|]|]; congruence. }
    rewrite Eg0. cbn [N.eqb EMPTY].
    split; [|split].
    + intros w. assert (Hc : forall e, In e L' -> counts s1 w e = counts s w e) by (intros; apply counts_resolved; apply Hres1; assumption).
      destruct w as [u'|g'].
      * rewrite Hroot1. destruct (N.eqb_spec u' u) as [->|Hne].
        -- destruct rmq.
           ++ intros e Hin. rewrite Hc by assumption. apply Hgone; [reflexivity|assumption].
           ++ apply (TInv_ext _ (counts s (User u))); [intros; symmetry; apply Hc; assumption|assumption].
        -- destruct (HotherU u' Hne) as (H1 & H2). pose proof (Hother (User u') H1 H2) as Ho.
           destruct (who_root s (User u')) as [q|].
           ++ apply (TInv_ext _ (counts s (User u'))); [intros; symmetry; apply Hc; assumption|assumption].
           ++ intros e Hin. rewrite Hc by assumption. apply Ho. assumption.
      * cbn [who_root]. rewrite Hg1. assert (Hl' : None <> Some g') by discriminate. destruct (HotherG g' Hl') as (H1 & H2).
        pose proof (Hother (Group g') H1 H2) as Ho. cbn [who_root] in Ho.
        destruct (nlookup (groups s) g') as [gt1|]; cbn [option_map] in *.
        -- apply (TInv_ext _ (counts s (Group g'))); [intros; symmetry; apply Hc; assumption|assumption].
        -- intros e Hin. rewrite Hc by assumption. apply Ho. assumption.
    + split.
      * intros e Hin. rewrite Hres1 by assumption. destruct (HinL' e Hin) as [H| ->]; [apply HL1; assumption|].
        cbn [le_user le_app e0]. rewrite <- Hu1, <- Ha1. apply HL1. assumption.
      * intros u' a' g' Hl. assert (Hl' : link s u' a' = Some g').
        { rewrite link_resolved in *. destruct (resolved s1 u' a') as [lk|] eqn:Er; [|discriminate]. rewrite (Hsub1 u' a' lk Er). assumption. }
        rewrite Hg1. apply (HL2 u' a' g' Hl').
    + split.
      * intros g' gt1. rewrite Hg1. apply HA1.
      * intros g' Hrv. rewrite Hg1. apply HA2. unfold s1 in Hrv. destruct rmq; exact Hrv.
Qed.

(* ------------------------------------------------------------------ histories *)
Lemma ledger_step_dec L x tl a r (user : ugi) rm :
  ledger_step L (ODec (x :: tl) a (Some r) user rm) = ledger_dec L a (fst user) (x :: tl) r rm.
Proof. destruct rm; reflexivity. Qed.

Lemma neg_res_wf r : wf r -> wf (neg_res r).
Proof. unfold wf, neg_res, keys. rewrite map_map. cbn. auto. Qed.
Lemma in_range_opp_bounded v : in_range v -> (v <> MIN)%Z -> in_range (- v).
Proof. unfold in_range, MIN, MAX. lia. Qed.

Lemma LInv_step L o : LInv L -> hist_ok L o ->
  (forall p a r u, o = ODec p a (Some r) u false -> res_in_range (neg_res r)) ->
  LInv (ledger_step L o).
Proof.
  intros [W R C] H Hneg. destruct o as [p a [r|] u sched|p a [r|] u rm|p a u|p a u|c rn]; cbn [hist_ok] in H; try contradiction; try (constructor; assumption).
  - destruct H as ((tl & ->) & Hae & Hue & Wr & Rr & Hall). cbn [ledger_step]. constructor.
    + intros e [<-|Hin]; [split; assumption|apply W; assumption].
    + intros e [<-|Hin]; [exists tl; reflexivity|apply R; assumption].
    + intros e1 e2 [<-|H1] [<-|H2] Heq; cbn [le_app le_user le_path] in *.
      * split; reflexivity.
      * destruct (Hall e2 H2 (eq_sym Heq)) as (A & B). split; congruence.
      * destruct (Hall e1 H1 Heq) as (A & B). split; congruence.
      * apply C; assumption.
  - destruct H as ((tl & ->) & Hae & Hue & Wr & Rr & (e1 & Hin1 & Ha1) & Hall & Hsum). destruct rm; cbn [ledger_step].
    + constructor.
      * intros e Hin. apply filter_In in Hin. apply W. apply Hin.
      * intros e Hin. apply filter_In in Hin. apply R. apply Hin.
      * intros e2 e3 H2 H3. apply filter_In in H2. apply filter_In in H3. apply C; [apply H2|apply H3].
    + constructor.
      * intros e [<-|Hin]; [split; [apply neg_res_wf; assumption|apply (Hneg _ _ _ _ eq_refl)]|apply W; assumption].
      * intros e [<-|Hin]; [exists tl; reflexivity|apply R; assumption].
      * intros e2 e3 [<-|H2] [<-|H3] Heq; cbn [le_app le_user le_path] in *.
        -- split; reflexivity.
        -- destruct (Hall e3 H3 (eq_sym Heq)) as (A & B). split; congruence.
        -- destruct (Hall e2 H2 Heq) as (A & B). split; congruence.
        -- apply C; assumption.
Qed.

Lemma Inv_step s L o s' :
  Inv s L -> LInv L -> hist_ok L o -> bounded L -> bounded (ledger_step L o) ->
  fst (step s o) = Some s' -> Inv s' (ledger_step L o).
Proof.
  intros HI HLI H B B' Hs.
  destruct o as [p a [r|] u sched|p a [r|] u rm|p a u|p a u|c rn]; cbn [hist_ok] in H; try contradiction.
  - destruct H as ((tl & ->) & Hae & Hue & Wr & Rr & Hall). cbn in Hs. injection Hs as <-. cbn [ledger_step] in *.
    apply Inv_increase; try assumption; apply N.eqb_neq; assumption.
  - destruct H as ((tl & ->) & Hae & Hue & Wr & Rr & Hex & Hall & Hsum). cbn in Hs. injection Hs as <-.
    rewrite ledger_step_dec in *. apply Inv_decrease; try assumption; apply N.eqb_neq; assumption.
  - destruct H as (x & tl & ->). unfold step, step_gen in Hs. destruct (ugm_headroom s (x :: tl) a u) as [s1 h] eqn:E.
    cbn in Hs. injection Hs as <-. replace s1 with (fst (ugm_headroom s (x :: tl) a u)) by (rewrite E; reflexivity).
    apply Inv_headroom. assumption.
  - destruct H as (x & tl & ->). unfold step, step_gen in Hs. destruct (ugm_can_run_app s (x :: tl) a u) as [s1 h] eqn:E.
    cbn in Hs. injection Hs as <-. replace s1 with (fst (ugm_can_run_app s (x :: tl) a u)) by (rewrite E; reflexivity).
    apply Inv_can_run_app. assumption.
Qed.

(* a history that keeps the pairing discipline, all sums within int64 *)
Fixpoint hist_all_ok (L : ledger) (ops : list op) : Prop :=
  match ops with
  | [] => True
  | o :: t => hist_ok L o /\ bounded (ledger_step L o) /\
              (forall p a r u, o = ODec p a (Some r) u false -> res_in_range (neg_res r)) /\
              hist_all_ok (ledger_step L o) t
  end.
Definition ledger_of (ops : list op) : ledger := fold_left ledger_step ops [].

Lemma Inv_run ops : forall s L s',
  Inv s L -> LInv L -> bounded L -> hist_all_ok L ops -> run s ops = Some s' ->
  Inv s' (fold_left ledger_step ops L) /\ LInv (fold_left ledger_step ops L).
Proof.
  induction ops as [|o t IH]; intros s L s' HI HLI B H Hr.
  - cbn in Hr. injection Hr as <-. split; assumption.
  - cbn [run] in Hr. destruct H as (Hok & B' & Hneg & Ht). destruct (fst (step s o)) as [s1|] eqn:Es; [|discriminate].
    cbn [fold_left]. apply (IH s1 (ledger_step L o) s'); try assumption.
    + apply (Inv_step s L o s1); assumption.
    + apply LInv_step; assumption.
Qed.

Lemma spec_usage_lsum s L w names k : (forall e, In e L -> exists t, le_path e = ROOT :: t) ->
  spec_usage s L w (ROOT :: names) k = lsum (counts s w) L names k.
Proof.
  induction L as [|e t IH]; intros H; [reflexivity|].
  unfold spec_usage, lsum in *. cbn [fold_right]. rewrite IH by (intros; apply H; right; assumption).
  destruct (H e (or_introl eq_refl)) as (tl & Hp). unfold under. rewrite Hp. cbn [is_prefix]. rewrite N.eqb_refl. reflexivity.
Qed.

Lemma tracked_araw s w names k :
  tracked s w (ROOT :: names) k = match who_root s w with Some q => getz (oget (araw q names)) k | None => 0%Z end.
Proof.
  unfold tracked, node. destruct (who_root s w) as [q|]; [|reflexivity]. rewrite qt_at_sub. unfold araw.
  destruct (sub_at names q); reflexivity.
Qed.

Lemma Inv_usage_exact s L w names k : Inv s L -> LInv L -> usage_exact s L w (ROOT :: names) k = true.
Proof.
  intros (HW & _) HLI. unfold usage_exact. apply Z.eqb_eq. rewrite tracked_araw, (spec_usage_lsum s L w names k (li_root L HLI)).
  specialize (HW w). destruct (who_root s w) as [q|].
  - apply (ti_usage q _ L HW).
  - symmetry. apply lsum_none. assumption.
Qed.

Lemma bounded_nil : bounded [].
Proof. intros sel names k. cbn. apply in_range_0. Qed.
Lemma LInv_nil : LInv [].
Proof. constructor; [intros e H|intros e H|intros e1 e2 H]; destruct H. Qed.

(* usage = sum of the live allocations after every paired history that starts in a state
   without usage *)
Theorem usage_is_sum_lemma s0 ops s :
  Inv s0 [] -> hist_all_ok [] ops -> run s0 ops = Some s ->
  forall w names k, usage_exact s (ledger_of ops) w (ROOT :: names) k = true.
Proof.
  intros HI H Hr w names k. destruct (Inv_run ops s0 [] s HI LInv_nil bounded_nil H Hr) as (HI' & HL').
  apply Inv_usage_exact; assumption.
Qed.
(* back to zero when everything has been released *)
Corollary usage_back_to_zero s0 ops s :
  Inv s0 [] -> hist_all_ok [] ops -> run s0 ops = Some s -> ledger_of ops = [] ->
  forall w names k, tracked s w (ROOT :: names) k = 0%Z.
Proof.
  intros HI H Hr HE w names k. pose proof (usage_is_sum_lemma s0 ops s HI H Hr w names k) as Hx.
  unfold usage_exact in Hx. apply Z.eqb_eq in Hx. rewrite Hx, HE. reflexivity.
Qed.
