(* C05, conservation, part 2: the Manager.  The invariant relates every user and group tracker
   to the ledger of live allocations; it is preserved by Increase, Decrease, Headroom and
   CanRunApp (no reload), for histories in which increases and decreases are paired.
   Proofs only. *)
From Coq Require Import List NArith ZArith Bool Lia.
From YK Require Import Base.Int64 Base.Res Base.ResSpec Base.ResLemmas Base.ResLaws Base.ResLaws2 Base.ResLawsPred
     Base.Int64Laws Ugm.Tracker Ugm.Manager Ugm.UgmSpec Ugm.TrackerFacts Ugm.TreeInv Ugm.Enforce Ugm.Conserve.
Import ListNotations.
Open Scope N_scope.

(* ------------------------------------------------------------------ the invariant *)
(* every tracker tree agrees with the ledger entries that count for its owner *)
Definition WInv (s : ugm_state) (L : ledger) : Prop :=
  forall w, match who_root s w with
            | Some q => TInv q (counts s w) L
            | None => forall e, In e L -> counts s w e = false
            end.
(* the group of an application that holds something is resolved, and resolved groups have a tracker *)
Definition Links (s : ugm_state) (L : ledger) : Prop :=
  (forall e, In e L -> resolved s (le_user e) (le_app e) <> None) /\
  (forall u a g, link s u a = Some g -> nlookup (groups s) g <> None).
(* group trackers carry a limit that counts (so they are never removed), and every group that the
   configuration can resolve has a tracker (so none is created on the fly) *)
Definition anchored (q : qt) : Prop := exists names l, alim q names = Some l /\ real l = true.
Definition resolvable (s : ugm_state) (g : gname) : Prop :=
  exists p, (exists cgs, plookup (cfgGroups s) p = Some cgs /\ In g cgs) \/ (g = WILD /\ plookup (groupWild s) p <> None).
Definition Anch (s : ugm_state) : Prop :=
  (forall g gt, nlookup (groups s) g = Some gt -> anchored (gt_qt gt)) /\
  (forall g, resolvable s g -> nlookup (groups s) g <> None).

(* the ledger: vectors well formed, queue paths start at the root, one user and queue per application *)
Record LInv (L : ledger) : Prop := mkLInv {
  li_wf : entries_wf L;
  li_root : forall e, In e L -> exists tl, le_path e = ROOT :: tl;
  li_cons : forall e1 e2, In e1 L -> In e2 L -> le_app e1 = le_app e2 -> le_user e1 = le_user e2 /\ le_path e1 = le_path e2 }.

(* what a history may do next (pairing discipline) *)
Definition hist_ok (L : ledger) (o : op) : Prop :=
  match o with
  | OInc p a (Some r) u _ =>
      (exists tl, p = ROOT :: tl) /\ a <> EMPTY /\ fst u <> EMPTY /\ wf r /\ res_in_range r /\
      (forall e, In e L -> le_app e = a -> le_user e = fst u /\ le_path e = p)
  | ODec p a (Some r) u rm =>
      (exists tl, p = ROOT :: tl) /\ a <> EMPTY /\ fst u <> EMPTY /\ wf r /\ res_in_range r /\
      (exists e, In e L /\ le_app e = a) /\
      (forall e, In e L -> le_app e = a -> le_user e = fst u /\ le_path e = p) /\
      (rm = true -> forall k, getz r k = asum (fun _ => true) a L k)
  | OHeadroom p a u | OCanRun p a u => exists x tl, p = x :: tl
  | _ => False
  end.

(* ------------------------------------------------------------------ small facts *)
Lemma link_resolved s u a : link s u a = match resolved s u a with Some (Some g) => Some g | _ => None end.
Proof. unfold link, resolved. destruct (nlookup (users s) u); reflexivity. Qed.
Lemma counts_resolved s s' w e :
  resolved s' (le_user e) (le_app e) = resolved s (le_user e) (le_app e) -> counts s' w e = counts s w e.
Proof. intros H. destruct w; cbn [counts]; [reflexivity|]. rewrite !link_resolved, H. reflexivity. Qed.

Lemma TInv_cons_unsel q sel L e0 : sel e0 = false -> TInv q sel L -> TInv q sel (e0 :: L).
Proof.
  intros Hs [T1 T2 T3 T4]. constructor; try assumption.
  - intros names k. rewrite lsum_cons, Hs. cbn [andb]. rewrite T1. lia.
  - intros names b. rewrite T2. split; intros (e & Hin & Hse & Hu & Ha).
    + exists e. repeat split; try assumption. right. assumption.
    + destruct Hin as [<-|Hin]; [rewrite Hs in Hse; discriminate|]. exists e. repeat split; assumption.
Qed.
Lemma lsum_filter_unsel sel a L names k : (forall e, In e L -> sel e = true -> le_app e <> a) ->
  lsum sel (filter (fun e => negb (le_app e =? a)) L) names k = lsum sel L names k.
Proof.
  induction L as [|e t IH]; intros H; [reflexivity|]. cbn [filter].
  assert (IH' := IH (fun e' Hin => H e' (or_intror Hin))).
  destruct (N.eqb_spec (le_app e) a) as [Ea|Ea]; cbn [negb].
  - rewrite IH', lsum_cons. destruct (sel e) eqn:Es; cbn [andb]; [|lia].
    exfalso. exact (H e (or_introl eq_refl) Es Ea).
  - rewrite !lsum_cons, IH'. reflexivity.
Qed.
Lemma TInv_filter_unsel q sel L a : (forall e, In e L -> sel e = true -> le_app e <> a) ->
  TInv q sel L -> TInv q sel (filter (fun e => negb (le_app e =? a)) L).
Proof.
  intros Hs [T1 T2 T3 T4]. constructor; try assumption.
  - intros names k. rewrite lsum_filter_unsel by assumption. apply T1.
  - intros names b. rewrite T2. split; intros (e & Hin & Hse & Hu & Ha).
    + exists e. repeat split; try assumption. apply filter_In. split; [assumption|].
      destruct (N.eqb_spec (le_app e) a) as [Ea|]; [|reflexivity]. exfalso. exact (Hs e Hin Hse Ea).
    + apply filter_In in Hin. exists e. repeat split; try assumption. apply Hin.
Qed.

Lemma araw_newRoot wc tt names : araw (newRootQT wc tt) names = None.
Proof. apply araw_newQT. Qed.
Lemma aapps_newRoot wc tt names : aapps (newRootQT wc tt) names = [].
Proof. apply aapps_newQT. Qed.

(* ---- the bundle ---- *)
Definition Inv (s : ugm_state) (L : ledger) : Prop := WInv s L /\ Links s L /\ Anch s.

(* two states with the same trackers' roots up to readable content, the same resolutions and the
   same groups *)
Lemma WInv_transfer s s' L :
  (forall u a, resolved s' u a = resolved s u a) ->
  (forall w, match who_root s w, who_root s' w with
             | Some q, Some q' => (forall names, araw q' names = araw q names) /\ (forall names, aapps q' names = aapps q names)
             | None, None => True
             | None, Some q' => (forall names, araw q' names = None) /\ (forall names, aapps q' names = [])
             | Some _, None => False
             end) ->
  WInv s L -> WInv s' L.
Proof.
  intros Hres Hroots HW w. specialize (Hroots w). specialize (HW w).
  assert (Hc : forall e, counts s' w e = counts s w e) by (intros e; apply counts_resolved; apply Hres).
  destruct (who_root s w) as [q|], (who_root s' w) as [q'|]; try contradiction.
  - destruct Hroots as (Hr & Ha). apply (TInv_ext q' (counts s w)); [intros; symmetry; apply Hc|].
    apply (TInv_same q q'); assumption.
  - destruct Hroots as (Hr & Ha). apply TInv_empty; try assumption. intros e Hin. rewrite Hc. apply HW. assumption.
  - intros e Hin. rewrite Hc. apply HW. assumption.
Qed.
