(* C05: the hypotheses of the theorems are satisfiable on non-trivial states and histories.
   Proofs only (concrete states evaluated with vm_compute). *)
From Coq Require Import List NArith ZArith Bool Lia.
From YK Require Import Base.Int64 Base.Res Base.ResSpec Base.ResLemmas Base.Int64Laws
     Ugm.Tracker Ugm.Manager Ugm.UgmSpec Ugm.TrackerFacts Ugm.TreeInv Ugm.Enforce Ugm.Conserve Ugm.ConserveM Ugm.ConserveEx.
Import ListNotations.
Open Scope N_scope.

(* ---- decidable forms of the well-formedness hypotheses ---- *)
Fixpoint nodupb (l : list N) : bool := match l with [] => true | x :: t => negb (mem x t) && nodupb t end.
Lemma nodupb_NoDup l : nodupb l = true -> NoDup l.
Proof.
  induction l as [|x t IH]; intros H; [constructor|]. cbn in H. apply andb_true_iff in H. destruct H as (H1 & H2).
  constructor; [|apply IH; assumption]. intros Hin. apply mem_In in Hin. rewrite Hin in H1. discriminate.
Qed.
Definition wfb (r : res) : bool := nodupb (keys r).
Definition rangeb (r : res) : bool := forallb (fun kv => in_rangeb (snd kv)) r.
Lemma wfb_wf r : wfb r = true -> wf r.
Proof. apply nodupb_NoDup. Qed.
Lemma rangeb_range r : rangeb r = true -> res_in_range r.
Proof. unfold rangeb, res_in_range. rewrite forallb_forall, Forall_forall. intros H x Hin. apply in_rangeb_spec. apply H. assumption. Qed.
Definition node_wfb (n : qt) : bool :=
  wfb (oget (q_max n)) && rangeb (oget (q_max n)) && rangeb (oget (q_usage n)) && wfb (oget (q_usage n)).
Lemma node_wfb_spec n : node_wfb n = true -> node_wf n.
Proof.
  unfold node_wfb. intros H. repeat (apply andb_true_iff in H; destruct H as [H ?]).
  repeat split; [apply wfb_wf|apply rangeb_range|apply rangeb_range|apply wfb_wf]; assumption.
Qed.
Definition path_wfb (s : ugm_state) (w : who) (p : path) : bool :=
  forallb (fun h => match node s w h with Some n => node_wfb n | None => true end) (prefixes p).
Lemma path_wfb_spec s w p : path_wfb s w p = true -> path_wf s w p.
Proof.
  unfold path_wfb, path_wf. rewrite forallb_forall. intros H h n Hin Hn. specialize (H h Hin). rewrite Hn in H.
  apply node_wfb_spec. assumption.
Qed.

(* sums within int64: enough that the absolute values of everything in the ledger add up to at
   most MaxInt64 *)
Definition sumabs (r : res) : Z := fold_right (fun kv acc => (Z.abs (snd kv) + acc)%Z) 0%Z r.
Definition tot (L : ledger) : Z := fold_right (fun e acc => (sumabs (le_res e) + acc)%Z) 0%Z L.
Lemma sumabs_nonneg r : (0 <= sumabs r)%Z.
Proof. induction r as [|[k v] t IH]; [cbn; lia|]. unfold sumabs in *. cbn [fold_right snd]. lia. Qed.
Lemma getz_abs_le r k : (Z.abs (getz r k) <= sumabs r)%Z.
Proof.
  unfold getz. induction r as [|[k' v] t IH]; [cbn; lia|]. pose proof (sumabs_nonneg t) as Hn.
  unfold sumabs in *. cbn [get fold_right snd]. destruct (N.eqb k k'); lia.
Qed.
Lemma lsum_abs_le sel L names k : (Z.abs (lsum sel L names k) <= tot L)%Z.
Proof.
  induction L as [|e t IH]; [cbn; lia|]. rewrite lsum_cons.
  pose proof (getz_abs_le (le_res e) k). pose proof (sumabs_nonneg (le_res e)).
  unfold tot in *. cbn [fold_right]. destruct (sel e && under names e); lia.
Qed.
Lemma bounded_tot L : (tot L <=? MAX)%Z = true -> bounded L.
Proof.
  intros H sel names k. apply Z.leb_le in H. pose proof (lsum_abs_le sel L names k). unfold in_range, MIN, MAX in *. lia.
Qed.

(* ---- a configuration: root: u1 <= 10 memory, max 2 applications; group g1 <= 6 memory on root.a;
        wild card user <= 4 memory on root.a ---- *)
Definition ex_conf : qconf :=
  QConf 0 [mkLim [2] [] (Some [(0, 10%Z)]) 2]
    [QConf 1 [mkLim [] [2] (Some [(0, 6%Z)]) 0; mkLim [1] [] (Some [(0, 4%Z)]) 0] []].
Definition ex_s0 : ugm_state := match ugm_update_config ugm_init ex_conf 0 with UOk s => s | _ => ugm_init end.
Definition ex_user : ugi := (2, [2]).

(* headroom_sound: the ask of 3 fits the headroom (min of user 10 on root, wild card 4 on root.a and
   group 6 on root.a), all hypotheses hold *)
Example headroom_sound_example :
  exists s1 hr, ugm_headroom ex_s0 [0; 1] 1 ex_user = (s1, hr) /\
    wf [(0, 3%Z)] /\ res_in_range [(0, 3%Z)] /\
    path_wf s1 (User 2) [0; 1] /\ (forall g, link s1 2 1 = Some g -> path_wf s1 (Group g) [0; 1]) /\
    FitInMaxUndef hr (Some [(0, 3%Z)]) = true /\ hr = Some [(0, 4%Z)] /\ link s1 2 1 = Some 2.
Proof.
  eexists. eexists. split; [vm_compute; reflexivity|].
  split; [apply wfb_wf; reflexivity|]. split; [apply rangeb_range; reflexivity|].
  split; [apply path_wfb_spec; vm_compute; reflexivity|].
  split; [|split; [vm_compute; reflexivity|split; vm_compute; reflexivity]].
  intros g Hg. vm_compute in Hg. injection Hg as <-. apply path_wfb_spec. vm_compute. reflexivity.
Qed.

(* canrun_sound: u1 may run two applications; the third is refused, the second admitted *)
Example canrun_sound_example :
  exists s1 s2 s3,
    ugm_can_run_app ex_s0 [0; 1] 1 ex_user = (s1, true) /\
    ugm_can_run_app (ugm_increase s1 [0; 1] 1 (Some [(0, 1%Z)]) ex_user) [0; 1] 2 ex_user = (s2, true) /\
    snd (ugm_can_run_app (ugm_increase s2 [0; 1] 2 (Some [(0, 1%Z)]) ex_user) [0; 1] 3 ex_user) = false /\ s3 = s2.
Proof. eexists. eexists. eexists. repeat split; vm_compute; reflexivity. Qed.

(* usage_is_sum: the loaded configuration is a valid starting state, and a history with two
   applications, a partial release and a full release satisfies the pairing discipline *)
Definition ex_ops : list op :=
  [OCanRun [0; 1] 1 ex_user; OHeadroom [0; 1] 1 ex_user;
   OInc [0; 1] 1 (Some [(0, 3%Z)]) ex_user true;
   OInc [0; 1] 2 (Some [(0, 2%Z); (1, 1%Z)]) (3, [2]) false;
   OInc [0; 1] 1 (Some [(0, 1%Z)]) ex_user true;
   ODec [0; 1] 1 (Some [(0, 3%Z)]) ex_user false;
   ODec [0; 1] 1 (Some [(0, 1%Z)]) ex_user true].

Ltac solve_entries :=
  intros e Hin; repeat (destruct Hin as [<-|Hin]; [cbn; intros; try (split; reflexivity); try discriminate; try congruence|]); try contradiction.

Example usage_is_sum_example :
  Inv ex_s0 [] /\ hist_all_ok [] ex_ops /\ exists s, run ex_s0 ex_ops = Some s /\ ledger_of ex_ops <> [] /\
  tracked s (Group 2) [0; 1] 0 = 2%Z /\ tracked s (User 3) [0] 1 = 1%Z.
Proof.
  split; [apply (inv0b_Inv ex_s0 [[1]; []]); vm_compute; reflexivity|].
  split.
  - cbn [hist_all_ok ex_ops ledger_step fst ex_user].
    repeat split; try (eexists; eexists; reflexivity); try (eexists; reflexivity); try discriminate;
      try (apply wfb_wf; reflexivity); try (apply rangeb_range; reflexivity);
      try (apply bounded_tot; vm_compute; reflexivity);
      try (intros p a r u H; discriminate H);
      try solve_entries.
    + intros p a r u H. injection H as <- <- <- <-. apply rangeb_range. reflexivity.
    + exists (mkLE 1 2 [0; 1] [(0, 1%Z)]). split; [left; reflexivity|reflexivity].
    + intros _ k. vm_compute. destruct k as [|[p|p|]]; reflexivity.
    + exists (mkLE 1 2 [0; 1] [(0, 1%Z)]). split; [right; left; reflexivity|reflexivity].
    + intros H. discriminate H.
  - eexists. split; [vm_compute; reflexivity|]. split; [vm_compute; discriminate|]. split; vm_compute; reflexivity.
Qed.

(* group_stable: app1 of u1 is running and charged to g1; an Increase of another application
   leaves the resolution alone *)
Example group_stable_example :
  exists s ut, nlookup (users s) 2 = Some ut /\ In 1 (q_apps (ut_qt ut)) /\ resolved s 2 1 = Some (Some 2).
Proof.
  exists (ugm_increase (fst (ugm_headroom ex_s0 [0; 1] 1 ex_user)) [0; 1] 1 (Some [(0, 3%Z)]) ex_user).
  eexists. split; [vm_compute; reflexivity|]. split; [vm_compute; left; reflexivity|vm_compute; reflexivity].
Qed.
