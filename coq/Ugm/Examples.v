(* C05: the hypotheses of the theorems are satisfiable on non-trivial states and histories.
   Proofs only (concrete states evaluated with vm_compute). *)
From Coq Require Import List NArith ZArith Bool Lia.
From YK Require Import Base.Int64 Base.Res Base.ResSpec Base.ResLemmas Base.Int64Laws
     Ugm.Tracker Ugm.Manager Ugm.UgmSpec Ugm.TrackerFacts Ugm.TreeInv Ugm.Enforce Ugm.Conserve Ugm.ConserveM Ugm.ConserveEx
     Ugm.Reload Ugm.ReloadFirst.
Import ListNotations.
Open Scope N_scope.

(* ---- decidable forms of the well-formedness hypotheses ---- *)
Fixpoint nodupb (l : list N) : bool := match l with [] => true | x :: t => negb (mem x t) && nodupb t end.
Lemma nodupb_NoDup l : nodupb l = true -> NoDup l.
Proof.
  induction l as [|x t IH]; intros H; [constructor|]. cbn in H. apply andb_true_iff in H. destruct H as (H1 & H2).
  constructor; [|apply IH; assumption]. intros Hin. apply mem_In in Hin. rewrite Hin in H1. discriminate.
Qed.
Definition wfb (r : res) : bool := nodupb (keys r).
Definition rangeb (r : res) : bool := forallb (fun kv => in_rangeb (snd kv)) r.
Lemma wfb_wf r : wfb r = true -> wf r.
Proof. apply nodupb_NoDup. Qed.
Lemma rangeb_range r : rangeb r = true -> res_in_range r.
Proof. unfold rangeb, res_in_range. rewrite forallb_forall, Forall_forall. intros H x Hin. apply in_rangeb_spec. apply H. assumption. Qed.
Definition node_wfb (n : qt) : bool :=
  wfb (oget (q_max n)) && rangeb (oget (q_max n)) && rangeb (oget (q_usage n)) && wfb (oget (q_usage n)).
Lemma node_wfb_spec n : node_wfb n = true -> node_wf n.
Proof.
  unfold node_wfb. intros H. repeat (apply andb_true_iff in H; destruct H as [H ?]).
  repeat split; [apply wfb_wf|apply rangeb_range|apply rangeb_range|apply wfb_wf]; assumption.
Qed.
Definition path_wfb (s : ugm_state) (w : who) (p : path) : bool :=
  forallb (fun h => match node s w h with Some n => node_wfb n | None => true end) (prefixes p).
Lemma path_wfb_spec s w p : path_wfb s w p = true -> path_wf s w p.
Proof.
  unfold path_wfb, path_wf. rewrite forallb_forall. intros H h n Hin Hn. specialize (H h Hin). rewrite Hn in H.
  apply node_wfb_spec. assumption.
Qed.

(* sums within int64: enough that the absolute values of everything in the ledger add up to at
   most MaxInt64 *)
Definition sumabs (r : res) : Z := fold_right (fun kv acc => (Z.abs (snd kv) + acc)%Z) 0%Z r.
Definition tot (L : ledger) : Z := fold_right (fun e acc => (sumabs (le_res e) + acc)%Z) 0%Z L.
Lemma sumabs_nonneg r : (0 <= sumabs r)%Z.
Proof. induction r as [|[k v] t IH]; [cbn; lia|]. unfold sumabs in *. cbn [fold_right snd]. lia. Qed.
Lemma getz_abs_le r k : (Z.abs (getz r k) <= sumabs r)%Z.
Proof.
  unfold getz. induction r as [|[k' v] t IH]; [cbn; lia|]. pose proof (sumabs_nonneg t) as Hn.
  unfold sumabs in *. cbn [get fold_right snd]. destruct (N.eqb k k'); lia.
Qed.
Lemma lsum_abs_le sel L names k : (Z.abs (lsum sel L names k) <= tot L)%Z.
Proof.
  induction L as [|e t IH]; [cbn; lia|]. rewrite lsum_cons.
  pose proof (getz_abs_le (le_res e) k). pose proof (sumabs_nonneg (le_res e)).
  unfold tot in *. cbn [fold_right]. destruct (sel e && under names e); lia.
Qed.
Lemma bounded_tot L : (tot L <=? MAX)%Z = true -> bounded L.
Proof.
  intros H sel names k. apply Z.leb_le in H. pose proof (lsum_abs_le sel L names k). unfold in_range, MIN, MAX in *. lia.
Qed.

(* ---- a configuration: root: u1 <= 10 memory, max 2 applications; group g1 <= 6 memory on root.a;
        wild card user <= 4 memory on root.a ---- *)
Definition ex_conf : qconf :=
  QConf 0 [mkLim [2] [] (Some [(0, 10%Z)]) 2]
    [QConf 1 [mkLim [] [2] (Some [(0, 6%Z)]) 0; mkLim [1] [] (Some [(0, 4%Z)]) 0] []].
Definition ex_s0 : ugm_state := match ugm_update_config ugm_init ex_conf 0 with UOk s => s | _ => ugm_init end.
Definition ex_user : ugi := (2, [2]).

(* headroom_sound: the ask of 3 fits the headroom (min of user 10 on root, wild card 4 on root.a and
   group 6 on root.a), all hypotheses hold *)
Example headroom_sound_example :
  exists s1 hr, ugm_headroom ex_s0 [0; 1] 1 ex_user = (s1, hr) /\
    wf [(0, 3%Z)] /\ res_in_range [(0, 3%Z)] /\
    path_wf s1 (User 2) [0; 1] /\ (forall g, link s1 2 1 = Some g -> path_wf s1 (Group g) [0; 1]) /\
    FitInMaxUndef hr (Some [(0, 3%Z)]) = true /\ hr = Some [(0, 4%Z)] /\ link s1 2 1 = Some 2.
Proof.
  eexists. eexists. split; [vm_compute; reflexivity|].
  split; [apply wfb_wf; reflexivity|]. split; [apply rangeb_range; reflexivity|].
  split; [apply path_wfb_spec; vm_compute; reflexivity|].
  split; [|split; [vm_compute; reflexivity|split; vm_compute; reflexivity]].
  intros g Hg. vm_compute in Hg. injection Hg as <-. apply path_wfb_spec. vm_compute. reflexivity.
Qed.

(* canrun_sound: u1 may run two applications; the third is refused, the second admitted *)
Example canrun_sound_example :
  exists s1 s2 s3,
    ugm_can_run_app ex_s0 [0; 1] 1 ex_user = (s1, true) /\
    ugm_can_run_app (ugm_increase s1 [0; 1] 1 (Some [(0, 1%Z)]) ex_user) [0; 1] 2 ex_user = (s2, true) /\
    snd (ugm_can_run_app (ugm_increase s2 [0; 1] 2 (Some [(0, 1%Z)]) ex_user) [0; 1] 3 ex_user) = false /\ s3 = s2.
Proof. eexists. eexists. eexists. repeat split; vm_compute; reflexivity. Qed.

(* ---- a decidable form of the pairing discipline ---- *)
Lemma path_eqb_eq a b : path_eqb a b = true -> a = b.
Proof.
  revert b. induction a as [|x t IH]; intros [|y t'] H; try discriminate; [reflexivity|].
  cbn in H. apply andb_true_iff in H. destruct H as (H1 & H2). apply N.eqb_eq in H1. rewrite H1, (IH t' H2). reflexivity.
Qed.
Definition all_keys_of (L : ledger) : list tid := flat_map (fun e => keys (le_res e)) L.
Lemma getz_not_key r k : ~ In k (keys r) -> getz r k = 0%Z.
Proof. intros H. unfold getz. destruct (get r k) eqn:E; [|reflexivity]. exfalso. apply H. apply get_some_iff. eauto. Qed.
Lemma asum_not_key sel a L k : ~ In k (all_keys_of L) -> asum sel a L k = 0%Z.
Proof.
  induction L as [|e t IH]; intros H; [reflexivity|]. unfold asum in *. cbn [fold_right].
  cbn [all_keys_of flat_map] in H. rewrite in_app_iff in H.
  rewrite IH by tauto. rewrite getz_not_key by tauto. destruct (sel e && (le_app e =? a)); reflexivity.
Qed.
Definition owner_okb (L : ledger) (a : app) (u : uname) (p : path) : bool :=
  forallb (fun e => implb (le_app e =? a) ((le_user e =? u) && path_eqb (le_path e) p)) L.
Lemma owner_okb_spec L a u p : owner_okb L a u p = true -> forall e, In e L -> le_app e = a -> le_user e = u /\ le_path e = p.
Proof.
  unfold owner_okb. rewrite forallb_forall. intros H e Hin Ha. specialize (H e Hin). rewrite Ha, N.eqb_refl in H. cbn in H.
  apply andb_true_iff in H. destruct H as (H1 & H2). split; [apply N.eqb_eq; assumption|apply path_eqb_eq; assumption].
Qed.
Definition rootedb (p : path) : bool := match p with x :: _ => x =? ROOT | [] => false end.
Lemma rootedb_spec p : rootedb p = true -> exists tl, p = ROOT :: tl.
Proof. destruct p as [|x t]; [discriminate|]. cbn. intros H. apply N.eqb_eq in H. subst. eauto. Qed.

Definition hist_okb (L : ledger) (o : op) : bool :=
  match o with
  | OInc p a (Some r) u _ =>
      rootedb p && negb (a =? EMPTY) && negb (fst u =? EMPTY) && wfb r && rangeb r && owner_okb L a (fst u) p
  | ODec p a (Some r) u rm =>
      rootedb p && negb (a =? EMPTY) && negb (fst u =? EMPTY) && wfb r && rangeb r &&
      existsb (fun e => le_app e =? a) L && owner_okb L a (fst u) p &&
      (if rm then forallb (fun k => Z.eqb (getz r k) (asum (fun _ => true) a L k)) (keys r ++ all_keys_of L)
       else rangeb (neg_res r))
  | OHeadroom p _ _ | OCanRun p _ _ => match p with [] => false | _ => true end
  | _ => false
  end.
Lemma hist_okb_spec L o : hist_okb L o = true ->
  hist_ok L o /\ (forall p a r u, o = ODec p a (Some r) u false -> res_in_range (neg_res r)).
Proof.
  destruct o as [p a [r|] u sched|p a [r|] u rm|p a u|p a u|c rn]; cbn [hist_okb hist_ok]; try discriminate.
  - intros H. repeat (apply andb_true_iff in H; destruct H as [H ?]). split; [|intros; discriminate].
    split; [|split; [|split; [|split; [|split]]]].
    + apply rootedb_spec. assumption.
    + apply N.eqb_neq. apply negb_true_iff. assumption.
    + apply N.eqb_neq. apply negb_true_iff. assumption.
    + apply wfb_wf. assumption.
    + apply rangeb_range. assumption.
    + apply owner_okb_spec; assumption.
  - intros H. repeat (apply andb_true_iff in H; destruct H as [H ?]). split.
    + split; [|split; [|split; [|split; [|split; [|split; [|split]]]]]].
      * apply rootedb_spec. assumption.
      * apply N.eqb_neq. apply negb_true_iff. assumption.
      * apply N.eqb_neq. apply negb_true_iff. assumption.
      * apply wfb_wf. assumption.
      * apply rangeb_range. assumption.
      * apply existsb_exists in H2. destruct H2 as (e & Hin & He). exists e. split; [assumption|apply N.eqb_eq; assumption].
      * apply owner_okb_spec; assumption.
      * intros -> k. rewrite forallb_forall in H0.
        destruct (in_dec N.eq_dec k (keys r ++ all_keys_of L)) as [Hin|Hni]; [apply Z.eqb_eq; apply H0; assumption|].
        rewrite in_app_iff in Hni. rewrite getz_not_key, asum_not_key by tauto. reflexivity.
    + intros p0 a0 r0 u0 E. injection E as Ep Ea Er Eu Erm. subst. apply rangeb_range. assumption.
  - intros H. split; [|intros; discriminate]. destruct p as [|x t]; [discriminate|]. eauto.
  - intros H. split; [|intros; discriminate]. destruct p as [|x t]; [discriminate|]. eauto.
Qed.
Fixpoint hist_all_okb (L : ledger) (ops : list op) : bool :=
  match ops with
  | [] => true
  | o :: t => hist_okb L o && (tot (ledger_step L o) <=? MAX)%Z && hist_all_okb (ledger_step L o) t
  end.
Lemma hist_all_okb_spec ops : forall L, hist_all_okb L ops = true -> hist_all_ok L ops.
Proof.
  induction ops as [|o t IH]; intros L H; [exact I|]. cbn [hist_all_okb] in H.
  apply andb_true_iff in H. destruct H as (H12 & Hrest). apply andb_true_iff in H12. destruct H12 as (Hok & Htot).
  destruct (hist_okb_spec L o Hok) as (H3 & H4).
  cbn [hist_all_ok]. split; [assumption|]. split; [apply bounded_tot; assumption|]. split; [assumption|apply IH; assumption].
Qed.

(* usage_is_sum: the loaded configuration is a valid starting state, and a history with two
   applications, a partial release and a full release satisfies the pairing discipline *)
Definition ex_ops : list op :=
  [OCanRun [0; 1] 1 ex_user; OHeadroom [0; 1] 1 ex_user;
   OInc [0; 1] 1 (Some [(0, 3%Z)]) ex_user true;
   OInc [0; 1] 2 (Some [(0, 2%Z); (1, 1%Z)]) (3, [2]) false;
   OInc [0; 1] 1 (Some [(0, 1%Z)]) ex_user true;
   ODec [0; 1] 1 (Some [(0, 3%Z)]) ex_user false;
   ODec [0; 1] 1 (Some [(0, 1%Z)]) ex_user true].

Example usage_is_sum_example :
  Inv ex_s0 [] /\ hist_all_ok [] ex_ops /\ exists s, run ex_s0 ex_ops = Some s /\ ledger_of ex_ops <> [] /\
  tracked s (Group 2) [0; 1] 0 = 2%Z /\ tracked s (User 3) [0] 1 = 1%Z.
Proof.
  split; [apply (inv0b_Inv ex_s0 [[1]; []]); vm_compute; reflexivity|].
  split; [apply hist_all_okb_spec; vm_compute; reflexivity|].
  eexists. split; [vm_compute; reflexivity|]. split; [vm_compute; discriminate|]. split; vm_compute; reflexivity.
Qed.

(* group_stable: app1 of u1 is running and charged to g1; an Increase of another application
   leaves the resolution alone *)
Example group_stable_example :
  exists s ut, nlookup (users s) 2 = Some ut /\ In 1 (q_apps (ut_qt ut)) /\ resolved s 2 1 = Some (Some 2).
Proof.
  exists (ugm_increase (fst (ugm_headroom ex_s0 [0; 1] 1 ex_user)) [0; 1] 1 (Some [(0, 3%Z)]) ex_user).
  eexists. split; [vm_compute; reflexivity|]. split; [vm_compute; left; reflexivity|vm_compute; reflexivity].
Qed.

(* reload_exact_partial: a configuration with a named user, the user wild card, a named group and
   the group wild card on the root queue, loaded first, then a history in nested queues *)
Definition exr_conf : qconf :=
  QConf 1000 [mkLim [2] [] (Some [(0, 10%Z)]) 2; mkLim [] [2] (Some [(0, 6%Z)]) 0;
              mkLim [1] [] (Some [(0, 4%Z)]) 0; mkLim [] [1] (Some [(1, 3%Z)]) 1]
    [QConf 1 [] [QConf 3 [] []]].
Definition exr_ops : list op :=
  [OCanRun [0; 1; 3] 1 (2, [2]); OHeadroom [0; 1; 3] 1 (2, [2]); OInc [0; 1; 3] 1 (Some [(0, 3%Z)]) (2, [2]) true;
   OHeadroom [0; 1; 3] 2 (3, [3]); OInc [0; 1; 3] 2 (Some [(0, 2%Z)]) (3, [3]) true;
   ODec [0; 1; 3] 2 (Some [(0, 2%Z)]) (3, [3]) true].
Example reload_exact_partial_example :
  root_only exr_conf /\ qlower 1000 = ROOT /\ no_config exr_ops /\
  exists s, run ugm_init (OConfig exr_conf 1000 :: exr_ops) = Some s /\
    in_force s (User 2) [0] = (Some [(0, 10%Z)], 2) /\ in_force s (User 3) [0] = (Some [(0, 4%Z)], 0) /\
    in_force s (Group 1) [0] = (Some [(1, 3%Z)], 1) /\ in_force s (User 3) [0; 1; 3] = no_limit.
Proof.
  split; [split; reflexivity|]. split; [reflexivity|].
  split; [intros o Hin; repeat (destruct Hin as [<-|Hin]; [exact I|]); contradiction|].
  eexists. split; [vm_compute; reflexivity|]. repeat split; vm_compute; reflexivity.
Qed.
