(* Specification of quantity strings, independent of the recogniser of Base/Quantity.v: the
   multiplier table is enumerated and the suffix is cut off from the END of the trimmed string.
   Definitions only; used by the theorems parse_exact / parse_total_error and by the oracle. *)
From Coq Require Import List ZArith NArith Bool Lia.
From YK Require Import Base.Int64 Base.Quantity.
Import ListNotations.
Open Scope Z_scope.

Definition ends_with (t suf : list N) : bool :=
  (length suf <=? length t)%nat && bytes_eqb (skipn (length t - length suf) t) suf.

(* the value of the trimmed string t read with table entry (suf, scale):
   t = digits+ re_space* suf ; "m" only for milli ; exact product ; must be an int64 *)
Definition entry_value (t : list N) (milli : bool) (e : list N * Z) : option Z :=
  let '(suf, scale) := e in
  if negb (ends_with t suf) then None else
  let body := firstn (length t - length suf) t in
  let '(num, ws) := span is_digit body in
  match num with
  | [] => None
  | _ =>
      if negb (forallb is_re_space ws) then None else
      if is_m suf && negb milli then None else
      let v := digits_val num * scale * (if milli && negb (is_m suf) then 1000 else 1) in
      if in_rangeb v then Some v else None
  end.

Definition optZ_eq (a b : option Z) : bool :=
  match a, b with Some x, Some y => x =? y | None, None => true | _, _ => false end.

(* v is the value of the quantity string t *)
Definition is_quantity (t : list N) (milli : bool) (v : Z) : Prop :=
  exists e, In e mult_table /\ entry_value t milli e = Some v.
Definition is_quantity_b (t : list N) (milli : bool) (v : Z) : bool :=
  existsb (fun e => optZ_eq (entry_value t milli e) (Some v)) mult_table.
(* t is not a quantity string (or its value does not fit an int64) *)
Definition no_quantity (t : list N) (milli : bool) : Prop :=
  forall e, In e mult_table -> entry_value t milli e = None.
Definition no_quantity_b (t : list N) (milli : bool) : bool :=
  forallb (fun e => optZ_eq (entry_value t milli e) None) mult_table.
