(* Tie theorems (C18; used by C02 C05): ComponentWiseMinOnlyExisting, MergeIfNotPresent, ComponentWiseMin,
   ComponentWiseMax. *)
From Coq Require Import List ZArith NArith Bool Lia ZifyBool ZifyN ZifyNat Floats.SpecFloat.
From YK Require Import Base.Int64 Base.F64 Base.Res Base.ResMore Base.ResSpec Base.ResLemmas
  Generated.GoPrelude Generated.GoResources Base.GoTieLib Base.GoTieRep Base.GoTieClone.
Import ListNotations.
Open Scope Z_scope.

(* ================================================================ ComponentWiseMinOnlyExisting / MergeIfNotPresent *)
Lemma zmin_Zmin a b : Z.min a b = zmin a b.
Proof. unfold zmin. destruct (Z.ltb_spec a b); lia. Qed.

Theorem gotie_ComponentWiseMinOnlyExisting l r : owf l ->
  GoResources.ComponentWiseMinOnlyExisting (toR l) (toR r) = GOk (toR (Res.ComponentWiseMinOnlyExisting l r)).
Proof.
  intros H. unfold GoResources.ComponentWiseMinOnlyExisting, Res.ComponentWiseMinOnlyExisting. cbv zeta.
  change GoResources.NewResource with (Some (mkR [])).
  destruct l as [l|]; [|destruct r; reflexivity].
  destruct r as [r|]; cbn [toR option_map is_nil andb].
  2:{ rewrite (clone_ok l H). reflexivity. }
  cbn [deref gbind mkR Resource_Resources].
  rewrite (loop_R (fun (m : res) (kv : tid * Z) =>
     set (fst kv) (match get r (fst kv) with Some v => zmin (snd kv) v | None => snd kv end) m)).
  2:{ intros [m] [k v]; unfold onR, mkR; cbn. rewrite mget0_getz, mhas_has. unfold getz, has.
      destruct (get r k); cbn; now rewrite mset_set, ?zmin_Zmin. }
  cbn [gbind].
  pose proof (fold_set_map (fun k v => match get r k with Some v' => zmin v v' | None => v end) l H) as E.
  cbn beta in E. now rewrite E.
Qed.

Theorem gotie_MergeIfNotPresent l r : owf l -> owf r ->
  GoResources.MergeIfNotPresent (toR l) (toR r) = GOk (toR (Res.MergeIfNotPresent l r)).
Proof.
  intros Hl Hr. unfold GoResources.MergeIfNotPresent, Res.MergeIfNotPresent.
  destruct l as [l|], r as [r|]; cbn [toR option_map is_nil andb]; try reflexivity.
  - rewrite (clone_ok l Hl). cbn [gbind deref mkR Resource_Resources].
    rewrite (loop_R (fun (out : res) (kv : tid * Z) => if has l (fst kv) then out else set (fst kv) (snd kv) out)).
    2:{ intros [m] [k v]; unfold onR, mkR; cbn. rewrite mhas_has. destruct (has l k); cbn; now rewrite ?mset_set. }
    reflexivity.
  - rewrite (clone_ok l Hl). reflexivity.
  - rewrite (clone_ok r Hr). reflexivity.
Qed.

(* ================================================================ ComponentWiseMin / ComponentWiseMax *)
Lemma zmax_Zmax a b : Z.max a b = zmax a b.
Proof. unfold zmax. destruct (Z.ltb_spec a b); lia. Qed.

Theorem gotie_ComponentWiseMin l r : owf l -> owf r ->
  GoResources.ComponentWiseMin (toR l) (toR r) = GOk (toR (Res.ComponentWiseMin l r)).
Proof.
  intros Hl Hr. unfold GoResources.ComponentWiseMin, Res.ComponentWiseMin. cbv zeta.
  change GoResources.NewResource with (Some (mkR [])).
  destruct l as [l|], r as [r|]; cbn [toR option_map is_nil andb]; try reflexivity.
  - cbn [deref gbind mkR Resource_Resources]. unfold cwMin.
    rewrite (loop_R (fun (m : res) (kv : tid * Z) =>
       set (fst kv) (match get r (fst kv) with Some v => zmin (snd kv) v | None => snd kv end) m)).
    2:{ intros [m] [k v]; unfold onR, mkR; cbn. rewrite mget0_getz, mhas_has. unfold getz, has.
        destruct (get r k); cbn; now rewrite mset_set, ?zmin_Zmin. }
    cbn [gbind].
    rewrite (loop_R (fun (m : res) (kv : tid * Z) =>
       set (fst kv) (match get l (fst kv) with Some v => zmin (snd kv) v | None => snd kv end) m)).
    2:{ intros [m] [k v]; unfold onR, mkR; cbn. rewrite mget0_getz, mhas_has. unfold getz, has.
        destruct (get l k); cbn; now rewrite mset_set, ?zmin_Zmin. }
    reflexivity.
  - rewrite (clone_ok l Hl). reflexivity.
  - rewrite (clone_ok r Hr). reflexivity.
Qed.

Theorem gotie_ComponentWiseMax l r :
  GoResources.ComponentWiseMax (toR l) (toR r) = GOk (Some (mkR (Res.ComponentWiseMax l r))).
Proof.
  unfold GoResources.ComponentWiseMax, Res.ComponentWiseMax. cbv zeta.
  change GoResources.NewResource with (Some (mkR [])).
  destruct l as [l|], r as [r|]; cbn [toR option_map is_nil negb andb]; try reflexivity.
  cbn [deref gbind mkR Resource_Resources].
  rewrite (loop_R (fun (m : res) (kv : tid * Z) => set (fst kv) (zmax (snd kv) (getz r (fst kv))) m)).
  2:{ intros [m] [k v]; unfold onR, mkR; cbn. now rewrite mget0_getz, mset_set, zmax_Zmax. }
  cbn [gbind].
  rewrite (loop_R (fun (m : res) (kv : tid * Z) => set (fst kv) (zmax (snd kv) (getz l (fst kv))) m)).
  2:{ intros [m] [k v]; unfold onR, mkR; cbn. now rewrite mget0_getz, mset_set, zmax_Zmax. }
  reflexivity.
Qed.
