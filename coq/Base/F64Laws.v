(* mulValRatio: the code's float comparisons against +-2^63 followed by the platform's
   float -> int64 conversion equal "truncate the (rounded, binary64) product and saturate",
   for every product that is a canonical binary64 value. *)
From Coq Require Import ZArith Lia Bool Floats.SpecFloat.
From YK Require Import Base.Int64 Base.Int64Laws Base.F64 Base.Res Base.ResSpec.
Open Scope Z_scope.

(* x is a canonical binary64 datum other than NaN (what every IEEE operation returns) *)
Definition f_valid (x : f64) : bool :=
  match x with
  | S754_finite _ m e => bounded prec emax m e
  | S754_nan => false
  | _ => true
  end.

Lemma f_two63_eq : f_two63 = S754_finite false 4503599627370496 11.
Proof. vm_compute. reflexivity. Qed.
Lemma f_mtwo63_eq : f_mtwo63 = S754_finite true 4503599627370496 11.
Proof. vm_compute. reflexivity. Qed.

Lemma digits2_size m : digits2_pos m = Pos.size m.
Proof. induction m; cbn; congruence. Qed.
Lemma digits_bounds m : 2 ^ (Zpos (digits2_pos m) - 1) <= Zpos m < 2 ^ Zpos (digits2_pos m).
Proof.
  rewrite digits2_size. pose proof (Pos.size_gt m) as Hg. pose proof (Pos.size_le m) as Hl.
  assert (Hp : Zpos (2 ^ Pos.size m) = 2 ^ Zpos (Pos.size m)) by (rewrite Pos2Z.inj_pow; reflexivity).
  split.
  - assert (2 ^ Zpos (Pos.size m) <= 2 * Zpos m) by (rewrite <- Hp; change (2 * Zpos m) with (Zpos m~0); lia).
    replace (Zpos (Pos.size m)) with (Zpos (Pos.size m) - 1 + 1) in H by lia.
    rewrite Z.pow_add_r in H by lia. lia.
  - rewrite <- Hp. lia.
Qed.

(* what [bounded] says about mantissa and exponent *)
Lemma bounded_facts m e : bounded prec emax m e = true ->
  Zpos m < 2^53 /\ -1074 <= e <= 971 /\ (-1074 < e -> 2^52 <= Zpos m).
Proof.
  unfold bounded, canonical_mantissa, fexp, emin, prec, emax. rewrite andb_true_iff.
  intros [Hc He]. apply Zeq_bool_eq in Hc. apply Zle_bool_imp_le in He.
  pose proof (digits_bounds m) as [Hlo Hhi]. set (d := Zpos (digits2_pos m)) in *.
  assert (Hd : 0 < d) by (unfold d; lia).
  assert (Hd53 : d <= 53) by lia.
  split; [|split].
  - eapply Z.lt_le_trans; [exact Hhi|]. apply Z.pow_le_mono_r; lia.
  - lia.
  - intros Hn. assert (d = 53) by lia. replace (d - 1) with 52 in Hlo by lia. exact Hlo.
Qed.

Lemma pow2_ge e : 11 <= e -> 2^11 <= 2^e.
Proof. intros. apply Z.pow_le_mono_r; lia. Qed.
Lemma pow2_le e : 0 <= e <= 10 -> 1 <= 2^e <= 2^10.
Proof. intros. split; [change 1 with (2^0)|]; apply Z.pow_le_mono_r; lia. Qed.
Lemma quot_pow_bound m e : e < 0 -> 0 <= Z.quot (Zpos m) (2 ^ (- e)) <= Zpos m.
Proof. intros He. assert (Hp : 0 < 2 ^ (- e)) by (apply Z.pow_pos_nonneg; lia).
  rewrite Z.quot_div_nonneg by lia. split; [apply Z.div_pos; lia|].
  apply Z.div_le_upper_bound; [lia|]. assert (1 <= 2 ^ (-e)) by lia.
  replace (Zpos m) with (1 * Zpos m) at 1 by lia. apply Z.mul_le_mono_nonneg_r; lia. Qed.

(* magnitude of the truncated value of a canonical finite float, against 2^63 *)
Definition mag (m : positive) (e : Z) : Z := if 0 <=? e then Zpos m * 2 ^ e else Z.quot (Zpos m) (2 ^ (- e)).
Lemma mag_small m e : bounded prec emax m e = true -> e < 11 -> 0 <= mag m e < 2^63.
Proof. intros Hb He. destruct (bounded_facts m e Hb) as (Hm & Hr & _). unfold mag.
  destruct (Z.leb_spec 0 e) as [H0|H0].
  - pose proof (pow2_le e ltac:(lia)) as [Hp1 Hp2]. split; [lia|].
    apply Z.le_lt_trans with (Zpos m * 2^10); [apply Z.mul_le_mono_nonneg_l; lia|]. lia.
  - pose proof (quot_pow_bound m e H0). lia. Qed.
Lemma mag_large m e : bounded prec emax m e = true -> 11 <= e -> 2^63 <= mag m e /\ mag m e = Zpos m * 2^e.
Proof. intros Hb He. destruct (bounded_facts m e Hb) as (Hm & Hr & Hn). unfold mag.
  destruct (Z.leb_spec 0 e); [|lia]. split; [|reflexivity].
  pose proof (pow2_ge e He). specialize (Hn ltac:(lia)).
  apply Z.le_trans with (2^52 * 2^11); [vm_compute; congruence|].
  apply Z.mul_le_mono_nonneg; lia. Qed.

Lemma f_trunc_finite s m e : f_trunc (S754_finite s m e) = if s then - mag m e else mag m e.
Proof. reflexivity. Qed.

(* the three-way test of mulValRatio on a valid product *)
Lemma ratio_test_clamp p : f_valid p = true ->
  (if f_geb p f_two63 then MAX else if f_ltb p f_mtwo63 then MIN else f_to_int64 p) = clamp (f_trunc_ext p).
Proof.
  rewrite f_two63_eq, f_mtwo63_eq. destruct p as [s|s| |s m e]; intros Hv; try discriminate.
  - destruct s; reflexivity.
  - destruct s; reflexivity.
  - cbn [f_valid] in Hv. unfold f_trunc_ext, f_geb, f_ltb, f_leb, SFleb, SFltb.
    unfold f_to_int64. rewrite f_trunc_finite.
    destruct (Z_lt_le_dec e 11) as [He|He].
    + (* magnitude below 2^63: no saturation, conversion exact *)
      pose proof (mag_small m e Hv He) as Hm.
      assert (Hc : (11 ?= e) = Gt) by (apply Z.compare_gt_iff; lia).
      assert (Hc' : (e ?= 11) = Lt) by (apply Z.compare_lt_iff; lia).
      destruct s; cbn [SFcompare]; rewrite ?Hc, ?Hc'.
      * assert (Hr : in_range (- mag m e)) by (unfold in_range, MIN, MAX; lia).
        rewrite (clamp_id _ Hr).
        destruct (Z.ltb_spec (- mag m e) (- 2^63)); [lia|]. destruct (Z.ltb_spec (2^63 - 1) (- mag m e)); [lia|]. reflexivity.
      * assert (Hr : in_range (mag m e)) by (unfold in_range, MIN, MAX; lia).
        rewrite (clamp_id _ Hr).
        destruct (Z.ltb_spec (mag m e) (- 2^63)); [lia|]. destruct (Z.ltb_spec (2^63 - 1) (mag m e)); [lia|]. reflexivity.
    + destruct (mag_large m e Hv He) as [Hbig Hmag].
      destruct (bounded_facts m e Hv) as (Hm53 & Hr & Hn). specialize (Hn ltac:(lia)).
      destruct s; cbn [SFcompare].
      * (* negative: below -2^63 unless it is exactly -2^63 *)
        destruct (Z.compare_spec e 11) as [E|E|E]; [|lia|].
        -- subst e. rewrite Pos.compare_cont_spec. cbn [Pos.switch_Eq CompOpp].
           destruct (Pos.compare_spec m 4503599627370496) as [Em|Em|Em].
           ++ subst m. vm_compute. reflexivity.
           ++ exfalso. lia.
           ++ cbn [CompOpp]. unfold clamp, MIN. destruct (Z.ltb_spec (- mag m 11) (- 2^63)); [reflexivity|].
              exfalso. rewrite Hmag in *. lia.
        -- unfold clamp, MIN. destruct (Z.ltb_spec (- mag m e) (- 2^63)); [reflexivity|].
           exfalso. rewrite Hmag in *.
           assert (2^12 <= 2^e) by (apply Z.pow_le_mono_r; lia).
           assert (2^52 * 2^12 <= Zpos m * 2^e) by (apply Z.mul_le_mono_nonneg; lia). lia.
      * (* positive: at least 2^63 *)
        assert (Hge : match (match 11 ?= e with Eq => Pos.compare_cont Eq 4503599627370496 m | Lt => Lt | Gt => Gt end)
                      with Eq | Lt => true | Gt => false end = true).
        { destruct (Z.compare_spec 11 e) as [E|E|E]; [|reflexivity|lia].
          rewrite Pos.compare_cont_spec. cbn [Pos.switch_Eq].
          destruct (Pos.compare_spec 4503599627370496 m) as [Em|Em|Em]; try reflexivity. exfalso. lia. }
        rewrite Hge. unfold clamp, MIN, MAX.
        destruct (Z.ltb_spec (mag m e) (- 2^63)); [lia|].
        destruct (Z.ltb_spec (2^63 - 1) (mag m e)); [reflexivity|lia].
Qed.
