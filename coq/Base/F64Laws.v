(* mulValRatio: the code's float comparisons against +-2^63 followed by the platform's
   float -> int64 conversion equal "truncate the (rounded, binary64) product and saturate",
   for every product that is a canonical binary64 value. *)
From Coq Require Import ZArith Lia Bool Floats.SpecFloat.
From YK Require Import Base.Int64 Base.Int64Laws Base.F64 Base.Res Base.ResSpec.
Open Scope Z_scope.

Lemma f_two63_eq : f_two63 = S754_finite false 4503599627370496 11.
Proof. vm_compute. reflexivity. Qed.
Lemma f_mtwo63_eq : f_mtwo63 = S754_finite true 4503599627370496 11.
Proof. vm_compute. reflexivity. Qed.

Lemma digits2_size m : digits2_pos m = Pos.size m.
Proof. induction m; cbn; congruence. Qed.
Lemma digits_bounds m : 2 ^ (Zpos (digits2_pos m) - 1) <= Zpos m < 2 ^ Zpos (digits2_pos m).
Proof.
  rewrite digits2_size. pose proof (Pos.size_gt m) as Hg. pose proof (Pos.size_le m) as Hl.
  assert (Hp : Zpos (2 ^ Pos.size m) = 2 ^ Zpos (Pos.size m)) by (rewrite Pos2Z.inj_pow; reflexivity).
  split.
  - assert (2 ^ Zpos (Pos.size m) <= 2 * Zpos m) by (rewrite <- Hp; change (2 * Zpos m) with (Zpos m~0); lia).
    replace (Zpos (Pos.size m)) with (Zpos (Pos.size m) - 1 + 1) in H by lia.
    rewrite Z.pow_add_r in H by lia. lia.
  - rewrite <- Hp. lia.
Qed.

(* what [bounded] says about mantissa and exponent *)
Lemma bounded_facts m e : bounded prec emax m e = true ->
  Zpos m < 2^53 /\ -1074 <= e <= 971 /\ (-1074 < e -> 2^52 <= Zpos m).
Proof.
  unfold bounded, canonical_mantissa, fexp, emin, prec, emax. rewrite andb_true_iff.
  intros [Hc He]. apply Zeq_bool_eq in Hc. apply Zle_bool_imp_le in He.
  pose proof (digits_bounds m) as [Hlo Hhi]. set (d := Zpos (digits2_pos m)) in *.
  assert (Hd : 0 < d) by (unfold d; lia).
  assert (Hd53 : d <= 53) by lia.
  split; [|split].
  - eapply Z.lt_le_trans; [exact Hhi|]. apply Z.pow_le_mono_r; lia.
  - lia.
  - intros Hn. assert (d = 53) by lia. replace (d - 1) with 52 in Hlo by lia. exact Hlo.
Qed.

Lemma pow2_ge e : 11 <= e -> 2^11 <= 2^e.
Proof. intros. apply Z.pow_le_mono_r; lia. Qed.
Lemma pow2_le e : 0 <= e <= 10 -> 1 <= 2^e <= 2^10.
Proof. intros. split; [change 1 with (2^0)|]; apply Z.pow_le_mono_r; lia. Qed.
Lemma quot_pow_bound m e : e < 0 -> 0 <= Z.quot (Zpos m) (2 ^ (- e)) <= Zpos m.
Proof. intros He. assert (Hp : 0 < 2 ^ (- e)) by (apply Z.pow_pos_nonneg; lia).
  rewrite Z.quot_div_nonneg by lia. split; [apply Z.div_pos; lia|].
  apply Z.div_le_upper_bound; [lia|]. assert (1 <= 2 ^ (-e)) by lia.
  replace (Zpos m) with (1 * Zpos m) at 1 by lia. apply Z.mul_le_mono_nonneg_r; lia. Qed.

(* magnitude of the truncated value of a canonical finite float, against 2^63 *)
Definition mag (m : positive) (e : Z) : Z := if 0 <=? e then Zpos m * 2 ^ e else Z.quot (Zpos m) (2 ^ (- e)).
Lemma mag_small m e : bounded prec emax m e = true -> e < 11 -> 0 <= mag m e < 2^63.
Proof. intros Hb He. destruct (bounded_facts m e Hb) as (Hm & Hr & _). unfold mag.
  destruct (Z.leb_spec 0 e) as [H0|H0].
  - pose proof (pow2_le e ltac:(lia)) as [Hp1 Hp2]. split; [lia|].
    apply Z.le_lt_trans with (Zpos m * 2^10); [apply Z.mul_le_mono_nonneg_l; lia|]. lia.
  - pose proof (quot_pow_bound m e H0). lia. Qed.
Lemma mag_large m e : bounded prec emax m e = true -> 11 <= e -> 2^63 <= mag m e /\ mag m e = Zpos m * 2^e.
Proof. intros Hb He. destruct (bounded_facts m e Hb) as (Hm & Hr & Hn). unfold mag.
  destruct (Z.leb_spec 0 e); [|lia]. split; [|reflexivity].
  pose proof (pow2_ge e He). specialize (Hn ltac:(lia)).
  apply Z.le_trans with (2^52 * 2^11); [vm_compute; congruence|].
  apply Z.mul_le_mono_nonneg; lia. Qed.

Lemma f_trunc_finite s m e : f_trunc (S754_finite s m e) = if s then - mag m e else mag m e.
Proof. reflexivity. Qed.

Lemma pos_cmp_Z a b : Pos.compare_cont Eq a b = (Zpos a ?= Zpos b).
Proof. reflexivity. Qed.

(* the three-way test of mulValRatio on a valid product *)
Lemma ratio_test_clamp p : f_valid p = true ->
  (if f_geb p f_two63 then MAX else if f_ltb p f_mtwo63 then MIN else f_to_int64 p) = clamp (f_trunc_ext p).
Proof.
  rewrite f_two63_eq, f_mtwo63_eq. destruct p as [s|s| |s m e]; intros Hv; try discriminate.
  - destruct s; reflexivity.
  - destruct s; reflexivity.
  - cbn [f_valid] in Hv. unfold f_trunc_ext, f_geb, f_ltb, f_leb, SFleb, SFltb.
    unfold f_to_int64. rewrite f_trunc_finite.
    destruct (Z_lt_le_dec e 11) as [He|He].
    + (* magnitude below 2^63: no saturation, conversion exact *)
      pose proof (mag_small m e Hv He) as Hm.
      assert (Hc : (11 ?= e) = Gt) by (apply Z.compare_gt_iff; lia).
      assert (Hc' : (e ?= 11) = Lt) by (apply Z.compare_lt_iff; lia).
      destruct s; cbn [SFcompare]; rewrite ?Hc, ?Hc'.
      * assert (Hr : in_range (- mag m e)) by (unfold in_range, MIN, MAX; lia).
        rewrite (clamp_id _ Hr).
        destruct (Z.ltb_spec (- mag m e) (- 2^63)); [lia|]. destruct (Z.ltb_spec (2^63 - 1) (- mag m e)); [lia|]. reflexivity.
      * assert (Hr : in_range (mag m e)) by (unfold in_range, MIN, MAX; lia).
        rewrite (clamp_id _ Hr).
        destruct (Z.ltb_spec (mag m e) (- 2^63)); [lia|]. destruct (Z.ltb_spec (2^63 - 1) (mag m e)); [lia|]. reflexivity.
    + destruct (mag_large m e Hv He) as [Hbig Hmag].
      destruct (bounded_facts m e Hv) as (Hm53 & Hr & Hn). specialize (Hn ltac:(lia)).
      destruct s; cbn [SFcompare].
      * (* negative: below -2^63 unless it is exactly -2^63 *)
        destruct (Z.compare_spec e 11) as [E|E|E]; [|lia|].
        -- subst e. rewrite pos_cmp_Z.
           destruct (Z.compare_spec (Zpos m) 4503599627370496) as [Em|Em|Em].
           ++ inversion Em; subst m. vm_compute. reflexivity.
           ++ exfalso. clear - Em Hn. lia.
           ++ cbn [CompOpp]. unfold clamp, MIN. destruct (Z.ltb_spec (- mag m 11) (- 2^63)) as [|Hge]; [reflexivity|].
              exfalso. rewrite Hmag in Hge. clear - Em Hge. lia.
        -- unfold clamp, MIN. destruct (Z.ltb_spec (- mag m e) (- 2^63)) as [|Hge]; [reflexivity|].
           exfalso. rewrite Hmag in Hge.
           assert (H12 : 2^12 <= 2^e) by (apply Z.pow_le_mono_r; lia).
           assert (H64 : 2^52 * 2^12 <= Zpos m * 2^e) by (apply Z.mul_le_mono_nonneg; lia).
           change (2^52 * 2^12) with (2^64) in H64. set (P := Zpos m * 2^e) in *. clear - Hge H64. lia.
      * (* positive: at least 2^63 *)
        assert (Hge : match (match 11 ?= e with Eq => Pos.compare_cont Eq 4503599627370496 m | Lt => Lt | Gt => Gt end)
                      with Eq | Lt => true | Gt => false end = true).
        { destruct (Z.compare_spec 11 e) as [E|E|E]; [|reflexivity|lia].
          rewrite pos_cmp_Z.
          destruct (Z.compare_spec 4503599627370496 (Zpos m)) as [Em|Em|Em]; try reflexivity. exfalso. clear - Em Hn. lia. }
        rewrite Hge. unfold clamp, MIN, MAX. set (M := mag m e) in *. clearbody M.
        destruct (Z.ltb_spec M (- 2^63)) as [H1|H1]; [exfalso; clear - H1 Hbig; lia|].
        destruct (Z.ltb_spec (2^63 - 1) M) as [H2|H2]; [reflexivity|exfalso; clear - H2 Hbig; lia].
Qed.

Lemma f_to_int64_in_range p : in_range (f_to_int64 p).
Proof. unfold f_to_int64, in_range, MIN, MAX. destruct p as [s|s| |s m e]; try lia.
  set (v := f_trunc (S754_finite s m e)). clearbody v.
  destruct (Z.ltb_spec v (- 2^63)); cbn [orb]; [lia|]. destruct (Z.ltb_spec (2^63 - 1) v); lia. Qed.

(* for ALL inputs (any int64 or not, any ratio including NaN and infinities) the result is an int64 *)
Theorem mulValRatio_in_range v r : in_range (mulValRatio v r).
Proof. unfold mulValRatio. destruct ((v =? 0) || f_is_zero r); [apply in_range_0|]. cbv zeta.
  destruct (f_geb _ _); [apply in_range_MAX|]. destruct (f_ltb _ _); [apply in_range_MIN|]. apply f_to_int64_in_range. Qed.

(* FULL statement (mulValRatio_clamp), not proved here:
     forall v r, in_range v -> f_valid r = true -> mulValRatio v r = mulValRatio_spec v r
   i.e.  mulValRatio v r = clamp (trunc (float64 v (x) r))  for every non-NaN ratio.
   Proved below under the hypothesis that the binary64 product computed by SpecFloat is a canonical
   datum. What is missing is the meta-theorem that SFmul / binary_normalize only return canonical
   data (Flocq: Bmult_correct, binary_round_aux_correct); it is not re-proved over plain SpecFloat.
   The correspondence run evaluates f_valid on every generated product (oracle), see notes/res.md. *)
Theorem mulValRatio_clamp_partial v r :
  f_valid (f_mul (f_of_Z v) r) = true -> mulValRatio v r = mulValRatio_spec v r.
Proof.
  unfold mulValRatio, mulValRatio_spec. intros Hv.
  destruct (Z.eqb_spec v 0) as [->|Hv0]; cbn [orb].
  - change (f_of_Z 0) with (S754_zero false) in *.
    destruct r as [s|s| |s m e]; cbn in Hv |- *; try discriminate; reflexivity.
  - destruct (f_is_zero r) eqn:Hz.
    + destruct r as [s|s| |s m e]; try discriminate.
      destruct (f_of_Z v) as [s'|s'| |s' m' e']; cbn in Hv |- *; try discriminate; reflexivity.
    + cbv zeta. apply ratio_test_clamp. assumption.
Qed.

(* the pinned comparison  result > MaxInt64  let the product 2^63 through to the conversion *)
Theorem mulValRatio_pinned_refuted :
  exists v r, in_range v /\ f_valid r = true /\ f_valid (f_mul (f_of_Z v) r) = true /\
              mulValRatio_pinned v r <> mulValRatio_spec v r.
Proof. exists MAX, f_one. repeat split; try (vm_compute; congruence). Qed.
Example mulValRatio_examples :
  mulValRatio MAX f_one = MAX /\ mulValRatio (2^62) (f_of_Z 2) = MAX /\ mulValRatio MIN f_one = MIN /\
  mulValRatio 7 (f_div f_one (f_of_Z 2)) = 3 /\ mulValRatio (-7) (f_div f_one (f_of_Z 2)) = -3 /\
  mulValRatio_pinned MAX f_one = MIN /\ mulValRatio_pinned (2^62) (f_of_Z 2) = MIN /\
  f_valid (f_mul (f_of_Z 7) (f_div f_one (f_of_Z 2))) = true.
Proof. vm_compute. repeat split. Qed.

(* MultiplyBy component-wise *)
From Coq Require Import List. Import ListNotations.
From YK Require Import Base.ResLemmas Base.ResLaws.
Theorem MultiplyBy_get_partial b ratio k :
  (forall x, get (oget b) k = Some x -> f_valid (f_mul (f_of_Z x) ratio) = true) ->
  get (MultiplyBy b ratio) k = mulBy_at ratio (get (oget b) k).
Proof. intros H. rewrite MultiplyBy_get. unfold mulBy_at. destruct (get (oget b) k) as [x|]; [|reflexivity].
  destruct (f_is_zero ratio); [reflexivity|]. rewrite mulValRatio_clamp_partial; [reflexivity|]. apply H. reflexivity. Qed.
