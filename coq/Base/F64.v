(* IEEE-754 binary64 as used by Go's float64, on top of Coq.Floats.SpecFloat (pure Gallina,
   computes under vm_compute, no axioms). Round to nearest even; no fused multiply-add. *)
From Coq Require Import ZArith Bool Floats.SpecFloat.
Open Scope Z_scope.

Definition prec := 53.
Definition emax := 1024.
Definition f64 := spec_float.

Definition f_of_Z (z : Z) : f64 := binary_normalize prec emax z 0 false.   (* float64(int64) *)
Definition f_zero : f64 := S754_zero false.
Definition f_one : f64 := f_of_Z 1.
Definition f_mul (x y : f64) : f64 := SFmul prec emax x y.
Definition f_div (x y : f64) : f64 := SFdiv prec emax x y.
Definition f_add (x y : f64) : f64 := SFadd prec emax x y.
Definition f_sub (x y : f64) : f64 := SFsub prec emax x y.
Definition f_ltb (x y : f64) : bool := SFltb x y.
Definition f_leb (x y : f64) : bool := SFleb x y.
Definition f_eqb (x y : f64) : bool := SFeqb x y.
Definition f_gtb (x y : f64) : bool := SFltb y x.
Definition f_geb (x y : f64) : bool := SFleb y x.
Definition f_is_nan (x : f64) : bool := match x with S754_nan => true | _ => false end.
Definition f_is_zero (x : f64) : bool := match x with S754_zero _ => true | _ => false end.

(* build a float from its raw parts as the harness sends them: sign, mantissa, exponent with
   value = (-1)^s * m * 2^e ; m = 0 encodes zero; kind 1 = +-inf, 2 = nan *)
Definition f_make (kind : Z) (s : bool) (m : Z) (e : Z) : f64 :=
  if kind =? 1 then S754_infinity s else if kind =? 2 then S754_nan else
  match m with
  | Z0 => S754_zero s
  | Zpos p => binary_normalize prec emax (if s then Zneg p else Zpos p) e false
  | Zneg p => binary_normalize prec emax (Zneg p) e false
  end.

(* int64(f) for a finite f: truncation toward zero as an unbounded integer
   (the caller applies the platform rule for out-of-range values) *)
Definition f_trunc (x : f64) : Z :=
  match x with
  | S754_finite s m e =>
      let v := if 0 <=? e then Zpos m * 2 ^ e else Z.quot (Zpos m) (2 ^ (- e)) in
      if s then - v else v
  | _ => 0
  end.

(* amd64 CVTTSD2SQ: out of range, infinity and NaN give 0x8000000000000000 *)
Definition f_to_int64 (x : f64) : Z :=
  match x with
  | S754_finite _ _ _ =>
      let v := f_trunc x in
      if (v <? - 2^63) || (2^63 - 1 <? v) then - 2^63 else v
  | S754_zero _ => 0
  | _ => - 2^63
  end.

(* a total order key for finite floats and infinities (used to sort shares) *)
Definition f_cmp (x y : f64) : comparison :=
  match SFcompare x y with Some c => c | None => Eq end.
