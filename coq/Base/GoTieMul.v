(* Tie theorems (C18): MultiplyTo, Multiply, MultiplyBy. *)
From Coq Require Import List ZArith NArith Bool Lia ZifyBool ZifyN ZifyNat Floats.SpecFloat.
From YK Require Import Base.Int64 Base.F64 Base.Res Base.ResMore Base.ResSpec Base.ResLemmas
  Generated.GoPrelude Generated.GoResources Base.GoTieLib Base.GoTieCalc Base.GoTieRep.
Import ListNotations.
Open Scope Z_scope.

Theorem gotie_MultiplyTo o ratio : owf o ->
  GoResources.MultiplyTo (toR o) ratio = GOk (toR (ResMore.MultiplyTo o ratio)).
Proof.
  intros H. destruct o as [l|]; [|reflexivity].
  unfold GoResources.MultiplyTo, toR, ResMore.MultiplyTo; cbn [option_map is_nil negb deref gbind mkR Resource_Resources].
  rewrite (loop_R (fun (m : res) (kv : tid * Z) => set (fst kv) (Res.mulValRatio (snd kv) ratio) m)).
  2:{ intros [m] [k v]; unfold onR, mkR; cbn. rewrite mset_set, gotie_mulValRatio. reflexivity. }
  cbn [gbind]. pose proof (fold_set_inplace (fun _ v => Res.mulValRatio v ratio) [] l H) as E.
  cbn [app] in E. rewrite E. reflexivity.
Qed.

(* ================================================================ Multiply / MultiplyBy *)
Theorem gotie_Multiply b ratio : owf b ->
  GoResources.Multiply (toR b) ratio = GOk (Some (mkR (Res.Multiply b ratio))).
Proof.
  intros H. unfold GoResources.Multiply, Res.Multiply. cbv zeta.
  change GoResources.NewResource with (Some (mkR [])).
  destruct b as [b|]; [|reflexivity].
  cbn [toR option_map is_nil orb]. destruct (ratio =? 0); [reflexivity|].
  cbn [deref gbind mkR Resource_Resources].
  rewrite (loop_R (fun (m : res) (kv : tid * Z) => set (fst kv) (Int64.mulVal (snd kv) ratio) m)).
  2:{ intros [m] [k v]; unfold onR, mkR; cbn. rewrite gotie_mulVal. cbn. now rewrite mset_set. }
  cbn [gbind]. pose proof (fold_set_map (fun _ v => Int64.mulVal v ratio) b H) as E. cbn beta in E. now rewrite E.
Qed.

Theorem gotie_MultiplyBy b ratio : owf b ->
  GoResources.MultiplyBy (toR b) ratio = GOk (Some (mkR (Res.MultiplyBy b ratio))).
Proof.
  intros H. unfold GoResources.MultiplyBy, Res.MultiplyBy. cbv zeta.
  change GoResources.NewResource with (Some (mkR [])). rewrite f_eqb_zero.
  destruct b as [b|]; [|reflexivity].
  cbn [toR option_map is_nil orb]. destruct (f_is_zero ratio); [reflexivity|].
  cbn [deref gbind mkR Resource_Resources].
  rewrite (loop_R (fun (m : res) (kv : tid * Z) => set (fst kv) (Res.mulValRatio (snd kv) ratio) m)).
  2:{ intros [m] [k v]; unfold onR, mkR; cbn. now rewrite gotie_mulValRatio, mset_set. }
  cbn [gbind]. pose proof (fold_set_map (fun _ v => Res.mulValRatio v ratio) b H) as E. cbn beta in E. now rewrite E.
Qed.
