(* Tie theorems (C18; used by C01 C05): IsZero, HasNegativeValue, IsEmpty, StrictlyGreaterThanZero,
   StrictlyGreaterThanOrEquals, StrictlyGreaterThan. *)
From Coq Require Import List ZArith NArith Bool Lia ZifyBool ZifyN ZifyNat Floats.SpecFloat.
From YK Require Import Base.Int64 Base.F64 Base.Res Base.ResMore Base.ResSpec Base.ResLemmas
  Generated.GoPrelude Generated.GoResources Base.GoTieLib Base.GoTieRep.
Import ListNotations.
Open Scope Z_scope.

(* ================================================================ simple predicates *)
Theorem gotie_IsZero o : GoResources.IsZero (toR o) = GOk (Res.IsZero o).
Proof.
  destruct o as [l|]; [|reflexivity].
  unfold GoResources.IsZero, Res.IsZero; cbn [toR option_map is_nil deref gbind mkR Resource_Resources].
  rewrite (go_range_all (fun kv : tid * Z => snd kv =? 0) false).
  2:{ intros [k v] u. cbn. destruct (v =? 0); reflexivity. }
  destruct (forallb (fun kv : tid * Z => snd kv =? 0) l); reflexivity.
Qed.

Theorem gotie_HasNegativeValue o : GoResources.HasNegativeValue (toR o) = GOk (Res.HasNegativeValue o).
Proof.
  destruct o as [l|]; [|reflexivity].
  unfold GoResources.HasNegativeValue, Res.HasNegativeValue; cbn [toR option_map is_nil deref gbind mkR Resource_Resources].
  rewrite (go_range_first (fun kv : tid * Z => snd kv <? 0) true).
  2:{ intros [k v] u. reflexivity. }
  destruct (existsb (fun kv : tid * Z => snd kv <? 0) l); reflexivity.
Qed.

Theorem gotie_IsEmpty o : GoResources.IsEmpty (toR o) = GOk (Res.IsEmpty o).
Proof. destruct o as [[|e l]|]; reflexivity. Qed.

Theorem gotie_StrictlyGreaterThanZero o :
  GoResources.StrictlyGreaterThanZero (toR o) = GOk (Res.StrictlyGreaterThanZero o).
Proof.
  destruct o as [l|]; [|reflexivity].
  unfold GoResources.StrictlyGreaterThanZero, Res.StrictlyGreaterThanZero;
    cbn [toR option_map is_nil deref gbind mkR Resource_Resources]. cbv zeta.
  rewrite (go_range_flag (fun kv : tid * Z => negb (snd kv <? 0)) (fun kv : tid * Z => 0 <? snd kv)).
  2:{ intros [k v] s. cbn. destruct (v <? 0); reflexivity. }
  destruct (forallb (fun kv : tid * Z => negb (snd kv <? 0)) l); reflexivity.
Qed.

Theorem gotie_StrictlyGreaterThanOrEquals l s :
  GoResources.StrictlyGreaterThanOrEquals (toR l) (toR s) = GOk (Res.StrictlyGreaterThanOrEquals l s).
Proof.
  unfold GoResources.StrictlyGreaterThanOrEquals, Res.StrictlyGreaterThanOrEquals. cbv zeta.
  rewrite !nilZero. cbn [deref gbind mkR Resource_Resources].
  rewrite (go_range_m_pure (fun (kv : tid * Z) (_ : unit) =>
     if negb (snd kv <? getz (oget s) (fst kv)) then LNext tt else LReturn false)).
  2:{ intros [k v] u. cbn. rewrite mget0_getz. destruct (v <? getz (oget s) k); reflexivity. }
  cbn [gbind]. rewrite (go_range_all _ false (oget l) _ (fun e u => eq_refl)).
  destruct (forallb (fun kv : tid * Z => negb (snd kv <? getz (oget s) (fst kv))) (oget l)); [|reflexivity].
  rewrite (go_range_all (fun kv : tid * Z => negb (getz (oget l) (fst kv) <? snd kv)) false).
  2:{ intros [k v] u. cbn. rewrite mget0_getz. destruct (getz (oget l) k <? v); reflexivity. }
  destruct (forallb (fun kv : tid * Z => negb (getz (oget l) (fst kv) <? snd kv)) (oget s)); reflexivity.
Qed.

Theorem gotie_StrictlyGreaterThan l s :
  GoResources.StrictlyGreaterThan (toR l) (toR s) = GOk (Res.StrictlyGreaterThan l s).
Proof.
  unfold GoResources.StrictlyGreaterThan, Res.StrictlyGreaterThan. cbv zeta.
  rewrite !nilZero. cbn [deref gbind mkR Resource_Resources].
  rewrite (go_range_m_pure (fun (kv : tid * Z) (ne : bool) =>
     if negb (snd kv <? getz (oget s) (fst kv))
     then LNext (if negb (getz (oget s) (fst kv) =? snd kv) then true else ne) else LReturn false)).
  2:{ intros [k v] ne. cbn. rewrite !mget0_getz. destruct (v <? getz (oget s) k); reflexivity. }
  cbn [gbind].
  rewrite (go_range_flag _ (fun kv : tid * Z => negb (getz (oget s) (fst kv) =? snd kv)) (oget l) _ false (fun e s => eq_refl)).
  destruct (forallb (fun kv : tid * Z => negb (snd kv <? getz (oget s) (fst kv))) (oget l)); [|reflexivity].
  cbn [orb andb].
  rewrite (go_range_flag (fun kv : tid * Z => negb (getz (oget l) (fst kv) <? snd kv))
                         (fun kv : tid * Z => negb (getz (oget l) (fst kv) =? snd kv))).
  2:{ intros [k v] ne. cbn. rewrite !mget0_getz. destruct (getz (oget l) k <? v); reflexivity. }
  destruct (forallb (fun kv : tid * Z => negb (getz (oget l) (fst kv) <? snd kv)) (oget s)); reflexivity.
Qed.
