(* Tie theorems (C18; used by C01 C02 C03 C05 through the operations their functions call):
   AddTo, SubFrom, Add, Sub, SubOnlyExisting, AddOnlyExisting (all of them go through addVal / subVal). *)
From Coq Require Import List ZArith NArith Bool Lia ZifyBool ZifyN ZifyNat Floats.SpecFloat.
From YK Require Import Base.Int64 Base.F64 Base.Res Base.ResMore Base.ResSpec Base.ResLemmas
  Generated.GoPrelude Generated.GoResources Base.GoTieLib Base.GoTieRep Base.GoTieClone.
Import ListNotations.
Open Scope Z_scope.

(* ================================================================ AddTo / SubFrom *)
Theorem gotie_AddTo l r : GoResources.AddTo (toR l) (toR r) = GOk (toR (Res.AddTo l r)).
Proof.
  destruct l as [l|], r as [r|]; try reflexivity.
  unfold GoResources.AddTo, toR, Res.AddTo, addTo; cbn [option_map is_nil negb deref gbind mkR Resource_Resources].
  loop_R (fun (out : res) (kv : tid * Z) => set (fst kv) (Int64.addVal (getz out (fst kv)) (snd kv)) out).
  reflexivity.
Qed.
Theorem gotie_SubFrom l r : GoResources.SubFrom (toR l) (toR r) = GOk (toR (Res.SubFrom l r)).
Proof.
  destruct l as [l|], r as [r|]; try reflexivity.
  unfold GoResources.SubFrom, toR, Res.SubFrom, subFrom; cbn [option_map is_nil negb deref gbind mkR Resource_Resources].
  loop_R (fun (out : res) (kv : tid * Z) => set (fst kv) (Int64.subVal (getz out (fst kv)) (snd kv)) out).
  reflexivity.
Qed.

(* ================================================================ Add / Sub / OnlyExisting *)
Theorem gotie_Add l r : owf l -> GoResources.Add (toR l) (toR r) = GOk (Some (mkR (Res.Add l r))).
Proof.
  intros H. unfold GoResources.Add.
  assert (E : (if is_nil (toR l) then GoResources.Zero else toR l) = Some (mkR (oget l))) by (destruct l; reflexivity).
  cbv zeta. rewrite E.
  assert (Hw : wf (oget l)) by (destruct l; [exact H|constructor]).
  rewrite (clone_ok _ Hw). cbn [gbind].
  destruct r as [r|]; cbn [toR option_map is_nil deref gbind mkR Resource_Resources Res.Add]; [|reflexivity].
  unfold addTo.
  loop_R (fun (out : res) (kv : tid * Z) => set (fst kv) (Int64.addVal (getz out (fst kv)) (snd kv)) out).
  reflexivity.
Qed.
Theorem gotie_Sub l r : owf l -> GoResources.Sub (toR l) (toR r) = GOk (Some (mkR (Res.Sub l r))).
Proof.
  intros H. unfold GoResources.Sub.
  assert (E : (if is_nil (toR l) then GoResources.Zero else toR l) = Some (mkR (oget l))) by (destruct l; reflexivity).
  cbv zeta. rewrite E.
  assert (Hw : wf (oget l)) by (destruct l; [exact H|constructor]).
  rewrite (clone_ok _ Hw). cbn [gbind].
  destruct r as [r|]; cbn [toR option_map is_nil deref gbind mkR Resource_Resources Res.Sub]; [|reflexivity].
  unfold subFrom.
  loop_R (fun (out : res) (kv : tid * Z) => set (fst kv) (Int64.subVal (getz out (fst kv)) (snd kv)) out).
  reflexivity.
Qed.

Lemma map_get_self (f : Z -> Z -> Z) (g : tid -> Z) (b : res) : wf b ->
  map (fun kv => (fst kv, f (getz b (fst kv)) (g (fst kv)))) b = map (fun kv => (fst kv, f (snd kv) (g (fst kv)))) b.
Proof.
  intros H. apply map_ext_in. intros [k v] Hin. cbn. unfold getz. now rewrite (in_get b k v H Hin).
Qed.
Theorem gotie_SubOnlyExisting b d : owf b ->
  GoResources.SubOnlyExisting (toR b) (toR d) = GOk (toR (Res.SubOnlyExisting b d)).
Proof.
  intros H. unfold GoResources.SubOnlyExisting.
  destruct b as [b|]; [|reflexivity].
  destruct d as [d|]; cbn [toR option_map is_nil orb mkR].
  2:{ rewrite (clone_ok b H). reflexivity. }
  change GoResources.NewResource with (Some (mkR [])). cbv zeta. cbn [deref gbind Resource_Resources].
  change (Resource_Resources (mkR b)) with b.
  rewrite (loop_R (fun (m : res) (kv : tid * Z) => set (fst kv) (Int64.subVal (getz b (fst kv)) (getz d (fst kv))) m)).
  2:{ intros [m] [k v]; unfold onR, mkR; cbn. rewrite mset_set, !mget0_getz. reflexivity. }
  cbn [gbind Res.SubOnlyExisting].
  pose proof (fold_set_map (fun k _ => Int64.subVal (getz b k) (getz d k)) b H) as E. cbn beta in E. rewrite E.
  now rewrite (map_get_self Int64.subVal (getz d) b H).
Qed.
Theorem gotie_AddOnlyExisting b d : owf b ->
  GoResources.AddOnlyExisting (toR b) (toR d) = GOk (toR (Res.AddOnlyExisting b d)).
Proof.
  intros H. unfold GoResources.AddOnlyExisting.
  destruct b as [b|]; [|reflexivity].
  destruct d as [d|]; cbn [toR option_map is_nil orb mkR].
  2:{ rewrite (clone_ok b H). reflexivity. }
  change GoResources.NewResource with (Some (mkR [])). cbv zeta. cbn [deref gbind Resource_Resources].
  change (Resource_Resources (mkR b)) with b.
  rewrite (loop_R (fun (m : res) (kv : tid * Z) => set (fst kv) (Int64.addVal (getz b (fst kv)) (getz d (fst kv))) m)).
  2:{ intros [m] [k v]; unfold onR, mkR; cbn. rewrite mset_set, !mget0_getz. reflexivity. }
  cbn [gbind Res.AddOnlyExisting].
  pose proof (fold_set_map (fun k _ => Int64.addVal (getz b k) (getz d k)) b H) as E. cbn beta in E. rewrite E.
  now rewrite (map_get_self Int64.addVal (getz d) b H).
Qed.
