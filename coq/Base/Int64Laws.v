(* Laws of the int64 calculators of Base/Int64.v: each saturating calculator of resources.go
   (transcribed WITH Go's wrap-around arithmetic and the code's own overflow tests) equals the exact
   integer result clamped to the int64 range. *)
From Coq Require Import ZArith Lia Bool.
From YK Require Import Base.Int64.
Open Scope Z_scope.

Lemma in_rangeb_spec z : in_rangeb z = true <-> in_range z.
Proof. unfold in_rangeb, in_range. rewrite andb_true_iff, !Z.leb_le. tauto. Qed.

Lemma wrap64_range z : in_range (wrap64 z).
Proof. unfold wrap64, in_range, MIN, MAX. pose proof (Z.mod_pos_bound (z + 2^63) (2^64) ltac:(lia)). lia. Qed.
Lemma wrap64_id z : in_range z -> wrap64 z = z.
Proof. unfold wrap64, in_range, MIN, MAX. intros H. rewrite Z.mod_small; lia. Qed.
Lemma wrap64_eq z : exists k, wrap64 z = z - k * 2^64.
Proof. unfold wrap64. exists ((z + 2^63) / 2^64).
  pose proof (Z.div_mod (z + 2^63) (2^64) ltac:(lia)). lia. Qed.

Lemma clamp_in_range z : in_range (clamp z).
Proof. unfold clamp, in_range, MIN, MAX.
  destruct (Z.ltb_spec z (-2^63)); [lia|]. destruct (Z.ltb_spec (2^63-1) z); lia. Qed.
Lemma clamp_id z : in_range z -> clamp z = z.
Proof. unfold clamp, in_range, MIN, MAX. intros H.
  destruct (Z.ltb_spec z (-2^63)); [lia|]. destruct (Z.ltb_spec (2^63-1) z); lia. Qed.
Lemma clamp_cases z :
  (z < MIN /\ clamp z = MIN) \/ (MAX < z /\ clamp z = MAX) \/ (MIN <= z <= MAX /\ clamp z = z).
Proof. unfold clamp, MIN, MAX.
  destruct (Z.ltb_spec z (-2^63)); [lia|]. destruct (Z.ltb_spec (2^63-1) z); lia. Qed.
Lemma in_range_0 : in_range 0.
Proof. unfold in_range, MIN, MAX. lia. Qed.
Lemma in_range_MIN : in_range MIN. Proof. unfold in_range, MIN, MAX. lia. Qed.
Lemma in_range_MAX : in_range MAX. Proof. unfold in_range, MIN, MAX. lia. Qed.

(* ---- addVal ---- *)
Theorem addVal_clamp a b : in_range a -> in_range b -> addVal a b = clamp (a + b).
Proof.
  unfold addVal, clamp, in_range. intros Ha Hb.
  destruct (wrap64_eq (a+b)) as [k Hk].
  pose proof (wrap64_range (a+b)) as Hr. unfold in_range in Hr.
  remember (wrap64 (a+b)) as r eqn:Er. clear Er.
  unfold MIN, MAX in *.
  assert (k = 0 \/ k = 1 \/ k = -1) as Hk3 by lia.
  destruct Hk3 as [Hk0|[Hk0|Hk0]]; subst k;
  destruct (Z.ltb_spec r a), (Z.ltb_spec b 0), (Z.ltb_spec a 0),
           (Z.ltb_spec (a+b) (-2^63)), (Z.ltb_spec (2^63-1) (a+b)); cbn; try lia.
Qed.
Lemma addVal_in_range a b : in_range a -> in_range b -> in_range (addVal a b).
Proof. intros. rewrite addVal_clamp by assumption. apply clamp_in_range. Qed.
(* bridge used by every model above Res.v *)
Lemma addVal_exact a b : in_range a -> in_range b -> in_range (a + b) -> addVal a b = a + b.
Proof. intros. rewrite addVal_clamp by assumption. apply clamp_id. assumption. Qed.

(* ---- subVal (current code: subtracting MinInt64 is done in two steps) ---- *)
Theorem subVal_clamp a b : in_range a -> in_range b -> subVal a b = clamp (a - b).
Proof.
  intros Ha Hb. unfold subVal.
  destruct (Z.eqb_spec b MIN) as [->|Hne].
  - rewrite (addVal_clamp a MAX Ha in_range_MAX).
    rewrite addVal_clamp; [| apply clamp_in_range | unfold in_range, MIN, MAX; lia].
    pose proof (clamp_cases (a + MAX)) as H1.
    pose proof (clamp_cases (clamp (a + MAX) + 1)) as H2.
    pose proof (clamp_cases (a - MIN)) as H3.
    unfold in_range, MIN, MAX in *. lia.
  - assert (Hnb : neg64 b = - b).
    { unfold neg64. apply wrap64_id. unfold in_range, MIN, MAX in *. lia. }
    rewrite Hnb. rewrite addVal_clamp; [f_equal; lia | assumption |].
    unfold in_range, MIN, MAX in *. lia.
Qed.
Lemma subVal_in_range a b : in_range a -> in_range b -> in_range (subVal a b).
Proof. intros. rewrite subVal_clamp by assumption. apply clamp_in_range. Qed.
Lemma subVal_exact a b : in_range a -> in_range b -> in_range (a - b) -> subVal a b = a - b.
Proof. intros. rewrite subVal_clamp by assumption. apply clamp_id. assumption. Qed.

(* the pinned code  addVal(valA, -valB)  wraps for valB = MinInt64 *)
Theorem subVal_pinned_refuted :
  exists a b, in_range a /\ in_range b /\ subVal_pinned a b <> clamp (a - b).
Proof. exists 0, MIN. repeat split; try (vm_compute; congruence). Qed.
(* ... and is correct everywhere else *)
Theorem subVal_pinned_partial a b :
  in_range a -> in_range b -> b <> MIN -> subVal_pinned a b = clamp (a - b).
Proof.
  intros Ha Hb Hne. rewrite <- subVal_clamp by assumption. unfold subVal, subVal_pinned.
  destruct (Z.eqb_spec b MIN); [contradiction|reflexivity].
Qed.

(* ---- mulVal ---- *)
Lemma quot_decomp r b : b <> 0 ->
  exists q m, r = b*q + m /\ Z.quot r b = q /\ Z.abs m < Z.abs b /\ (0 <= m*r).
Proof. intros Hb. exists (Z.quot r b), (Z.rem r b). split; [apply Z.quot_rem'|]. split; [reflexivity|].
  split; [apply Z.rem_bound_abs; assumption|]. apply Z.rem_sign_mul; assumption. Qed.
Lemma quot_abs_le r b : b <> 0 -> Z.abs (Z.quot r b) <= Z.abs r.
Proof. intros Hb. rewrite <- Z.quot_abs by assumption.
  apply Z.quot_le_upper_bound; [lia|].
  assert (1 <= Z.abs b) by lia.
  assert (0 <= Z.abs r) by lia.
  replace (Z.abs r) with (1 * Z.abs r) at 1 by lia.
  apply Z.mul_le_mono_nonneg_r; lia. Qed.

(* key lemma: when the product overflows the guard of the code fires *)
Lemma overflow_detected a b P r k q m :
  in_range a -> in_range b -> b <> 0 -> P = a*b ->
  r = P - k * 2^64 -> in_range r -> k <> 0 ->
  r = b*q + m -> Z.abs m < Z.abs b -> Z.abs q <= Z.abs r ->
  negb (wrap64 q =? a) || ((a =? MIN) && (b =? -1)) = true.
Proof.
  intros Ha Hb Hb0 HP Hk Hr Hk0 Hdec Hm Hqle.
  destruct (Z.eqb_spec (wrap64 q) a) as [Heq|]; [|reflexivity]. cbn [negb orb].
  unfold in_range, MIN, MAX in *.
  destruct (Z_le_dec (-2^63) q) as [Hql|Hql]; [destruct (Z_le_dec q (2^63-1)) as [Hqh|Hqh]|].
  - exfalso. rewrite wrap64_id in Heq by (unfold in_range, MIN, MAX; lia). subst q.
    rewrite (Z.mul_comm b a), <- HP in Hdec. clear HP. lia.
  - assert (Hq63 : q = 2^63) by lia. assert (Hr63 : r = -2^63) by lia.
    subst q r.
    assert (Hb1 : b = -1).
    { assert (Z.abs b = 1).
      { assert (Z.abs (b * 2^63) <= 2^63 + Z.abs m) by lia.
        rewrite Z.abs_mul in H. change (Z.abs (2^63)) with (2^63) in H. lia. }
      destruct (Z_lt_dec b 0); [lia|]. exfalso. assert (b = 1) by lia. subst b. lia. }
    subst b. change (wrap64 (2^63)) with (-2^63) in Heq. subst a. reflexivity.
  - exfalso. lia.
Qed.

Theorem mulVal_clamp a b : in_range a -> in_range b -> mulVal a b = clamp (a * b).
Proof.
  intros Ha Hb. unfold mulVal. cbv zeta.
  destruct (Z.eqb_spec a 0) as [->|Ha0]; [reflexivity|].
  destruct (Z.eqb_spec b 0) as [->|Hb0]; [cbn; rewrite Z.mul_0_r; reflexivity|].
  cbn [orb].
  destruct (wrap64_eq (a*b)) as [k Hk].
  pose proof (wrap64_range (a*b)) as Hr.
  remember (wrap64 (a*b)) as r eqn:Er.
  destruct (quot_decomp r b Hb0) as (q & m & Hdec & Hq & Hm & Hs).
  pose proof (quot_abs_le r b Hb0) as Hqle. rewrite Hq in Hqle.
  unfold quot64. rewrite Hq.
  destruct (Z_le_dec MIN (a*b)) as [Hlo|Hlo]; [destruct (Z_le_dec (a*b) MAX) as [Hhi|Hhi]|].
  - assert (Hrid : r = a*b) by (rewrite Er; apply wrap64_id; split; assumption).
    assert (Hqa : q = a) by (rewrite <- Hq, Hrid; apply Z.quot_mul; assumption). rewrite Hqa.
    rewrite (wrap64_id a Ha), Z.eqb_refl. cbn [negb orb].
    assert (Hnm : (a =? MIN) && (b =? -1) = false).
    { destruct (Z.eqb_spec a MIN) as [E1|], (Z.eqb_spec b (-1)) as [E2|]; cbn; auto.
      exfalso. rewrite E1, E2 in Hhi. vm_compute in Hhi. apply Hhi. reflexivity. }
    rewrite Hnm. unfold clamp. rewrite Hrid.
    destruct (Z.ltb_spec (a*b) MIN); [lia|]. destruct (Z.ltb_spec MAX (a*b)); [lia|]. reflexivity.
  - assert (Hk0 : k <> 0).
    { intro; subst k. revert Hr Hhi. unfold in_range. rewrite Hk. lia. }
    rewrite (overflow_detected a b (a*b) r k q m); auto.
    unfold clamp.
    destruct (Z.ltb_spec (a*b) MIN); [lia|]. destruct (Z.ltb_spec MAX (a*b)); [|lia].
    destruct (Z.ltb_spec a 0), (Z.ltb_spec b 0); cbn; try reflexivity; exfalso.
    + assert (a * b <= 0) by (apply Z.mul_nonpos_nonneg; lia). revert Hhi. unfold MAX. lia.
    + assert (a * b <= 0) by (apply Z.mul_nonneg_nonpos; lia). revert Hhi. unfold MAX. lia.
  - assert (Hk0 : k <> 0).
    { intro; subst k. revert Hr Hlo. unfold in_range. rewrite Hk. lia. }
    rewrite (overflow_detected a b (a*b) r k q m); auto.
    unfold clamp.
    destruct (Z.ltb_spec (a*b) MIN); [|lia].
    destruct (Z.ltb_spec a 0), (Z.ltb_spec b 0); cbn; try reflexivity; exfalso.
    + assert (0 <= a * b) by (apply Z.mul_nonpos_nonpos; lia). revert Hlo. unfold MIN. lia.
    + assert (0 <= a * b) by (apply Z.mul_nonneg_nonneg; lia). revert Hlo. unfold MIN. lia.
Qed.
Lemma mulVal_in_range a b : in_range a -> in_range b -> in_range (mulVal a b).
Proof. intros. rewrite mulVal_clamp by assumption. apply clamp_in_range. Qed.
Lemma mulVal_exact a b : in_range a -> in_range b -> in_range (a * b) -> mulVal a b = a * b.
Proof. intros. rewrite mulVal_clamp by assumption. apply clamp_id. assumption. Qed.

(* the hypotheses are satisfiable at the extremes *)
Example addVal_extremes :
  addVal MAX 1 = MAX /\ addVal MIN (-1) = MIN /\ addVal MAX MIN = -1 /\ addVal MIN MIN = MIN /\ addVal MAX MAX = MAX.
Proof. vm_compute. repeat split. Qed.
Example subVal_extremes :
  subVal 0 MIN = MAX /\ subVal (-5) MIN = MAX - 4 /\ subVal (-1) MIN = MAX /\ subVal MIN MIN = 0 /\ subVal MIN 1 = MIN.
Proof. vm_compute. repeat split. Qed.
Example mulVal_extremes :
  mulVal MIN (-1) = MAX /\ mulVal MIN MIN = MAX /\ mulVal MAX MIN = MIN /\ mulVal 3037000500 3037000500 = MAX.
Proof. vm_compute. repeat split. Qed.
