(* Tie theorems (C18; used by C01 C02 C03): fitIn and FitIn / FitInMaxUndef / FitInActual. *)
From Coq Require Import List ZArith NArith Bool Lia ZifyBool ZifyN ZifyNat Floats.SpecFloat.
From YK Require Import Base.Int64 Base.F64 Base.Res Base.ResMore Base.ResSpec Base.ResLemmas
  Generated.GoPrelude Generated.GoResources Base.GoTieLib Base.GoTieRep.
Import ListNotations.
Open Scope Z_scope.

(* ================================================================ fitIn and its three wrappers *)
Theorem gotie_fitIn r s skipUndef actual :
  GoResources.fitIn (toR r) (toR s) skipUndef actual = GOk (Res.fitIn r s skipUndef actual).
Proof.
  unfold GoResources.fitIn. cbv zeta. rewrite nilZero.
  destruct s as [s|]; [|reflexivity].
  cbn [toR option_map is_nil deref gbind mkR Resource_Resources Res.fitIn].
  rewrite (go_range_m_pure (fun (kv : tid * Z) (_ : unit) =>
     if match get (oget r) (fst kv) with
        | None => if skipUndef then true else negb (0 <? snd kv)
        | Some lv => negb ((if actual then lv else zmax 0 lv) <? snd kv)
        end then LNext tt else LReturn false)).
  2:{ intros [k v] u. cbn. rewrite mget0_getz, mhas_has. unfold getz, has.
      destruct (get (oget r) k) as [lv|]; cbn.
      - rewrite andb_false_r. destruct actual; cbn.
        + destruct (lv <? v); reflexivity.
        + replace (Z.max 0 lv) with (zmax 0 lv) by (unfold zmax; destruct (Z.ltb_spec 0 lv); lia).
          destruct (zmax 0 lv <? v); reflexivity.
      - rewrite andb_true_r. destruct skipUndef; [reflexivity|].
        destruct actual; cbn; destruct (0 <? v); reflexivity. }
  cbn [gbind]. rewrite (go_range_all _ false s _ (fun e u => eq_refl)).
  match goal with |- context [forallb ?p s] => destruct (forallb p s) end; reflexivity.
Qed.

Theorem gotie_FitIn r s : GoResources.FitIn (toR r) (toR s) = GOk (Res.FitIn r s).
Proof. unfold GoResources.FitIn, Res.FitIn. now rewrite gotie_fitIn. Qed.
Theorem gotie_FitInMaxUndef r s : GoResources.FitInMaxUndef (toR r) (toR s) = GOk (Res.FitInMaxUndef r s).
Proof. unfold GoResources.FitInMaxUndef, Res.FitInMaxUndef. now rewrite gotie_fitIn. Qed.
Theorem gotie_FitInActual r s : GoResources.FitInActual (toR r) (toR s) = GOk (Res.FitInActual r s).
Proof. unfold GoResources.FitInActual, Res.FitInActual. now rewrite gotie_fitIn. Qed.
