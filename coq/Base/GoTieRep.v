(* Representation of *Resource for the tie theorems (C18 and every property whose functions handle resources):
   [mkR] / [toR] between Base/Res.v `ores` and the generated record, association-list lemmas, the generic loop lemma
   [loop_R], NewResource / Zero. No tie of a resource OPERATION is in this file. *)
From Coq Require Import List ZArith NArith Bool Lia ZifyBool ZifyN ZifyNat Floats.SpecFloat.
From YK Require Import Base.Int64 Base.F64 Base.Res Base.ResMore Base.ResSpec Base.ResLemmas
  Generated.GoPrelude Generated.GoResources Base.GoTieLib.
Import ListNotations.
Open Scope Z_scope.

(* ================================================================ representation *)
Definition mkR (r : res) : Resource := mk_Resource r.
Definition toR (o : ores) : option Resource := option_map mkR o.
Definition ofR (o : option Resource) : ores := option_map Resource_Resources o.
Lemma ofR_toR o : ofR (toR o) = o.
Proof. destruct o; reflexivity. Qed.
Lemma toR_ofR o : toR (ofR o) = o.
Proof. destruct o as [[r]|]; reflexivity. Qed.

Theorem gotie_NewResource : GoResources.NewResource = toR (Some []).
Proof. reflexivity. Qed.
Theorem gotie_Zero : GoResources.Zero = toR (Some []).
Proof. reflexivity. Qed.

(* ---- association list facts ---- *)
Lemma set_notin k v (m : res) : ~ In k (keys m) -> set k v m = m ++ [(k, v)].
Proof.
  induction m as [|[k' v'] t IH]; cbn; intros H; [reflexivity|].
  destruct (N.eqb_spec k k') as [->|Hn]; [exfalso; apply H; now left|].
  rewrite IH; [reflexivity|]. intros Hin; apply H; now right.
Qed.

Lemma keys_app (a b : res) : keys (a ++ b) = keys a ++ keys b.
Proof. unfold keys. apply map_app. Qed.
Lemma wf_app_mid (a t : res) k v v' : wf (a ++ (k, v) :: t) -> wf ((a ++ [(k, v')]) ++ t).
Proof. unfold wf. rewrite !keys_app. cbn. rewrite <- app_assoc. cbn. auto. Qed.
Lemma wf_app_notin (a t : res) k v : wf (a ++ (k, v) :: t) -> ~ In k (keys a).
Proof.
  unfold wf. rewrite keys_app. cbn. intros H Hin.
  apply NoDup_remove_2 in H. apply H. apply in_or_app. now left.
Qed.

(* copying a map entry by entry gives the same list when the keys are unique *)
Lemma fold_set_app (f : tid -> Z -> Z) (l acc : res) : wf (acc ++ l) ->
  fold_left (fun m kv => set (fst kv) (f (fst kv) (snd kv)) m) l acc =
  acc ++ map (fun kv => (fst kv, f (fst kv) (snd kv))) l.
Proof.
  revert acc. induction l as [|[k v] t IH]; intros acc H; cbn; [now rewrite app_nil_r|].
  rewrite (set_notin _ _ _ (wf_app_notin _ _ _ _ H)). rewrite IH.
  - now rewrite <- app_assoc.
  - exact (wf_app_mid _ _ _ _ _ H).
Qed.
Lemma fold_set_map (f : tid -> Z -> Z) (l : res) : wf l ->
  fold_left (fun m kv => set (fst kv) (f (fst kv) (snd kv)) m) l [] =
  map (fun kv => (fst kv, f (fst kv) (snd kv))) l.
Proof. intros H. now rewrite (fold_set_app f l [] H). Qed.
Lemma map_id_pair (l : res) : map (fun kv => (fst kv, snd kv)) l = l.
Proof. induction l as [|[k v] t IH]; cbn; [reflexivity|now rewrite IH]. Qed.

(* updating the entries of a map in place, one key at a time *)
Lemma set_mid k x v (pre t : res) : ~ In k (keys pre) -> set k x (pre ++ (k, v) :: t) = (pre ++ [(k, x)]) ++ t.
Proof.
  intros Hk. induction pre as [|[k' v'] p IHp]; cbn.
  - now rewrite N.eqb_refl.
  - destruct (N.eqb_spec k k') as [->|Hn]; [exfalso; apply Hk; now left|].
    rewrite IHp; [reflexivity|]. intros Hin; apply Hk; now right.
Qed.
Lemma fold_set_inplace (f : tid -> Z -> Z) (pre l : res) : wf (pre ++ l) ->
  fold_left (fun m kv => set (fst kv) (f (fst kv) (snd kv)) m) l (pre ++ l) =
  pre ++ map (fun kv => (fst kv, f (fst kv) (snd kv))) l.
Proof.
  revert pre. induction l as [|[k v] t IH]; intros pre H; cbn; [reflexivity|].
  rewrite (set_mid _ _ _ _ _ (wf_app_notin _ _ _ _ H)). rewrite (IH (pre ++ [(k, f k v)])).
  - now rewrite <- app_assoc.
  - exact (wf_app_mid _ _ _ _ _ H).
Qed.

(* ================================================================ loops over *Resource state *)
(* a loop whose state is a non-nil *Resource: [g] is the per-entry update of the map *)
Definition onR (g : res -> tid * Z -> res) (a : Resource) (e : tid * Z) : Resource :=
  mkR (g (Resource_Resources a) e).
Lemma loop_R (g : res -> tid * Z -> res) (f : option Resource -> tid * Z -> gres (option Resource)) l m :
  (forall a e, f (Some a) e = GOk (Some (onR g a e))) ->
  go_fold_m f l (Some (mkR m)) = GOk (Some (mkR (fold_left g l m))).
Proof.
  intros H. rewrite (go_fold_m_some (onR g) f l (mkR m) H).
  now rewrite (fold_left_map_state mkR (onR g) g).
Qed.
Ltac loop_R g := rewrite (loop_R g); [|intros [?m] [?k ?v]; unfold onR, mkR; cbn; rewrite ?mset_set, ?mdel_del, ?mget0_getz, ?mhas_has; reflexivity].

Lemma nilZero o : (if is_nil (toR o) then GoResources.Zero else toR o) = Some (mkR (oget o)).
Proof. destruct o; reflexivity. Qed.
