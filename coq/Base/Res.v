(* Executable model of pkg/common/resources/resources.go (sparse resource vectors).
   A *Resource that may be nil is [option res]; a resource is an association list with unique
   keys (resource type ids); "missing", "zero" and "nil" are kept distinct as in the Go code.
   Every function below is a transcription of the Go function of the same name; loops over a Go
   map become folds over the association list (the results do not depend on the order, which is
   proved in Base/ResLaws.v for the operations the properties use). *)
From Coq Require Import List ZArith NArith Bool Lia.
From YK Require Import Base.Int64 Base.F64.
Import ListNotations.
Open Scope Z_scope.

Definition tid := N.
Definition res := list (tid * Z).
Definition ores := option res.

Fixpoint get (r : res) (k : tid) : option Z :=
  match r with
  | [] => None
  | (k', v) :: t => if N.eqb k k' then Some v else get t k
  end.
Definition getz (r : res) (k : tid) : Z := match get r k with Some v => v | None => 0 end.
Definition has (r : res) (k : tid) : bool := match get r k with Some _ => true | None => false end.

(* r.Resources[k] = v *)
Fixpoint set (k : tid) (v : Z) (r : res) : res :=
  match r with
  | [] => [(k, v)]
  | (k', v') :: t => if N.eqb k k' then (k, v) :: t else (k', v') :: set k v t
  end.
Fixpoint del (k : tid) (r : res) : res :=
  match r with
  | [] => []
  | (k', v') :: t => if N.eqb k k' then t else (k', v') :: del k t
  end.

Definition keys (r : res) : list tid := map fst r.
Definition oget (o : ores) : res := match o with Some r => r | None => [] end.   (* nil -> Zero *)
Definition is_nil (o : ores) : bool := match o with None => true | _ => false end.

(* canonical form: sorted by key *)
Fixpoint rinsert (k : tid) (v : Z) (r : res) : res :=
  match r with
  | [] => [(k, v)]
  | (k', v') :: t => if N.ltb k k' then (k, v) :: r else if N.eqb k k' then (k, v) :: t else (k', v') :: rinsert k v t
  end.
Definition rnorm (r : res) : res := fold_right (fun kv acc => rinsert (fst kv) (snd kv) acc) [] r.
Fixpoint res_eq_list (a b : res) : bool :=
  match a, b with
  | [], [] => true
  | (k1, v1) :: t1, (k2, v2) :: t2 => N.eqb k1 k2 && Z.eqb v1 v2 && res_eq_list t1 t2
  | _, _ => false
  end.
(* equality as maps (same key set, same values) *)
Definition res_eqb (a b : res) : bool := res_eq_list (rnorm a) (rnorm b).
Definition ores_eqb (a b : ores) : bool :=
  match a, b with
  | None, None => true
  | Some x, Some y => res_eqb x y
  | _, _ => false
  end.
(* equality as functions tid -> Z (zero entries invisible) *)
Definition res_eqz (a b : res) : bool :=
  forallb (fun k => Z.eqb (getz a k) (getz b k)) (keys a ++ keys b).

Definition Clone (o : ores) : ores := o.

Definition Prune (r : res) : res := filter (fun kv => negb (Z.eqb (snd kv) 0)) r.

(* Add / Sub: out := left.Clone(); for k,v in right: out[k] = op(out[k], v) *)
Definition addTo (l r : res) : res := fold_left (fun out kv => set (fst kv) (addVal (getz out (fst kv)) (snd kv)) out) r l.
Definition subFrom (l r : res) : res := fold_left (fun out kv => set (fst kv) (subVal (getz out (fst kv)) (snd kv)) out) r l.

Definition Add (l r : ores) : res :=
  match r with None => oget l | Some rr => addTo (oget l) rr end.
Definition Sub (l r : ores) : res :=
  match r with None => oget l | Some rr => subFrom (oget l) rr end.

(* receiver methods AddTo / SubFrom: nil receiver unchanged *)
Definition AddTo (l : ores) (r : ores) : ores :=
  match l, r with Some ll, Some rr => Some (addTo ll rr) | _, _ => l end.
Definition SubFrom (l : ores) (r : ores) : ores :=
  match l, r with Some ll, Some rr => Some (subFrom ll rr) | _, _ => l end.

Definition SubOnlyExisting (base delta : ores) : ores :=
  match base, delta with
  | Some b, Some d => Some (map (fun kv => (fst kv, subVal (snd kv) (getz d (fst kv)))) b)
  | _, _ => base
  end.
Definition AddOnlyExisting (base delta : ores) : ores :=
  match base, delta with
  | Some b, Some d => Some (map (fun kv => (fst kv, addVal (snd kv) (getz d (fst kv)))) b)
  | _, _ => base
  end.

(* subNonNegative: result and "a value was negative" *)
Definition subNonNegative (l r : ores) : res * bool :=
  match r with
  | None => (oget l, false)
  | Some rr =>
      fold_left (fun acc kv =>
                   let '(out, err) := acc in
                   let v := subVal (getz out (fst kv)) (snd kv) in
                   if v <? 0 then (set (fst kv) 0 out, true) else (set (fst kv) v out, err))
                rr (oget l, false)
  end.
Definition SubEliminateNegative (l r : ores) : res := fst (subNonNegative l r).
Definition SubErrorNegative (l r : ores) : res * bool := subNonNegative l r.

(* fitIn(smaller, skipUndef, actual) on receiver r *)
Definition fitIn (r : ores) (smaller : ores) (skipUndef actual : bool) : bool :=
  match smaller with
  | None => true
  | Some s =>
      forallb (fun kv =>
                 match get (oget r) (fst kv) with
                 | None => if skipUndef then true else negb (0 <? snd kv)   (* larger = max(0,0) or 0 *)
                 | Some lv => let lv := if actual then lv else zmax 0 lv in negb (lv <? snd kv)
                 end) s
  end.
Definition FitIn r s := fitIn r s false false.
Definition FitInMaxUndef r s := fitIn r s true false.
Definition FitInActual r s := fitIn r s true true.

Definition Equals (l r : ores) : bool :=
  match l, r with
  | None, None => true
  | Some a, Some b =>
      forallb (fun kv => Z.eqb (getz b (fst kv)) (snd kv)) a &&
      forallb (fun kv => Z.eqb (getz a (fst kv)) (snd kv)) b
  | _, _ => false
  end.
Definition DeepEquals (l r : ores) : bool :=
  match l, r with
  | None, None => true
  | Some a, Some b =>
      Nat.eqb (length a) (length b) &&
      forallb (fun kv => match get b (fst kv) with Some v => Z.eqb v (snd kv) | None => false end) a
  | _, _ => false
  end.
Definition IsZero (o : ores) : bool :=
  match o with None => true | Some r => forallb (fun kv => Z.eqb (snd kv) 0) r end.
Definition IsEmpty (o : ores) : bool := match o with None => true | Some [] => true | _ => false end.
Definition EqualsOrEmpty (l r : ores) : bool := (IsZero l && IsZero r) || Equals l r.
Definition MatchAny (r other : ores) : bool :=
  match r, other with
  | Some a, Some b => existsb (fun kv => has b (fst kv)) a
  | _, _ => false
  end.
Definition HasNegativeValue (o : ores) : bool :=
  match o with None => false | Some r => existsb (fun kv => snd kv <? 0) r end.

Definition Multiply (base : ores) (ratio : Z) : res :=
  match base with
  | None => []
  | Some b => if ratio =? 0 then [] else map (fun kv => (fst kv, mulVal (snd kv) ratio)) b
  end.

(* mulValRatio(value, ratio) (after fix bee34b8: result >= MaxInt64 saturates) *)
Definition f_two63 : f64 := f_of_Z (2^63).
Definition f_mtwo63 : f64 := f_of_Z (- 2^63).
Definition mulValRatio (v : Z) (ratio : f64) : Z :=
  if (v =? 0) || f_is_zero ratio then 0 else
  let r := f_mul (f_of_Z v) ratio in
  if f_geb r f_two63 then MAX else
  if f_ltb r f_mtwo63 then MIN else f_to_int64 r.
Definition mulValRatio_pinned (v : Z) (ratio : f64) : Z :=
  if (v =? 0) || f_is_zero ratio then 0 else
  let r := f_mul (f_of_Z v) ratio in
  if f_gtb r f_two63 then MAX else
  if f_ltb r f_mtwo63 then MIN else f_to_int64 r.
Definition MultiplyBy (base : ores) (ratio : f64) : res :=
  match base with
  | None => []
  | Some b => if f_is_zero ratio then [] else map (fun kv => (fst kv, mulValRatio (snd kv) ratio)) b
  end.

Definition StrictlyGreaterThan (larger smaller : ores) : bool :=
  let l := oget larger in let s := oget smaller in
  forallb (fun kv => negb (snd kv <? getz s (fst kv))) l &&
  forallb (fun kv => negb (getz l (fst kv) <? snd kv)) s &&
  (existsb (fun kv => negb (Z.eqb (getz s (fst kv)) (snd kv))) l ||
   existsb (fun kv => negb (Z.eqb (getz l (fst kv)) (snd kv))) s).
Definition StrictlyGreaterThanOrEquals (larger smaller : ores) : bool :=
  let l := oget larger in let s := oget smaller in
  forallb (fun kv => negb (snd kv <? getz s (fst kv))) l &&
  forallb (fun kv => negb (getz l (fst kv) <? snd kv)) s.

Definition internalStrictlyOnlyExisting (r smaller : ores) (doEqualsCheck : bool) : bool :=
  let l := oget r in let s := oget smaller in
  let sEmpty := match s with [] => true | _ => false end in
  let lEmpty := match l with [] => true | _ => false end in
  (* early "return false" when a common type has val > v *)
  if existsb (fun kv => match get s (fst kv) with Some val => snd kv <? val | None => false end) l then false else
  let allPos := forallb (fun kv => negb (sEmpty && (snd kv <=? 0))) l in
  let common := existsb (fun kv => has s (fst kv)) l in
  let notEqual := existsb (fun kv => match get s (fst kv) with Some val => negb (Z.eqb val (snd kv)) | None => false end) l in
  if sEmpty && negb lEmpty then allPos
  else if common then (if doEqualsCheck then true else notEqual)
  else negb lEmpty && negb sEmpty.
Definition StrictlyGreaterThanOnlyExisting r s := internalStrictlyOnlyExisting r s false.
Definition StrictlyGreaterThanOrEqualsOnlyExisting r s := internalStrictlyOnlyExisting r s true.

Definition StrictlyGreaterThanZero (o : ores) : bool :=
  match o with
  | None => false
  | Some r => forallb (fun kv => negb (snd kv <? 0)) r && existsb (fun kv => 0 <? snd kv) r
  end.

Definition cwMin (l r : res) : res :=
  let out := fold_left (fun out kv => set (fst kv) (match get r (fst kv) with Some v => zmin (snd kv) v | None => snd kv end) out) l [] in
  fold_left (fun out kv => set (fst kv) (match get l (fst kv) with Some v => zmin (snd kv) v | None => snd kv end) out) r out.
Definition ComponentWiseMin (l r : ores) : ores :=
  match l, r with
  | None, None => None
  | None, Some _ => r
  | Some _, None => l
  | Some a, Some b => Some (cwMin a b)
  end.
Definition ComponentWiseMinOnlyExisting (l r : ores) : ores :=
  match l, r with
  | None, _ => None
  | Some _, None => l
  | Some a, Some b => Some (map (fun kv => (fst kv, match get b (fst kv) with Some v => zmin (snd kv) v | None => snd kv end)) a)
  end.
Definition ComponentWiseMax (l r : ores) : res :=
  match l, r with
  | Some a, Some b =>
      let out := fold_left (fun out kv => set (fst kv) (zmax (snd kv) (getz b (fst kv))) out) a [] in
      fold_left (fun out kv => set (fst kv) (zmax (snd kv) (getz a (fst kv))) out) b out
  | _, _ => []
  end.
Definition MergeIfNotPresent (l r : ores) : ores :=
  match l, r with
  | None, None => None
  | None, Some _ => r
  | Some _, None => l
  | Some a, Some b => Some (fold_left (fun out kv => if has a (fst kv) then out else set (fst kv) (snd kv) out) b a)
  end.

(* ---- float based helpers ---- *)
Definition f_of_bool_count (n : nat) : f64 := f_of_Z (Z.of_nat n).

Definition FitInScore (r fit : ores) : f64 :=
  match r, fit with
  | _, None => f_zero
  | None, Some f => f_of_Z (Z.of_nat (length f))
  | Some rr, Some f =>
      fold_left (fun score kv =>
                   let fitVal := snd kv in
                   if fitVal <=? 0 then score else
                   let resVal := getz rr (fst kv) in
                   if resVal <=? 0 then f_add score f_one else
                   if resVal <? fitVal then f_add score (f_div (f_of_Z (wrap64 (fitVal - resVal))) (f_of_Z fitVal))
                   else score) f f_zero
  end.

(* getShareFairForDenominator *)
Definition shareFairDenom (k : tid) (allocated : Z) (den : ores) : f64 * bool :=
  match den with
  | None => (f_zero, false)
  | Some d =>
      match get d k with
      | Some dv => if dv <=? 0 then (if allocated <=? 0 then (f_zero, true) else (f_one, true))
                   else (f_div (f_of_Z allocated) (f_of_Z dv), true)
      | None => (f_zero, false)
      end
  end.
Definition getFairShare (allocated guaranteed fair : ores) : f64 :=
  match allocated with
  | None => f_zero
  | Some a =>
      fold_left (fun mx kv =>
                   if snd kv <? 0 then mx else
                   let '(s, found) := shareFairDenom (fst kv) (snd kv) guaranteed in
                   let '(s, found) := if found then (s, found) else shareFairDenom (fst kv) (snd kv) fair in
                   if found && f_gtb s mx then s else mx) a f_zero
  end.
Definition cmp_int (c : comparison) : Z := match c with Gt => 1 | Lt => -1 | Eq => 0 end.
Definition CompUsageRatioSeparately (la lg lf ra rg rf : ores) : Z :=
  let l := getFairShare la lg lf in let r := getFairShare ra rg rf in
  if f_gtb l r then 1 else if f_ltb l r then -1 else 0.

(* GetShares: one share per entry of res (zero entries give share 0), sorted increasing *)
Fixpoint f_insert (x : f64) (l : list f64) : list f64 :=
  match l with
  | [] => [x]
  | y :: t => if f_ltb y x then y :: f_insert x t else x :: l
  end.
Definition f_sort (l : list f64) : list f64 := fold_right f_insert [] l.
Definition GetShares (r total : ores) : list f64 :=
  match r with
  | None => []
  | Some rr =>
      f_sort (map (fun kv =>
                     let v := snd kv in
                     if v =? 0 then f_zero else
                     let t := match total with None => 0 | Some tot => getz tot (fst kv) end in
                     if t =? 0 then f_of_Z v else f_div (f_of_Z v) (f_of_Z t)) rr)
  end.
(* compareShares walks both lists from the largest share down *)
Fixpoint leftoverSign (l : list f64) : Z :=
  match l with
  | [] => 0
  | x :: t => if f_gtb x f_zero then 1 else if f_ltb x f_zero then -1 else leftoverSign t
  end.
Fixpoint cmpSharesRev (l r : list f64) {struct l} : Z :=
  match l, r with
  | x :: t1, y :: t2 => if f_gtb x y then 1 else if f_ltb x y then -1 else cmpSharesRev t1 t2
  | [], [] => 0
  | _ :: _, [] => leftoverSign l
  | [], _ :: _ => - leftoverSign r
  end.
Definition compareShares (l r : list f64) : Z := cmpSharesRev (rev l) (rev r).
Definition CompUsageRatio (l r total : ores) : Z := compareShares (GetShares l total) (GetShares r total).
