(* Executable model of pkg/common/resources/quantity.go: parse(value, milli).
   Strings are lists of bytes (N). Definitions only; laws are in Base/QuantityLaws.v.

     value = strings.TrimSpace(value)                      -> trim_space (UTF-8 decoding as package utf8)
     parts := legal.FindStringSubmatch(value)              -> recognise  (hand-written for legal_src)
     strconv.ParseInt(number, 10, 64)                      -> digits_val + comparison with MAX
     multipliers[suffix], suffix == "m" && !milli          -> mult_of
     big.Int product, x1000 for milli, IsInt64             -> exact Z product + in_rangeb              *)
From Coq Require Import List ZArith NArith Bool Lia.
From YK Require Import Base.Int64.
Import ListNotations.

Definition byte := N.

Section Bytes.
Open Scope N_scope.

(* ---- package unicode/utf8 ---- *)
Definition RuneError : N := 65533.
Definition cont_ok (b : N) : bool := (128 <=? b) && (b <=? 191).

(* utf8.DecodeRuneInString: (rune, width); invalid or short encodings give (RuneError, 1) *)
Definition decode_rune (s : list N) : N * nat :=
  match s with
  | [] => (RuneError, 0%nat)
  | s0 :: t =>
      if s0 <? 128 then (s0, 1%nat) else
      if (s0 <? 194) || (244 <? s0) then (RuneError, 1%nat) else
      let lo := if s0 =? 224 then 160 else if s0 =? 240 then 144 else 128 in
      let hi := if s0 =? 237 then 159 else if s0 =? 244 then 143 else 191 in
      match t with
      | [] => (RuneError, 1%nat)
      | s1 :: t1 =>
          if s0 <? 224 then
            (if (s1 <? lo) || (hi <? s1) then (RuneError, 1%nat)
             else ((s0 mod 32) * 64 + s1 mod 64, 2%nat))
          else
          match t1 with
          | [] => (RuneError, 1%nat)
          | s2 :: t2 =>
              if s0 <? 240 then
                (if (s1 <? lo) || (hi <? s1) then (RuneError, 1%nat) else
                 if negb (cont_ok s2) then (RuneError, 1%nat)
                 else ((s0 mod 16) * 4096 + (s1 mod 64) * 64 + s2 mod 64, 3%nat))
              else
              match t2 with
              | [] => (RuneError, 1%nat)
              | s3 :: _ =>
                  if (s1 <? lo) || (hi <? s1) then (RuneError, 1%nat) else
                  if negb (cont_ok s2) then (RuneError, 1%nat) else
                  if negb (cont_ok s3) then (RuneError, 1%nat)
                  else ((s0 mod 8) * 262144 + (s1 mod 64) * 4096 + (s2 mod 64) * 64 + s3 mod 64, 4%nat)
              end
          end
      end
  end.

Definition rune_start (b : N) : bool := negb ((128 <=? b) && (b <? 192)).
Definition suffix_of (n : nat) (s : list N) : list N := skipn (length s - n) s.
Definition decode_from_end (n : nat) (s : list N) : N * nat :=
  let '(r, sz) := decode_rune (suffix_of n s) in
  if Nat.eqb sz n then (r, sz) else (RuneError, 1%nat).
(* utf8.DecodeLastRuneInString: walk back over at most three more bytes to a start byte *)
Definition decode_last_rune (s : list N) : N * nat :=
  match rev s with
  | [] => (RuneError, 0%nat)
  | b0 :: rt =>
      if b0 <? 128 then (b0, 1%nat) else
      match rt with
      | [] => (RuneError, 1%nat)
      | b1 :: rt1 =>
          if rune_start b1 then decode_from_end 2 s else
          match rt1 with
          | [] => (RuneError, 1%nat)
          | b2 :: rt2 =>
              if rune_start b2 then decode_from_end 3 s else
              match rt2 with
              | [] => (RuneError, 1%nat)
              | b3 :: _ => if rune_start b3 then decode_from_end 4 s else (RuneError, 1%nat)
              end
          end
      end
  end.

(* unicode.IsSpace: Latin-1 list, then the White_Space range table *)
Definition is_space (r : N) : bool :=
  (r =? 9) || (r =? 10) || (r =? 11) || (r =? 12) || (r =? 13) || (r =? 32) ||
  (r =? 133) || (r =? 160) || (r =? 5760) || ((8192 <=? r) && (r <=? 8202)) ||
  (r =? 8232) || (r =? 8233) || (r =? 8239) || (r =? 8287) || (r =? 12288).

Fixpoint trim_left_fuel (fuel : nat) (s : list N) : list N :=
  match fuel with
  | O => s
  | S f =>
      match s with
      | [] => []
      | _ => let '(r, n) := decode_rune s in
             if is_space r then trim_left_fuel f (skipn n s) else s
      end
  end.
Fixpoint trim_right_fuel (fuel : nat) (s : list N) : list N :=
  match fuel with
  | O => s
  | S f =>
      match s with
      | [] => []
      | _ => let '(r, n) := decode_last_rune s in
             if is_space r then trim_right_fuel f (firstn (length s - n) s) else s
      end
  end.
Definition trim_left (s : list N) := trim_left_fuel (length s) s.
Definition trim_right (s : list N) := trim_right_fuel (length s) s.
(* strings.TrimSpace = TrimRightFunc(TrimLeftFunc(s, IsSpace), IsSpace) *)
Definition trim_space (s : list N) : list N := trim_right (trim_left s).

(* ---- the regular expression `legal` ---- *)
(* ^(?P<Number>[0-9]+)\s*(?P<Suffix>([mkKMGTPE]i?)?)$ *)
Definition legal_src : list N :=
  [94;40;63;80;60;78;117;109;98;101;114;62;91;48;45;57;93;43;41;92;115;42;40;63;80;60;83;117;102;102;
   105;120;62;40;91;109;107;75;77;71;84;80;69;93;105;63;41;63;41;36].

Definition is_digit (b : N) : bool := (48 <=? b) && (b <=? 57).
(* RE2 \s = [\t\n\f\r ] (no vertical tab, ASCII only) *)
Definition is_re_space (b : N) : bool := (b =? 9) || (b =? 10) || (b =? 12) || (b =? 13) || (b =? 32).
(* [mkKMGTPE] *)
Definition is_suffix_letter (b : N) : bool :=
  (b =? 109) || (b =? 107) || (b =? 75) || (b =? 77) || (b =? 71) || (b =? 84) || (b =? 80) || (b =? 69).

Fixpoint span (p : N -> bool) (l : list N) : list N * list N :=
  match l with
  | [] => ([], [])
  | x :: t => if p x then let '(a, b) := span p t in (x :: a, b) else ([], l)
  end.

(* FindStringSubmatch: Some (Number, Suffix) or None (no match). The three character classes are
   disjoint and the expression is anchored at both ends, so the match is unique. A byte >= 128
   (part of a multi-byte rune or invalid) matches no class. *)
Definition recognise (t : list N) : option (list N * list N) :=
  let '(num, r1) := span is_digit t in
  match num with
  | [] => None
  | _ =>
      let '(_, r2) := span is_re_space r1 in
      match r2 with
      | [] => Some (num, [])
      | [c] => if is_suffix_letter c then Some (num, [c]) else None
      | [c; i] => if is_suffix_letter c && (i =? 105) then Some (num, [c; i]) else None
      | _ => None
      end
  end.
End Bytes.

Open Scope Z_scope.

(* ---- the multipliers table, sorted by suffix (byte order) ---- *)
Definition mult_table : list (list N * Z) :=
  [ ([], 1);
    ([69%N], 1000000000000000000);              (* E  *)
    ([69%N; 105%N], 1152921504606846976);        (* Ei *)
    ([71%N], 1000000000);                        (* G  *)
    ([71%N; 105%N], 1073741824);                 (* Gi *)
    ([75%N; 105%N], 1024);                       (* Ki *)
    ([77%N], 1000000);                           (* M  *)
    ([77%N; 105%N], 1048576);                    (* Mi *)
    ([80%N], 1000000000000000);                  (* P  *)
    ([80%N; 105%N], 1125899906842624);           (* Pi *)
    ([84%N], 1000000000000);                     (* T  *)
    ([84%N; 105%N], 1099511627776);              (* Ti *)
    ([107%N], 1000);                             (* k  *)
    ([109%N], 1) ].                              (* m  *)

Fixpoint bytes_eqb (a b : list N) : bool :=
  match a, b with
  | [], [] => true
  | x :: t, y :: u => N.eqb x y && bytes_eqb t u
  | _, _ => false
  end.
Fixpoint lookup (tbl : list (list N * Z)) (s : list N) : option Z :=
  match tbl with
  | [] => None
  | (k, v) :: t => if bytes_eqb k s then Some v else lookup t s
  end.
Definition mult_of (suf : list N) : option Z := lookup mult_table suf.
Definition is_m (suf : list N) : bool := bytes_eqb suf [109%N].

Definition digits_val (num : list N) : Z :=
  fold_left (fun acc d => acc * 10 + (Z.of_N d - 48)) num 0.

(* error codes: 1 "invalid quantity", 2 "invalid quantity: overflow", 3 "invalid suffix" *)
Inductive presult := POk (v : Z) | PErr (code : Z).

Definition parse (s : list N) (milli : bool) : presult :=
  match recognise (trim_space s) with
  | None => PErr 1
  | Some (num, suf) =>
      let n := digits_val num in
      if MAX <? n then PErr 2 else                      (* strconv.ParseInt range error *)
      match mult_of suf with
      | None => PErr 3
      | Some scale =>
          if is_m suf && negb milli then PErr 3 else
          let big := n * scale in
          let big := if milli && negb (is_m suf) then big * 1000 else big in
          if in_rangeb big then POk big else PErr 2   (* !bigResult.IsInt64() *)
      end
  end.
Definition ParseQuantity (s : list N) : presult := parse s false.
Definition ParseVCore (s : list N) : presult := parse s true.
