(* Laws of the quantity parser model (Base/Quantity.v) against its specification
   (Base/QuantitySpec.v):
     - the hand-written regexp source and multiplier table equal the data generated from the Go source;
     - strings.TrimSpace only removes a prefix and a suffix (and leaves no ASCII space at either end);
     - entry_value has a readable characterisation  t = digits+ re_space* suf;
     - parse returns POk v exactly for the quantity strings of value v, and an error (code 1..3)
       exactly when the trimmed string is no quantity string or its value is no int64;
     - the boolean oracles is_quantity_b / no_quantity_b reflect the specification. *)
From Coq Require Import List ZArith NArith Bool Lia.
From YK Require Import Base.Int64 Base.Int64Laws Base.Quantity Base.QuantitySpec.
From YK Require Generated.Quantity.
Import ListNotations.
Set Default Timeout 30.

(* ---- 1. tie to the data generated from quantity.go ---- *)
Lemma generated_regexp_matches : YK.Generated.Quantity.legal_regexp = legal_src.
Proof. reflexivity. Qed.
Lemma generated_table_matches : YK.Generated.Quantity.multipliers = mult_table.
Proof. reflexivity. Qed.

(* ---- generic list facts ---- *)
Lemma skipn_length_app (a b : list N) : skipn (length a) (a ++ b) = b.
Proof. induction a as [|x a IH]; [reflexivity|exact IH]. Qed.
Lemma firstn_length_app (a b : list N) : firstn (length a) (a ++ b) = a.
Proof. induction a as [|x a IH]; [destruct b; reflexivity|cbn; f_equal; exact IH]. Qed.
Lemma length_app_minus (a b : list N) : (length (a ++ b) - length b = length a)%nat.
Proof. rewrite app_length. lia. Qed.

Lemma bytes_eqb_eq a : forall b, bytes_eqb a b = true <-> a = b.
Proof.
  induction a as [|x a IH]; intros [|y b]; cbn [bytes_eqb]; try (split; [discriminate|discriminate]).
  - split; reflexivity.
  - rewrite andb_true_iff, N.eqb_eq, IH. split.
    + intros [Hx Hab]. rewrite Hx, Hab. reflexivity.
    + intros Heq. inversion Heq. split; reflexivity.
Qed.
Lemma bytes_eqb_refl a : bytes_eqb a a = true.
Proof. apply bytes_eqb_eq. reflexivity. Qed.

(* ---- 2. trimming ---- *)
Lemma trim_left_fuel_suffix fuel : forall s, exists pre, s = pre ++ trim_left_fuel fuel s.
Proof.
  induction fuel as [|f IH]; intros s.
  - exists []. reflexivity.
  - destruct s as [|a s'].
    + exists []. reflexivity.
    + cbn [trim_left_fuel]. destruct (decode_rune (a :: s')) as [r n].
      destruct (is_space r).
      * destruct (IH (skipn n (a :: s'))) as [pre Hpre].
        exists (firstn n (a :: s') ++ pre). rewrite <- app_assoc, <- Hpre.
        symmetry. apply firstn_skipn.
      * exists []. reflexivity.
Qed.
Lemma trim_right_fuel_prefix fuel : forall s, exists post, s = trim_right_fuel fuel s ++ post.
Proof.
  induction fuel as [|f IH]; intros s.
  - exists []. symmetry. apply app_nil_r.
  - destruct s as [|a s'].
    + exists []. reflexivity.
    + cbn [trim_right_fuel]. destruct (decode_last_rune (a :: s')) as [r n].
      destruct (is_space r).
      * destruct (IH (firstn (length (a :: s') - n) (a :: s'))) as [post Hpost].
        exists (post ++ skipn (length (a :: s') - n) (a :: s')). rewrite app_assoc, <- Hpost.
        symmetry. apply firstn_skipn.
      * exists []. symmetry. apply app_nil_r.
Qed.

Lemma trim_space_sub s : exists pre post, s = pre ++ trim_space s ++ post.
Proof.
  unfold trim_space, trim_right.
  destruct (trim_left_fuel_suffix (length s) s) as [pre Hpre].
  destruct (trim_right_fuel_prefix (length (trim_left s)) (trim_left s)) as [post Hpost].
  exists pre, post. rewrite <- Hpost. exact Hpre.
Qed.

(* no ASCII white space is left at either end: the fuel (length s) suffices because every
   decoded rune is at least one byte wide *)
Definition is_ascii_space (b : N) : bool :=
  ((b =? 9) || (b =? 10) || (b =? 11) || (b =? 12) || (b =? 13) || (b =? 32))%N.
Lemma ascii_space_small b : is_ascii_space b = true -> (b <? 128)%N = true /\ is_space b = true.
Proof.
  unfold is_ascii_space. rewrite !orb_true_iff, !N.eqb_eq.
  intros H. repeat destruct H as [H|H]; rewrite H; split; reflexivity.
Qed.
Lemma decode_rune_width a s : (1 <= snd (decode_rune (a :: s)))%nat.
Proof.
  unfold decode_rune. cbv zeta.
  repeat match goal with
  | |- context [if ?c then _ else _] => destruct c
  | |- context [match ?l with [] => _ | _ :: _ => _ end] => destruct l
  end; cbn [snd]; lia.
Qed.
Lemma decode_from_end_width n s : (1 <= n)%nat -> (1 <= snd (decode_from_end n s))%nat.
Proof.
  intros Hn. unfold decode_from_end. destruct (decode_rune (suffix_of n s)) as [r sz].
  destruct (Nat.eqb_spec sz n) as [E|E]; cbn [snd]; lia.
Qed.
Lemma decode_last_rune_width a s : (1 <= snd (decode_last_rune (a :: s)))%nat.
Proof.
  unfold decode_last_rune. destruct (rev (a :: s)) as [|b0 rt] eqn:Hrev.
  - apply (f_equal (@length N)) in Hrev. rewrite rev_length in Hrev. discriminate.
  - destruct (b0 <? 128)%N; [cbn; lia|].
    destruct rt as [|b1 rt]; [cbn; lia|].
    destruct (rune_start b1); [apply decode_from_end_width; lia|].
    destruct rt as [|b2 rt]; [cbn; lia|].
    destruct (rune_start b2); [apply decode_from_end_width; lia|].
    destruct rt as [|b3 rt]; [cbn; lia|].
    destruct (rune_start b3); [apply decode_from_end_width; lia|cbn; lia].
Qed.

Lemma trim_left_fuel_head fuel : forall s, (length s <= fuel)%nat ->
  trim_left_fuel fuel s = [] \/ is_space (fst (decode_rune (trim_left_fuel fuel s))) = false.
Proof.
  induction fuel as [|f IH]; intros s Hlen.
  - destruct s; [left; reflexivity|cbn in Hlen; lia].
  - destruct s as [|a s']; [left; reflexivity|].
    cbn [trim_left_fuel]. destruct (decode_rune (a :: s')) as [r n] eqn:Hd.
    destruct (is_space r) eqn:Hsp.
    + apply IH. rewrite skipn_length.
      pose proof (decode_rune_width a s') as Hw. rewrite Hd in Hw. cbn [snd length] in *. lia.
    + right. rewrite Hd. exact Hsp.
Qed.
Lemma trim_right_fuel_last fuel : forall s, (length s <= fuel)%nat ->
  trim_right_fuel fuel s = [] \/ is_space (fst (decode_last_rune (trim_right_fuel fuel s))) = false.
Proof.
  induction fuel as [|f IH]; intros s Hlen.
  - destruct s; [left; reflexivity|cbn in Hlen; lia].
  - destruct s as [|a s']; [left; reflexivity|].
    cbn [trim_right_fuel]. destruct (decode_last_rune (a :: s')) as [r n] eqn:Hd.
    destruct (is_space r) eqn:Hsp.
    + apply IH. rewrite firstn_length.
      pose proof (decode_last_rune_width a s') as Hw. rewrite Hd in Hw. cbn [snd length] in *. lia.
    + right. rewrite Hd. exact Hsp.
Qed.

Lemma trim_space_no_ascii_space_ends s :
  (forall b rest, trim_space s = b :: rest -> is_ascii_space b = false) /\
  (forall front b, trim_space s = front ++ [b] -> is_ascii_space b = false).
Proof.
  split.
  - intros b rest Hts. unfold trim_space, trim_right in Hts.
    destruct (trim_right_fuel_prefix (length (trim_left s)) (trim_left s)) as [post Hpost].
    rewrite Hts in Hpost.
    destruct (trim_left_fuel_head (length s) s (le_n _)) as [Hnil|Hsp];
      fold (trim_left s) in *; rewrite Hpost in *; [discriminate|].
    destruct (is_ascii_space b) eqn:Hb; [|reflexivity].
    apply ascii_space_small in Hb. destruct Hb as [Hlt Hspb].
    cbn [app decode_rune] in Hsp. rewrite Hlt in Hsp. cbn [fst] in Hsp. congruence.
  - intros front b Hts. unfold trim_space, trim_right in Hts.
    destruct (trim_right_fuel_last (length (trim_left s)) (trim_left s) (le_n _)) as [Hnil|Hsp];
      rewrite Hts in *; [destruct front; discriminate|].
    destruct (is_ascii_space b) eqn:Hb; [|reflexivity].
    apply ascii_space_small in Hb. destruct Hb as [Hlt Hspb].
    unfold decode_last_rune in Hsp. rewrite rev_unit, Hlt in Hsp. cbn [fst] in Hsp. congruence.
Qed.

(* ---- span ---- *)
Definition head_fails (p : N -> bool) (l : list N) : Prop :=
  match l with [] => True | x :: _ => p x = false end.

Lemma span_spec p l : forall a b, span p l = (a, b) ->
  l = a ++ b /\ forallb p a = true /\ head_fails p b.
Proof.
  induction l as [|x l IH]; intros a b Hs; cbn [span] in Hs.
  - inversion Hs. repeat split.
  - destruct (p x) eqn:Hpx.
    + destruct (span p l) as [a' b'] eqn:Hs'. inversion Hs as [[Ha Hb]].
      destruct (IH a' b' eq_refl) as (Hl & Hall & Hhead).
      rewrite <- Hb. repeat split.
      * cbn. f_equal. exact Hl.
      * cbn. rewrite Hpx, Hall. reflexivity.
      * exact Hhead.
    + inversion Hs. repeat split. exact Hpx.
Qed.
Lemma span_intro p a : forall b, forallb p a = true -> head_fails p b -> span p (a ++ b) = (a, b).
Proof.
  induction a as [|x a IH]; intros b Hall Hhead.
  - destruct b as [|y b]; [reflexivity|]. cbn in *. rewrite Hhead. reflexivity.
  - cbn in Hall. apply andb_true_iff in Hall. destruct Hall as [Hx Ha].
    cbn [app span]. rewrite Hx, (IH b Ha Hhead). reflexivity.
Qed.

(* ---- the three character classes are disjoint ---- *)
Lemma re_space_not_digit c : is_re_space c = true -> is_digit c = false.
Proof.
  unfold is_re_space. rewrite !orb_true_iff, !N.eqb_eq.
  intros H. repeat destruct H as [H|H]; rewrite H; reflexivity.
Qed.
Lemma suffix_letter_not_digit c : is_suffix_letter c = true -> is_digit c = false.
Proof.
  unfold is_suffix_letter. rewrite !orb_true_iff, !N.eqb_eq.
  intros H. repeat destruct H as [H|H]; rewrite H; reflexivity.
Qed.
Lemma suffix_letter_not_re_space c : is_suffix_letter c = true -> is_re_space c = false.
Proof.
  unfold is_suffix_letter. rewrite !orb_true_iff, !N.eqb_eq.
  intros H. repeat destruct H as [H|H]; rewrite H; reflexivity.
Qed.
Lemma head_fails_re_space_digit ws : forallb is_re_space ws = true -> ws <> [] -> head_fails is_digit ws.
Proof.
  destruct ws as [|c ws]; [intros _ H; contradiction H; reflexivity|].
  cbn. intros H _. apply andb_true_iff in H. apply re_space_not_digit. apply H.
Qed.

(* ---- ends_with ---- *)
Lemma ends_with_app a suf : ends_with (a ++ suf) suf = true.
Proof.
  unfold ends_with. rewrite length_app_minus, skipn_length_app, bytes_eqb_refl, andb_true_r.
  apply Nat.leb_le. rewrite app_length. lia.
Qed.
Lemma ends_with_split t suf : ends_with t suf = true ->
  t = firstn (length t - length suf) t ++ suf.
Proof.
  unfold ends_with. intros H. apply andb_true_iff in H. destruct H as [_ H].
  apply bytes_eqb_eq in H. pose proof (firstn_skipn (length t - length suf) t) as E.
  rewrite H in E. symmetry. exact E.
Qed.

(* ---- digits ---- *)
Open Scope Z_scope.

Lemma is_digit_range d : is_digit d = true -> 48 <= Z.of_N d <= 57.
Proof. unfold is_digit. rewrite andb_true_iff, !N.leb_le. lia. Qed.
Lemma digits_fold_nonneg num : forall acc, 0 <= acc -> forallb is_digit num = true ->
  0 <= fold_left (fun a d => a * 10 + (Z.of_N d - 48)) num acc.
Proof.
  induction num as [|d num IH]; intros acc Hacc Hall; cbn [fold_left]; [exact Hacc|].
  cbn in Hall. apply andb_true_iff in Hall. destruct Hall as [Hd Hnum].
  apply IH; [|exact Hnum]. apply is_digit_range in Hd. lia.
Qed.
Lemma digits_val_nonneg num : forallb is_digit num = true -> 0 <= digits_val num.
Proof. apply digits_fold_nonneg. lia. Qed.

(* ---- 3. one table entry ---- *)
Lemma entry_value_spec t milli suf scale v :
  entry_value t milli (suf, scale) = Some v <->
  exists num ws, t = num ++ ws ++ suf /\ num <> [] /\ forallb is_digit num = true /\
    forallb is_re_space ws = true /\ (is_m suf = true -> milli = true) /\
    v = digits_val num * scale * (if milli && negb (is_m suf) then 1000 else 1) /\ in_range v.
Proof.
  unfold entry_value. split.
  - intros H. destruct (ends_with t suf) eqn:He; cbn [negb] in H; [|discriminate].
    apply ends_with_split in He.
    destruct (span is_digit (firstn (length t - length suf) t)) as [num ws] eqn:Hsp.
    apply span_spec in Hsp. destruct Hsp as (Hbody & Hdig & _).
    destruct num as [|d num]; [discriminate|].
    destruct (forallb is_re_space ws) eqn:Hws; cbn [negb] in H; [|discriminate].
    destruct (is_m suf && negb milli) eqn:Hm; [discriminate|].
    destruct (in_rangeb _) eqn:Hr in H; [|discriminate].
    injection H as Hv. rewrite Hv in Hr. apply in_rangeb_spec in Hr.
    exists (d :: num), ws.
    split; [rewrite app_assoc, <- Hbody; exact He|].
    split; [discriminate|].
    split; [exact Hdig|].
    split; [exact Hws|].
    split; [|split; [symmetry; exact Hv|exact Hr]].
    intros Him. rewrite Him in Hm. destruct milli; [reflexivity|discriminate].
  - intros (num & ws & Ht & Hne & Hdig & Hws & Hm & Hv & Hr).
    rewrite Ht, app_assoc. rewrite ends_with_app. cbn [negb].
    rewrite length_app_minus, firstn_length_app.
    assert (Hsp : span is_digit (num ++ ws) = (num, ws)).
    { apply span_intro; [exact Hdig|].
      destruct ws as [|c ws]; [exact I|]. apply head_fails_re_space_digit; [exact Hws|discriminate]. }
    rewrite Hsp. destruct num as [|d num]; [contradiction Hne; reflexivity|].
    rewrite Hws. cbn [negb].
    assert (Hm' : is_m suf && negb milli = false).
    { destruct (is_m suf); [rewrite (Hm eq_refl)|]; reflexivity. }
    rewrite Hm'. rewrite <- Hv. apply in_rangeb_spec in Hr. rewrite Hr. reflexivity.
Qed.

(* ---- the suffix language ([mkKMGTPE]i?)? ---- *)
Definition suffix_shape_b (suf : list N) : bool :=
  match suf with
  | [] => true
  | [c] => is_suffix_letter c
  | [c; i] => is_suffix_letter c && (i =? 105)%N
  | _ => false
  end.
Definition suffix_shape (suf : list N) : Prop :=
  suf = [] \/ exists c, is_suffix_letter c = true /\ (suf = [c] \/ suf = [c; 105%N]).

Lemma suffix_shape_b_iff suf : suffix_shape_b suf = true <-> suffix_shape suf.
Proof.
  unfold suffix_shape. split.
  - destruct suf as [|c [|i [|x r]]]; cbn [suffix_shape_b]; intros H.
    + left. reflexivity.
    + right. exists c. split; [exact H|left; reflexivity].
    + apply andb_true_iff in H. destruct H as [Hc Hi]. apply N.eqb_eq in Hi. rewrite Hi.
      right. exists c. split; [exact Hc|right; reflexivity].
    + discriminate.
  - intros [H|(c & Hc & [H|H])]; rewrite H; cbn [suffix_shape_b]; [reflexivity|exact Hc|].
    rewrite Hc. reflexivity.
Qed.
Lemma suffix_shape_head suf : suffix_shape_b suf = true ->
  head_fails is_digit suf /\ head_fails is_re_space suf.
Proof.
  destruct suf as [|c [|i [|x r]]]; cbn [suffix_shape_b head_fails]; intros H.
  - split; exact I.
  - split; [apply suffix_letter_not_digit|apply suffix_letter_not_re_space]; exact H.
  - apply andb_true_iff in H. destruct H as [H _].
    split; [apply suffix_letter_not_digit|apply suffix_letter_not_re_space]; exact H.
  - discriminate.
Qed.

(* recognise = digits+ re_space* then a rest in the suffix language *)
Lemma recognise_alt t :
  recognise t =
  let '(num, r1) := span is_digit t in
  match num with
  | [] => None
  | _ => let '(_, r2) := span is_re_space r1 in
         if suffix_shape_b r2 then Some (num, r2) else None
  end.
Proof.
  unfold recognise. destruct (span is_digit t) as [num r1]. destruct num as [|d num]; [reflexivity|].
  destruct (span is_re_space r1) as [ws r2].
  destruct r2 as [|c [|i [|x r]]]; reflexivity.
Qed.

Lemma recognise_sound_b t num suf : recognise t = Some (num, suf) ->
  exists ws, t = num ++ ws ++ suf /\ num <> [] /\ forallb is_digit num = true /\
    forallb is_re_space ws = true /\ suffix_shape_b suf = true.
Proof.
  rewrite recognise_alt. destruct (span is_digit t) as [n r1] eqn:H1.
  destruct n as [|d n]; [discriminate|].
  destruct (span is_re_space r1) as [ws r2] eqn:H2.
  destruct (suffix_shape_b r2) eqn:Hsh; [|discriminate].
  intros H. inversion H as [[Hn Hs]]. rewrite <- Hs.
  apply span_spec in H1. destruct H1 as (Ht & Hdig & _).
  apply span_spec in H2. destruct H2 as (Hr1 & Hws & _).
  exists ws. repeat split.
  - rewrite <- Hr1. exact Ht.
  - discriminate.
  - exact Hdig.
  - exact Hws.
  - exact Hsh.
Qed.
Lemma recognise_sound t num suf : recognise t = Some (num, suf) ->
  exists ws, t = num ++ ws ++ suf /\ num <> [] /\ forallb is_digit num = true /\
    forallb is_re_space ws = true /\
    (suf = [] \/ (exists c, is_suffix_letter c = true /\ (suf = [c] \/ suf = [c; 105%N]))).
Proof.
  intros H. destruct (recognise_sound_b t num suf H) as (ws & H1 & H2 & H3 & H4 & H5).
  exists ws. repeat split; try assumption. apply suffix_shape_b_iff. exact H5.
Qed.

Lemma recognise_complete num ws suf :
  num <> [] -> forallb is_digit num = true -> forallb is_re_space ws = true ->
  suffix_shape_b suf = true -> recognise (num ++ ws ++ suf) = Some (num, suf).
Proof.
  intros Hne Hdig Hws Hsh. rewrite recognise_alt.
  destruct (suffix_shape_head suf Hsh) as [Hsd Hss].
  assert (H1 : span is_digit (num ++ ws ++ suf) = (num, ws ++ suf)).
  { apply span_intro; [exact Hdig|].
    destruct ws as [|c ws]; [exact Hsd|].
    cbn in Hws. apply andb_true_iff in Hws. cbn. apply re_space_not_digit, Hws. }
  rewrite H1. destruct num as [|d num]; [contradiction Hne; reflexivity|].
  rewrite (span_intro is_re_space ws suf Hws Hss), Hsh. reflexivity.
Qed.
(* the decomposition is unique: recognise is a function *)
Lemma decomposition_unique num ws suf num' ws' suf' :
  num <> [] -> forallb is_digit num = true -> forallb is_re_space ws = true -> suffix_shape_b suf = true ->
  num' <> [] -> forallb is_digit num' = true -> forallb is_re_space ws' = true -> suffix_shape_b suf' = true ->
  num ++ ws ++ suf = num' ++ ws' ++ suf' -> num = num' /\ suf = suf'.
Proof.
  intros H1 H2 H3 H4 H1' H2' H3' H4' Heq.
  pose proof (recognise_complete num ws suf H1 H2 H3 H4) as Hr.
  rewrite Heq, (recognise_complete num' ws' suf' H1' H2' H3' H4') in Hr.
  inversion Hr. split; reflexivity.
Qed.

(* ---- the closed table ---- *)
Definition table_ok (e : list N * Z) : bool :=
  suffix_shape_b (fst e) && (1 <=? snd e) && optZ_eq (mult_of (fst e)) (Some (snd e)).
Lemma table_ok_all : forallb table_ok mult_table = true.
Proof. vm_compute. reflexivity. Qed.
Lemma table_entry suf scale : In (suf, scale) mult_table ->
  suffix_shape_b suf = true /\ 1 <= scale /\ mult_of suf = Some scale.
Proof.
  intros Hin. pose proof (proj1 (forallb_forall _ _) table_ok_all _ Hin) as H.
  unfold table_ok in H. cbn [fst snd] in H.
  apply andb_true_iff in H. destruct H as [H H3]. apply andb_true_iff in H. destruct H as [H1 H2].
  repeat split; [exact H1|apply Z.leb_le, H2|].
  destruct (mult_of suf) as [z|]; [|discriminate]. cbn in H3. apply Z.eqb_eq in H3. rewrite H3. reflexivity.
Qed.
Lemma table_scales_positive : Forall (fun e => 1 <= snd e) mult_table.
Proof. apply Forall_forall. intros [suf scale] Hin. apply (table_entry suf scale Hin). Qed.
Lemma lookup_In tbl s v : lookup tbl s = Some v -> In (s, v) tbl.
Proof.
  induction tbl as [|[k w] tbl IH]; cbn [lookup]; [discriminate|].
  destruct (bytes_eqb k s) eqn:Hk.
  - intros H. inversion H as [Hw]. apply bytes_eqb_eq in Hk. rewrite Hk. left. reflexivity.
  - intros H. right. apply IH, H.
Qed.

(* ---- 4. parse ---- *)
Theorem parse_exact s milli v : parse s milli = POk v -> is_quantity (trim_space s) milli v.
Proof.
  unfold parse. intros H.
  destruct (recognise (trim_space s)) as [[num suf]|] eqn:Hrec; [|discriminate].
  cbv zeta in H.
  destruct (MAX <? digits_val num) eqn:Hmax; [discriminate|].
  destruct (mult_of suf) as [scale|] eqn:Hmul; [|discriminate].
  destruct (is_m suf && negb milli) eqn:Hm; [discriminate|].
  destruct (recognise_sound_b _ _ _ Hrec) as (ws & Ht & Hne & Hdig & Hws & _).
  exists (suf, scale). split; [apply lookup_In, Hmul|].
  apply entry_value_spec. exists num, ws.
  assert (Hm' : is_m suf = true -> milli = true).
  { intros Him. rewrite Him in Hm. destruct milli; [reflexivity|discriminate]. }
  assert (Hv : digits_val num * scale * (if milli && negb (is_m suf) then 1000 else 1) = v /\ in_range v).
  { destruct (milli && negb (is_m suf));
    destruct (in_rangeb _) eqn:Hr in H; try discriminate; injection H as Hv; rewrite Hv in Hr;
    apply in_rangeb_spec in Hr; (split; [lia|exact Hr]). }
  destruct Hv as [Hv Hr].
  split; [exact Ht|]. split; [exact Hne|]. split; [exact Hdig|]. split; [exact Hws|].
  split; [exact Hm'|]. split; [symmetry; exact Hv|exact Hr].
Qed.

Theorem parse_complete s milli v : is_quantity (trim_space s) milli v -> parse s milli = POk v.
Proof.
  intros [[suf scale] [Hin Hev]]. apply entry_value_spec in Hev.
  destruct Hev as (num & ws & Ht & Hne & Hdig & Hws & Hm & Hv & Hr).
  destruct (table_entry suf scale Hin) as (Hsh & Hscale & Hmul).
  unfold parse. rewrite Ht, (recognise_complete num ws suf Hne Hdig Hws Hsh). cbv zeta.
  pose proof (digits_val_nonneg num Hdig) as Hn0.
  set (n := digits_val num) in *.
  assert (Hns : n * 1 <= n * scale) by (apply Z.mul_le_mono_nonneg_l; lia).
  assert (Hmax : (MAX <? n) = false).
  { apply Z.ltb_ge. destruct Hr as [_ Hhi]. rewrite Hv in Hhi.
    destruct (milli && negb (is_m suf)); [|lia].
    assert (n * scale * 1 <= n * scale * 1000) by (apply Z.mul_le_mono_nonneg_l; lia). lia. }
  rewrite Hmax, Hmul.
  assert (Hm' : is_m suf && negb milli = false).
  { destruct (is_m suf); [rewrite (Hm eq_refl)|]; reflexivity. }
  rewrite Hm'. apply in_rangeb_spec in Hr.
  destruct (milli && negb (is_m suf)).
  - rewrite <- Hv, Hr. reflexivity.
  - replace (n * scale) with v by lia. rewrite Hr. reflexivity.
Qed.

Theorem parse_total_error s milli c : parse s milli = PErr c -> no_quantity (trim_space s) milli.
Proof.
  intros Herr e Hin. destruct (entry_value (trim_space s) milli e) as [v|] eqn:Hev; [|reflexivity].
  assert (Hq : is_quantity (trim_space s) milli v) by (exists e; split; assumption).
  apply parse_complete in Hq. rewrite Hq in Herr. discriminate.
Qed.

Theorem parse_in_range s milli v : parse s milli = POk v -> in_range v.
Proof.
  intros H. apply parse_exact in H. destruct H as [[suf scale] [_ Hev]].
  apply entry_value_spec in Hev. destruct Hev as (num & ws & _ & _ & _ & _ & _ & _ & Hr). exact Hr.
Qed.

Theorem parse_error_codes s milli c : parse s milli = PErr c -> c = 1 \/ c = 2 \/ c = 3.
Proof.
  unfold parse. destruct (recognise (trim_space s)) as [[num suf]|]; cbv zeta.
  - destruct (MAX <? digits_val num); [intros H; inversion H; auto|].
    destruct (mult_of suf) as [scale|]; [|intros H; inversion H; auto].
    destruct (is_m suf && negb milli); [intros H; inversion H; auto|].
    destruct (in_rangeb _); intros H; inversion H; auto.
  - intros H; inversion H; auto.
Qed.

(* parse is a decision procedure for the specification: the three statements together *)
Corollary parse_iff s milli v : parse s milli = POk v <-> is_quantity (trim_space s) milli v.
Proof. split; [apply parse_exact|apply parse_complete]. Qed.
Corollary parse_error_iff s milli :
  (exists c, parse s milli = PErr c) <-> no_quantity (trim_space s) milli.
Proof.
  split.
  - intros [c H]. exact (parse_total_error s milli c H).
  - intros Hno. destruct (parse s milli) as [v|c] eqn:Hp; [|exists c; reflexivity].
    apply parse_exact in Hp. destruct Hp as [e [Hin Hev]]. rewrite (Hno e Hin) in Hev. discriminate.
Qed.
(* a quantity string has one value *)
Corollary is_quantity_functional t milli v w :
  trim_space t = t -> is_quantity t milli v -> is_quantity t milli w -> v = w.
Proof.
  intros Ht Hv Hw. rewrite <- Ht in Hv, Hw.
  apply parse_complete in Hv. apply parse_complete in Hw. rewrite Hv in Hw. inversion Hw. reflexivity.
Qed.

(* ---- 5. the executable oracles ---- *)
Lemma optZ_eq_Some a v : optZ_eq a (Some v) = true <-> a = Some v.
Proof.
  destruct a as [x|]; cbn [optZ_eq]; [|split; discriminate].
  rewrite Z.eqb_eq. split; [intros H; rewrite H; reflexivity|intros H; inversion H; reflexivity].
Qed.
Lemma optZ_eq_None a : optZ_eq a None = true <-> a = None.
Proof. destruct a as [x|]; cbn [optZ_eq]; split; try discriminate; reflexivity. Qed.

Lemma is_quantity_b_iff t milli v : is_quantity_b t milli v = true <-> is_quantity t milli v.
Proof.
  unfold is_quantity_b, is_quantity. rewrite existsb_exists.
  split; intros [e [Hin H]]; exists e; (split; [exact Hin|]); apply optZ_eq_Some; exact H.
Qed.
Lemma no_quantity_b_iff t milli : no_quantity_b t milli = true <-> no_quantity t milli.
Proof.
  unfold no_quantity_b, no_quantity. rewrite forallb_forall.
  split; intros H e Hin; apply optZ_eq_None; apply H; exact Hin.
Qed.

(* ---- 6. non-vacuity ---- *)
Example parse_examples :
  parse [49;48;75;105]%N false = POk 10240 /\
  parse [53;48;48;109]%N true = POk 500 /\
  parse [49;48]%N true = POk 10000 /\
  parse [57;50;50;51;51;55;50;48;51;54;56;53;52;55;55;53;56;48;56]%N false = PErr 2 /\
  parse [49;75]%N false = PErr 3 /\
  parse [45;49]%N false = PErr 1.
Proof. vm_compute. repeat split. Qed.

(* white space (Unicode at the ends, RE2 \s inside), the int64 boundary, "m" and "mi" *)
Example parse_examples_edge :
  parse [32;49;48;32;75;105;10]%N false = POk 10240 /\
  parse [194;160;49;107;227;128;128]%N false = POk 1000 /\
  parse [49;11;107]%N false = PErr 1 /\
  parse [55;69;105]%N false = POk 8070450532247928832 /\
  parse [56;69;105]%N false = PErr 2 /\
  parse [57;50;50;51;51;55;50;48;51;54;56;53;52;55;55;53;56;48;55]%N false = POk MAX /\
  parse [57;50;50;51;51;55;50;48;51;54;56;53;52;55;55;53;56;48;55]%N true = PErr 2 /\
  parse [53;109]%N false = PErr 3 /\
  parse [49;109;105]%N true = PErr 3.
Proof. vm_compute. repeat split. Qed.
Example oracle_examples :
  is_quantity_b [49;48;75;105]%N false 10240 = true /\
  is_quantity_b [49;48;75;105]%N false 10 = false /\
  no_quantity_b [49;75]%N false = true /\
  no_quantity_b [49;107]%N false = false.
Proof. vm_compute. repeat split. Qed.

Print Assumptions parse_exact.
Print Assumptions parse_total_error.
