(* Tie theorems (C18; used wherever Go clones or prunes a resource: C01 C02 C03 C05): Clone, Prune. *)
From Coq Require Import List ZArith NArith Bool Lia ZifyBool ZifyN ZifyNat Floats.SpecFloat.
From YK Require Import Base.Int64 Base.F64 Base.Res Base.ResMore Base.ResSpec Base.ResLemmas
  Generated.GoPrelude Generated.GoResources Base.GoTieLib Base.GoTieRep.
Import ListNotations.
Open Scope Z_scope.

(* ================================================================ Clone / Prune *)
Theorem gotie_Clone o : owf o -> GoResources.Clone (toR o) = GOk (toR (Res.Clone o)).
Proof.
  intros H. destruct o as [l|]; [|reflexivity].
  unfold GoResources.Clone, toR, Res.Clone; cbn [option_map is_nil deref gbind mkR Resource_Resources].
  change GoResources.NewResource with (Some (mkR [])).
  loop_R (fun (m : res) (kv : tid * Z) => set (fst kv) (snd kv) m). cbn [gbind].
  rewrite (fold_set_map (fun _ v => v) l H), map_id_pair. reflexivity.
Qed.

Definition zero_in (l : res) (k : tid) : bool := existsb (fun kv => N.eqb (fst kv) k && (snd kv =? 0)) l.
Lemma del_filter k (m : res) : wf m -> del k m = filter (fun kv => negb (N.eqb (fst kv) k)) m.
Proof.
  induction m as [|[k' v'] t IH]; cbn; intros H; [reflexivity|].
  inversion H as [|? ? Hn Ht]; subst.
  destruct (N.eqb_spec k k') as [->|Hne].
  - rewrite N.eqb_refl. cbn. symmetry. apply filter_true_eq. intros [k2 v2] Hin. cbn.
    destruct (N.eqb_spec k2 k') as [->|]; [|reflexivity].
    exfalso. apply Hn. apply in_map_iff. exists (k', v2). now split.
  - destruct (N.eqb_spec k' k) as [->|]; [contradiction|]. cbn. now rewrite IH.
Qed.
Lemma wf_filter p (m : res) : wf m -> wf (filter p m).
Proof.
  unfold wf, keys. induction m as [|[k v] t IH]; cbn; intros H; [constructor|].
  inversion H as [|? ? Hn Ht]; subst. destruct (p (k, v)); cbn; [|now apply IH].
  constructor; [|now apply IH]. intros Hin. apply Hn.
  apply in_map_iff in Hin as [[k2 v2] [E Hin]]. apply filter_In in Hin as [Hin _].
  apply in_map_iff. now exists (k2, v2).
Qed.
Lemma prune_fold (l m : res) : wf m ->
  fold_left (fun (m : res) (kv : tid * Z) => if snd kv =? 0 then del (fst kv) m else m) l m =
  filter (fun kv => negb (zero_in l (fst kv))) m.
Proof.
  revert m. induction l as [|[k v] t IH]; intros m H; cbn [fold_left fst snd].
  - unfold zero_in; cbn. rewrite filter_true_eq; [reflexivity|]. intros; reflexivity.
  - destruct (Z.eqb_spec v 0) as [->|Hv].
    + rewrite (del_filter _ _ H). rewrite (IH _ (wf_filter _ _ H)).
      rewrite filter_filter_and. apply filter_ext_eq. intros [k2 v2]. cbn.
      unfold zero_in. cbn. destruct (N.eqb_spec k k2) as [->|Hn].
      * rewrite N.eqb_refl. reflexivity.
      * destruct (N.eqb_spec k2 k); [congruence|]. cbn. reflexivity.
    + rewrite (IH _ H). apply filter_ext_eq. intros [k2 v2]. cbn. unfold zero_in. cbn.
      replace (v =? 0) with false by lia. now rewrite andb_false_r.
Qed.
Lemma zero_in_self (l : res) k v : wf l -> In (k, v) l -> zero_in l k = (v =? 0).
Proof.
  unfold zero_in. induction l as [|[k' v'] t IH]; cbn; intros H Hin; [contradiction|].
  inversion H as [|? ? Hn Ht]; subst. destruct Hin as [E|Hin].
  - inversion E; subst. rewrite N.eqb_refl. cbn. destruct (v =? 0); [reflexivity|]. cbn.
    apply not_true_is_false. intros Hex. apply existsb_exists in Hex as [[k2 v2] [Hin2 Hc]]. cbn in Hc.
    apply andb_prop in Hc as [Hk _]. apply N.eqb_eq in Hk. subst. apply Hn. apply in_map_iff. now exists (k, v2).
  - destruct (N.eqb_spec k' k) as [->|Hne]; [|cbn; now apply IH].
    exfalso. apply Hn. apply in_map_iff. now exists (k, v).
Qed.

Theorem gotie_Prune o : owf o -> GoResources.Prune (toR o) = GOk (toR (option_map Res.Prune o)).
Proof.
  intros H. destruct o as [l|]; [|reflexivity].
  unfold GoResources.Prune, toR; cbn [option_map is_nil deref gbind mkR Resource_Resources].
  rewrite (loop_R (fun (m : res) (kv : tid * Z) => if snd kv =? 0 then del (fst kv) m else m)).
  2:{ intros [m] [k v]; unfold onR, mkR; cbn. destruct (v =? 0); cbn; rewrite ?mdel_del; reflexivity. }
  cbn [gbind]. rewrite (prune_fold l l H). do 3 f_equal. unfold Res.Prune.
  apply filter_ext_in_eq. intros [k v] Hin. cbn. now rewrite (zero_in_self l k v H Hin).
Qed.

Lemma clone_ok l : wf l -> GoResources.Clone (Some (mkR l)) = GOk (Some (mkR l)).
Proof. intros H. exact (gotie_Clone (Some l) H). Qed.
