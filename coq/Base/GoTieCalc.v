(* Tie theorems (C18): the calculators addVal / subVal / mulVal / mulValRatio GENERATED from
   pkg/common/resources/resources.go (Generated/GoResources.v) equal Base/Int64.v, Base/Res.v.
   Conventions of all Base/GoTie*.v files: a *Resource is `option Resource` on the generated side and `ores` in the
   model ([toR], Base/GoTieRes.v); `= GOk _` also says that the Go function cannot panic on these inputs; hypotheses
   [wf]/[owf] (no duplicate keys: the list IS a Go map) appear exactly where Go builds a map entry by entry. *)
From Coq Require Import List ZArith NArith Bool Lia ZifyBool ZifyN ZifyNat Floats.SpecFloat.
From YK Require Import Base.Int64 Base.F64 Base.Res Base.ResMore Base.ResSpec Base.ResLemmas
  Generated.GoPrelude Generated.GoResources Base.GoTieLib.
Import ListNotations.
Open Scope Z_scope.

(* ================================================================ calculators *)
Theorem gotie_addVal a b : GoResources.addVal a b = Int64.addVal a b.
Proof. reflexivity. Qed.

Theorem gotie_subVal a b : GoResources.subVal a b = Int64.subVal a b.
Proof. reflexivity. Qed.

Theorem gotie_mulVal a b : GoResources.mulVal a b = GOk (Int64.mulVal a b).
Proof.
  unfold GoResources.mulVal, Int64.mulVal.
  destruct (Z.eqb_spec a 0) as [->|Ha]; [reflexivity|].
  destruct (Z.eqb_spec b 0) as [->|Hb]; [reflexivity|].
  cbn [orb]. cbv zeta. rewrite (i64_quot_ok _ _ Hb). cbn [gbind].
  change (-9223372036854775808) with MIN.
  destruct (negb (quot64 (wrap64 (a * b)) b =? a) || ((a =? MIN) && (b =? -1))); [|reflexivity].
  destruct (negb (eqb (a <? 0) (b <? 0))); reflexivity.
Qed.

Lemma f_eqb_zero r : f_eqb r f_zero = f_is_zero r.
Proof. destruct r as [s|s| |s m e]; try destruct s; reflexivity. Qed.

Theorem gotie_mulValRatio v r : GoResources.mulValRatio v r = Res.mulValRatio v r.
Proof.
  unfold GoResources.mulValRatio, Res.mulValRatio. rewrite f_eqb_zero.
  destruct ((v =? 0) || f_is_zero r); reflexivity.
Qed.
