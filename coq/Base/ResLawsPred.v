(* Laws of the boolean functions (predicates) of the resource model Base/Res.v.
   A. model = specification (Base/ResSpec.v; the spec functions are what the run-time oracle evaluates)
   B. readable [forall k] forms (documented treatment of missing types / nil)
   C. independence of the order of the association lists (Go map iteration order)
   D. non-vacuity examples *)
From Coq Require Import List ZArith NArith Bool Lia Permutation.
From YK Require Import Base.Int64 Base.F64 Base.Res Base.ResSpec Base.ResLemmas.
Import ListNotations.
Open Scope Z_scope.

(* ------------------------------------------------------------------ helpers *)
Lemma zmax_max a b : zmax a b = Z.max a b.
Proof. unfold zmax. destruct (Z.ltb_spec a b); lia. Qed.

Lemma forallb_get (f : tid * Z -> bool) r : wf r ->
  (forallb f r = true <-> forall k v, get r k = Some v -> f (k, v) = true).
Proof. intros Hwf. rewrite forallb_forall. split.
  - intros H k v Hg. apply H. apply get_some_in. assumption.
  - intros H [k v] Hin. apply H. apply in_get; assumption. Qed.
Lemma existsb_get (f : tid * Z -> bool) r : wf r ->
  (existsb f r = true <-> exists k v, get r k = Some v /\ f (k, v) = true).
Proof. intros Hwf. rewrite existsb_exists. split.
  - intros [[k v] [Hin HP]]. exists k, v. split; [apply in_get; assumption|assumption].
  - intros (k & v & Hg & HP). exists (k, v). split; [apply get_some_in; assumption|assumption]. Qed.

Lemma existsb_negb {A} (f : A -> bool) l : existsb (fun x => negb (f x)) l = negb (forallb f l).
Proof. induction l as [|x t IH]; cbn; [reflexivity|]. rewrite IH, negb_andb. reflexivity. Qed.
Lemma forallb_negb {A} (f : A -> bool) l : forallb (fun x => negb (f x)) l = negb (existsb f l).
Proof. induction l as [|x t IH]; cbn; [reflexivity|]. rewrite IH, negb_orb. reflexivity. Qed.
Lemma some_key_negb P x y : some_key (fun a b => negb (P a b)) x y = negb (all_keys P x y).
Proof. unfold some_key, all_keys. apply (existsb_negb (fun k => P (get x k) (get y k))). Qed.

Lemma in_keys_get r k : In k (keys r) -> exists v, get r k = Some v.
Proof. apply get_some_iff. Qed.
Lemma get_in_keys r k v : get r k = Some v -> In k (keys r).
Proof. intros H. apply get_some_iff. eauto. Qed.

(* a loop over the entries of one operand computes a quantifier over all keys *)
Lemma all_keys_left (f : tid * Z -> bool) P x y : wf x ->
  (forall k, P None (get y k) = true) ->
  (forall k v, get x k = Some v -> f (k, v) = P (Some v) (get y k)) ->
  forallb f x = all_keys P x y.
Proof. intros Hx HN Hf. apply eq_true_iff_eq. rewrite (forallb_get f x Hx). unfold all_keys.
  rewrite forallb_forall. split.
  - intros H k _. destruct (get x k) as [v|] eqn:E; [|apply HN]. rewrite <- (Hf k v E). apply H; assumption.
  - intros H k v E. rewrite (Hf k v E), <- E. apply H. apply in_or_app. left. eapply get_in_keys; eassumption. Qed.
Lemma all_keys_right (g : tid * Z -> bool) P x y : wf y ->
  (forall k, P (get x k) None = true) ->
  (forall k v, get y k = Some v -> g (k, v) = P (get x k) (Some v)) ->
  forallb g y = all_keys P x y.
Proof. intros Hy HN Hg. apply eq_true_iff_eq. rewrite (forallb_get g y Hy). unfold all_keys.
  rewrite forallb_forall. split.
  - intros H k _. destruct (get y k) as [v|] eqn:E; [|apply HN]. rewrite <- (Hg k v E). apply H; assumption.
  - intros H k v E. rewrite (Hg k v E), <- E. apply H. apply in_or_app. right. eapply get_in_keys; eassumption. Qed.
Lemma all_keys_both (f g : tid * Z -> bool) P x y : wf x -> wf y -> P None None = true ->
  (forall k v, get x k = Some v -> f (k, v) = P (Some v) (get y k)) ->
  (forall k v, get y k = Some v -> g (k, v) = P (get x k) (Some v)) ->
  forallb f x && forallb g y = all_keys P x y.
Proof. intros Hx Hy HN Hf Hg. apply eq_true_iff_eq.
  rewrite andb_true_iff, (forallb_get f x Hx), (forallb_get g y Hy), all_keys_iff by assumption. split.
  - intros [H1 H2] k. destruct (get x k) as [v|] eqn:E.
    + rewrite <- (Hf k v E). apply H1; assumption.
    + destruct (get y k) as [w|] eqn:E2; [|assumption]. rewrite <- E, <- (Hg k w E2). apply H2; assumption.
  - intros H. split; intros k v E.
    + rewrite (Hf k v E), <- E. apply H.
    + rewrite (Hg k v E), <- E. apply H. Qed.
Lemma some_key_left (f : tid * Z -> bool) P x y : wf x ->
  (forall k, P None (get y k) = false) ->
  (forall k v, get x k = Some v -> f (k, v) = P (Some v) (get y k)) ->
  existsb f x = some_key P x y.
Proof. intros Hx HN Hf. apply eq_true_iff_eq. rewrite (existsb_get f x Hx). unfold some_key.
  rewrite existsb_exists. split.
  - intros (k & v & E & H). exists k. split; [apply in_or_app; left; eapply get_in_keys; eassumption|].
    rewrite E, <- (Hf k v E). assumption.
  - intros (k & _ & H). destruct (get x k) as [v|] eqn:E; [|rewrite HN in H; discriminate].
    exists k, v. split; [assumption|]. rewrite (Hf k v E). assumption. Qed.
Lemma some_key_both (f g : tid * Z -> bool) P x y : wf x -> wf y -> P None None = false ->
  (forall k v, get x k = Some v -> f (k, v) = P (Some v) (get y k)) ->
  (forall k v, get y k = Some v -> g (k, v) = P (get x k) (Some v)) ->
  existsb f x || existsb g y = some_key P x y.
Proof. intros Hx Hy HN Hf Hg. apply eq_true_iff_eq.
  rewrite orb_true_iff, (existsb_get f x Hx), (existsb_get g y Hy), some_key_iff by assumption. split.
  - intros [(k & v & E & H)|(k & v & E & H)]; exists k.
    + rewrite E, <- (Hf k v E). assumption.
    + rewrite E, <- (Hg k v E). assumption.
  - intros [k H]. destruct (get x k) as [v|] eqn:E.
    + left. exists k, v. split; [assumption|]. rewrite (Hf k v E). assumption.
    + destruct (get y k) as [w|] eqn:E2; [|congruence].
      right. exists k, w. split; [assumption|]. rewrite (Hg k w E2), E. assumption. Qed.

(* the quantifiers depend only on the lookup functions *)
Lemma all_keys_ext P x y x' y' : P None None = true ->
  (forall k, get x k = get x' k) -> (forall k, get y k = get y' k) -> all_keys P x y = all_keys P x' y'.
Proof. intros HN Hx Hy. apply eq_true_iff_eq. rewrite !all_keys_iff by assumption.
  split; intros H k; [rewrite <- Hx, <- Hy|rewrite Hx, Hy]; apply H. Qed.
Lemma some_key_ext P x y x' y' : P None None = false ->
  (forall k, get x k = get x' k) -> (forall k, get y k = get y' k) -> some_key P x y = some_key P x' y'.
Proof. intros HN Hx Hy. apply eq_true_iff_eq. rewrite !some_key_iff by assumption.
  split; intros [k H]; exists k; [rewrite <- Hx, <- Hy|rewrite Hx, Hy]; assumption. Qed.
Lemma all_keys_perm P (a a' b b' : res) : P None None = true -> wf a -> wf b ->
  Permutation a a' -> Permutation b b' -> all_keys P a b = all_keys P a' b'.
Proof. intros HN Ha Hb Pa Pb. apply all_keys_ext; [assumption| |]; intros k; apply get_perm; assumption. Qed.
Lemma some_key_perm P (a a' b b' : res) : P None None = false -> wf a -> wf b ->
  Permutation a a' -> Permutation b b' -> some_key P a b = some_key P a' b'.
Proof. intros HN Ha Hb Pa Pb. apply some_key_ext; [assumption| |]; intros k; apply get_perm; assumption. Qed.

Lemma forallb_perm {A} (f : A -> bool) l l' : Permutation l l' -> forallb f l = forallb f l'.
Proof. intros HP. apply eq_true_iff_eq. rewrite !forallb_forall.
  split; intros H x Hin; apply H; [apply Permutation_sym in HP|]; eapply Permutation_in; eassumption. Qed.
Lemma existsb_perm {A} (f : A -> bool) l l' : Permutation l l' -> existsb f l = existsb f l'.
Proof. intros HP. apply eq_true_iff_eq. rewrite !existsb_exists.
  split; intros [x [Hin H]]; exists x; (split; [|assumption]);
    [|apply Permutation_sym in HP]; eapply Permutation_in; eassumption. Qed.

Lemma ge_at_iff lv sv : ge_at lv sv = true <-> oz sv <= oz lv.
Proof. apply Z.leb_le. Qed.
Lemma ne_at_iff lv sv : ne_at lv sv = true <-> oz sv <> oz lv.
Proof. unfold ne_at. rewrite negb_true_iff. apply Z.eqb_neq. Qed.
Lemma eqz_at_iff a b : eqz_at a b = true <-> oz a = oz b.
Proof. apply Z.eqb_eq. Qed.

(* ------------------------------------------------------------------ A. model = specification *)
Lemma fit_entry (skip actual : bool) (rv : option Z) (v : Z) :
  match rv with
  | None => if skip then true else negb (0 <? v)
  | Some lv => let lv := if actual then lv else zmax 0 lv in negb (lv <? v)
  end = fit_at skip actual rv (Some v).
Proof. unfold fit_at. destruct rv as [lv|]; cbv zeta; rewrite ?zmax_max, <- ?Z.leb_antisym; reflexivity. Qed.

Theorem fitIn_eq_spec r s skip actual : owf s -> fitIn r s skip actual = fitIn_spec r s skip actual.
Proof. intros Hs. unfold fitIn_spec. destruct s as [s|]; cbn [fitIn oget].
  - apply all_keys_right; [exact Hs|reflexivity|]. intros k v _. cbn [fst snd]. apply fit_entry.
  - symmetry. apply all_keys_iff; [reflexivity|]. intros k. reflexivity. Qed.

Lemma sgte_aux l s : wf l -> wf s ->
  forallb (fun kv => negb (snd kv <? getz s (fst kv))) l &&
  forallb (fun kv => negb (getz l (fst kv) <? snd kv)) s = all_keys ge_at l s.
Proof. intros Hl Hs. apply all_keys_both; [assumption|assumption|reflexivity| |];
  intros k v _; cbn [fst snd]; rewrite getz_get; unfold ge_at; cbn [oz]; symmetry; apply Z.leb_antisym. Qed.
Lemma sgt_aux l s : wf l -> wf s ->
  existsb (fun kv => negb (Z.eqb (getz s (fst kv)) (snd kv))) l ||
  existsb (fun kv => negb (Z.eqb (getz l (fst kv)) (snd kv))) s = some_key ne_at l s.
Proof. intros Hl Hs. apply some_key_both; [assumption|assumption|reflexivity| |];
  intros k v _; cbn [fst snd]; rewrite getz_get; unfold ne_at; cbn [oz]; [reflexivity|].
  rewrite Z.eqb_sym. reflexivity. Qed.

Theorem StrictlyGreaterThanOrEquals_eq_spec l s : owf l -> owf s ->
  StrictlyGreaterThanOrEquals l s = sgte_spec l s.
Proof. intros Hl Hs. unfold StrictlyGreaterThanOrEquals, sgte_spec. cbv zeta. apply sgte_aux; assumption. Qed.
Theorem StrictlyGreaterThan_eq_spec l s : owf l -> owf s -> StrictlyGreaterThan l s = sgt_spec l s.
Proof. intros Hl Hs. unfold StrictlyGreaterThan, sgt_spec. cbv zeta.
  rewrite (sgte_aux _ _ Hl Hs), (sgt_aux _ _ Hl Hs). reflexivity. Qed.

Theorem Equals_eq_spec l r : owf l -> owf r -> Equals l r = equals_spec l r.
Proof. destruct l as [a|], r as [b|]; try reflexivity. unfold owf. cbn [oget Equals equals_spec]. intros Ha Hb.
  apply all_keys_both; [assumption|assumption|reflexivity| |];
  intros k v _; cbn [fst snd]; rewrite getz_get; unfold eqz_at; cbn [oz]; [|reflexivity].
  apply Z.eqb_sym. Qed.

Lemma get_ext_incl a b : (forall k, get a k = get b k) -> incl (keys a) (keys b).
Proof. intros H k Hin. apply in_keys_get in Hin. destruct Hin as [v Hv]. rewrite H in Hv.
  eapply get_in_keys; eassumption. Qed.

Theorem DeepEquals_eq_spec l r : owf l -> owf r -> DeepEquals l r = deepEquals_spec l r.
Proof. destruct l as [a|], r as [b|]; try reflexivity. unfold owf. cbn [oget DeepEquals deepEquals_spec].
  intros Ha Hb. apply eq_true_iff_eq.
  rewrite andb_true_iff, Nat.eqb_eq, (forallb_get _ a Ha), all_keys_iff by reflexivity. split.
  - intros [Hlen H] k. apply optZ_eqb_eq. destruct (get a k) as [v|] eqn:Ea.
    + specialize (H k v Ea). cbn [fst snd] in H. destruct (get b k) as [w|]; [|discriminate].
      apply Z.eqb_eq in H. congruence.
    + symmetry. apply get_none_iff. intros Hin. apply get_none_iff in Ea. apply Ea.
      assert (Hincl : incl (keys a) (keys b)).
      { intros k' Hk'. apply in_keys_get in Hk'. destruct Hk' as [v' Hv']. specialize (H k' v' Hv').
        cbn [fst snd] in H. destruct (get b k') as [w|] eqn:Eb; [|discriminate].
        eapply get_in_keys; eassumption. }
      apply (NoDup_length_incl Ha) in Hincl; [apply Hincl; assumption|].
      unfold keys. rewrite !map_length, Hlen. apply le_n.
  - intros H. assert (Heq : forall k, get a k = get b k) by (intros k; apply optZ_eqb_eq; apply H). split.
    + rewrite <- (map_length fst a), <- (map_length fst b). apply Nat.le_antisymm.
      * apply NoDup_incl_length; [exact Ha|]. apply get_ext_incl. assumption.
      * apply NoDup_incl_length; [exact Hb|]. apply get_ext_incl. intros k. symmetry. apply Heq.
    + intros k v Ea. cbn [fst snd]. rewrite <- Heq, Ea. apply Z.eqb_refl. Qed.

Theorem IsZero_eq_spec o : owf o -> IsZero o = isZero_spec o.
Proof. destruct o as [r|]; [|reflexivity]. unfold owf, isZero_spec. cbn [oget IsZero]. intros Hr.
  apply all_keys_left; [assumption|reflexivity|]. intros k v _. reflexivity. Qed.

Theorem EqualsOrEmpty_eq_spec l r : owf l -> owf r -> EqualsOrEmpty l r = equalsOrEmpty_spec l r.
Proof. intros Hl Hr. unfold EqualsOrEmpty, equalsOrEmpty_spec.
  rewrite (IsZero_eq_spec l Hl), (IsZero_eq_spec r Hr), (Equals_eq_spec l r Hl Hr). reflexivity. Qed.

(* no well-formedness needed *)
Theorem MatchAny_eq_spec a b : MatchAny a b = matchAny_spec a b.
Proof. unfold matchAny_spec. apply eq_true_iff_eq. rewrite some_key_iff by reflexivity.
  destruct a as [a|], b as [b|]; cbn [MatchAny oget].
  - rewrite existsb_exists. split.
    + intros [[k v] [Hin H]]. cbn [fst] in H. exists k.
      assert (Hk : In k (keys a)) by (apply (in_map fst) in Hin; exact Hin).
      apply in_keys_get in Hk. destruct Hk as [w ->]. unfold has in H. destruct (get b k); [reflexivity|discriminate].
    + intros [k H]. destruct (get a k) as [v|] eqn:Ea; [|discriminate]. exists (k, v).
      split; [apply get_some_in; assumption|]. cbn [fst]. unfold has. destruct (get b k); [reflexivity|discriminate].
  - split; [discriminate|]. intros [k H]. destruct (get a k); discriminate.
  - split; [discriminate|]. intros [k H]. discriminate.
  - split; [discriminate|]. intros [k H]. discriminate. Qed.

Theorem HasNegativeValue_eq_spec o : owf o -> HasNegativeValue o = hasNegative_spec o.
Proof. destruct o as [r|]; [|reflexivity]. unfold owf, hasNegative_spec. cbn [oget HasNegativeValue]. intros Hr.
  apply some_key_left; [assumption|reflexivity|]. intros k v _. reflexivity. Qed.

Theorem StrictlyGreaterThanZero_eq_spec o : owf o ->
  StrictlyGreaterThanZero o = (negb (is_nil o) && sgtZero_spec o).
Proof. destruct o as [r|]; [|reflexivity]. intros Hr. cbn [is_nil negb andb StrictlyGreaterThanZero].
  unfold sgtZero_spec. rewrite <- (HasNegativeValue_eq_spec (Some r) Hr). cbn [HasNegativeValue oget].
  rewrite (forallb_negb (fun kv : tid * Z => snd kv <? 0)). f_equal.
  apply some_key_left; [exact Hr|reflexivity|]. intros k v _. reflexivity. Qed.

(* StrictlyGreaterThan(OrEquals)OnlyExisting *)
Definition null (l : res) : bool := match l with [] => true | _ => false end.
Definition pos_at (a b : option Z) : bool := match a with Some v => 0 <? v | None => true end.

Lemma sgtOnly_spec_alt r smaller eq :
  sgtOnly_spec r smaller eq =
  let l := oget r in let s := oget smaller in
  if null s then (if null l then false else all_keys pos_at l [])
  else if some_key both_at l s
       then all_keys le_common_at l s && (eq || some_key ne_common_at l s)
       else negb (null l).
Proof. unfold sgtOnly_spec. cbv zeta. destruct (oget smaller), (oget r); reflexivity. Qed.

Lemma no_common_le l s : some_key both_at l s = false -> all_keys le_common_at l s = true.
Proof. intros H. apply all_keys_iff; [reflexivity|]. intros k.
  destruct (get l k) as [v|] eqn:El; [|reflexivity]. destruct (get s k) as [w|] eqn:Es; [|reflexivity].
  exfalso. assert (C : some_key both_at l s = true).
  { apply some_key_iff; [reflexivity|]. exists k. rewrite El, Es. reflexivity. }
  congruence. Qed.

(* smaller need not be well-formed: it is only looked up *)
Theorem sgtOnly_eq_spec r s eq : owf r -> internalStrictlyOnlyExisting r s eq = sgtOnly_spec r s eq.
Proof. intros Hr. rewrite sgtOnly_spec_alt. unfold internalStrictlyOnlyExisting. cbv zeta.
  unfold owf in Hr. set (l := oget r) in *. set (s0 := oget s).
  change (match s0 with [] => true | _ :: _ => false end) with (null s0).
  change (match l with [] => true | _ :: _ => false end) with (null l).
  assert (HE : existsb (fun kv => match get s0 (fst kv) with Some val => snd kv <? val | None => false end) l
               = negb (all_keys le_common_at l s0)).
  { rewrite <- some_key_negb. apply some_key_left; [assumption|reflexivity|]. intros k v _. cbn [fst snd].
    unfold le_common_at. destruct (get s0 k) as [w|]; [|reflexivity].
    rewrite Z.leb_antisym, negb_involutive. reflexivity. }
  assert (HC : existsb (fun kv => has s0 (fst kv)) l = some_key both_at l s0).
  { apply some_key_left; [assumption|reflexivity|]. intros k v _. reflexivity. }
  assert (HN : existsb (fun kv => match get s0 (fst kv) with Some val => negb (Z.eqb val (snd kv)) | None => false end) l
               = some_key ne_common_at l s0).
  { apply some_key_left; [assumption|reflexivity|]. intros k v _. reflexivity. }
  assert (HP : forallb (fun kv => negb (null s0 && (snd kv <=? 0))) l = if null s0 then all_keys pos_at l [] else true).
  { destruct (null s0).
    - apply all_keys_left; [assumption|reflexivity|]. intros k v _. cbn [fst snd andb pos_at].
      rewrite Z.ltb_antisym. reflexivity.
    - cbn [andb negb]. apply forallb_forall. reflexivity. }
  rewrite HE, HC, HN, HP. pose proof (no_common_le l s0) as HX.
  destruct (null s0) eqn:Es0.
  - (* smaller empty: no common type, nothing to compare *)
    assert (Hs0 : s0 = []) by (destruct s0; [reflexivity|discriminate]).
    rewrite Hs0 in *.
    assert (HC0 : some_key both_at l [] = false).
    { apply not_true_is_false. intros C. apply some_key_iff in C; [|reflexivity]. destruct C as [k C].
      cbn [get] in C. destruct (get l k); discriminate. }
    rewrite HC0. rewrite (HX HC0). cbn [negb andb]. destruct (null l); reflexivity.
  - destruct (some_key both_at l s0) eqn:EC.
    + destruct (all_keys le_common_at l s0); cbn [negb andb]; [|reflexivity]. destruct eq; reflexivity.
    + rewrite (HX eq_refl). cbn [negb andb]. destruct (null l); reflexivity. Qed.

(* ------------------------------------------------------------------ B. forall-k forms *)
Theorem fitIn_forall r s skip actual : owf s ->
  (fitIn r s skip actual = true <-> forall k, fit_at skip actual (get (oget r) k) (get (oget s) k) = true).
Proof. intros Hs. rewrite (fitIn_eq_spec r s skip actual Hs). unfold fitIn_spec. apply all_keys_iff. reflexivity. Qed.

Theorem FitIn_spec r s : owf s ->
  (FitIn r s = true <-> forall k v, get (oget s) k = Some v -> v <= Z.max 0 (getz (oget r) k)).
Proof. intros Hs. unfold FitIn. rewrite (fitIn_forall r s false false Hs). split.
  - intros H k v Es. specialize (H k). rewrite Es in H. unfold fit_at in H. unfold getz.
    destruct (get (oget r) k); apply Z.leb_le in H; lia.
  - intros H k. destruct (get (oget s) k) as [v|] eqn:Es; [|reflexivity]. specialize (H k v Es).
    unfold getz in H. unfold fit_at. destruct (get (oget r) k); apply Z.leb_le; lia. Qed.

Theorem FitInMaxUndef_spec r s : owf s ->
  (FitInMaxUndef r s = true <->
   forall k v l, get (oget s) k = Some v -> get (oget r) k = Some l -> v <= Z.max 0 l).
Proof. intros Hs. unfold FitInMaxUndef. rewrite (fitIn_forall r s true false Hs). split.
  - intros H k v l Es Er. specialize (H k). rewrite Es, Er in H. apply Z.leb_le in H. exact H.
  - intros H k. destruct (get (oget s) k) as [v|] eqn:Es; [|reflexivity].
    destruct (get (oget r) k) as [l|] eqn:Er; [|reflexivity]. apply Z.leb_le. exact (H k v l Es Er). Qed.

Theorem FitInActual_spec r s : owf s ->
  (FitInActual r s = true <->
   forall k v l, get (oget s) k = Some v -> get (oget r) k = Some l -> v <= l).
Proof. intros Hs. unfold FitInActual. rewrite (fitIn_forall r s true true Hs). split.
  - intros H k v l Es Er. specialize (H k). rewrite Es, Er in H. apply Z.leb_le in H. exact H.
  - intros H k. destruct (get (oget s) k) as [v|] eqn:Es; [|reflexivity].
    destruct (get (oget r) k) as [l|] eqn:Er; [|reflexivity]. apply Z.leb_le. exact (H k v l Es Er). Qed.

Theorem fitIn_nil_smaller r skip actual : fitIn r None skip actual = true.
Proof. reflexivity. Qed.

Theorem StrictlyGreaterThanOrEquals_spec l s : owf l -> owf s ->
  (StrictlyGreaterThanOrEquals l s = true <-> forall k, getz (oget s) k <= getz (oget l) k).
Proof. intros Hl Hs. rewrite (StrictlyGreaterThanOrEquals_eq_spec l s Hl Hs). unfold sgte_spec.
  rewrite all_keys_iff by reflexivity.
  split; intros H k; specialize (H k); rewrite !getz_get in *; apply ge_at_iff; assumption. Qed.

Theorem StrictlyGreaterThan_spec l s : owf l -> owf s ->
  (StrictlyGreaterThan l s = true <->
   (forall k, getz (oget s) k <= getz (oget l) k) /\ exists k, getz (oget s) k <> getz (oget l) k).
Proof. intros Hl Hs. rewrite (StrictlyGreaterThan_eq_spec l s Hl Hs). unfold sgt_spec.
  rewrite andb_true_iff, all_keys_iff, some_key_iff by reflexivity.
  split; intros [H1 [k H2]]; (split; [intros k'; specialize (H1 k')|exists k]);
    rewrite ?getz_get in *; first [apply ge_at_iff|apply ne_at_iff]; assumption. Qed.

Theorem Equals_spec a b : wf a -> wf b -> (Equals (Some a) (Some b) = true <-> forall k, getz a k = getz b k).
Proof. intros Ha Hb. rewrite (Equals_eq_spec (Some a) (Some b) Ha Hb). cbn [equals_spec].
  rewrite all_keys_iff by reflexivity.
  split; intros H k; specialize (H k); rewrite !getz_get in *; apply eqz_at_iff; assumption. Qed.

Theorem DeepEquals_spec a b : wf a -> wf b -> (DeepEquals (Some a) (Some b) = true <-> forall k, get a k = get b k).
Proof. intros Ha Hb. rewrite (DeepEquals_eq_spec (Some a) (Some b) Ha Hb). cbn [deepEquals_spec].
  rewrite all_keys_iff by reflexivity. split; intros H k; apply optZ_eqb_eq; apply H. Qed.

Theorem Equals_nil :
  Equals None None = true /\ (forall a, Equals (Some a) None = false) /\ (forall a, Equals None (Some a) = false).
Proof. repeat split. Qed.
Theorem DeepEquals_nil :
  DeepEquals None None = true /\ (forall a, DeepEquals (Some a) None = false) /\
  (forall a, DeepEquals None (Some a) = false).
Proof. repeat split. Qed.

Theorem IsZero_spec o : owf o -> (IsZero o = true <-> forall k, getz (oget o) k = 0).
Proof. intros Ho. rewrite (IsZero_eq_spec o Ho). unfold isZero_spec. rewrite all_keys_iff by reflexivity.
  split; intros H k; specialize (H k); rewrite getz_get in *; apply (eqz_at_iff _ None); assumption. Qed.

(* the well-formedness hypotheses are not used *)
Theorem MatchAny_spec a b : wf a -> wf b ->
  (MatchAny (Some a) (Some b) = true <-> exists k, has a k = true /\ has b k = true).
Proof. intros _ _. rewrite MatchAny_eq_spec. unfold matchAny_spec. cbn [oget].
  rewrite some_key_iff by reflexivity. unfold has, both_at.
  split; intros [k H]; exists k; destruct (get a k), (get b k); try discriminate; try tauto.
  Qed.

Theorem HasNegativeValue_spec o : owf o -> (HasNegativeValue o = true <-> exists k, getz (oget o) k < 0).
Proof. intros Ho. rewrite (HasNegativeValue_eq_spec o Ho). unfold hasNegative_spec.
  rewrite some_key_iff by reflexivity.
  split; intros [k H]; exists k; rewrite getz_get in *; apply Z.ltb_lt; exact H. Qed.

Theorem StrictlyGreaterThanZero_spec r : wf r ->
  (StrictlyGreaterThanZero (Some r) = true <-> (forall k, 0 <= getz r k) /\ exists k, 0 < getz r k).
Proof. intros Hr. rewrite (StrictlyGreaterThanZero_eq_spec (Some r) Hr). cbn [is_nil negb andb].
  unfold sgtZero_spec. rewrite andb_true_iff, negb_true_iff.
  rewrite <- (HasNegativeValue_eq_spec (Some r) Hr). rewrite some_key_iff by reflexivity. cbn [oget].
  split.
  - intros [H1 [k H2]]. split.
    + intros k'. destruct (Z.ltb_spec (getz r k') 0) as [Hlt|]; [|assumption].
      assert (C : HasNegativeValue (Some r) = true) by (apply HasNegativeValue_spec; [exact Hr|exists k'; exact Hlt]).
      congruence.
    + exists k. rewrite getz_get. apply Z.ltb_lt. exact H2.
  - intros [H1 [k H2]]. split.
    + apply not_true_is_false. intros C. apply HasNegativeValue_spec in C; [|exact Hr].
      destruct C as [k' C]. cbn [oget] in C. specialize (H1 k'). lia.
    + exists k. rewrite getz_get in H2. apply Z.ltb_lt. exact H2. Qed.

(* ------------------------------------------------------------------ C. order independence *)
Theorem fitIn_perm (a a' b b' : res) skip actual : wf a -> wf b -> Permutation a a' -> Permutation b b' ->
  fitIn (Some a) (Some b) skip actual = fitIn (Some a') (Some b') skip actual.
Proof. intros Ha Hb Pa Pb. pose proof (wf_perm _ _ Pb Hb) as Hb'.
  rewrite (fitIn_eq_spec (Some a) (Some b) skip actual Hb), (fitIn_eq_spec (Some a') (Some b') skip actual Hb').
  unfold fitIn_spec. cbn [oget]. apply all_keys_perm; [reflexivity|assumption..]. Qed.

Theorem StrictlyGreaterThanOrEquals_perm (a a' b b' : res) : wf a -> wf b -> Permutation a a' -> Permutation b b' ->
  StrictlyGreaterThanOrEquals (Some a) (Some b) = StrictlyGreaterThanOrEquals (Some a') (Some b').
Proof. intros Ha Hb Pa Pb. pose proof (wf_perm _ _ Pa Ha) as Ha'. pose proof (wf_perm _ _ Pb Hb) as Hb'.
  rewrite (StrictlyGreaterThanOrEquals_eq_spec (Some a) (Some b) Ha Hb),
          (StrictlyGreaterThanOrEquals_eq_spec (Some a') (Some b') Ha' Hb').
  unfold sgte_spec. cbn [oget]. apply all_keys_perm; [reflexivity|assumption..]. Qed.

Theorem StrictlyGreaterThan_perm (a a' b b' : res) : wf a -> wf b -> Permutation a a' -> Permutation b b' ->
  StrictlyGreaterThan (Some a) (Some b) = StrictlyGreaterThan (Some a') (Some b').
Proof. intros Ha Hb Pa Pb. pose proof (wf_perm _ _ Pa Ha) as Ha'. pose proof (wf_perm _ _ Pb Hb) as Hb'.
  rewrite (StrictlyGreaterThan_eq_spec (Some a) (Some b) Ha Hb),
          (StrictlyGreaterThan_eq_spec (Some a') (Some b') Ha' Hb').
  unfold sgt_spec. cbn [oget]. f_equal; [apply all_keys_perm|apply some_key_perm]; first [reflexivity|assumption]. Qed.

Lemma null_perm (a a' : res) : Permutation a a' -> null a = null a'.
Proof. intros HP. apply Permutation_length in HP. destruct a, a'; try reflexivity; discriminate. Qed.

Theorem sgtOnly_perm (a a' b b' : res) eq : wf a -> wf b -> Permutation a a' -> Permutation b b' ->
  internalStrictlyOnlyExisting (Some a) (Some b) eq = internalStrictlyOnlyExisting (Some a') (Some b') eq.
Proof. intros Ha Hb Pa Pb. pose proof (wf_perm _ _ Pa Ha) as Ha'.
  rewrite (sgtOnly_eq_spec (Some a) (Some b) eq Ha), (sgtOnly_eq_spec (Some a') (Some b') eq Ha').
  rewrite !sgtOnly_spec_alt. cbv zeta. cbn [oget].
  rewrite <- (null_perm _ _ Pa), <- (null_perm _ _ Pb).
  rewrite <- (all_keys_perm pos_at a a' [] [] eq_refl Ha wf_nil Pa (Permutation_refl _)).
  rewrite <- (some_key_perm both_at a a' b b' eq_refl Ha Hb Pa Pb).
  rewrite <- (all_keys_perm le_common_at a a' b b' eq_refl Ha Hb Pa Pb).
  rewrite <- (some_key_perm ne_common_at a a' b b' eq_refl Ha Hb Pa Pb). reflexivity. Qed.

Theorem Equals_perm (a a' b b' : res) : wf a -> wf b -> Permutation a a' -> Permutation b b' ->
  Equals (Some a) (Some b) = Equals (Some a') (Some b').
Proof. intros Ha Hb Pa Pb. pose proof (wf_perm _ _ Pa Ha) as Ha'. pose proof (wf_perm _ _ Pb Hb) as Hb'.
  rewrite (Equals_eq_spec (Some a) (Some b) Ha Hb), (Equals_eq_spec (Some a') (Some b') Ha' Hb').
  cbn [equals_spec]. apply all_keys_perm; [reflexivity|assumption..]. Qed.

Theorem DeepEquals_perm (a a' b b' : res) : wf a -> wf b -> Permutation a a' -> Permutation b b' ->
  DeepEquals (Some a) (Some b) = DeepEquals (Some a') (Some b').
Proof. intros Ha Hb Pa Pb. pose proof (wf_perm _ _ Pa Ha) as Ha'. pose proof (wf_perm _ _ Pb Hb) as Hb'.
  rewrite (DeepEquals_eq_spec (Some a) (Some b) Ha Hb), (DeepEquals_eq_spec (Some a') (Some b') Ha' Hb').
  cbn [deepEquals_spec]. apply all_keys_perm; [reflexivity|assumption..]. Qed.

(* the unary predicates need no well-formedness *)
Theorem IsZero_perm (a a' : res) : Permutation a a' -> IsZero (Some a) = IsZero (Some a').
Proof. intros Pa. cbn [IsZero]. apply forallb_perm. assumption. Qed.
Theorem HasNegativeValue_perm (a a' : res) : Permutation a a' -> HasNegativeValue (Some a) = HasNegativeValue (Some a').
Proof. intros Pa. cbn [HasNegativeValue]. apply existsb_perm. assumption. Qed.
Theorem StrictlyGreaterThanZero_perm (a a' : res) : Permutation a a' ->
  StrictlyGreaterThanZero (Some a) = StrictlyGreaterThanZero (Some a').
Proof. intros Pa. cbn [StrictlyGreaterThanZero]. f_equal; [apply forallb_perm|apply existsb_perm]; assumption. Qed.

Theorem EqualsOrEmpty_perm (a a' b b' : res) : wf a -> wf b -> Permutation a a' -> Permutation b b' ->
  EqualsOrEmpty (Some a) (Some b) = EqualsOrEmpty (Some a') (Some b').
Proof. intros Ha Hb Pa Pb. unfold EqualsOrEmpty.
  rewrite (IsZero_perm a a' Pa), (IsZero_perm b b' Pb), (Equals_perm a a' b b' Ha Hb Pa Pb). reflexivity. Qed.

Theorem MatchAny_perm (a a' b b' : res) : wf a -> wf b -> Permutation a a' -> Permutation b b' ->
  MatchAny (Some a) (Some b) = MatchAny (Some a') (Some b').
Proof. intros Ha Hb Pa Pb. rewrite !MatchAny_eq_spec. unfold matchAny_spec. cbn [oget].
  apply some_key_perm; [reflexivity|assumption..]. Qed.

(* ------------------------------------------------------------------ D. non-vacuity *)
(* FitIn: a type missing in the receiver counts as 0, a type missing in smaller is ignored *)
Example FitIn_missing_ex :
  FitIn (Some [(1%N, 5); (2%N, 7)]) (Some [(1%N, 5); (3%N, 0)]) = true /\
  FitIn (Some [(1%N, 5); (2%N, 7)]) (Some [(1%N, 5); (3%N, 1)]) = false /\
  FitIn None (Some [(3%N, 1)]) = false /\ FitIn None None = true.
Proof. vm_compute. repeat split. Qed.
(* FitInMaxUndef: a type missing in the receiver is unlimited; negative receiver values count as 0 *)
Example FitInMaxUndef_differs_ex :
  FitInMaxUndef (Some [(1%N, 5)]) (Some [(1%N, 5); (3%N, 100)]) = true /\
  FitIn (Some [(1%N, 5)]) (Some [(1%N, 5); (3%N, 100)]) = false /\
  FitInMaxUndef (Some [(1%N, -5)]) (Some [(1%N, 0)]) = true /\
  FitInMaxUndef (Some [(1%N, -5)]) (Some [(1%N, 1)]) = false.
Proof. vm_compute. repeat split. Qed.
(* FitInActual: negative receiver values are compared as they are *)
Example FitInActual_negative_ex :
  FitInActual (Some [(1%N, -5)]) (Some [(1%N, -3)]) = false /\
  FitIn (Some [(1%N, -5)]) (Some [(1%N, -3)]) = true /\
  FitInActual (Some [(1%N, -5)]) (Some [(1%N, -7); (2%N, 9)]) = true.
Proof. vm_compute. repeat split. Qed.
Example StrictlyGreaterThan_ex :
  StrictlyGreaterThan (Some [(1%N, 5)]) (Some [(1%N, 5); (2%N, -1)]) = true /\
  StrictlyGreaterThan (Some [(1%N, 5)]) (Some [(1%N, 5); (2%N, 0)]) = false /\
  StrictlyGreaterThanOrEquals (Some [(1%N, 5)]) (Some [(1%N, 5); (2%N, 0)]) = true /\
  StrictlyGreaterThanOrEquals None (Some [(2%N, 1)]) = false.
Proof. vm_compute. repeat split. Qed.
Example sgtOnly_ex :
  StrictlyGreaterThanOnlyExisting (Some [(1%N, 5); (2%N, 1)]) (Some [(1%N, 4); (3%N, 100)]) = true /\
  StrictlyGreaterThanOnlyExisting (Some [(1%N, 5)]) (Some [(1%N, 5)]) = false /\
  StrictlyGreaterThanOrEqualsOnlyExisting (Some [(1%N, 5)]) (Some [(1%N, 5)]) = true /\
  StrictlyGreaterThanOnlyExisting (Some [(1%N, 5)]) (Some [(2%N, 9)]) = true /\
  StrictlyGreaterThanOnlyExisting (Some [(1%N, 0)]) None = false /\
  StrictlyGreaterThanOnlyExisting None None = false.
Proof. vm_compute. repeat split. Qed.
Example Equals_ex :
  Equals (Some [(1%N, 5)]) (Some [(2%N, 0); (1%N, 5)]) = true /\
  DeepEquals (Some [(1%N, 5)]) (Some [(2%N, 0); (1%N, 5)]) = false /\
  DeepEquals (Some [(1%N, 5); (2%N, 0)]) (Some [(2%N, 0); (1%N, 5)]) = true /\
  Equals (Some []) None = false /\ EqualsOrEmpty (Some [(1%N, 0)]) None = true.
Proof. vm_compute. repeat split. Qed.
Example unary_ex :
  IsZero (Some [(1%N, 0)]) = true /\ IsZero (Some [(1%N, 0); (2%N, -1)]) = false /\
  HasNegativeValue (Some [(1%N, 0); (2%N, -1)]) = true /\ HasNegativeValue (Some [(1%N, 0)]) = false /\
  StrictlyGreaterThanZero (Some [(1%N, 0); (2%N, 1)]) = true /\ StrictlyGreaterThanZero (Some [(1%N, 0)]) = false /\
  StrictlyGreaterThanZero None = false /\
  MatchAny (Some [(1%N, 0); (2%N, 1)]) (Some [(2%N, 0)]) = true /\ MatchAny (Some [(1%N, 1)]) (Some [(2%N, 1)]) = false.
Proof. vm_compute. repeat split. Qed.
(* well-formedness matters: with a duplicate key the loop and the lookup disagree *)
Example wf_needed_ex :
  IsZero (Some [(1%N, 0); (1%N, 5)]) = false /\ isZero_spec (Some [(1%N, 0); (1%N, 5)]) = true /\
  DeepEquals (Some [(1%N, 5); (1%N, 5)]) (Some [(1%N, 5); (2%N, 0)]) = true /\
  deepEquals_spec (Some [(1%N, 5); (1%N, 5)]) (Some [(1%N, 5); (2%N, 0)]) = false.
Proof. vm_compute. repeat split. Qed.

Print Assumptions fitIn_forall.
Print Assumptions DeepEquals_spec.
Print Assumptions sgtOnly_eq_spec.
