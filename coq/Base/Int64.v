(* Go int64 arithmetic as used by pkg/common/resources: wrap-around, truncated division,
   and the saturating calculators addVal / subVal / mulVal transcribed from resources.go. *)
From Coq Require Import ZArith Lia Bool.
Open Scope Z_scope.

Definition MIN : Z := - 2^63.
Definition MAX : Z := 2^63 - 1.
Definition in_range (z : Z) : Prop := MIN <= z <= MAX.
Definition in_rangeb (z : Z) : bool := (MIN <=? z) && (z <=? MAX).
Definition wrap64 (z : Z) : Z := ((z + 2^63) mod 2^64) - 2^63.
Definition clamp (z : Z) : Z := if z <? MIN then MIN else if MAX <? z then MAX else z.

(* result := valA + valB; if (result < valA) != (valB < 0) { saturate by sign of valA } *)
Definition addVal (a b : Z) : Z :=
  let r := wrap64 (a + b) in
  if negb (Bool.eqb (r <? a) (b <? 0)) then (if a <? 0 then MIN else MAX) else r.

(* Go: -valB wraps for MinInt64 *)
Definition neg64 (b : Z) : Z := wrap64 (- b).

(* pinned code:  return addVal(valA, -valB)  *)
Definition subVal_pinned (a b : Z) : Z := addVal a (neg64 b).

Definition quot64 (a b : Z) : Z := wrap64 (Z.quot a b).

Definition mulVal (a b : Z) : Z :=
  if (a =? 0) || (b =? 0) then 0 else
  let r := wrap64 (a * b) in
  if negb (quot64 r b =? a) || ((a =? MIN) && (b =? -1)) then
    (if negb (Bool.eqb (a <? 0) (b <? 0)) then MIN else MAX)
  else r.

Definition zmin (a b : Z) := if a <? b then a else b.
Definition zmax (a b : Z) := if a <? b then b else a.

(* current code (after fix ae47c1f):
     if valB == MinInt64 { return addVal(addVal(valA, MaxInt64), 1) }; return addVal(valA, -valB) *)
Definition subVal (a b : Z) : Z :=
  if b =? MIN then addVal (addVal a MAX) 1 else addVal a (neg64 b).
