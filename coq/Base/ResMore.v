(* Further transcriptions from pkg/common/resources/resources.go (definitions only):
   CalculateAbsUsedCapacity, DominantResourceType, TypeMatching, MultiplyTo, FairnessRatio, the pointer
   identity shortcuts (Equals / DeepEquals / MatchAny called with the same pointer twice), and the
   helpers needed to compare order dependent float folds with the Go map iteration. *)
From Coq Require Import List ZArith NArith Bool Lia Floats.SpecFloat.
From YK Require Import Base.Int64 Base.F64 Base.Res.
Import ListNotations.
Open Scope Z_scope.

(* outcome of a function that can panic *)
Inductive crashable (A : Type) := Val (a : A) | Crash.
Arguments Val {A} a. Arguments Crash {A}.

(* ---- CalculateAbsUsedCapacity ---- *)
Definition f_100 : f64 := f_of_Z 100.
Definition maxInt32 : Z := 2147483647.
Definition f_maxInt32 : f64 := f_of_Z maxInt32.
Definition absUsedVal (capV usedV : Z) : Z :=
  if usedV <=? 0 then 0 else
  if capV <=? 0 then 100 else
  let div := f_mul (f_div (f_of_Z usedV) (f_of_Z capV)) f_100 in
  if f_gtb div f_maxInt32 then maxInt32 else f_to_int64 div.
Definition CalculateAbsUsedCapacity (capacity used : ores) : res :=
  match capacity, used with
  | Some c, Some u =>
      fold_left (fun out kv => match get u (fst kv) with
                               | None => out
                               | Some uv => set (fst kv) (absUsedVal (snd kv) uv) out
                               end) c []
  | _, _ => []
  end.

(* ---- DominantResourceType: the loop for ONE iteration order of r.Resources.
   None is the empty string. Ties are broken by the iteration order ("use the latest one"). ---- *)
Definition domTemp (usedVal capVal : Z) : f64 :=
  if capVal =? 0 then (if usedVal =? 0 then f_zero else f_one)
  else f_div (f_of_Z usedVal) (f_of_Z capVal).
Definition DominantResourceType (r capacity : ores) : option tid :=
  match r, capacity with
  | Some rr, Some c =>
      fst (fold_left (fun (acc : option tid * f64) kv =>
                        match get c (fst kv) with
                        | None => acc
                        | Some cv => let t := domTemp (snd kv) cv in
                                     if f_geb t (snd acc) then (Some (fst kv), t) else acc
                        end) rr (None, f_zero))
  | _, _ => None
  end.

(* ---- TypeMatching: uint64(matching * 100 / len(r.Resources)).
   Pinned code: integer divide by zero (panic) for an empty, non-nil receiver.
   Current code (after fix 4153038): an empty receiver returns 0. ---- *)
Definition TypeMatching_pinned (r other : ores) : crashable Z :=
  match r, other with
  | Some rr, Some o =>
      let m := Z.of_nat (length (filter (fun kv => has rr (fst kv)) o)) in
      let n := Z.of_nat (length rr) in
      if n =? 0 then Crash else Val (Z.quot (m * 100) n)
  | _, _ => Val 0
  end.
Definition TypeMatching (r other : ores) : crashable Z :=
  match r, other with
  | Some rr, Some o =>
      let m := Z.of_nat (length (filter (fun kv => has rr (fst kv)) o)) in
      let n := Z.of_nat (length rr) in
      if n =? 0 then Val 0 else Val (Z.quot (m * 100) n)
  | _, _ => Val 0
  end.

(* ---- MultiplyTo (receiver updated in place; nil receiver unchanged) ---- *)
Definition MultiplyTo (r : ores) (ratio : f64) : ores :=
  match r with
  | None => None
  | Some rr => Some (map (fun kv => (fst kv, mulValRatio (snd kv) ratio)) rr)
  end.

(* ---- FairnessRatio ---- *)
Definition lastShare (l : list f64) : f64 := last l f_zero.
Definition FairnessRatio (l r total : ores) : f64 :=
  let ratio := f_div (lastShare (GetShares l total)) (lastShare (GetShares r total)) in
  if f_is_nan ratio then f_one else ratio.

(* ---- pointer identity: the same *Resource passed twice ---- *)
Definition EqualsSame (x : ores) : bool := true.          (* if left == right { return true } *)
Definition DeepEqualsSame (x : ores) : bool := true.
(* nil check first, then r == other. Pinned code returned true for every non-nil resource;
   current code (after fix c4ec55a): return len(r.Resources) > 0 *)
Definition MatchAnySame_pinned (x : ores) : bool := negb (is_nil x).
Definition MatchAnySame (x : ores) : bool := negb (IsEmpty x).

(* ---- all orders of an association list (Go map iteration order is arbitrary) ---- *)
Fixpoint insert_all {A} (x : A) (l : list A) : list (list A) :=
  match l with
  | [] => [[x]]
  | y :: t => (x :: l) :: map (cons y) (insert_all x t)
  end.
Fixpoint perms {A} (l : list A) : list (list A) :=
  match l with
  | [] => [[]]
  | x :: t => flat_map (insert_all x) (perms t)
  end.

(* exact comparison of float results (zero keeps its sign; all NaN are one value) *)
Definition f_same (x y : f64) : bool :=
  match x, y with
  | S754_nan, S754_nan => true
  | S754_zero a, S754_zero b => Bool.eqb a b
  | S754_infinity a, S754_infinity b => Bool.eqb a b
  | S754_finite a m e, S754_finite b m' e' => Bool.eqb a b && Pos.eqb m m' && Z.eqb e e'
  | _, _ => false
  end.
