(* Laws of the vector operations, part 2: component-wise min / max, merge, prune; range and
   well-formedness of results; order independence; nil arguments. *)
From Coq Require Import List ZArith NArith Bool Lia Permutation.
From YK Require Import Base.Int64 Base.Int64Laws Base.F64 Base.Res Base.ResSpec Base.ResLemmas Base.ResLaws.
Import ListNotations.
Open Scope Z_scope.

Lemma zmin_min a b : zmin a b = Z.min a b.
Proof. unfold zmin. destruct (Z.ltb_spec a b); lia. Qed.
Lemma zmax_max a b : zmax a b = Z.max a b.
Proof. unfold zmax. destruct (Z.ltb_spec a b); lia. Qed.

(* ---- ComponentWiseMin ---- *)
Lemma cwMin_get a b k : wf a -> wf b -> get (cwMin a b) k = cwmin_at (get a k) (get b k).
Proof.
  intros Ha Hb. unfold cwMin.
  rewrite (fold_put_get (fun k v => match get a k with Some w => zmin v w | None => v end)) by assumption.
  rewrite (fold_put_get (fun k v => match get b k with Some w => zmin v w | None => v end)) by assumption.
  unfold cwmin_at. destruct (get a k) as [x|], (get b k) as [y|]; try reflexivity.
  rewrite !zmin_min. f_equal. lia.
Qed.
Theorem ComponentWiseMin_get l r k : owf l -> owf r ->
  get (oget (ComponentWiseMin l r)) k = cwmin_at (get (oget l) k) (get (oget r) k).
Proof. unfold owf. intros Hl Hr. destruct l as [a|], r as [b|]; cbn [ComponentWiseMin oget] in *.
  - apply cwMin_get; assumption.
  - unfold cwmin_at. cbn. destruct (get a k); reflexivity.
  - reflexivity.
  - reflexivity. Qed.
Theorem ComponentWiseMin_nil l r : is_nil (ComponentWiseMin l r) = is_nil l && is_nil r.
Proof. destruct l, r; reflexivity. Qed.
Lemma cwMin_wf a b : wf (cwMin a b).
Proof. unfold cwMin.
  apply (fold_put_wf (fun k v => match get a k with Some w => zmin v w | None => v end)).
  apply (fold_put_wf (fun k v => match get b k with Some w => zmin v w | None => v end)). apply wf_nil. Qed.
Lemma ComponentWiseMin_wf l r : owf l -> owf r -> owf (ComponentWiseMin l r).
Proof. unfold owf. destruct l, r; cbn [ComponentWiseMin oget]; auto. intros _ _. apply cwMin_wf. Qed.

(* ---- ComponentWiseMinOnlyExisting ---- *)
Theorem ComponentWiseMinOnlyExisting_get a r k :
  get (oget (ComponentWiseMinOnlyExisting (Some a) r)) k = cwminOnly_at (get a k) (get (oget r) k).
Proof. destruct r as [b|]; cbn [ComponentWiseMinOnlyExisting oget].
  - rewrite (get_map_val (fun k v => match get b k with Some w => zmin v w | None => v end)).
    unfold cwminOnly_at. destruct (get a k), (get b k); try reflexivity. rewrite zmin_min. reflexivity.
  - unfold cwminOnly_at. cbn. destruct (get a k); reflexivity. Qed.
Theorem ComponentWiseMinOnlyExisting_nil l r : is_nil (ComponentWiseMinOnlyExisting l r) = is_nil l.
Proof. destruct l, r; reflexivity. Qed.
Corollary ComponentWiseMinOnlyExisting_keys a r : keys (oget (ComponentWiseMinOnlyExisting (Some a) r)) = keys a.
Proof. destruct r; cbn [ComponentWiseMinOnlyExisting oget]; [apply keys_map_val|reflexivity]. Qed.

(* ---- ComponentWiseMax ---- *)
Theorem ComponentWiseMax_get a b k : wf a -> wf b ->
  get (ComponentWiseMax (Some a) (Some b)) k = cwmax_at (get a k) (get b k).
Proof.
  intros Ha Hb. cbn [ComponentWiseMax].
  rewrite (fold_put_get (fun k v => zmax v (getz a k))) by assumption.
  rewrite (fold_put_get (fun k v => zmax v (getz b k))) by assumption.
  unfold cwmax_at, getz. destruct (get a k) as [x|], (get b k) as [y|]; cbn [oz get]; try reflexivity;
    rewrite !zmax_max; f_equal; lia.
Qed.
Theorem ComponentWiseMax_nil l r : is_nil l || is_nil r = true -> ComponentWiseMax l r = [].
Proof. destruct l, r; cbn; intros H; try discriminate; reflexivity. Qed.
Corollary ComponentWiseMax_getz a b k : wf a -> wf b ->
  getz (ComponentWiseMax (Some a) (Some b)) k = Z.max (getz a k) (getz b k).
Proof. intros Ha Hb. rewrite !getz_get, ComponentWiseMax_get by assumption. unfold cwmax_at.
  destruct (get a k), (get b k); reflexivity. Qed.
Lemma ComponentWiseMax_wf l r : wf (ComponentWiseMax l r).
Proof. destruct l as [a|], r as [b|]; cbn [ComponentWiseMax]; try apply wf_nil.
  apply (fold_put_wf (fun k v => zmax v (getz a k))).
  apply (fold_put_wf (fun k v => zmax v (getz b k))). apply wf_nil. Qed.

(* ---- MergeIfNotPresent ---- *)
Lemma merge_fold_get a b : forall out k, wf b ->
  get (fold_left (fun out kv => if has a (fst kv) then out else set (fst kv) (snd kv) out) b out) k =
  if has a k then get out k else match get b k with Some v => Some v | None => get out k end.
Proof.
  induction b as [|[k' v] t IH]; intros out k Hwf; [destruct (has a k); reflexivity|].
  inversion Hwf as [|? ? Hni Hwt]; subst. cbn [fold_left fst snd]. rewrite IH by assumption.
  rewrite get_cons. destruct (has a k) eqn:Hk.
  - destruct (has a k') eqn:Hk'; [reflexivity|]. rewrite get_set_other; [reflexivity|]. intros ->. congruence.
  - destruct (N.eqb_spec k k') as [->|Hne].
    + assert (get t k' = None) as -> by (apply get_none_iff; assumption). rewrite Hk, get_set_same. reflexivity.
    + destruct (has a k'); [reflexivity|]. rewrite get_set_other by assumption. reflexivity.
Qed.
Theorem MergeIfNotPresent_get l r k : owf r ->
  get (oget (MergeIfNotPresent l r)) k = merge_at (get (oget l) k) (get (oget r) k).
Proof. unfold owf. intros Hr. destruct l as [a|], r as [b|]; cbn [MergeIfNotPresent oget] in *.
  - rewrite merge_fold_get by assumption. unfold merge_at, has. destruct (get a k), (get b k); reflexivity.
  - unfold merge_at. cbn. destruct (get a k); reflexivity.
  - reflexivity.
  - reflexivity. Qed.
Theorem MergeIfNotPresent_nil l r : is_nil (MergeIfNotPresent l r) = is_nil l && is_nil r.
Proof. destruct l, r; reflexivity. Qed.

(* ---- Prune ---- *)
Theorem Prune_get r k : wf r -> get (Prune r) k = prune_at (get r k).
Proof.
  unfold Prune, prune_at. induction r as [|[k' v] t IH]; intros Hwf; [reflexivity|].
  inversion Hwf as [|? ? Hni Hwt]; subst. cbn [filter snd negb]. rewrite get_cons.
  destruct (N.eqb_spec k k') as [->|Hne].
  - destruct (Z.eqb_spec v 0) as [->|Hv]; cbn [negb].
    + rewrite IH by assumption. assert (get t k' = None) as -> by (apply get_none_iff; assumption). reflexivity.
    + rewrite get_cons, N.eqb_refl. reflexivity.
  - destruct (Z.eqb_spec v 0); cbn [negb]; [apply IH; assumption|].
    rewrite get_cons. destruct (N.eqb_spec k k'); [contradiction|apply IH; assumption].
Qed.
Corollary Prune_getz r k : wf r -> getz (Prune r) k = getz r k.
Proof. intros H. rewrite !getz_get, Prune_get by assumption. unfold prune_at.
  destruct (get r k) as [v|]; [|reflexivity]. destruct (Z.eqb_spec v 0) as [->|]; reflexivity. Qed.

(* ---- well-formedness (no duplicate keys) of the remaining results ---- *)
Lemma SubOnlyExisting_wf b d : owf b -> owf (SubOnlyExisting b d).
Proof. unfold owf. destruct b as [bb|], d as [dd|]; cbn [SubOnlyExisting oget]; auto.
  intros H. apply (wf_map_val (fun kv => subVal (snd kv) (getz dd (fst kv)))). assumption. Qed.
Lemma AddOnlyExisting_wf b d : owf b -> owf (AddOnlyExisting b d).
Proof. unfold owf. destruct b as [bb|], d as [dd|]; cbn [AddOnlyExisting oget]; auto.
  intros H. apply (wf_map_val (fun kv => addVal (snd kv) (getz dd (fst kv)))). assumption. Qed.
Lemma Multiply_wf b ratio : owf b -> wf (Multiply b ratio).
Proof. unfold owf. destruct b as [bb|]; cbn [Multiply oget]; [|intros; apply wf_nil].
  destruct (ratio =? 0); [intros; apply wf_nil|]. intros H.
  apply (wf_map_val (fun kv => mulVal (snd kv) ratio)). assumption. Qed.
Lemma ComponentWiseMinOnlyExisting_wf l r : owf l -> owf (ComponentWiseMinOnlyExisting l r).
Proof. unfold owf. destruct l as [a|], r as [b|]; cbn [ComponentWiseMinOnlyExisting oget]; auto.
  intros H. apply (wf_map_val (fun kv => match get b (fst kv) with Some v => zmin (snd kv) v | None => snd kv end)). assumption. Qed.
Lemma merge_fold_wf a b : forall out, wf out ->
  wf (fold_left (fun out kv => if has a (fst kv) then out else set (fst kv) (snd kv) out) b out).
Proof. induction b as [|[k v] t IH]; intros out H; [assumption|]. cbn [fold_left fst snd].
  destruct (has a k); apply IH; [assumption|apply wf_set; assumption]. Qed.
Lemma MergeIfNotPresent_wf l r : owf l -> owf r -> owf (MergeIfNotPresent l r).
Proof. unfold owf. destruct l as [a|], r as [b|]; cbn [MergeIfNotPresent oget]; auto.
  intros Ha _. apply merge_fold_wf. assumption. Qed.
Lemma Prune_wf r : wf r -> wf (Prune r).
Proof. unfold wf, Prune. induction r as [|[k v] t IH]; intros H; [assumption|].
  inversion H as [|? ? Hni Hnd]; subst. cbn [filter snd]. destruct (negb (v =? 0)); [|auto].
  cbn. constructor; [|auto]. intros Hin. apply Hni.
  clear - Hin. induction t as [|[k2 v2] t IH]; [assumption|]. cbn [filter snd] in Hin.
  destruct (negb (v2 =? 0)); cbn in *; [destruct Hin; auto|auto]. Qed.

(* ---- results stay within int64 ---- *)
Lemma pointwise_in_range out : wf out ->
  (forall k v, get out k = Some v -> in_range v) -> res_in_range out.
Proof. apply res_in_range_get. Qed.
Theorem Add_in_range l r : owf l -> owf r -> ores_in_range l -> ores_in_range r -> res_in_range (Add l r).
Proof. intros Hl Hr Hil Hir. apply res_in_range_get; [apply Add_wf; assumption|]. intros k v.
  rewrite Add_get by assumption. unfold add_at. destruct (get (oget r) k).
  - intros E; inversion E; subst. apply clamp_in_range.
  - intros E. gir. Qed.
Theorem Sub_in_range l r : owf l -> owf r -> ores_in_range l -> ores_in_range r -> res_in_range (Sub l r).
Proof. intros Hl Hr Hil Hir. apply res_in_range_get; [apply Sub_wf; assumption|]. intros k v.
  rewrite Sub_get by assumption. unfold sub_at. destruct (get (oget r) k).
  - intros E; inversion E; subst. apply clamp_in_range.
  - intros E. gir. Qed.

(* ---- order independence: the result, as a map, does not depend on the order of the lists ---- *)
Definition same_map (x y : res) : Prop := forall k, get x k = get y k.
Lemma perm_same_map a a' : wf a -> Permutation a a' -> same_map a a'.
Proof. intros Hwf HP k. apply get_perm; assumption. Qed.

Theorem Add_perm a a' b b' : wf b -> Permutation b b' -> same_map a a' ->
  same_map (Add (Some a) (Some b)) (Add (Some a') (Some b')).
Proof. intros Hb HP Ha k. cbn [Add oget]. rewrite !addTo_get; [|eapply wf_perm; eauto|assumption].
  rewrite <- (get_perm b b' k Hb HP), (Ha k). reflexivity. Qed.
Theorem Sub_perm a a' b b' : wf b -> Permutation b b' -> same_map a a' ->
  same_map (Sub (Some a) (Some b)) (Sub (Some a') (Some b')).
Proof. intros Hb HP Ha k. cbn [Sub oget]. rewrite !subFrom_get; [|eapply wf_perm; eauto|assumption].
  rewrite <- (get_perm b b' k Hb HP), (Ha k). reflexivity. Qed.
Theorem SubEliminateNegative_perm a a' b b' : wf b -> Permutation b b' -> same_map a a' ->
  same_map (SubEliminateNegative (Some a) (Some b)) (SubEliminateNegative (Some a') (Some b')).
Proof. intros Hb HP Ha k. unfold SubEliminateNegative. rewrite !subNonNegative_unfold, !subNN_fst. cbn [oget].
  rewrite !(fold_upd_get (fun x y => nonneg (subVal x y))); [|eapply wf_perm; eauto|assumption].
  rewrite <- (get_perm b b' k Hb HP), (Ha k). reflexivity. Qed.
Lemma get_map_val_same_map (f g : tid -> Z -> Z) a a' :
  same_map a a' -> (forall k v, f k v = g k v) ->
  same_map (map (fun kv => (fst kv, f (fst kv) (snd kv))) a) (map (fun kv => (fst kv, g (fst kv) (snd kv))) a').
Proof. intros Ha Hfg k. rewrite !get_map_val, (Ha k). destruct (get a' k); [rewrite Hfg|]; reflexivity. Qed.
Theorem SubOnlyExisting_perm a a' b b' : same_map a a' -> same_map b b' ->
  same_map (oget (SubOnlyExisting (Some a) (Some b))) (oget (SubOnlyExisting (Some a') (Some b'))).
Proof. intros Ha Hb. cbn [SubOnlyExisting oget].
  apply (get_map_val_same_map (fun k v => subVal v (getz b k)) (fun k v => subVal v (getz b' k))); [assumption|].
  intros k v. unfold getz. rewrite (Hb k). reflexivity. Qed.
Theorem AddOnlyExisting_perm a a' b b' : same_map a a' -> same_map b b' ->
  same_map (oget (AddOnlyExisting (Some a) (Some b))) (oget (AddOnlyExisting (Some a') (Some b'))).
Proof. intros Ha Hb. cbn [AddOnlyExisting oget].
  apply (get_map_val_same_map (fun k v => addVal v (getz b k)) (fun k v => addVal v (getz b' k))); [assumption|].
  intros k v. unfold getz. rewrite (Hb k). reflexivity. Qed.
Theorem Multiply_perm a a' ratio : same_map a a' -> same_map (Multiply (Some a) ratio) (Multiply (Some a') ratio).
Proof. intros Ha. cbn [Multiply]. destruct (ratio =? 0); [intros k; reflexivity|].
  apply (get_map_val_same_map (fun _ v => mulVal v ratio) (fun _ v => mulVal v ratio)); auto. Qed.
Theorem ComponentWiseMin_perm a a' b b' : wf a -> wf b -> Permutation a a' -> Permutation b b' ->
  same_map (cwMin a b) (cwMin a' b').
Proof. intros Ha Hb Pa Pb k. rewrite !cwMin_get; try assumption; try (eapply wf_perm; eauto).
  rewrite (get_perm a a' k Ha Pa), (get_perm b b' k Hb Pb). reflexivity. Qed.
Theorem ComponentWiseMax_perm a a' b b' : wf a -> wf b -> Permutation a a' -> Permutation b b' ->
  same_map (ComponentWiseMax (Some a) (Some b)) (ComponentWiseMax (Some a') (Some b')).
Proof. intros Ha Hb Pa Pb k. rewrite !ComponentWiseMax_get; try assumption; try (eapply wf_perm; eauto).
  rewrite (get_perm a a' k Ha Pa), (get_perm b b' k Hb Pb). reflexivity. Qed.
Theorem ComponentWiseMinOnlyExisting_perm a a' b b' : same_map a a' -> same_map b b' ->
  same_map (oget (ComponentWiseMinOnlyExisting (Some a) (Some b))) (oget (ComponentWiseMinOnlyExisting (Some a') (Some b'))).
Proof. intros Ha Hb k. rewrite !ComponentWiseMinOnlyExisting_get. cbn [oget]. rewrite (Ha k), (Hb k). reflexivity. Qed.
Theorem MergeIfNotPresent_perm a a' b b' : wf b -> Permutation b b' -> same_map a a' ->
  same_map (oget (MergeIfNotPresent (Some a) (Some b))) (oget (MergeIfNotPresent (Some a') (Some b'))).
Proof. intros Hb Pb Ha k. rewrite !MergeIfNotPresent_get; [|eapply wf_perm; eauto|assumption]. cbn [oget].
  rewrite (Ha k), (get_perm b b' k Hb Pb). reflexivity. Qed.

(* ---- nil arguments: total functions; nil counts as the empty resource where the code says so ---- *)
Theorem nil_as_empty_vectors l r :
  Add l r = Add (Some (oget l)) (Some (oget r)) /\
  Sub l r = Sub (Some (oget l)) (Some (oget r)) /\
  SubEliminateNegative l r = SubEliminateNegative (Some (oget l)) (Some (oget r)) /\
  SubErrorNegative l r = SubErrorNegative (Some (oget l)) (Some (oget r)).
Proof. destruct l, r; repeat split; reflexivity. Qed.
Theorem nil_results :
  (forall r, Multiply None r = []) /\ (forall r, MultiplyBy None r = []) /\
  (forall r, AddTo None r = None) /\ (forall r, SubFrom None r = None) /\
  (forall l, AddTo l None = l) /\ (forall l, SubFrom l None = l) /\
  (forall d, SubOnlyExisting None d = None) /\ (forall b, SubOnlyExisting b None = b) /\
  (forall d, AddOnlyExisting None d = None) /\ (forall b, AddOnlyExisting b None = b) /\
  (forall r, ComponentWiseMin None r = r) /\ (forall l, ComponentWiseMin l None = l) /\
  (forall r, ComponentWiseMinOnlyExisting None r = None) /\ (forall l, ComponentWiseMinOnlyExisting l None = l) /\
  (forall r, ComponentWiseMax None r = []) /\ (forall l, ComponentWiseMax l None = []) /\
  (forall r, MergeIfNotPresent None r = r) /\ (forall l, MergeIfNotPresent l None = l).
Proof. repeat split; intros x; destruct x; reflexivity. Qed.
Theorem nil_as_empty_predicates r s sk ac :
  fitIn r s sk ac = fitIn (Some (oget r)) (Some (oget s)) sk ac /\
  StrictlyGreaterThan r s = StrictlyGreaterThan (Some (oget r)) (Some (oget s)) /\
  StrictlyGreaterThanOrEquals r s = StrictlyGreaterThanOrEquals (Some (oget r)) (Some (oget s)) /\
  (forall e, internalStrictlyOnlyExisting r s e = internalStrictlyOnlyExisting (Some (oget r)) (Some (oget s)) e) /\
  IsZero r = IsZero (Some (oget r)) /\ IsEmpty r = IsEmpty (Some (oget r)) /\
  HasNegativeValue r = HasNegativeValue (Some (oget r)).
Proof. destruct r, s; repeat split; reflexivity. Qed.

(* non-trivial instances *)
Example Add_example :
  Add (Some [(1%N, MAX); (2%N, 5)]) (Some [(2%N, -7); (1%N, 1); (3%N, MIN)]) = [(1%N, MAX); (2%N, -2); (3%N, MIN)].
Proof. vm_compute. reflexivity. Qed.
Example Sub_example :
  Sub (Some [(1%N, 0); (2%N, -5)]) (Some [(1%N, MIN); (2%N, MIN)]) = [(1%N, MAX); (2%N, MAX - 4)].
Proof. vm_compute. reflexivity. Qed.

(* ---- SubEliminateNegative as documented ("all negative values are reset to 0") ----
   FULL documented statement:  get (SubEliminateNegative l r) k = subElimDoc_at (get l k) (get r k).
   The code (and the model) reset only the types of the right operand, so the documented statement is
   refuted by a type that only the left operand has with a negative value; outside that window it
   holds. Known finding C18-subelim-left-negative. *)
Theorem SubEliminateNegative_doc_refuted :
  exists l r k, owf l /\ owf r /\ ores_in_range l /\ ores_in_range r /\
    get (SubEliminateNegative l r) k <> subElimDoc_at (get (oget l) k) (get (oget r) k) /\
    snd (SubErrorNegative l r) <> some_key subNegDoc_at (oget l) (oget r).
Proof.
  exists (Some [(1%N, -3)]), (Some [(2%N, -1)]), 1%N.
  assert (Hr : forall z, -10 <= z <= 10 -> in_range z) by (unfold in_range, MIN, MAX; lia).
  split; [unfold owf, wf; cbn; constructor; [intros []|constructor]|].
  split; [unfold owf, wf; cbn; constructor; [intros []|constructor]|].
  split; [unfold ores_in_range, res_in_range; cbn; constructor; [apply Hr; cbn; lia|constructor]|].
  split; [unfold ores_in_range, res_in_range; cbn; constructor; [apply Hr; cbn; lia|constructor]|].
  split; vm_compute; intro H; discriminate H.
Qed.
Theorem SubEliminateNegative_doc_partial l r k : owf r -> ores_in_range l -> ores_in_range r ->
  left_only_negative_at (get (oget l) k) (get (oget r) k) = false ->
  get (SubEliminateNegative l r) k = subElimDoc_at (get (oget l) k) (get (oget r) k).
Proof.
  intros Hwf Hl Hr Hw. rewrite SubEliminateNegative_get by assumption.
  unfold subElim_at, subElimDoc_at, sub_at, left_only_negative_at in *.
  destruct (get (oget r) k) as [y|]; [reflexivity|].
  destruct (get (oget l) k) as [v|]; [|reflexivity].
  destruct (Z.ltb_spec v 0); [discriminate|]. f_equal. lia.
Qed.
