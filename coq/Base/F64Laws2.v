(* mulValRatio_clamp at full strength: with the canonicity of SpecFloat's product and integer
   conversion (Base/F64Valid.v, proved over plain SpecFloat without axioms) the hypothesis of
   mulValRatio_clamp_partial is discharged for every int64-or-not value and every non-NaN ratio. *)
From Coq Require Import ZArith Lia Bool Floats.SpecFloat List.
From YK Require Import Base.Int64 Base.Int64Laws Base.F64 Base.Res Base.ResSpec Base.ResLemmas Base.ResLaws
  Base.F64Laws Base.F64Valid.
Import ListNotations.
Open Scope Z_scope.

(* a product of canonical non-zero data is a canonical datum (never NaN) *)
Lemma f_mul_f_valid x y :
  f_valid x = true -> f_valid y = true -> f_is_zero x = false -> f_is_zero y = false ->
  f_valid (f_mul x y) = true.
Proof.
  destruct x as [sx|sx| |sx mx ex], y as [sy|sy| |sy my ey]; cbn [f_valid f_is_zero];
    intros Hx Hy Zx Zy; try discriminate; try reflexivity.
  unfold f_mul. cbn [SFmul].
  destruct (bra_cases prec emax prec_pos (xorb sx sy) (mx * my) (ex + ey) loc_Exact
              (mul_precanonical prec emax prec_lt_emax mx ex my ey Hx Hy))
    as [[-> _]|[->|(m2 & e2 & -> & Hb)]]; [reflexivity|reflexivity|exact Hb].
Qed.

Lemma f_of_Z_f_valid v : v <> 0 -> f_valid (f_of_Z v) = true /\ f_is_zero (f_of_Z v) = false.
Proof. intros Hv. destruct (f_of_Z_finite_bounded v Hv) as [s [->|(m & e & -> & Hb)]]; split; try reflexivity. exact Hb. Qed.

(* every non-NaN ratio (canonical finite values, zeros, infinities), every value *)
Theorem mulValRatio_clamp v r : f_valid r = true -> mulValRatio v r = mulValRatio_spec v r.
Proof.
  intros Hr. destruct (Z.eq_dec v 0) as [->|Hv].
  - unfold mulValRatio, mulValRatio_spec. cbn [Z.eqb orb]. change (f_of_Z 0) with (S754_zero false).
    destruct r as [s|s| |s m e]; try discriminate; reflexivity.
  - destruct (f_of_Z_f_valid v Hv) as [Hx Zx].
    destruct (f_is_zero r) eqn:Zr.
    + unfold mulValRatio, mulValRatio_spec. rewrite Zr, orb_true_r.
      destruct r as [s|s| |s m e]; try discriminate.
      destruct (f_of_Z v) as [s'|s'| |s' m' e']; try discriminate; reflexivity.
    + apply mulValRatio_clamp_partial. apply f_mul_f_valid; assumption.
Qed.
Print Assumptions mulValRatio_clamp.

Theorem MultiplyBy_spec b ratio k : f_valid ratio = true ->
  get (MultiplyBy b ratio) k = mulBy_at ratio (get (oget b) k).
Proof. intros Hr. rewrite ResLaws.MultiplyBy_get. unfold mulBy_at. destruct (get (oget b) k) as [x|]; [|reflexivity].
  destruct (f_is_zero ratio); [reflexivity|]. rewrite mulValRatio_clamp by assumption. reflexivity. Qed.

(* the float -> Coq encoding used by the harness always yields canonical data *)
Lemma f_make_valid kind s m e : kind <> 2 -> f_valid (f_make kind s m e) = true \/ f_make kind s m e = S754_nan.
Proof. intros Hk. unfold f_make. destruct (Z.eqb_spec kind 1); [left; reflexivity|].
  destruct (Z.eqb_spec kind 2); [contradiction|].
  assert (H : forall z, f_valid (binary_normalize prec emax z e false) = true \/ binary_normalize prec emax z e false = S754_nan).
  { intros z. pose proof (binary_normalize_valid prec emax prec_pos z e false) as Hv.
    destruct (binary_normalize prec emax z e false); cbn in *; auto. }
  destruct m; [left; reflexivity| |]; apply H. Qed.

Example mulValRatio_clamp_examples :
  mulValRatio MAX f_one = clamp (2^63) /\ mulValRatio (2^62) (f_of_Z 2) = clamp (2^63) /\
  mulValRatio 3 (S754_infinity true) = MIN /\ mulValRatio 0 (S754_infinity false) = 0.
Proof. vm_compute. repeat split. Qed.
