(* Validity (canonicity) of the results of SpecFloat multiplication and integer conversion,
   proved purely in Z over Coq.Floats.SpecFloat (no Flocq, no Reals, no axioms).
   This is the validity half of Flocq's binary_round_aux_correct / Bmult_correct.

   Generic part: Section Valid, for any format with 0 < pr < em.
   Instances at binary64 (prec = 53, emax = 1024): f_mul_valid, f_of_Z_valid, f_of_Z_finite. *)
From Coq Require Import ZArith Lia Bool Floats.SpecFloat.
From YK Require Import Base.F64.
Open Scope Z_scope.

(* ---------- digits ---------- *)

Definition dg (m : positive) : Z := Zpos (digits2_pos m).

Lemma digits2_pos_size m : digits2_pos m = Pos.size m.
Proof. induction m as [m IH|m IH|]; cbn [digits2_pos Pos.size]; now rewrite ?IH. Qed.

Lemma dg_pos m : 1 <= dg m.
Proof. unfold dg; lia. Qed.

Lemma dg_xO m : dg m~0 = dg m + 1.
Proof. unfold dg; cbn [digits2_pos]; lia. Qed.

Lemma dg_xI m : dg m~1 = dg m + 1.
Proof. unfold dg; cbn [digits2_pos]; lia. Qed.

Lemma pow2_succ k : 0 <= k -> 2 ^ (k + 1) = 2 * 2 ^ k.
Proof. intros Hk. replace (k + 1) with (Z.succ k) by lia. now apply Z.pow_succ_r. Qed.

Lemma pow2_pos k : 0 <= k -> 0 < 2 ^ k.
Proof. intros Hk. apply Z.pow_pos_nonneg; lia. Qed.

Lemma dg_bounds m : 2 ^ (dg m - 1) <= Zpos m < 2 ^ (dg m).
Proof.
  induction m as [m IH|m IH|].
  - rewrite dg_xI. replace (dg m + 1 - 1) with (dg m - 1 + 1) by lia.
    pose proof (dg_pos m) as Hd.
    rewrite !pow2_succ by lia. rewrite (Pos2Z.inj_xI m). lia.
  - rewrite dg_xO. replace (dg m + 1 - 1) with (dg m - 1 + 1) by lia.
    pose proof (dg_pos m) as Hd.
    rewrite !pow2_succ by lia. rewrite (Pos2Z.inj_xO m). lia.
  - change (dg 1) with 1. rewrite Z.pow_1_r. change (1 - 1) with 0. rewrite Z.pow_0_r. lia.
Qed.

Lemma dg_lt_pow m k : Zpos m < 2 ^ k -> dg m <= k.
Proof.
  intros H. destruct (Z_le_gt_dec (dg m) k) as [Hle|Hgt]; [exact Hle|exfalso].
  pose proof (dg_bounds m) as Hb.
  assert (Hp : 2 ^ k <= 2 ^ (dg m - 1)) by (apply Z.pow_le_mono_r; lia).
  lia.
Qed.

Lemma dg_ge_pow m k : 2 ^ k <= Zpos m -> k + 1 <= dg m.
Proof.
  intros H. destruct (Z_le_gt_dec (k + 1) (dg m)) as [Hle|Hgt]; [exact Hle|exfalso].
  pose proof (dg_bounds m) as Hb.
  assert (Hp : 2 ^ (dg m) <= 2 ^ k) by (apply Z.pow_le_mono_r; lia).
  lia.
Qed.

(* the workhorse: characterisation of the number of digits *)
Lemma dg_unique m k : 2 ^ (k - 1) <= Zpos m < 2 ^ k -> dg m = k.
Proof.
  intros [Hlo Hhi]. apply dg_lt_pow in Hhi. apply dg_ge_pow in Hlo. lia.
Qed.

Lemma dg_mono a b : Zpos a <= Zpos b -> dg a <= dg b.
Proof.
  intros H. apply dg_lt_pow. pose proof (dg_bounds b) as Hb. lia.
Qed.

(* digits of a quotient by a power of two *)
Lemma dg_div m n q : 0 <= n -> Zpos m / 2 ^ n = Zpos q -> dg q = dg m - n.
Proof.
  intros Hn Hq.
  pose proof (pow2_pos n Hn) as HB.
  pose proof (dg_bounds m) as Hb.
  assert (Hge : 2 ^ n <= Zpos m).
  { destruct (Z_le_gt_dec (2 ^ n) (Zpos m)) as [Hle|Hgt]; [exact Hle|exfalso].
    rewrite Z.div_small in Hq by lia. discriminate Hq. }
  apply dg_ge_pow in Hge.
  apply dg_unique. rewrite <- Hq. split.
  - apply Z.div_le_lower_bound; [exact HB|].
    rewrite <- Z.pow_add_r by lia.
    replace (n + (dg m - n - 1)) with (dg m - 1) by lia. apply Hb.
  - apply Z.div_lt_upper_bound; [exact HB|].
    rewrite <- Z.pow_add_r by lia.
    replace (n + (dg m - n)) with (dg m) by lia. apply Hb.
Qed.

Lemma div_zero_dg m n : 0 <= n -> Zpos m / 2 ^ n = 0 -> dg m <= n.
Proof.
  intros Hn Hq. pose proof (pow2_pos n Hn) as HB.
  apply dg_lt_pow.
  destruct (Z_le_gt_dec (2 ^ n) (Zpos m)) as [Hle|Hgt]; [exfalso|lia].
  assert (H1 : 1 <= Zpos m / 2 ^ n) by (apply Z.div_le_lower_bound; lia).
  lia.
Qed.

Lemma div_pow_cases m n : 0 <= n ->
  (Zpos m / 2 ^ n = 0 /\ dg m <= n) \/
  (exists q, Zpos m / 2 ^ n = Zpos q /\ dg q = dg m - n).
Proof.
  intros Hn. pose proof (pow2_pos n Hn) as HB.
  destruct (Zpos m / 2 ^ n) as [|q|q] eqn:E.
  - left. split; [reflexivity|]. now apply div_zero_dg.
  - right. exists q. split; [reflexivity|]. now apply dg_div.
  - exfalso. assert (H0 : 0 <= Zpos m / 2 ^ n) by (apply Z.div_pos; lia). lia.
Qed.

(* digits of a product and of a left shift *)
Lemma dg_mul_ge a b : dg a + dg b - 1 <= dg (a * b).
Proof.
  pose proof (dg_bounds a) as Ha. pose proof (dg_bounds b) as Hb.
  pose proof (dg_pos a) as Hda. pose proof (dg_pos b) as Hdb.
  assert (H : 2 ^ (dg a + dg b - 2) <= Zpos (a * b)).
  { replace (dg a + dg b - 2) with ((dg a - 1) + (dg b - 1)) by lia.
    rewrite Z.pow_add_r by lia. rewrite Pos2Z.inj_mul.
    apply Z.mul_le_mono_nonneg; try lia;
      apply Z.lt_le_incl, pow2_pos; lia. }
  apply dg_ge_pow in H. lia.
Qed.

Lemma shift_pos_Z d m : Zpos (shift_pos d m) = Zpos m * 2 ^ (Zpos d).
Proof. rewrite shift_pos_correct. change (Z.pow_pos 2 d) with (2 ^ Zpos d). apply Z.mul_comm. Qed.

Lemma dg_shift d m : dg (shift_pos d m) = dg m + Zpos d.
Proof.
  pose proof (dg_bounds m) as Hb. pose proof (dg_pos m) as Hd.
  assert (HB : 0 < 2 ^ Zpos d) by (apply pow2_pos; lia).
  apply dg_unique. rewrite shift_pos_Z. split.
  - replace (dg m + Zpos d - 1) with ((dg m - 1) + Zpos d) by lia.
    rewrite Z.pow_add_r by lia. apply Z.mul_le_mono_nonneg_r; lia.
  - rewrite Z.pow_add_r by lia. apply Z.mul_lt_mono_pos_r; lia.
Qed.

(* ---------- semantics of the right shift ---------- *)

Lemma shr_1_m mrs : 0 <= shr_m mrs -> shr_m (shr_1 mrs) = shr_m mrs / 2.
Proof.
  destruct mrs as [m r s]. cbn [shr_m]. intros Hm. rewrite <- Z.div2_div.
  destruct m as [|[p|p|]|p]; try reflexivity. lia.
Qed.

Lemma iter_shr_m p : forall mrs, 0 <= shr_m mrs ->
  shr_m (iter_pos shr_1 p mrs) = shr_m mrs / 2 ^ (Zpos p).
Proof.
  induction p as [p IH|p IH|]; intros mrs Hm; cbn [iter_pos].
  - assert (HB : 0 < 2 ^ Zpos p) by (apply pow2_pos; lia).
    assert (H1 : 0 <= shr_m (shr_1 mrs)) by (rewrite shr_1_m by exact Hm; apply Z.div_pos; lia).
    assert (H2 : 0 <= shr_m (iter_pos shr_1 p (shr_1 mrs))) by (rewrite IH by exact H1; apply Z.div_pos; lia).
    rewrite IH by exact H2. rewrite IH by exact H1. rewrite shr_1_m by exact Hm.
    rewrite !Z.div_div by lia. f_equal.
    replace (Zpos p~1) with (1 + Zpos p + Zpos p) by lia.
    rewrite !Z.pow_add_r by lia. rewrite Z.pow_1_r. ring.
  - assert (HB : 0 < 2 ^ Zpos p) by (apply pow2_pos; lia).
    assert (H2 : 0 <= shr_m (iter_pos shr_1 p mrs)) by (rewrite IH by exact Hm; apply Z.div_pos; lia).
    rewrite IH by exact H2. rewrite IH by exact Hm.
    rewrite !Z.div_div by lia. f_equal.
    replace (Zpos p~0) with (Zpos p + Zpos p) by lia.
    rewrite !Z.pow_add_r by lia. reflexivity.
  - rewrite shr_1_m by exact Hm. rewrite Z.pow_1_r. reflexivity.
Qed.

Lemma shr_spec mrs e n : 0 <= shr_m mrs -> 0 <= n ->
  exists mrs', shr mrs e n = (mrs', e + n) /\ shr_m mrs' = shr_m mrs / 2 ^ n.
Proof.
  intros Hm Hn. destruct n as [|p|p]; cbn [shr].
  - exists mrs. rewrite Z.add_0_r, Z.pow_0_r, Z.div_1_r. split; reflexivity.
  - exists (iter_pos shr_1 p mrs). split; [reflexivity|]. now apply iter_shr_m.
  - lia.
Qed.

Lemma shr_m_of_loc m l : shr_m (shr_record_of_loc m l) = m.
Proof. destruct l as [|[| |]]; reflexivity. Qed.

Lemma round_cases m l : round_nearest_even m l = m \/ round_nearest_even m l = m + 1.
Proof.
  destruct l as [|[| |]]; cbn [round_nearest_even]; try (left; reflexivity); try (right; reflexivity).
  destruct (Z.even m); [left|right]; reflexivity.
Qed.

(* ---------- generic format ---------- *)

Section Valid.
Variables pr em : Z.
Hypothesis Hpr : 0 < pr.
Hypothesis Hem : pr < em.

Notation fexp := (SpecFloat.fexp pr em).
Notation emin := (SpecFloat.emin pr em).

Lemma fexp_eq x : fexp x = Z.max (x - pr) (3 - em - pr).
Proof. reflexivity. Qed.

Lemma fexp_mono a b : a <= b -> fexp a <= fexp b.
Proof. rewrite !fexp_eq. lia. Qed.

Lemma fexp_ge_emin x : emin <= fexp x.
Proof. rewrite fexp_eq. unfold SpecFloat.emin. lia. Qed.

Lemma fexp_succ x : fexp (x + 1) = fexp x \/ fexp (x + 1) = fexp x + 1.
Proof. rewrite !fexp_eq. lia. Qed.

Lemma emin_nonpos : emin <= 0.
Proof. unfold SpecFloat.emin. lia. Qed.

(* first or second shift of binary_round_aux on a positive mantissa whose exponent is not
   above the canonical one *)
Lemma shr_fexp_pos m e l : e <= fexp (dg m + e) ->
  exists mrs, shr_fexp pr em (Zpos m) e l = (mrs, fexp (dg m + e)) /\
              shr_m mrs = Zpos m / 2 ^ (fexp (dg m + e) - e).
Proof.
  intros Hpc. unfold shr_fexp. change (Zdigits2 (Zpos m)) with (dg m).
  destruct (shr_spec (shr_record_of_loc (Zpos m) l) e (fexp (dg m + e) - e)) as (mrs & E & M).
  - rewrite shr_m_of_loc. lia.
  - lia.
  - exists mrs. rewrite E, M, shr_m_of_loc. split; [|reflexivity].
    f_equal. lia.
Qed.

Lemma shr_fexp_zero e l :
  exists mrs e', shr_fexp pr em 0 e l = (mrs, e') /\ shr_m mrs = 0.
Proof.
  unfold shr_fexp, shr.
  destruct (fexp (Zdigits2 0 + e) - e) as [|p|p]; do 2 eexists; (split; [reflexivity|]).
  - apply shr_m_of_loc.
  - rewrite iter_shr_m by (rewrite shr_m_of_loc; lia). rewrite shr_m_of_loc. reflexivity.
  - apply shr_m_of_loc.
Qed.

(* the tail of binary_round_aux *)
Definition finish (s : bool) (r : shr_record * Z) : spec_float :=
  let '(mrs'', e'') := r in
  match shr_m mrs'' with
  | Z0 => S754_zero s
  | Zpos m => if Zle_bool e'' (em - pr) then S754_finite s m e'' else S754_infinity s
  | _ => S754_nan
  end.

Lemma bra_unfold s mx ex lx :
  binary_round_aux pr em s mx ex lx =
  finish s (shr_fexp pr em
              (round_nearest_even (shr_m (fst (shr_fexp pr em mx ex lx)))
                                  (loc_of_shr_record (fst (shr_fexp pr em mx ex lx))))
              (snd (shr_fexp pr em mx ex lx)) loc_Exact).
Proof. unfold binary_round_aux. destruct (shr_fexp pr em mx ex lx) as [mrs e']. reflexivity. Qed.

Lemma stage2 s p1 e1 : emin <= e1 -> e1 <= fexp (dg p1 + e1) ->
  finish s (shr_fexp pr em (Zpos p1) e1 loc_Exact) = S754_infinity s \/
  exists m2 e2, finish s (shr_fexp pr em (Zpos p1) e1 loc_Exact) = S754_finite s m2 e2 /\
                bounded pr em m2 e2 = true.
Proof.
  intros Hmin Hpc.
  destruct (shr_fexp_pos p1 e1 loc_Exact Hpc) as (mrs & E & M). rewrite E.
  pose proof (dg_pos p1) as Hd1.
  pose proof (fexp_eq (dg p1 + e1)) as Hf.
  remember (fexp (dg p1 + e1)) as e2 eqn:He2.
  unfold finish.
  destruct (div_pow_cases p1 (e2 - e1)) as [(Z0 & Hd)|(q & Eq & Hq)]; [lia| |].
  - exfalso. unfold SpecFloat.emin in Hmin. lia.
  - rewrite M, Eq. destruct (Zle_bool e2 (em - pr)) eqn:B; [right|left; reflexivity].
    exists q, e2. split; [reflexivity|].
    unfold bounded, canonical_mantissa. rewrite B, andb_true_r.
    apply Zeq_is_eq_bool. fold (dg q).
    replace (dg q + e2) with (dg p1 + e1) by lia. symmetry; exact He2.
Qed.

(* Key lemma: binary_round_aux on a pre-canonical (m, e) returns a zero (only on underflow),
   an infinity, or a bounded finite number. *)
Lemma bra_cases s m e l : e <= fexp (dg m + e) ->
  (binary_round_aux pr em s (Zpos m) e l = S754_zero s /\ dg m + e <= emin) \/
  binary_round_aux pr em s (Zpos m) e l = S754_infinity s \/
  exists m2 e2, binary_round_aux pr em s (Zpos m) e l = S754_finite s m2 e2 /\
                bounded pr em m2 e2 = true.
Proof.
  intros Hpc. rewrite bra_unfold.
  destruct (shr_fexp_pos m e l Hpc) as (mrs & E & M). rewrite E. cbn [fst snd].
  pose proof (dg_pos m) as Hd.
  pose proof (fexp_eq (dg m + e)) as Hf.
  pose proof (fexp_ge_emin (dg m + e)) as Hge.
  remember (fexp (dg m + e)) as e1 eqn:He1.
  pose proof (round_cases (shr_m mrs) (loc_of_shr_record mrs)) as Hr.
  remember (round_nearest_even (shr_m mrs) (loc_of_shr_record mrs)) as m1 eqn:Hm1.
  clear Hm1.
  destruct (div_pow_cases m (e1 - e)) as [(Z0 & Hd0)|(q & Eq & Hq)]; [lia| |].
  - (* the first shift flushed the mantissa to zero: e1 = emin *)
    rewrite Z0 in M.
    assert (He1min : e1 = emin) by (unfold SpecFloat.emin; lia).
    destruct Hr as [Hr|Hr]; rewrite M in Hr.
    + left. rewrite Hr.
      destruct (shr_fexp_zero e1 loc_Exact) as (mrs2 & e2 & E2 & M2).
      rewrite E2. unfold finish. rewrite M2. split; [reflexivity|]. unfold SpecFloat.emin. lia.
    + right. rewrite Hr. change (0 + 1) with (Zpos 1).
      apply stage2; [lia|]. rewrite He1min. apply fexp_ge_emin.
  - rewrite Eq in M.
    assert (Hm1 : exists p1, m1 = Zpos p1 /\ Zpos q <= Zpos p1).
    { destruct Hr as [Hr|Hr]; rewrite M in Hr.
      - exists q. split; [exact Hr|lia].
      - exists (q + 1)%positive. split; [rewrite Hr; lia|lia]. }
    destruct Hm1 as (p1 & Hp1 & Hle). rewrite Hp1. right.
    apply stage2; [exact Hge|].
    apply dg_mono in Hle.
    assert (Hmono : fexp (dg q + e1) <= fexp (dg p1 + e1)) by (apply fexp_mono; lia).
    replace (dg q + e1) with (dg m + e) in Hmono by lia.
    rewrite <- He1 in Hmono. exact Hmono.
Qed.

Lemma binary_round_aux_valid s m e l : e <= fexp (dg m + e) ->
  valid_binary pr em (binary_round_aux pr em s (Zpos m) e l) = true.
Proof.
  intros Hpc.
  destruct (bra_cases s m e l Hpc) as [(E & _)|[E|(m2 & e2 & E & B)]]; rewrite E; try reflexivity.
  exact B.
Qed.

Lemma binary_round_aux_nonzero s m e l : e <= fexp (dg m + e) -> emin < dg m + e ->
  binary_round_aux pr em s (Zpos m) e l = S754_infinity s \/
  exists m2 e2, binary_round_aux pr em s (Zpos m) e l = S754_finite s m2 e2 /\
                bounded pr em m2 e2 = true.
Proof.
  intros Hpc Hlt.
  destruct (bra_cases s m e l Hpc) as [(_ & Hle)|H]; [lia|exact H].
Qed.

(* ---------- multiplication ---------- *)

Lemma bounded_canonical m e : bounded pr em m e = true -> fexp (dg m + e) = e.
Proof.
  unfold bounded, canonical_mantissa. intros H. apply andb_true_iff in H. destruct H as [H _].
  apply Zeq_is_eq_bool in H. exact H.
Qed.

Lemma mul_precanonical mx ex my ey :
  bounded pr em mx ex = true -> bounded pr em my ey = true ->
  ex + ey <= fexp (dg (mx * my) + (ex + ey)).
Proof.
  intros Bx By. apply bounded_canonical in Bx. apply bounded_canonical in By.
  rewrite fexp_eq in *.
  pose proof (dg_mul_ge mx my) as Hm.
  pose proof (dg_pos mx) as Hdx. pose proof (dg_pos my) as Hdy.
  lia.
Qed.

Theorem SFmul_valid x y :
  valid_binary pr em x = true -> valid_binary pr em y = true ->
  valid_binary pr em (SFmul pr em x y) = true.
Proof.
  intros Vx Vy.
  destruct x as [sx|sx| |sx mx ex], y as [sy|sy| |sy my ey]; try reflexivity.
  cbn [SFmul]. cbn [valid_binary] in Vx, Vy.
  apply binary_round_aux_valid. now apply mul_precanonical.
Qed.

(* ---------- binary_round / binary_normalize ---------- *)

Lemma shl_align_spec m e e' :
  dg (fst (shl_align m e e')) + snd (shl_align m e e') = dg m + e /\
  snd (shl_align m e e') <= e'.
Proof.
  unfold shl_align. destruct (e' - e) as [|d|d] eqn:D; cbn [fst snd].
  - lia.
  - lia.
  - rewrite dg_shift. lia.
Qed.

Lemma binary_round_cases s m e :
  (binary_round pr em s m e = S754_zero s /\ dg m + e <= emin) \/
  binary_round pr em s m e = S754_infinity s \/
  exists m2 e2, binary_round pr em s m e = S754_finite s m2 e2 /\ bounded pr em m2 e2 = true.
Proof.
  unfold binary_round. fold (dg m).
  destruct (shl_align_spec m e (fexp (dg m + e))) as [Hd Hle].
  destruct (shl_align m e (fexp (dg m + e))) as [mz ez]. cbn [fst snd] in Hd, Hle.
  rewrite <- Hd. apply bra_cases. rewrite Hd. exact Hle.
Qed.

Lemma binary_round_valid s m e : valid_binary pr em (binary_round pr em s m e) = true.
Proof.
  destruct (binary_round_cases s m e) as [(E & _)|[E|(m2 & e2 & E & B)]]; rewrite E; try reflexivity.
  exact B.
Qed.

Theorem binary_normalize_valid m e sz : valid_binary pr em (binary_normalize pr em m e sz) = true.
Proof. destruct m as [|p|p]; cbn [binary_normalize]; [reflexivity| |]; apply binary_round_valid. Qed.

Lemma binary_round_nonzero s m e : emin < dg m + e ->
  binary_round pr em s m e = S754_infinity s \/
  exists m2 e2, binary_round pr em s m e = S754_finite s m2 e2 /\ bounded pr em m2 e2 = true.
Proof.
  intros Hlt. destruct (binary_round_cases s m e) as [(_ & Hle)|H]; [lia|exact H].
Qed.

Theorem binary_normalize_nonzero m e sz : m <> 0 -> emin < Zdigits2 m + e ->
  exists s, binary_normalize pr em m e sz = S754_infinity s \/
            exists m2 e2, binary_normalize pr em m e sz = S754_finite s m2 e2 /\
                          bounded pr em m2 e2 = true.
Proof.
  intros Hm Hlt. destruct m as [|p|p]; [congruence| |]; cbn [binary_normalize Zdigits2] in *.
  - exists false. now apply binary_round_nonzero.
  - exists true. now apply binary_round_nonzero.
Qed.

End Valid.

(* ---------- binary64 instances ---------- *)

Lemma prec_pos : 0 < prec. Proof. reflexivity. Qed.
Lemma prec_lt_emax : prec < emax. Proof. reflexivity. Qed.

Theorem f_mul_valid x y :
  valid_binary prec emax x = true -> valid_binary prec emax y = true ->
  valid_binary prec emax (f_mul x y) = true.
Proof. apply (SFmul_valid prec emax prec_pos prec_lt_emax). Qed.

Theorem f_of_Z_valid v : valid_binary prec emax (f_of_Z v) = true.
Proof. apply (binary_normalize_valid prec emax prec_pos). Qed.

(* a non-zero integer converts to a bounded finite number or (never, in fact, for int64) to an
   infinity: not to a zero and not to NaN *)
Theorem f_of_Z_finite_bounded v : v <> 0 ->
  exists s, f_of_Z v = S754_infinity s \/
            exists m e, f_of_Z v = S754_finite s m e /\ bounded prec emax m e = true.
Proof.
  intros Hv. apply (binary_normalize_nonzero prec emax prec_pos); [exact Hv|].
  assert (H1 : 1 <= Zdigits2 v) by (destruct v as [|p|p]; [congruence| |]; apply (dg_pos p)).
  change (SpecFloat.emin prec emax) with (-1074). lia.
Qed.

Theorem f_of_Z_finite v : v <> 0 ->
  exists s m e, f_of_Z v = S754_finite s m e \/ f_of_Z v = S754_infinity s.
Proof.
  intros Hv. destruct (f_of_Z_finite_bounded v Hv) as (s & [E|(m & e & E & _)]).
  - exists s, 1%positive, 0. right. exact E.
  - exists s, m, e. left. exact E.
Qed.

Corollary f_of_Z_not_zero_nan v : v <> 0 ->
  (forall s, f_of_Z v <> S754_zero s) /\ f_of_Z v <> S754_nan.
Proof.
  intros Hv. destruct (f_of_Z_finite v Hv) as (s & m & e & [E|E]); rewrite E; split; try intros ?; discriminate.
Qed.

Example f_mul_valid_ex :
  valid_binary prec emax (f_mul (f_of_Z 9223372036854775807) (f_of_Z 1)) = true.
Proof. vm_compute. reflexivity. Qed.

Example f_of_Z_valid_ex : valid_binary prec emax (f_of_Z (-9223372036854775808)) = true.
Proof. vm_compute. reflexivity. Qed.

Print Assumptions f_mul_valid.
Print Assumptions f_of_Z_valid.
Print Assumptions f_of_Z_finite.
