(* Tie theorems (C18, C19): getShareFairForDenominator, getFairShare, CompUsageRatioSeparately (float64). *)
From Coq Require Import List ZArith NArith Bool Lia ZifyBool ZifyN ZifyNat Floats.SpecFloat.
From YK Require Import Base.Int64 Base.F64 Base.Res Base.ResMore Base.ResSpec Base.ResLemmas
  Generated.GoPrelude Generated.GoResources Base.GoTieLib Base.GoTieRep.
Import ListNotations.
Open Scope Z_scope.

(* ================================================================ fair share helpers *)
Theorem gotie_getShareFairForDenominator k alloc den :
  GoResources.getShareFairForDenominator k alloc (toR den) = GOk (Res.shareFairDenom k alloc den).
Proof.
  unfold GoResources.getShareFairForDenominator, Res.shareFairDenom.
  destruct den as [d|]; [|reflexivity].
  cbn [toR option_map is_nil deref gbind mkR Resource_Resources]. cbv zeta.
  rewrite mget0_getz, mhas_has. unfold getz, has.
  destruct (get d k) as [dv|]; cbn [andb].
  - destruct (Z.leb_spec dv 0).
    + destruct (alloc <=? 0); reflexivity.
    + replace (0 <? dv) with true by lia. reflexivity.
  - reflexivity.
Qed.

Theorem gotie_getFairShare a g f : owf a ->
  GoResources.getFairShare (toR a) (toR g) (toR f) = GOk (Res.getFairShare a g f).
Proof.
  intros H. unfold GoResources.getFairShare, Res.getFairShare.
  destruct a as [a|]; [|reflexivity].
  cbn [toR option_map is_nil deref gbind mkR Resource_Resources].
  destruct a as [|e a']; [reflexivity|].
  set (a := e :: a') in *.
  replace (Z.of_nat (length a) =? 0) with false by (subst a; cbn [length]; lia).
  cbv zeta.
  (* the loop: one step of the Go body is one step of the model's fold, for entries of a *)
  set (step := fun (mx : f64) (kv : tid * Z) =>
                 if snd kv <? 0 then mx else
                 let '(s, found) := shareFairDenom (fst kv) (snd kv) g in
                 let '(s, found) := if found then (s, found) else shareFairDenom (fst kv) (snd kv) f in
                 if found && f_gtb s mx then s else mx).
  match goal with |- context [go_fold_m ?body a f_zero] =>
    assert (E : go_fold_m body a f_zero = go_fold_m (fun mx kv => GOk (step mx kv)) a f_zero) end.
  { apply go_fold_m_ext. intros mx [k v] Hin. cbn.
    rewrite mget0_getz. unfold getz. rewrite (in_get a k v H Hin). subst step. cbn.
    destruct (v <? 0); [reflexivity|].
    rewrite !gotie_getShareFairForDenominator. cbn [gbind].
    destruct (shareFairDenom k v g) as [s1 [|]]; cbn [negb gbind]; [reflexivity|].
    destruct (shareFairDenom k v f) as [s2 fd]; reflexivity. }
  rewrite E, go_fold_m_pure. reflexivity.
Qed.

Theorem gotie_CompUsageRatioSeparately la lg lf ra rg rf : owf la -> owf ra ->
  GoResources.CompUsageRatioSeparately (toR la) (toR lg) (toR lf) (toR ra) (toR rg) (toR rf) =
  GOk (Res.CompUsageRatioSeparately la lg lf ra rg rf).
Proof.
  intros Hl Hr. unfold GoResources.CompUsageRatioSeparately, Res.CompUsageRatioSeparately.
  rewrite (gotie_getFairShare la lg lf Hl), (gotie_getFairShare ra rg rf Hr). cbn [gbind]. cbv zeta.
  destruct (f_gtb (Res.getFairShare la lg lf) (Res.getFairShare ra rg rf)); [reflexivity|].
  destruct (f_ltb (Res.getFairShare la lg lf) (Res.getFairShare ra rg rf)); reflexivity.
Qed.
