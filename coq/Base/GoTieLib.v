(* Lemmas about the support definitions of the Go-to-Gallina translator (Generated/GoPrelude.v):
   the panic monad, maps as association lists versus Base/Res.v, range loops as folds.
   Used by the tie theorems Base/GoTie.v, Events/GoTieRing.v, Sort/GoTieSort.v, Core/GoTieCore.v. *)
From Coq Require Import List ZArith NArith Bool Lia ZifyBool ZifyN ZifyNat.
From YK Require Import Base.Int64 Base.F64 Base.Res Generated.GoPrelude.
Import ListNotations.
Open Scope Z_scope.

(* ---- panic monad ---- *)
Lemma gbind_ok {A B} (a : A) (f : A -> gres B) : gbind (GOk a) f = f a.
Proof. reflexivity. Qed.
Lemma gbind_panic {A B} (f : A -> gres B) : gbind GPanic f = GPanic.
Proof. reflexivity. Qed.
Lemma gbind_ret {A} (x : gres A) : gbind x (fun a => GOk a) = x.
Proof. destruct x; reflexivity. Qed.

Definition gmap {A B} (f : A -> B) (x : gres A) : gres B :=
  match x with GOk a => GOk (f a) | GPanic => GPanic end.

(* ---- integers ---- *)
Lemma Z_N_nat' (n : N) : Z.to_nat (Z.of_N n) = N.to_nat n.
Proof. lia. Qed.

Lemma i64_quot_ok a b : b <> 0 -> i64_quot a b = GOk (quot64 a b).
Proof. intros H. unfold i64_quot, quot64. destruct (Z.eqb_spec b 0); [contradiction|reflexivity]. Qed.

(* ---- maps: the association-list primitives are those of Base/Res.v ---- *)
Lemma mget_get (m : res) k : mget m k = get m k.
Proof. induction m as [|[k' v] t IH]; cbn; [reflexivity|]. destruct (N.eqb k k'); auto. Qed.
Lemma mget0_getz (m : res) k : mget0 0 m k = getz m k.
Proof. unfold mget0, getz. rewrite mget_get. reflexivity. Qed.
Lemma mhas_has (m : res) k : mhas m k = has m k.
Proof. unfold mhas, has. rewrite mget_get. reflexivity. Qed.
Lemma mset_set (m : res) k v : mset m k v = set k v m.
Proof. induction m as [|[k' v'] t IH]; cbn; [reflexivity|]. destruct (N.eqb k k'); [reflexivity|]. now rewrite IH. Qed.
Lemma mdel_del (m : res) k : mdel m k = del k m.
Proof. induction m as [|[k' v'] t IH]; cbn; [reflexivity|]. destruct (N.eqb k k'); [reflexivity|]. now rewrite IH. Qed.

(* ---- loops ---- *)
Lemma go_fold_m_pure {E S} (g : S -> E -> S) (l : list E) (s : S) :
  go_fold_m (fun s e => GOk (g s e)) l s = GOk (fold_left g l s).
Proof. revert s. induction l as [|e t IH]; intros s; cbn; [reflexivity|]. apply IH. Qed.

Lemma go_fold_m_ext {E S} (f g : S -> E -> gres S) (l : list E) (s : S) :
  (forall s e, In e l -> f s e = g s e) -> go_fold_m f l s = go_fold_m g l s.
Proof.
  revert s. induction l as [|e t IH]; intros s H; cbn; [reflexivity|].
  rewrite (H s e (or_introl eq_refl)). destruct (g s e); [|reflexivity].
  apply IH. intros s' e' Hin. apply H. now right.
Qed.

(* a loop that keeps its (pointer valued) state non-nil *)
Lemma go_fold_m_some {E A} (g : A -> E -> A) (f : option A -> E -> gres (option A)) (l : list E) (a : A) :
  (forall a e, f (Some a) e = GOk (Some (g a e))) ->
  go_fold_m f l (Some a) = GOk (Some (fold_left g l a)).
Proof. intros H. revert a. induction l as [|e t IH]; intros a; cbn; [reflexivity|]. rewrite H. apply IH. Qed.

(* an early-exit loop without state that returns b at the first element satisfying p *)
Lemma go_range_first {E R} (p : E -> bool) (b : R) (l : list E) (body : E -> unit -> loopr unit R) :
  (forall e u, body e u = if p e then LReturn b else LNext tt) ->
  go_range l body tt = if existsb p l then LReturn b else LNext tt.
Proof.
  intros H. induction l as [|e t IH]; cbn; [reflexivity|].
  rewrite H. destruct (p e); cbn; [reflexivity|]. exact IH.
Qed.
Lemma go_range_m_first {E R} (p : E -> bool) (b : R) (l : list E) (body : E -> unit -> gres (loopr unit R)) :
  (forall e u, body e u = GOk (if p e then LReturn b else LNext tt)) ->
  go_range_m l body tt = GOk (if existsb p l then LReturn b else LNext tt).
Proof.
  intros H. induction l as [|e t IH]; cbn; [reflexivity|].
  rewrite H. destruct (p e); cbn; [reflexivity|]. exact IH.
Qed.

Lemma existsb_negb_forallb {A} (p : A -> bool) l : existsb (fun x => negb (p x)) l = negb (forallb p l).
Proof. induction l as [|a t IH]; cbn; [reflexivity|]. rewrite IH. destruct (p a); reflexivity. Qed.

Lemma fold_left_ext {A B} (f g : A -> B -> A) l a :
  (forall a b, f a b = g a b) -> fold_left f l a = fold_left g l a.
Proof. intros H. revert a. induction l as [|b t IH]; intros a; cbn; [reflexivity|]. rewrite H. apply IH. Qed.

(* ---- filter ---- *)
Lemma filter_true_eq {A} (p : A -> bool) l : (forall x, In x l -> p x = true) -> filter p l = l.
Proof.
  induction l as [|a t IH]; cbn; intros H; [reflexivity|].
  rewrite (H a (or_introl eq_refl)). f_equal. apply IH. intros x Hx. apply H. now right.
Qed.
Lemma filter_filter_and {A} (p q : A -> bool) l : filter p (filter q l) = filter (fun x => q x && p x) l.
Proof.
  induction l as [|a t IH]; cbn; [reflexivity|].
  destruct (q a); cbn; [destruct (p a); now rewrite IH|exact IH].
Qed.
Lemma filter_ext_eq {A} (p q : A -> bool) l : (forall x, p x = q x) -> filter p l = filter q l.
Proof. intros H. induction l as [|a t IH]; cbn; [reflexivity|]. rewrite H, IH. reflexivity. Qed.
Lemma filter_ext_in_eq {A} (p q : A -> bool) l : (forall x, In x l -> p x = q x) -> filter p l = filter q l.
Proof.
  induction l as [|a t IH]; cbn; intros H; [reflexivity|].
  rewrite (H a (or_introl eq_refl)), IH; [reflexivity|]. intros x Hx. apply H. now right.
Qed.

(* ---- more loop lemmas ---- *)
Lemma go_range_m_pure {E S R} (b : E -> S -> loopr S R) (body : E -> S -> gres (loopr S R)) (l : list E) (s : S) :
  (forall e s, body e s = GOk (b e s)) -> go_range_m l body s = GOk (go_range l b s).
Proof.
  intros H. revert s. induction l as [|e t IH]; intros s; cbn; [reflexivity|].
  rewrite H. destruct (b e s); [apply IH|reflexivity|reflexivity].
Qed.

(* early exit with a flag accumulated on the way: returns false at the first element failing [ok],
   otherwise the disjunction of the flags *)
Lemma go_range_flag {E} (ok flag : E -> bool) (l : list E) (body : E -> bool -> loopr bool bool) (s : bool) :
  (forall e s, body e s = if ok e then LNext (if flag e then true else s) else LReturn false) ->
  go_range l body s = if forallb ok l then LNext (s || existsb flag l) else LReturn false.
Proof.
  intros H. revert s. induction l as [|e t IH]; intros s; cbn; [now rewrite orb_false_r|].
  rewrite H. destruct (ok e); cbn; [|reflexivity]. rewrite IH.
  destruct (forallb ok t); [|reflexivity]. destruct (flag e), s; reflexivity.
Qed.
Lemma go_range_all {E R} (ok : E -> bool) (b : R) (l : list E) (body : E -> unit -> loopr unit R) :
  (forall e u, body e u = if ok e then LNext tt else LReturn b) ->
  go_range l body tt = if forallb ok l then LNext tt else LReturn b.
Proof.
  intros H. induction l as [|e t IH]; cbn; [reflexivity|].
  rewrite H. destruct (ok e); cbn; [exact IH|reflexivity].
Qed.

Lemma fold_left_map_state {A B E} (h : A -> B) (g : B -> E -> B) (g' : A -> E -> A) (l : list E) (a : A) :
  (forall a e, g (h a) e = h (g' a e)) -> fold_left g l (h a) = h (fold_left g' l a).
Proof. intros H. revert a. induction l as [|e t IH]; intros a; cbn; [reflexivity|]. rewrite H. apply IH. Qed.

(* ---- maps: lookup after update ---- *)
Lemma mget_mset {V} (m : list (N * V)) k v i : mget (mset m k v) i = if N.eqb i k then Some v else mget m i.
Proof.
  induction m as [|[k' v'] t IH]; cbn.
  - reflexivity.
  - destruct (N.eqb_spec k k') as [->|Hn]; cbn.
    + destruct (N.eqb i k'); reflexivity.
    + rewrite IH. destruct (N.eqb_spec i k') as [->|]; [|reflexivity].
      destruct (N.eqb_spec k' k); [congruence|reflexivity].
Qed.
Lemma mget_mdel {V} (m : list (N * V)) k i : NoDup (map fst m) ->
  mget (mdel m k) i = if N.eqb i k then None else mget m i.
Proof.
  induction m as [|[k' v'] t IH]; cbn; intros H.
  - destruct (N.eqb i k); reflexivity.
  - inversion H as [|? ? Hn Ht]; subst.
    destruct (N.eqb_spec k k') as [->|Hne]; cbn.
    + destruct (N.eqb_spec i k') as [E|E]; [subst i|reflexivity].
      clear IH H Ht. induction t as [|[k2 v2] t2 IH2]; cbn; [reflexivity|].
      destruct (N.eqb_spec k' k2) as [E|E]; [exfalso; apply Hn; now left|].
      apply IH2. intros Hin; apply Hn; now right.
    + rewrite (IH Ht). destruct (N.eqb_spec i k') as [E|E]; [subst i|reflexivity].
      destruct (N.eqb_spec k' k); [congruence|reflexivity].
Qed.

Lemma forallb_ext_in {A} (p q : A -> bool) l : (forall x, In x l -> p x = q x) -> forallb p l = forallb q l.
Proof.
  induction l as [|a t IH]; cbn; intros H; [reflexivity|].
  rewrite (H a (or_introl eq_refl)), IH; [reflexivity|]. intros x Hx. apply H. now right.
Qed.
