(* Laws of the vector operations of Base/Res.v: for every key k the lookup in the result is the
   component-wise function of Base/ResSpec.v applied to the lookups in the arguments
       get (Op x y) k = op_at (get x k) (get y k)
   (value, key set and order independence in one statement), well-formedness and range are
   preserved, nil arguments behave as documented. *)
From Coq Require Import List ZArith NArith Bool Lia Permutation.
From YK Require Import Base.Int64 Base.Int64Laws Base.F64 Base.Res Base.ResSpec Base.ResLemmas.
Import ListNotations.
Open Scope Z_scope.

Ltac gir := eapply get_in_range; [|eassumption]; assumption.

(* ---- the three loop shapes of resources.go ---- *)

(* out[k] = f(out[k], v) for k, v in r *)
Lemma fold_upd_get (f : Z -> Z -> Z) r : forall l k, wf r ->
  get (fold_left (fun out kv => set (fst kv) (f (getz out (fst kv)) (snd kv)) out) r l) k =
  match get r k with None => get l k | Some y => Some (f (oz (get l k)) y) end.
Proof.
  induction r as [|[k' v] t IH]; intros l k Hwf; [reflexivity|].
  inversion Hwf as [|? ? Hni Hwt]; subst. cbn [fold_left fst snd]. rewrite IH by assumption.
  rewrite get_cons. destruct (N.eqb_spec k k') as [->|Hne].
  - assert (get t k' = None) as -> by (apply get_none_iff; assumption).
    rewrite get_set_same. reflexivity.
  - rewrite get_set_other by assumption. reflexivity.
Qed.
(* out[k] = g(k, v) for k, v in l  (value independent of out) *)
Lemma fold_put_get (g : tid -> Z -> Z) l : forall init k, wf l ->
  get (fold_left (fun out kv => set (fst kv) (g (fst kv) (snd kv)) out) l init) k =
  match get l k with Some v => Some (g k v) | None => get init k end.
Proof.
  induction l as [|[k' v] t IH]; intros init k Hwf; [reflexivity|].
  inversion Hwf as [|? ? Hni Hwt]; subst. cbn [fold_left fst snd]. rewrite IH by assumption.
  rewrite get_cons. destruct (N.eqb_spec k k') as [->|Hne].
  - assert (get t k' = None) as -> by (apply get_none_iff; assumption).
    rewrite get_set_same. reflexivity.
  - destruct (get t k); [reflexivity|]. rewrite get_set_other by assumption. reflexivity.
Qed.
Lemma fold_upd_wf (f : Z -> Z -> Z) r : forall l, wf l ->
  wf (fold_left (fun out kv => set (fst kv) (f (getz out (fst kv)) (snd kv)) out) r l).
Proof. induction r as [|[k' v] t IH]; intros l Hl; [assumption|]. cbn [fold_left]. apply IH. apply wf_set. assumption. Qed.
Lemma fold_put_wf (g : tid -> Z -> Z) l : forall init, wf init ->
  wf (fold_left (fun out kv => set (fst kv) (g (fst kv) (snd kv)) out) l init).
Proof. induction l as [|[k' v] t IH]; intros init Hi; [assumption|]. cbn [fold_left]. apply IH. apply wf_set. assumption. Qed.
Lemma wf_map_val (f : tid * Z -> Z) r : wf r -> wf (map (fun kv => (fst kv, f kv)) r).
Proof. unfold wf. rewrite keys_map_val. auto. Qed.

(* ---- Add / Sub / AddTo / SubFrom ---- *)
Lemma addTo_get l r k : wf r ->
  get (addTo l r) k = match get r k with None => get l k | Some y => Some (addVal (oz (get l k)) y) end.
Proof. intros H. unfold addTo. apply (fold_upd_get addVal); assumption. Qed.
Lemma subFrom_get l r k : wf r ->
  get (subFrom l r) k = match get r k with None => get l k | Some y => Some (subVal (oz (get l k)) y) end.
Proof. intros H. unfold subFrom. apply (fold_upd_get subVal); assumption. Qed.

Lemma oz_in_range r k : res_in_range r -> in_range (oz (get r k)).
Proof. intros H. rewrite <- getz_get. apply getz_in_range. assumption. Qed.

Theorem Add_get l r k : owf r -> ores_in_range l -> ores_in_range r ->
  get (Add l r) k = add_at (get (oget l) k) (get (oget r) k).
Proof.
  unfold owf, ores_in_range. intros Hwf Hl Hr. destruct r as [rr|]; cbn [Add oget] in *; [|reflexivity].
  rewrite addTo_get by assumption. unfold add_at. destruct (get rr k) as [y|] eqn:E; [|reflexivity].
  rewrite addVal_clamp; [reflexivity|apply oz_in_range; assumption|gir].
Qed.
Theorem Sub_get l r k : owf r -> ores_in_range l -> ores_in_range r ->
  get (Sub l r) k = sub_at (get (oget l) k) (get (oget r) k).
Proof.
  unfold owf, ores_in_range. intros Hwf Hl Hr. destruct r as [rr|]; cbn [Sub oget] in *; [|reflexivity].
  rewrite subFrom_get by assumption. unfold sub_at. destruct (get rr k) as [y|] eqn:E; [|reflexivity].
  rewrite subVal_clamp; [reflexivity|apply oz_in_range; assumption|gir].
Qed.
(* value and key set, readable *)
Corollary Add_getz l r k : owf r -> ores_in_range l -> ores_in_range r ->
  getz (Add l r) k = clamp (getz (oget l) k + getz (oget r) k).
Proof. intros Hwf Hl Hr. rewrite !getz_get, Add_get by assumption. unfold add_at.
  destruct (get (oget r) k); cbn [oz]; [reflexivity|]. rewrite Z.add_0_r. symmetry. apply clamp_id. apply oz_in_range. assumption. Qed.
Corollary Sub_getz l r k : owf r -> ores_in_range l -> ores_in_range r ->
  getz (Sub l r) k = clamp (getz (oget l) k - getz (oget r) k).
Proof. intros Hwf Hl Hr. rewrite !getz_get, Sub_get by assumption. unfold sub_at.
  destruct (get (oget r) k); cbn [oz]; [reflexivity|]. rewrite Z.sub_0_r. symmetry. apply clamp_id. apply oz_in_range. assumption. Qed.
Lemma has_of_get (a b : res) k (x y : res) :
  forall f, (forall u v, match f u v with Some _ => true | None => false end =
                         (match u with Some _ => true | None => false end) || (match v with Some _ => true | None => false end)) ->
  get a k = f (get x k) (get y k) -> has a k = has x k || has y k.
Proof. intros f Hf Hg. unfold has. rewrite Hg. apply Hf. Qed.
Corollary Add_keys l r k : owf r -> has (Add l r) k = has (oget l) k || has (oget r) k.
Proof. unfold owf. intros Hwf. destruct r as [rr|]; cbn [Add oget] in *; [|unfold has at 3; cbn; rewrite orb_false_r; reflexivity].
  unfold has. rewrite addTo_get by assumption. destruct (get rr k), (get (oget l) k); reflexivity. Qed.
Corollary Sub_keys l r k : owf r -> has (Sub l r) k = has (oget l) k || has (oget r) k.
Proof. unfold owf. intros Hwf. destruct r as [rr|]; cbn [Sub oget] in *; [|unfold has at 3; cbn; rewrite orb_false_r; reflexivity].
  unfold has. rewrite subFrom_get by assumption. destruct (get rr k), (get (oget l) k); reflexivity. Qed.
Lemma Add_wf l r : owf l -> wf (Add l r).
Proof. unfold owf. intros H. destruct r; cbn [Add]; [|assumption]. unfold addTo. apply (fold_upd_wf addVal). assumption. Qed.
Lemma Sub_wf l r : owf l -> wf (Sub l r).
Proof. unfold owf. intros H. destruct r; cbn [Sub]; [|assumption]. unfold subFrom. apply (fold_upd_wf subVal). assumption. Qed.
(* the receiver methods are Add / Sub on a non-nil receiver, and leave a nil receiver nil *)
Theorem AddTo_Add l r : AddTo (Some l) r = Some (Add (Some l) r) /\ AddTo None r = None.
Proof. destruct r; split; reflexivity. Qed.
Theorem SubFrom_Sub l r : SubFrom (Some l) r = Some (Sub (Some l) r) /\ SubFrom None r = None.
Proof. destruct r; split; reflexivity. Qed.

(* ---- SubOnlyExisting / AddOnlyExisting ---- *)
Theorem SubOnlyExisting_get b d k : ores_in_range (Some b) -> ores_in_range d ->
  get (oget (SubOnlyExisting (Some b) d)) k = subOnly_at (get b k) (get (oget d) k).
Proof.
  unfold ores_in_range. cbn [oget]. intros Hb Hd. destruct d as [dd|]; cbn [SubOnlyExisting oget].
  - rewrite (get_map_val (fun k v => subVal v (getz dd k))). unfold subOnly_at.
    destruct (get b k) as [x|] eqn:E; [|reflexivity].
    rewrite subVal_clamp; [reflexivity|gir|apply getz_in_range; assumption].
  - unfold subOnly_at. destruct (get b k) as [x|] eqn:E; [|reflexivity]. cbn [get oz].
    rewrite Z.sub_0_r, clamp_id; [reflexivity|gir].
Qed.
Theorem AddOnlyExisting_get b d k : ores_in_range (Some b) -> ores_in_range d ->
  get (oget (AddOnlyExisting (Some b) d)) k = addOnly_at (get b k) (get (oget d) k).
Proof.
  unfold ores_in_range. cbn [oget]. intros Hb Hd. destruct d as [dd|]; cbn [AddOnlyExisting oget].
  - rewrite (get_map_val (fun k v => addVal v (getz dd k))). unfold addOnly_at.
    destruct (get b k) as [x|] eqn:E; [|reflexivity].
    rewrite addVal_clamp; [reflexivity|gir|apply getz_in_range; assumption].
  - unfold addOnly_at. destruct (get b k) as [x|] eqn:E; [|reflexivity]. cbn [get oz].
    rewrite Z.add_0_r, clamp_id; [reflexivity|gir].
Qed.
Theorem OnlyExisting_nil d : SubOnlyExisting None d = None /\ AddOnlyExisting None d = None /\
  (forall b, is_nil (SubOnlyExisting (Some b) d) = false /\ is_nil (AddOnlyExisting (Some b) d) = false).
Proof. destruct d; repeat split; reflexivity. Qed.
Corollary SubOnlyExisting_keys b d : keys (oget (SubOnlyExisting (Some b) d)) = keys b.
Proof. destruct d; cbn [SubOnlyExisting oget]; [apply keys_map_val|reflexivity]. Qed.
Corollary AddOnlyExisting_keys b d : keys (oget (AddOnlyExisting (Some b) d)) = keys b.
Proof. destruct d; cbn [AddOnlyExisting oget]; [apply keys_map_val|reflexivity]. Qed.

(* ---- Multiply ---- *)
Theorem Multiply_get b ratio k : ores_in_range b -> in_range ratio ->
  get (Multiply b ratio) k = mul_at ratio (get (oget b) k).
Proof.
  unfold ores_in_range. intros Hb Hr. destruct b as [bb|]; cbn [Multiply oget] in *; [|reflexivity].
  unfold mul_at. destruct (Z.eqb_spec ratio 0) as [->|Hne]; [destruct (get bb k); reflexivity|].
  rewrite (get_map_val (fun _ v => mulVal v ratio)). destruct (get bb k) as [x|] eqn:E; [|reflexivity].
  rewrite mulVal_clamp; [reflexivity|gir|assumption].
Qed.
Corollary Multiply_getz b ratio k : ores_in_range b -> in_range ratio ->
  getz (Multiply b ratio) k = clamp (getz (oget b) k * ratio).
Proof. intros Hb Hr. rewrite !getz_get, Multiply_get by assumption. unfold mul_at.
  destruct (get (oget b) k) as [x|]; cbn [oz]; [|reflexivity].
  destruct (Z.eqb_spec ratio 0) as [->|]; [rewrite Z.mul_0_r|]; reflexivity. Qed.
Corollary Multiply_keys b ratio k : has (Multiply b ratio) k = has (oget b) k && negb (ratio =? 0).
Proof. destruct b as [bb|]; cbn [Multiply oget]; [|reflexivity].
  destruct (ratio =? 0); [rewrite andb_false_r; reflexivity|]. rewrite andb_true_r.
  unfold has. rewrite (get_map_val (fun _ v => mulVal v ratio)). destruct (get bb k); reflexivity. Qed.
(* MultiplyBy / MultiplyTo in terms of mulValRatio (whose law is in Base/F64Laws.v) *)
Lemma MultiplyBy_get b ratio k :
  get (MultiplyBy b ratio) k =
  match get (oget b) k with None => None | Some x => if f_is_zero ratio then None else Some (mulValRatio x ratio) end.
Proof. destruct b as [bb|]; cbn [MultiplyBy oget]; [|reflexivity].
  destruct (f_is_zero ratio); [destruct (get bb k); reflexivity|].
  apply (get_map_val (fun _ v => mulValRatio v ratio)). Qed.

(* ---- SubEliminateNegative / SubErrorNegative ---- *)
Definition nonneg (v : Z) : Z := if v <? 0 then 0 else v.
Lemma nonneg_max v : nonneg v = Z.max 0 v.
Proof. unfold nonneg. destruct (Z.ltb_spec v 0); lia. Qed.
Definition subNN_step (acc : res * bool) (kv : tid * Z) : res * bool :=
  let '(out, err) := acc in
  let v := subVal (getz out (fst kv)) (snd kv) in
  if v <? 0 then (set (fst kv) 0 out, true) else (set (fst kv) v out, err).
Lemma subNN_fst r : forall l e,
  fst (fold_left subNN_step r (l, e)) =
  fold_left (fun out kv => set (fst kv) ((fun a y => nonneg (subVal a y)) (getz out (fst kv)) (snd kv)) out) r l.
Proof. induction r as [|[k v] t IH]; intros l e; [reflexivity|]. cbn [fold_left subNN_step fst snd].
  unfold nonneg. destruct (subVal (getz l k) v <? 0); apply IH. Qed.
Lemma existsb_ext_in {A} (f g : A -> bool) l : (forall x, In x l -> f x = g x) -> existsb f l = existsb g l.
Proof. induction l as [|a t IH]; intros H; [reflexivity|]. cbn. rewrite (H a) by (left; reflexivity).
  rewrite IH; [reflexivity|]. intros x Hx. apply H. right. assumption. Qed.
Lemma subNN_snd r : forall l e, wf r ->
  snd (fold_left subNN_step r (l, e)) = e || existsb (fun kv => subVal (getz l (fst kv)) (snd kv) <? 0) r.
Proof. induction r as [|[k v] t IH]; intros l e Hwf; [cbn; rewrite orb_false_r; reflexivity|].
  inversion Hwf as [|? ? Hni Hwt]; subst. cbn [fold_left subNN_step fst snd existsb].
  assert (Hext : forall out', (forall k2, k2 <> k -> getz out' k2 = getz l k2) ->
            existsb (fun kv => subVal (getz out' (fst kv)) (snd kv) <? 0) t =
            existsb (fun kv => subVal (getz l (fst kv)) (snd kv) <? 0) t).
  { intros out' Ho. apply existsb_ext_in. intros [k2 v2] Hin. cbn [fst snd]. rewrite Ho; [reflexivity|].
    intros ->. apply Hni. change (In (fst (k, v2)) (map fst t)). apply in_map. assumption. }
  destruct (subVal (getz l k) v <? 0) eqn:E; rewrite IH by assumption; rewrite Hext.
  - rewrite orb_true_r. reflexivity.
  - intros k2 Hk2. unfold getz. rewrite get_set_other by assumption. reflexivity.
  - reflexivity.
  - intros k2 Hk2. unfold getz. rewrite get_set_other by assumption. reflexivity.
Qed.
Lemma subNonNegative_unfold l rr : subNonNegative l (Some rr) = fold_left subNN_step rr (oget l, false).
Proof. reflexivity. Qed.

Theorem SubEliminateNegative_get l r k : owf r -> ores_in_range l -> ores_in_range r ->
  get (SubEliminateNegative l r) k = subElim_at (get (oget l) k) (get (oget r) k).
Proof.
  unfold owf, ores_in_range, SubEliminateNegative. intros Hwf Hl Hr.
  destruct r as [rr|]; cbn [oget] in *; [|reflexivity].
  rewrite subNonNegative_unfold, subNN_fst.
  rewrite (fold_upd_get (fun a y => nonneg (subVal a y))) by assumption.
  unfold subElim_at. destruct (get rr k) as [y|] eqn:E; [|reflexivity].
  rewrite nonneg_max, subVal_clamp; [reflexivity|apply oz_in_range; assumption|gir].
Qed.
Theorem SubErrorNegative_res l r : fst (SubErrorNegative l r) = SubEliminateNegative l r.
Proof. reflexivity. Qed.
Theorem SubErrorNegative_err l r : owf r -> ores_in_range l -> ores_in_range r ->
  snd (SubErrorNegative l r) = some_key subNeg_at (oget l) (oget r).
Proof.
  unfold owf, ores_in_range, SubErrorNegative. intros Hwf Hl Hr.
  destruct r as [rr|]; cbn [oget] in *.
  - rewrite subNonNegative_unfold, subNN_snd by assumption. cbn [orb].
    apply eq_true_iff_eq. rewrite (some_key_iff subNeg_at) by reflexivity.
    rewrite (existsb_entries (fun k v => subVal (getz (oget l) k) v <? 0)) by assumption. split.
    + intros (k0 & v & Hg & Hv). exists k0. rewrite Hg. cbn [subNeg_at].
      rewrite <- subVal_clamp; [rewrite <- getz_get; assumption|apply oz_in_range; assumption|gir].
    + intros [k0 Hk]. destruct (get rr k0) as [v|] eqn:Hg; [|discriminate]. exists k0, v. split; [exact Hg|].
      cbn [subNeg_at] in Hk. rewrite getz_get, subVal_clamp; [assumption|apply oz_in_range; assumption|gir].
  - cbn. symmetry. unfold some_key. rewrite app_nil_r. apply not_true_is_false. rewrite existsb_exists.
    intros [x [_ H]]. cbn in H. destruct (get (oget l) x); discriminate.
Qed.
Lemma SubEliminateNegative_wf l r : owf l -> wf (SubEliminateNegative l r).
Proof. unfold owf, SubEliminateNegative. intros H. destruct r as [rr|]; [|assumption].
  rewrite subNonNegative_unfold, subNN_fst. apply (fold_upd_wf (fun a y => nonneg (subVal a y))). assumption. Qed.
Corollary SubEliminateNegative_keys l r k : owf r ->
  has (SubEliminateNegative l r) k = has (oget l) k || has (oget r) k.
Proof. unfold owf, SubEliminateNegative. intros Hwf. destruct r as [rr|]; cbn [oget] in *.
  - rewrite subNonNegative_unfold, subNN_fst. unfold has.
    rewrite (fold_upd_get (fun a y => nonneg (subVal a y))) by assumption.
    destruct (get rr k), (get (oget l) k); reflexivity.
  - unfold has. cbn. destruct (get (oget l) k); reflexivity. Qed.
