(* Basic facts about association lists (get / set / keys / map) and about the executable
   quantifiers of Base/ResSpec.v. Shared by the Base/ResLaws*.v files. *)
From Coq Require Import List ZArith NArith Bool Lia Permutation.
From YK Require Import Base.Int64 Base.F64 Base.Res Base.ResSpec.
Import ListNotations.
Open Scope Z_scope.

Lemma get_nil k : get [] k = None. Proof. reflexivity. Qed.
Lemma get_cons k k' v t : get ((k', v) :: t) k = if N.eqb k k' then Some v else get t k.
Proof. reflexivity. Qed.

Lemma get_set_same k v r : get (set k v r) k = Some v.
Proof. induction r as [|[k' v'] t IH]; cbn; [rewrite N.eqb_refl; reflexivity|].
  destruct (N.eqb_spec k k'); cbn; rewrite ?N.eqb_refl; [reflexivity|].
  destruct (N.eqb_spec k k'); [contradiction|assumption]. Qed.
Lemma get_set_other k k' v r : k' <> k -> get (set k v r) k' = get r k'.
Proof. intros Hne. induction r as [|[k2 v2] t IH]; cbn.
  - destruct (N.eqb_spec k' k); [contradiction|reflexivity].
  - destruct (N.eqb_spec k k2) as [->|Hk]; cbn.
    + destruct (N.eqb_spec k' k2); [contradiction|reflexivity].
    + destruct (N.eqb_spec k' k2); [reflexivity|assumption]. Qed.
Lemma get_set k k' v r : get (set k v r) k' = if N.eqb k' k then Some v else get r k'.
Proof. destruct (N.eqb_spec k' k) as [->|H]; [apply get_set_same|apply get_set_other; assumption]. Qed.

Lemma get_some_in r k v : get r k = Some v -> In (k, v) r.
Proof. induction r as [|[k' v'] t IH]; cbn; [discriminate|].
  destruct (N.eqb_spec k k') as [->|]; intros H; [inversion H; auto|auto]. Qed.
Lemma get_none_iff r k : get r k = None <-> ~ In k (keys r).
Proof. induction r as [|[k' v'] t IH]; cbn; [tauto|].
  destruct (N.eqb_spec k k') as [->|Hne].
  - split; [discriminate|]. intros H. exfalso. apply H. auto.
  - rewrite IH. split; [intros H [E|E]; [congruence|contradiction]|tauto]. Qed.
Lemma get_some_iff r k : (exists v, get r k = Some v) <-> In k (keys r).
Proof. destruct (get r k) eqn:E.
  - split; [intros _|eauto]. destruct (in_dec N.eq_dec k (keys r)) as [H|H]; [assumption|].
    apply get_none_iff in H. congruence.
  - split; [intros [v Hv]; discriminate|]. intros H. apply get_none_iff in E. contradiction. Qed.
Lemma has_iff r k : has r k = true <-> In k (keys r).
Proof. unfold has. rewrite <- get_some_iff. destruct (get r k); split; eauto; try discriminate.
  intros [v Hv]; discriminate. Qed.
Lemma has_get r k : has r k = match get r k with Some _ => true | None => false end.
Proof. reflexivity. Qed.
Lemma getz_get r k : getz r k = oz (get r k).
Proof. reflexivity. Qed.
Lemma in_get r k v : wf r -> In (k, v) r -> get r k = Some v.
Proof. unfold wf. induction r as [|[k' v'] t IH]; cbn; [tauto|]. intros Hnd [E|Hin].
  - inversion E; subst. rewrite N.eqb_refl. reflexivity.
  - inversion Hnd as [|? ? Hni Hnd']; subst.
    destruct (N.eqb_spec k k') as [->|]; [|auto].
    exfalso. apply Hni. change (In (fst (k', v)) (map fst t)). apply in_map. assumption. Qed.

Lemma keys_set_in k v r k' : In k' (keys (set k v r)) <-> k' = k \/ In k' (keys r).
Proof. induction r as [|[k2 v2] t IH]; cbn; [intuition|].
  destruct (N.eqb_spec k k2) as [->|Hne]; cbn; [intuition|]. rewrite IH. intuition. Qed.
Lemma wf_set k v r : wf r -> wf (set k v r).
Proof. unfold wf. induction r as [|[k2 v2] t IH]; cbn; intros H.
  - constructor; [tauto|constructor].
  - inversion H as [|? ? Hni Hnd]; subst.
    destruct (N.eqb_spec k k2) as [->|Hne]; cbn; constructor; auto.
    intros Hin. apply keys_set_in in Hin. destruct Hin; [congruence|contradiction]. Qed.
Lemma wf_nil : wf []. Proof. constructor. Qed.

Lemma keys_map_val (f : tid * Z -> Z) r : keys (map (fun kv => (fst kv, f kv)) r) = keys r.
Proof. unfold keys. rewrite map_map. reflexivity. Qed.
Lemma get_map_val (f : tid -> Z -> Z) r k :
  get (map (fun kv => (fst kv, f (fst kv) (snd kv))) r) k =
  match get r k with Some v => Some (f k v) | None => None end.
Proof. induction r as [|[k' v'] t IH]; cbn; [reflexivity|].
  destruct (N.eqb_spec k k') as [->|]; [reflexivity|assumption]. Qed.

Lemma get_in_range r k v : res_in_range r -> get r k = Some v -> in_range v.
Proof. intros Hr Hg. apply get_some_in in Hg. unfold res_in_range in Hr.
  rewrite Forall_forall in Hr. apply (Hr (k, v) Hg). Qed.
Lemma getz_in_range r k : res_in_range r -> in_range (getz r k).
Proof. intros Hr. unfold getz. destruct (get r k) eqn:E; [eapply get_in_range; eauto|].
  unfold in_range, MIN, MAX. lia. Qed.
Lemma res_in_range_nil : res_in_range []. Proof. constructor. Qed.
Lemma res_in_range_set k v r : in_range v -> res_in_range r -> res_in_range (set k v r).
Proof. unfold res_in_range. intros Hv. induction r as [|[k2 v2] t IH]; cbn; intros H.
  - constructor; auto.
  - inversion H; subst. destruct (N.eqb k k2); constructor; auto. Qed.
(* range of a result from the range of all lookups *)
Lemma res_in_range_get r : wf r -> (forall k v, get r k = Some v -> in_range v) -> res_in_range r.
Proof. intros Hwf H. apply Forall_forall. intros [k v] Hin. apply (H k v). apply in_get; assumption. Qed.

(* the map denoted by a duplicate free association list does not depend on its order *)
Lemma wf_perm r r' : Permutation r r' -> wf r -> wf r'.
Proof. unfold wf, keys. intros HP H. eapply Permutation_NoDup; [|exact H]. apply Permutation_map. assumption. Qed.
Lemma get_perm r r' k : wf r -> Permutation r r' -> get r k = get r' k.
Proof. intros Hwf HP. pose proof (wf_perm _ _ HP Hwf) as Hwf'.
  destruct (get r k) eqn:E.
  - symmetry. apply in_get; [assumption|]. eapply Permutation_in; [exact HP|]. apply get_some_in. assumption.
  - symmetry. apply get_none_iff. intros Hin. apply get_none_iff in E. apply E.
    unfold keys in *. eapply Permutation_in; [apply Permutation_map; apply Permutation_sym; exact HP|assumption]. Qed.

(* ---- forallb / existsb over the entries of a well-formed list ---- *)
Lemma forallb_entries (P : tid -> Z -> bool) r : wf r ->
  (forallb (fun kv => P (fst kv) (snd kv)) r = true <-> forall k v, get r k = Some v -> P k v = true).
Proof. intros Hwf. rewrite forallb_forall. split.
  - intros H k v Hg. apply (H (k, v)). apply get_some_in. assumption.
  - intros H [k v] Hin. apply H. apply in_get; assumption. Qed.
Lemma existsb_entries (P : tid -> Z -> bool) r : wf r ->
  (existsb (fun kv => P (fst kv) (snd kv)) r = true <-> exists k v, get r k = Some v /\ P k v = true).
Proof. intros Hwf. rewrite existsb_exists. split.
  - intros [[k v] [Hin HP]]. exists k, v. split; [apply in_get; assumption|assumption].
  - intros (k & v & Hg & HP). exists (k, v). split; [apply get_some_in; assumption|assumption]. Qed.

(* ---- executable quantifiers of ResSpec ---- *)
Lemma all_keys_iff (P : option Z -> option Z -> bool) x y : P None None = true ->
  (all_keys P x y = true <-> forall k, P (get x k) (get y k) = true).
Proof. intros HN. unfold all_keys. rewrite forallb_forall. split; [|intros H k _; apply H].
  intros H k. destruct (in_dec N.eq_dec k (keys x ++ keys y)) as [Hin|Hni]; [apply H; assumption|].
  rewrite in_app_iff in Hni.
  assert (get x k = None) as -> by (apply get_none_iff; tauto).
  assert (get y k = None) as -> by (apply get_none_iff; tauto). assumption. Qed.
Lemma some_key_iff (P : option Z -> option Z -> bool) x y : P None None = false ->
  (some_key P x y = true <-> exists k, P (get x k) (get y k) = true).
Proof. intros HN. unfold some_key. rewrite existsb_exists. split; [intros [k [_ H]]; eauto|].
  intros [k H]. exists k. split; [|assumption].
  destruct (in_dec N.eq_dec k (keys x ++ keys y)) as [Hin|Hni]; [assumption|]. exfalso.
  rewrite in_app_iff in Hni.
  assert (E1 : get x k = None) by (apply get_none_iff; tauto).
  assert (E2 : get y k = None) by (apply get_none_iff; tauto). rewrite E1, E2 in H. congruence. Qed.
Lemma optZ_eqb_eq a b : optZ_eqb a b = true <-> a = b.
Proof. destruct a, b; cbn; rewrite ?Z.eqb_eq; split; intros H; try congruence; auto. Qed.
Lemma pw_ok_iff (f : option Z -> option Z -> option Z) x y out : f None None = None ->
  (pw_ok f x y out = true <-> forall k, get out k = f (get x k) (get y k)).
Proof. intros HN. unfold pw_ok. rewrite forallb_forall. split.
  - intros H k. destruct (in_dec N.eq_dec k (keys x ++ keys y ++ keys out)) as [Hin|Hni].
    + apply optZ_eqb_eq. apply H. assumption.
    + rewrite !in_app_iff in Hni.
      assert (get x k = None) as -> by (apply get_none_iff; tauto).
      assert (get y k = None) as -> by (apply get_none_iff; tauto).
      assert (get out k = None) as -> by (apply get_none_iff; tauto). symmetry. assumption.
  - intros H k _. apply optZ_eqb_eq. apply H. Qed.
Lemma pw1_ok_iff (f : option Z -> option Z) x out : f None = None ->
  (pw1_ok f x out = true <-> forall k, get out k = f (get x k)).
Proof. intros HN. unfold pw1_ok. rewrite forallb_forall. split.
  - intros H k. destruct (in_dec N.eq_dec k (keys x ++ keys out)) as [Hin|Hni].
    + apply optZ_eqb_eq. apply H. assumption.
    + rewrite !in_app_iff in Hni.
      assert (get x k = None) as -> by (apply get_none_iff; tauto).
      assert (get out k = None) as -> by (apply get_none_iff; tauto). symmetry. assumption.
  - intros H k _. apply optZ_eqb_eq. apply H. Qed.
