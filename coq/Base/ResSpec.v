(* Component-wise (arbitrary precision) specifications of the resource operations.
   Definitions only. The SAME definitions are the right-hand sides of the theorems in
   Base/ResLaws*.v / Props/C18.v (about the model) and the oracles of Oracles/ResCheck.v (about the
   implementation's observed results).

   A vector operation is specified by a function on the two lookups at one key:
       get (Op x y) k = op_at (get x k) (get y k)        for every key k
   which fixes the value AND the key set of the result (None = type not present), and makes the
   result independent of the order of the association lists (Go map iteration order). *)
From Coq Require Import List ZArith NArith Bool Lia Floats.SpecFloat.
From YK Require Import Base.Int64 Base.F64 Base.Res.
Import ListNotations.
Open Scope Z_scope.

Definition oz (o : option Z) : Z := match o with Some v => v | None => 0 end.
Definition optZ_eqb (a b : option Z) : bool :=
  match a, b with Some x, Some y => x =? y | None, None => true | _, _ => false end.

(* well-formed: no duplicate keys (every Go map is) ; all values are int64 *)
Definition wf (r : res) : Prop := NoDup (keys r).
Definition res_in_range (r : res) : Prop := Forall (fun kv => in_range (snd kv)) r.
Definition owf (o : ores) : Prop := wf (oget o).
Definition ores_in_range (o : ores) : Prop := res_in_range (oget o).

(* ---- value producing operations ---- *)
Definition add_at (a b : option Z) : option Z :=
  match b with None => a | Some y => Some (clamp (oz a + y)) end.
Definition sub_at (a b : option Z) : option Z :=
  match b with None => a | Some y => Some (clamp (oz a - y)) end.
Definition addOnly_at (a b : option Z) : option Z :=
  match a with None => None | Some x => Some (clamp (x + oz b)) end.
Definition subOnly_at (a b : option Z) : option Z :=
  match a with None => None | Some x => Some (clamp (x - oz b)) end.
(* SubEliminateNegative: only the types of the right operand are reset to 0 when negative *)
Definition subElim_at (a b : option Z) : option Z :=
  match b with None => a | Some y => Some (Z.max 0 (clamp (oz a - y))) end.
(* SubErrorNegative reports an error iff some subtracted type went below zero *)
Definition subNeg_at (a b : option Z) : bool :=
  match b with None => false | Some y => clamp (oz a - y) <? 0 end.
(* SubEliminateNegative / SubErrorNegative AS DOCUMENTED ("all negative values are reset to 0", "an error
   if any value in the result is negative"): every type of the result is max 0 of the difference.
   The code resets only the types of the right operand (subElim_at / subNeg_at above): a type that
   only the left operand has keeps a negative value and raises no error. That window is the recorded
   known finding C18-subelim-left-negative. *)
Definition subElimDoc_at (a b : option Z) : option Z :=
  match sub_at a b with Some v => Some (Z.max 0 v) | None => None end.
Definition subNegDoc_at (a b : option Z) : bool :=
  match sub_at a b with Some v => v <? 0 | None => false end.
Definition left_only_negative_at (a b : option Z) : bool :=
  match a, b with Some v, None => v <? 0 | _, _ => false end.

Definition cwmin_at (a b : option Z) : option Z :=
  match a, b with
  | Some x, Some y => Some (Z.min x y)
  | Some x, None => Some x
  | None, o => o
  end.
Definition cwminOnly_at (a b : option Z) : option Z :=
  match a with
  | None => None
  | Some x => Some (match b with Some y => Z.min x y | None => x end)
  end.
(* ComponentWiseMax: a missing type counts as 0 *)
Definition cwmax_at (a b : option Z) : option Z :=
  match a, b with None, None => None | _, _ => Some (Z.max (oz a) (oz b)) end.
Definition merge_at (a b : option Z) : option Z :=
  match a with Some x => Some x | None => b end.
Definition mul_at (ratio : Z) (a : option Z) : option Z :=
  match a with None => None | Some x => if ratio =? 0 then None else Some (clamp (x * ratio)) end.
Definition prune_at (a : option Z) : option Z :=
  match a with Some v => if v =? 0 then None else Some v | None => None end.

(* x is a canonical binary64 datum other than NaN (what every IEEE operation returns) *)
Definition f_valid (x : f64) : bool :=
  match x with
  | S754_finite _ m e => bounded prec emax m e
  | S754_nan => false
  | _ => true
  end.

(* mulValRatio: exact truncation of the rounded binary64 product, saturated.
   [f_trunc_ext] extends truncation to infinities by any value beyond the int64 range. *)
Definition f_trunc_ext (x : f64) : Z :=
  match x with
  | S754_infinity true => - 2^64
  | S754_infinity false => 2^64
  | _ => f_trunc x
  end.
Definition mulValRatio_spec (v : Z) (ratio : f64) : Z :=
  clamp (f_trunc_ext (f_mul (f_of_Z v) ratio)).
Definition mulBy_at (ratio : f64) (a : option Z) : option Z :=
  match a with
  | None => None
  | Some x => if f_is_zero ratio then None else Some (mulValRatio_spec x ratio)
  end.
Definition mulTo_at (ratio : f64) (a : option Z) : option Z :=
  match a with None => None | Some x => Some (mulValRatio_spec x ratio) end.

(* ---- predicates ---- *)
(* fitIn(smaller) at one key: rv = receiver's entry, sv = smaller's entry.
   FitIn: missing receiver type = 0 ; FitInMaxUndef / FitInActual: missing receiver type = unlimited
   (skipped) ; FitInActual compares negative receiver values as they are, the others as 0. *)
Definition fit_at (skipUndef actual : bool) (rv sv : option Z) : bool :=
  match sv with
  | None => true
  | Some s =>
      match rv with
      | None => if skipUndef then true else s <=? 0
      | Some l => s <=? (if actual then l else Z.max 0 l)
      end
  end.
Definition ge_at (lv sv : option Z) : bool := oz sv <=? oz lv.       (* missing = 0 on both sides *)
Definition ne_at (lv sv : option Z) : bool := negb (oz sv =? oz lv).
Definition eqz_at (a b : option Z) : bool := oz a =? oz b.
Definition both_at (a b : option Z) : bool :=
  match a, b with Some _, Some _ => true | _, _ => false end.

(* quantification over all keys, executably: the keys of the operands suffice *)
Definition all_keys (P : option Z -> option Z -> bool) (x y : res) : bool :=
  forallb (fun k => P (get x k) (get y k)) (keys x ++ keys y).
Definition some_key (P : option Z -> option Z -> bool) (x y : res) : bool :=
  existsb (fun k => P (get x k) (get y k)) (keys x ++ keys y).

Definition subElim_known_window (l r : res) : bool := some_key left_only_negative_at l r.

(* result vector [out] agrees with [f] at every key *)
Definition pw_ok (f : option Z -> option Z -> option Z) (x y out : res) : bool :=
  forallb (fun k => optZ_eqb (get out k) (f (get x k) (get y k))) (keys x ++ keys y ++ keys out).
Definition pw1_ok (f : option Z -> option Z) (x out : res) : bool :=
  forallb (fun k => optZ_eqb (get out k) (f (get x k))) (keys x ++ keys out).

(* specification of each boolean function (nil receiver / argument = empty where documented) *)
Definition fitIn_spec (r s : ores) (skipUndef actual : bool) : bool :=
  all_keys (fit_at skipUndef actual) (oget r) (oget s).
Definition sgt_spec (l s : ores) : bool :=
  all_keys ge_at (oget l) (oget s) && some_key ne_at (oget l) (oget s).
Definition sgte_spec (l s : ores) : bool := all_keys ge_at (oget l) (oget s).
Definition equals_spec (l r : ores) : bool :=
  match l, r with
  | None, None => true
  | Some a, Some b => all_keys eqz_at a b
  | _, _ => false
  end.
Definition deepEquals_spec (l r : ores) : bool :=
  match l, r with
  | None, None => true
  | Some a, Some b => all_keys optZ_eqb a b
  | _, _ => false
  end.
Definition isZero_spec (o : ores) : bool := all_keys eqz_at (oget o) [].
Definition equalsOrEmpty_spec (l r : ores) : bool :=
  (isZero_spec l && isZero_spec r) || equals_spec l r.
Definition matchAny_spec (a b : ores) : bool := some_key both_at (oget a) (oget b).
Definition hasNegative_spec (o : ores) : bool :=
  some_key (fun a _ => oz a <? 0) (oget o) [].
Definition sgtZero_spec (o : ores) : bool :=
  negb (hasNegative_spec o) && some_key (fun a _ => 0 <? oz a) (oget o) [].

(* StrictlyGreaterThan(OrEquals)OnlyExisting, as the code documents its cases:
   smaller empty, receiver not: every receiver value must be > 0;
   a common type exists: every common type satisfies smaller <= receiver, and (strict variant) at
   least one common type differs; no common type: true iff both are non-empty. *)
Definition le_common_at (lv sv : option Z) : bool :=
  match lv, sv with Some l, Some s => s <=? l | _, _ => true end.
Definition ne_common_at (lv sv : option Z) : bool :=
  match lv, sv with Some l, Some s => negb (s =? l) | _, _ => false end.
Definition sgtOnly_spec (r smaller : ores) (orEquals : bool) : bool :=
  let l := oget r in let s := oget smaller in
  match s, l with
  | [], [] => false
  | [], _ => all_keys (fun a _ => match a with Some v => 0 <? v | None => true end) l []
  | _, _ =>
      if some_key both_at l s
      then all_keys le_common_at l s && (orEquals || some_key ne_common_at l s)
      else match l with [] => false | _ => true end
  end.
