package main

// gotrans: a translator from a restricted subset of Go to Gallina (engine "extract").
//
// For every whitelisted function of /repo's CURRENT working tree one Gallina Definition is
// generated STRUCTURALLY from the function's AST (typed with go/types) into
// coq/Generated/Go<Pkg>.v. The tie theorems of coq/{Base,Events,Sort,Core}/GoTie*.v prove that the
// generated definitions equal the hand-written model definitions the property theorems are
// about. A function that disappeared or left the subset gets NO definition (a Coq comment with
// the reason instead), so that its tie theorem stops compiling.
//
// Files: gotrans.go (whitelist, loader, driver), gotrans_types.go (type mapping, records),
// gotrans_expr.go (expressions), gotrans_stmt.go (statements), gotrans_emit.go (Coq text, prelude).
// The subset, what is stripped and the trusted base are described in notes/gotrans.md.

import (
	"fmt"
	"go/ast"
	"go/parser"
	"go/token"
	"go/types"
	"os"
	"path/filepath"
	"sort"
	"strings"
)

// ---------------------------------------------------------------------------- whitelist

// gotransFn names one function to translate.
//
//	Name: "f", "T.m" (method of T or *T) or "f#n" / "T.m#n" (n-th function literal inside, from 1).
//	Crit: translate only the critical section: the statements after the first top-level
//	      `recv.Lock()` / `recv.RLock()` statement (the skipped prefix is pinned as a string constant).
//	As:   name of the generated definition (default: Go name, "_lit<n>" / "_crit" appended).
type gotransFn struct {
	Name string
	Crit bool
	As   string
	// Frag: translate only the top level statements from the first one whose source text starts with
	// FragStart up to (and including) the first following one whose text starts with FragEnd (FragEnd
	// empty: the single statement). Inputs: the variables the fragment reads that are declared
	// outside it; result: the variables it assigns that are declared outside it or used after it.
	FragStart, FragEnd string
	// Skip: top level statements (identified by a prefix of their source text, each must match exactly
	// one statement) that are left out: the recursion into the parent object in front of a per-object
	// step. Their text is emitted as the string constant <name>_skipped and pinned by a theorem.
	Skip []string
}

type gotransPkgSpec struct {
	Dir    string // relative to the repository root
	Module string // Coq file name without .v
	Funcs  []gotransFn
}

var gotransWhitelist = []gotransPkgSpec{
	{Dir: "pkg/common/resources", Module: "GoResources", Funcs: []gotransFn{
		{Name: "addVal"}, {Name: "subVal"}, {Name: "mulVal"}, {Name: "mulValRatio"},
		{Name: "NewResource"}, {Name: "var Zero"}, {Name: "Resource.Clone"}, {Name: "Resource.Prune"},
		{Name: "Resource.AddTo"}, {Name: "Resource.SubFrom"}, {Name: "Resource.MultiplyTo"},
		{Name: "Add"}, {Name: "Sub"}, {Name: "SubOnlyExisting"}, {Name: "AddOnlyExisting"},
		{Name: "Resource.fitIn"}, {Name: "Resource.FitIn"}, {Name: "Resource.FitInMaxUndef"}, {Name: "Resource.FitInActual"},
		{Name: "getShareFairForDenominator"}, {Name: "getFairShare"}, {Name: "CompUsageRatioSeparately"},
		{Name: "IsZero"}, {Name: "Multiply"}, {Name: "MultiplyBy"},
		{Name: "StrictlyGreaterThan"}, {Name: "StrictlyGreaterThanOrEquals"},
		{Name: "StrictlyGreaterThanZero"}, {Name: "Resource.HasNegativeValue"}, {Name: "Resource.IsEmpty"},
		{Name: "ComponentWiseMinOnlyExisting"}, {Name: "MergeIfNotPresent"},
		{Name: "ComponentWiseMin"}, {Name: "ComponentWiseMax"},
	}},
	{Dir: "pkg/events", Module: "GoEvents", Funcs: []gotransFn{
		{Name: "eventRingBuffer.getLowestID"}, {Name: "eventRingBuffer.getLastEventID"},
		{Name: "eventRingBuffer.id2pos"}, {Name: "eventRingBuffer.updateLowestID"},
		{Name: "eventRingBuffer.Add"},
		{Name: "eventRingBuffer.getEntriesFromRanges"},
		{Name: "eventRingBuffer.getEventsFromID"},
		{Name: "eventRingBuffer.GetEventsFromID"},
		{Name: "eventRingBuffer.GetRecentEvents"},
		{Name: "eventRingBuffer.GetLastEventID"},
		{Name: "eventRingBuffer.Resize"},
		{Name: "EventStore.Store"}, {Name: "EventStore.CollectEvents"},
		{Name: "EventStore.CountStoredEvents"}, {Name: "EventStore.SetStoreSize"},
	}},
	{Dir: "pkg/scheduler/objects", Module: "GoObjects", Funcs: []gotransFn{
		{Name: "priorityValueByPolicy"},
		{Name: "Queue.getCurrentPriority"},
		{Name: "Queue.GetCurrentPriority"},
		{Name: "Queue.canRunApp", Crit: true},
		{Name: "Queue.incRunningApps", Crit: true},
		{Name: "Queue.decRunningApps", Crit: true},
		{Name: "Queue.Reserve"},
		{Name: "Queue.UnReserve"},
		{Name: "Queue.recalculatePriority"},
		{Name: "Queue.GetPriorityPolicyAndOffset"},
		{Name: "Queue.findPreemptionFenceRoot", FragStart: "policy, offset :=", FragEnd: "priorityMap["},
		{Name: "Queue.isRoot"},
		{Name: "Queue.allocatedResFits"},
		{Name: "Queue.resourceFitsAllocated"},
		{Name: "Queue.updateAllocatedResourceMetrics"},
		{Name: "Queue.updatePendingResourceMetrics"},
		{Name: "Queue.TryIncAllocatedResource", Skip: []string{"if sq.parent != nil {"}},
		{Name: "Queue.DecAllocatedResource", Skip: []string{"if sq.parent != nil {"}},
		{Name: "Queue.IncAllocatedResource", FragStart: "sq.allocatedResource = resources.Add(", FragEnd: "sq.updateAllocatedResourceMetrics()"},
		{Name: "Queue.incPendingResource", Skip: []string{"if sq.parent != nil {"}},
		{Name: "Queue.internalHeadRoom"},
		{Name: "Allocation.IsForeign"}, {Name: "Allocation.GetAllocatedResource"}, {Name: "Allocation.GetAllocationKey"},
		{Name: "Node.addAllocationInternal", FragStart: "res := alloc.GetAllocatedResource()", FragEnd: "$"},
		{Name: "Node.RemoveAllocation", FragStart: "alloc = sn.allocations[allocationKey]", FragEnd: "$"},
		{Name: "Node.ReplaceAllocation", FragStart: "before := sn.allocatedResource.Clone()", FragEnd: "sn.availableResource.Prune()"},
		{Name: "Node.refreshAvailableResource"},
		{Name: "Node.UpdateAllocatedResource"},
		{Name: "Node.CanAllocate"},
		{Name: "Node.FitInNode"},
		{Name: "Node.IsSchedulable"},
		{Name: "Node.IsReserved"},
		{Name: "Application.GetAskMaxPriority"},
		{Name: "Application.GetSubmissionTime"},
		{Name: "Allocation.LessThan"},
		{Name: "sortQueuesByPriority#1"},
		{Name: "sortApplicationsBySubmissionTimeAndPriority#1"},
		{Name: "sortApplicationsByPriorityAndSubmissionTime#1"},
	}},
	{Dir: "pkg/scheduler/ugm", Module: "GoUgm", Funcs: []gotransFn{
		{Name: "QueueTracker.canRunApp", FragStart: "var running int", FragEnd: "$"},
		{Name: "QueueTracker.headroom", FragStart: "if !resources.IsZero(qt.maxResources)", FragEnd: "$"},
	}},
}

// package level VARIABLES that are read as constants (initialiser evaluated by go/types; the
// translator checks that no non-test file of the defining package assigns to them).
var gotransConstVars = map[string]bool{
	"pkg/common/configs.MinPriority": true,
	"pkg/common/configs.MaxPriority": true,
}

// ---------------------------------------------------------------------------- errors

// gtErr: the function under translation left the subset.
type gtErr struct{ msg string }

func gtFail(format string, a ...any) {
	panic(gtErr{fmt.Sprintf(format, a...)})
}

// ---------------------------------------------------------------------------- loader

type gtPkg struct {
	path  string
	dir   string
	files []*ast.File
	names []string
	pkg   *types.Package
	info  *types.Info
}

type gtLoader struct {
	repo   string
	module string
	fset   *token.FileSet
	pkgs   map[string]*gtPkg
	fake   map[string]*types.Package
	bodies map[string]bool // package paths whose function bodies are type-checked
}

const gotransStubMath = `package math
const (
	MaxInt8 = 1<<7 - 1
	MinInt8 = -1 << 7
	MaxInt16 = 1<<15 - 1
	MinInt16 = -1 << 15
	MaxInt32 = 1<<31 - 1
	MinInt32 = -1 << 31
	MaxInt64 = 1<<63 - 1
	MinInt64 = -1 << 63
	MaxInt = 1<<63 - 1
	MinInt = -1 << 63
	MaxUint8 = 1<<8 - 1
	MaxUint16 = 1<<16 - 1
	MaxUint32 = 1<<32 - 1
	MaxUint64 = 1<<64 - 1
	MaxUint = 1<<64 - 1
)
`

// only the TYPES of package time are used: time.Time is translated to an integer instant.
const gotransStubTime = `package time
type Time struct { wall uint64; ext int64 }
type Duration int64
func (t Time) Before(u Time) bool { return false }
func (t Time) After(u Time) bool { return false }
func (t Time) Equal(u Time) bool { return false }
func (t Time) IsZero() bool { return false }
func (t Time) Sub(u Time) Duration { return 0 }
func (t Time) Add(d Duration) Time { return t }
func (t Time) UnixNano() int64 { return 0 }
func Now() Time { return Time{} }
func Since(t Time) Duration { return 0 }
const (
	Nanosecond Duration = 1
	Microsecond = 1000 * Nanosecond
	Millisecond = 1000 * Microsecond
	Second = 1000 * Millisecond
	Minute = 60 * Second
	Hour = 60 * Minute
)
`

func (l *gtLoader) stub(path, src string) (*types.Package, error) {
	f, err := parser.ParseFile(l.fset, path+"/stub.go", src, 0)
	if err != nil {
		return nil, err
	}
	conf := types.Config{Error: func(error) {}}
	pkg, _ := conf.Check(path, l.fset, []*ast.File{f}, nil)
	pkg.MarkComplete()
	return pkg, nil
}

// Import implements types.Importer: packages of the repository are type-checked from source,
// math and time are stubs, everything else is an empty package (errors are ignored; an expression
// whose type depends on such a package has no type and takes the function out of the subset).
func (l *gtLoader) Import(path string) (*types.Package, error) {
	if strings.HasPrefix(path, l.module+"/") {
		p, err := l.load(strings.TrimPrefix(path, l.module+"/"))
		if err != nil {
			return nil, err
		}
		return p.pkg, nil
	}
	if p, ok := l.fake[path]; ok {
		return p, nil
	}
	var p *types.Package
	var err error
	switch path {
	case "math":
		p, err = l.stub(path, gotransStubMath)
	case "time":
		p, err = l.stub(path, gotransStubTime)
	default:
		name := path[strings.LastIndex(path, "/")+1:]
		// versioned import paths (…/v2) and dashed names
		if len(name) >= 2 && name[0] == 'v' && name[1] >= '0' && name[1] <= '9' {
			rest := path[:strings.LastIndex(path, "/")]
			name = rest[strings.LastIndex(rest, "/")+1:]
		}
		name = strings.ReplaceAll(name, "-", "_")
		name = strings.ReplaceAll(name, ".", "_")
		p = types.NewPackage(path, name)
		p.MarkComplete()
	}
	if err != nil {
		return nil, err
	}
	l.fake[path] = p
	return p, nil
}

func gotransHasVerifTag(f *ast.File) bool {
	for _, cg := range f.Comments {
		if cg.Pos() >= f.Package {
			break
		}
		for _, c := range cg.List {
			if strings.HasPrefix(c.Text, "//go:build") && strings.Contains(c.Text, "verif") {
				return true
			}
		}
	}
	return false
}

// declareOpaque: every name pkg.X a file mentions, for a package outside the repository (and not a
// stub), is declared in the fake package as an opaque named type, so that types like *si.EventRecord
// can be carried around. (Uses as functions or values then fail to type-check: no type, outside the subset.)
func (l *gtLoader) declareOpaque(p *gtPkg) {
	for _, f := range p.files {
		local := map[string]*types.Package{}
		for _, im := range f.Imports {
			path := strings.Trim(im.Path.Value, "\"`")
			if strings.HasPrefix(path, l.module+"/") || path == "math" || path == "time" {
				continue
			}
			pkg, err := l.Import(path)
			if err != nil {
				continue
			}
			name := pkg.Name()
			if im.Name != nil {
				name = im.Name.Name
			}
			local[name] = pkg
		}
		ast.Inspect(f, func(n ast.Node) bool {
			sel, ok := n.(*ast.SelectorExpr)
			if !ok {
				return true
			}
			id, ok := sel.X.(*ast.Ident)
			if !ok {
				return true
			}
			pkg, ok := local[id.Name]
			if !ok || !ast.IsExported(sel.Sel.Name) || pkg.Scope().Lookup(sel.Sel.Name) != nil {
				return true
			}
			tn := types.NewTypeName(token.NoPos, pkg, sel.Sel.Name, nil)
			types.NewNamed(tn, types.NewStruct(nil, nil), nil)
			pkg.Scope().Insert(tn)
			return true
		})
	}
}

// load parses and type-checks the package in <repo>/<rel>.
func (l *gtLoader) load(rel string) (*gtPkg, error) {
	if p, ok := l.pkgs[rel]; ok {
		if p == nil {
			return nil, fmt.Errorf("import cycle through %s", rel)
		}
		return p, nil
	}
	l.pkgs[rel] = nil
	dir := filepath.Join(l.repo, rel)
	ents, err := os.ReadDir(dir)
	if err != nil {
		return nil, err
	}
	p := &gtPkg{path: l.module + "/" + rel, dir: rel}
	for _, e := range ents {
		n := e.Name()
		if e.IsDir() || !strings.HasSuffix(n, ".go") || strings.HasSuffix(n, "_test.go") {
			continue
		}
		f, err := parser.ParseFile(l.fset, filepath.Join(dir, n), nil, parser.ParseComments|parser.SkipObjectResolution)
		if err != nil {
			return nil, err
		}
		if gotransHasVerifTag(f) {
			continue
		}
		p.files = append(p.files, f)
		p.names = append(p.names, n)
	}
	if len(p.files) == 0 {
		return nil, fmt.Errorf("no Go files in %s", dir)
	}
	l.declareOpaque(p)
	p.info = &types.Info{
		Types:      map[ast.Expr]types.TypeAndValue{},
		Defs:       map[*ast.Ident]types.Object{},
		Uses:       map[*ast.Ident]types.Object{},
		Selections: map[*ast.SelectorExpr]*types.Selection{},
		Implicits:  map[ast.Node]types.Object{},
	}
	conf := types.Config{Importer: l, Error: func(error) {}, IgnoreFuncBodies: !l.bodies[rel]}
	p.pkg, _ = conf.Check(p.path, l.fset, p.files, p.info)
	if p.pkg == nil {
		return nil, fmt.Errorf("cannot type-check %s", dir)
	}
	l.pkgs[rel] = p
	return p, nil
}

// ---------------------------------------------------------------------------- driver

func gotransModuleName(repo string) (string, error) {
	b, err := os.ReadFile(filepath.Join(repo, "go.mod"))
	if err != nil {
		return "", err
	}
	for _, line := range strings.Split(string(b), "\n") {
		line = strings.TrimSpace(line)
		if strings.HasPrefix(line, "module ") {
			return strings.TrimSpace(strings.TrimPrefix(line, "module ")), nil
		}
	}
	return "", fmt.Errorf("no module line in go.mod")
}

func gotransExtract(o *Opts) {
	repo := o.Variant
	if repo == "" {
		repo = "/repo"
	}
	mod, err := gotransModuleName(repo)
	if err != nil {
		fmt.Println("gotrans: cannot read the source: " + err.Error())
		os.Exit(3)
	}
	l := &gtLoader{repo: repo, module: mod, fset: token.NewFileSet(), pkgs: map[string]*gtPkg{},
		fake: map[string]*types.Package{}, bodies: map[string]bool{}}
	for _, s := range gotransWhitelist {
		l.bodies[s.Dir] = true
	}
	tr := newGotrans(l)
	for i := range gotransWhitelist {
		s := &gotransWhitelist[i]
		p, err := l.load(s.Dir)
		if err != nil {
			fmt.Println("gotrans: cannot parse " + s.Dir + ": " + err.Error())
			os.Exit(3)
		}
		tr.addPackage(s, p)
	}
	// pass 1 collects which struct fields are used, pass 2 produces the text
	tr.run(false)
	tr.run(true)
	files := tr.emit()
	names := make([]string, 0, len(files))
	for n := range files {
		names = append(names, n)
	}
	sort.Strings(names)
	for _, n := range names {
		writeFile(filepath.Join(o.OutDir, n), files[n])
	}
}

func init() { extractors = append(extractors, gotransExtract) }
