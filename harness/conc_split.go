package main

// ---- engine "conc": split critical sections (atomicity monitor), baseline, targeted workloads ----
//
// The lock wrapper of pkg/locking (build tag verif) reports, per run, the SPLIT critical sections: inside one
// invocation of a function F the lock of an object was released and taken again in write mode at another place
// of F. These are the candidates for check-then-act (a value read in the first section decides a write in the second).
// The ones that exist on the unchanged tree were reviewed and are listed in corpus/conc_split_baseline.json; a split
// section that is not in the baseline breaks the tie of the atomicity theorem (Conc/AtomicProofs.v: programs
// without split sections are serialisable) to the code and is reported (kind 1420). Once a split section has been
// seen in a process the wrapper sleeps for a moment between its two parts (seed driven), so the targeted
// workloads below hit the window.

import (
	"fmt"
	"os"
	"path/filepath"
	"sort"
	"strings"
	"sync"

	"github.com/apache/yunikorn-core/pkg/locking"
)

type ConcBaselineEntry struct {
	ID       int      `json:"id"`
	Key      string   `json:"key"`      // function|class
	Closed   bool     `json:"closed"`   // only the listed variants are accepted
	Variants []string `json:"variants"` // first section function:mode>second section function
	Why      string   `json:"why"`
}

type ConcBaseline struct {
	About  string              `json:"about"`
	Splits []ConcBaselineEntry `json:"splits"`
	Path   string              `json:"-"`
	byKey  map[string]*ConcBaselineEntry
}

// lookup returns the id of the baseline entry that covers the split section (0 = none).
func (b *ConcBaseline) lookup(pair, variant string) int {
	e := b.byKey[pair]
	if e == nil {
		return 0
	}
	if !e.Closed {
		return e.ID
	}
	for _, v := range e.Variants {
		if v == variant {
			return e.ID
		}
	}
	return 0
}

var (
	concBaselineOnce sync.Once
	concBaselineVal  *ConcBaseline
)

// concBaseline loads corpus/conc_split_baseline.json: $VERIF_ROOT, the working directory, next to the build
// directory of the binary, /verif. Without the file every split section is new (kind 1420).
func concBaseline() *ConcBaseline {
	concBaselineOnce.Do(func() {
		b := &ConcBaseline{byKey: map[string]*ConcBaselineEntry{}}
		var dirs []string
		if d := os.Getenv("VERIF_ROOT"); d != "" {
			dirs = append(dirs, d)
		}
		if wd, err := os.Getwd(); err == nil {
			dirs = append(dirs, wd)
		}
		if self, err := os.Executable(); err == nil {
			dirs = append(dirs, filepath.Dir(filepath.Dir(self)))
		}
		dirs = append(dirs, "/verif")
		for _, d := range dirs {
			p := filepath.Join(d, "corpus", "conc_split_baseline.json")
			if _, err := os.Stat(p); err == nil {
				readJSON(p, b)
				b.Path = p
				break
			}
		}
		for i := range b.Splits {
			b.byKey[b.Splits[i].Key] = &b.Splits[i]
		}
		concBaselineVal = b
	})
	return concBaselineVal
}

func (b *ConcBaseline) ids() []int {
	out := make([]int, 0, len(b.Splits))
	for _, e := range b.Splits {
		out = append(out, e.ID)
	}
	sort.Ints(out)
	return out
}

var concLockTypeClass = map[string]string{
	"objects.Queue": "queue", "objects.Application": "app", "objects.Node": "node", "objects.Allocation": "alloc",
	"scheduler.PartitionContext": "partition", "scheduler.ClusterContext": "cluster", "ugm.Manager": "ugm.manager",
	"ugm.UserTracker": "user", "ugm.GroupTracker": "group",
}

// concSplitFuncOfInterest: F is a function of the scheduler core (not the harness, the hooks, the Go library).
func concSplitFuncOfInterest(fn string) bool {
	if fn == "?" || strings.Contains(fn, "github.com/") || strings.HasPrefix(fn, "main.") || !strings.Contains(fn, ".") {
		return false
	}
	for _, pre := range []string{"scheduler", "common/", "webservice", "events", "rmproxy", "metrics", "plugins", "entrypoint"} {
		if strings.HasPrefix(fn, pre) {
			// hook functions of the harness are orchestration, not code under verification
			if i := strings.LastIndex(fn, "."); i >= 0 && strings.HasPrefix(fn[i+1:], "Verif") {
				return false
			}
			return !strings.Contains(fn, ".Verif")
		}
	}
	return false
}

var concReviewedOnce sync.Once

// concSplitsInit tells the lock wrapper which split sections are reviewed (their windows are widened less often).
func concSplitsInit() {
	concReviewedOnce.Do(func() {
		var keys []string
		for _, e := range concBaseline().Splits {
			fn := strings.Split(e.Key, "|")[0]
			if !e.Closed {
				keys = append(keys, fn+"|*")
				continue
			}
			for _, v := range e.Variants {
				keys = append(keys, fn+"|"+v)
			}
		}
		locking.VerifLockSectionsReviewed(keys)
	})
}

// concSplits turns the wrapper's report into the run's list of split sections. Checked against the baseline: the
// SELF splits (F is a method of the type whose lock is split: the method's own read-modify-write is not one critical
// section). Splits of another object's lock by an orchestrating function (F|class) are kept as information only.
func concSplits(res *ConcResult, splits []locking.VerifSplit, reg *concRegistry) {
	base := concBaseline()
	agg := map[string]*ConcSplit{}
	var order []string
	for _, s := range splits {
		if !concSplitFuncOfInterest(s.Func) {
			continue
		}
		class, ok := concLockTypeClass[s.LockType]
		if !ok {
			class = s.LockType
		}
		if !s.Self {
			if res.ForeignSplits == nil {
				res.ForeignSplits = map[string]uint64{}
			}
			res.ForeignSplits[s.Func+"|"+class] += s.Count
			continue
		}
		mode := "W"
		if s.FirstRead {
			mode = "R"
		}
		pair := s.Func + "|" + class
		variant := fmt.Sprintf("%s:%s>%s", s.FirstFunc, mode, s.SecondFunc)
		key := pair + "|" + variant
		x := agg[key]
		if x == nil {
			reg.Lock()
			label := reg.m[s.Lock]
			reg.Unlock()
			x = &ConcSplit{Key: key, Pair: pair, Variant: variant, Func: s.Func, Class: class, FirstFunc: s.FirstFunc, FirstMode: mode, SecondFunc: s.SecondFunc,
				First: s.First, Second: s.Second, Label: label}
			agg[key] = x
			order = append(order, key)
		}
		x.Count += s.Count
		x.Widened += s.Widened
		for _, r := range s.Roles {
			found := false
			for _, y := range x.Roles {
				found = found || y == r
			}
			if !found {
				x.Roles = append(x.Roles, r)
			}
		}
	}
	fresh := 0
	for _, key := range order {
		x := agg[key]
		sort.Strings(x.Roles)
		if id := base.lookup(x.Pair, x.Variant); id != 0 {
			x.ID = id
		} else {
			x.ID = 1000 + fresh
			fresh++
			res.NewSplits = append(res.NewSplits, key)
		}
		res.Splits = append(res.Splits, *x)
	}
}

func concCoqSplits(res *ConcResult) string {
	ids := make([]string, 0, len(res.Splits))
	for _, s := range res.Splits {
		ids = append(ids, fmt.Sprint(s.ID))
	}
	return "[" + strings.Join(ids, "; ") + "]"
}

// ---- targeted workloads ----

// concLedgerMaxConfig: like concLedgerConfig, the leaf root.p.a has a maximum far below the demand of its two
// applications: the limit check of TryIncAllocatedResource decides most scheduling attempts there.
const concLedgerMaxConfig = `partitions:
  - name: default
    placementrules:
      - name: provided
        create: false
    nodesortpolicy:
      type: fair
    preemption:
      enabled: false
    queues:
      - name: root
        submitacl: "*"
        queues:
          - name: p
            parent: true
            resources:
              max:
                memory: 100000
                vcore: 100000
            queues:
              - name: a
                resources:
                  max:
                    memory: 24
                    vcore: 18
              - name: b
                resources:
                  max:
                    memory: 50000
                    vcore: 50000
          - name: c
`

// concUgmConfig builds the configuration of the first-use workload: a wildcard user limit on the root and one group
// limit per group on the root (all far above the demand): every application gets a user tracker and a group tracker.
func concUgmConfig(groups []string) string {
	var b strings.Builder
	b.WriteString(`partitions:
  - name: default
    placementrules:
      - name: provided
        create: false
    nodesortpolicy:
      type: fair
    preemption:
      enabled: false
    queues:
      - name: root
        submitacl: "*"
        limits:
          - limit: all users
            users:
              - "*"
            maxresources:
              memory: 1000000
              vcore: 1000000
            maxapplications: 10000
`)
	for _, g := range groups {
		b.WriteString(fmt.Sprintf(`          - limit: group %s
            groups:
              - %s
            maxresources:
              memory: 1000000
              vcore: 1000000
            maxapplications: 10000
`, g, g))
	}
	b.WriteString(`        queues:
          - name: p
            parent: true
            queues:
              - name: a
              - name: b
          - name: c
`)
	return b.String()
}

// concGenUgm builds the FIRST-USE workload of the user / group manager: many users (each with a group of its own or a
// group shared with the next user) appear at the same moment in the scheduling goroutine (CanRunApp / Headroom for a
// pending ask, IncreaseTrackedResource for the allocation), the RM goroutine (an allocation the RM already bound:
// IncreaseTrackedResource) and the outstanding-request inspection (Headroom). Nothing is released, removed, reloaded or
// timed out: no tracker is ever removed, so after quiescence the tracked usage of every user and group on every queue
// path must be the sum over the live allocations, and the running-application sets must match.
func concGenUgm(rng *Rng, tier string) *ConcCase {
	nusers := 28 + rng.Intn(12)
	if tier == "thorough" {
		nusers = 50 + rng.Intn(20)
	}
	c := &ConcCase{World: CoreWorld{Seed: rng.Next()}, YieldSeed: rng.Next() | 1, Mode: "conc", Ugm: true, StableUsers: true, Burst: 40, UserGroups: map[string]string{}}
	var groups []string
	for u := 1; u <= nusers; u++ {
		g := fmt.Sprintf("grp-%d", u)
		if u%4 == 0 {
			g = fmt.Sprintf("grp-%d", u-1) // shared with the previous user
		} else {
			groups = append(groups, g)
		}
		c.UserGroups[fmt.Sprintf("usr-%d", u)] = g
	}
	c.World.Configs = []string{concUgmConfig(groups)}
	for n := 1; n <= 3; n++ {
		c.Ops = append(c.Ops, CoreOp{Kind: "node_add", Node: fmt.Sprintf("node-%d", n), Cap: CoreRes{"memory": 100000, "vcore": 100000}})
	}
	leaves := []string{"root.p.a", "root.p.b", "root.c"}
	k := 0
	napp := 0
	for u := 1; u <= nusers; u++ {
		user := fmt.Sprintf("usr-%d", u)
		group := c.UserGroups[user]
		// two (sometimes three) applications per user: the scheduling loop holds the lock of the application it
		// schedules while it asks for the user's headroom, the RM goroutine holds the lock of the application whose
		// allocation it registers; only DIFFERENT applications of one user reach the manager at the same moment
		apps := 2
		if rng.Chance(25) {
			apps = 3
		}
		var ids []string
		for a := 0; a < apps; a++ {
			napp++
			id := fmt.Sprintf("app-%d", napp)
			ids = append(ids, id)
			c.Ops = append(c.Ops, CoreOp{Kind: "app_add", App: id, Queue: leaves[rng.Intn(3)], User: user, Groups: []string{group, "other"}})
		}
		// an ask of the first application for the scheduler (CanRunApp, Headroom; Headroom again in the outstanding-request
		// inspection), then at once (no pause) an allocation of the second application the RM already bound
		// (IncreaseTrackedResource): first use of the user from up to three goroutines; then a mix of both
		n := 2 + rng.Intn(4)
		for j := 0; j < n; j++ {
			k++
			op := CoreOp{Kind: "alloc", App: ids[rng.Intn(len(ids))], Key: fmt.Sprintf("alloc-%d", k), Res: CoreRes{"memory": int64(1 + rng.Intn(3)), "vcore": int64(1 + rng.Intn(2))}, AgeSec: 3600}
			bound := rng.Chance(45)
			if j == 0 {
				op.App = ids[0]
				bound = rng.Chance(10)
			}
			if j == 1 {
				op.App = ids[1]
				bound = rng.Chance(90)
				c.TightKeys = append(c.TightKeys, op.Key)
			}
			if bound {
				op.Node = fmt.Sprintf("node-%d", 1+rng.Intn(3))
			}
			c.Ops = append(c.Ops, op)
		}
	}
	return c
}

// concGenLedgerMax: the ledger workload with a tight maximum on root.p.a. Allocations the RM already bound (unchecked
// increments) go to the applications of the other leaves only, fewer allocations are released again.
func concGenLedgerMax(rng *Rng, tier string) *ConcCase {
	c := concGenLedger(rng, tier)
	c.World.Configs = []string{concLedgerMaxConfig}
	c.ReleaseAfterAlloc = 25 + rng.Intn(30)
	c.MaxStrict = []string{"root.p.a"}
	inA := map[string]bool{}
	for _, op := range c.Ops {
		if op.Kind == "app_add" && op.Queue == "root.p.a" {
			inA[op.App] = true
		}
	}
	dropped := map[string]bool{}
	ops := c.Ops[:0]
	for _, op := range c.Ops {
		if op.Kind == "alloc" && op.Node != "" && inA[op.App] {
			op.Node = "" // a plain ask: scheduled through the limit check
			dropped[op.Key] = true
		}
		if op.Kind == "release" && dropped[op.Key] {
			continue
		}
		ops = append(ops, op)
	}
	c.Ops = ops
	return c
}
