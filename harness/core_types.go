package main

// ---- engine "core": types shared by generator, driver and emitter ----

// CoreRes is a sparse resource vector keyed by resource type name.
type CoreRes map[string]int64

// CoreOp is one step of a history (JSON form used for replay and for the corpus).
type CoreOp struct {
	Kind string `json:"k"`
	// node ops
	Node  string  `json:"node,omitempty"`
	Cap   CoreRes `json:"cap,omitempty"`
	Drain bool    `json:"drain,omitempty"`
	// application ops
	App       string   `json:"app,omitempty"`
	Queue     string   `json:"queue,omitempty"`
	User      string   `json:"user,omitempty"`
	Groups    []string `json:"groups,omitempty"`
	Forced    bool     `json:"forced,omitempty"`
	NoUgi     bool     `json:"nougi,omitempty"`
	PhAsk     CoreRes  `json:"phask,omitempty"`
	Hard      bool     `json:"hard,omitempty"`
	MaxApps   uint64   `json:"tagmaxapps,omitempty"`
	TagMax    CoreRes  `json:"tagmax,omitempty"`
	Partition string   `json:"partition,omitempty"` // "" = default partition
	// allocation ops
	Key       string  `json:"key,omitempty"`
	Res       CoreRes `json:"res,omitempty"`
	NilRes    bool    `json:"nilres,omitempty"`
	Prio      int32   `json:"prio,omitempty"`
	Ph        bool    `json:"ph,omitempty"`
	TaskGroup string  `json:"tg,omitempty"`
	ReqNode   string  `json:"reqnode,omitempty"`
	Foreign   bool    `json:"foreign,omitempty"`
	NoPreempt bool    `json:"nopreempt,omitempty"` // allowPreemptSelf=false
	PreemptOther bool `json:"preemptother,omitempty"`
	Originator bool   `json:"orig,omitempty"`
	AgeSec    int64   `json:"age,omitempty"` // creation time = start - age seconds
	TType     int32   `json:"ttype,omitempty"`
	// reload
	Conf int `json:"conf,omitempty"` // index into the world's config list
	// malformed marker: the step is expected to leave the accounting unchanged
	Malformed bool `json:"malformed,omitempty"`
}

// CoreWorld is the static part of a history.
type CoreWorld struct {
	Configs     []string `json:"configs"` // YAML documents; Configs[0] is the initial configuration
	ResDelayOn  bool     `json:"resdelay"` // reservation delay crossed immediately (reservations happen)
	ResWaitOn   bool     `json:"reswait"`  // reservation wait timeout crossed immediately
	PredDeny    int      `json:"preddeny"` // the predicate plugin denies (key,node) pairs with hash%100 < PredDeny
	Seed        uint64   `json:"seed"`
	DenyPairs   [][2]string `json:"denypairs,omitempty"` // explicit (allocation key, node) pairs the predicate denies
}

type CoreCase struct {
	World CoreWorld `json:"world"`
	Ops   []CoreOp  `json:"ops"`
	// filled by the driver
	Steps []CoreStep `json:"-"`
	Init  *CoreObs   `json:"-"`
	Names *Interner  `json:"-"`
}

// ---- observations ----
type ObsAlloc struct {
	Key, App, Node      string
	Res                 CoreRes
	Ph                  bool
	TaskGroup           string
	Allocated, Released bool
	Preempted           bool
	Release             string // key of the linked allocation of an in-flight swap
	ReqNode             string
	Prio                int32
	Foreign             bool
	Originator          bool
	PreemptSelf         bool
	PreemptOther        bool
}
type ObsNode struct {
	ID                                   string
	Total, Occupied, Allocated, Available CoreRes
	Sched                                bool
	Allocs, Foreign                      []ObsAlloc
	Reservations                         [][2]string // app, key
}
type ObsPh struct {
	TaskGroup                string
	Count, Replaced, TimedOut int64
}
type ObsApp struct {
	ID, Queue, State, User         string
	Groups                         []string
	Pending, Allocated, PhAlloc, PhAsk CoreRes
	Requests, Allocs               []ObsAlloc
	Reservations                   [][2]string // node, key
	PhData                         []ObsPh
	StateLog                       []string
	PhTimer, StateTimer            bool
	Forced, Hard, HasPh            bool
}
type ObsQueue struct {
	Path, Parent                string
	Leaf, Managed               bool
	State                       string
	Max, Guaranteed             CoreRes
	MaxNil, GuarNil             bool
	Alloc, Pending, Preempting  CoreRes
	Running, MaxRunning         uint64
	Allocating                  []string
	Reserved                    map[string]int
	Apps                        []string
}
type ObsUgm struct {
	Who      string // user or group name
	IsGroup  bool
	Path     string
	Usage    CoreRes
	Max      CoreRes
	MaxNil   bool
	MaxApps  uint64
	Running  []string
}
type CoreObs struct {
	Nodes                       []ObsNode
	Apps                        []ObsApp
	Queues                      []ObsQueue
	Total                       CoreRes
	TotalNil                    bool
	NAllocs, NPh, NReservations int
	Foreign                     []ObsAlloc
	Completed                   []ObsApp
	Rejected                    []string
	Ugm                         []ObsUgm
}

type CoreEvent struct {
	Kind  string // newalloc release appaccepted apprejected appupdated nodeaccepted noderejected allocrejected
	Key   string
	App   string
	Node  string
	Res   CoreRes
	Ph    bool
	TType int32
	State string
}
type PredCall struct {
	Key, Node string
	Allocate  bool
	OK        bool
}
type CoreStep struct {
	Op     CoreOp
	Events []CoreEvent
	Preds  []PredCall
	Panic  string
	Err    bool // reload rejected / op returned an error
	Obs    *CoreObs
}

// Interner maps strings to positive numbers (0 is reserved for "none").
type Interner struct {
	ids   map[string]uint64
	names []string
}

func NewInterner() *Interner { return &Interner{ids: map[string]uint64{}, names: []string{""}} }
func (in *Interner) ID(s string) uint64 {
	if s == "" {
		return 0
	}
	if id, ok := in.ids[s]; ok {
		return id
	}
	id := uint64(len(in.names))
	in.ids[s] = id
	in.names = append(in.names, s)
	return id
}
