package main

import (
	"bytes"
	"errors"
	"fmt"
	"io"
	"path/filepath"
	"regexp"
	"sort"
	"strings"
	"time"

	"go.yaml.in/yaml/v3"

	"github.com/apache/yunikorn-core/pkg/common/configs"
	"github.com/apache/yunikorn-core/pkg/scheduler"
	"github.com/apache/yunikorn-core/pkg/scheduler/ugm"
)

// ---- engine "conf" (property C15): validation verdict, validated configuration, load into a new scheduler and as a
// reload of a running scheduler, determinism of the verdict ----

type ConfObs struct {
	Decoded   bool     `json:"decoded"`
	Accept    bool     `json:"accept"`
	VPanic    bool     `json:"vpanic,omitempty"`
	ErrClass  string   `json:"err_class,omitempty"`
	ErrText   string   `json:"err_text,omitempty"`
	New       string   `json:"new,omitempty"` // ok:true ok:false err:<class> panic hang
	NewText   string   `json:"new_text,omitempty"`
	BaseParts []string `json:"base_parts,omitempty"`
	Reload    string   `json:"reload,omitempty"`
	RelText   string   `json:"reload_text,omitempty"`
	Perm      []bool   `json:"perm,omitempty"`
}

type ConfCase struct {
	Kind  string   `json:"kind"` // valid | mutated | corpus
	Note  string   `json:"note,omitempty"`
	YAML  string   `json:"yaml"`
	Perms []string `json:"perms,omitempty"` // permuted renderings of the same document
	Base  string   `json:"base,omitempty"`  // configuration of the running scheduler for the reload ("" = none)
	Obs   *ConfObs `json:"obs,omitempty"`
}
type ConfCases struct {
	Cases []ConfCase `json:"cases"`
}

const confDefaultBase = "partitions:\n  - name: default\n    queues:\n      - name: root\n        queues:\n          - name: a\n          - name: dev\n            queues:\n              - name: x\n"

// decode exactly as configs.ParseAndValidateConfig does
func confDecode(b []byte) (*configs.SchedulerConfig, bool) {
	conf := &configs.SchedulerConfig{}
	ok := true
	func() {
		defer func() {
			if recover() != nil {
				ok = false
			}
		}()
		dec := yaml.NewDecoder(bytes.NewReader(b))
		dec.KnownFields(true)
		if err := dec.Decode(conf); err != nil && !errors.Is(err, io.EOF) {
			ok = false
		}
	}()
	return conf, ok
}

func confValidate(b []byte) (conf *configs.SchedulerConfig, err error, panicked bool) {
	defer func() {
		if r := recover(); r != nil {
			panicked = true
			err = fmt.Errorf("panic: %v", r)
		}
	}()
	conf, err = configs.LoadSchedulerConfigFromByteArray(b)
	return
}

func confVerrClass(m string) string {
	has := func(s string) bool { return strings.Contains(m, s) }
	switch {
	case has("duplicate partition name"):
		return "EDupPartition"
	case has("queue config is not set"):
		return "EQueuesNotSet"
	case has("root queue must not have resource limits"):
		return "ERootLimits"
	case has("top queue name is"):
		return "ETopNotRoot"
	case has("partition limits and root queue limits are not equivalent"):
		return "ELimitsNotEquiv"
	case has("multiple spaces found in ACL"):
		return "EACL"
	case has("empty user and group lists"):
		return "ELimitEmpty"
	case has("invalid limit user name"), has("invalid limit group name"):
		return "ELimitName"
	case has("duplicated user name"), has("duplicated group name"):
		return "ELimitDup"
	case has("should not set no wildcard"):
		return "ELimitWildOrder"
	case has("should not specify only one group limit"):
		return "ELimitOnlyWildGroup"
	case has("MaxResources should be greater than zero"):
		return "ELimitZero"
	case has("all resource limits are null"):
		return "ELimitNull"
	case has("exceed current the queue MaxApplications"):
		return "ELimitQApps"
	case has("exeecd current the queue MaxResources"):
		return "ELimitQRes"
	case has("invalid quantity"), has("invalid suffix"), has("max resource failed"):
		return "EQuantity"
	case has("invalid queue name"):
		return "EQueueName"
	case has("is reserved for the root queue"):
		return "ERootReserved"
	case has("duplicate child name"):
		return "EDupQueue"
	case has("is larger than maximum resource"):
		return "EGuaMax"
	case strings.HasPrefix(m, "max resource of parent"):
		return "EMaxParent"
	case strings.HasPrefix(m, "guaranteed resource of parent"):
		return "ESumGua"
	case has("is smaller than sum of guaranteed resources"):
		return "ESumMax"
	case has("invalid rule name"):
		return "ERuleName"
	case has("invalid rule filter"):
		return "EFilter"
	case has("illegal fully qualified"):
		return "ERuleFixed"
	case has("which is not a leaf"):
		return "ERuleNotLeaf"
	case has("cannot be created because the last queue"):
		return "ERuleLastLeaf"
	case has("references non-existing queues"):
		return "ERuleNoQueue"
	case has("undefined policy"):
		return "ESortPolicy"
	case has("negative resource weight"):
		return "ESortWeight"
	case has("parent maxApplications must be larger"):
		return "EMaxAppsParent"
	case has("maxApplications is either undefined or zero"):
		return "EMaxAppsZero"
	case has("is greater than wildcard maximum resource"):
		return "ELimResWild"
	case has("is greater than immediate or ancestor parent maximum resource"):
		return "ELimResNamed"
	case has("is greater than wildcard max applications"):
		return "ELimAppsWild"
	case has("is greater than immediate or ancestor parent max applications"):
		return "ELimAppsNamed"
	}
	return ""
}

func confLerrClass(m string) string {
	has := func(s string) bool { return strings.Contains(m, s) }
	switch {
	case has("partition cannot be created without root queue"):
		return "LERoot"
	case has("multiple spaces found in ACL"):
		return "LEACL"
	case has("invalid quantity"), has("invalid suffix"):
		return "LEQuantity"
	case has("unknown rule name"), has("recovery rule cannot"), has("must have a queue name set"), has("must have a tag name set"),
		has("invalid queue name"), has("cannot have a fixed queue rule"):
		return "LERule"
	case has("cannot add a child queue to a leaf"):
		return "LELeafParent"
	case has("has no active partitions"):
		return "LENoPartitions"
	}
	return "LEOther"
}

func confRulesActive(cc *scheduler.ClusterContext) bool {
	for _, p := range cc.GetPartitionMapClone() {
		if len(p.GetPlacementRules()) == 0 {
			return false
		}
	}
	return true
}

// run f in its own goroutine: result, or "panic", or "hang" after the timeout (the goroutine is abandoned)
func confGuard(f func() (string, string)) (string, string) {
	return confGuardT(10*time.Second, f)
}

func confGuardT(limit time.Duration, f func() (string, string)) (string, string) {
	type res struct{ a, b string }
	done := make(chan res, 1)
	go func() {
		defer func() {
			if r := recover(); r != nil {
				done <- res{"panic", fmt.Sprint(r)}
			}
		}()
		a, b := f()
		done <- res{a, b}
	}()
	select {
	case r := <-done:
		return r.a, r.b
	case <-time.After(limit):
		return "hang", ""
	}
}

func confLoadNew(b []byte) (string, string) {
	defer ugm.VerifNewManager()
	return confGuard(func() (string, string) {
		cc, err := scheduler.NewClusterContext("rm", "policygroup", b)
		if err != nil {
			return "err:" + confLerrClass(err.Error()), err.Error()
		}
		active := confRulesActive(cc)
		cc.Stop()
		return fmt.Sprintf("ok:%v", active), ""
	})
}

func confReload(base, b []byte, dropExpected bool) (string, string) {
	defer ugm.VerifNewManager()
	var cc *scheduler.ClusterContext
	r, t := confGuard(func() (string, string) {
		var err error
		cc, err = scheduler.NewClusterContext("rm", "policygroup", base)
		if err != nil {
			return "base-failed", err.Error()
		}
		return "", ""
	})
	if r != "" {
		return r, t
	}
	// a reload that drops a partition is known to deadlock: do not wait long for it
	limit := 10 * time.Second
	if dropExpected {
		limit = time.Second
	}
	r, t = confGuardT(limit, func() (string, string) {
		err := cc.UpdateRMSchedulerConfig("rm", b)
		if err != nil {
			return "err:" + confLerrClass(err.Error()), err.Error()
		}
		return fmt.Sprintf("ok:%v", confRulesActive(cc)), ""
	})
	if r != "hang" {
		confGuard(func() (string, string) { cc.Stop(); return "", "" })
	}
	return r, t
}

func runConfCase(c *ConfCase) (in, out *configs.SchedulerConfig) {
	o := &ConfObs{}
	c.Obs = o
	b := []byte(c.YAML)
	in, o.Decoded = confDecode(b)
	conf, err, pan := confValidate(b)
	o.VPanic = pan
	o.Accept = err == nil
	if err != nil {
		o.ErrText = err.Error()
		o.ErrClass = confVerrClass(err.Error())
	}
	// determinism: the same bytes twice more (Go map iteration differs between runs) and the permuted renderings
	for i := 0; i < 2; i++ {
		_, e, _ := confValidate(b)
		o.Perm = append(o.Perm, e == nil)
	}
	for _, p := range c.Perms {
		_, e, _ := confValidate([]byte(p))
		o.Perm = append(o.Perm, e == nil)
	}
	if !o.Accept {
		return in, nil
	}
	out = conf
	o.New, o.NewText = confLoadNew(b)
	if c.Base != "" {
		baseConf, berr, _ := confValidate([]byte(c.Base))
		if berr == nil && len(baseConf.Partitions) > 0 {
			for _, p := range baseConf.Partitions {
				o.BaseParts = append(o.BaseParts, p.Name)
			}
			have := map[string]bool{}
			for _, p := range conf.Partitions {
				have[p.Name] = true
			}
			drop := false
			for _, n := range o.BaseParts {
				if !have[n] {
					drop = true
				}
			}
			o.Reload, o.RelText = confReload([]byte(c.Base), b, drop)
			if o.Reload == "base-failed" {
				o.Reload, o.BaseParts = "", nil
			}
		}
	}
	return in, out
}

// ---- Gallina terms ----

type confEmit struct {
	ids map[string]int
}

func confStr(s string) string {
	if s == "" {
		return "[]"
	}
	printable := true
	for i := 0; i < len(s); i++ {
		if s[i] < 32 || s[i] > 126 {
			printable = false
		}
	}
	if printable {
		return "(sb \"" + strings.ReplaceAll(s, "\"", "\"\"") + "\")"
	}
	items := make([]string, len(s))
	for i := 0; i < len(s); i++ {
		items[i] = fmt.Sprintf("%d", s[i])
	}
	return "[" + strings.Join(items, ";") + "]"
}
func confStrs(l []string) string {
	items := make([]string, len(l))
	for i, s := range l {
		items[i] = confStr(s)
	}
	return "[" + strings.Join(items, "; ") + "]"
}
func confOStrs(l []string) string {
	if l == nil {
		return "None"
	}
	return "(Some " + confStrs(l) + ")"
}
func (e *confEmit) rmap(m map[string]string) string {
	if m == nil {
		return "None"
	}
	items := []string{}
	for _, k := range sortedKeys(m) {
		items = append(items, fmt.Sprintf("(%d, %s)", e.ids[k], confStr(m[k])))
	}
	return "(Some [" + strings.Join(items, "; ") + "])"
}
func confSmap(m map[string]string) string {
	items := []string{}
	for _, k := range sortedKeys(m) {
		items = append(items, fmt.Sprintf("(%s, %s)", confStr(k), confStr(m[k])))
	}
	return "[" + strings.Join(items, "; ") + "]"
}
func (e *confEmit) limit(l configs.Limit) string {
	return fmt.Sprintf("(mkLimit %s %s %s %s %d)", confStr(l.Limit), confOStrs(l.Users), confOStrs(l.Groups), e.rmap(l.MaxResources), l.MaxApplications)
}
func (e *confEmit) limits(ls []configs.Limit) string {
	items := make([]string, len(ls))
	for i, l := range ls {
		items[i] = e.limit(l)
	}
	return "[" + strings.Join(items, "; ") + "]"
}
func (e *confEmit) queue(q configs.QueueConfig) string {
	kids := make([]string, len(q.Queues))
	for i, c := range q.Queues {
		kids[i] = e.queue(c)
	}
	t := q.ChildTemplate
	tmpl := fmt.Sprintf("(mkTemplate %d %s %s %s)", t.MaxApplications, confSmap(t.Properties), e.rmap(t.Resources.Guaranteed), e.rmap(t.Resources.Max))
	return fmt.Sprintf("(Queue %s %s %s %s %d %s %s %s %s [%s] %s)", confStr(q.Name), coqBool(q.Parent), e.rmap(q.Resources.Guaranteed), e.rmap(q.Resources.Max),
		q.MaxApplications, confSmap(q.Properties), confStr(q.AdminACL), confStr(q.SubmitACL), tmpl, strings.Join(kids, "; "), e.limits(q.Limits))
}
func (e *confEmit) rule(r configs.PlacementRule) string {
	par := "None"
	if r.Parent != nil {
		par = "(Some " + e.rule(*r.Parent) + ")"
	}
	return fmt.Sprintf("(PRule %s %s (mkFilter %s %s %s) %s %s)", confStr(r.Name), coqBool(r.Create), confStr(r.Filter.Type), confStrs(r.Filter.Users), confStrs(r.Filter.Groups), par, confStr(r.Value))
}
func (e *confEmit) partition(p configs.PartitionConfig) string {
	qs := "None"
	if p.Queues != nil {
		items := make([]string, len(p.Queues))
		for i, q := range p.Queues {
			items[i] = e.queue(q)
		}
		qs = "(Some [" + strings.Join(items, "; ") + "])"
	}
	rules := make([]string, len(p.PlacementRules))
	for i, r := range p.PlacementRules {
		rules[i] = e.rule(r)
	}
	ws := []string{}
	wk := make([]string, 0)
	for k := range p.NodeSortPolicy.ResourceWeights {
		wk = append(wk, k)
	}
	sort.Strings(wk)
	for _, k := range wk {
		ws = append(ws, fmt.Sprintf("(%s, %s)", confStr(k), coqBool(p.NodeSortPolicy.ResourceWeights[k] < 0)))
	}
	return fmt.Sprintf("(mkPartition %s %s [%s] %s %s [%s])", confStr(p.Name), qs, strings.Join(rules, "; "), e.limits(p.Limits), confStr(p.NodeSortPolicy.Type), strings.Join(ws, "; "))
}
func (e *confEmit) config(c *configs.SchedulerConfig) string {
	if c == nil {
		return "[]"
	}
	items := make([]string, len(c.Partitions))
	for i, p := range c.Partitions {
		items[i] = e.partition(p)
	}
	return "[" + strings.Join(items, ";\n    ") + "]"
}

// resource names of both configurations, interned: vcore = 0, the others 1.. in sorted order
func confIntern(cs ...*configs.SchedulerConfig) map[string]int {
	set := map[string]bool{}
	addm := func(m map[string]string) {
		for k := range m {
			set[k] = true
		}
	}
	var walkQ func(q configs.QueueConfig)
	addl := func(ls []configs.Limit) {
		for _, l := range ls {
			addm(l.MaxResources)
		}
	}
	walkQ = func(q configs.QueueConfig) {
		addm(q.Resources.Guaranteed)
		addm(q.Resources.Max)
		addm(q.ChildTemplate.Resources.Guaranteed)
		addm(q.ChildTemplate.Resources.Max)
		addl(q.Limits)
		for _, c := range q.Queues {
			walkQ(c)
		}
	}
	for _, c := range cs {
		if c == nil {
			continue
		}
		for _, p := range c.Partitions {
			addl(p.Limits)
			for _, q := range p.Queues {
				walkQ(q)
			}
		}
	}
	ids := map[string]int{"vcore": 0}
	n := 1
	for _, k := range confSortedResNames(set) {
		if k != "vcore" {
			ids[k] = n
			n++
		}
	}
	return ids
}

// regexp.Compile results for every single-entry filter list of the input
func confRetab(c *configs.SchedulerConfig) string {
	seen := map[string]bool{}
	items := []string{}
	var walkR func(r *configs.PlacementRule)
	add := func(l []string) {
		if len(l) == 1 && !seen[l[0]] {
			seen[l[0]] = true
			_, err := regexp.Compile(l[0])
			items = append(items, fmt.Sprintf("(%s, %s)", confStr(l[0]), coqBool(err == nil)))
		}
	}
	walkR = func(r *configs.PlacementRule) {
		if r == nil {
			return
		}
		add(r.Filter.Users)
		add(r.Filter.Groups)
		walkR(r.Parent)
	}
	if c != nil {
		for _, p := range c.Partitions {
			for i := range p.PlacementRules {
				walkR(&p.PlacementRules[i])
			}
		}
	}
	return "[" + strings.Join(items, "; ") + "]"
}

func confLres(s string) string {
	switch {
	case s == "":
		return "None"
	case s == "ok:true":
		return "(Some (LOk true))"
	case s == "ok:false":
		return "(Some (LOk false))"
	case s == "panic":
		return "(Some LCrash)"
	case s == "hang":
		return "(Some LHang)"
	case strings.HasPrefix(s, "err:") && s != "err:LEOther":
		return "(Some (LErr " + s[4:] + "))"
	}
	return "(Some LCrash)" // unclassified load error: reported as a mismatch / violation
}

func (c *ConfCase) coq(in, out *configs.SchedulerConfig) string {
	o := c.Obs
	e := &confEmit{ids: confIntern(in, out)}
	errc := "None"
	if o.ErrClass != "" {
		errc = "(Some " + o.ErrClass + ")"
	}
	perms := make([]string, len(o.Perm))
	for i, b := range o.Perm {
		perms[i] = coqBool(b)
	}
	input := "[]"
	retab := "[]"
	if o.Decoded {
		input = e.config(in)
		retab = confRetab(in)
	}
	return fmt.Sprintf("(mkCase %s\n   %s\n   %s %s %s %s\n   %s\n   %s %s %s [%s])", coqBool(o.Decoded), input, retab, coqBool(o.Accept), coqBool(o.VPanic), errc,
		e.config(out), confLres(o.New), confStrs(o.BaseParts), confLres(o.Reload), strings.Join(perms, ";"))
}

// ---- case generation ----

func confYAML(c *configs.SchedulerConfig) []byte {
	b, err := yaml.Marshal(c)
	if err != nil {
		panic(err)
	}
	return b
}

func genConfCase(r *Rng, tier string, limitChain bool) ConfCase {
	g := &confGen{r: r, viol: []int{0, 3, 6, 10, 20}[r.Intn(5)], noise: []int{0, 3, 6, 10, 20}[r.Intn(5)], hier: []int{0, 0, 10, 30, 60}[r.Intn(5)]}
	if r.Chance(10) {
		g.viol, g.noise = 0, 0 // a clean configuration
	}
	cfg := g.config()
	kind := "valid"
	if limitChain {
		cfg, kind = g.limitScenario(), "limitchain"
	}
	b := confYAML(cfg)
	c := ConfCase{Kind: kind, YAML: string(b)}
	node := confParseNode(b)
	if kind == "valid" && r.Chance(22) && node != nil {
		// malformed / structural variant stream
		n := 1 + r.Intn(2)
		notes := []string{}
		for i := 0; i < n; i++ {
			notes = append(notes, confMutate(node, r))
		}
		c.Kind, c.Note = "mutated", strings.Join(notes, ",")
		c.YAML = string(confRender(node))
		if r.Chance(10) {
			c.YAML = c.YAML[:r.Intn(len(c.YAML)+1)]
			c.Note += ",truncated"
		}
	}
	// permuted renderings of the final document
	if n2 := confParseNode([]byte(c.YAML)); n2 != nil {
		for i := 0; i < 2; i++ {
			confShuffle(n2, r)
			c.Perms = append(c.Perms, string(confRender(n2)))
		}
	}
	// the running scheduler for the reload
	switch {
	case r.Chance(50):
		c.Base = confDefaultBase
	case r.Chance(94):
		g2 := &confGen{r: r, viol: 0, noise: 0, single: true}
		c.Base = string(confYAML(g2.config()))
	default:
		c.Base = "partitions:\n  - name: default\n    queues:\n      - name: root\n  - name: gpu\n    queues:\n      - name: root\n"
	}
	return c
}

const confRequires = `From YK Require Import Base.Res Conf.Str Conf.Config Conf.Validate Conf.Load Conf.WF Oracles.ConfCheck.
From Coq Require Import List NArith Bool. From Coq Require String. Import ListNotations String.StringSyntax. Open Scope string_scope. Open Scope N_scope.`

func confEngine(o *Opts) {
	rng := NewRng(o.Seed)
	st := NewStats("conf", o.Seed, "configuration grammar generator (queue trees depth<=4 with budgets handed down, sparse resource maps with unit suffixes, guaranteed/max, maxapplications, named/wildcard user and group limits, ACL strings, placement rule chains with parents and filters, child templates, properties, node sort policy, preemption flags, 0-2 partitions), per-mille rule-breaking decisions, plus N/2 small targeted limit-chain documents (named / wildcard user and group entries on non adjacent levels with boundary values: equal, one more, absent), 22% YAML node mutations (missing/duplicate/unknown keys, wrong scalar types, nil vs empty, truncation); each document validated 3 times + 2 permuted renderings, loaded into a new scheduler and as a reload of a running one; non-trivial = accepted configuration with at least 3 queues, or a rejection by a hierarchy rule (not by decoding); distinct by hash of the case term")
	var all ConfCases
	if o.Replay != "" {
		readJSON(o.Replay, &all)
	} else {
		for i := 0; i < o.N; i++ {
			all.Cases = append(all.Cases, genConfCase(rng.Fork(), o.Tier, false))
		}
		// targeted stream: small documents, cheap to evaluate
		for i := 0; i < o.N/2; i++ {
			all.Cases = append(all.Cases, genConfCase(rng.Fork(), o.Tier, true))
		}
	}
	terms := []string{}
	for i := range all.Cases {
		c := &all.Cases[i]
		in, out := runConfCase(c)
		t := c.coq(in, out)
		terms = append(terms, t)
		ob := c.Obs
		st.Count("kind." + c.Kind)
		switch {
		case !ob.Decoded:
			st.Count("verdict.decode-error")
		case ob.Accept:
			st.Count("verdict.accept")
			st.Count("new." + ob.New)
			if ob.Reload != "" {
				st.Count("reload." + ob.Reload)
			}
		default:
			st.Count("verdict.reject." + ob.ErrClass)
		}
		if ob.VPanic || ob.New == "panic" || ob.Reload == "panic" {
			st.Panics++
		}
		nq := strings.Count(t, "(Queue ")
		nontrivial := ob.Decoded && ((ob.Accept && nq >= 6) || (!ob.Accept && ob.ErrClass != ""))
		sample := map[string]any{"kind": c.Kind, "note": c.Note, "accept": ob.Accept, "err": ob.ErrClass, "new": ob.New, "reload": ob.Reload, "yaml": c.YAML}
		st.Case(t, nontrivial, sample)
	}
	base := filepath.Join(o.OutDir, fmt.Sprintf("cases_conf_%d", o.Shard))
	var b strings.Builder
	b.WriteString(confRequires + "\n")
	b.WriteString("Definition cases : list conf_case := [\n " + strings.Join(terms, ";\n ") + "\n].\n")
	b.WriteString("Definition M := Eval vm_compute in conf_check cases.\nPrint M.\n")
	writeFile(base+".v", b.String())
	writeJSON(base+".json", all)
	st.CasesFile, st.CasesJSON = base+".v", base+".json"
	st.Write(base + ".stats.json")
}

func init() { engines["conf"] = confEngine }
