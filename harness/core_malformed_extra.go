package main

// Engine "coremal" (property C13): histories of the core engine with a dense, wider malformed stream.
// It reuses the lead's driver, observation and emitter (newCoreDriver, coreDriver.step, newCoreEmitter, genState and
// its op constructors) and only adds its own op mix and its own malformed request kinds:
//   applications without user information (forced and not forced), with an id that is live / terminated / empty,
//   foreign allocations with negative or zero resources, without node, on unknown nodes, re-sent naming another node,
//   allocations with unset / zero / negative / mixed resources, for unknown / removed / terminated applications,
//   on unknown or removed nodes, placeholders without task group, unknown partition, empty key,
//   releases of absent keys / applications / foreign keys with every termination type (also out-of-range values),
//   PLACEHOLDER_REPLACED releases of allocations without a swap in flight, release-all with confirmation types,
//   node updates / drains / removals of unknown and removed nodes, node registration of a live id, unset capacity.
// The Malformed flag marks the requests the generator INTENDS to be invalid; whether a request is invalid is decided
// by the Gallina specification Core/Guard.invalid on the observed pre-state.

import (
	"fmt"
	"path/filepath"
	"sort"
	"strings"
)

func (g *genState) malPickNode(removed bool) string {
	if removed && len(g.removedN) > 0 {
		return g.pick(g.removedN)
	}
	if n := g.pick(g.nodes); n != "" {
		return n
	}
	return "node-none"
}

// coremalOp builds one request of the malformed stream.
func (g *genState) coremalOp() CoreOp {
	r := g.r
	app := g.pick(g.apps)
	if app == "" {
		app = "app-none"
	}
	key := func(tag string) string { return fmt.Sprintf("mal-%s-%d", tag, r.Intn(3)) }
	var op CoreOp
	switch r.Intn(30) {
	case 0: // application without user information, not forced: rejected (empty user)
		g.nextApp++
		op = CoreOp{Kind: "app_add", App: fmt.Sprintf("app-%d", g.nextApp), Queue: g.queueName(), NoUgi: true}
	case 1: // forced application without user information: accepted as the anonymous user (was a nil dereference)
		g.nextApp++
		id := fmt.Sprintf("app-%d", g.nextApp)
		g.apps = append(g.apps, id)
		op = CoreOp{Kind: "app_add", App: id, Queue: g.queueName(), NoUgi: true, Forced: true}
		op.Malformed = false
		return op
	case 2: // application id that is (or was) in use
		op = CoreOp{Kind: "app_add", App: app, Queue: g.pick(g.leaves), User: "u2", Groups: []string{"g1"}}
	case 3: // foreign allocation with negative resources
		op = CoreOp{Kind: "alloc", Key: key("fneg"), Node: g.malPickNode(false), Foreign: true, Res: CoreRes{"memory": -5, "vcore": 1}}
	case 4: // existing foreign allocation re-sent with negative resources
		k := g.pick(g.foreign)
		if k == "" {
			k = key("fneg2")
		}
		op = CoreOp{Kind: "alloc", Key: k, Node: g.malPickNode(false), Foreign: true, Res: CoreRes{"memory": -2}}
	case 5: // foreign allocation without node / on an unknown / on a removed node
		op = CoreOp{Kind: "alloc", Key: key("fnode"), Node: []string{"", "node-unknown", g.malPickNode(true)}[r.Intn(3)], Foreign: true, Res: CoreRes{"memory": 2}}
		if op.Node != "" && containsStr(g.nodes, op.Node) && !containsStr(g.removedN, op.Node) {
			op.Node = "node-unknown"
		}
	case 6: // existing foreign allocation re-sent naming another node
		k := g.pick(g.foreign)
		if k == "" {
			k = key("fmove")
		}
		op = CoreOp{Kind: "alloc", Key: k, Node: g.malPickNode(false), Foreign: true, Res: CoreRes{"memory": 1 + int64(r.Intn(4))}}
		op.Malformed = false // invalid only when the key exists on another node: the specification decides
		return op
	case 7: // unset / empty / zero / negative / mixed resources
		op = CoreOp{Kind: "alloc", App: app, Key: key("res")}
		switch r.Intn(5) {
		case 0:
			op.NilRes = true
		case 1:
			op.Res = CoreRes{}
		case 2:
			op.Res = CoreRes{"memory": 0, "vcore": 0}
		case 3:
			op.Res = CoreRes{"memory": -1}
		default:
			op.Res = CoreRes{"memory": 4, "vcore": -2}
		}
	case 8: // recovered allocation with bad resources on a real node
		op = CoreOp{Kind: "alloc", App: app, Key: key("rres"), Node: g.malPickNode(false), Res: CoreRes{"memory": -3}}
	case 9: // ask / recovered allocation for an unknown application
		op = CoreOp{Kind: "alloc", App: "app-unknown", Key: key("uapp"), Res: CoreRes{"memory": 1}}
		if r.Chance(50) {
			op.Node = g.malPickNode(false)
		}
	case 10: // recovered allocation on an unknown / removed node
		op = CoreOp{Kind: "alloc", App: app, Key: key("unode"), Node: []string{"node-unknown", g.malPickNode(true)}[r.Intn(2)], Res: CoreRes{"memory": 1}}
		if containsStr(g.nodes, op.Node) && !containsStr(g.removedN, op.Node) {
			op.Node = "node-unknown"
		}
	case 11: // placeholder without task group (ask and recovered)
		op = CoreOp{Kind: "alloc", App: app, Key: key("phtg"), Ph: true, Res: CoreRes{"memory": 1}}
		if r.Chance(40) {
			op.Node = g.malPickNode(false)
		}
	case 12: // unknown partition
		op = CoreOp{Kind: "alloc", App: app, Key: key("part"), Partition: "[rm-1]nopartition", Res: CoreRes{"memory": 1}}
	case 13: // application registered in an unknown partition
		g.nextApp++
		op = CoreOp{Kind: "app_add", App: fmt.Sprintf("app-%d", g.nextApp), Queue: g.pick(g.leaves), User: "u1", Groups: []string{"g1"}, Partition: "[rm-1]nopartition"}
	case 14: // release of an absent key, every termination type (also values outside the enum)
		op = CoreOp{Kind: "release", App: app, Key: key("norel"), TType: []int32{0, 1, 2, 3, 4, 7, 99}[r.Intn(7)]}
	case 15: // release for an unknown application
		op = CoreOp{Kind: "release", App: "app-unknown", Key: g.pick(g.allKeys), TType: int32(r.Intn(5))}
	case 16: // release of an absent foreign allocation
		op = CoreOp{Kind: "release", Key: key("noforeign"), TType: int32(r.Intn(5))}
	case 17: // PLACEHOLDER_REPLACED / PREEMPTED / unknown-type release of an existing key on the shim's initiative
		op = CoreOp{Kind: "release", App: app, Key: g.pick(g.keys[app]), TType: []int32{4, 3, 0, 7}[r.Intn(4)]}
		op.Malformed = false // releases something that may exist: a valid (if unusual) request
		if op.Key == "" {
			op.Key = key("norel")
			op.Malformed = true
		}
		return op
	case 18: // release-all with a confirmation type
		op = CoreOp{Kind: "release", App: app, TType: []int32{2, 3}[r.Intn(2)]}
		op.Malformed = false
		return op
	case 19: // update / drain / undrain / removal of an unknown node
		op = CoreOp{Kind: []string{"node_update", "node_drain", "node_undrain", "node_remove"}[r.Intn(4)], Node: "node-unknown", Cap: CoreRes{"memory": 5}}
	case 20: // the same for a removed node
		op = CoreOp{Kind: []string{"node_update", "node_drain", "node_undrain", "node_remove"}[r.Intn(4)], Node: g.malPickNode(true), Cap: CoreRes{"memory": 5}}
		if containsStr(g.nodes, op.Node) && !containsStr(g.removedN, op.Node) {
			op.Node = "node-unknown"
		}
	case 21: // node update without resource (unset sub-message): valid, no effect
		op = CoreOp{Kind: "node_update", Node: g.malPickNode(false), NilRes: true}
		op.Malformed = false
		return op
	case 22: // registration of a node id that is in use
		op = CoreOp{Kind: "node_add", Node: g.malPickNode(false), Cap: CoreRes{"memory": 7}}
	case 23: // removal of an unknown application
		op = CoreOp{Kind: "app_remove", App: "app-unknown"}
	case 24: // ask for an application the shim removed or that terminated
		op = CoreOp{Kind: "alloc", App: app, Key: key("late"), Res: CoreRes{"memory": 1}}
		op.Malformed = false // the application may still be live
		return op
	case 25: // allocation with an empty key
		op = CoreOp{Kind: "alloc", App: app, Res: CoreRes{"memory": 1}}
		op.Malformed = false
		return op
	case 26: // foreign allocation with zero / unset resources: a pod without requests, valid
		op = CoreOp{Kind: "alloc", Key: key("fzero"), Node: g.malPickNode(false), Foreign: true}
		if r.Chance(50) {
			op.NilRes = true
		} else {
			op.Res = CoreRes{"memory": 0}
		}
		op.Malformed = false
		return op
	case 27: // non-foreign allocation without application id
		op = CoreOp{Kind: "alloc", Key: key("noapp"), Res: CoreRes{"memory": 1}}
	case 28: // ask naming a required node that does not exist: valid ask that can never be placed
		op = CoreOp{Kind: "alloc", App: app, Key: g.newKey(app), Res: CoreRes{"memory": 1}, ReqNode: "node-unknown", AgeSec: 3600}
		op.Malformed = false
		return op
	default: // the lead's malformed kinds
		return g.opMalformed()
	}
	op.Malformed = true
	return op
}

func containsStr(l []string, s string) bool {
	for _, x := range l {
		if x == s {
			return true
		}
	}
	return false
}

// coremalMix: per-mille thresholds: sched, app_add, ask, release, bound, foreign, foreign_remove, node_add, node_update,
// drain, node_remove, app_remove, fire_ph, fire_state, (rest: malformed stream)
var coremalMix = []int{170, 80, 150, 90, 40, 50, 20, 15, 10, 10, 25, 25, 20, 25}

func genCoremalCase(rng *Rng, maxOps int) (*CoreCase, error) {
	th := make([]int, len(coremalMix))
	acc := 0
	for i, m := range coremalMix {
		acc += m
		th[i] = acc
	}
	ntypes := 1 + rng.Intn(3)
	tree := genTree(rng, ntypes)
	w := CoreWorld{Configs: []string{coreConfigYAML(tree, rng.Chance(30), []string{"fair", "binpacking"}[rng.Intn(2)])}, ResDelayOn: rng.Chance(40),
		PredDeny: []int{0, 0, 10}[rng.Intn(3)], Seed: rng.Next()}
	c := &CoreCase{World: w}
	d, err := newCoreDriver(&c.World)
	if err != nil {
		return nil, fmt.Errorf("initial config rejected: %v", err)
	}
	c.Init = d.observe()
	variant := ""
	if rng.Chance(50) {
		variant = "gang"
	}
	g := &genState{r: rng, ntypes: ntypes, gangApps: map[string][]string{}, keys: map[string][]string{}, variant: variant}
	tree.leaves("", &g.leaves, &g.dynPar)
	sort.Strings(g.leaves)
	var pending []CoreEvent
	emit := func(op CoreOp) {
		if op.Kind == "node_add" {
			// a removed node id that is registered again is live again
			kept := g.removedN[:0]
			for _, n := range g.removedN {
				if n != op.Node {
					kept = append(kept, n)
				}
			}
			g.removedN = kept
		}
		c.Ops = append(c.Ops, op)
		st := d.step(&c.Ops[len(c.Ops)-1])
		c.Steps = append(c.Steps, st)
		for _, e := range st.Events {
			if e.Kind == "release" && (e.TType == 2 || e.TType == 3 || e.TType == 4) {
				pending = append(pending, e)
			}
		}
	}
	nn := 1 + rng.Intn(3)
	for i := 0; i < nn; i++ {
		emit(g.opNodeAdd())
	}
	nops := 10 + rng.Intn(maxOps)
	for i := 0; i < nops; i++ {
		x := rng.Intn(1000)
		switch {
		case x < th[0]:
			emit(CoreOp{Kind: "sched"})
		case x < th[1]:
			emit(g.opAppAdd())
		case x < th[2]:
			emit(g.opAsk())
		case x < th[3]:
			emit(g.opRelease(&pending))
		case x < th[4]:
			emit(g.opBound())
		case x < th[5]:
			emit(g.opForeign())
		case x < th[6]:
			if len(g.foreign) > 0 {
				emit(CoreOp{Kind: "release", Key: g.pick(g.foreign), TType: 1})
			}
		case x < th[7]:
			emit(g.opNodeAdd())
		case x < th[8]:
			if n := g.pick(g.nodes); n != "" {
				emit(CoreOp{Kind: "node_update", Node: n, Cap: g.r.res(g.ntypes, 3, 24, false)})
			}
		case x < th[9]:
			if n := g.pick(g.nodes); n != "" {
				emit(CoreOp{Kind: []string{"node_drain", "node_undrain"}[rng.Intn(2)], Node: n})
			}
		case x < th[10]:
			if n := g.pick(g.nodes); n != "" {
				g.removedN = append(g.removedN, n)
				emit(CoreOp{Kind: "node_remove", Node: n})
			}
		case x < th[11]:
			if a := g.pick(g.apps); a != "" {
				emit(CoreOp{Kind: "app_remove", App: a})
			}
		case x < th[12]:
			if a := g.pick(g.apps); a != "" {
				emit(CoreOp{Kind: "fire_ph", App: a})
			}
		case x < th[13]:
			if a := g.pick(g.apps); a != "" {
				emit(CoreOp{Kind: "fire_state", App: a})
			}
		default:
			emit(g.coremalOp())
		}
	}
	for i := 0; i < 2; i++ {
		emit(CoreOp{Kind: "sched"})
	}
	return c, nil
}

// coreprotoRun generates (or replays) histories and writes cases_<engine>_<shard>.{v,json,stats.json}.
func coreprotoRun(o *Opts, engine, rule string, gen func(r *Rng, maxOps int) (*CoreCase, error), nontrivial func(c *CoreCase, nmal int) bool) {
	rng := NewRng(o.Seed)
	st := NewStats(engine, o.Seed, rule)
	var all CoreCases
	if o.Replay != "" {
		readJSON(o.Replay, &all)
		for i := range all.Cases {
			if err := runCoreCase(&all.Cases[i]); err != nil {
				panic(err)
			}
		}
	} else {
		maxOps := 40
		if o.Tier == "thorough" {
			maxOps = 100
		}
		for i := 0; i < o.N; i++ {
			c, err := gen(rng.Fork(), maxOps)
			if err != nil {
				st.Count("config-rejected")
				continue
			}
			all.Cases = append(all.Cases, *c)
		}
	}
	var b strings.Builder
	b.WriteString(coreRequires)
	checker := "(fun _ : list ohistory => @nil (N * N))"
	if o.Checker != "" {
		parts := strings.SplitN(o.Checker, ":", 2)
		b.WriteString("From YK Require Import " + parts[0] + ".\n")
		checker = parts[1]
	}
	names := []string{}
	for i := range all.Cases {
		c := &all.Cases[i]
		em := newCoreEmitter()
		name := fmt.Sprintf("h%d", i)
		b.WriteString(em.history(c, name))
		names = append(names, name)
		nmal := 0
		for j := range c.Steps {
			s := &c.Steps[j]
			st.Count("op." + s.Op.Kind)
			if s.Op.Malformed {
				st.Count("malformed")
				st.Count("malformed." + s.Op.Kind)
				nmal++
			}
			if s.Panic != "" {
				st.Panics++
				st.Count("panic")
			}
			for _, e := range s.Events {
				st.Count("ev." + e.Kind)
				if e.Kind == "release" {
					st.Count(fmt.Sprintf("ev.release.type%d", e.TType))
				}
			}
		}
		st.Case(fmt.Sprintf("%v", c.Ops), nontrivial(c, nmal), map[string]any{"ops": c.Ops, "nsteps": len(c.Steps)})
	}
	b.WriteString("Definition cases : list ohistory := [" + strings.Join(names, "; ") + "].\n")
	b.WriteString("Definition M := Eval vm_compute in " + checker + " cases.\nPrint M.\n")
	base := filepath.Join(o.OutDir, fmt.Sprintf("cases_%s_%d", engine, o.Shard))
	writeFile(base+".v", b.String())
	writeJSON(base+".json", all)
	st.CasesFile, st.CasesJSON = base+".v", base+".json"
	st.Write(base + ".stats.json")
}

func coremalEngine(o *Opts) {
	coreprotoRun(o, "coremal", "histories of the core engine with a dense malformed stream (about 27% of the requests: applications without user / with used or unknown ids or partitions, allocations and foreign allocations with unset, zero, negative or mixed resources, unknown or removed applications and nodes, placeholders without task group, releases of absent things with every termination type incl. out-of-range values, node operations on unknown and removed nodes) interleaved with valid traffic, scheduling cycles and timer firings; non-trivial = at least three requests built to be invalid were sent; distinct by hash of ops",
		genCoremalCase, func(c *CoreCase, nmal int) bool { return nmal >= 3 })
}

func init() { engines["coremal"] = coremalEngine }
