package main

import (
	"bytes"
	"fmt"
	"go/ast"
	"go/printer"
	"go/token"
	"go/types"
	"strings"
)

// ---------------------------------------------------------------------------- block contexts

// gtCtx says how control leaves the block being translated. Every statement list is translated to a
// Coq term of the block's type; `mon` tells whether that type is `gres _` (panics possible).
type gtCtx struct {
	ret  func(raw string) string // `return`, given the raw function result
	brk  func() string           // break (nil outside loops)
	cont func() string           // continue
	mon  bool
}

type gtCont func() string

func gtIndent(s string, n int) string {
	pad := strings.Repeat("  ", n)
	lines := strings.Split(s, "\n")
	for i, l := range lines {
		if l != "" {
			lines[i] = pad + l
		}
	}
	return strings.Join(lines, "\n")
}

func (v *gtVar) reprT() *gtT {
	if v.nonNil && v.t.k == gkPtr {
		return v.t.elem
	}
	return v.t
}

// wrap a pure value as a term of the block type
func gtPure(c *gtCtx, s string) string {
	if c.mon {
		return "GOk " + gtPar(s)
	}
	return s
}

// emit bindings in front of a block term
func (f *gtFn) withPre(c *gtCtx, pre []gtBind, body string) string {
	return gtBinds(pre, body)
}

func gtTuple(parts []string) string {
	switch len(parts) {
	case 0:
		return "tt"
	case 1:
		return parts[0]
	}
	return "(" + strings.Join(parts, ", ") + ")"
}

// ---------------------------------------------------------------------------- probing

type gtSnap struct {
	tmpN   int
	monOps int
	names  map[string]bool
	vars   map[*types.Var]*gtVar
	derefs map[*types.Var]string
}

func (f *gtFn) snap() gtSnap {
	s := gtSnap{tmpN: f.tmpN, monOps: f.monOps, names: map[string]bool{}, vars: map[*types.Var]*gtVar{}, derefs: map[*types.Var]string{}}
	for k, v := range f.derefs {
		s.derefs[k] = v
	}
	for k, v := range f.names {
		s.names[k] = v
	}
	for k, v := range f.vars {
		s.vars[k] = v
	}
	return s
}

func (f *gtFn) restore(s gtSnap) {
	f.tmpN, f.monOps, f.names, f.vars, f.derefs = s.tmpN, s.monOps, s.names, s.vars, s.derefs
}

// scoped runs a translation whose text ends up in a nested scope: dereferences made inside are not
// visible afterwards
func (f *gtFn) scoped(fn func() string) string {
	saved := map[*types.Var]string{}
	for k, v := range f.derefs {
		saved[k] = v
	}
	out := fn()
	f.derefs = saved
	return out
}

func (f *gtFn) forget(vs ...*gtVar) {
	for _, v := range vs {
		delete(f.derefs, v.obj)
	}
}

// probe runs a translation whose result is discarded and tells whether it needed the panic monad
func (f *gtFn) probe(fn func()) bool {
	s := f.snap()
	fn()
	mon := f.monOps > s.monOps
	f.restore(s)
	return mon
}

// ---------------------------------------------------------------------------- stripped statements

var gtLockNames = map[string]bool{"Lock": true, "Unlock": true, "RLock": true, "RUnlock": true}

func gtIsLockCall(e ast.Expr) bool {
	c, ok := e.(*ast.CallExpr)
	if !ok || len(c.Args) != 0 {
		return false
	}
	sel, ok := c.Fun.(*ast.SelectorExpr)
	return ok && gtLockNames[sel.Sel.Name]
}

// root identifier of a call chain a.b(...).c(...)
func gtChainRoot(e ast.Expr) *ast.Ident {
	for {
		switch x := e.(type) {
		case *ast.CallExpr:
			e = x.Fun
		case *ast.SelectorExpr:
			e = x.X
		case *ast.ParenExpr:
			e = x.X
		case *ast.Ident:
			return x
		default:
			return nil
		}
	}
}

// stripped reports whether a statement is one of the forms that are left out of the translation:
//
//	x.Lock() x.Unlock() x.RLock() x.RUnlock() and `defer` of them;
//	expression statements that are a call chain rooted at the imported packages `log` or `metrics`;
//	event sends: x.<...>Events.Send<...>(...)
func (f *gtFn) stripped(s ast.Stmt) bool {
	switch x := s.(type) {
	case *ast.DeferStmt:
		return gtIsLockCall(x.Call)
	case *ast.ExprStmt:
		if gtIsLockCall(x.X) {
			return true
		}
		call, ok := x.X.(*ast.CallExpr)
		if !ok {
			return false
		}
		if root := gtChainRoot(call); root != nil {
			if pn, ok := f.info.Uses[root].(*types.PkgName); ok {
				if pn.Name() == "log" || pn.Name() == "metrics" {
					return true
				}
			}
		}
		if sel, ok := call.Fun.(*ast.SelectorExpr); ok && strings.HasPrefix(sel.Sel.Name, "Send") {
			if inner, ok := sel.X.(*ast.SelectorExpr); ok && strings.HasSuffix(inner.Sel.Name, "Events") {
				return true
			}
		}
	}
	return false
}

// ---------------------------------------------------------------------------- analyses

// rootVar returns the variable at the root of an lvalue path x.f.g[k] (nil if none)
func (f *gtFn) rootVar(e ast.Expr) *types.Var {
	for {
		switch x := e.(type) {
		case *ast.ParenExpr:
			e = x.X
		case *ast.SelectorExpr:
			if _, ok := f.info.Selections[x]; !ok {
				return nil
			}
			e = x.X
		case *ast.IndexExpr:
			e = x.X
		case *ast.SliceExpr:
			e = x.X
		case *ast.StarExpr:
			e = x.X
		case *ast.Ident:
			v, _ := f.info.Uses[x].(*types.Var)
			if v == nil {
				v, _ = f.info.Defs[x].(*types.Var)
			}
			return v
		default:
			return nil
		}
	}
}

// writes lists the variables a statement (list) assigns or modifies through, in order of first
// occurrence: plain assignments to the variable, and modifications through a path rooted at it.
type gtWrite struct {
	v     *types.Var
	whole bool // the variable itself is assigned
	at    ast.Node
}

func (f *gtFn) writes(n ast.Node) []gtWrite {
	var out []gtWrite
	add := func(v *types.Var, whole bool, at ast.Node) {
		if v != nil && v.Name() != "_" {
			out = append(out, gtWrite{v, whole, at})
		}
	}
	lhs := func(e ast.Expr, at ast.Node) {
		e = gtUnparen(e)
		if id, ok := e.(*ast.Ident); ok {
			if id.Name == "_" {
				return
			}
			if v, ok := f.info.Defs[id].(*types.Var); ok && v != nil {
				add(v, true, at)
				return
			}
			if v, ok := f.info.Uses[id].(*types.Var); ok {
				add(v, true, at)
			}
			return
		}
		add(f.rootVar(e), false, at)
	}
	ast.Inspect(n, func(n ast.Node) bool {
		switch x := n.(type) {
		case *ast.FuncLit:
			return false
		case *ast.AssignStmt:
			for _, l := range x.Lhs {
				lhs(l, x)
			}
		case *ast.IncDecStmt:
			lhs(x.X, x)
		case *ast.RangeStmt:
			if x.Key != nil {
				lhs(x.Key, x)
			}
			if x.Value != nil {
				lhs(x.Value, x)
			}
		case *ast.ExprStmt:
			if f.stripped(x) {
				return false
			}
			call, ok := x.X.(*ast.CallExpr)
			if !ok {
				return true
			}
			if id, ok := gtUnparen(call.Fun).(*ast.Ident); ok {
				if b, ok := f.info.Uses[id].(*types.Builtin); ok && (b.Name() == "delete" || b.Name() == "copy") && len(call.Args) > 0 {
					add(f.rootVar(call.Args[0]), false, x)
					return true
				}
			}
			for _, a := range f.outArgs(call) {
				if id, ok := gtUnparen(a).(*ast.Ident); ok {
					if v, ok := f.info.Uses[id].(*types.Var); ok {
						// the callee returns the new referent; the variable is rebound to it
						add(v, false, x)
						continue
					}
				}
				add(f.rootVar(a), false, x)
			}
		case *ast.DeferStmt:
			return false
		}
		return true
	})
	return out
}

// outArgs: argument expressions of a call that the (whitelisted) callee modifies
func (f *gtFn) outArgs(call *ast.CallExpr) []ast.Expr {
	var obj types.Object
	var recvExpr ast.Expr
	switch fx := gtUnparen(call.Fun).(type) {
	case *ast.Ident:
		obj = f.info.Uses[fx]
	case *ast.SelectorExpr:
		if s, ok := f.info.Selections[fx]; ok && s.Kind() == types.MethodVal {
			obj = s.Obj()
			recvExpr = fx.X
		} else {
			obj = f.info.Uses[fx.Sel]
		}
	}
	fnObj, ok := obj.(*types.Func)
	if !ok {
		return nil
	}
	callee, ok := f.tr.byObj[fnObj.Origin()]
	if !ok || callee == f {
		return nil
	}
	if !callee.done {
		f.tr.translate(callee)
	}
	if callee.err != "" {
		return nil
	}
	var out []ast.Expr
	for _, o := range callee.outs {
		for i, p := range callee.params {
			if p != o {
				continue
			}
			if callee.recv != nil {
				if i == 0 {
					out = append(out, recvExpr)
				} else if i-1 < len(call.Args) {
					out = append(out, call.Args[i-1])
				}
			} else if i < len(call.Args) {
				out = append(out, call.Args[i])
			}
		}
	}
	return out
}

func gtInside(v *types.Var, n ast.Node) bool {
	return v.Pos() >= n.Pos() && v.Pos() < n.End()
}

// outerWritten: variables written inside n that are declared outside it (deduplicated, in order)
func (f *gtFn) outerWritten(n ast.Node) []*gtVar {
	var out []*gtVar
	seen := map[*types.Var]bool{}
	for _, w := range f.writes(n) {
		if seen[w.v] || gtInside(w.v, n) {
			continue
		}
		seen[w.v] = true
		gv, ok := f.vars[w.v]
		if !ok {
			gtFail("%s: assignment to %s, which is not a local variable or parameter", f.pos(w.at), w.v.Name())
		}
		out = append(out, gv)
	}
	return out
}

// exits: does the node contain return / break / continue that leaves it?
func gtHasExit(n ast.Node) bool {
	found := false
	var walk func(n ast.Node, loopDepth int)
	walk = func(n ast.Node, loopDepth int) {
		ast.Inspect(n, func(m ast.Node) bool {
			if found || m == nil {
				return false
			}
			switch x := m.(type) {
			case *ast.FuncLit:
				return false
			case *ast.ReturnStmt:
				found = true
			case *ast.BranchStmt:
				if x.Tok == token.GOTO || x.Tok == token.FALLTHROUGH || x.Label != nil {
					found = true
				} else if loopDepth == 0 {
					found = true
				}
			case *ast.RangeStmt:
				if m != n {
					walk(x.Body, loopDepth+1)
					return false
				}
			case *ast.ForStmt:
				if m != n {
					walk(x.Body, loopDepth+1)
					return false
				}
			}
			return true
		})
	}
	walk(n, 0)
	return found
}

// loop exits: return anywhere inside, or break belonging to this loop
func gtLoopHasExit(body *ast.BlockStmt) (ret bool, brk bool) {
	var walk func(n ast.Node, depth int)
	walk = func(n ast.Node, depth int) {
		ast.Inspect(n, func(m ast.Node) bool {
			switch x := m.(type) {
			case *ast.FuncLit:
				return false
			case *ast.ReturnStmt:
				ret = true
			case *ast.BranchStmt:
				if x.Tok == token.BREAK && depth == 0 {
					brk = true
				}
			case *ast.RangeStmt:
				if m != n {
					walk(x.Body, depth+1)
					return false
				}
			case *ast.ForStmt:
				if m != n {
					walk(x.Body, depth+1)
					return false
				}
			}
			return true
		})
	}
	walk(body, 0)
	return
}

// always: every path through the statement list ends in return / break / continue
func gtAlwaysExits(list []ast.Stmt) bool {
	if len(list) == 0 {
		return false
	}
	switch x := list[len(list)-1].(type) {
	case *ast.ReturnStmt:
		return true
	case *ast.BranchStmt:
		return x.Tok == token.BREAK || x.Tok == token.CONTINUE
	case *ast.BlockStmt:
		return gtAlwaysExits(x.List)
	case *ast.IfStmt:
		if x.Else == nil {
			return false
		}
		if !gtAlwaysExits(x.Body.List) {
			return false
		}
		switch e := x.Else.(type) {
		case *ast.BlockStmt:
			return gtAlwaysExits(e.List)
		case *ast.IfStmt:
			return gtAlwaysExits([]ast.Stmt{e})
		}
	}
	return false
}

// ---------------------------------------------------------------------------- statements

func (f *gtFn) stmts(c *gtCtx, list []ast.Stmt, k gtCont) string {
	if len(list) == 0 {
		return k()
	}
	return f.stmt(c, list[0], func() string { return f.stmts(c, list[1:], k) })
}

func (f *gtFn) stmt(c *gtCtx, s ast.Stmt, k gtCont) string {
	if f.stripped(s) {
		return k()
	}
	switch x := s.(type) {
	case *ast.EmptyStmt:
		return k()
	case *ast.BlockStmt:
		return f.stmts(c, x.List, k)
	case *ast.ExprStmt:
		return f.exprStmt(c, x, k)
	case *ast.AssignStmt:
		return f.assign(c, x, k)
	case *ast.IncDecStmt:
		cur := f.expr(x.X)
		var one gtVal
		switch cur.t.k {
		case gkI64, gkI32:
			one = gtVal{s: "1", t: cur.t}
		case gkU64:
			one = gtVal{s: "1%N", t: cur.t}
		default:
			gtFail("%s: ++/-- on this type is outside the subset", f.pos(x))
		}
		op := token.ADD
		if x.Tok == token.DEC {
			op = token.SUB
		}
		nv := f.arith(op, cur, one, x)
		return f.store(c, x.X, nv, k)
	case *ast.DeclStmt:
		gd, ok := x.Decl.(*ast.GenDecl)
		if !ok || gd.Tok != token.VAR {
			gtFail("%s: declaration form outside the subset", f.pos(x))
		}
		type bnd struct {
			id *ast.Ident
			v  gtVal
		}
		var bs []bnd
		for _, sp := range gd.Specs {
			vs := sp.(*ast.ValueSpec)
			if len(vs.Values) != 0 && len(vs.Values) != len(vs.Names) {
				gtFail("%s: var declaration from a multi-valued expression is outside the subset", f.pos(x))
			}
			for i, n := range vs.Names {
				obj, _ := f.info.Defs[n].(*types.Var)
				if obj == nil {
					gtFail("%s: var declaration", f.pos(x))
				}
				t := f.tr.typeOf(obj.Type())
				if len(vs.Values) == 0 {
					bs = append(bs, bnd{n, gtVal{s: f.tr.zero(t), t: t}})
				} else {
					bs = append(bs, bnd{n, f.exprAs(vs.Values[i], t)})
				}
			}
		}
		var build func(i int) string
		build = func(i int) string {
			if i == len(bs) {
				return k()
			}
			obj := f.info.Defs[bs[i].id].(*types.Var)
			gv := f.declare(obj)
			f.noteInit(gv, nil)
			return gtBinds(bs[i].v.pre, "let "+gv.name+" := "+bs[i].v.s+" in\n"+build(i+1))
		}
		return build(0)
	case *ast.ReturnStmt:
		return f.returnStmt(c, x)
	case *ast.IfStmt:
		return f.ifStmt(c, x, k)
	case *ast.SwitchStmt:
		return f.switchStmt(c, x, k)
	case *ast.RangeStmt:
		return f.rangeStmt(c, x, k)
	case *ast.BranchStmt:
		if x.Label != nil {
			gtFail("%s: labelled branch is outside the subset", f.pos(x))
		}
		switch x.Tok {
		case token.BREAK:
			if c.brk == nil {
				gtFail("%s: break outside a range loop (switch break is outside the subset)", f.pos(x))
			}
			return c.brk()
		case token.CONTINUE:
			if c.cont == nil {
				gtFail("%s: continue outside a range loop", f.pos(x))
			}
			return c.cont()
		}
		gtFail("%s: %s is outside the subset", f.pos(x), x.Tok)
	}
	gtFail("%s: statement form %T is outside the subset", f.pos(s), s)
	return ""
}

// noteInit is a hook for declarations (freshness is computed beforehand by computeFresh)
func (f *gtFn) noteInit(gv *gtVar, rhs ast.Expr) {}

// computeFresh: a local variable of reference type is fresh when every assignment to it stores nil, a
// newly allocated object (composite literal, make) or the result of a constructor that returns such
func (f *gtFn) computeFresh(body ast.Node) {
	f.freshVars = map[*types.Var]bool{}
	bad := map[*types.Var]bool{}
	seen := map[*types.Var]bool{}
	note := func(id *ast.Ident, rhs ast.Expr, known bool) {
		if id == nil || id.Name == "_" {
			return
		}
		v, _ := f.info.Defs[id].(*types.Var)
		if v == nil {
			v, _ = f.info.Uses[id].(*types.Var)
		}
		if v == nil {
			return
		}
		seen[v] = true
		if !known || (rhs != nil && !f.freshExpr(rhs)) {
			bad[v] = true
		}
	}
	ast.Inspect(body, func(n ast.Node) bool {
		switch x := n.(type) {
		case *ast.FuncLit:
			return false
		case *ast.AssignStmt:
			for i, l := range x.Lhs {
				id, ok := gtUnparen(l).(*ast.Ident)
				if !ok {
					continue
				}
				if len(x.Lhs) == len(x.Rhs) && (x.Tok == token.ASSIGN || x.Tok == token.DEFINE) {
					note(id, x.Rhs[i], true)
				} else {
					note(id, nil, false)
				}
			}
		case *ast.RangeStmt:
			if id, ok := x.Key.(*ast.Ident); ok {
				note(id, nil, false)
			}
			if id, ok := x.Value.(*ast.Ident); ok {
				note(id, nil, false)
			}
		case *ast.DeclStmt:
			if gd, ok := x.Decl.(*ast.GenDecl); ok {
				for _, sp := range gd.Specs {
					if vs, ok := sp.(*ast.ValueSpec); ok {
						for i, nm := range vs.Names {
							if len(vs.Values) == 0 {
								note(nm, nil, true)
							} else if len(vs.Values) == len(vs.Names) {
								note(nm, vs.Values[i], true)
							} else {
								note(nm, nil, false)
							}
						}
					}
				}
			}
		}
		return true
	})
	for v := range seen {
		if !bad[v] {
			f.freshVars[v] = true
		}
	}
	for _, p := range f.params {
		delete(f.freshVars, p.obj)
	}
}

// freshExpr: the value is nil, newly allocated, or the result of a constructor that returns
// nil or a new object
func (f *gtFn) freshExpr(e ast.Expr) bool {
	e = gtUnparen(e)
	if gtIsNilIdent(f.info, e) {
		return true
	}
	switch x := e.(type) {
	case *ast.UnaryExpr:
		_, ok := x.X.(*ast.CompositeLit)
		return ok && x.Op == token.AND
	case *ast.CompositeLit:
		return true
	case *ast.CallExpr:
		if id, ok := gtUnparen(x.Fun).(*ast.Ident); ok {
			if b, ok := f.info.Uses[id].(*types.Builtin); ok && b.Name() == "make" {
				return true
			}
		}
		var obj types.Object
		switch fx := gtUnparen(x.Fun).(type) {
		case *ast.Ident:
			obj = f.info.Uses[fx]
		case *ast.SelectorExpr:
			if s, ok := f.info.Selections[fx]; ok {
				obj = s.Obj()
			} else {
				obj = f.info.Uses[fx.Sel]
			}
		}
		if fo, ok := obj.(*types.Func); ok {
			if callee, ok := f.tr.byObj[fo.Origin()]; ok {
				if !callee.done {
					f.tr.translate(callee)
				}
				return callee.err == "" && callee.fresh
			}
		}
	}
	return false
}

// mutable: may the function modify objects through a path rooted at this variable?
//
//	parameters of reference type (they become out parameters), and locals that only ever hold
//	newly allocated objects
func (f *gtFn) checkMutableRoot(v *types.Var, at ast.Node) *gtVar {
	gv, ok := f.vars[v]
	if !ok {
		gtFail("%s: modification through %s, which is not a parameter or local", f.pos(at), v.Name())
	}
	if gv.param {
		for _, o := range f.outs {
			if o == gv {
				return gv
			}
		}
		if gv.t.k == gkRec {
			return gv // value receiver / struct parameter: a private copy
		}
		gtFail("%s: internal: parameter %s is modified but is not an out parameter", f.pos(at), v.Name())
	}
	if gv.t.k == gkRec || !gv.isRef() {
		return gv
	}
	if !gv.fresh {
		gtFail("%s: modification through local %s, which may alias another object (it is not only assigned newly allocated objects)", f.pos(at), v.Name())
	}
	return gv
}

func (v *gtVar) isRef() bool {
	return v.t.k == gkPtr || v.t.k == gkMap || v.t.k == gkSlice
}

// store writes val into the lvalue lhs and continues with k
func (f *gtFn) store(c *gtCtx, lhs ast.Expr, val gtVal, k gtCont) string {
	lhs = gtUnparen(lhs)
	switch x := lhs.(type) {
	case *ast.Ident:
		if x.Name == "_" {
			return gtBinds(val.pre, k())
		}
		var obj *types.Var
		if d, ok := f.info.Defs[x].(*types.Var); ok && d != nil {
			obj = d
			gv := f.declare(obj)
			_ = gv
		} else if u, ok := f.info.Uses[x].(*types.Var); ok {
			obj = u
		}
		if obj == nil {
			gtFail("%s: assignment target %s", f.pos(x), x.Name)
		}
		gv := f.lookup(obj)
		if gv.nonNil {
			gtFail("%s: the receiver is assigned", f.pos(x))
		}
		if !gtSameT(gv.t, val.t) {
			gtFail("%s: internal: assignment of %s to variable of type %s", f.pos(x), f.tr.coqType(val.t), f.tr.coqType(gv.t))
		}
		f.forget(gv)
		return gtBinds(val.pre, "let "+gv.name+" := "+val.s+" in\n"+k())
	case *ast.SelectorExpr:
		sel, ok := f.info.Selections[x]
		if !ok || sel.Kind() != types.FieldVal || len(sel.Index()) != 1 {
			gtFail("%s: assignment to %s is outside the subset", f.pos(x), x.Sel.Name)
		}
		root := f.rootVar(x)
		if root == nil {
			gtFail("%s: assignment through an expression without a root variable", f.pos(x))
		}
		f.checkMutableRoot(root, x)
		// current record
		pre, rs, rec := f.derefRec(x.X)
		idx, ft := f.tr.useField(rec, sel.Obj().(*types.Var))
		if !gtSameT(ft, val.t) {
			gtFail("%s: internal: field assignment type", f.pos(x))
		}
		pre = append(append([]gtBind{}, val.pre...), pre...)
		nrec := f.tr.qual(rec.module, rec.setterName(idx)) + " " + gtPar(rs) + " " + gtPar(val.s)
		return f.storeRec(c, x.X, pre, nrec, rec, k)
	case *ast.IndexExpr:
		root := f.rootVar(x)
		if root == nil {
			gtFail("%s: assignment through an expression without a root variable", f.pos(x))
		}
		f.checkMutableRoot(root, x)
		cur := f.expr(x.X)
		switch cur.t.k {
		case gkMap:
			key := f.exprAs(x.Index, gtStr)
			if !gtSameT(cur.t.elem, val.t) {
				gtFail("%s: internal: map element type", f.pos(x))
			}
			pre := append(append(append([]gtBind{}, cur.pre...), key.pre...), val.pre...)
			nv := gtVal{pre: pre, s: "mset " + gtPar(cur.s) + " " + gtPar(key.s) + " " + gtPar(val.s), t: cur.t}
			return f.store(c, x.X, nv, k)
		case gkSlice:
			i := f.expr(x.Index)
			pre := append(append(append([]gtBind{}, cur.pre...), i.pre...), val.pre...)
			pre, s := f.mon(pre, "slice_set "+gtPar(cur.s)+" "+f.sliceIdx(i, x.Index)+" "+gtPar(val.s))
			return f.store(c, x.X, gtVal{pre: pre, s: s, t: cur.t}, k)
		}
		gtFail("%s: indexed assignment on this type is outside the subset", f.pos(x))
	}
	gtFail("%s: assignment target form %T is outside the subset", f.pos(lhs), lhs)
	return ""
}

// storeRec writes a new record value back to the place the record was read from
func (f *gtFn) storeRec(c *gtCtx, place ast.Expr, pre []gtBind, nrec string, rec *gtRec, k gtCont) string {
	place = gtUnparen(place)
	if id, ok := place.(*ast.Ident); ok {
		if v, ok := f.info.Uses[id].(*types.Var); ok {
			if gv, ok := f.vars[v]; ok {
				f.forget(gv)
				if gv.nonNil || gv.t.k == gkRec {
					return gtBinds(pre, "let "+gv.name+" := "+nrec+" in\n"+k())
				}
				return gtBinds(pre, "let "+gv.name+" := Some ("+nrec+") in\n"+k())
			}
		}
		gtFail("%s: modification through %s", f.pos(place), id.Name)
	}
	t := f.typeOfExpr(place)
	switch t.k {
	case gkRec:
		return f.store(c, place, gtVal{pre: pre, s: nrec, t: t}, k)
	case gkPtr:
		return f.store(c, place, gtVal{pre: pre, s: "Some (" + nrec + ")", t: t}, k)
	}
	gtFail("%s: modification through this expression is outside the subset", f.pos(place))
	return ""
}

// bindOuts: after a call of a callee with out parameters, write the new referents back
func (f *gtFn) exprStmt(c *gtCtx, x *ast.ExprStmt, k gtCont) string {
	call, ok := x.X.(*ast.CallExpr)
	if !ok {
		gtFail("%s: expression statement that is not a call", f.pos(x))
	}
	if id, ok := gtUnparen(call.Fun).(*ast.Ident); ok {
		if b, ok := f.info.Uses[id].(*types.Builtin); ok {
			switch b.Name() {
			case "delete":
				m := f.expr(call.Args[0])
				if m.t.k != gkMap {
					gtFail("%s: delete on a non-map", f.pos(x))
				}
				root := f.rootVar(call.Args[0])
				if root == nil {
					gtFail("%s: delete through an expression without a root variable", f.pos(x))
				}
				f.checkMutableRoot(root, x)
				key := f.exprAs(call.Args[1], gtStr)
				pre := append(append([]gtBind{}, m.pre...), key.pre...)
				return f.store(c, call.Args[0], gtVal{pre: pre, s: "mdel " + gtPar(m.s) + " " + gtPar(key.s), t: m.t}, k)
			case "copy":
				dst := call.Args[0]
				// copy(dst[a:], src) and copy(dst, src)
				var base ast.Expr = dst
				var off string
				var pre []gtBind
				if se, ok := gtUnparen(dst).(*ast.SliceExpr); ok {
					if se.High != nil || se.Slice3 || se.Low == nil {
						gtFail("%s: copy into this slice expression is outside the subset", f.pos(x))
					}
					base = se.X
					lo := f.expr(se.Low)
					pre = append(pre, lo.pre...)
					off = f.sliceIdx(lo, se.Low)
				}
				root := f.rootVar(base)
				if root == nil {
					gtFail("%s: copy through an expression without a root variable", f.pos(x))
				}
				f.checkMutableRoot(root, x)
				d := f.expr(base)
				if d.t.k != gkSlice {
					gtFail("%s: copy into a non-slice", f.pos(x))
				}
				src := f.exprAs(call.Args[1], d.t)
				pre = append(append(append([]gtBind{}, d.pre...), pre...), src.pre...)
				if off == "" {
					return f.store(c, base, gtVal{pre: pre, s: "copy_into " + gtPar(d.s) + " " + gtPar(src.s), t: d.t}, k)
				}
				pre, s := f.mon(pre, "copy_at "+gtPar(d.s)+" "+off+" "+gtPar(src.s))
				return f.store(c, base, gtVal{pre: pre, s: s, t: d.t}, k)
			}
		}
	}
	callee, recvExpr := f.resolveCallee(call)
	v := f.callTerm(call, callee, recvExpr)
	if len(callee.outs) == 0 {
		// results are dropped; the call is kept only when it can panic
		return gtBinds(v.pre, k())
	}
	outExprs := f.outArgs(call)
	if len(outExprs) != len(callee.outs) {
		gtFail("%s: internal: out arguments of %s", f.pos(x), callee.goName)
	}
	return f.bindCall(c, v, callee, outExprs, nil, k)
}

// bindCall destructures the raw result of a call into out arguments and result targets
func (f *gtFn) bindCall(c *gtCtx, v gtVal, callee *gtFn, outExprs []ast.Expr, results []ast.Expr, k gtCont) string {
	n := len(callee.outs)
	var rts []*gtT
	switch callee.results.k {
	case gkUnit:
	case gkTuple:
		rts = callee.results.tup
	default:
		rts = []*gtT{callee.results}
	}
	if results != nil && len(results) != len(rts) {
		gtFail("internal: result count of %s", callee.goName)
	}
	total := n + len(rts)
	names := make([]string, total)
	for i := range names {
		names[i] = f.tmp()
	}
	var head string
	if total == 1 {
		head = gtBinds(v.pre, "let "+names[0]+" := "+v.s+" in\n")
	} else {
		head = gtBinds(v.pre, "let '("+strings.Join(names, ", ")+") := "+v.s+" in\n")
	}
	// write back in order
	var build func(i int) string
	build = func(i int) string {
		if i == total {
			return k()
		}
		if i < n {
			o := callee.outs[i]
			val := gtVal{s: names[i], t: o.t}
			if o.nonNil {
				val.s = "Some " + names[i]
			}
			return f.storeOut(c, outExprs[i], val, func() string { return build(i + 1) })
		}
		if results == nil {
			return build(i + 1)
		}
		return f.store(c, results[i-n], gtVal{s: names[i], t: rts[i-n]}, func() string { return build(i + 1) })
	}
	return head + build(0)
}

// storeOut writes the new referent of an out argument back to where the argument came from
func (f *gtFn) storeOut(c *gtCtx, arg ast.Expr, val gtVal, k gtCont) string {
	arg = gtUnparen(arg)
	root := f.rootVar(arg)
	if root == nil {
		gtFail("%s: argument modified by the callee has no root variable", f.pos(arg))
	}
	gvr := f.checkMutableRoot(root, arg)
	if id, ok := arg.(*ast.Ident); ok {
		_ = id
		f.forget(gvr)
		if gvr.nonNil {
			// val is `Some x` of the record
			s := strings.TrimPrefix(val.s, "Some ")
			if s == val.s {
				// the callee takes a nilable receiver: it returned an option
				t := f.tmp()
				f.monOps++
				return t + " <- deref " + gtPar(val.s) + " ;;\nlet " + gvr.name + " := " + t + " in\n" + k()
			}
			return "let " + gvr.name + " := " + s + " in\n" + k()
		}
		return "let " + gvr.name + " := " + val.s + " in\n" + k()
	}
	return f.store(c, arg, val, k)
}

func (f *gtFn) assign(c *gtCtx, x *ast.AssignStmt, k gtCont) string {
	// fresh-ness bookkeeping for := of reference typed locals is done in prepare()
	switch x.Tok {
	case token.ASSIGN, token.DEFINE:
		if len(x.Lhs) == len(x.Rhs) {
			if len(x.Lhs) == 1 {
				// a call with out parameters as the right hand side
				if call, ok := gtUnparen(x.Rhs[0]).(*ast.CallExpr); ok {
					if callee := f.calleeOf(call); callee != nil && len(callee.outs) > 0 {
						cl, recvExpr := f.resolveCallee(call)
						v := f.callTerm(call, cl, recvExpr)
						return f.bindCall(c, v, cl, f.outArgs(call), x.Lhs, k)
					}
				}
				t := f.lhsType(x.Lhs[0])
				v := f.exprAs(x.Rhs[0], t)
				return f.store(c, x.Lhs[0], v, k)
			}
			// parallel assignment: evaluate all, then store
			vals := make([]gtVal, len(x.Rhs))
			var pre []gtBind
			tmps := make([]string, len(x.Rhs))
			for i, r := range x.Rhs {
				vals[i] = f.exprAs(r, f.lhsType(x.Lhs[i]))
				pre = append(pre, vals[i].pre...)
				tmps[i] = f.tmp()
				pre = append(pre, gtBind{pat: tmps[i], rhs: vals[i].s})
			}
			var build func(i int) string
			build = func(i int) string {
				if i == len(x.Lhs) {
					return k()
				}
				return f.store(c, x.Lhs[i], gtVal{s: tmps[i], t: vals[i].t}, func() string { return build(i + 1) })
			}
			return gtBinds(pre, build(0))
		}
		if len(x.Rhs) != 1 {
			gtFail("%s: assignment form outside the subset", f.pos(x))
		}
		rhs := gtUnparen(x.Rhs[0])
		// v, ok := m[k]
		if ix, ok := rhs.(*ast.IndexExpr); ok && len(x.Lhs) == 2 {
			m := f.expr(ix.X)
			if m.t.k != gkMap {
				gtFail("%s: comma-ok on a non-map", f.pos(x))
			}
			key := f.exprAs(ix.Index, gtStr)
			pre := append(append([]gtBind{}, m.pre...), key.pre...)
			mt, kt := f.tmp(), f.tmp()
			pre = append(pre, gtBind{pat: mt, rhs: m.s}, gtBind{pat: kt, rhs: key.s})
			v0 := gtVal{s: "mget0 " + gtPar(f.tr.zero(m.t.elem)) + " " + mt + " " + kt, t: m.t.elem}
			v1 := gtVal{s: "mhas " + mt + " " + kt, t: gtBool}
			return gtBinds(pre, f.store(c, x.Lhs[0], v0, func() string { return f.store(c, x.Lhs[1], v1, k) }))
		}
		// a, b := f(...)
		if call, ok := rhs.(*ast.CallExpr); ok {
			if callee := f.calleeOf(call); callee != nil {
				cl, recvExpr := f.resolveCallee(call)
				v := f.callTerm(call, cl, recvExpr)
				return f.bindCall(c, v, cl, f.outArgs(call), x.Lhs, k)
			}
		}
		gtFail("%s: multi-valued assignment form outside the subset", f.pos(x))
	case token.ADD_ASSIGN, token.SUB_ASSIGN, token.MUL_ASSIGN, token.QUO_ASSIGN, token.REM_ASSIGN:
		if len(x.Lhs) != 1 || len(x.Rhs) != 1 {
			gtFail("%s: compound assignment form", f.pos(x))
		}
		op := map[token.Token]token.Token{token.ADD_ASSIGN: token.ADD, token.SUB_ASSIGN: token.SUB,
			token.MUL_ASSIGN: token.MUL, token.QUO_ASSIGN: token.QUO, token.REM_ASSIGN: token.REM}[x.Tok]
		cur := f.expr(x.Lhs[0])
		r := f.exprAs(x.Rhs[0], cur.t)
		nv := f.arith(op, cur, r, x)
		return f.store(c, x.Lhs[0], nv, k)
	}
	gtFail("%s: assignment operator %s is outside the subset", f.pos(x), x.Tok)
	return ""
}

func (f *gtFn) calleeOf(call *ast.CallExpr) *gtFn {
	var obj types.Object
	switch fx := gtUnparen(call.Fun).(type) {
	case *ast.Ident:
		obj = f.info.Uses[fx]
	case *ast.SelectorExpr:
		if s, ok := f.info.Selections[fx]; ok && s.Kind() == types.MethodVal {
			obj = s.Obj()
		} else {
			obj = f.info.Uses[fx.Sel]
		}
	}
	if fo, ok := obj.(*types.Func); ok {
		if callee, ok := f.tr.byObj[fo.Origin()]; ok {
			if !callee.done {
				f.tr.translate(callee)
			}
			if callee.err == "" {
				return callee
			}
		}
	}
	return nil
}

// type of an assignment target (nil for the blank identifier)
func (f *gtFn) lhsType(e ast.Expr) *gtT {
	e = gtUnparen(e)
	if id, ok := e.(*ast.Ident); ok {
		if id.Name == "_" {
			return nil
		}
		if d, ok := f.info.Defs[id].(*types.Var); ok && d != nil {
			return f.tr.typeOf(d.Type())
		}
		if u, ok := f.info.Uses[id].(*types.Var); ok {
			return f.tr.typeOf(u.Type())
		}
	}
	return f.typeOfExpr(e)
}

// ---------------------------------------------------------------------------- return

// rawReturn builds the raw function result from the result values
func (f *gtFn) rawReturn(vals []string) string {
	var parts []string
	for _, o := range f.outs {
		parts = append(parts, o.name)
	}
	parts = append(parts, vals...)
	return gtTuple(parts)
}

func (f *gtFn) resultTypes() []*gtT {
	switch f.results.k {
	case gkUnit:
		return nil
	case gkTuple:
		return f.results.tup
	}
	return []*gtT{f.results}
}

func (f *gtFn) returnStmt(c *gtCtx, x *ast.ReturnStmt) string {
	rts := f.resultTypes()
	if len(x.Results) == 0 {
		if len(rts) == 0 {
			return c.ret(f.rawReturn(nil))
		}
		// named results
		var vals []string
		if f.ftype.Results != nil {
			for _, fl := range f.ftype.Results.List {
				for _, n := range fl.Names {
					obj, _ := f.info.Defs[n].(*types.Var)
					if obj == nil {
						gtFail("%s: bare return", f.pos(x))
					}
					vals = append(vals, f.lookup(obj).name)
				}
			}
		}
		if len(vals) != len(rts) {
			gtFail("%s: bare return without named results", f.pos(x))
		}
		return c.ret(f.rawReturn(vals))
	}
	if len(x.Results) == 1 && len(rts) > 1 {
		// return g(...)
		call, ok := gtUnparen(x.Results[0]).(*ast.CallExpr)
		if !ok {
			gtFail("%s: return form", f.pos(x))
		}
		callee, recvExpr := f.resolveCallee(call)
		if len(callee.outs) > 0 {
			gtFail("%s: return of a call that modifies its arguments is outside the subset", f.pos(x))
		}
		v := f.callTerm(call, callee, recvExpr)
		if len(f.outs) == 0 {
			return gtBinds(v.pre, c.ret(v.s))
		}
		names := make([]string, len(rts))
		for i := range names {
			names[i] = f.tmp()
		}
		return gtBinds(v.pre, "let '("+strings.Join(names, ", ")+") := "+v.s+" in\n"+c.ret(f.rawReturn(names)))
	}
	if len(x.Results) != len(rts) {
		gtFail("%s: return with %d values, function has %d results", f.pos(x), len(x.Results), len(rts))
	}
	var pre []gtBind
	var vals []string
	for i, r := range x.Results {
		if call, ok := gtUnparen(r).(*ast.CallExpr); ok {
			if callee := f.calleeOf(call); callee != nil && len(callee.outs) > 0 {
				gtFail("%s: return of a call that modifies its arguments is outside the subset", f.pos(x))
			}
		}
		v := f.exprAs(r, rts[i])
		pre = append(pre, v.pre...)
		if len(x.Results) > 1 && len(v.pre) > 0 {
			// keep the value stable while later results are evaluated
			t := f.tmp()
			pre = append(pre, gtBind{pat: t, rhs: v.s})
			vals = append(vals, t)
		} else {
			vals = append(vals, v.s)
		}
	}
	return gtBinds(pre, c.ret(f.rawReturn(vals)))
}

// ---------------------------------------------------------------------------- if / switch

type gtBranch struct {
	cond func() gtVal // nil: else
	body []ast.Stmt
}

func (f *gtFn) ifStmt(c *gtCtx, x *ast.IfStmt, k gtCont) string {
	if x.Init != nil {
		// the scope of the init statement is the if statement: names are unique per object anyway
		return f.stmt(c, x.Init, func() string {
			y := *x
			y.Init = nil
			return f.ifNoInit(c, &y, x, k)
		})
	}
	return f.ifNoInit(c, x, x, k)
}

func (f *gtFn) ifNoInit(c *gtCtx, x *ast.IfStmt, whole ast.Node, k gtCont) string {
	var brs []gtBranch
	cur := x
	for {
		cc := cur
		if cc.Init != nil {
			gtFail("%s: else-if with an init statement is outside the subset", f.pos(cc))
		}
		brs = append(brs, gtBranch{cond: func() gtVal {
			v := f.expr(cc.Cond)
			if v.t.k != gkBool {
				gtFail("%s: condition is not boolean", f.pos(cc))
			}
			return v
		}, body: cc.Body.List})
		if cur.Else == nil {
			break
		}
		if e, ok := cur.Else.(*ast.IfStmt); ok {
			cur = e
			continue
		}
		brs = append(brs, gtBranch{body: cur.Else.(*ast.BlockStmt).List})
		break
	}
	return f.branches(c, x, brs, k)
}

func (f *gtFn) switchStmt(c *gtCtx, x *ast.SwitchStmt, k gtCont) string {
	for _, cl := range x.Body.List {
		for _, s := range cl.(*ast.CaseClause).Body {
			bad := false
			ast.Inspect(s, func(n ast.Node) bool {
				switch y := n.(type) {
				case *ast.FuncLit, *ast.RangeStmt, *ast.ForStmt, *ast.SwitchStmt:
					return false
				case *ast.BranchStmt:
					if y.Tok == token.BREAK || y.Tok == token.FALLTHROUGH || y.Tok == token.GOTO {
						bad = true
					}
				}
				return true
			})
			if bad {
				gtFail("%s: break / fallthrough inside a switch is outside the subset", f.pos(s))
			}
		}
	}
	body := func(tag *gtVal) string {
		var brs []gtBranch
		var def *ast.CaseClause
		for _, cl := range x.Body.List {
			cc := cl.(*ast.CaseClause)
			if cc.List == nil {
				def = cc
				continue
			}
			brs = append(brs, gtBranch{cond: func() gtVal {
				var pre []gtBind
				var parts []string
				for _, e := range cc.List {
					var v gtVal
					if tag == nil {
						v = f.expr(e)
						if v.t.k != gkBool {
							gtFail("%s: case expression is not boolean", f.pos(e))
						}
					} else {
						ev := f.exprAs(e, tag.t)
						if len(ev.pre) > 0 {
							gtFail("%s: case expression that may panic is outside the subset", f.pos(e))
						}
						v = gtVal{s: gtCmp(token.EQL, tag.s, ev.s, tag.t), t: gtBool}
					}
					if len(v.pre) > 0 && len(parts) > 0 {
						gtFail("%s: case list with an expression that may panic is outside the subset", f.pos(e))
					}
					pre = append(pre, v.pre...)
					parts = append(parts, gtPar(v.s))
				}
				return gtVal{pre: pre, s: strings.Join(parts, " || "), t: gtBool}
			}, body: cc.Body})
		}
		if def != nil {
			brs = append(brs, gtBranch{body: def.Body})
		}
		if len(brs) == 0 {
			return k()
		}
		if brs[0].cond == nil {
			return f.stmts(c, brs[0].body, k)
		}
		return f.branches(c, x, brs, k)
	}
	withTag := func() string {
		if x.Tag == nil {
			return body(nil)
		}
		tv := f.expr(x.Tag)
		if !tv.t.isInt() && tv.t.k != gkBool && tv.t.k != gkStr {
			gtFail("%s: switch on this type is outside the subset", f.pos(x))
		}
		t := f.tmp()
		tag := gtVal{s: t, t: tv.t}
		return gtBinds(tv.pre, "let "+t+" := "+tv.s+" in\n"+body(&tag))
	}
	if x.Init != nil {
		return f.stmt(c, x.Init, withTag)
	}
	return withTag()
}

// branches translates an if / else-if / else chain.
//
//	No return/break/continue inside: the chain becomes an expression whose value is the tuple of the
//	outer variables it assigns (`let '(a, b) := if .. then .. else .. in rest`).
//	Otherwise the continuation is placed inside every branch that can fall through.
func (f *gtFn) branches(c *gtCtx, whole ast.Node, brs []gtBranch, k gtCont) string {
	if !gtHasExit(whole) {
		vars := f.outerWritten(whole)
		names := make([]string, len(vars))
		for i, v := range vars {
			names[i] = v.name
		}
		tup := gtTuple(names)
		gen := func(jc *gtCtx) string {
			var build func(i int) string
			build = func(i int) string {
				if i == len(brs) {
					return gtPure(jc, tup)
				}
				b := brs[i]
				if b.cond == nil {
					return f.stmts(jc, b.body, func() string { return gtPure(jc, tup) })
				}
				cv := b.cond()
				th := f.scoped(func() string { return f.stmts(jc, b.body, func() string { return gtPure(jc, tup) }) })
				el := f.scoped(func() string { return build(i + 1) })
				return gtBinds(cv.pre, "if "+cv.s+" then (\n"+gtIndent(th, 1)+"\n) else (\n"+gtIndent(el, 1)+"\n)")
			}
			return build(0)
		}
		noExit := func() string { gtFail("internal: exit inside a joined branch"); return "" }
		mon := false
		if c.mon {
			mon = f.probe(func() { gen(&gtCtx{ret: func(string) string { return noExit() }, mon: true}) })
		}
		jc := &gtCtx{ret: func(string) string { return noExit() }, mon: mon}
		term := f.scoped(func() string { return gen(jc) })
		f.forget(vars...)
		if len(vars) == 0 && !mon {
			// no effect at all (conditions are pure, bodies only contained stripped statements)
			if !c.mon && f.monOps > 0 {
				return k()
			}
			return k()
		}
		pat := tup
		if len(vars) == 0 {
			pat = "_"
		}
		if mon {
			p := pat
			if len(vars) > 1 {
				p = "'" + pat
			}
			return p + " <- (\n" + gtIndent(term, 1) + "\n) ;;\n" + k()
		}
		p := pat
		if len(vars) > 1 {
			p = "'" + pat
		}
		return "let " + p + " :=\n" + gtIndent(term, 1) + " in\n" + k()
	}
	var build func(i int) string
	build = func(i int) string {
		if i == len(brs) {
			return k()
		}
		b := brs[i]
		if b.cond == nil {
			return f.stmts(c, b.body, k)
		}
		cv := b.cond()
		th := f.scoped(func() string { return f.stmts(c, b.body, k) })
		el := build(i + 1)
		// `if c then A else rest` reads best without nesting the else part
		return gtBinds(cv.pre, "if "+cv.s+" then (\n"+gtIndent(th, 1)+"\n) else\n"+el)
	}
	return build(0)
}

// ---------------------------------------------------------------------------- range loops

func (f *gtFn) rangeStmt(c *gtCtx, x *ast.RangeStmt, k gtCont) string {
	if x.Tok != token.DEFINE && (x.Key != nil || x.Value != nil) {
		gtFail("%s: range with assignment to existing variables is outside the subset", f.pos(x))
	}
	coll := f.expr(x.X)
	if coll.t.k != gkMap && coll.t.k != gkSlice {
		gtFail("%s: range over this type is outside the subset", f.pos(x))
	}
	// the loop may only change the collection it ranges over by deleting the current key
	collText := gtNodeText(f.tr.l.fset, x.X)
	var keyObj *types.Var
	if id, ok := x.Key.(*ast.Ident); ok && id.Name != "_" {
		keyObj, _ = f.info.Defs[id].(*types.Var)
	}
	ast.Inspect(x.Body, func(n ast.Node) bool {
		check := func(target ast.Expr, isDelete bool, key ast.Expr) {
			t := gtUnparen(target)
			for {
				if ix, ok := t.(*ast.IndexExpr); ok {
					t = gtUnparen(ix.X)
					continue
				}
				if sx, ok := t.(*ast.SliceExpr); ok {
					t = gtUnparen(sx.X)
					continue
				}
				break
			}
			if gtNodeText(f.tr.l.fset, t) != collText {
				return
			}
			// deleting or overwriting the entry of the CURRENT key of a map is well defined in Go and does
			// not change which entries the loop visits
			if key != nil && coll.t.k == gkMap {
				if id, ok := gtUnparen(key).(*ast.Ident); ok && keyObj != nil && f.info.Uses[id] == keyObj {
					return
				}
			}
			gtFail("%s: the loop modifies the collection it ranges over (only deleting the current key is in the subset)", f.pos(n))
		}
		switch s := n.(type) {
		case *ast.AssignStmt:
			for _, l := range s.Lhs {
				if ix, ok := gtUnparen(l).(*ast.IndexExpr); ok {
					if gtNodeText(f.tr.l.fset, gtUnparen(ix.X)) == collText {
						check(l, false, ix.Index)
					} else {
						check(l, false, nil)
					}
				}
			}
		case *ast.IncDecStmt:
			if ix, ok := gtUnparen(s.X).(*ast.IndexExpr); ok {
				if gtNodeText(f.tr.l.fset, gtUnparen(ix.X)) == collText {
					check(s.X, false, ix.Index)
				} else {
					check(s.X, false, nil)
				}
			}
		case *ast.CallExpr:
			if id, ok := gtUnparen(s.Fun).(*ast.Ident); ok {
				if b, ok := f.info.Uses[id].(*types.Builtin); ok {
					if b.Name() == "delete" {
						check(s.Args[0], true, s.Args[1])
					}
					if b.Name() == "copy" {
						check(s.Args[0], false, nil)
					}
				}
			}
		}
		return true
	})

	state := f.outerWritten(x.Body)
	names := make([]string, len(state))
	for i, v := range state {
		names[i] = v.name
	}
	st := gtTuple(names)
	hasRet, hasBrk := gtLoopHasExit(x.Body)

	kn, vn := "_", "_"
	if id, ok := x.Key.(*ast.Ident); ok && id.Name != "_" {
		kn = f.declare(f.info.Defs[id].(*types.Var)).name
	} else if x.Key != nil && !ok {
		gtFail("%s: range key form", f.pos(x))
	}
	if x.Value != nil {
		id, ok := x.Value.(*ast.Ident)
		if !ok {
			gtFail("%s: range value form", f.pos(x))
		}
		if id.Name != "_" {
			vn = f.declare(f.info.Defs[id].(*types.Var)).name
		}
	}
	elemPat := "'(" + kn + ", " + vn + ")"
	collTerm := coll.s
	if coll.t.k == gkSlice {
		if x.Value == nil && kn == "_" {
			elemPat = "_"
		} else {
			collTerm = "indexed " + gtPar(coll.s)
		}
	}
	stPat := st
	if len(state) > 1 {
		stPat = "'" + st
	} else if len(state) == 0 {
		stPat = "_"
	}

	// is the body monadic?
	bodyGen := func(lc *gtCtx) string {
		return f.scoped(func() string {
			f.forget(state...) // rebound by the loop function
			return f.stmts(lc, x.Body.List, lc.cont)
		})
	}
	simple := !hasRet && !hasBrk
	mkCtx := func(mon bool) *gtCtx {
		lc := &gtCtx{mon: mon}
		if simple {
			lc.cont = func() string { return gtPure(lc, st) }
			lc.brk = nil
			lc.ret = func(string) string { gtFail("internal: return in a simple loop"); return "" }
		} else {
			lc.cont = func() string { return gtPure(lc, "LNext "+gtPar(st)) }
			lc.brk = func() string { return gtPure(lc, "LBreak "+gtPar(st)) }
			lc.ret = func(raw string) string { return gtPure(lc, "LReturn "+gtPar(raw)) }
		}
		return lc
	}
	mon := false
	if c.mon {
		mon = f.probe(func() { bodyGen(mkCtx(true)) })
	}
	lc := mkCtx(mon)
	body := bodyGen(lc)
	init := st
	f.forget(state...)

	if simple {
		if len(state) == 0 && !mon {
			return gtBinds(coll.pre, k())
		}
		if !mon {
			return gtBinds(coll.pre, "let "+stPat+" :=\n  fold_left (fun "+stPat+" "+elemPat+" =>\n"+gtIndent(body, 2)+")\n    "+gtPar(collTerm)+" "+gtPar(init)+" in\n"+k())
		}
		f.monOps++
		return gtBinds(coll.pre, stPat+" <- go_fold_m (fun "+stPat+" "+elemPat+" =>\n"+gtIndent(body, 2)+")\n    "+gtPar(collTerm)+" "+gtPar(init)+" ;;\n"+k())
	}
	rann := ""
	rv := f.tmp()
	retBranch := "| LReturn " + rv + " => " + c.ret(rv)
	if !hasRet {
		rann = " (R := Empty_set)"
		retBranch = "| LReturn " + rv + " => match " + rv + " with end"
	}
	rest := k()
	matchTail := "| LNext " + gtPar(st) + " | LBreak " + gtPar(st) + " =>\n" + gtIndent(rest, 1) + "\n" + retBranch + "\nend"
	if len(state) == 0 {
		matchTail = "| LNext _ | LBreak _ =>\n" + gtIndent(rest, 1) + "\n" + retBranch + "\nend"
	}
	lam := "(fun " + elemPat + " " + stPat + " =>\n" + gtIndent(body, 2) + ")"
	if !mon {
		return gtBinds(coll.pre, "match go_range"+rann+" "+gtPar(collTerm)+"\n  "+lam+" "+gtPar(init)+" with\n"+matchTail)
	}
	f.monOps++
	t := f.tmp()
	return gtBinds(coll.pre, t+" <- go_range_m"+rann+" "+gtPar(collTerm)+"\n  "+lam+" "+gtPar(init)+" ;;\nmatch "+t+" with\n"+matchTail)
}

// pinText prints a statement that is left out of the translation (critical section prefix, skipped
// statement) for pinning: stripped statements (logging ...) inside it are removed first, empty lines are
// dropped, so that only edits of the remaining code change the text.
func (f *gtFn) pinText(st ast.Stmt) string {
	type saved struct {
		list *[]ast.Stmt
		old  []ast.Stmt
	}
	var undo []saved
	filter := func(list *[]ast.Stmt) {
		var kept []ast.Stmt
		changed := false
		for _, x := range *list {
			if f.stripped(x) {
				changed = true
				continue
			}
			kept = append(kept, x)
		}
		if changed {
			undo = append(undo, saved{list, *list})
			*list = kept
		}
	}
	ast.Inspect(st, func(n ast.Node) bool {
		switch x := n.(type) {
		case *ast.BlockStmt:
			filter(&x.List)
		case *ast.CaseClause:
			filter(&x.Body)
		}
		return true
	})
	text := gtNodeText(f.tr.l.fset, st)
	for i := len(undo) - 1; i >= 0; i-- {
		*undo[i].list = undo[i].old
	}
	var lines []string
	for _, l := range strings.Split(text, "\n") {
		if strings.TrimSpace(l) != "" {
			lines = append(lines, l)
		}
	}
	return strings.Join(lines, "\n")
}

func gtNodeText(fset *token.FileSet, n ast.Node) string {
	var b bytes.Buffer
	if err := printer.Fprint(&b, fset, n); err != nil {
		return fmt.Sprintf("%T", n)
	}
	// a declaration statement is printed with its doc comment: drop leading comment lines
	lines := strings.Split(b.String(), "\n")
	for len(lines) > 1 && strings.HasPrefix(strings.TrimSpace(lines[0]), "//") {
		lines = lines[1:]
	}
	return strings.Join(lines, "\n")
}
