package main

import (
	"fmt"
	"math"
	"path/filepath"
	"strings"

	"github.com/apache/yunikorn-core/pkg/events"
	"github.com/apache/yunikorn-scheduler-interface/lib/go/si"
)

// ---- engine "ring": eventRingBuffer + EventStore driven through the verif hooks ----

type RingOp struct {
	Kind  string  `json:"k"` // add | resize | query | recent
	A     uint64  `json:"a,omitempty"`
	B     uint64  `json:"b,omitempty"`
	Evs   []int64 `json:"evs,omitempty"` // observed payloads, -1 = nil record
	Low   uint64  `json:"low,omitempty"`
	High  uint64  `json:"high,omitempty"`
	Crash bool    `json:"crash,omitempty"`
}
type RingCase struct {
	Cap uint64   `json:"cap"`
	Ops []RingOp `json:"ops"`
}
type StoreOp struct {
	Kind string  `json:"k"` // put | collect | size
	A    uint64  `json:"a,omitempty"`
	Evs  []int64 `json:"evs,omitempty"`
}
type StoreCase struct {
	Size uint64    `json:"size"`
	Ops  []StoreOp `json:"ops"`
}
type RingCases struct {
	Ring   []RingCase   `json:"ring"`
	Store  []StoreCase  `json:"store"`
	Stream []StreamCase `json:"stream"`
}

func payloads(evs []*si.EventRecord) []int64 {
	out := make([]int64, len(evs))
	for i, e := range evs {
		if e == nil {
			out[i] = -1
		} else {
			out[i] = e.TimestampNano
		}
	}
	return out
}

// runRingCase executes the ops of c against the real ring buffer and fills in observations.
func runRingCase(c *RingCase) {
	r := events.VerifNewRing(c.Cap)
	n := int64(0)
	for i := range c.Ops {
		op := &c.Ops[i]
		op.Evs, op.Low, op.High, op.Crash = nil, 0, 0, false
		func() {
			defer func() {
				if e := recover(); e != nil {
					op.Crash = true
				}
			}()
			switch op.Kind {
			case "add":
				r.Add(&si.EventRecord{TimestampNano: n})
				n++
			case "resize":
				r.Resize(op.A)
			case "query":
				evs, lo, hi := r.GetEventsFromID(op.A, op.B)
				op.Evs, op.Low, op.High = payloads(evs), lo, hi
			case "recent":
				op.Evs = payloads(r.GetRecentEvents(op.A))
			}
		}()
	}
}

func genRingCase(rng *Rng, maxOps int) RingCase {
	c := RingCase{Cap: uint64(1 + rng.Intn(12))}
	nops := 1 + rng.Intn(maxOps)
	added := uint64(0)
	cap := c.Cap
	pAdd := 40 + rng.Intn(50)
	for i := 0; i < nops; i++ {
		x := rng.Intn(100)
		switch {
		case x < pAdd:
			c.Ops = append(c.Ops, RingOp{Kind: "add"})
			added++
		case x < pAdd+6:
			n := uint64(1 + rng.Intn(14))
			c.Ops = append(c.Ops, RingOp{Kind: "resize", A: n})
			cap = n
		case x < pAdd+6+(100-pAdd-6)*3/4:
			// start around the interesting boundaries
			var start uint64
			switch rng.Intn(5) {
			case 0:
				start = uint64(rng.Intn(int(added) + 3))
			case 1:
				if added > cap {
					start = added - cap + uint64(rng.Intn(3)) - 1
				} else {
					start = uint64(rng.Intn(3))
				}
			case 2:
				if added > 0 {
					start = added - 1 - uint64(rng.Intn(int(min(added, 3))))
				}
			case 3:
				start = added + uint64(rng.Intn(2))
			default:
				if added > 0 {
					start = uint64(rng.Intn(int(added)))
				}
			}
			var count uint64
			switch rng.Intn(8) {
			case 0:
				count = 0
			case 1:
				count = 1
			case 2:
				count = cap
			case 3:
				count = cap + 1
			case 4:
				count = math.MaxUint64
			case 5:
				count = math.MaxUint64 - uint64(rng.Intn(20))
			default:
				count = uint64(rng.Intn(int(cap) + 3))
			}
			c.Ops = append(c.Ops, RingOp{Kind: "query", A: start, B: count})
		default:
			var count uint64
			switch rng.Intn(6) {
			case 0:
				count = 0
			case 1:
				count = math.MaxUint64
			case 2:
				count = added + uint64(rng.Intn(3))
			default:
				count = uint64(rng.Intn(int(cap) + 4))
			}
			c.Ops = append(c.Ops, RingOp{Kind: "recent", A: count})
		}
	}
	return c
}

func coqEvs(evs []int64) string {
	items := make([]string, len(evs))
	for i, e := range evs {
		if e < 0 {
			items[i] = "None"
		} else {
			items[i] = fmt.Sprintf("Some %d", e)
		}
	}
	return "[" + strings.Join(items, "; ") + "]"
}

func (c *RingCase) coq() string {
	items := make([]string, len(c.Ops))
	for i, op := range c.Ops {
		var o, out string
		switch op.Kind {
		case "add":
			o, out = "RAdd", "OUnit"
		case "resize":
			o, out = fmt.Sprintf("RResize %d", op.A), "OUnit"
		case "query":
			o = fmt.Sprintf("RQuery %d %d", op.A, op.B)
			out = fmt.Sprintf("OQuery %s %d %d", coqEvs(op.Evs), op.Low, op.High)
		case "recent":
			o = fmt.Sprintf("RRecent %d", op.A)
			out = fmt.Sprintf("ORecent %s", coqEvs(op.Evs))
		}
		if op.Crash {
			out = "OCrash"
		}
		items[i] = "(" + o + ", " + out + ")"
	}
	return fmt.Sprintf("(%d, %s)", c.Cap, coqList(items))
}

func (c *RingCase) nontrivial() bool {
	adds, q := uint64(0), 0
	wrapped := false
	for _, op := range c.Ops {
		if op.Kind == "add" {
			adds++
			if adds > c.Cap {
				wrapped = true
			}
		}
		if (op.Kind == "query" || op.Kind == "recent") && len(op.Evs) > 0 {
			q++
		}
	}
	return wrapped && q > 0
}

func runStoreCase(c *StoreCase) {
	s := events.VerifNewStore(c.Size)
	n := int64(0)
	for i := range c.Ops {
		op := &c.Ops[i]
		switch op.Kind {
		case "put":
			s.Store(&si.EventRecord{TimestampNano: n})
			n++
		case "collect":
			op.Evs = payloads(s.CollectEvents())
		case "size":
			s.SetStoreSize(op.A)
		}
	}
}

func genStoreCase(rng *Rng, maxOps int) StoreCase {
	c := StoreCase{Size: uint64(rng.Intn(8))}
	nops := 1 + rng.Intn(maxOps)
	for i := 0; i < nops; i++ {
		x := rng.Intn(100)
		switch {
		case x < 70:
			c.Ops = append(c.Ops, StoreOp{Kind: "put"})
		case x < 90:
			c.Ops = append(c.Ops, StoreOp{Kind: "collect"})
		default:
			c.Ops = append(c.Ops, StoreOp{Kind: "size", A: uint64(rng.Intn(10))})
		}
	}
	c.Ops = append(c.Ops, StoreOp{Kind: "collect"})
	return c
}

func (c *StoreCase) coq() string {
	ops := []string{}
	outs := []string{}
	for _, op := range c.Ops {
		switch op.Kind {
		case "put":
			ops = append(ops, "SPut")
		case "collect":
			ops = append(ops, "SCollect")
			outs = append(outs, coqEvs(op.Evs))
		case "size":
			ops = append(ops, fmt.Sprintf("SSetSize %d", op.A))
		}
	}
	return fmt.Sprintf("(%d, %s, %s)", c.Size, coqList(ops), coqList(outs))
}

const ringRequires = `From YK Require Import Events.Ring Events.RingSpec Oracles.RingCheck.
From Coq Require Import List NArith. Import ListNotations. Open Scope N_scope.`

func ringEngine(o *Opts) {
	rng := NewRng(o.Seed)
	st := NewStats("ring", o.Seed, "random op sequences (add/resize/query/recent) over capacities 1-12 with (start,count) drawn around the window boundaries; non-trivial = the buffer wrapped at least once and at least one query returned events; distinct by hash of the full case with observations")
	var all RingCases
	if o.Replay != "" {
		readJSON(o.Replay, &all)
	} else {
		maxOps := 60
		if o.Tier == "thorough" {
			maxOps = 200
		}
		for i := 0; i < o.N; i++ {
			all.Ring = append(all.Ring, genRingCase(rng.Fork(), maxOps))
		}
		for i := 0; i < o.N/4+1; i++ {
			all.Store = append(all.Store, genStoreCase(rng.Fork(), 40))
		}
		for i := 0; i < o.N/4+1; i++ {
			all.Stream = append(all.Stream, genStreamCase(rng.Fork()))
		}
	}
	ringTerms := []string{}
	for i := range all.Ring {
		c := &all.Ring[i]
		runRingCase(c)
		t := c.coq()
		ringTerms = append(ringTerms, t)
		for _, op := range c.Ops {
			st.Count("ring." + op.Kind)
			if op.Crash {
				st.Panics++
			}
		}
		st.Case(t, c.nontrivial(), c)
	}
	storeTerms := []string{}
	for i := range all.Store {
		c := &all.Store[i]
		runStoreCase(c)
		t := c.coq()
		storeTerms = append(storeTerms, t)
		st.Count("store.case")
		st.Case(t, len(c.Ops) > 3, c)
	}
	streamTerms := []string{}
	for i := range all.Stream {
		c := &all.Stream[i]
		runStreamCase(c)
		t := c.coq()
		streamTerms = append(streamTerms, t)
		st.Count("stream.case")
		st.Case(t, c.Between > 0 || c.Before > 0, c)
	}
	base := filepath.Join(o.OutDir, fmt.Sprintf("cases_ring_%d", o.Shard))
	var b strings.Builder
	b.WriteString(ringRequires + "\n")
	b.WriteString("Definition ring_cases : list ring_case := [\n " + strings.Join(ringTerms, ";\n ") + "\n].\n")
	b.WriteString("Definition store_cases : list store_case := [\n " + strings.Join(storeTerms, ";\n ") + "\n].\n")
	b.WriteString("Definition stream_cases : list stream_case := [\n " + strings.Join(streamTerms, ";\n ") + "\n].\n")
	b.WriteString("Definition M := Eval vm_compute in (ring_check ring_cases ++ store_check store_cases ++ stream_check stream_cases).\nPrint M.\n")
	writeFile(base+".v", b.String())
	writeJSON(base+".json", all)
	st.CasesFile, st.CasesJSON = base+".v", base+".json"
	st.Write(base + ".stats.json")
}

func init() { engines["ring"] = ringEngine }
