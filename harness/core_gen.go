package main

import (
	"fmt"
	"sort"
	"strings"
)

// ---- world / history generator for the core engine ----

var coreTypes = []string{"memory", "vcore", "gpu"}

type genQueue struct {
	name     string
	parent   bool
	children []*genQueue
	max      CoreRes
	guar     CoreRes
	maxApps  int
	submit   string
	limits   string
	dynamic  bool // parent without configured children: dynamic leaves may be created below it
}

func (r *Rng) res(maxTypes int, lo, hi int64, sparse bool) CoreRes {
	out := CoreRes{}
	for i := 0; i < maxTypes; i++ {
		if sparse && r.Chance(35) {
			continue
		}
		out[coreTypes[i]] = lo + int64(r.Intn(int(hi-lo+1)))
	}
	if len(out) == 0 {
		out[coreTypes[0]] = lo + int64(r.Intn(int(hi-lo+1)))
	}
	return out
}

func yamlRes(ind string, r CoreRes) string {
	var b strings.Builder
	for _, k := range sortedKeys(r) {
		b.WriteString(fmt.Sprintf("%s%s: %d\n", ind, k, r[k]))
	}
	return b.String()
}

func (q *genQueue) yaml(ind string, b *strings.Builder) {
	b.WriteString(fmt.Sprintf("%s- name: %s\n", ind, q.name))
	in := ind + "  "
	if q.parent {
		b.WriteString(in + "parent: true\n")
	}
	if q.submit != "" {
		b.WriteString(fmt.Sprintf("%ssubmitacl: \"%s\"\n", in, q.submit))
	}
	if q.maxApps > 0 {
		b.WriteString(fmt.Sprintf("%smaxapplications: %d\n", in, q.maxApps))
	}
	if q.max != nil || q.guar != nil {
		b.WriteString(in + "resources:\n")
		if q.guar != nil {
			b.WriteString(in + "  guaranteed:\n" + yamlRes(in+"    ", q.guar))
		}
		if q.max != nil {
			b.WriteString(in + "  max:\n" + yamlRes(in+"    ", q.max))
		}
	}
	if q.limits != "" {
		b.WriteString(strings.ReplaceAll(q.limits, "@", in))
	}
	if len(q.children) > 0 {
		b.WriteString(in + "queues:\n")
		for _, c := range q.children {
			c.yaml(in+"  ", b)
		}
	}
}

func coreConfigYAML(root *genQueue, preemption bool, nodePolicy string) string {
	var b strings.Builder
	b.WriteString("partitions:\n  - name: default\n")
	b.WriteString("    placementrules:\n      - name: provided\n        create: true\n")
	b.WriteString(fmt.Sprintf("    nodesortpolicy:\n      type: %s\n", nodePolicy))
	b.WriteString(fmt.Sprintf("    preemption:\n      enabled: %v\n", preemption))
	b.WriteString("    queues:\n")
	root.yaml("      ", &b)
	return b.String()
}

// genTree builds a queue tree; maxima respect the validation rules (child <= parent on shared types).
func genTree(r *Rng, ntypes int) *genQueue {
	root := &genQueue{name: "root", parent: true, submit: "*"}
	nTop := 1 + r.Intn(3)
	for i := 0; i < nTop; i++ {
		q := &genQueue{name: fmt.Sprintf("q%d", i)}
		if r.Chance(55) {
			q.max = r.res(ntypes, 6, 40, true)
		}
		if r.Chance(25) {
			q.maxApps = 1 + r.Intn(3)
		}
		if r.Chance(30) {
			q.parent = true
			if r.Chance(70) {
				nc := 1 + r.Intn(2)
				for j := 0; j < nc; j++ {
					c := &genQueue{name: fmt.Sprintf("c%d", j)}
					if r.Chance(50) {
						c.max = CoreRes{}
						for k, v := range r.res(ntypes, 3, 30, true) {
							if q.max != nil {
								if pv, ok := q.max[k]; ok && v > pv {
									v = pv
								}
							}
							c.max[k] = v
						}
					}
					if r.Chance(20) {
						c.maxApps = 1 + r.Intn(2)
						if q.maxApps > 0 && c.maxApps > q.maxApps {
							c.maxApps = q.maxApps
						}
					}
					if r.Chance(30) && c.max != nil {
						c.guar = CoreRes{}
						for k, v := range c.max {
							c.guar[k] = v / 2
						}
					}
					q.children = append(q.children, c)
				}
			} else {
				q.dynamic = true
			}
		} else if r.Chance(30) && q.max != nil {
			q.guar = CoreRes{}
			for k, v := range q.max {
				q.guar[k] = v / 2
			}
		}
		if r.Chance(35) {
			who := []string{"u1", "u2", "*"}[r.Intn(3)]
			lim := r.res(ntypes, 2, 12, true)
			if q.max != nil {
				for k, v := range lim {
					if pv, ok := q.max[k]; ok && v > pv {
						lim[k] = pv
					}
				}
			}
			q.limits = fmt.Sprintf("@limits:\n@  - limit: l\n@    users:\n@      - \"%s\"\n@    maxresources:\n%s", who, yamlRes("@      ", lim))
			if r.Chance(40) {
				n := 1 + r.Intn(2)
				if q.maxApps > 0 && n > q.maxApps {
					n = q.maxApps
				}
				q.limits += fmt.Sprintf("@    maxapplications: %d\n", n)
			}
		}
		root.children = append(root.children, q)
	}
	return root
}

// genMaxAppsTree builds deeper trees (up to three levels below root) with max-applications limits on several
// levels, the tighter one often higher up, and dynamic parents below limited queues: a configured child of a limited
// queue must carry a limit itself (validation), but queues created by the placement rule below a dynamic parent carry
// none, so a limit can sit on a grandparent (or the root) while the direct parent has none.
func genMaxAppsTree(r *Rng, ntypes int) *genQueue {
	root := &genQueue{name: "root", parent: true, submit: "*"}
	if r.Chance(35) {
		root.maxApps = 1 + r.Intn(3)
	}
	lim := func(above int, p int) int {
		if above > 0 {
			return 1 + r.Intn(above) // mandatory below a limited queue, never above it
		}
		if r.Chance(p) {
			return 1 + r.Intn(3)
		}
		return 0
	}
	nTop := 1 + r.Intn(2)
	for i := 0; i < nTop; i++ {
		q := &genQueue{name: fmt.Sprintf("q%d", i), parent: true, maxApps: lim(root.maxApps, 50)}
		if r.Chance(35) {
			q.dynamic = true // no configured children: dynamic leaves and dynamic parents are created below it
			root.children = append(root.children, q)
			continue
		}
		nMid := 1 + r.Intn(2)
		for j := 0; j < nMid; j++ {
			m := &genQueue{name: fmt.Sprintf("m%d", j), maxApps: lim(q.maxApps, 25)}
			if r.Chance(65) {
				m.parent = true
				if r.Chance(40) {
					m.dynamic = true
				} else {
					nl := 1 + r.Intn(2)
					for k := 0; k < nl; k++ {
						l := &genQueue{name: fmt.Sprintf("l%d", k), maxApps: lim(m.maxApps, 30)}
						if r.Chance(30) {
							l.max = r.res(ntypes, 6, 40, true)
						}
						m.children = append(m.children, l)
					}
				}
			}
			q.children = append(q.children, m)
		}
		root.children = append(root.children, q)
	}
	return root
}

func (q *genQueue) leaves(prefix string, out *[]string, dyn *[]string) {
	path := q.name
	if prefix != "" {
		path = prefix + "." + q.name
	}
	if q.dynamic {
		*dyn = append(*dyn, path)
	}
	if !q.parent {
		*out = append(*out, path)
	}
	for _, c := range q.children {
		c.leaves(path, out, dyn)
	}
}

// mutate produces a second configuration for reloads: limits changed, a queue dropped or added.
func mutateTree(r *Rng, root *genQueue, ntypes int) *genQueue {
	cp := &genQueue{name: "root", parent: true, submit: "*"}
	for _, q := range root.children {
		if len(root.children) > 1 && r.Chance(20) {
			continue // queue removed from the configuration -> draining
		}
		nq := *q
		nq.children = nil
		for _, c := range q.children {
			if r.Chance(15) {
				continue
			}
			nc := *c
			if nc.max != nil && r.Chance(40) {
				nm := CoreRes{}
				for k, v := range nc.max {
					nm[k] = max(1, v-int64(r.Intn(4)))
				}
				nc.max = nm
				nc.guar = nil
			}
			nq.children = append(nq.children, &nc)
		}
		if q.parent && len(nq.children) == 0 && !q.dynamic {
			nq.dynamic = true
		}
		if nq.max != nil && r.Chance(40) {
			nm := CoreRes{}
			for k, v := range nq.max {
				nm[k] = v + int64(r.Intn(8))
			}
			nq.max = nm
		}
		if r.Chance(25) {
			nq.maxApps = r.Intn(4)
			for _, c := range nq.children {
				if nq.maxApps > 0 && c.maxApps > nq.maxApps {
					c.maxApps = nq.maxApps
				}
			}
		}
		cp.children = append(cp.children, &nq)
	}
	if r.Chance(30) {
		cp.children = append(cp.children, &genQueue{name: fmt.Sprintf("n%d", r.Intn(3)), max: r.res(ntypes, 5, 30, true)})
	}
	return cp
}

type genState struct {
	r        *Rng
	ntypes   int
	nodes    []string
	removedN []string
	apps     []string
	gangApps map[string][]string // app -> task groups
	keys     map[string][]string // app -> allocation keys submitted
	allKeys  []string
	foreign  []string
	leaves   []string
	dynPar   []string
	nextKey  int
	nextApp  int
	nextNode int
	nconf    int
	variant  string
	nodeCap  int64
	phSize   map[string]CoreRes
}

func (g *genState) pick(l []string) string {
	if len(l) == 0 {
		return ""
	}
	return l[g.r.Intn(len(l))]
}

func (g *genState) queueName() string {
	x := g.r.Intn(100)
	if g.variant == "maxapps" && g.r.Chance(30) {
		// two dynamic levels: the direct parent of the leaf is created by the placement rule and carries no limit
		if len(g.dynPar) > 0 && g.r.Chance(60) {
			return g.pick(g.dynPar) + fmt.Sprintf(".e%d.d%d", g.r.Intn(2), g.r.Intn(2))
		}
		return fmt.Sprintf("root.dynp%d.d%d", g.r.Intn(2), g.r.Intn(2))
	}
	switch {
	case x < 70 && len(g.leaves) > 0:
		return g.pick(g.leaves)
	case x < 85 && len(g.dynPar) > 0:
		return g.pick(g.dynPar) + fmt.Sprintf(".d%d", g.r.Intn(2))
	case x < 90:
		return "root.unknownparent.x"
	case x < 93:
		return "root"
	default:
		return fmt.Sprintf("root.dyn%d", g.r.Intn(2))
	}
}

func (g *genState) opNodeAdd() CoreOp {
	g.nextNode++
	id := fmt.Sprintf("node-%d", g.nextNode)
	g.nodes = append(g.nodes, id)
	if g.variant == "reserve" {
		// equal sized nodes: asks of a bit more than half a node fragment the cluster, so that there is
		// queue headroom (free space in the cluster) while no single node fits the next ask
		if g.nodeCap == 0 {
			g.nodeCap = int64(8 + g.r.Intn(5))
		}
		c := CoreRes{}
		for i := 0; i < g.ntypes; i++ {
			c[coreTypes[i]] = g.nodeCap
		}
		return CoreOp{Kind: "node_add", Node: id, Cap: c, Drain: g.r.Chance(4)}
	}
	return CoreOp{Kind: "node_add", Node: id, Cap: g.r.res(g.ntypes, 6, 24, false), Drain: g.r.Chance(8)}
}

func (g *genState) opAppAdd() CoreOp {
	g.nextApp++
	id := fmt.Sprintf("app-%d", g.nextApp)
	g.apps = append(g.apps, id)
	op := CoreOp{Kind: "app_add", App: id, Queue: g.queueName(), User: []string{"u1", "u2", "u3"}[g.r.Intn(3)], Groups: []string{[]string{"g1", "g2"}[g.r.Intn(2)]}}
	gangP := 25
	if g.variant == "gang" {
		gangP = 70
	}
	if g.variant == "swap" {
		gangP = 95
	}
	if g.r.Chance(gangP) {
		tgs := []string{"tg-a"}
		if g.r.Chance(30) {
			tgs = append(tgs, "tg-b")
		}
		g.gangApps[id] = tgs
		op.PhAsk = g.r.res(g.ntypes, 2, 8, true)
		op.Hard = g.r.Chance(50)
	}
	if g.r.Chance(6) {
		op.Forced = true
	}
	if g.r.Chance(6) {
		op.MaxApps = uint64(1 + g.r.Intn(2))
	}
	if g.r.Chance(6) {
		op.TagMax = g.r.res(g.ntypes, 4, 12, true)
	}
	return op
}

func (g *genState) newKey(app string) string {
	g.nextKey++
	k := fmt.Sprintf("alloc-%d", g.nextKey)
	g.keys[app] = append(g.keys[app], k)
	g.allKeys = append(g.allKeys, k)
	return k
}

func (g *genState) opAsk() CoreOp {
	app := g.pick(g.apps)
	if app == "" {
		return g.opAppAdd()
	}
	op := CoreOp{Kind: "alloc", App: app, Key: g.newKey(app), Res: g.r.res(g.ntypes, 1, 7, true), Prio: int32(g.r.Intn(4)), AgeSec: int64(3600 + g.r.Intn(100))}
	if g.variant == "reserve" && g.nodeCap > 0 {
		if g.r.Chance(60) {
			op.Res = g.r.res(g.ntypes, g.nodeCap/2+1, g.nodeCap-2, false)
		} else {
			op.Res = g.r.res(g.ntypes, 1, 3, false)
		}
	}
	if tgs, ok := g.gangApps[app]; ok {
		op.TaskGroup = g.pick(tgs)
		if g.variant == "swap" {
			// placeholders of a task group all have the size phSize; real asks are smaller on every type
			if g.phSize == nil {
				g.phSize = map[string]CoreRes{}
			}
			sz, ok := g.phSize[app+op.TaskGroup]
			if !ok {
				sz = g.r.res(g.ntypes, 3, 6, false)
				g.phSize[app+op.TaskGroup] = sz
			}
			if g.r.Chance(50) {
				op.Ph = true
				op.Res = sz
			} else {
				op.Res = CoreRes{}
				for k, v := range sz {
					op.Res[k] = max(1, v-int64(g.r.Intn(3)))
				}
			}
		} else if g.r.Chance(60) {
			op.Ph = true
		} else if g.r.Chance(20) {
			op.TaskGroup = ""
		}
	}
	reqP := 8
	if g.variant == "reserve" {
		reqP = 30
	}
	if g.r.Chance(reqP) {
		if g.variant == "reserve" && g.r.Chance(85) {
			op.ReqNode = g.pick(g.nodes)
		} else {
			op.ReqNode = g.pick(append(g.nodes, "node-99"))
		}
	}
	if g.r.Chance(30) {
		op.PreemptOther = true
	}
	if g.r.Chance(10) {
		op.NoPreempt = true
	}
	if g.r.Chance(10) {
		op.Originator = true
	}
	return op
}

// a recovered (already bound) allocation
func (g *genState) opBound() CoreOp {
	op := g.opAsk()
	op.Node = g.pick(g.nodes)
	op.ReqNode = ""
	if g.r.Chance(30) {
		// a recovered allocation that does not fit any more: the node is over-committed by the forced add
		op.Res = g.r.res(g.ntypes, 15, 30, false)
	}
	return op
}

func (g *genState) opForeign() CoreOp {
	g.nextKey++
	k := fmt.Sprintf("foreign-%d", g.nextKey)
	if len(g.foreign) > 0 && g.r.Chance(35) {
		k = g.pick(g.foreign) // update of an existing foreign allocation
	} else {
		g.foreign = append(g.foreign, k)
	}
	return CoreOp{Kind: "alloc", Key: k, Node: g.pick(g.nodes), Foreign: true, Res: g.r.res(g.ntypes, 1, 6, true)}
}

func (g *genState) opRelease(pending *[]CoreEvent) CoreOp {
	// deliver a confirmation the core asked for, or release something on the shim's initiative
	if len(*pending) > 0 && g.r.Chance(60) {
		i := g.r.Intn(len(*pending))
		e := (*pending)[i]
		if !g.r.Chance(15) { // sometimes keep it: the confirmation will be delivered twice
			*pending = append((*pending)[:i], (*pending)[i+1:]...)
		}
		return CoreOp{Kind: "release", App: e.App, Key: e.Key, TType: e.TType}
	}
	app := g.pick(g.apps)
	key := g.pick(g.keys[app])
	tt := int32(1)
	switch x := g.r.Intn(100); {
	case x < 6:
		tt = 0
	case x < 10:
		tt = 2
	case x < 14:
		tt = 3
	case x < 18:
		tt = 4
	}
	if g.r.Chance(4) {
		key = ""
	}
	return CoreOp{Kind: "release", App: app, Key: key, TType: tt}
}

func (g *genState) opMalformed() CoreOp {
	var op CoreOp
	switch g.r.Intn(17) {
	case 14:
		// a known pending key reported as bound on a node that is not registered
		a := g.pick(g.apps)
		op = CoreOp{Kind: "alloc", App: a, Key: g.pick(g.keys[a]), Node: "no-such-node", Res: CoreRes{"memory": 2}, AgeSec: 3600}
		if op.Key == "" {
			op.Key = "bad-15"
		}
	case 15:
		// a known key with zero / negative resources
		a := g.pick(g.apps)
		op = CoreOp{Kind: "alloc", App: a, Key: g.pick(g.keys[a]), Res: CoreRes{"memory": 0}}
		if g.r.Chance(50) {
			op.Res = CoreRes{"memory": -1, "vcore": 2}
		}
		if op.Key == "" {
			op.Key = "bad-16"
		}
	case 16:
		// release for a known key of ANOTHER application
		a, b := g.pick(g.apps), g.pick(g.apps)
		op = CoreOp{Kind: "release", App: a, Key: g.pick(g.keys[b]), TType: int32(g.r.Intn(5))}
		if a == b || op.Key == "" {
			op = CoreOp{Kind: "release", App: "no-such-app", Key: "x", TType: 1}
		}
	case 0:
		op = CoreOp{Kind: "alloc", App: "no-such-app", Key: "bad-1", Res: CoreRes{"memory": 1}}
	case 1:
		op = CoreOp{Kind: "alloc", App: g.pick(g.apps), Key: "bad-2", Res: CoreRes{"memory": 0}}
	case 2:
		op = CoreOp{Kind: "alloc", App: g.pick(g.apps), Key: "bad-3", Res: CoreRes{"memory": -3, "vcore": 1}}
	case 3:
		op = CoreOp{Kind: "alloc", App: g.pick(g.apps), Key: "bad-4", NilRes: true}
	case 4:
		op = CoreOp{Kind: "alloc", App: g.pick(g.apps), Key: "bad-5", Node: "no-such-node", Res: CoreRes{"memory": 1}}
	case 5:
		op = CoreOp{Kind: "alloc", Key: "bad-6", Node: "no-such-node", Foreign: true, Res: CoreRes{"memory": 1}}
	case 6:
		op = CoreOp{Kind: "alloc", Key: "bad-7", Foreign: true, Res: CoreRes{"memory": 1}}
	case 7:
		op = CoreOp{Kind: "release", App: "no-such-app", Key: "x", TType: int32(g.r.Intn(5))}
	case 8:
		op = CoreOp{Kind: "release", App: g.pick(g.apps), Key: "no-such-key", TType: int32(g.r.Intn(5))}
	case 9:
		op = CoreOp{Kind: "node_update", Node: "no-such-node", Cap: CoreRes{"memory": 5}}
	case 10:
		op = CoreOp{Kind: "node_add", Node: g.pick(g.nodes), Cap: CoreRes{"memory": 5}}
		if op.Node == "" {
			op.Node = "node-dup"
		}
	case 11:
		op = CoreOp{Kind: "app_add", App: g.pick(g.apps), Queue: g.pick(g.leaves), User: "u1"}
		if op.App == "" {
			op.App = "app-x"
			op.Queue = "root.no.such.parent.leaf"
		}
	case 12:
		op = CoreOp{Kind: "alloc", App: g.pick(g.apps), Key: "bad-13", Ph: true, Res: CoreRes{"memory": 1}}
	default:
		op = CoreOp{Kind: "alloc", App: g.pick(g.apps), Key: "bad-14", Partition: "nopartition", Res: CoreRes{"memory": 1}}
	}
	op.Malformed = true
	return op
}

// genCoreCase builds a world and an op sequence; the driver feedback (pending confirmations) is used
// while generating, so generation and execution are interleaved.
// coreMix gives the per-mille thresholds of the op mix per variant: sched, app_add, ask, release, bound,
// foreign, foreign_remove, node_add, node_update, drain, node_remove, app_remove, fire_ph, fire_state, reload, clean, update, malformed(rest)
var coreMix = map[string][]int{
	"": {300, 100, 200, 100, 30, 30, 15, 15, 15, 15, 15, 20, 25, 25, 20, 15, 30},
	// gang applications whose real asks are smaller than their placeholders, predicate denials that push the
	// replacement to another node, node removals while swaps are in flight, few confirmations
	"swap":      {330, 80, 260, 50, 10, 10, 5, 15, 10, 10, 60, 15, 30, 25, 0, 5, 15},
	"gang":      {300, 110, 230, 120, 15, 10, 5, 10, 10, 10, 20, 15, 60, 45, 5, 5, 10},
	"reserve":   {320, 80, 250, 110, 5, 10, 5, 5, 10, 40, 40, 40, 15, 10, 5, 5, 10},
	"reload":    {250, 110, 180, 80, 20, 10, 5, 15, 10, 10, 10, 25, 15, 25, 150, 60, 10},
	"malformed": {200, 90, 150, 90, 30, 30, 15, 15, 15, 10, 10, 15, 15, 15, 10, 10, 15},
	"maxapps":   {330, 170, 200, 130, 10, 5, 5, 10, 5, 5, 5, 50, 15, 40, 10, 5, 5},
	"recover":   {330, 100, 220, 90, 30, 30, 10, 15, 10, 10, 10, 10, 20, 10, 0, 0, 55},
}

func genCoreCase(rng *Rng, maxOps int, variant string) (*CoreCase, error) {
	if variant == "gangdeep" {
		return genGangDeep(rng, maxOps)
	}
	if variant == "preemptdeep" {
		return genPreemptDeep(rng, maxOps)
	}
	if variant == "maxappsdeep" {
		return genMaxAppsDeep(rng, maxOps)
	}
	mix, ok := coreMix[variant]
	if !ok {
		mix = coreMix[""]
	}
	th := make([]int, len(mix))
	acc := 0
	for i, m := range mix {
		acc += m
		th[i] = acc
	}
	ntypes := 1 + rng.Intn(3)
	tree := genTree(rng, ntypes)
	deepTree := false
	if variant == "maxapps" && rng.Chance(60) {
		tree = genMaxAppsTree(rng, ntypes)
		deepTree = true
	}
	preempt := rng.Chance(35)
	policy := []string{"fair", "binpacking"}[rng.Intn(2)]
	resDelay := rng.Chance(45)
	if variant == "reserve" {
		resDelay = true
	}
	if variant == "swap" {
		preempt = false
	}
	w := CoreWorld{Configs: []string{coreConfigYAML(tree, preempt, policy)}, ResDelayOn: resDelay, ResWaitOn: resDelay && rng.Chance(map[bool]int{true: 40, false: 25}[variant == "reserve"]), PredDeny: []int{0, 0, 10, 30}[rng.Intn(4)], Seed: rng.Next()}
	if variant == "swap" {
		w.PredDeny = []int{20, 35, 50}[rng.Intn(3)]
	}
	nconf := rng.Intn(3)
	if deepTree {
		nconf = 0 // mutateTree knows two levels only
	}
	cur := tree
	for i := 0; i < nconf; i++ {
		cur = mutateTree(rng, cur, ntypes)
		w.Configs = append(w.Configs, coreConfigYAML(cur, preempt, policy))
	}
	if rng.Chance(20) {
		w.Configs = append(w.Configs, "partitions:\n  - name: default\n    queues:\n      - name: root\n        queues:\n          - name: a\n          - name: a\n")
	}
	c := &CoreCase{World: w}
	d, err := newCoreDriver(&c.World)
	if err != nil {
		return nil, fmt.Errorf("initial config rejected: %v\n%s", err, w.Configs[0])
	}
	c.Init = d.observe()
	g := &genState{r: rng, ntypes: ntypes, gangApps: map[string][]string{}, keys: map[string][]string{}, variant: variant}
	tree.leaves("", &g.leaves, &g.dynPar)
	sort.Strings(g.leaves)
	var pending []CoreEvent
	emit := func(op CoreOp) {
		c.Ops = append(c.Ops, op)
		st := d.step(&c.Ops[len(c.Ops)-1])
		c.Steps = append(c.Steps, st)
		for _, e := range st.Events {
			if e.Kind == "release" && (e.TType == 2 || e.TType == 3 || e.TType == 4) {
				pending = append(pending, e)
			}
		}
	}
	// a small cluster first
	nn := 1 + rng.Intn(3)
	if variant == "reserve" {
		nn = 2 + rng.Intn(2)
	}
	for i := 0; i < nn; i++ {
		emit(g.opNodeAdd())
	}
	nops := 8 + rng.Intn(maxOps)
	var lastPlaced [3]string // app, key, node of the last RM placement of an existing key
	for i := 0; i < nops; i++ {
		x := rng.Intn(1000)
		switch {
		case x < th[0]:
			emit(CoreOp{Kind: "sched"})
		case x < th[1]:
			emit(g.opAppAdd())
		case x < th[2]:
			emit(g.opAsk())
		case x < th[3]:
			rel := g.opRelease(&pending)
			emit(rel)
			if rel.Key != "" && rel.App != "" && rel.TType != 4 && rng.Chance(15) {
				// the shim reuses the key: the same key is submitted again as a new ask, and (half of the time) cancelled
				// while it is still pending; other asks keep the application visited by the scheduler
				emit(CoreOp{Kind: "alloc", App: rel.App, Key: rel.Key, Res: g.r.res(g.ntypes, 1, 5, true), AgeSec: 3600})
				if rng.Chance(50) {
					if rng.Chance(50) {
						emit(CoreOp{Kind: "alloc", App: rel.App, Key: g.newKey(rel.App), Res: g.r.res(g.ntypes, 1, 4, true), AgeSec: 3600})
					}
					emit(CoreOp{Kind: "release", App: rel.App, Key: rel.Key, TType: 1})
					emit(CoreOp{Kind: "sched"})
					emit(CoreOp{Kind: "sched"})
				}
			}
		case x < th[4]:
			emit(g.opBound())
		case x < th[5]:
			emit(g.opForeign())
		case x < th[6]:
			if len(g.foreign) > 0 {
				emit(CoreOp{Kind: "release", Key: g.pick(g.foreign), TType: 1})
			}
		case x < th[7]:
			emit(g.opNodeAdd())
		case x < th[8]:
			if n := g.pick(g.nodes); n != "" {
				emit(CoreOp{Kind: "node_update", Node: n, Cap: g.r.res(g.ntypes, 3, 24, false)})
			}
		case x < th[9]:
			if n := g.pick(g.nodes); n != "" {
				emit(CoreOp{Kind: []string{"node_drain", "node_undrain"}[rng.Intn(2)], Node: n})
			}
		case x < th[10]:
			if n := g.pick(g.nodes); n != "" {
				emit(CoreOp{Kind: "node_remove", Node: n})
			}
		case x < th[11]:
			if a := g.pick(g.apps); a != "" {
				emit(CoreOp{Kind: "app_remove", App: a})
			}
		case x < th[12]:
			if a := g.pick(g.apps); a != "" {
				emit(CoreOp{Kind: "fire_ph", App: a})
			}
		case x < th[13]:
			if a := g.pick(g.apps); a != "" {
				emit(CoreOp{Kind: "fire_state", App: a})
			}
		case x < th[14]:
			if len(w.Configs) > 1 {
				emit(CoreOp{Kind: "reload", Conf: rng.Intn(len(w.Configs))})
			}
		case x < th[15]:
			emit(CoreOp{Kind: "clean"})
		case x < th[16]:
			// resource change of an existing ask/allocation
			if a := g.pick(g.apps); a != "" && len(g.keys[a]) > 0 {
				op := CoreOp{Kind: "alloc", App: a, Key: g.pick(g.keys[a]), Res: g.r.res(g.ntypes, 1, 7, true), AgeSec: 3600}
				if len(c.Steps) > 0 && len(g.nodes) > 0 && rng.Chance(35) {
					// scripted: a pending ask is placed by the RM (same size), resized in place (with or without the node
					// named again), and later released or its node removed
					var pend []ObsAlloc
					for _, oa := range c.Steps[len(c.Steps)-1].Obs.Apps {
						for _, x := range oa.Requests {
							if !x.Allocated && !x.Released && !x.Ph && x.Release == "" && len(x.Res) > 0 {
								pend = append(pend, x)
							}
						}
					}
					if len(pend) > 0 {
						x := pend[rng.Intn(len(pend))]
						node := g.pick(g.nodes)
						same := CoreRes{}
						for k, v := range x.Res {
							same[k] = v
						}
						emit(CoreOp{Kind: "alloc", App: x.App, Key: x.Key, Node: node, Res: same, TaskGroup: x.TaskGroup, AgeSec: 3600})
						if rng.Chance(30) {
							emit(CoreOp{Kind: "sched"})
						}
						bigger := CoreRes{}
						for k, v := range x.Res {
							bigger[k] = max(1, v+int64(rng.Intn(5))-2)
						}
						rz := CoreOp{Kind: "alloc", App: x.App, Key: x.Key, Res: bigger, TaskGroup: x.TaskGroup, AgeSec: 3600}
						if rng.Chance(60) {
							rz.Node = node
						}
						emit(rz)
						switch rng.Intn(4) {
						case 0:
							emit(CoreOp{Kind: "release", App: x.App, Key: x.Key, TType: 1})
						case 1:
							emit(CoreOp{Kind: "node_remove", Node: node})
						}
						continue
					}
				}
				if lastPlaced[0] != "" && rng.Chance(50) {
					// follow-up on the key the RM placed last: in-place resize of that allocation
					op.App, op.Key = lastPlaced[0], lastPlaced[1]
					if rng.Chance(50) {
						op.Node = lastPlaced[2]
					}
					lastPlaced = [3]string{}
					emit(op)
					continue
				}
				if rng.Chance(45) {
					// the RM names a node: placement of a pending ask by the RM (with or without a size change), or an
					// update of a bound allocation that repeats / does not repeat its node
					op.Node = g.pick(g.nodes)
					if len(c.Steps) > 0 && rng.Chance(70) {
						// prefer a key that is still pending: only then the update is a placement by the RM
						var pend [][2]string
						for _, oa := range c.Steps[len(c.Steps)-1].Obs.Apps {
							for _, x := range oa.Requests {
								if !x.Allocated && !x.Released {
									pend = append(pend, [2]string{oa.ID, x.Key})
								}
							}
						}
						if len(pend) > 0 {
							pk := pend[rng.Intn(len(pend))]
							op.App, op.Key, a = pk[0], pk[1], pk[0]
						}
					}
					if len(c.Steps) > 0 && rng.Chance(50) {
						// same size as the stored ask: a pure placement
						for _, oa := range c.Steps[len(c.Steps)-1].Obs.Apps {
							if oa.ID != a {
								continue
							}
							for _, x := range oa.Requests {
								if x.Key == op.Key && len(x.Res) > 0 {
									op.Res = CoreRes{}
									for k, v := range x.Res {
										op.Res[k] = v
									}
									op.Ph, op.TaskGroup = x.Ph, x.TaskGroup
								}
							}
						}
					}
					lastPlaced = [3]string{op.App, op.Key, op.Node}
				}
				emit(op)
			}
		default:
			emit(g.opMalformed())
		}
	}
	// drain: a few scheduling cycles and confirmations at the end make the histories end in richer states
	for i := 0; i < 3; i++ {
		emit(CoreOp{Kind: "sched"})
	}
	return c, nil
}

// genGangDeep builds histories that reach the deep states of gang scheduling on purpose: a gang application
// with placeholders bound on nodes, real asks (smaller than or equal to the placeholders) whose replacement is
// pushed to another node by explicit predicate denials in half of the cases, and then a burst of disturbances
// while swaps are in flight (node removal, drain, application removal, shim releases with every termination
// type, timers, confirmations delivered late or twice, resource updates), interleaved with scheduling cycles.
func genGangDeep(rng *Rng, maxOps int) (*CoreCase, error) {
	ntypes := 1 + rng.Intn(2)
	root := &genQueue{name: "root", parent: true, submit: "*"}
	leaf := &genQueue{name: "q0"}
	if rng.Chance(40) {
		leaf.max = CoreRes{}
		for i := 0; i < ntypes; i++ {
			leaf.max[coreTypes[i]] = int64(20 + rng.Intn(30))
		}
	}
	if rng.Chance(30) {
		leaf.maxApps = 1 + rng.Intn(2)
	}
	root.children = []*genQueue{leaf, {name: "q1"}}
	w := CoreWorld{Configs: []string{coreConfigYAML(root, false, []string{"fair", "binpacking"}[rng.Intn(2)])}, ResDelayOn: rng.Chance(30), Seed: rng.Next()}
	c := &CoreCase{World: w}
	d, err := newCoreDriver(&c.World)
	if err != nil {
		return nil, err
	}
	c.Init = d.observe()
	g := &genState{r: rng, ntypes: ntypes, gangApps: map[string][]string{}, keys: map[string][]string{}, variant: "swap", leaves: []string{"root.q0", "root.q1"}}
	var pending []CoreEvent
	var last *CoreObs
	emit := func(op CoreOp) {
		c.Ops = append(c.Ops, op)
		st := d.step(&c.Ops[len(c.Ops)-1])
		c.Steps = append(c.Steps, st)
		last = st.Obs
		for _, e := range st.Events {
			if e.Kind == "release" && (e.TType == 2 || e.TType == 3 || e.TType == 4) {
				pending = append(pending, e)
			}
		}
	}
	nn := 2 + rng.Intn(2)
	capv := int64(10 + rng.Intn(8))
	for i := 0; i < nn; i++ {
		cp := CoreRes{}
		for t := 0; t < len(coreTypes); t++ {
			cp[coreTypes[t]] = capv // every type: a real ask may name a type its placeholder lacks
		}
		g.nextNode++
		id := fmt.Sprintf("node-%d", g.nextNode)
		g.nodes = append(g.nodes, id)
		emit(CoreOp{Kind: "node_add", Node: id, Cap: cp})
	}
	napps := 1 + rng.Intn(2)
	type gangInfo struct {
		app  string
		size CoreRes
		phs  []string
	}
	var gangs []gangInfo
	for a := 0; a < napps; a++ {
		g.nextApp++
		app := fmt.Sprintf("app-%d", g.nextApp)
		g.apps = append(g.apps, app)
		// one or two task groups; with two, group tg-a often has more real asks than placeholders so that its
		// asks meet the placeholders of tg-b in the other-node fallback
		tgs := []string{"tg-a"}
		if rng.Chance(40) {
			tgs = append(tgs, "tg-b")
		}
		sizes := map[string]CoreRes{}
		nphs := map[string]int{}
		total := CoreRes{}
		for _, tg := range tgs {
			sizes[tg] = g.r.res(ntypes, 3, 6, false)
			nphs[tg] = 1 + rng.Intn(3)
			for k, v := range sizes[tg] {
				total[k] += v * int64(nphs[tg])
			}
		}
		size := sizes["tg-a"]
		g.gangApps[app] = tgs
		emit(CoreOp{Kind: "app_add", App: app, Queue: "root.q0", User: []string{"u1", "u2"}[rng.Intn(2)], Groups: []string{"g1"}, PhAsk: total, Hard: rng.Chance(50)})
		gi := gangInfo{app: app, size: size}
		// sometimes the real asks arrive before the placeholders
		realFirst := rng.Chance(25)
		addReal := func() {
			for _, tg := range tgs {
				nreal := 1 + rng.Intn(nphs[tg]+1)
				if len(tgs) > 1 && tg == "tg-a" && rng.Chance(50) {
					nreal = nphs[tg] + 1 + rng.Intn(2)
				}
				for i := 0; i < nreal; i++ {
					r := CoreRes{}
					for k, v := range sizes[tg] {
						r[k] = max(1, v-int64(rng.Intn(3)))
					}
					if rng.Chance(10) {
						r[coreTypes[0]] = sizes[tg][coreTypes[0]] + 1 // larger than the placeholder: must cancel it
					}
					if ntypes < len(coreTypes) && rng.Chance(12) {
						r[coreTypes[ntypes]] = 1 // a resource type the placeholder does not define at all: larger as well
					}
					emit(CoreOp{Kind: "alloc", App: app, Key: g.newKey(app), Res: r, TaskGroup: tg, AgeSec: 3600, Prio: int32(rng.Intn(3))})
				}
			}
		}
		if realFirst {
			addReal()
		}
		nphAll := 0
		for _, tg := range tgs {
			for i := 0; i < nphs[tg]; i++ {
				k := g.newKey(app)
				gi.phs = append(gi.phs, k)
				emit(CoreOp{Kind: "alloc", App: app, Key: k, Res: sizes[tg], Ph: true, TaskGroup: tg, AgeSec: 3600})
				nphAll++
			}
		}
		for i := 0; i < nphAll+1; i++ {
			emit(CoreOp{Kind: "sched"})
		}
		if !realFirst {
			// explicit denials push the replacement away from the placeholder's node
			if rng.Chance(55) && last != nil {
				for _, oa := range last.Apps {
					if oa.ID != app {
						continue
					}
					for _, al := range oa.Allocs {
						if al.Ph {
							for j := 1; j <= 6; j++ {
								c.World.DenyPairs = append(c.World.DenyPairs, [2]string{fmt.Sprintf("alloc-%d", g.nextKey+j), al.Node})
							}
						}
					}
				}
			}
			addReal()
		}
		gangs = append(gangs, gi)
	}
	// disturbances while swaps are in flight
	nops := 6 + rng.Intn(maxOps/2+1)
	for i := 0; i < nops; i++ {
		x := rng.Intn(100)
		gi := gangs[rng.Intn(len(gangs))]
		switch {
		case x < 38:
			emit(CoreOp{Kind: "sched"})
		case x < 50:
			emit(g.opRelease(&pending))
		case x < 58:
			if n := g.pick(g.nodes); n != "" {
				emit(CoreOp{Kind: "node_remove", Node: n})
			}
		case x < 62:
			if n := g.pick(g.nodes); n != "" {
				emit(CoreOp{Kind: []string{"node_drain", "node_undrain"}[rng.Intn(2)], Node: n})
			}
		case x < 68:
			emit(CoreOp{Kind: "release", App: gi.app, Key: g.pick(gi.phs), TType: []int32{1, 1, 2, 4, 0, 3}[rng.Intn(6)]})
		case x < 74:
			emit(CoreOp{Kind: "fire_ph", App: gi.app})
		case x < 80:
			emit(CoreOp{Kind: "fire_state", App: gi.app})
		case x < 84:
			emit(CoreOp{Kind: "app_remove", App: gi.app})
		case x < 90:
			emit(g.opAsk())
		case x < 94:
			if len(g.keys[gi.app]) > 0 {
				emit(CoreOp{Kind: "alloc", App: gi.app, Key: g.pick(g.keys[gi.app]), Res: g.r.res(ntypes, 1, 6, false), AgeSec: 3600})
			}
		case x < 97:
			emit(g.opNodeAdd())
		default:
			emit(g.opBound())
		}
	}
	for i := 0; i < 2; i++ {
		emit(CoreOp{Kind: "sched"})
	}
	// let the state timers run out: an application that went Completing during the disturbances ends Completed here,
	// where the life-cycle clauses about outstanding asks and live allocations are judged
	if rng.Chance(60) {
		for _, gi := range gangs {
			emit(CoreOp{Kind: "fire_state", App: gi.app})
		}
		emit(CoreOp{Kind: "sched"})
	}
	return c, nil
}

// genPreemptDeep builds histories in which preemption actually happens: two leaf queues with guaranteed
// resources, a cluster filled by a low priority application of one queue, then asks of another application (under
// its guarantee, allowed to preempt others, old enough) and daemon-set style asks that require a full node;
// scheduling cycles, then confirmations of the announced releases (late, twice, never) and other disturbances.
func genPreemptDeep(rng *Rng, maxOps int) (*CoreCase, error) {
	ntypes := 1 + rng.Intn(2)
	capv := int64(8 + rng.Intn(8))
	nn := 2 + rng.Intn(2)
	g0 := CoreRes{}
	for t := 0; t < ntypes; t++ {
		g0[coreTypes[t]] = capv * int64(nn) / 2
	}
	root := &genQueue{name: "root", parent: true, submit: "*"}
	qa := &genQueue{name: "q0", guar: g0}
	qb := &genQueue{name: "q1", guar: g0}
	if rng.Chance(30) {
		// a parent level: fences and policies are inherited through it
		mid := &genQueue{name: "q2", parent: true, children: []*genQueue{{name: "c0", guar: g0}}}
		root.children = []*genQueue{qa, qb, mid}
	} else {
		root.children = []*genQueue{qa, qb}
	}
	w := CoreWorld{Configs: []string{coreConfigYAML(root, true, []string{"fair", "binpacking"}[rng.Intn(2)])}, ResDelayOn: rng.Chance(70), Seed: rng.Next()}
	// aged reservations: the wait timeout is crossed at once, so that the preemptor (initWorkingState) and
	// tryReservedAllocate meet reservations they may cancel
	w.ResWaitOn = w.ResDelayOn && rng.Chance(45)
	c := &CoreCase{World: w}
	d, err := newCoreDriver(&c.World)
	if err != nil {
		return nil, err
	}
	c.Init = d.observe()
	g := &genState{r: rng, ntypes: ntypes, gangApps: map[string][]string{}, keys: map[string][]string{}, variant: "preempt", leaves: []string{"root.q0", "root.q1"}}
	var pending []CoreEvent
	emit := func(op CoreOp) {
		c.Ops = append(c.Ops, op)
		st := d.step(&c.Ops[len(c.Ops)-1])
		c.Steps = append(c.Steps, st)
		for _, e := range st.Events {
			if e.Kind == "release" && (e.TType == 2 || e.TType == 3 || e.TType == 4) {
				pending = append(pending, e)
			}
		}
	}
	for i := 0; i < nn; i++ {
		cp := CoreRes{}
		for t := 0; t < ntypes; t++ {
			cp[coreTypes[t]] = capv
		}
		g.nextNode++
		id := fmt.Sprintf("node-%d", g.nextNode)
		g.nodes = append(g.nodes, id)
		emit(CoreOp{Kind: "node_add", Node: id, Cap: cp})
	}
	mk := func(queue, user string) string {
		g.nextApp++
		app := fmt.Sprintf("app-%d", g.nextApp)
		g.apps = append(g.apps, app)
		emit(CoreOp{Kind: "app_add", App: app, Queue: queue, User: user, Groups: []string{"g1"}})
		return app
	}
	low := mk("root.q0", "u1")
	if rng.Chance(40) {
		mk("root.q0", "u1")
	}
	// fill the cluster with small low priority allocations of queue q0 (above its guarantee)
	size := int64(1 + rng.Intn(3))
	nfill := int(capv*int64(nn)/size) + 1
	for i := 0; i < nfill; i++ {
		r := CoreRes{}
		for t := 0; t < ntypes; t++ {
			r[coreTypes[t]] = size
		}
		op := CoreOp{Kind: "alloc", App: g.apps[rng.Intn(len(g.apps))], Key: "", Res: r, AgeSec: 3600, Prio: int32(rng.Intn(2))}
		op.Key = g.newKey(op.App)
		if rng.Chance(10) {
			op.NoPreempt = true
		}
		if rng.Chance(8) {
			op.ReqNode = g.pick(g.nodes) // a daemon-set pod: never a victim
		}
		emit(op)
	}
	for i := 0; i < nfill+1; i++ {
		emit(CoreOp{Kind: "sched"})
	}
	_ = low
	high := mk("root.q1", "u2")
	nask := 1 + rng.Intn(3)
	for i := 0; i < nask; i++ {
		r := CoreRes{}
		for t := 0; t < ntypes; t++ {
			r[coreTypes[t]] = size + int64(rng.Intn(3))
		}
		op := CoreOp{Kind: "alloc", App: high, Key: g.newKey(high), Res: r, AgeSec: 3600, Prio: int32(3 + rng.Intn(3)), PreemptOther: rng.Chance(85)}
		if rng.Chance(25) {
			op.ReqNode = g.pick(g.nodes)
		}
		emit(op)
	}
	nops := 8 + rng.Intn(maxOps/2+1)
	for i := 0; i < nops; i++ {
		x := rng.Intn(100)
		switch {
		case x < 45:
			emit(CoreOp{Kind: "sched"})
		case x < 62:
			emit(g.opRelease(&pending))
		case x < 68:
			if n := g.pick(g.nodes); n != "" {
				emit(CoreOp{Kind: []string{"node_remove", "node_drain", "node_undrain"}[rng.Intn(3)], Node: n})
			}
		case x < 73:
			emit(CoreOp{Kind: "app_remove", App: g.pick(g.apps)})
		case x < 88:
			op := g.opAsk()
			if op.Kind == "alloc" && rng.Chance(60) {
				op.PreemptOther = true
				op.Prio = int32(3 + rng.Intn(3))
			}
			emit(op)
		case x < 92:
			emit(g.opNodeAdd())
		case x < 96:
			emit(g.opForeign())
		default:
			emit(CoreOp{Kind: "fire_state", App: g.pick(g.apps)})
		}
	}
	for i := 0; i < 2; i++ {
		emit(CoreOp{Kind: "sched"})
	}
	return c, nil
}

// genMaxAppsDeep scripts the churn that exercises the running-application counters on several levels: a
// parent with limit P over leaves with limits below P (and a leaf without limit, and dynamic queues two levels
// down), more applications than slots, and rounds of: ask -> schedule -> release everything (Completing) ->
// the freed slot is taken by a waiting application -> the Completing application restarts with a new ask ->
// everything released -> state timers -> removal; afterwards fresh applications must pass the gate again.
func genMaxAppsDeep(rng *Rng, maxOps int) (*CoreCase, error) {
	ntypes := 1
	root := &genQueue{name: "root", parent: true, submit: "*"}
	if rng.Chance(30) {
		root.maxApps = 2 + rng.Intn(3)
	}
	pl := 2 + rng.Intn(2)
	if root.maxApps > 0 && pl > root.maxApps {
		pl = root.maxApps
	}
	par := &genQueue{name: "p", parent: true, maxApps: pl}
	l0 := &genQueue{name: "l0", maxApps: 1 + rng.Intn(pl)}
	l1 := &genQueue{name: "l1", maxApps: 1 + rng.Intn(pl)}
	par.children = []*genQueue{l0, l1}
	dynp := &genQueue{name: "d", parent: true, dynamic: true}
	if root.maxApps > 0 || rng.Chance(50) {
		dynp.maxApps = 1 + rng.Intn(2)
		if root.maxApps > 0 && dynp.maxApps > root.maxApps {
			dynp.maxApps = root.maxApps
		}
	}
	root.children = []*genQueue{par, dynp}
	w := CoreWorld{Configs: []string{coreConfigYAML(root, false, "fair")}, Seed: rng.Next()}
	c := &CoreCase{World: w}
	d, err := newCoreDriver(&c.World)
	if err != nil {
		return nil, fmt.Errorf("initial config rejected: %v\n%s", err, w.Configs[0])
	}
	c.Init = d.observe()
	g := &genState{r: rng, ntypes: ntypes, gangApps: map[string][]string{}, keys: map[string][]string{}, variant: "maxapps"}
	g.leaves = []string{"root.p.l0", "root.p.l1", "root.d.e0.x0", "root.d.e0.x1", "root.d.y0"}
	var pending []CoreEvent
	emit := func(op CoreOp) {
		c.Ops = append(c.Ops, op)
		st := d.step(&c.Ops[len(c.Ops)-1])
		c.Steps = append(c.Steps, st)
		for _, e := range st.Events {
			if e.Kind == "release" && (e.TType == 2 || e.TType == 3 || e.TType == 4) {
				pending = append(pending, e)
			}
		}
	}
	emit(CoreOp{Kind: "node_add", Node: "node-1", Cap: CoreRes{coreTypes[0]: 100}})
	g.nodes = []string{"node-1"}
	g.nextNode = 1
	napps := 3 + rng.Intn(3)
	live := map[string][]string{} // app -> keys of asks believed outstanding/bound
	for a := 0; a < napps; a++ {
		g.nextApp++
		app := fmt.Sprintf("app-%d", g.nextApp)
		g.apps = append(g.apps, app)
		q := g.leaves[rng.Intn(len(g.leaves))]
		if a < 2 {
			q = g.leaves[rng.Intn(2)] // at least two applications compete below the limited parent
		}
		emit(CoreOp{Kind: "app_add", App: app, Queue: q, User: "u1", Groups: []string{"g1"}})
	}
	ask := func(app string) {
		k := g.newKey(app)
		live[app] = append(live[app], k)
		emit(CoreOp{Kind: "alloc", App: app, Key: k, Res: CoreRes{coreTypes[0]: 1}, AgeSec: 3600})
	}
	releaseAll := func(app string) {
		for _, k := range live[app] {
			emit(CoreOp{Kind: "release", App: app, Key: k, TType: 1})
		}
		live[app] = nil
	}
	nrounds := 3 + rng.Intn(maxOps/8+1)
	for r := 0; r < nrounds; r++ {
		switch rng.Intn(7) {
		case 0, 1:
			ask(g.pick(g.apps))
		case 2:
			releaseAll(g.pick(g.apps))
		case 3:
			// the classic: A done (Completing), waiting B takes the slot, A restarts
			a := g.pick(g.apps)
			releaseAll(a)
			emit(CoreOp{Kind: "sched"})
			emit(CoreOp{Kind: "sched"})
			ask(a)
		case 4:
			emit(CoreOp{Kind: "fire_state", App: g.pick(g.apps)})
		case 5:
			if rng.Chance(30) {
				a := g.pick(g.apps)
				emit(CoreOp{Kind: "app_remove", App: a})
				live[a] = nil
			} else {
				ask(g.pick(g.apps))
			}
		default:
			g.nextApp++
			app := fmt.Sprintf("app-%d", g.nextApp)
			g.apps = append(g.apps, app)
			emit(CoreOp{Kind: "app_add", App: app, Queue: g.pick(g.leaves), User: "u1", Groups: []string{"g1"}})
			ask(app)
		}
		for i := rng.Intn(3); i > 0; i-- {
			emit(CoreOp{Kind: "sched"})
		}
	}
	// drain: everything released, then fresh applications must pass the gate
	for _, a := range g.apps {
		releaseAll(a)
	}
	if rng.Chance(50) {
		for _, a := range g.apps {
			emit(CoreOp{Kind: "fire_state", App: a})
		}
	}
	for i := 0; i < 2; i++ {
		g.nextApp++
		app := fmt.Sprintf("app-%d", g.nextApp)
		g.apps = append(g.apps, app)
		emit(CoreOp{Kind: "app_add", App: app, Queue: g.leaves[rng.Intn(2)], User: "u1", Groups: []string{"g1"}})
		ask(app)
		emit(CoreOp{Kind: "sched"})
	}
	emit(CoreOp{Kind: "sched"})
	return c, nil
}
