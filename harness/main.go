package main

import (
	"flag"
	"fmt"
	"os"

	"go.uber.org/zap"

	"github.com/apache/yunikorn-core/pkg/log"
)

// Options shared by all engines.
type Opts struct {
	Seed    uint64
	N       int
	OutDir  string
	Replay  string
	Tier    string
	Shard   int
	Variant string
	Checker string // "Coq.Module:function" evaluated on the cases (engines that serve several properties)
}

var engines = map[string]func(o *Opts){}

func main() {
	// the scheduler logs heavily: run it with a no-op logger
	cfg := zap.NewProductionConfig()
	log.InitializeLogger(zap.NewNop(), &cfg)
	if len(os.Args) < 2 {
		fmt.Println("usage: harness <engine> [flags]")
		os.Exit(2)
	}
	eng := os.Args[1]
	fs := flag.NewFlagSet(eng, flag.ExitOnError)
	o := &Opts{}
	fs.Uint64Var(&o.Seed, "seed", 1, "seed")
	fs.IntVar(&o.N, "n", 200, "number of cases")
	fs.StringVar(&o.OutDir, "out", ".", "output directory")
	fs.StringVar(&o.Replay, "replay", "", "replay file (cases json)")
	fs.StringVar(&o.Tier, "tier", "quick", "tier")
	fs.IntVar(&o.Shard, "shard", 0, "shard number")
	fs.StringVar(&o.Variant, "variant", "", "engine specific variant")
	fs.StringVar(&o.Checker, "checker", "", "Coq module:function used as checker")
	if err := fs.Parse(os.Args[2:]); err != nil {
		os.Exit(2)
	}
	f, ok := engines[eng]
	if !ok {
		fmt.Println("unknown engine", eng)
		os.Exit(2)
	}
	f(o)
}
