package main

import (
	"fmt"
	"time"

	"github.com/apache/yunikorn-core/pkg/events"
	"github.com/apache/yunikorn-scheduler-interface/lib/go/si"
)

// StreamCase: timing of a subscriber's creation relative to event publication.
// The event goroutine performs Add(e_i); Publish(e_i) for every event. The subscriber registers (R)
// and then reads the history (H). Before events are fully processed before R; if Split, one event
// is added before R and published after R; Between events are processed between R and H (placed
// there through the verif yield hook); After events are processed after H.
type StreamCase struct {
	Cap     uint64  `json:"cap"`
	Before  int     `json:"before"`
	Split   bool    `json:"split"`
	Between int     `json:"between"`
	After   int     `json:"after"`
	Count   uint64  `json:"count"`
	Out     []int64 `json:"out"`
	Timeout bool    `json:"timeout,omitempty"`
}

func genStreamCase(rng *Rng) StreamCase {
	c := StreamCase{Cap: uint64(1 + rng.Intn(8)), Before: rng.Intn(12), Split: rng.Chance(30), After: rng.Intn(5)}
	if rng.Chance(50) {
		c.Between = rng.Intn(4)
	}
	switch rng.Intn(4) {
	case 0:
		c.Count = 0
	case 1:
		c.Count = uint64(rng.Intn(4))
	case 2:
		c.Count = c.Cap + uint64(rng.Intn(3))
	default:
		c.Count = uint64(rng.Intn(int(c.Cap) + 2))
	}
	return c
}

func runStreamCase(c *StreamCase) {
	ring := events.VerifNewRing(c.Cap)
	streaming := events.VerifNewStreaming(ring)
	n := int64(0)
	mk := func() *si.EventRecord { e := &si.EventRecord{TimestampNano: n}; n++; return e }
	emit := func() { e := mk(); ring.Add(e); streaming.PublishEvent(e) }
	for i := 0; i < c.Before; i++ {
		emit()
	}
	var split *si.EventRecord
	if c.Split {
		split = mk()
		ring.Add(split)
	}
	events.VerifStreamYield = func() {
		if split != nil {
			streaming.PublishEvent(split)
		}
		for i := 0; i < c.Between; i++ {
			emit()
		}
	}
	stream := streaming.CreateEventStream("verif", c.Count)
	events.VerifStreamYield = nil
	for i := 0; i < c.After; i++ {
		emit()
	}
	sentinel := &si.EventRecord{TimestampNano: -999}
	streaming.PublishEvent(sentinel)
	c.Out = []int64{}
	c.Timeout = false
	deadline := time.After(5 * time.Second)
loop:
	for {
		select {
		case e := <-stream.Events:
			if e == nil || e == sentinel {
				break loop
			}
			c.Out = append(c.Out, e.TimestampNano)
		case <-deadline:
			c.Timeout = true
			break loop
		}
	}
	streaming.RemoveEventStream(stream)
}

func (c *StreamCase) coq() string {
	outs := make([]string, len(c.Out))
	for i, e := range c.Out {
		outs[i] = fmt.Sprintf("%d", e)
	}
	return fmt.Sprintf("(mkStreamCase %d %d %s %d %d %d, %s)", c.Cap, c.Before, coqBool(c.Split), c.Between, c.After, c.Count, coqList(outs))
}
