package main

// Translator: regenerates coq/Generated/*.v from /repo's current source.
// (engine "extract"; -variant carries the repository path, -out the target directory)

func extractEngine(o *Opts) {
	for _, f := range extractors {
		f(o)
	}
}

var extractors []func(o *Opts)

func init() { engines["extract"] = extractEngine }
