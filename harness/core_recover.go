package main

// ---- engine "recover" (property C12): restart recovery rebuilds the same accounting ----
//
// Two executions per case. Core A runs a generated history (variant "recover": no reloads, no cleaning) and is
// stopped after a random step. The shim's knowledge is read from A's observation at that point (nodes with
// capacity and schedulable flag, live applications - re-submitted with their original request and the
// force-create tag -, bound allocations including placeholders, foreign allocations, outstanding asks) and
// replayed in a random admissible order (a node before the allocations on it, an application before its
// allocations and asks) on a fresh core B (newCoreDriver resets the ugm singleton), followed by some scheduling
// cycles on B. Emitted per case: A's state at the crash point, the replay steps on B, the continued steps on B
// (all in the observation format of coq/Core/Obs.v, one interning table per case).

import (
	"fmt"
	"path/filepath"
	"strings"
)

type recoverCase struct {
	World   CoreWorld `json:"world"`
	Ops     []CoreOp  `json:"ops"`     // the history of core A up to the crash
	Shuffle uint64    `json:"shuffle"` // seed of the replay order
	Cont    int       `json:"cont"`    // scheduling cycles on B after the replay
	Shrink  bool      `json:"shrink,omitempty"` // before the crash, lower the capacity of a node below its usage (turned into an explicit node_update op by the run)
	TightB  bool      `json:"tightb"`  // core B starts with every queue maximum, user limit and max-applications shrunk (quotas far below what is replayed)
	// filled by the run
	a      *CoreObs
	replay CoreCase
	cont   CoreCase
	nrep   int
}

type recoverCases struct {
	Cases []recoverCase `json:"cases"`
}

const recoverQueue = "root.@recovery@"

// recoverReplayOps builds what the shim re-sends, in a canonical order with the precedence relation.
func recoverReplayOps(a *CoreObs, ops []CoreOp, accepted map[string]int) (out []CoreOp, deps [][]int) {
	nodeIdx := map[string]int{}
	appIdx := map[string]int{}
	add := func(op CoreOp, d ...int) int {
		out = append(out, op)
		dd := []int{}
		for _, x := range d {
			if x >= 0 {
				dd = append(dd, x)
			}
		}
		deps = append(deps, dd)
		return len(out) - 1
	}
	idx := func(m map[string]int, k string) int {
		if i, ok := m[k]; ok {
			return i
		}
		return -1
	}
	for i := range a.Nodes {
		n := &a.Nodes[i]
		nodeIdx[n.ID] = add(CoreOp{Kind: "node_add", Node: n.ID, Cap: reloadCloneRes(n.Total), Drain: !n.Sched})
	}
	for i := range a.Apps {
		ap := &a.Apps[i]
		op := CoreOp{Kind: "app_add", App: ap.ID, Queue: ap.Queue, User: ap.User, Groups: ap.Groups}
		if j, ok := accepted[ap.ID]; ok {
			op = ops[j] // the shim re-sends the request the old core accepted
		}
		op.Forced = true
		op.Malformed = false
		appIdx[ap.ID] = add(op)
	}
	for i := range a.Apps {
		ap := &a.Apps[i]
		bound := map[string]bool{}
		for j := range ap.Allocs {
			al := &ap.Allocs[j]
			bound[al.Key] = true
			add(CoreOp{Kind: "alloc", App: ap.ID, Key: al.Key, Node: al.Node, Res: reloadCloneRes(al.Res), Ph: al.Ph, TaskGroup: al.TaskGroup, Prio: al.Prio,
				Originator: al.Originator, NoPreempt: !al.PreemptSelf, PreemptOther: al.PreemptOther, AgeSec: 3600}, idx(appIdx, ap.ID), idx(nodeIdx, al.Node))
		}
		for j := range ap.Requests {
			r := &ap.Requests[j]
			if bound[r.Key] {
				continue
			}
			// an ask the shim has not been told a binding for (pending, or allocated by an in-flight placeholder swap)
			add(CoreOp{Kind: "alloc", App: ap.ID, Key: r.Key, Res: reloadCloneRes(r.Res), Ph: r.Ph, TaskGroup: r.TaskGroup, Prio: r.Prio, ReqNode: r.ReqNode,
				Originator: r.Originator, NoPreempt: !r.PreemptSelf, PreemptOther: r.PreemptOther, AgeSec: 3600}, idx(appIdx, ap.ID))
		}
	}
	// foreign pods: what the live nodes list (the partition's own table may keep entries of removed nodes)
	for i := range a.Nodes {
		for j := range a.Nodes[i].Foreign {
			f := &a.Nodes[i].Foreign[j]
			add(CoreOp{Kind: "alloc", Key: f.Key, Node: a.Nodes[i].ID, Foreign: true, Res: reloadCloneRes(f.Res)}, idx(nodeIdx, a.Nodes[i].ID))
		}
	}
	return out, deps
}

// recoverTighten rewrites a generated configuration document: every max resource value becomes 2, every guaranteed
// value and user limit value 1, every max-applications 1 (the tree shape, names and rules stay). The result still
// satisfies the validation rules for the trees genTree builds (at most two children below a parent).
func recoverTighten(doc string) string {
	lines := strings.Split(doc, "\n")
	block := ""
	for i, l := range lines {
		t := strings.TrimSpace(l)
		switch {
		case t == "guaranteed:" || t == "max:" || t == "maxresources:":
			block = t
		case strings.HasPrefix(t, "memory:") || strings.HasPrefix(t, "vcore:") || strings.HasPrefix(t, "gpu:"):
			v := "1"
			if block == "max:" {
				v = "2"
			}
			lines[i] = l[:strings.Index(l, ":")+1] + " " + v
		case strings.HasPrefix(t, "maxapplications:"):
			lines[i] = l[:strings.Index(l, ":")+1] + " 1"
		default:
			if !strings.HasPrefix(t, "memory") {
				block = ""
			}
		}
	}
	return strings.Join(lines, "\n")
}

// recoverOrder picks a random linear extension of the precedence relation.
func recoverOrder(r *Rng, n int, deps [][]int) []int {
	done := make([]bool, n)
	var order []int
	for len(order) < n {
		var ready []int
		for i := 0; i < n; i++ {
			if done[i] {
				continue
			}
			ok := true
			for _, d := range deps[i] {
				if !done[d] {
					ok = false
				}
			}
			if ok {
				ready = append(ready, i)
			}
		}
		i := ready[r.Intn(len(ready))]
		done[i] = true
		order = append(order, i)
	}
	return order
}

func recoverRun(c *recoverCase) error {
	// core A
	da, err := newCoreDriver(&c.World)
	if err != nil {
		return err
	}
	c.a = da.observe()
	accepted := map[string]int{}
	for i := range c.Ops {
		st := da.step(&c.Ops[i])
		c.a = st.Obs
		for _, e := range st.Events {
			if e.Kind == "appaccepted" && c.Ops[i].Kind == "app_add" {
				accepted[e.App] = i
			}
		}
	}
	if c.Shrink {
		// over-commit a node: capacity drops to half of what is in use on it
		c.Shrink = false
		r := NewRng(c.Shuffle ^ 0x5bd1e995)
		var used []int
		for i := range c.a.Nodes {
			if len(c.a.Nodes[i].Allocs)+len(c.a.Nodes[i].Foreign) > 0 {
				used = append(used, i)
			}
		}
		if len(used) > 0 {
			n := &c.a.Nodes[used[r.Intn(len(used))]]
			cp := reloadCloneRes(n.Total)
			for t := range cp {
				if u := n.Allocated[t] + n.Occupied[t]; u > 0 {
					cp[t] = max(1, u/2)
				}
			}
			c.Ops = append(c.Ops, CoreOp{Kind: "node_update", Node: n.ID, Cap: cp})
			c.a = da.step(&c.Ops[len(c.Ops)-1]).Obs
		}
	}
	// the shim's knowledge and the replay order
	rops, deps := recoverReplayOps(c.a, c.Ops, accepted)
	order := recoverOrder(NewRng(c.Shuffle), len(rops), deps)
	// core B (fresh: newCoreDriver clears the user/group manager and creates a new cluster context)
	wb := c.World
	if c.TightB {
		wb.Configs = append([]string{recoverTighten(c.World.Configs[0])}, c.World.Configs[1:]...)
	}
	db, err := newCoreDriver(&wb)
	if err != nil {
		// the shrunk document does not load: restart with the unchanged configuration
		c.TightB = false
		wb = c.World
		if db, err = newCoreDriver(&wb); err != nil {
			return err
		}
	}
	c.replay = CoreCase{World: wb, Init: db.observe()}
	for _, i := range order {
		c.replay.Ops = append(c.replay.Ops, rops[i])
		c.replay.Steps = append(c.replay.Steps, db.step(&c.replay.Ops[len(c.replay.Ops)-1]))
	}
	c.nrep = len(order)
	c.cont = CoreCase{World: wb, Init: db.observe()}
	contStep := func(op CoreOp) *CoreObs {
		c.cont.Ops = append(c.cont.Ops, op)
		st := db.step(&c.cont.Ops[len(c.cont.Ops)-1])
		c.cont.Steps = append(c.cont.Steps, st)
		return st.Obs
	}
	last := c.cont.Init
	for i := 0; i < c.Cont; i++ {
		last = contStep(CoreOp{Kind: "sched"})
	}
	// the shim releases one allocation (from the most over-committed node if there is one) and an application asks
	// for slightly less than what was released: a node whose free space is booked wrongly shows it now
	var pick *ObsAlloc
	worst := int64(1 << 62)
	for i := range last.Nodes {
		n := &last.Nodes[i]
		low := int64(1 << 62)
		for _, v := range n.Available {
			if v < low {
				low = v
			}
		}
		for j := range n.Allocs {
			if a := &n.Allocs[j]; !a.Released && !a.Ph && (pick == nil || low < worst) {
				pick, worst = a, low
			}
		}
	}
	if pick != nil {
		contStep(CoreOp{Kind: "release", App: pick.App, Key: pick.Key, TType: 1})
		ask := CoreRes{}
		for t, v := range pick.Res {
			ask[t] = max(1, v-1)
		}
		contStep(CoreOp{Kind: "alloc", App: pick.App, Key: "after-restart-1", Res: ask, AgeSec: 3600})
		contStep(CoreOp{Kind: "alloc", App: pick.App, Key: "after-restart-2", Res: CoreRes{coreTypes[0]: 1}, AgeSec: 3600})
		for i := 0; i < 3; i++ {
			contStep(CoreOp{Kind: "sched"})
		}
	}
	return nil
}

func recoverGenCase(rng *Rng, maxOps int) (*recoverCase, error) {
	c, err := genCoreCase(rng.Fork(), maxOps, "recover")
	if err != nil {
		return nil, err
	}
	// crash point: anywhere, biased towards the later (richer) states
	k := 1 + rng.Intn(len(c.Ops))
	if rng.Chance(60) {
		k = len(c.Ops)/2 + rng.Intn(len(c.Ops)-len(c.Ops)/2) + 1
	}
	if k > len(c.Ops) {
		k = len(c.Ops)
	}
	rc := &recoverCase{World: c.World, Ops: append([]CoreOp{}, c.Ops[:k]...), Shuffle: rng.Next(), Cont: 2 + rng.Intn(3), TightB: rng.Chance(50), Shrink: rng.Chance(45)}
	if err := recoverRun(rc); err != nil {
		return nil, err
	}
	return rc, nil
}

const recoverRequires = `From YK Require Import Base.Res Core.Obs Core.Recover Oracles.CoreC12.
From Coq Require Import List ZArith NArith. Import ListNotations. Open Scope N_scope.
`

func (c *recoverCase) nontrivial() bool {
	n := 0
	for i := range c.a.Apps {
		n += len(c.a.Apps[i].Allocs)
	}
	return n >= 2
}

func recoverEngine(o *Opts) {
	rng := NewRng(o.Seed)
	st := NewStats("recover", o.Seed, "random core histories (variant recover: nodes, applications incl. gang and forced, asks, recovered and foreign allocations, releases and late confirmations, scheduling cycles, timers) stopped at a random step; the shim's knowledge read from the observation is replayed in a random admissible order on a fresh core, followed by scheduling cycles; non-trivial = at least two bound allocations at the crash point; distinct by hash of the history, crash point and replay order")
	var all recoverCases
	if o.Replay != "" {
		readJSON(o.Replay, &all)
		for i := range all.Cases {
			if err := recoverRun(&all.Cases[i]); err != nil {
				panic(err)
			}
		}
	} else {
		maxOps := 45
		if o.Tier == "thorough" {
			maxOps = 110
		}
		for i := 0; i < o.N; i++ {
			c, err := recoverGenCase(rng.Fork(), maxOps)
			if err != nil {
				st.Count("config-rejected")
				continue
			}
			all.Cases = append(all.Cases, *c)
		}
	}
	var b strings.Builder
	b.WriteString(recoverRequires)
	checker := "c12_check_all"
	if o.Checker != "" {
		parts := strings.SplitN(o.Checker, ":", 2)
		b.WriteString("From YK Require Import " + parts[0] + ".\n")
		checker = parts[1]
	}
	names := []string{}
	for i := range all.Cases {
		c := &all.Cases[i]
		em := newCoreEmitter()
		acase := CoreCase{World: c.World, Init: c.a}
		b.WriteString(em.history(&acase, fmt.Sprintf("a%d", i)))
		b.WriteString(em.history(&c.replay, fmt.Sprintf("r%d", i)))
		b.WriteString(em.history(&c.cont, fmt.Sprintf("k%d", i)))
		names = append(names, fmt.Sprintf("mkRC (h_init a%d) r%d k%d %s", i, i, i, em.n(recoverQueue)))
		inflight := false
		for j := range c.a.Apps {
			ap := &c.a.Apps[j]
			bound := map[string]bool{}
			for _, al := range ap.Allocs {
				bound[al.Key] = true
				if al.Ph {
					st.Count("replay.placeholder")
				} else {
					st.Count("replay.bound")
				}
			}
			for _, r := range ap.Requests {
				if !bound[r.Key] {
					st.Count("replay.ask")
					if r.Allocated {
						inflight = true
					}
				}
			}
			if ap.Forced {
				st.Count("replay.app-forced-in-A")
			}
		}
		st.Distribution["replay.apps"] += len(c.a.Apps)
		if c.TightB {
			st.Count("restart.with-shrunk-quotas")
		}
		for j := range c.a.Nodes {
			for _, v := range c.a.Nodes[j].Available {
				if v < 0 {
					st.Count("crash.overcommitted-node")
					break
				}
			}
		}
		if inflight {
			st.Count("crash.inflight-swap")
		}
		st.Distribution["replay.nodes"] += len(c.a.Nodes)
		for j := range c.a.Nodes {
			st.Distribution["replay.foreign"] += len(c.a.Nodes[j].Foreign)
		}
		for j := range c.replay.Steps {
			s := &c.replay.Steps[j]
			if s.Panic != "" {
				st.Panics++
				st.Count("panic")
			}
			for _, e := range s.Events {
				st.Count("replay.ev." + e.Kind)
			}
		}
		for j := range c.cont.Steps {
			for _, e := range c.cont.Steps[j].Events {
				st.Count("cont.ev." + e.Kind)
			}
		}
		canon := fmt.Sprintf("%v %d %v", c.Ops, c.Shuffle, c.World.Configs)
		st.Case(canon, c.nontrivial(), map[string]any{"a_ops": len(c.Ops), "replayed": c.nrep, "cont": c.Cont})
	}
	b.WriteString("Definition cases : list rccase := [" + strings.Join(names, ";\n  ") + "].\n")
	b.WriteString("Definition M := Eval vm_compute in " + checker + " cases.\nPrint M.\n")
	base := filepath.Join(o.OutDir, fmt.Sprintf("cases_recover_%d", o.Shard))
	writeFile(base+".v", b.String())
	writeJSON(base+".json", all)
	st.CasesFile, st.CasesJSON = base+".v", base+".json"
	st.Write(base + ".stats.json")
}

func init() { engines["recover"] = recoverEngine }
