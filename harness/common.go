package main

import (
	"crypto/sha256"
	"encoding/hex"
	"encoding/json"
	"fmt"
	"os"
	"sort"
	"strings"
)

// splitmix64: every random choice of the harness derives from one state.
type Rng struct{ s uint64 }

func NewRng(seed uint64) *Rng {
	// scramble the seed so that neighbouring seeds give unrelated streams
	r := &Rng{s: seed ^ 0x5DEECE66D}
	a := r.Next()
	b := r.Next()
	return &Rng{s: a*0xD1B54A32D192ED03 ^ (b >> 7)}
}
func (r *Rng) Next() uint64 {
	r.s += 0x9E3779B97F4A7C15
	z := r.s
	z = (z ^ (z >> 30)) * 0xBF58476D1CE4E5B9
	z = (z ^ (z >> 27)) * 0x94D049BB133111EB
	return z ^ (z >> 31)
}
func (r *Rng) Intn(n int) int {
	if n <= 0 {
		return 0
	}
	return int(r.Next() % uint64(n))
}
func (r *Rng) Bool() bool        { return r.Next()&1 == 1 }
func (r *Rng) Chance(p int) bool { return r.Intn(100) < p } // p percent
func (r *Rng) Fork() *Rng        { return NewRng(r.Next()) }

// Stats collected per engine run and written as JSON for the driver / evidence file.
type Stats struct {
	Engine             string         `json:"engine"`
	Seed               uint64         `json:"seed"`
	Evaluations        int            `json:"evaluations"`
	DistinctNontrivial int            `json:"distinct_nontrivial"`
	Rule               string         `json:"rule"`
	Samples            []any          `json:"samples"`
	Distribution       map[string]int `json:"distribution"`
	Panics             int            `json:"panics"`
	CasesFile          string         `json:"cases_file"`
	CasesJSON          string         `json:"cases_json"`
	Extra              map[string]any `json:"extra,omitempty"`
	seen               map[string]bool
}

func NewStats(engine string, seed uint64, rule string) *Stats {
	return &Stats{Engine: engine, Seed: seed, Rule: rule, Distribution: map[string]int{}, seen: map[string]bool{}, Extra: map[string]any{}}
}
func (s *Stats) Count(k string) { s.Distribution[k]++ }
func (s *Stats) Case(canon string, nontrivial bool, sample any) {
	s.Evaluations++
	if nontrivial {
		h := sha256.Sum256([]byte(canon))
		k := hex.EncodeToString(h[:8])
		if !s.seen[k] {
			s.seen[k] = true
			s.DistinctNontrivial++
		}
	}
	if len(s.Samples) < 3 && nontrivial {
		s.Samples = append(s.Samples, sample)
	}
}
func (s *Stats) Write(path string) {
	b, err := json.MarshalIndent(s, "", " ")
	if err != nil {
		panic(err)
	}
	if err := os.WriteFile(path, b, 0o644); err != nil {
		panic(err)
	}
}

func writeJSON(path string, v any) {
	b, err := json.MarshalIndent(v, "", " ")
	if err != nil {
		panic(err)
	}
	if err := os.WriteFile(path, b, 0o644); err != nil {
		panic(err)
	}
}

func readJSON(path string, v any) {
	b, err := os.ReadFile(path)
	if err != nil {
		panic(err)
	}
	if err := json.Unmarshal(b, v); err != nil {
		panic(err)
	}
}

// ---- Gallina term printing helpers ----
func coqN(n uint64) string { return fmt.Sprintf("%d%%N", n) }
func coqZ(n int64) string {
	if n < 0 {
		return fmt.Sprintf("(%d)%%Z", n)
	}
	return fmt.Sprintf("%d%%Z", n)
}
func coqBool(b bool) string {
	if b {
		return "true"
	}
	return "false"
}
func coqList(items []string) string { return "[" + strings.Join(items, "; ") + "]" }
func coqOpt(some bool, s string) string {
	if !some {
		return "None"
	}
	return "(Some " + s + ")"
}

// coqString renders a byte string as a Coq list of N byte values (no string scope pitfalls).
func coqBytes(s string) string {
	items := make([]string, len(s))
	for i := 0; i < len(s); i++ {
		items[i] = fmt.Sprintf("%d", s[i])
	}
	return "[" + strings.Join(items, ";") + "]%N"
}

func sortedKeys[V any](m map[string]V) []string {
	ks := make([]string, 0, len(m))
	for k := range m {
		ks = append(ks, k)
	}
	sort.Strings(ks)
	return ks
}

// CasesFile writes a cases .v file: header, a list definition and the evaluation command.
func writeCasesV(path, requires, typ, checker string, cases []string) {
	var b strings.Builder
	b.WriteString(requires)
	b.WriteString("\nDefinition cases : list " + typ + " := [\n")
	for i, c := range cases {
		if i > 0 {
			b.WriteString(";\n")
		}
		b.WriteString(" " + c)
	}
	b.WriteString("\n].\n")
	b.WriteString("Definition M := Eval vm_compute in " + checker + " cases.\nPrint M.\n")
	if err := os.WriteFile(path, []byte(b.String()), 0o644); err != nil {
		panic(err)
	}
}

func writeFile(path, s string) {
	if err := os.WriteFile(path, []byte(s), 0o644); err != nil {
		panic(err)
	}
}
