package main

// ---- engine "conc": orchestration (parent / child processes), emission of the cases file ----
//
// The parent process only orchestrates: the runs happen in child processes (the same binary, variant "child"),
// a few cases per child, so that a run that dies with a fatal runtime error (concurrent map access) or leaves
// goroutines blocked becomes an observation of that case instead of a harness failure. In the thorough tier a
// second harness binary is built with -race and some batches are run with it.

import (
	"bufio"
	"encoding/json"
	"fmt"
	"os"
	"os/exec"
	"path/filepath"
	"sort"
	"strings"
	"syscall"
	"time"
)

const concRequires = `From YK Require Import Base.Res Core.Obs Conc.LockOrder Oracles.ConcCheck.
From Coq Require Import List ZArith NArith. Import ListNotations. Open Scope N_scope.
`

var concVariants = []string{"", "gang", "reserve", "reload", "maxapps", ""}

type ConcCases struct {
	Cases []ConcCase `json:"cases"`
	Notes []string   `json:"notes,omitempty"`
}

// one line of a child's output file
type concLine struct {
	Case ConcCase `json:"case"`
	Coq  string   `json:"coq"`
}

// concLedgerConfig: three leaves, two of them under a shared parent, generous maxima (the limit check of
// TryIncAllocatedResource runs on every level)
const concLedgerConfig = `partitions:
  - name: default
    placementrules:
      - name: provided
        create: false
    nodesortpolicy:
      type: fair
    preemption:
      enabled: false
    queues:
      - name: root
        submitacl: "*"
        queues:
          - name: p
            parent: true
            resources:
              max:
                memory: 100000
                vcore: 100000
            queues:
              - name: a
              - name: b
                resources:
                  max:
                    memory: 50000
                    vcore: 50000
          - name: c
`

// concGenLedger builds the LEDGER workload: many small asks of six applications in leaves root.p.a, root.p.b (shared
// parent) and root.c on three large nodes, scheduled by the scheduling loop (queue increments) while the RM goroutine
// releases bound allocations (queue decrements) and registers already bound allocations (increments from the RM side).
// The releases are event driven: the mock shim releases an allocation after the core announced it (ReleaseAfterAlloc), so
// the recorded window "release between tryAllocate and PartitionContext.allocate" cannot be hit; nothing is removed,
// reloaded, cleaned, updated or timed out. Several hundred queue increments / decrements per run.
func concGenLedger(rng *Rng, tier string) *ConcCase {
	c := &ConcCase{World: CoreWorld{Configs: []string{concLedgerConfig}, Seed: rng.Next()}, YieldSeed: rng.Next() | 1, Mode: "conc", Ledger: true, ReleaseAfterAlloc: 60 + rng.Intn(35)}
	for n := 1; n <= 3; n++ {
		c.Ops = append(c.Ops, CoreOp{Kind: "node_add", Node: fmt.Sprintf("node-%d", n), Cap: CoreRes{"memory": 3000, "vcore": 3000}})
	}
	leaves := []string{"root.p.a", "root.p.b", "root.c", "root.p.a", "root.p.b", "root.c"}
	for a := 1; a <= 6; a++ {
		c.Ops = append(c.Ops, CoreOp{Kind: "app_add", App: fmt.Sprintf("app-%d", a), Queue: leaves[a-1], User: []string{"u1", "u2", "u3"}[a%3], Groups: []string{"g1"}})
	}
	// one more application per user in root.c with an allocation the RM bound and never releases: the user trackers never
	// become empty (see ConcCase.StableUsers)
	c.StableUsers = true
	for u := 1; u <= 3; u++ {
		app := fmt.Sprintf("app-keep-%d", u)
		c.Ops = append(c.Ops, CoreOp{Kind: "app_add", App: app, Queue: "root.c", User: fmt.Sprintf("u%d", u), Groups: []string{"g1"}})
		c.Ops = append(c.Ops, CoreOp{Kind: "alloc", App: app, Key: fmt.Sprintf("keep-%d", u), Node: fmt.Sprintf("node-%d", u), Res: CoreRes{"memory": 1, "vcore": 1}, AgeSec: 3600})
	}
	nasks := 160 + rng.Intn(80)
	if tier == "thorough" {
		nasks = 260 + rng.Intn(120)
	}
	type bound struct {
		at       int
		app, key string
	}
	var pendingRel []bound
	for k := 1; k <= nasks; k++ {
		app := fmt.Sprintf("app-%d", 1+rng.Intn(6))
		key := fmt.Sprintf("alloc-%d", k)
		op := CoreOp{Kind: "alloc", App: app, Key: key, Res: CoreRes{"memory": int64(1 + rng.Intn(3)), "vcore": int64(1 + rng.Intn(2))}, AgeSec: 3600, Prio: int32(rng.Intn(3))}
		if rng.Chance(12) {
			// an allocation the RM already bound (recovery path): the RM goroutine increments the queues itself and
			// releases it some operations later
			op.Node = fmt.Sprintf("node-%d", 1+rng.Intn(3))
			pendingRel = append(pendingRel, bound{at: k + 3 + rng.Intn(12), app: app, key: key})
		}
		c.Ops = append(c.Ops, op)
		rest := pendingRel[:0]
		for _, b := range pendingRel {
			if b.at <= k {
				c.Ops = append(c.Ops, CoreOp{Kind: "release", App: b.app, Key: b.key, TType: 1})
			} else {
				rest = append(rest, b)
			}
		}
		pendingRel = rest
	}
	return c
}

// concTrigger: the workload contains an operation of the kinds behind the recorded ledger-drift findings.
// full workloads: application / node removal, reload, queue cleaning, timers, resource update of an existing key;
// calm workloads: a release generated blindly (not in answer to an allocation event), which can hit the window between
// Application.tryAllocate and PartitionContext.allocate.
func concTrigger(c *ConcCase) bool {
	if c.Ledger || c.Ugm {
		return false
	}
	seen := map[string]bool{}
	for _, op := range c.Ops {
		switch op.Kind {
		case "app_remove", "node_remove", "reload", "clean", "fire_ph", "fire_state":
			return true
		case "release":
			if !strings.HasPrefix(op.Key, "foreign-") {
				return true
			}
		case "alloc":
			if seen[op.Key] {
				return true
			}
			seen[op.Key] = true
		}
	}
	return false
}

// workload classes by case index (i mod 6): 0 calm, 1 ledger, 2 full, 3 first-use (ugm), 4 ledger with a tight maximum, 5 full
func concGen(rng *Rng, i int, tier string) (*ConcCase, error) {
	knob := os.Getenv("CONC_CLASS") // development knob: calm, ledger, ledgermax, ugm, full
	if (knob == "" && i%6 == 1) || knob == "ledger" || (knob == "" && i%6 == 4) || knob == "ledgermax" {
		var c *ConcCase
		if (knob == "" && i%6 == 4) || knob == "ledgermax" {
			c = concGenLedgerMax(rng, tier)
		} else {
			c = concGenLedger(rng, tier)
		}
		if i%30 == 4 {
			c.YieldSeed = 0
		}
		c.GoDeadlock = i%15 == 7
		return c, nil
	}
	if (knob == "" && i%6 == 3) || knob == "ugm" {
		c := concGenUgm(rng, tier)
		c.GoDeadlock = i%30 == 9
		return c, nil
	}
	maxOps := 130
	if tier == "thorough" {
		maxOps = 220
	}
	variant := concVariants[(i/2)%len(concVariants)]
	cc, err := genCoreCase(rng.Fork(), maxOps, variant)
	if err != nil {
		return nil, err
	}
	c := &ConcCase{World: cc.World, YieldSeed: rng.Next() | 1, Mode: "conc"}
	seenForeign := map[string]bool{}
	drop := map[string]bool{}
	for _, k := range strings.Split(os.Getenv("CONC_DROP"), ",") { // development knob: op kinds left out of the workload
		drop[k] = true
	}
	// every third case is a CALM workload: no application removal, reload, node removal, timers, queue cleaning, gang
	// scheduling or resource updates of existing allocations (the operations behind the recorded ledger-drift findings);
	// its final state is judged strictly. The other cases use the full mix.
	calm := (knob == "" && i%6 == 0) || knob == "calm"
	c.Calm = calm
	seenKey := map[string]bool{}
	for _, op := range cc.Ops {
		if drop[op.Kind] {
			continue
		}
		if calm {
			switch op.Kind {
			case "app_remove", "reload", "node_remove", "node_drain", "fire_ph", "fire_state", "clean":
				continue
			case "app_add":
				op.PhAsk = nil
			case "release":
				// no blind releases: the mock shim releases allocations in answer to the allocation event instead
				// (ReleaseAfterAlloc), a blind release can hit the recorded window between tryAllocate and allocate
				if !strings.HasPrefix(op.Key, "foreign-") {
					continue
				}
			case "alloc":
				if op.Ph || seenKey[op.Key] {
					continue
				}
				seenKey[op.Key] = true
				op.TaskGroup = ""
			}
		}
		// a foreign allocation re-sent under another node id is known finding C01-foreign-moved (sequential):
		// keep the first submission of each foreign key only
		if op.Kind == "alloc" && op.Foreign {
			if seenForeign[op.Key] {
				continue
			}
			seenForeign[op.Key] = true
		}
		c.Ops = append(c.Ops, op)
	}
	switch {
	case i%10 == 8 || i%10 == 5:
		c.Mode = "seq" // baseline run of the same kind of workload from one goroutine
	case i%10 == 2:
		c.YieldSeed = 0 // no wrapper yields: the Go scheduler's own interleavings
	}
	c.GoDeadlock = i%5 == 2
	if calm {
		c.ReleaseAfterAlloc = 50
	}
	c.Trigger = concTrigger(c)
	return c, nil
}

func concCoqEdges(res *ConcResult) string {
	var items []string
	for _, e := range res.Edges {
		seen := map[int]bool{}
		for _, r := range e.Roles {
			id := concRoleID[r]
			if !seen[id] {
				seen[id] = true
				items = append(items, fmt.Sprintf("(%d,(%d,%d))", id, e.From, e.To))
			}
		}
	}
	var b strings.Builder
	for i, it := range items {
		if i > 0 {
			b.WriteString("; ")
			if i%16 == 0 {
				b.WriteString("\n    ")
			}
		}
		b.WriteString(it)
	}
	return "[" + b.String() + "]"
}

// workload class as emitted to Coq: 0 full, 1 calm, 2 ledger, 3 first use of users / groups
func concClass(c *ConcCase) int {
	switch {
	case c.Ugm:
		return 3
	case c.Ledger:
		return 2
	case c.Calm:
		return 1
	}
	return 0
}

func concCoqCase(c *ConcCase) string {
	res := c.Result
	cyc := []string{}
	for _, e := range res.Cycle {
		cyc = append(cyc, fmt.Sprintf("%d", e.From))
	}
	final := "empty_state"
	em := newCoreEmitter()
	if res.Observed && res.Final != nil {
		final = em.obs(res.Final)
	}
	users := make([]string, 0, len(c.UserGroups))
	for u := range c.UserGroups {
		users = append(users, u)
	}
	sort.Strings(users)
	ug := make([]string, len(users))
	for i, u := range users {
		ug[i] = fmt.Sprintf("(%s, %s)", em.n(u), em.n(c.UserGroups[u]))
	}
	npanic := len(res.Panics)
	if res.Fatal != "" {
		npanic++
	}
	var b strings.Builder
	singles := make([]string, len(concSingleRoles))
	for i, r := range concSingleRoles {
		singles[i] = fmt.Sprint(r)
	}
	ranks := []string{}
	for v := 1; v <= len(res.Locks); v++ {
		if rk, ok := res.Rank[v]; ok {
			ranks = append(ranks, fmt.Sprintf("(%d,%d%%nat)", v, rk))
		}
	}
	b.WriteString("(mkConc\n   " + concCoqEdges(res) + "\n   [" + strings.Join(singles, "; ") + "] [" + strings.Join(ranks, "; ") + "]\n   [" + strings.Join(cyc, "; ") + "] " + fmt.Sprint(concClass(c)) + " " + coqBool(c.Trigger) + " " + coqBool(res.Observed) + "\n   " + final + "\n   ")
	b.WriteString(fmt.Sprintf("%d %d %d %d\n   %s split_baseline %s [%s] %s", len(res.Blocked), len(res.GoDeadlock), npanic, len(res.Races),
		concCoqSplits(res), coqBool(res.SplitMonitor || !res.Observed), strings.Join(ug, "; "), em.nlist(c.MaxStrict)) + " " + coqBool(c.StableUsers) + ")")
	return b.String()
}

// class-level relation as a comment in the cases file (information only)
func concClassComment(res *ConcResult) string {
	keys := make([]string, 0, len(res.ClassEdges))
	for k := range res.ClassEdges {
		keys = append(keys, k)
	}
	sort.Strings(keys)
	items := make([]string, len(keys))
	for i, k := range keys {
		items[i] = fmt.Sprintf("%s x%d", k, res.ClassEdges[k])
	}
	return "(* class-level nesting: " + strings.Join(items, ", ") + " *)\n"
}

// ---- child: runs cases, one JSON line per finished case ----
func concChild(o *Opts) {
	outPath := filepath.Join(o.OutDir, fmt.Sprintf("conc_child_%d.jsonl", o.Shard))
	curPath := filepath.Join(o.OutDir, fmt.Sprintf("conc_child_%d.current.json", o.Shard))
	f, err := os.Create(outPath)
	if err != nil {
		panic(err)
	}
	defer f.Close()
	var cases []ConcCase
	if o.Replay != "" {
		var all ConcCases
		readJSON(o.Replay, &all)
		cases = all.Cases
	}
	raceLog := os.Getenv("CONC_RACE_LOG")
	raceSeen := 0
	rng := NewRng(o.Seed)
	n := o.N
	if o.Replay != "" {
		n = len(cases)
	}
	// the index of the case in the whole run decides mode / variant
	base := 0
	fmt.Sscanf(os.Getenv("CONC_BASE_INDEX"), "%d", &base)
	for i := 0; i < n; i++ {
		var c *ConcCase
		if o.Replay != "" {
			c = &cases[i]
			c.Result = nil
			// a fact about the workload, not an observation: recomputed (pinned cases stored before the field existed)
			c.Trigger = concTrigger(c)
		} else {
			// a generated world can be rejected by the sequential pre-run of the core generator: try again (the
			// generator has advanced), so that the mix of workload classes stays as planned
			for attempt := 0; attempt < 8; attempt++ {
				c, err = concGen(rng, base+i, o.Tier)
				if err == nil {
					break
				}
			}
			if err != nil {
				continue
			}
		}
		writeJSON(curPath, c)
		c.Result = runConcCase(c)
		if raceLog != "" {
			reports := concRaceReports(raceLog)
			if len(reports) > raceSeen {
				c.Result.Races = reports[raceSeen:]
				raceSeen = len(reports)
			}
		}
		line, err := json.Marshal(concLine{Case: *c, Coq: concCoqCase(c)})
		if err != nil {
			panic(err)
		}
		_, _ = f.Write(append(line, '\n'))
		_ = f.Sync()
		_ = os.Remove(curPath)
		if len(c.Result.Blocked) > 0 {
			// goroutines of the core are stuck (and may hold locks): this process cannot run further cases
			os.Exit(3)
		}
	}
}

// concRaceReports reads the race detector's log files (GORACE log_path=<prefix>; the runtime appends .<pid>).
func concRaceReports(prefix string) []string {
	files, _ := filepath.Glob(prefix + ".*")
	var out []string
	for _, fn := range files {
		b, err := os.ReadFile(fn)
		if err != nil {
			continue
		}
		for _, part := range strings.Split(string(b), "==================") {
			if strings.Contains(part, "WARNING: DATA RACE") {
				if len(part) > 6000 {
					part = part[:6000]
				}
				out = append(out, strings.TrimSpace(part))
			}
		}
	}
	return out
}

func concTail(s string, n int) string {
	if len(s) > n {
		return s[len(s)-n:]
	}
	return s
}

func concHead(s string, n int) string {
	if len(s) > n {
		return s[:n]
	}
	return s
}

// ---- parent ----
type concBatch struct {
	bin     string
	seed    uint64
	n       int
	base    int
	replay  string
	race    bool
	timeout time.Duration
}

func concRunBatch(o *Opts, tmp string, k int, b concBatch) (lines []concLine, note string) {
	args := []string{"conc", "-variant", "child", "-seed", fmt.Sprint(b.seed), "-n", fmt.Sprint(b.n), "-out", tmp, "-shard", fmt.Sprint(k), "-tier", o.Tier}
	if b.replay != "" {
		args = append(args, "-replay", b.replay)
	}
	cmd := exec.Command(b.bin, args...)
	cmd.Env = append(os.Environ(), fmt.Sprintf("CONC_BASE_INDEX=%d", b.base), "GOTRACEBACK=all")
	if b.race {
		pref := filepath.Join(tmp, fmt.Sprintf("race_%d", k))
		cmd.Env = append(cmd.Env, "GORACE=halt_on_error=0 exitcode=0 log_path="+pref, "CONC_RACE_LOG="+pref)
	}
	var out strings.Builder
	cmd.Stdout, cmd.Stderr = &out, &out
	err := cmd.Start()
	if err != nil {
		return nil, "child did not start: " + err.Error()
	}
	done := make(chan error, 1)
	go func() { done <- cmd.Wait() }()
	killed := false
	select {
	case err = <-done:
	case <-time.After(b.timeout):
		killed = true
		// SIGQUIT makes the Go runtime print all goroutine stacks before exiting
		_ = cmd.Process.Signal(syscall.SIGQUIT)
		select {
		case err = <-done:
		case <-time.After(5 * time.Second):
			_ = cmd.Process.Kill()
			err = <-done
		}
	}
	outPath := filepath.Join(tmp, fmt.Sprintf("conc_child_%d.jsonl", k))
	if f, e := os.Open(outPath); e == nil {
		sc := bufio.NewScanner(f)
		sc.Buffer(make([]byte, 1<<20), 1<<28)
		for sc.Scan() {
			var l concLine
			if json.Unmarshal(sc.Bytes(), &l) == nil {
				lines = append(lines, l)
			}
		}
		f.Close()
	}
	curPath := filepath.Join(tmp, fmt.Sprintf("conc_child_%d.current.json", k))
	if _, e := os.Stat(curPath); e == nil && (err != nil || killed) {
		// the child died while running this case
		var c ConcCase
		readJSON(curPath, &c)
		res := &ConcResult{Counters: map[string]uint64{}, ClassEdges: map[string]uint64{}}
		text := out.String()
		if killed {
			res.Blocked = []string{"child process killed by the parent watchdog after " + b.timeout.String()}
			res.Dump = concTail(text, 20000)
		} else {
			res.Fatal = concHead(text, 12000)
		}
		c.Result = res
		lines = append(lines, concLine{Case: c, Coq: concCoqCase(&c)})
		_ = os.Remove(curPath)
	} else if killed || err != nil {
		ee, isExit := err.(*exec.ExitError)
		if killed || !isExit || ee.ExitCode() != 3 {
			// the child stopped outside a run (while generating the next workload, which executes it on a
			// sequential core first): reported as a case of its own so that it cannot get lost
			res := &ConcResult{Counters: map[string]uint64{}, ClassEdges: map[string]uint64{}}
			if killed {
				res.Blocked = []string{"child process blocked outside a concurrent run (sequential pre-run of the next workload); killed by the parent after " + b.timeout.String()}
				res.Dump = concTail(out.String(), 20000)
			} else {
				res.Fatal = concHead(out.String(), 12000)
			}
			c := ConcCase{Mode: "seq", Result: res}
			lines = append(lines, concLine{Case: c, Coq: concCoqCase(&c)})
			note = fmt.Sprintf("child %d stopped outside a run (killed=%v err=%v)", k, killed, err)
		}
	}
	return lines, note
}

// concRaceBinary builds the harness with -race next to the normal one (thorough tier). "" + reason when not possible.
func concRaceBinary() (string, string) {
	self, err := os.Executable()
	if err != nil {
		return "", "os.Executable: " + err.Error()
	}
	src := filepath.Join(filepath.Dir(self), "harness_src")
	if _, err := os.Stat(filepath.Join(src, "go.mod")); err != nil {
		return "", "harness source directory not found next to the binary (private development build): race run skipped"
	}
	if _, err := exec.LookPath("gcc"); err != nil {
		return "", "gcc not available: the race detector needs cgo; race run skipped"
	}
	bin := filepath.Join(filepath.Dir(self), "harness-race")
	cmd := exec.Command("go", "build", "-race", "-tags", "verif", "-o", bin, ".")
	cmd.Dir = src
	env := []string{}
	for _, e := range os.Environ() {
		if !strings.HasPrefix(e, "CGO_ENABLED=") && !strings.HasPrefix(e, "GOFLAGS=") && !strings.HasPrefix(e, "GOPROXY=") && !strings.HasPrefix(e, "GOTOOLCHAIN=") && !strings.HasPrefix(e, "GOSUMDB=") {
			env = append(env, e)
		}
	}
	cmd.Env = append(env, "CGO_ENABLED=1", "GOFLAGS=-mod=mod", "GOPROXY=off", "GOTOOLCHAIN=auto")
	out, err := cmd.CombinedOutput()
	if err != nil {
		return "", "go build -race failed (race run skipped): " + concTail(string(out), 800)
	}
	return bin, ""
}

func concEngine(o *Opts) {
	if o.Variant == "child" {
		concChild(o)
		return
	}
	self, err := os.Executable()
	if err != nil {
		panic(err)
	}
	st := NewStats("conc", o.Seed, "concurrent runs of the real scheduler core: a generated core history (nodes, applications incl. gang, asks, releases, reloads, timers) split over the goroutines of the real service (rm, node, infra, scheduling loop, background checks, partition manager, timers, two REST readers, mock shim) with seed-driven yields in the lock wrapper; every 10th case runs the same work from one goroutine (baseline); traced lock nesting relation + final state after quiescence; non-trivial = at least one nested lock request from two different goroutine roles and at least two allocations; distinct by hash of the edge classes and ops")
	tmp, err := os.MkdirTemp(o.OutDir, "conc_tmp_")
	if err != nil {
		panic(err)
	}
	defer os.RemoveAll(tmp)
	var lines []concLine
	var notes []string
	const batchSize = 6
	perCase := 30 * time.Second
	if o.Replay != "" {
		var all ConcCases
		readJSON(o.Replay, &all)
		ls, note := concRunBatch(o, tmp, 0, concBatch{bin: self, seed: o.Seed, replay: o.Replay, timeout: time.Duration(len(all.Cases)+1) * perCase})
		lines = append(lines, ls...)
		if note != "" {
			notes = append(notes, note)
		}
	} else {
		k := 0
		for base := 0; base < o.N; base += batchSize {
			n := batchSize
			if base+n > o.N {
				n = o.N - base
			}
			ls, note := concRunBatch(o, tmp, k, concBatch{bin: self, seed: o.Seed*7919 + uint64(k), n: n, base: base, timeout: time.Duration(n+1) * perCase})
			lines = append(lines, ls...)
			if note != "" {
				notes = append(notes, note)
			}
			k++
		}
		if o.Tier == "thorough" {
			raceBin, why := concRaceBinary()
			if raceBin == "" {
				notes = append(notes, "race detector: "+why)
				st.Count("race.skipped")
			} else {
				nr := o.N / 2
				for base := 0; base < nr; base += batchSize {
					n := batchSize
					if base+n > nr {
						n = nr - base
					}
					ls, note := concRunBatch(o, tmp, k, concBatch{bin: raceBin, seed: o.Seed*104729 + uint64(k), n: n, base: base, race: true, timeout: time.Duration(n+1) * 4 * perCase})
					for i := range ls {
						st.Count("race.cases")
						_ = i
					}
					lines = append(lines, ls...)
					if note != "" {
						notes = append(notes, note)
					}
					k++
				}
			}
		} else {
			notes = append(notes, "race detector: not run in the quick tier (thorough tier builds a second harness with -race)")
		}
	}

	var all ConcCases
	var b strings.Builder
	b.WriteString(concRequires)
	sbase := concBaseline()
	bids := []string{}
	for _, id := range sbase.ids() {
		bids = append(bids, fmt.Sprint(id))
	}
	b.WriteString(fmt.Sprintf("(* reviewed split critical sections: %s (%d entries) *)\n", sbase.Path, len(bids)))
	b.WriteString("Definition split_baseline : list N := [" + strings.Join(bids, "; ") + "].\n")
	if sbase.Path == "" {
		notes = append(notes, "corpus/conc_split_baseline.json not found: every split critical section counts as new")
	}
	names := []string{}
	for i := range lines {
		c := &lines[i].Case
		res := c.Result
		name := fmt.Sprintf("c%d", i)
		b.WriteString(fmt.Sprintf("(* case %d: mode=%s yieldseed=%d godeadlock=%v locks=%d edges=%d *)\n", i, c.Mode, c.YieldSeed, c.GoDeadlock, len(res.Locks), len(res.Edges)))
		b.WriteString(concClassComment(res))
		b.WriteString("Definition " + name + " : conc_case := " + lines[i].Coq + ".\n")
		names = append(names, name)
		all.Cases = append(all.Cases, *c)
		// statistics
		st.Count("mode." + c.Mode)
		st.Count([]string{"workload.full", "workload.calm", "workload.ledger", "workload.firstuse"}[concClass(c)])
		if len(c.MaxStrict) > 0 {
			st.Count("workload.ledger.tight.maximum")
		}
		if c.StableUsers {
			st.Count("workload.stable.users")
		}
		for _, sp := range res.Splits {
			st.Distribution["split."+sp.Key] += int(sp.Count)
		}
		for k, v := range res.ForeignSplits {
			st.Distribution["foreign_split."+k] += int(v)
		}
		for _, k := range res.NewSplits {
			st.Count("split.NEW " + k)
		}
		if !res.SplitMonitor && res.Observed {
			st.Count("split.monitor.unavailable")
		}
		if c.Trigger {
			st.Count("workload.with.trigger.ops")
		}
		if c.GoDeadlock {
			st.Count("godeadlock.enabled")
		}
		if c.YieldSeed == 0 {
			st.Count("yields.off")
		}
		for _, op := range c.Ops {
			st.Count("op." + op.Kind)
		}
		roles := map[string]bool{}
		classes := []string{}
		for _, e := range res.Edges {
			for _, r := range e.Roles {
				roles[r] = true
			}
		}
		for k, v := range res.ClassEdges {
			classes = append(classes, k)
			st.Distribution["nest."+k] += int(v)
		}
		sort.Strings(classes)
		for k, v := range res.Counters {
			st.Distribution["sum."+k] += int(v)
		}
		if len(res.Cycle) > 0 {
			st.Count("cycle")
		}
		if len(res.Excused) > 0 {
			st.Count("cases.with.single.role.cycle")
		}
		if len(res.Reentries) > 0 {
			st.Count("cases.with.reentrant.rlock")
		}
		if !res.Settled {
			st.Count("not.settled")
		}
		if !res.Observed {
			st.Count("not.observed")
		}
		if len(res.Panics) > 0 || res.Fatal != "" {
			st.Panics++
		}
		canon := fmt.Sprintf("%v|%v", classes, c.Ops)
		st.Case(canon, len(roles) >= 2 && res.Counters["allocations"] >= 2, map[string]any{"mode": c.Mode, "ops": len(c.Ops), "locks": len(res.Locks), "edges": len(res.Edges),
			"counters": res.Counters, "class_edges": res.ClassEdges})
	}
	b.WriteString("Definition cases : list conc_case := [" + strings.Join(names, "; ") + "].\n")
	b.WriteString("Definition M := Eval vm_compute in conc_check_all cases.\nPrint M.\n")
	all.Notes = notes
	base := filepath.Join(o.OutDir, fmt.Sprintf("cases_conc_%d", o.Shard))
	writeFile(base+".v", b.String())
	writeJSON(base+".json", all)
	st.CasesFile, st.CasesJSON = base+".v", base+".json"
	st.Extra["notes"] = notes
	st.Write(base + ".stats.json")
	for _, n := range notes {
		fmt.Println("note:", n)
	}
}

func init() { engines["conc"] = concEngine }
