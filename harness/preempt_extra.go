package main

import (
	"fmt"
	"sort"

	"github.com/apache/yunikorn-core/pkg/scheduler/objects"
)

// ---- round 2: boundary-value scenario streams of the preempt engine ----
//
// stream "extra": small worlds aimed at the second pass of calculateVictimsByNode, populateVictims,
// calculateAdditionalVictims, isVictimQueueOverGuaranteed and GetRemainingGuaranteedResource: the ask and the victims
// use different resource types and sizes, several victim queues sit just above / at / just below their guarantee on
// different types, the victims are spread over the chosen node and other nodes, the ask queue can absorb exactly /
// almost the victims.
//
// stream "qtime": quota histories of 2-4 reloads of max and delay on one queue with virtual-clock probes just before
// and at every start time a correct or a slightly wrong setPreemptionTime could have computed.

func preemptPick(rng *Rng, weights ...int) int {
	total := 0
	for _, w := range weights {
		total += w
	}
	x := rng.Intn(total)
	for i, w := range weights {
		if x < w {
			return i
		}
		x -= w
	}
	return len(weights) - 1
}

func preemptCopyRes(m map[string]int64) map[string]int64 {
	if m == nil {
		return nil
	}
	out := make(map[string]int64, len(m))
	for k, v := range m {
		out[k] = v
	}
	return out
}

// genPreemptExtra: see the comment at the top of the file.
func genPreemptExtra(rng *Rng, st *Stats) PreemptCase {
	switch preemptPick(rng, 76, 12, 12) {
	case 1:
		return genPreemptExtraParentLimited(rng, st)
	case 2:
		return genPreemptExtraTail(rng, st)
	}
	ntypes := 2 + rng.Intn(2)
	types := preemptTypes[:ntypes]
	// the ask: one or two types, rarely all
	ask := map[string]int64{}
	switch preemptPick(rng, 50, 35, 15) {
	case 0:
		ask[types[rng.Intn(ntypes)]] = int64(1 + rng.Intn(6))
	case 1:
		a := rng.Intn(ntypes)
		ask[types[a]] = int64(1 + rng.Intn(6))
		ask[types[(a+1+rng.Intn(ntypes-1))%ntypes]] = int64(1 + rng.Intn(6))
	default:
		for _, t := range types {
			ask[t] = int64(1 + rng.Intn(6))
		}
	}
	askTypes := sortedKeys(ask)
	otherTypes := []string{}
	for _, t := range types {
		if _, ok := ask[t]; !ok {
			otherTypes = append(otherTypes, t)
		}
	}
	// queue tree
	qs := []objects.VerifPreemptQueueSpec{{Name: "root", Parent: -1, Managed: true, Properties: map[string]string{}}}
	parent := 0
	if rng.Chance(40) {
		qs = append(qs, objects.VerifPreemptQueueSpec{Name: "p", Parent: 0, Managed: true, Properties: map[string]string{}})
		parent = 1
	}
	nv := 2 + rng.Intn(2)
	askName, vNames := "a", []string{"b", "c", "d"}
	if rng.Chance(25) { // queue names that are string prefixes of each other (HasPrefix test of the snapshot)
		askName, vNames = "ab", []string{"a", "abc", "b"}
	}
	qs = append(qs, objects.VerifPreemptQueueSpec{Name: askName, Parent: parent, Leaf: true, Managed: true, Properties: map[string]string{}})
	askLeaf := len(qs) - 1
	vLeaves := []int{}
	for i := 0; i < nv; i++ {
		p := parent
		if parent != 0 && rng.Chance(30) {
			p = 0
		}
		props := map[string]string{}
		switch preemptPick(rng, 88, 6, 6) {
		case 1:
			props["preemption.policy"] = "disabled"
		case 2:
			props["preemption.policy"] = "fence"
		}
		qs = append(qs, objects.VerifPreemptQueueSpec{Name: vNames[i], Parent: p, Leaf: true, Managed: !rng.Chance(5), Properties: props})
		vLeaves = append(vLeaves, len(qs)-1)
	}
	// victims
	nn := 2 + rng.Intn(2)
	mode := preemptPick(rng, 35, 45, 20) // 0: every node has room for the ask, 1: node 0 is full, 2: anything
	// node 0 lacks ONE type of the ask only: victims without that type do not reduce the shortfall (tail of the first pass)
	// and are looked at again after the others by the second pass
	shortType := ""
	if mode == 1 && len(askTypes) > 1 && rng.Chance(60) {
		shortType = askTypes[rng.Intn(len(askTypes))]
	}
	allocs := []objects.VerifPreemptAllocSpec{}
	victimRes := func() map[string]int64 {
		r := map[string]int64{}
		size := func() int64 { return int64(1 + rng.Intn(6)) }
		k := preemptPick(rng, 25, 40, 20, 8, 7)
		if k == 1 && len(otherTypes) == 0 {
			k = 0
		}
		if k == 3 && len(otherTypes) == 0 {
			k = 4
		}
		switch k {
		case 0: // the types of the ask
			for _, t := range askTypes {
				r[t] = size()
			}
		case 1: // one type of the ask and one the ask does not use
			r[askTypes[rng.Intn(len(askTypes))]] = size()
			r[otherTypes[rng.Intn(len(otherTypes))]] = size()
		case 2: // all types
			for _, t := range types {
				r[t] = size()
			}
		case 3: // nothing in common with the ask
			r[otherTypes[rng.Intn(len(otherTypes))]] = size()
		default: // a single type of the ask
			r[askTypes[rng.Intn(len(askTypes))]] = size()
		}
		return r
	}
	for _, l := range vLeaves {
		n := 1 + rng.Intn(3)
		if shortType != "" {
			n = 2 + rng.Intn(2)
		}
		for j := 0; j < n; j++ {
			node := rng.Intn(nn)
			if mode == 1 && rng.Chance(55) {
				node = 0
			}
			res := victimRes()
			if shortType != "" && rng.Chance(70) {
				node = 0
				res = map[string]int64{}
				for _, t := range askTypes {
					if (t == shortType) == (j%2 == 0) || rng.Chance(15) {
						res[t] = int64(1 + rng.Intn(6))
					}
				}
				if len(res) == 0 {
					res[shortType] = int64(1 + rng.Intn(6))
				}
			}
			allocs = append(allocs, objects.VerifPreemptAllocSpec{Queue: l, App: fmt.Sprintf("app-q%d-%d", l, rng.Intn(2)), Node: node, Res: res,
				Priority: int32(rng.Intn(5)), AllowPreemptSelf: rng.Chance(50), Originator: rng.Chance(6), RequiredNode: rng.Chance(3),
				Released: rng.Chance(3), Preempted: rng.Chance(4)})
			if rng.Chance(4) {
				allocs[len(allocs)-1].Priority = 7 // outranks the ask
			}
		}
	}
	if rng.Chance(40) { // the ask queue has usage of its own
		r := map[string]int64{}
		for _, t := range askTypes {
			r[t] = int64(1 + rng.Intn(4))
		}
		allocs = append(allocs, objects.VerifPreemptAllocSpec{Queue: askLeaf, App: fmt.Sprintf("app-q%d-0", askLeaf), Node: rng.Intn(nn), Res: r, Priority: 1, AllowPreemptSelf: true})
	}
	ages := preemptGenAges(rng, len(allocs))
	for i := range allocs {
		allocs[i].Key = fmt.Sprintf("alloc-%d", i)
		allocs[i].AgeSec = ages[i]
	}
	// usage per queue and per node
	usage := make([]map[string]int64, len(qs))
	for i := range usage {
		usage[i] = map[string]int64{}
	}
	used := make([]map[string]int64, nn)
	for i := range used {
		used[i] = map[string]int64{}
	}
	for _, a := range allocs {
		for k, v := range a.Res {
			used[a.Node][k] += v
			for q := a.Queue; q >= 0; q = qs[q].Parent {
				usage[q][k] += v
			}
		}
	}
	someSize := func(q int, t string) int64 {
		c := []int64{}
		for _, a := range allocs {
			if a.Queue == q && a.Res[t] > 0 {
				c = append(c, a.Res[t])
			}
		}
		if len(c) == 0 {
			return 1
		}
		return c[rng.Intn(len(c))]
	}
	// victim queues: guaranteed just below / at / just above the usage, type by type
	for _, l := range vLeaves {
		if rng.Chance(15) {
			continue // no guarantee at all
		}
		g := map[string]int64{}
		if shortType != "" && rng.Chance(60) {
			// over the guarantee for the type node 0 lacks by exactly one victim that has it, not over for the other types of the
			// ask: once that victim is gone the victims without that type (tail of the first pass) must be refused by the second pass
			for _, t := range askTypes {
				u := usage[l][t]
				switch {
				case t == shortType:
					g[t] = max(u-someSize(l, t), 0)
				case rng.Chance(65):
					g[t] = u + int64(rng.Intn(3))
				}
			}
			qs[l].Guaranteed = g
			continue
		}
		for _, t := range types {
			u := usage[l][t]
			switch preemptPick(rng, 30, 15, 15, 25, 15) {
			case 0: // above the guarantee by one of its allocations (or by one): taking it reaches the guarantee exactly
				x := someSize(l, t)
				if rng.Chance(35) {
					x = 1
				}
				g[t] = max(u-x, 0)
			case 1:
				g[t] = u
			case 2:
				g[t] = u + int64(1+rng.Intn(3))
			case 3: // type without guarantee
			default:
				g[t] = 0
			}
		}
		qs[l].Guaranteed = g
	}
	// the ask queue: room for the ask plus exactly / almost / more than some victims
	{
		g := map[string]int64{}
		for _, t := range askTypes {
			extra := int64(0)
			v := vLeaves[rng.Intn(len(vLeaves))]
			switch preemptPick(rng, 15, 25, 15, 20, 25) {
			case 0:
			case 1:
				extra = someSize(v, t)
			case 2:
				extra = max(someSize(v, t)-1, 0)
			case 3:
				extra = someSize(v, t) + someSize(vLeaves[rng.Intn(len(vLeaves))], t)
			default:
				extra = 30
			}
			g[t] = usage[askLeaf][t] + ask[t] + extra
			if rng.Chance(6) {
				g[t] = max(usage[askLeaf][t]+ask[t]-1, 0) // the ask does not fit any more
			}
		}
		if len(askTypes) > 1 && rng.Chance(15) { // adding a victim of that type only does not change the remaining guarantee
			delete(g, askTypes[rng.Intn(len(askTypes))])
		}
		for _, t := range otherTypes {
			switch preemptPick(rng, 60, 25, 15) {
			case 1:
				g[t] = 30
			case 2:
				g[t] = int64(rng.Intn(4))
			}
		}
		qs[askLeaf].Guaranteed = g
	}
	if parent != 0 {
		switch preemptPick(rng, 50, 25, 25) {
		case 1: // parent guarantee near the usage below it
			g := map[string]int64{}
			for _, t := range types {
				if rng.Chance(70) {
					g[t] = max(usage[parent][t]+int64(rng.Intn(5))-2, 0)
				}
			}
			qs[parent].Guaranteed = g
		case 2:
			g := map[string]int64{}
			for _, t := range types {
				g[t] = usage[parent][t] + 40
			}
			qs[parent].Guaranteed = g
		}
		if rng.Chance(25) { // a parent maximum: the preemption fence by projected max
			m := map[string]int64{}
			for _, t := range types {
				m[t] = usage[parent][t] + []int64{0, 3, 50}[rng.Intn(3)]
			}
			qs[parent].Max = m
		}
	}
	// nodes
	nodes := make([]objects.VerifPreemptNodeSpec, nn)
	for i := range nodes {
		tot := map[string]int64{}
		kind := 0 // 0 room for the ask, 1 full, 2 too small for the ask, 3 random slack
		switch {
		case mode == 0:
			kind = 0
		case mode == 1 && i == 0:
			kind = 1
		case mode == 1:
			kind = preemptPick(rng, 25, 35, 25, 15)
		default:
			kind = preemptPick(rng, 30, 30, 15, 25)
		}
		for _, t := range types {
			tot[t] = used[i][t]
		}
		switch kind {
		case 0:
			for _, t := range types {
				tot[t] += ask[t] + []int64{0, 0, 1, 3}[rng.Intn(4)]
			}
		case 1:
			short := askTypes[rng.Intn(len(askTypes))]
			if i == 0 && shortType != "" {
				short = shortType
			}
			for _, t := range askTypes {
				switch {
				case t == short:
					tot[t] += []int64{0, ask[t] - 1}[rng.Intn(2)]
				case i == 0 && shortType != "":
					tot[t] += ask[t] + int64(rng.Intn(2))
				default:
					tot[t] += []int64{0, ask[t] - 1, ask[t], ask[t] + 2}[rng.Intn(4)]
				}
			}
		case 2:
			t := askTypes[rng.Intn(len(askTypes))]
			if used[i][t] < ask[t] {
				tot[t] = max(ask[t]-1, used[i][t])
			}
		default:
			for _, t := range types {
				tot[t] += int64(rng.Intn(5))
			}
		}
		for _, t := range types {
			if tot[t] == 0 && rng.Chance(50) {
				delete(tot, t)
			}
		}
		if len(tot) == 0 {
			tot[askTypes[0]] = ask[askTypes[0]]
		}
		nodes[i] = objects.VerifPreemptNodeSpec{ID: fmt.Sprintf("n%d", i), Total: tot, Schedulable: !rng.Chance(4)}
	}
	if rng.Chance(60) {
		total := map[string]int64{}
		for _, n := range nodes {
			for k, v := range n.Total {
				total[k] += v
			}
		}
		qs[0].Max = total
	}
	spec := objects.VerifPreemptWorldSpec{Queues: qs, Nodes: nodes, Allocs: allocs, AttemptFrequencyMs: 15000}
	spec.Ask = objects.VerifPreemptAskSpec{Key: "ask", App: fmt.Sprintf("app-q%d-ask", askLeaf), Queue: askLeaf, Res: ask, Priority: 5,
		AllowPreemptOther: true, RequiredNode: -1, AgeMs: 1000000, CheckAgeMs: -1}
	pl := make([]PreemptPlugin, nn)
	for i := range pl {
		pl[i] = PreemptPlugin{Pred: true, Ok: true}
		if rng.Chance(10) {
			pl[i] = preemptGenPlugin(rng, 1)[0]
		}
		if i == 0 && shortType != "" && rng.Chance(50) {
			pl[i].Delta = 1 // the shim wants one victim more than the start index: a victim from behind the index is taken
		}
	}
	st.Count(fmt.Sprintf("extra.gen.mode_%d", mode))
	if shortType != "" {
		st.Count("extra.gen.one_short_type")
	}
	return PreemptCase{Stream: "extra", Spec: spec, Plugin: pl, NodesTried: rng.Chance(30)}
}

func preemptExtraAsk(leaf int, res map[string]int64) objects.VerifPreemptAskSpec {
	return objects.VerifPreemptAskSpec{Key: "ask", App: fmt.Sprintf("app-q%d-ask", leaf), Queue: leaf, Res: res, Priority: 5,
		AllowPreemptOther: true, RequiredNode: -1, AgeMs: 1000000, CheckAgeMs: -1}
}

func preemptExtraFinish(rng *Rng, qs []objects.VerifPreemptQueueSpec, nodes []objects.VerifPreemptNodeSpec, allocs []objects.VerifPreemptAllocSpec,
	askLeaf int, ask map[string]int64) PreemptCase {
	ages := preemptGenAges(rng, len(allocs))
	for i := range allocs {
		allocs[i].Key = fmt.Sprintf("alloc-%d", i)
		if allocs[i].AgeSec == 0 {
			allocs[i].AgeSec = ages[i]
		}
	}
	spec := objects.VerifPreemptWorldSpec{Queues: qs, Nodes: nodes, Allocs: allocs, AttemptFrequencyMs: 15000, Ask: preemptExtraAsk(askLeaf, ask)}
	pl := make([]PreemptPlugin, len(nodes))
	for i := range pl {
		pl[i] = PreemptPlugin{Pred: true, Ok: true}
		if rng.Chance(8) {
			pl[i].Delta = 1
		}
	}
	return PreemptCase{Stream: "extra", Spec: spec, Plugin: pl, NodesTried: rng.Chance(30)}
}

// genPreemptExtraTail: node 0 lacks ONE type of the ask. A victim without that type does not reduce the shortfall: the first
// pass of calculateVictimsByNode keeps it for the tail and puts it back. Its queue is over the guarantee by exactly one victim
// that has the type; once that one is taken (head) the second pass must refuse the tail victim. The shim sometimes asks for
// one victim more than the start index.
func genPreemptExtraTail(rng *Rng, st *Stats) PreemptCase {
	st.Count("extra.gen.tail")
	S, O := "r0", "r1"
	if rng.Bool() {
		S, O = O, S
	}
	mk := func(name string, parent int, leaf bool) objects.VerifPreemptQueueSpec {
		return objects.VerifPreemptQueueSpec{Name: name, Parent: parent, Leaf: leaf, Managed: true, Properties: map[string]string{}}
	}
	qs := []objects.VerifPreemptQueueSpec{mk("root", -1, false), mk("a", 0, true), mk("b", 0, true), mk("c", 0, true)}
	askLeaf := 1
	allocs := []objects.VerifPreemptAllocSpec{}
	age := int64(10)
	young := func() int64 { age += 3; return age }
	use := map[int]map[string]int64{2: {}, 3: {}}
	add := func(l int, r map[string]int64, self bool, a int64) {
		allocs = append(allocs, objects.VerifPreemptAllocSpec{Queue: l, App: fmt.Sprintf("app-q%d-0", l), Node: 0, Res: r, Priority: int32(rng.Intn(4)), AllowPreemptSelf: self, AgeSec: a})
		for k, v := range r {
			use[l][k] += v
		}
	}
	// queue b: the tail victim (sorted first: opted in and young), then the head victim
	xh := int64(1 + rng.Intn(4))
	tailFirst := rng.Chance(85)
	if tailFirst {
		add(2, map[string]int64{O: int64(1 + rng.Intn(4))}, true, young())
		add(2, map[string]int64{S: xh}, rng.Chance(50), 100+young())
	} else {
		add(2, map[string]int64{S: xh}, true, young())
		add(2, map[string]int64{O: int64(1 + rng.Intn(4))}, rng.Chance(50), 100+young())
	}
	if rng.Chance(40) {
		add(2, map[string]int64{O: int64(1 + rng.Intn(3))}, rng.Chance(50), 200+young())
	}
	// queue c: anything
	for j := 0; j < rng.Intn(3); j++ {
		add(3, preemptGenResNonEmpty(rng, 2, 1, 4, 70), rng.Chance(50), 300+young())
	}
	// either the node has nothing of the short type and the head victim covers it, or the node lacks one unit only and the ask
	// is larger than the head victim (the final filter of TryPreemption then keeps collecting victims behind it)
	almost := rng.Chance(80)
	ask := map[string]int64{S: max(xh-int64(rng.Intn(2)), 1), O: int64(1 + rng.Intn(3))}
	if almost {
		ask[S] = xh + []int64{0, 1, 1, 2, 2}[rng.Intn(5)]
	}
	// over the guarantee for the short type by exactly the head victim (sometimes by one more / one less), not over for the other type
	qs[2].Guaranteed = map[string]int64{S: max(use[2][S]-xh+[]int64{0, 0, 0, 1, -1}[rng.Intn(5)], 0)}
	switch preemptPick(rng, 40, 30, 30) {
	case 1:
		qs[2].Guaranteed[O] = use[2][O]
	case 2:
		qs[2].Guaranteed[O] = use[2][O] + 2
	}
	if rng.Chance(70) {
		qs[3].Guaranteed = map[string]int64{S: int64(rng.Intn(3)), O: int64(rng.Intn(3))}
	}
	qs[askLeaf].Guaranteed = map[string]int64{S: ask[S] + 30, O: ask[O] + []int64{30, 30, 30, 2}[rng.Intn(4)]}
	used := map[string]int64{}
	for _, a := range allocs {
		for k, v := range a.Res {
			used[k] += v
		}
	}
	n0 := map[string]int64{S: used[S], O: used[O] + ask[O] + int64(rng.Intn(2))}
	if almost {
		n0[S] += ask[S] - 1
	}
	n1 := map[string]int64{S: max(ask[S]-1, 0), O: ask[O]}
	if n1[S] == 0 {
		delete(n1, S)
	}
	nodes := []objects.VerifPreemptNodeSpec{{ID: "n0", Total: n0, Schedulable: true}, {ID: "n1", Total: n1, Schedulable: true}}
	c := preemptExtraFinish(rng, qs, nodes, allocs, askLeaf, ask)
	c.Plugin[0] = PreemptPlugin{Pred: true, Ok: true}
	if rng.Chance(75) {
		c.Plugin[0].Delta = 1
	}
	return c
}

// genPreemptExtraParentLimited: the ask queue has no guarantee of its own and lives on what its parent has left; the parent
// is over its guarantee for one type of the ask. Victims inside the parent can give that back (the guarantee check passes),
// victims outside it are moved to the ask queue by calculateAdditionalVictims, which makes the parent worse: the final
// check of that pass fails and the attempt must be abandoned.
func genPreemptExtraParentLimited(rng *Rng, st *Stats) PreemptCase {
	st.Count("extra.gen.parent_limited")
	t0, t1 := "r0", "r1"
	mk := func(name string, parent int, leaf bool) objects.VerifPreemptQueueSpec {
		return objects.VerifPreemptQueueSpec{Name: name, Parent: parent, Leaf: leaf, Managed: true, Properties: map[string]string{}}
	}
	// root -> p -> (a: ask, b: victims with the second type); root -> c: victims of the first type only
	qs := []objects.VerifPreemptQueueSpec{mk("root", -1, false), mk("p", 0, false), mk("a", 1, true), mk("b", 1, true), mk("c", 0, true)}
	askLeaf := 2
	ask := map[string]int64{t0: int64(1 + rng.Intn(4)), t1: int64(1 + rng.Intn(3))}
	allocs := []objects.VerifPreemptAllocSpec{}
	age := int64(10)
	useC := int64(0)
	for j := 0; j < 1+rng.Intn(3); j++ { // young victims outside the parent: looked at first by the additional pass
		sz := int64(1 + rng.Intn(4))
		useC += sz
		allocs = append(allocs, objects.VerifPreemptAllocSpec{Queue: 4, App: "app-q4-0", Node: rng.Intn(2), Res: map[string]int64{t0: sz},
			Priority: int32(rng.Intn(4)), AllowPreemptSelf: true, AgeSec: age})
		age += 3
	}
	useT1, useT0 := int64(0), int64(0)
	for j := 0; j < 1+rng.Intn(3); j++ {
		r := map[string]int64{t1: int64(1 + rng.Intn(4))}
		if rng.Chance(40) {
			r[t0] = int64(1 + rng.Intn(3))
		}
		useT1 += r[t1]
		useT0 += r[t0]
		allocs = append(allocs, objects.VerifPreemptAllocSpec{Queue: 3, App: "app-q3-0", Node: rng.Intn(2), Res: r,
			Priority: int32(rng.Intn(4)), AllowPreemptSelf: rng.Chance(40), AgeSec: 100 + age})
		age += 3
	}
	// the parent is over its guarantee for the second type by x; its victims can give back that much and the ask (or not quite)
	x := int64(1 + rng.Intn(2))
	if x+ask[t1] > useT1 && rng.Chance(75) {
		x = 1
		ask[t1] = max(useT1-x, 1)
	}
	qs[1].Guaranteed = map[string]int64{t0: useT0 + 40, t1: max(useT1-x, 0)}
	switch preemptPick(rng, 70, 15, 15) {
	case 1: // exactly at its guarantee / room for the ask
		qs[1].Guaranteed[t1] = useT1 + []int64{0, ask[t1]}[rng.Intn(2)]
	case 2: // the ask queue has a guarantee of its own after all: the parent is not looked at
		qs[askLeaf].Guaranteed = map[string]int64{t0: ask[t0] + 20}
	}
	// the outside queue is over its own guarantee for the first type
	qs[4].Guaranteed = map[string]int64{t0: max(useC-[]int64{1, 2, useC}[rng.Intn(3)], 0)}
	if rng.Chance(15) {
		qs[4].Guaranteed[t0] = useC // not over
	}
	if rng.Chance(30) {
		qs[3].Guaranteed = map[string]int64{t1: int64(rng.Intn(3))}
	}
	used := []map[string]int64{{}, {}}
	for _, a := range allocs {
		for k, v := range a.Res {
			used[a.Node][k] += v
		}
	}
	nodes := make([]objects.VerifPreemptNodeSpec, 2)
	for i := range nodes {
		tot := map[string]int64{t0: used[i][t0] + ask[t0] + int64(rng.Intn(2)), t1: used[i][t1] + ask[t1] + int64(rng.Intn(2))}
		if i == 1 && rng.Chance(30) {
			tot[t0] = used[i][t0] + ask[t0] - 1 // no room for the first type
		}
		nodes[i] = objects.VerifPreemptNodeSpec{ID: fmt.Sprintf("n%d", i), Total: tot, Schedulable: true}
	}
	return preemptExtraFinish(rng, qs, nodes, allocs, askLeaf, ask)
}

// ---- stream "qtime" ----

func preemptResIsZero(m map[string]int64) bool {
	for _, v := range m {
		if v != 0 {
			return false
		}
	}
	return true
}

// max.StrictlyGreaterThanOrEqualsOnlyExisting(usage), as far as the generator needs it
func preemptWithin(mx, usage map[string]int64) bool {
	for k, v := range mx {
		if u, ok := usage[k]; ok && u > v {
			return false
		}
	}
	return true
}

func preemptResEquals(a, b map[string]int64) bool {
	if (a == nil) != (b == nil) {
		return false
	}
	for k, v := range a {
		if b[k] != v {
			return false
		}
	}
	for k, v := range b {
		if a[k] != v {
			return false
		}
	}
	return true
}

func preemptResGreater(l, s map[string]int64) bool {
	ne := false
	for k, v := range l {
		if s[k] > v {
			return false
		}
		if s[k] != v {
			ne = true
		}
	}
	for k, v := range s {
		if l[k] < v {
			return false
		}
		if l[k] != v {
			ne = true
		}
	}
	return ne
}

// preemptQTMirror is the generator's idea of what the documented behaviour is: the quota preemption of the queue is due
// at (time of the change that armed it) + (delay in force). It only places the probes; the verdict is the checker's.
type preemptQTMirror struct {
	now, delay, arm int64 // seconds; arm < 0: not armed
	max, usage      map[string]int64
	managed         bool
}

func (m *preemptQTMirror) over() bool {
	return !preemptResIsZero(m.max) && !preemptWithin(m.max, m.usage)
}

func (m *preemptQTMirror) reload(newMax map[string]int64, newDelay int64) (oldDelay int64) {
	old := m.max
	oldDelay = m.delay
	m.max, m.delay = newMax, newDelay
	if newDelay == 0 || !m.over() {
		m.arm = -1
		return
	}
	if preemptResEquals(old, newMax) {
		if m.arm < 0 && oldDelay == 0 {
			m.arm = m.now
		}
		return
	}
	if preemptResGreater(old, newMax) && m.arm < 0 {
		m.arm = m.now
	}
	return
}

func (m *preemptQTMirror) addUsage(r map[string]int64, enabled bool) {
	for k, v := range r {
		m.usage[k] += v
	}
	if enabled && m.arm < 0 && m.managed && m.delay != 0 && m.over() {
		m.arm = m.now
	}
}

func (m *preemptQTMirror) trigger() {
	if !m.managed {
		return
	}
	if !m.over() {
		m.arm = -1
		return
	}
	if m.arm >= 0 && m.now >= m.arm+m.delay {
		m.arm = -1
	}
}

func preemptDelayStr(sec int64) string {
	if sec < 0 {
		return ""
	}
	return fmt.Sprintf("%ds", sec)
}

// genPreemptQTime: see the comment at the top of the file.
func genPreemptQTime(rng *Rng, st *Stats) PreemptQuoCase {
	ntypes := 1 + rng.Intn(2)
	types := preemptTypes[:ntypes]
	qs := []objects.VerifPreemptQueueSpec{{Name: "root", Parent: -1, Managed: true, Properties: map[string]string{}}}
	parent := 0
	if rng.Chance(40) {
		qs = append(qs, objects.VerifPreemptQueueSpec{Name: "p", Parent: 0, Managed: true, Properties: map[string]string{}})
		parent = 1
	}
	qs = append(qs, objects.VerifPreemptQueueSpec{Name: "l", Parent: parent, Leaf: true, Managed: true, Properties: map[string]string{}})
	leaf := len(qs) - 1
	leaves := []int{leaf}
	if rng.Chance(35) {
		qs = append(qs, objects.VerifPreemptQueueSpec{Name: "s", Parent: parent, Leaf: true, Managed: true, Properties: map[string]string{}})
		leaves = append(leaves, len(qs)-1)
	}
	target := leaf
	if parent != 0 && rng.Chance(35) {
		target = parent
	}
	if target == leaf && rng.Chance(8) {
		qs[leaf].Managed = false // dynamic queue: never runs
	}
	nodeTotal := map[string]int64{}
	for _, t := range types {
		nodeTotal[t] = 200
	}
	nodes := []objects.VerifPreemptNodeSpec{{ID: "n0", Total: nodeTotal, Schedulable: true}}
	allocs := []objects.VerifPreemptAllocSpec{}
	n := 2 + rng.Intn(4)
	ages := preemptGenAges(rng, n)
	for i := 0; i < n; i++ {
		l := leaf
		if len(leaves) > 1 && rng.Chance(30) {
			l = leaves[1]
		}
		allocs = append(allocs, objects.VerifPreemptAllocSpec{Key: fmt.Sprintf("alloc-%d", i), App: fmt.Sprintf("app-q%d-0", l), Queue: l, Node: 0,
			Res: preemptGenResNonEmpty(rng, ntypes, 1, 6, 85), Priority: int32(rng.Intn(3)), AllowPreemptSelf: rng.Chance(50), AgeSec: ages[i]})
	}
	usage := map[string]int64{}
	for _, a := range allocs {
		inTarget := a.Queue == target
		for q := a.Queue; q >= 0 && !inTarget; q = qs[q].Parent {
			inTarget = q == target
		}
		if inTarget {
			for k, v := range a.Res {
				usage[k] += v
			}
		}
	}
	if len(usage) == 0 { // nothing under the target: give it one allocation
		allocs[0].Queue, allocs[0].App = leaf, fmt.Sprintf("app-q%d-0", leaf)
		for k, v := range allocs[0].Res {
			usage[k] += v
		}
	}
	uTypes := sortedKeys(usage)
	delays := []int64{5, 10, 20, 30, 60, 120, 300}
	m := &preemptQTMirror{arm: -1, usage: usage, managed: qs[target].Managed}
	// initial configuration of the target
	switch preemptPick(rng, 20, 50, 30) {
	case 1: // above the usage
		m.max = map[string]int64{}
		for _, t := range uTypes {
			m.max[t] = usage[t] + int64(rng.Intn(8))
		}
	case 2: // below the usage from the start (nothing is armed by that)
		m.max = map[string]int64{}
		for _, t := range uTypes {
			m.max[t] = max(usage[t]-int64(rng.Intn(3)), 1)
		}
	}
	qs[target].Max = preemptCopyRes(m.max)
	if qs[target].Managed {
		switch preemptPick(rng, 25, 15, 60) {
		case 1:
			qs[target].Properties["quota.preemption.delay"] = "0s"
		case 2:
			m.delay = delays[rng.Intn(len(delays))]
			qs[target].Properties["quota.preemption.delay"] = preemptDelayStr(m.delay)
		}
	}
	spec := objects.VerifPreemptWorldSpec{Queues: qs, Nodes: nodes, Allocs: allocs, AttemptFrequencyMs: 15000}
	spec.Ask = objects.VerifPreemptAskSpec{Key: "ask", App: fmt.Sprintf("app-q%d-ask", leaf), Queue: leaf, Res: map[string]int64{types[0]: 1}, Priority: 1,
		AllowPreemptOther: true, RequiredNode: -1, AgeMs: 1000000, CheckAgeMs: -1}
	c := PreemptQuoCase{Stream: "qtime", Spec: spec}
	add := func(s PreemptQuoStep) { c.Steps = append(c.Steps, s) }
	advanceTo := func(t int64) {
		if t > m.now {
			add(PreemptQuoStep{Op: "advance", AdvanceSec: t - m.now})
			m.now = t
		}
	}
	trigger := func() {
		add(PreemptQuoStep{Op: "trigger", Queue: target})
		m.trigger()
	}
	// probes: just before and at every candidate start time; destructive probes (at / after the expected start time) only when asked for
	probe := func(cands []int64, full bool) {
		sort.Slice(cands, func(i, j int) bool { return cands[i] < cands[j] })
		last := int64(-1)
		for _, t := range cands {
			if t == last || t <= m.now {
				continue
			}
			last = t
			expected := m.arm >= 0 && t >= m.arm+m.delay
			if expected && !full {
				continue
			}
			advanceTo(t - 1)
			trigger()
			advanceTo(t)
			if expected && rng.Chance(25) {
				// hold the preemption, reload while it runs, a second trigger while it runs, then finish
				add(PreemptQuoStep{Op: "hold", Queue: target})
				m.trigger()
				d := delays[rng.Intn(len(delays))]
				add(PreemptQuoStep{Op: "reconf", Queue: target, Max: preemptCopyRes(m.max), Guaranteed: qs[target].Guaranteed, Delay: preemptDelayStr(d)})
				m.delay = d // the delay in force changes, nothing else while the preemption runs
				add(PreemptQuoStep{Op: "trigger", Queue: target})
				add(PreemptQuoStep{Op: "done", Queue: target})
			} else {
				trigger()
			}
		}
	}
	if !qs[target].Managed || rng.Chance(25) {
		// before any reload: nothing is armed, a usage step may or may not arm
		trigger()
		res := map[string]int64{uTypes[0]: 1}
		add(PreemptQuoStep{Op: "usage", Queue: leaf, Res: res, Enabled: true})
		m.addUsage(res, true)
		if m.arm >= 0 {
			probe([]int64{m.arm + m.delay}, rng.Chance(30))
		} else {
			trigger()
		}
	}
	nreload := 2 + rng.Intn(3)
	for r := 0; r < nreload; r++ {
		// the new maximum
		old := m.max
		nm := map[string]int64{}
		kind := preemptPick(rng, 50, 10, 6, 8, 8, 8, 5, 5)
		if m.arm >= 0 { // something is armed: consecutive changes
			kind = preemptPick(rng, 8, 30, 14, 8, 12, 16, 7, 5)
		}
		if old == nil && kind != 0 && kind != 7 {
			kind = 0
		}
		if kind == 5 && len(old) < 2 {
			kind = 1
		}
		switch kind {
		case 0: // lower below the usage (first lowering when nothing is armed)
			for _, t := range uTypes {
				v := usage[t] + int64(rng.Intn(4))
				if rng.Chance(70) {
					v = max(usage[t]-[]int64{1, 1, 2, usage[t] / 2}[rng.Intn(4)], 1)
				}
				if o, ok := old[t]; ok && o < v {
					v = o
				}
				nm[t] = v
			}
			if preemptWithin(nm, usage) {
				nm[uTypes[0]] = max(usage[uTypes[0]]-1, 0)
			}
		case 1: // lower it further
			nm = preemptCopyRes(old)
			t := sortedKeys(nm)[rng.Intn(len(nm))]
			nm[t] = max(nm[t]-int64(1+rng.Intn(3)), 1)
		case 2: // raise it, maybe still below the usage
			nm = preemptCopyRes(old)
			t := sortedKeys(nm)[rng.Intn(len(nm))]
			nm[t] += int64(1 + rng.Intn(2))
		case 3: // raise it to or above the usage (exactly the usage is the boundary)
			for t := range old {
				nm[t] = max(usage[t]+[]int64{0, 0, 1, 5}[rng.Intn(4)], old[t])
			}
		case 4: // unchanged
			nm = preemptCopyRes(old)
		case 5: // one type down, another up
			nm = preemptCopyRes(old)
			ks := sortedKeys(nm)
			a := rng.Intn(len(ks))
			nm[ks[a]] = max(nm[ks[a]]-int64(1+rng.Intn(3)), 1)
			nm[ks[(a+1)%len(ks)]] += int64(1 + rng.Intn(30))
		case 6: // a type disappears from / appears in the maximum
			nm = preemptCopyRes(old)
			ks := sortedKeys(nm)
			if len(ks) > 1 && rng.Bool() {
				delete(nm, ks[rng.Intn(len(ks))])
			} else {
				nm[preemptTypes[rng.Intn(3)]] = int64(1 + rng.Intn(10))
			}
		default: // no maximum any more / an all zero maximum
			nm = nil
			if rng.Chance(30) {
				nm = map[string]int64{uTypes[0]: 0}
			}
		}
		// the new delay
		nd := m.delay
		dk := preemptPick(rng, 35, 25, 20, 10, 10)
		if m.arm >= 0 {
			dk = preemptPick(rng, 25, 35, 30, 5, 5)
		}
		switch dk {
		case 1:
			nd = m.delay + delays[rng.Intn(len(delays))]
		case 2:
			if m.delay > 5 {
				nd = max(m.delay-delays[rng.Intn(len(delays))], 2)
			} else {
				nd = delays[rng.Intn(len(delays))]
			}
		case 3:
			nd = 0
		case 4:
			nd = -1
		}
		if nd == m.delay && m.delay == 0 && rng.Chance(70) {
			nd = delays[rng.Intn(len(delays))]
		}
		st.Count(fmt.Sprintf("qtime.gen.reload_kind_%d", kind))
		add(PreemptQuoStep{Op: "reconf", Queue: target, Max: preemptCopyRes(nm), Guaranteed: qs[target].Guaranteed, Delay: preemptDelayStr(nd)})
		armedBefore := m.arm
		oldDelay := m.reload(nm, max(nd, 0))
		// where a start time could lie now
		cands := []int64{}
		if m.arm >= 0 {
			cands = append(cands, m.arm+m.delay)
			if rng.Chance(60) {
				cands = append(cands, m.arm+oldDelay, m.now+m.delay, m.arm+2*oldDelay-m.delay)
			}
		} else if armedBefore >= 0 && rng.Chance(50) {
			cands = append(cands, armedBefore+oldDelay, armedBefore+max(nd, 0))
		} else if rng.Chance(30) {
			cands = append(cands, m.now+max(nd, 0), m.now+oldDelay)
		}
		last := r == nreload-1
		probe(cands, last || rng.Chance(20))
		if !last {
			advanceTo(m.now + []int64{0, 1, 1, 3, 7, 400}[rng.Intn(6)])
		}
		// usage changes: the re-arming in IncAllocatedResource
		if rng.Chance(35) {
			res := map[string]int64{uTypes[rng.Intn(len(uTypes))]: int64(1 + rng.Intn(2))}
			if m.max != nil && !m.over() && rng.Chance(70) {
				// climb to exactly the maximum, then one above it
				t := sortedKeys(m.max)[0]
				if d := m.max[t] - m.usage[t]; d > 0 {
					add(PreemptQuoStep{Op: "usage", Queue: leaf, Res: map[string]int64{t: d}, Enabled: true})
					m.addUsage(map[string]int64{t: d}, true)
					trigger()
				}
				res = map[string]int64{t: 1}
			}
			en := !rng.Chance(15)
			add(PreemptQuoStep{Op: "usage", Queue: leaf, Res: res, Enabled: en})
			was := m.arm
			m.addUsage(res, en)
			if m.arm >= 0 && was < 0 {
				probe([]int64{m.arm + m.delay}, last || rng.Chance(30))
			} else if rng.Chance(30) {
				probe([]int64{m.now + m.delay}, false)
			}
		}
	}
	return c
}
