package main

import (
	"fmt"
	"path/filepath"
	"sort"
	"strings"
	"sync"

	"go.uber.org/zap"

	yklog "github.com/apache/yunikorn-core/pkg/log"
	"github.com/apache/yunikorn-core/pkg/plugins"
	"github.com/apache/yunikorn-core/pkg/scheduler/objects"
	"github.com/apache/yunikorn-scheduler-interface/lib/go/si"
)

// ---- engine "preempt": Preemptor / PreemptionContext / QuotaPreemptionContext on generated worlds ----

var preemptTypes = []string{"r0", "r1", "r2", "r3"}

func preemptTid(name string) int {
	for i, t := range preemptTypes {
		if t == name {
			return i
		}
	}
	panic("unknown resource type " + name)
}

// PreemptRes is a resource as plain data; Nil distinguishes a nil *Resource from an empty one.
type PreemptRes struct {
	Nil bool             `json:"nil,omitempty"`
	M   map[string]int64 `json:"m,omitempty"`
}

func preemptResOf(m map[string]int64) PreemptRes {
	if m == nil {
		return PreemptRes{Nil: true}
	}
	return PreemptRes{M: m}
}

func (r PreemptRes) coq() string {
	if r.Nil {
		return "None"
	}
	type kv struct {
		k int
		v int64
	}
	l := []kv{}
	for k, v := range r.M {
		l = append(l, kv{preemptTid(k), v})
	}
	sort.Slice(l, func(i, j int) bool { return l[i].k < l[j].k })
	items := make([]string, len(l))
	for i, e := range l {
		items[i] = fmt.Sprintf("(%s, %s)", coqN(uint64(e.k)), coqZ(e.v))
	}
	return "(Some " + coqList(items) + ")"
}

// plugin answers per node
type PreemptPlugin struct {
	Pred  bool  `json:"pred"`
	Ok    bool  `json:"ok"`
	Delta int32 `json:"delta"`
}

type PreemptQueueObs struct {
	Path       string     `json:"path"`
	Parent     int        `json:"parent"`
	Leaf       bool       `json:"leaf"`
	Managed    bool       `json:"managed"`
	Guaranteed PreemptRes `json:"guaranteed"`
	Max        PreemptRes `json:"max"`
	Allocated  PreemptRes `json:"allocated"`
	Preempting PreemptRes `json:"preempting"`
	PPol       int        `json:"ppol"`
	PrPol      int        `json:"prpol"`
	Offset     int32      `json:"offset"`
	DelayMs    int64      `json:"delay_ms"`
}

type PreemptNodeObs struct {
	Available   PreemptRes `json:"available"`
	Total       PreemptRes `json:"total"`
	Schedulable bool       `json:"schedulable"`
}

type PreemptTry struct {
	Ok      bool  `json:"ok"`
	Node    int   `json:"node"`
	Victims []int `json:"victims"`
}

// PreemptQueueObsAll is what the implementation did for a queue preemption case.
type PreemptQueueObsAll struct {
	Queues     []PreemptQueueObs `json:"queues"`
	Nodes      []PreemptNodeObs  `json:"nodes"`
	Placed     []bool            `json:"placed"`
	Pre        bool              `json:"pre"`
	FindNil    bool              `json:"find_nil"`
	Find       map[int][]int     `json:"find"` // queue index -> sorted allocation indexes
	Guar       *bool             `json:"guar,omitempty"`
	Try        *PreemptTry       `json:"try,omitempty"`
	Marked     []int             `json:"marked"`
	Announced  [][]int           `json:"announced"`
	Preempting []PreemptRes      `json:"preempting_after"`
	Triggered  bool              `json:"triggered_after"`
	Pre2       bool              `json:"pre2"`
	Crash      string            `json:"crash,omitempty"`
}

type PreemptCase struct {
	Stream     string                        `json:"stream,omitempty"` // generator stream ("" = the general ones, "extra")
	Spec       objects.VerifPreemptWorldSpec `json:"spec"`
	Plugin     []PreemptPlugin               `json:"plugin"`
	NodesTried bool                          `json:"nodes_tried"`
	Obs        *PreemptQueueObsAll           `json:"obs,omitempty"`
}

// ---- stub predicate plugin; answers are set per case ----
type preemptPluginT struct {
	sync.RWMutex
	byNode map[string]PreemptPlugin
}

var preemptPlug = &preemptPluginT{}

func (p *preemptPluginT) set(nodes []objects.VerifPreemptNodeSpec, ans []PreemptPlugin) {
	p.Lock()
	defer p.Unlock()
	p.byNode = map[string]PreemptPlugin{}
	for i, n := range nodes {
		if i < len(ans) {
			p.byNode[n.ID] = ans[i]
		}
	}
}
func (p *preemptPluginT) get(node string) PreemptPlugin {
	p.RLock()
	defer p.RUnlock()
	if a, ok := p.byNode[node]; ok {
		return a
	}
	return PreemptPlugin{Pred: true, Ok: true}
}
func (p *preemptPluginT) UpdateAllocation(*si.AllocationResponse) error   { return nil }
func (p *preemptPluginT) UpdateApplication(*si.ApplicationResponse) error { return nil }
func (p *preemptPluginT) UpdateNode(*si.NodeResponse) error               { return nil }
func (p *preemptPluginT) Predicates(a *si.PredicatesArgs) error {
	if p.get(a.NodeID).Pred {
		return nil
	}
	return fmt.Errorf("predicate failed")
}
func (p *preemptPluginT) PreemptionPredicates(a *si.PreemptionPredicatesArgs) *si.PreemptionPredicatesResponse {
	ans := p.get(a.NodeID)
	if !ans.Ok {
		return &si.PreemptionPredicatesResponse{Success: false}
	}
	return &si.PreemptionPredicatesResponse{Success: true, Index: a.StartIndex + ans.Delta}
}
func (p *preemptPluginT) SendEvent([]*si.EventRecord)                                              {}
func (p *preemptPluginT) UpdateContainerSchedulingState(*si.UpdateContainerSchedulingStateRequest) {}

var preemptInitOnce sync.Once

func preemptInit() {
	preemptInitOnce.Do(func() {
		yklog.InitializeLogger(zap.NewNop(), &zap.Config{Level: zap.NewAtomicLevelAt(zap.FatalLevel)})
		plugins.RegisterSchedulerPlugin(preemptPlug)
	})
}

// ---- observation helpers ----
func preemptAllocIndex(spec *objects.VerifPreemptWorldSpec) map[string]int {
	m := map[string]int{}
	for i, a := range spec.Allocs {
		m[a.Key] = i
	}
	return m
}

func preemptObserveStatic(w *objects.VerifPreemptWorld, spec *objects.VerifPreemptWorldSpec) ([]PreemptQueueObs, []PreemptNodeObs) {
	qs := make([]PreemptQueueObs, len(spec.Queues))
	for i := range spec.Queues {
		o := w.ObserveQueue(i)
		qs[i] = PreemptQueueObs{Path: o.Path, Parent: spec.Queues[i].Parent, Leaf: o.Leaf, Managed: o.Managed,
			Guaranteed: preemptResOf(o.Guaranteed), Max: preemptResOf(o.Max), Allocated: preemptResOf(o.Allocated),
			Preempting: preemptResOf(o.Preempting), PPol: o.PreemptionPolicy, PrPol: o.PriorityPolicy, Offset: o.Offset, DelayMs: o.DelayMs}
	}
	ns := make([]PreemptNodeObs, len(spec.Nodes))
	for i := range spec.Nodes {
		a, t, s := w.ObserveNode(i)
		ns[i] = PreemptNodeObs{Available: preemptResOf(a), Total: preemptResOf(t), Schedulable: s}
	}
	return qs, ns
}

func preemptKeysToIdx(idx map[string]int, keys []string) []int {
	out := make([]int, 0, len(keys))
	for _, k := range keys {
		k = strings.SplitN(k, "/", 2)[0]
		i, ok := idx[k]
		if !ok {
			i = 999999 // unknown allocation
		}
		out = append(out, i)
	}
	return out
}

// marked: allocations whose preempted flag is set now but was not set by the spec
func preemptMarked(w *objects.VerifPreemptWorld, spec *objects.VerifPreemptWorldSpec) []int {
	flags := w.ObserveFlags()
	out := []int{}
	for i, a := range spec.Allocs {
		if f, ok := flags[a.Key]; ok && f[0] && !(a.Preempted && !a.Released) {
			out = append(out, i)
		}
	}
	return out
}

func preemptAnnounced(w *objects.VerifPreemptWorld, idx map[string]int) [][]int {
	out := [][]int{}
	for _, l := range w.ObserveReleased() {
		out = append(out, preemptKeysToIdx(idx, l))
	}
	return out
}

func preemptNodeIndex(spec *objects.VerifPreemptWorldSpec, id string) int {
	for i, n := range spec.Nodes {
		if n.ID == id {
			return i
		}
	}
	return 999999
}

// runPreemptCase executes one queue preemption case against the real code.
func runPreemptCase(c *PreemptCase) {
	preemptInit()
	obs := &PreemptQueueObsAll{}
	c.Obs = obs
	defer func() {
		if e := recover(); e != nil {
			obs.Crash = fmt.Sprint(e)
		}
	}()
	preemptPlug.set(c.Spec.Nodes, c.Plugin)
	w, err := objects.VerifPreemptBuild(&c.Spec)
	if err != nil {
		obs.Crash = "build: " + err.Error()
		return
	}
	obs.Placed = w.Placed
	obs.Queues, obs.Nodes = preemptObserveStatic(w, &c.Spec)
	idx := preemptAllocIndex(&c.Spec)
	qidx := map[string]int{}
	for i, q := range obs.Queues {
		qidx[q.Path] = i
	}
	find, ok := w.FindVictims()
	obs.FindNil = !ok
	obs.Find = map[int][]int{}
	for path, keys := range find {
		if len(keys) == 0 {
			continue
		}
		l := preemptKeysToIdx(idx, keys)
		sort.Ints(l)
		obs.Find[qidx[path]] = l
	}
	p := w.NewPreemptor(nil, c.NodesTried)
	obs.Pre = p.CheckPreconditions()
	if obs.Pre {
		g := p.CheckGuarantees()
		obs.Guar = &g
		t := p.TryPreemption()
		obs.Try = &PreemptTry{Ok: t.Ok, Victims: []int{}}
		if t.Ok {
			obs.Try.Node = preemptNodeIndex(&c.Spec, t.Node)
		}
	}
	obs.Marked = preemptMarked(w, &c.Spec)
	obs.Announced = preemptAnnounced(w, idx)
	if obs.Try != nil && obs.Try.Ok {
		// the victims in the order of the (first) release request (empty when nothing was announced)
		if len(obs.Announced) > 0 {
			obs.Try.Victims = append(obs.Try.Victims, obs.Announced[0]...)
		}
	}
	for i := range c.Spec.Queues {
		obs.Preempting = append(obs.Preempting, preemptResOf(w.ObserveQueue(i).Preempting))
	}
	obs.Triggered, _ = w.ObserveAsk()
	old := objects.VerifPreemptSetTiming(1)
	obs.Pre2 = w.NewPreemptor(nil, c.NodesTried).CheckPreconditions()
	objects.VerifPreemptSetTiming(old)
}

// ---- Coq emission ----
func preemptBytes(s string) string { return coqBytes(s) }

func coqOptN(some bool, n int) string {
	if !some {
		return "None"
	}
	return fmt.Sprintf("(Some %s)", coqN(uint64(n)))
}

func coqNList(l []int) string {
	items := make([]string, len(l))
	for i, x := range l {
		items[i] = coqN(uint64(x))
	}
	return coqList(items)
}

func preemptQueuesCoq(qs []PreemptQueueObs) string {
	items := make([]string, len(qs))
	for i, q := range qs {
		items[i] = fmt.Sprintf("(mkQ %s %s %s %s %s %s %s %s %s %s %s %s %s)", coqN(uint64(i)), coqOptN(q.Parent >= 0, q.Parent),
			preemptBytes(q.Path), coqBool(q.Leaf), coqBool(q.Managed), q.Guaranteed.coq(), q.Max.coq(), q.Allocated.coq(), q.Preempting.coq(),
			coqN(uint64(q.PPol)), coqN(uint64(q.PrPol)), coqZ(int64(q.Offset)), coqZ(q.DelayMs))
	}
	return coqList(items)
}

func preemptAllocsCoq(spec *objects.VerifPreemptWorldSpec, placed []bool, apps map[string]int) string {
	items := []string{}
	for i, a := range spec.Allocs {
		if i < len(placed) && !placed[i] {
			continue
		}
		items = append(items, fmt.Sprintf("(mkA %s %s %s %s %s %s %s %s %s %s %s %s)", coqN(uint64(i)), coqN(uint64(apps[a.App])), coqN(uint64(a.Queue)),
			coqN(uint64(a.Node)), preemptResOf(a.Res).coq(), coqZ(int64(a.Priority)), coqBool(a.AllowPreemptSelf), coqBool(a.Originator),
			coqBool(a.RequiredNode), coqBool(a.Released), coqBool(a.Preempted && !a.Released), coqZ(a.AgeSec)))
	}
	return coqList(items)
}

func preemptApps(spec *objects.VerifPreemptWorldSpec) map[string]int {
	apps := map[string]int{}
	for _, a := range spec.Allocs {
		if _, ok := apps[a.App]; !ok {
			apps[a.App] = len(apps)
		}
	}
	if _, ok := apps[spec.Ask.App]; !ok {
		apps[spec.Ask.App] = len(apps)
	}
	return apps
}

func preemptAskCoq(a *objects.VerifPreemptAskSpec, apps map[string]int) string {
	check := "None"
	if a.CheckAgeMs >= 0 {
		check = "(Some " + coqZ(a.CheckAgeMs) + ")"
	}
	return fmt.Sprintf("(mkK 1000%%N %s %s %s %s %s %s %s %s %s)", coqN(uint64(apps[a.App])), coqN(uint64(a.Queue)), preemptResOf(a.Res).coq(),
		coqZ(int64(a.Priority)), coqBool(a.AllowPreemptOther), coqOptN(a.RequiredNode >= 0, a.RequiredNode), coqBool(a.Triggered), coqZ(a.AgeMs), check)
}

func preemptNodesCoq(ns []PreemptNodeObs) string {
	items := make([]string, len(ns))
	for i, n := range ns {
		items[i] = fmt.Sprintf("(mkNd %s %s %s %s)", coqN(uint64(i)), n.Available.coq(), n.Total.coq(), coqBool(n.Schedulable))
	}
	return coqList(items)
}

func preemptWorldCoq(spec *objects.VerifPreemptWorldSpec, qs []PreemptQueueObs, ns []PreemptNodeObs, placed []bool, plugin []PreemptPlugin, tried bool) string {
	apps := preemptApps(spec)
	pl := make([]string, len(plugin))
	for i, a := range plugin {
		pl[i] = fmt.Sprintf("(mkPA %s %s %s %s)", coqN(uint64(i)), coqBool(a.Pred), coqBool(a.Ok), coqZ(int64(a.Delta)))
	}
	return fmt.Sprintf("(mkW %s\n   %s\n   %s\n   %s %s %s %s)", preemptQueuesCoq(qs), preemptAllocsCoq(spec, placed, apps), preemptAskCoq(&spec.Ask, apps),
		preemptNodesCoq(ns), coqZ(spec.AttemptFrequencyMs), coqList(pl), coqBool(tried))
}

func preemptResListCoq(l []PreemptRes) string {
	items := make([]string, len(l))
	for i, r := range l {
		items[i] = fmt.Sprintf("(%s, %s)", coqN(uint64(i)), r.coq())
	}
	return coqList(items)
}

func coqNListList(l [][]int) string {
	items := make([]string, len(l))
	for i, x := range l {
		items[i] = coqNList(x)
	}
	return coqList(items)
}

func (c *PreemptCase) coq() string {
	o := c.Obs
	if o.Crash != "" {
		return "QCCrash"
	}
	w := preemptWorldCoq(&c.Spec, o.Queues, o.Nodes, o.Placed, c.Plugin, c.NodesTried)
	find := "None"
	if !o.FindNil {
		ks := []int{}
		for k := range o.Find {
			ks = append(ks, k)
		}
		sort.Ints(ks)
		items := make([]string, len(ks))
		for i, k := range ks {
			items[i] = fmt.Sprintf("(%s, %s)", coqN(uint64(k)), coqNList(o.Find[k]))
		}
		find = "(Some " + coqList(items) + ")"
	}
	guar := "None"
	if o.Guar != nil {
		guar = "(Some " + coqBool(*o.Guar) + ")"
	}
	try := "None"
	if o.Try != nil {
		try = fmt.Sprintf("(Some (mkO %s %s %s))", coqBool(o.Try.Ok), coqN(uint64(o.Try.Node)), coqNList(o.Try.Victims))
	}
	return fmt.Sprintf("(QC %s\n  (mkQObs %s %s %s %s %s %s %s %s %s))", w, coqBool(o.Pre), find, guar, try, coqNList(o.Marked),
		coqNListList(o.Announced), preemptResListCoq(o.Preempting), coqBool(o.Triggered), coqBool(o.Pre2))
}

func (c *PreemptCase) nontrivial() bool {
	return c.Obs != nil && c.Obs.Try != nil && c.Obs.Try.Ok && len(c.Obs.Marked) > 0
}

// PreemptCases is the cases JSON (three sections).
type PreemptCases struct {
	Queue   []PreemptCase    `json:"queue"`
	ReqNode []PreemptRNCase  `json:"reqnode"`
	Quota   []PreemptQuoCase `json:"quota"`
}

const preemptRequires = `From YK Require Import Base.Res Preempt.Snapshot Preempt.Victims Preempt.ReqNode Preempt.Quota Preempt.Spec Oracles.PreemptCheck.
From Coq Require Import List NArith ZArith. Import ListNotations.`

func preemptEngine(o *Opts) {
	preemptInit()
	rng := NewRng(o.Seed)
	st := NewStats("preempt", o.Seed, "generated worlds (40% of the budget): queue trees (2-9 queues, up to 3 levels, any mix of preemption policy default/fence/disabled, priority policy default/fence, offsets, guaranteed/max over sparse resource types, sibling names that are string prefixes of each other), 0-14 allocations over 1-4 nodes with priorities/flags (allowPreemptSelf, originator, required node, released, preempted) and one ask; half of the worlds are biased towards a starving ask queue next to over-guarantee siblings on nearly full nodes; stub predicate plugin with generated answers; required-node worlds; quota preemption histories (reconfigure / advance clock / add usage / trigger); 20%: stream extra (small worlds for the second pass / additional victims: ask and victims with different resource types and sizes, 2-3 victim queues each just above / at / below its guarantee per type, victims on the chosen node and on other nodes, nodes with room for the ask / full / too small, ask queue able to absorb exactly / almost / more than a victim, prefix queue names); 13%: stream qtime (one queue, 2-4 reloads of max and delay: first / further lowering, raising below / to / above the usage, unchanged, mixed, type added or dropped, removed, delay same / longer / shorter / 0 / unset; triggers one second before and at every candidate start time; usage steps climbing to exactly the max and one above; hold / reload while running / done); non-trivial = at least one victim was preempted; distinct by hash of world + observations")
	st.Samples = []any{}
	var all PreemptCases
	if o.Replay != "" {
		readJSON(o.Replay, &all)
	} else {
		// a fixed share of the budget goes to the boundary-value streams (small worlds: "extra", "qtime")
		for i := 0; i < o.N*40/100; i++ {
			all.Queue = append(all.Queue, genPreemptCase(rng.Fork(), st))
		}
		for i := 0; i < o.N*20/100; i++ {
			all.Queue = append(all.Queue, genPreemptExtra(rng.Fork(), st))
		}
		for i := 0; i < o.N*15/100+1; i++ {
			all.ReqNode = append(all.ReqNode, genPreemptRNCase(rng.Fork()))
		}
		for i := 0; i < o.N*12/100+1; i++ {
			all.Quota = append(all.Quota, genPreemptQuoCase(rng.Fork()))
		}
		for i := 0; i < o.N*13/100; i++ {
			all.Quota = append(all.Quota, genPreemptQTime(rng.Fork(), st))
		}
	}
	qTerms := []string{}
	for i := range all.Queue {
		c := &all.Queue[i]
		runPreemptCase(c)
		t := c.coq()
		qTerms = append(qTerms, t)
		st.Count("queue.case")
		ob := c.Obs
		if ob.Crash != "" {
			st.Panics++
			st.Count("queue.crash")
		}
		if ob.Pre {
			st.Count("queue.preconditions_ok")
		}
		if len(ob.Find) > 0 {
			st.Count("queue.has_potential_victims")
		}
		if ob.Guar != nil && *ob.Guar {
			st.Count("queue.guarantee_check_ok")
		}
		if ob.Try != nil && ob.Try.Ok {
			st.Count("queue.committed")
			st.Count(fmt.Sprintf("queue.victims_%d", min(len(ob.Marked), 4)))
		}
		if c.Stream != "" {
			preemptStreamStats(st, c)
		}
		st.Case(t, c.nontrivial(), map[string]any{"kind": "queue", "queues": len(c.Spec.Queues), "allocations": len(c.Spec.Allocs), "nodes": len(c.Spec.Nodes), "ask": c.Spec.Ask, "try": ob.Try, "marked": ob.Marked})
	}
	rTerms := []string{}
	for i := range all.ReqNode {
		c := &all.ReqNode[i]
		runPreemptRNCase(c)
		t := c.coq()
		rTerms = append(rTerms, t)
		st.Count("reqnode.case")
		if c.Obs != nil && len(c.Obs.Marked) > 0 {
			st.Count("reqnode.committed")
		}
		if c.Obs != nil && c.Obs.Crash != "" {
			st.Panics++
		}
		st.Case(t, c.Obs != nil && len(c.Obs.Marked) > 0, map[string]any{"kind": "reqnode", "node": c.Node, "allocations": len(c.Spec.Allocs), "sorted": c.Obs.Sorted, "marked": c.Obs.Marked})
	}
	uTerms := []string{}
	for i := range all.Quota {
		c := &all.Quota[i]
		runPreemptQuoCase(c)
		t := c.coq()
		uTerms = append(uTerms, t)
		st.Count("quota.case")
		if c.Stream != "" {
			preemptQuoStreamStats(st, c)
		}
		nt := false
		for _, s := range c.Steps {
			st.Count("quota.op." + s.Op)
			if s.Obs != nil && s.Obs.Crash != "" {
				st.Panics++
				st.Count("quota.crash")
			}
			if s.Obs != nil && s.Obs.Acquired {
				st.Count("quota.acquired")
			}
			if s.Obs != nil && len(s.Obs.Marked) > 0 {
				nt = true
			}
		}
		if nt {
			st.Count("quota.committed")
		}
		st.Case(t, nt, map[string]any{"kind": "quota", "queues": len(c.Spec.Queues), "allocations": len(c.Spec.Allocs), "steps": len(c.Steps)})
	}
	base := filepath.Join(o.OutDir, fmt.Sprintf("cases_preempt_%d", o.Shard))
	var b strings.Builder
	b.WriteString(preemptRequires + "\n")
	b.WriteString("Definition queue_cases : list queue_case := [\n " + strings.Join(qTerms, ";\n ") + "\n].\n")
	b.WriteString("Definition reqnode_cases : list reqnode_case := [\n " + strings.Join(rTerms, ";\n ") + "\n].\n")
	b.WriteString("Definition quota_cases : list quota_case := [\n " + strings.Join(uTerms, ";\n ") + "\n].\n")
	qStreams, uStreams := make([]string, len(all.Queue)), make([]string, len(all.Quota))
	for i := range all.Queue {
		qStreams[i] = coqBool(all.Queue[i].Stream == "extra")
	}
	for i := range all.Quota {
		uStreams[i] = coqBool(all.Quota[i].Stream == "qtime")
	}
	// which cases belong to the boundary-value streams (coverage counters only)
	b.WriteString("Definition queue_extra : list bool := " + coqList(qStreams) + ".\n")
	b.WriteString("Definition quota_qtime : list bool := " + coqList(uStreams) + ".\n")
	b.WriteString("Definition M := Eval vm_compute in (queue_check queue_cases ++ reqnode_check reqnode_cases ++ quota_check quota_cases ++ queue_info queue_extra queue_cases ++ quota_info quota_qtime quota_cases).\nPrint M.\n")
	writeFile(base+".v", b.String())
	writeJSON(base+".json", all)
	st.CasesFile, st.CasesJSON = base+".v", base+".json"
	st.Write(base + ".stats.json")
}

// preemptStreamStats: what the "extra" stream reached, as far as it is visible from outside (the exact counters of the
// additional-victims pass come from the model: kinds 910.. of the checker)
func preemptStreamStats(st *Stats, c *PreemptCase) {
	p := c.Stream + "."
	ob := c.Obs
	st.Count(p + "case")
	if ob == nil || ob.Crash != "" {
		return
	}
	if ob.Pre {
		st.Count(p + "preconditions_ok")
	}
	if len(ob.Find) > 0 {
		st.Count(p + "has_potential_victims")
	}
	if len(ob.Find) > 1 {
		st.Count(p + "several_victim_queues")
	}
	if ob.Guar != nil && *ob.Guar {
		st.Count(p + "guarantee_check_ok")
	}
	if ob.Try == nil || !ob.Try.Ok {
		return
	}
	st.Count(p + "committed")
	st.Count(fmt.Sprintf(p+"victims_%d", min(len(ob.Marked), 4)))
	node := ob.Try.Node
	fits := node < len(ob.Nodes)
	if fits {
		for k, v := range c.Spec.Ask.Res {
			if ob.Nodes[node].Available.M[k] < v {
				fits = false
			}
		}
	}
	other := false
	for _, m := range ob.Marked {
		if m < len(c.Spec.Allocs) && c.Spec.Allocs[m].Node != node {
			other = true
		}
	}
	hetero := false
	for _, m := range ob.Marked {
		if m < len(c.Spec.Allocs) && !preemptResEqualTypes(c.Spec.Allocs[m].Res, c.Spec.Ask.Res) {
			hetero = true
		}
	}
	if fits && len(ob.Marked) > 0 {
		st.Count(p + "committed_all_victims_from_additional_pass") // the node had room: calculateVictimsByNode returned no victim
	}
	if other {
		st.Count(p + "committed_victim_on_other_node")
	}
	if hetero {
		st.Count(p + "committed_victim_types_differ_from_ask")
	}
}

func preemptResEqualTypes(a, b map[string]int64) bool {
	if len(a) != len(b) {
		return false
	}
	for k := range a {
		if _, ok := b[k]; !ok {
			return false
		}
	}
	return true
}

func preemptQuoStreamStats(st *Stats, c *PreemptQuoCase) {
	p := c.Stream + "."
	st.Count(p + "case")
	reloads := 0
	for _, s := range c.Steps {
		if s.Obs == nil {
			break
		}
		st.Count(p + "op." + s.Op)
		if s.Op == "reconf" {
			reloads++
			if s.Obs.Times[s.Queue].StartSet {
				st.Count(p + "reload_leaves_start_time_set")
			}
		}
		if (s.Op == "trigger" || s.Op == "hold") && s.Obs.Acquired {
			st.Count(p + "acquired")
		}
		if s.Op == "usage" && s.Obs.Times[s.Queue].StartSet {
			st.Count(p + "usage_leaves_start_time_set")
		}
	}
	st.Count(fmt.Sprintf(p+"reloads_%d", min(reloads, 6)))
}

func init() { engines["preempt"] = preemptEngine }
