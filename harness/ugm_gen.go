package main

import (
	"fmt"
	"sort"
	"strings"
)

// ---- generator of engine "ugm": histories are generated while the real manager runs, because
// which decreases exist depends on which scheduler-decided increases were admitted ----

type ugmGen struct {
	rng    *Rng
	c      *UgmCase
	leaves []string
	tree   UgmQueue // the partition's queues (lower-case names, no limits)
	last   *UgmQueue
}

func ugmPick[T any](rng *Rng, xs []T) T { return xs[rng.Intn(len(xs))] }

func ugmSubset(rng *Rng, xs []string, p int) []string {
	out := []string{}
	for _, x := range xs {
		if rng.Chance(p) {
			out = append(out, x)
		}
	}
	return out
}
func ugmShuffle(rng *Rng, xs []string) []string {
	out := append([]string{}, xs...)
	for i := len(out) - 1; i > 0; i-- {
		j := rng.Intn(i + 1)
		out[i], out[j] = out[j], out[i]
	}
	return out
}

func (g *ugmGen) genTree() {
	rng := g.rng
	g.tree = UgmQueue{Name: "root"}
	paths := []string{"root"}
	level1 := []string{"a", "b"}[:1+rng.Intn(2)]
	for _, n := range level1 {
		q := UgmQueue{Name: n}
		paths = append(paths, "root."+n)
		if rng.Chance(60) {
			level2 := []string{"c", "d"}[:1+rng.Intn(2)]
			for _, n2 := range level2 {
				q.Queues = append(q.Queues, UgmQueue{Name: n2})
				paths = append(paths, "root."+n+"."+n2)
				g.leaves = append(g.leaves, "root."+n+"."+n2)
			}
		} else {
			g.leaves = append(g.leaves, "root."+n)
		}
		g.tree.Queues = append(g.tree.Queues, q)
	}
	g.c.Paths = paths
}

func (g *ugmGen) genMax(scale int) (map[string]string, uint64) {
	rng := g.rng
	max := map[string]string{}
	switch rng.Intn(6) {
	case 0: // max applications only
	case 1:
		max["memory"] = fmt.Sprint(1 + rng.Intn(scale))
		max["gpu"] = fmt.Sprint(1 + rng.Intn(scale))
	case 2:
		max["gpu"] = fmt.Sprint(1 + rng.Intn(scale))
	default:
		max["memory"] = fmt.Sprint(1 + rng.Intn(scale))
	}
	var apps uint64
	if len(max) == 0 || rng.Chance(45) {
		apps = uint64(1 + rng.Intn(3))
	}
	return max, apps
}

// genLimits: a list of limit objects in the order validation wants (wild cards last)
func (g *ugmGen) genLimits(scale int) []UgmLimit {
	rng := g.rng
	if rng.Chance(35) {
		return nil
	}
	var out []UgmLimit
	users := ugmShuffle(rng, ugmSubset(rng, g.c.Users, 45))
	groups := ugmShuffle(rng, ugmSubset(rng, g.c.Groups, 40))
	// named users: one limit object each, or together in one object
	if len(users) > 1 && rng.Chance(30) {
		m, a := g.genMax(scale)
		out = append(out, UgmLimit{Users: users, Max: m, MaxApps: a})
	} else {
		for _, u := range users {
			m, a := g.genMax(scale)
			l := UgmLimit{Users: []string{u}, Max: m, MaxApps: a}
			if len(groups) > 0 && rng.Chance(20) { // a limit object naming a user and a group
				l.Groups = []string{groups[0]}
				groups = groups[1:]
			}
			out = append(out, l)
		}
	}
	for _, gr := range groups {
		m, a := g.genMax(scale)
		out = append(out, UgmLimit{Groups: []string{gr}, Max: m, MaxApps: a})
	}
	if rng.Chance(40) {
		m, a := g.genMax(scale)
		out = append(out, UgmLimit{Users: []string{"*"}, Max: m, MaxApps: a})
	}
	if len(groups) > 0 && rng.Chance(30) {
		m, a := g.genMax(scale)
		out = append(out, UgmLimit{Groups: []string{"*"}, Max: m, MaxApps: a})
	}
	return out
}

func (g *ugmGen) caseName(n string) string {
	if g.rng.Chance(6) {
		return strings.ToUpper(n)
	}
	return n
}

func (g *ugmGen) freshConf() *UgmQueue {
	var build func(q *UgmQueue, depth int) UgmQueue
	build = func(q *UgmQueue, depth int) UgmQueue {
		out := UgmQueue{Name: q.Name}
		if depth > 0 {
			out.Name = g.caseName(q.Name)
		}
		out.Limits = g.genLimits(24 >> depth * 1)
		for i := range q.Queues {
			out.Queues = append(out.Queues, build(&q.Queues[i], depth+1))
		}
		return out
	}
	c := build(&g.tree, 0)
	return &c
}

func ugmCloneQueue(q *UgmQueue) UgmQueue {
	out := UgmQueue{Name: q.Name}
	for _, l := range q.Limits {
		nl := UgmLimit{Users: append([]string{}, l.Users...), Groups: append([]string{}, l.Groups...), MaxApps: l.MaxApps, Max: map[string]string{}}
		for k, v := range l.Max {
			nl.Max[k] = v
		}
		out.Limits = append(out.Limits, nl)
	}
	for i := range q.Queues {
		out.Queues = append(out.Queues, ugmCloneQueue(&q.Queues[i]))
	}
	return out
}
func ugmAllQueues(q *UgmQueue, depth int, f func(q *UgmQueue, depth int)) {
	f(q, depth)
	for i := range q.Queues {
		ugmAllQueues(&q.Queues[i], depth+1, f)
	}
}

// mutateConf derives a reload from the previous configuration: limits added, changed or dropped
func (g *ugmGen) mutateConf(prev *UgmQueue) *UgmQueue {
	rng := g.rng
	c := ugmCloneQueue(prev)
	var qs []*UgmQueue
	var depths []int
	ugmAllQueues(&c, 0, func(q *UgmQueue, d int) { qs = append(qs, q); depths = append(depths, d) })
	edits := 1 + rng.Intn(3)
	// compound reloads: several edits hit the same queue (e.g. the wild card value changes and a
	// named limit is added or dropped for somebody who is already tracked there)
	same := rng.Chance(45)
	if same && edits < 2 {
		edits = 2
	}
	target := rng.Intn(len(qs))
	for e := 0; e < edits; e++ {
		i := rng.Intn(len(qs))
		if same {
			i = target
		}
		q := qs[i]
		scale := 24 >> depths[i]
		kind := rng.Intn(11)
		if same && e == 0 && rng.Chance(50) {
			kind = 9 + rng.Intn(2) // start with a changed wild card value
		}
		switch kind {
		case 9: // change the value of the user wild card (add one when there is none)
			found := false
			for k := range q.Limits {
				if len(q.Limits[k].Users) == 1 && q.Limits[k].Users[0] == "*" {
					q.Limits[k].Max, q.Limits[k].MaxApps = g.genMax(scale)
					found = true
				}
			}
			if !found {
				m, a := g.genMax(scale)
				q.Limits = append(q.Limits, UgmLimit{Users: []string{"*"}, Max: m, MaxApps: a})
			}
		case 10: // change the value of the group wild card, or of one named group
			found := false
			for k := range q.Limits {
				if len(q.Limits[k].Groups) == 1 && (q.Limits[k].Groups[0] == "*" || rng.Chance(40)) && len(q.Limits[k].Users) == 0 {
					q.Limits[k].Max, q.Limits[k].MaxApps = g.genMax(scale)
					found = true
					break
				}
			}
			if !found && len(q.Limits) > 0 {
				k := rng.Intn(len(q.Limits))
				q.Limits[k].Max, q.Limits[k].MaxApps = g.genMax(scale)
			}
		case 0: // drop all limits of the queue
			q.Limits = nil
		case 1: // drop one limit object
			if len(q.Limits) > 0 {
				k := rng.Intn(len(q.Limits))
				q.Limits = append(q.Limits[:k:k], q.Limits[k+1:]...)
			}
		case 2: // change the values of one limit object
			if len(q.Limits) > 0 {
				k := rng.Intn(len(q.Limits))
				q.Limits[k].Max, q.Limits[k].MaxApps = g.genMax(scale)
			}
		case 3: // add or drop the user wild card
			found := -1
			for k, l := range q.Limits {
				if len(l.Users) == 1 && l.Users[0] == "*" {
					found = k
				}
			}
			if found >= 0 {
				q.Limits = append(q.Limits[:found:found], q.Limits[found+1:]...)
			} else {
				m, a := g.genMax(scale)
				q.Limits = append(q.Limits, UgmLimit{Users: []string{"*"}, Max: m, MaxApps: a})
			}
		case 4: // add a named user that is not yet there (before the wild cards)
			have := map[string]bool{}
			for _, l := range q.Limits {
				for _, u := range l.Users {
					have[u] = true
				}
			}
			for _, u := range ugmShuffle(rng, g.c.Users) {
				if !have[u] {
					m, a := g.genMax(scale)
					q.Limits = append([]UgmLimit{{Users: []string{u}, Max: m, MaxApps: a}}, q.Limits...)
					break
				}
			}
		case 5: // add a named group that is not yet there
			have := map[string]bool{}
			for _, l := range q.Limits {
				for _, u := range l.Groups {
					have[u] = true
				}
			}
			for _, u := range ugmShuffle(rng, g.c.Groups) {
				if !have[u] {
					m, a := g.genMax(scale)
					q.Limits = append([]UgmLimit{{Groups: []string{u}, Max: m, MaxApps: a}}, q.Limits...)
					break
				}
			}
		case 6: // regenerate the limits of the queue
			q.Limits = g.genLimits(scale)
		case 7: // change the case of the queue name
			if depths[i] > 0 {
				if strings.ToLower(q.Name) != q.Name {
					q.Name = strings.ToLower(q.Name)
				} else if rng.Chance(30) {
					q.Name = strings.ToUpper(q.Name)
				}
			}
		case 8: // remove one named user or group from a limit object
			if len(q.Limits) > 0 {
				k := rng.Intn(len(q.Limits))
				l := &q.Limits[k]
				if len(l.Users) > 0 && rng.Bool() {
					l.Users = l.Users[1:]
				} else if len(l.Groups) > 0 {
					l.Groups = l.Groups[1:]
				}
				if len(l.Users) == 0 && len(l.Groups) == 0 {
					q.Limits = append(q.Limits[:k:k], q.Limits[k+1:]...)
				}
			}
		}
	}
	return &c
}

// malformConf: things validation rejects but UpdateConfig accepts without looking
func (g *ugmGen) malformConf(c *UgmQueue) {
	rng := g.rng
	var qs []*UgmQueue
	ugmAllQueues(c, 0, func(q *UgmQueue, d int) { qs = append(qs, q) })
	q := ugmPick(rng, qs)
	switch rng.Intn(6) {
	case 0: // duplicate user in a second limit object
		q.Limits = append(q.Limits, UgmLimit{Users: []string{ugmPick(rng, g.c.Users)}, Max: map[string]string{"memory": "3"}})
		q.Limits = append(q.Limits, UgmLimit{Users: []string{q.Limits[len(q.Limits)-1].Users[0]}, MaxApps: 1})
	case 1: // wild card first
		q.Limits = append([]UgmLimit{{Users: []string{"*"}, MaxApps: 2}}, q.Limits...)
	case 2: // empty names
		q.Limits = append(q.Limits, UgmLimit{Users: []string{"", ugmPick(rng, g.c.Users)}, Groups: []string{""}, MaxApps: 2})
	case 3: // quantity that does not parse, somewhere in the middle
		q.Limits = append(q.Limits, UgmLimit{Users: []string{ugmPick(rng, g.c.Users)}, Max: map[string]string{"memory": "abc"}})
	case 4: // group wild card alone, zero valued limit
		q.Limits = append(q.Limits, UgmLimit{Groups: []string{"*"}, Max: map[string]string{"memory": "0"}, MaxApps: 0})
	case 5: // root written "Root"
		c.Name = "Root"
	}
}

func (g *ugmGen) genConf() *UgmQueue {
	rng := g.rng
	var c *UgmQueue
	for try := 0; try < 6; try++ {
		if g.last != nil && rng.Chance(75) {
			c = g.mutateConf(g.last)
		} else {
			c = g.freshConf()
		}
		if c.valid() {
			break
		}
	}
	if rng.Chance(8) {
		g.malformConf(c)
	}
	g.last = c
	return c
}

func (g *ugmGen) genRes() map[string]int64 {
	rng := g.rng
	res := map[string]int64{}
	switch rng.Intn(5) {
	case 0:
		res["gpu"] = int64(1 + rng.Intn(4))
	case 1:
		res["memory"] = int64(1 + rng.Intn(6))
		res["gpu"] = int64(1 + rng.Intn(3))
	case 2:
		res["memory"] = int64(1 + rng.Intn(6))
		res["pods"] = 1
	default:
		res["memory"] = int64(1 + rng.Intn(6))
	}
	return res
}

func genUgmCase(rng *Rng, c *UgmCase, st *Stats, tier string) *ugmRun {
	g := &ugmGen{rng: rng, c: c}
	nu, ng := 1+rng.Intn(3), 1+rng.Intn(3)
	for i := 1; i <= nu; i++ {
		c.Users = append(c.Users, fmt.Sprintf("u%d", i))
	}
	for i := 1; i <= ng; i++ {
		c.Groups = append(c.Groups, fmt.Sprintf("g%d", i))
	}
	g.genTree()
	userGroups := map[string][]string{}
	for _, u := range c.Users {
		userGroups[u] = ugmShuffle(rng, ugmSubset(rng, c.Groups, 60))
	}
	napps := 2 + rng.Intn(4)
	for i := 1; i <= napps; i++ {
		u := ugmPick(rng, c.Users)
		c.Apps = append(c.Apps, UgmApp{ID: fmt.Sprintf("app%d", i), User: u, Groups: userGroups[u], Path: ugmPick(rng, g.leaves)})
	}
	c.Disciplined = !rng.Chance(12)
	maxOps := 40
	nops := 8 + rng.Intn(maxOps-7)
	pConf := 8 + rng.Intn(14)
	pForce := rng.Intn(12)
	r := newUgmRun(c, st)
	emit := func(op UgmOp) bool {
		c.Ops = append(c.Ops, op)
		return r.runOp(len(c.Ops) - 1)
	}
	liveOps := func() []int {
		var out []int
		for a := range r.live {
			for k := range r.live[a] {
				out = append(out, k)
			}
		}
		sort.Ints(out)
		return out
	}
	// most histories start by loading a configuration
	if rng.Chance(85) {
		if !emit(UgmOp{K: "conf", Conf: g.genConf()}) {
			return r
		}
	}
	for len(c.Ops) < nops {
		x := rng.Intn(100)
		ok := true
		switch {
		case x < pConf:
			ok = emit(UgmOp{K: "conf", Conf: g.genConf()})
		case x < pConf+38:
			ok = emit(UgmOp{K: "sched", App: rng.Intn(napps), Res: g.genRes()})
		case x < pConf+38+pForce:
			ok = emit(UgmOp{K: "force", App: rng.Intn(napps), Res: g.genRes()})
		case x < pConf+38+pForce+6:
			ok = emit(UgmOp{K: "head", App: rng.Intn(napps)})
		case x < pConf+38+pForce+10:
			ok = emit(UgmOp{K: "can", App: rng.Intn(napps)})
		default:
			live := liveOps()
			if len(live) == 0 || rng.Chance(12) {
				// an application that holds nothing is removed (skipped by the driver otherwise)
				if rng.Chance(35) {
					ok = emit(UgmOp{K: "finish", App: rng.Intn(napps)})
				} else {
					ok = emit(UgmOp{K: "sched", App: rng.Intn(napps), Res: g.genRes()})
				}
				break
			}
			k := ugmPick(rng, live)
			app := 0
			for a := range r.live {
				if r.live[a][k] {
					app = a
				}
			}
			switch {
			case rng.Chance(8):
				ok = emit(UgmOp{K: "decall", App: app})
			case !c.Disciplined && rng.Chance(30):
				ok = emit(UgmOp{K: "dec", App: app, Alloc: k, Remove: ugmPick(rng, []string{"y", "n"})})
			case rng.Chance(15):
				ok = emit(UgmOp{K: "dec", App: app, Alloc: k, Remove: "keep"})
			default:
				ok = emit(UgmOp{K: "dec", App: app, Alloc: k})
			}
		}
		if !ok {
			break
		}
	}
	return r
}
