package main

import (
	"fmt"
	"math"
	"path/filepath"
	"reflect"
	"sort"
	"strconv"
	"strings"

	"github.com/apache/yunikorn-core/pkg/common/resources"
	"github.com/apache/yunikorn-core/pkg/log"
)

// ---- engine "res": pkg/common/resources (resources.go, quantity.go) for property C18 ----
//
// One case = one call of one function on generated arguments. The harness records the result
// (projection: vector as key->value map, bool, error flag, float as exact bits), deep copies of all
// arguments before the call and checks afterwards that no argument (and not the package level Zero)
// was modified and that a returned *Resource does not alias an argument (Mut code).

type ResVec = map[string]int64

type ResObs struct {
	Kind  string  `json:"kind"` // res | resb | bool | int | flt | parse | key | panic
	Nil   bool    `json:"nil,omitempty"`
	Res   ResVec  `json:"res,omitempty"`
	B     bool    `json:"b,omitempty"`
	I     int64   `json:"i,omitempty"`
	F     string  `json:"f,omitempty"`     // float64 bits, hex
	FText string  `json:"ftext,omitempty"` // informational
	Ok    bool    `json:"ok,omitempty"`
	Key   *string `json:"key,omitempty"`
	Msg   string  `json:"msg,omitempty"`
	Mut   int     `json:"mut"` // 0 ok, 1 argument modified, 2 result aliases an argument/Zero, 3 Zero modified
}

type ResCase struct {
	Fn    string    `json:"fn"`
	R     []*ResVec `json:"r,omitempty"`     // resource arguments, null = nil *Resource
	Alias bool      `json:"alias,omitempty"` // second resource argument is the same pointer as the first
	Z     []int64   `json:"z,omitempty"`     // integer arguments
	F     []string  `json:"f,omitempty"`     // float arguments: "0x<bits>" or decimal text
	S     []int     `json:"s,omitempty"`     // string argument as bytes
	Str   *string   `json:"str,omitempty"`   // string argument (alternative to S, for hand written cases)
	Milli bool      `json:"milli,omitempty"`
	FL    []string  `json:"fl,omitempty"` // compareShares: left list
	FR    []string  `json:"fr,omitempty"` // compareShares: right list
	Obs   *ResObs   `json:"obs,omitempty"`
}

type ResCases struct {
	Cases []ResCase `json:"cases"`
}

var resKeyPool = []string{"memory", "vcore", "pods", "nvidia.com/gpu", "ephemeral-storage"}
var resKeyIDs = map[string]int{}

func resKeyID(k string) int {
	if len(resKeyIDs) == 0 {
		for i, n := range resKeyPool {
			resKeyIDs[n] = i
		}
	}
	id, ok := resKeyIDs[k]
	if !ok {
		id = len(resKeyIDs)
		resKeyIDs[k] = id
	}
	return id
}

// function table: name -> (signature, Coq function constant)
type resFnInfo struct {
	sig string // 2 | 1 | 3 | 6 | mul | mulby | multo | vals | valratio | parse | cmpshares
	coq string
}

var resFns = map[string]resFnInfo{
	"addVal": {"vals", "KAddVal"}, "subVal": {"vals", "KSubVal"}, "mulVal": {"vals", "KMulVal"},
	"mulValRatio": {"valratio", "KMulValRatio"}, "parse": {"parse", "KParse"},
	"Add": {"2", "fAdd"}, "Sub": {"2", "fSub"}, "AddTo": {"2", "fAddTo"}, "SubFrom": {"2", "fSubFrom"},
	"SubOnlyExisting": {"2", "fSubOnlyExisting"}, "AddOnlyExisting": {"2", "fAddOnlyExisting"},
	"SubEliminateNegative": {"2", "fSubEliminateNegative"}, "SubErrorNegative": {"2", "fSubErrorNegative"},
	"FitIn": {"2", "fFitIn"}, "FitInMaxUndef": {"2", "fFitInMaxUndef"}, "FitInActual": {"2", "fFitInActual"},
	"StrictlyGreaterThan": {"2", "fStrictlyGreaterThan"}, "StrictlyGreaterThanOrEquals": {"2", "fStrictlyGreaterThanOrEquals"},
	"StrictlyGreaterThanOnlyExisting":         {"2", "fSGTOnlyExisting"},
	"StrictlyGreaterThanOrEqualsOnlyExisting": {"2", "fSGTOrEqualsOnlyExisting"},
	"ComponentWiseMin":                        {"2", "fComponentWiseMin"}, "ComponentWiseMinOnlyExisting": {"2", "fComponentWiseMinOnlyExisting"},
	"ComponentWiseMax": {"2", "fComponentWiseMax"}, "MergeIfNotPresent": {"2", "fMergeIfNotPresent"},
	"Equals": {"2", "fEquals"}, "DeepEquals": {"2", "fDeepEquals"}, "EqualsOrEmpty": {"2", "fEqualsOrEmpty"},
	"MatchAny": {"2", "fMatchAny"}, "FitInScore": {"2", "fFitInScore"},
	"CalculateAbsUsedCapacity": {"2", "fCalculateAbsUsedCapacity"}, "DominantResourceType": {"2", "fDominantResourceType"},
	"TypeMatching": {"2", "fTypeMatching"},
	"IsZero":       {"1", "fIsZero"}, "IsEmpty": {"1", "fIsEmpty"}, "HasNegativeValue": {"1", "fHasNegativeValue"},
	"StrictlyGreaterThanZero": {"1", "fStrictlyGreaterThanZero"}, "Prune": {"1", "fPrune"}, "Clone": {"1", "fClone"},
	"Multiply": {"mul", "KMultiply"}, "MultiplyBy": {"mulby", "KMultiplyBy"}, "MultiplyTo": {"multo", "KMultiplyTo"},
	"getFairShare": {"3", "fGetFairShare"}, "CompUsageRatio": {"3", "fCompUsageRatio"}, "FairnessRatio": {"3", "fFairnessRatio"},
	"CompUsageRatioSeparately": {"6", "KCompSep"}, "compareShares": {"cmpshares", "KCompareShares"},
}

func resFnNames() []string {
	ns := make([]string, 0, len(resFns))
	for n := range resFns {
		ns = append(ns, n)
	}
	sort.Strings(ns)
	return ns
}

// ---- float encoding ----
func resParseFloat(s string) float64 {
	if strings.HasPrefix(s, "0x") || strings.HasPrefix(s, "0X") {
		b, err := strconv.ParseUint(s[2:], 16, 64)
		if err != nil {
			panic("bad float bits " + s)
		}
		return math.Float64frombits(b)
	}
	f, err := strconv.ParseFloat(s, 64)
	if err != nil {
		panic("bad float " + s)
	}
	return f
}
func resFloatBits(f float64) string { return fmt.Sprintf("0x%016x", math.Float64bits(f)) }

// exact (kind, sign, mantissa, exponent): value = (-1)^sign * mantissa * 2^exponent
func resFraw(f float64) string {
	bits := math.Float64bits(f)
	sign := bits >> 63
	exp := int64((bits >> 52) & 0x7ff)
	mant := bits & (1<<52 - 1)
	switch {
	case math.IsNaN(f):
		return "(2, 0, 0, 0)"
	case math.IsInf(f, 0):
		return fmt.Sprintf("(1, %d, 0, 0)", sign)
	case exp == 0 && mant == 0:
		return fmt.Sprintf("(0, %d, 0, 0)", sign)
	case exp == 0:
		return fmt.Sprintf("(0, %d, %d, -1074)", sign, mant)
	default:
		return fmt.Sprintf("(0, %d, %d, %d)", sign, mant|1<<52, exp-1075)
	}
}

// ---- Coq term printing ----
func resCoqVec(v *ResVec, rng *Rng) string {
	if v == nil {
		return "None"
	}
	ks := sortedKeys(*v)
	// the model runs on an arbitrary order of the association list (the code iterates a Go map)
	if rng != nil {
		for i := len(ks) - 1; i > 0; i-- {
			j := rng.Intn(i + 1)
			ks[i], ks[j] = ks[j], ks[i]
		}
	}
	items := make([]string, len(ks))
	for i, k := range ks {
		items[i] = fmt.Sprintf("(%d, %d)", resKeyID(k), (*v)[k])
	}
	return "(Some [" + strings.Join(items, "; ") + "])"
}
func resCoqZ(z int64) string {
	if z < 0 {
		return fmt.Sprintf("(%d)", z)
	}
	return fmt.Sprintf("%d", z)
}
func resCoqFloats(l []string) string {
	items := make([]string, len(l))
	for i, s := range l {
		items[i] = resFraw(resParseFloat(s))
	}
	return "[" + strings.Join(items, "; ") + "]"
}

func (c *ResCase) bytes() []byte {
	if c.Str != nil {
		return []byte(*c.Str)
	}
	b := make([]byte, len(c.S))
	for i, x := range c.S {
		b[i] = byte(x)
	}
	return b
}

func (c *ResCase) vec(i int) *ResVec {
	if i >= len(c.R) {
		return nil
	}
	return c.R[i]
}

func (c *ResCase) coqCall(rng *Rng) string {
	info := resFns[c.Fn]
	z := func(i int) int64 {
		if i < len(c.Z) {
			return c.Z[i]
		}
		return 0
	}
	f := func(i int) string {
		if i < len(c.F) {
			return resFraw(resParseFloat(c.F[i]))
		}
		return "(0, 0, 0, 0)"
	}
	switch info.sig {
	case "vals":
		return fmt.Sprintf("%s %s %s", info.coq, resCoqZ(z(0)), resCoqZ(z(1)))
	case "valratio":
		return fmt.Sprintf("%s %s %s", info.coq, resCoqZ(z(0)), f(0))
	case "parse":
		b := c.bytes()
		items := make([]string, len(b))
		for i, x := range b {
			items[i] = fmt.Sprintf("%d", x)
		}
		return fmt.Sprintf("KParse [%s] %s", strings.Join(items, ";"), coqBool(c.Milli))
	case "2":
		a := resCoqVec(c.vec(0), rng)
		b := resCoqVec(c.vec(1), rng)
		if c.Alias {
			b = a
		}
		return fmt.Sprintf("K2 %s %s %s %s", info.coq, a, b, coqBool(c.Alias))
	case "1":
		return fmt.Sprintf("K1 %s %s", info.coq, resCoqVec(c.vec(0), rng))
	case "mul":
		return fmt.Sprintf("KMultiply %s %s", resCoqVec(c.vec(0), rng), resCoqZ(z(0)))
	case "mulby", "multo":
		return fmt.Sprintf("%s %s %s", info.coq, resCoqVec(c.vec(0), rng), f(0))
	case "3":
		return fmt.Sprintf("K3 %s %s %s %s", info.coq, resCoqVec(c.vec(0), rng), resCoqVec(c.vec(1), rng), resCoqVec(c.vec(2), rng))
	case "6":
		parts := make([]string, 6)
		for i := range parts {
			parts[i] = resCoqVec(c.vec(i), rng)
		}
		return "KCompSep " + strings.Join(parts, " ")
	case "cmpshares":
		return fmt.Sprintf("KCompareShares %s %s", resCoqFloats(c.FL), resCoqFloats(c.FR))
	}
	panic("unknown signature for " + c.Fn)
}

func (o *ResObs) coq() string {
	vec := func() string {
		if o.Nil {
			return "None"
		}
		v := o.Res
		if v == nil {
			v = ResVec{}
		}
		return resCoqVec(&v, nil)
	}
	switch o.Kind {
	case "res":
		return "ORes " + vec()
	case "resb":
		return "OResB " + vec() + " " + coqBool(o.B)
	case "bool":
		return "OBool " + coqBool(o.B)
	case "int":
		return "OInt " + resCoqZ(o.I)
	case "flt":
		return "OFlt " + resFraw(resParseFloat(o.F))
	case "parse":
		return fmt.Sprintf("OParse %s %s", coqBool(o.Ok), resCoqZ(o.I))
	case "key":
		if o.Key == nil || *o.Key == "" {
			return "OKey None"
		}
		return fmt.Sprintf("OKey (Some %d)", resKeyID(*o.Key))
	case "panic":
		return "OPanic"
	}
	panic("unknown observation kind " + o.Kind)
}

func (c *ResCase) coq(rng *Rng) string {
	return fmt.Sprintf("(%s, %s, %d)", c.coqCall(rng), c.Obs.coq(), c.Obs.Mut)
}

// ---- running one case against the real code ----
func resBuild(v *ResVec) *resources.Resource {
	if v == nil {
		return nil
	}
	m := make(map[string]resources.Quantity, len(*v))
	for k, x := range *v {
		m[k] = resources.Quantity(x)
	}
	return resources.NewResourceFromMap(m)
}
func resSnapshot(r *resources.Resource) ResVec {
	if r == nil {
		return nil
	}
	out := ResVec{}
	for k, v := range r.Resources {
		out[k] = int64(v)
	}
	return out
}
func resSame(r *resources.Resource, snap *ResVec) bool {
	if r == nil || snap == nil {
		return r == nil && snap == nil
	}
	if r.Resources == nil || len(r.Resources) != len(*snap) {
		return false
	}
	for k, v := range *snap {
		if w, ok := r.Resources[k]; !ok || int64(w) != v {
			return false
		}
	}
	return true
}
func resMapPtr(r *resources.Resource) uintptr {
	if r == nil || r.Resources == nil {
		return 0
	}
	return reflect.ValueOf(r.Resources).Pointer()
}
func resErrCode(err error) int64 {
	if err == nil {
		return 0
	}
	msg := err.Error()
	switch {
	case strings.Contains(msg, "overflow"):
		return 2
	case strings.Contains(msg, "suffix"):
		return 3
	default:
		return 1
	}
}

func runResCase(c *ResCase) {
	info, ok := resFns[c.Fn]
	if !ok {
		panic("unknown function " + c.Fn)
	}
	obs := &ResObs{}
	c.Obs = obs
	// arguments
	nres := map[string]int{"2": 2, "1": 1, "3": 3, "6": 6, "mul": 1, "mulby": 1, "multo": 1}[info.sig]
	args := make([]*resources.Resource, nres)
	for i := 0; i < nres; i++ {
		args[i] = resBuild(c.vec(i))
	}
	if c.Alias && nres >= 2 {
		args[1] = args[0]
	}
	z := func(i int) resources.Quantity {
		if i < len(c.Z) {
			return resources.Quantity(c.Z[i])
		}
		return 0
	}
	fl := func(i int) float64 {
		if i < len(c.F) {
			return resParseFloat(c.F[i])
		}
		return 0
	}
	floats := func(l []string) []float64 {
		out := make([]float64, len(l))
		for i, s := range l {
			out[i] = resParseFloat(s)
		}
		return out
	}
	var result *resources.Resource // returned object that must be new
	mutatesReceiver := false
	setRes := func(r *resources.Resource) {
		obs.Kind = "res"
		obs.Nil = r == nil
		obs.Res = resSnapshot(r)
	}
	setBool := func(b bool) { obs.Kind, obs.B = "bool", b }
	setInt := func(i int64) { obs.Kind, obs.I = "int", i }
	setFlt := func(f float64) {
		obs.Kind, obs.F, obs.FText = "flt", resFloatBits(f), strconv.FormatFloat(f, 'g', -1, 64)
	}
	func() {
		defer func() {
			if e := recover(); e != nil {
				*obs = ResObs{Kind: "panic", Msg: fmt.Sprint(e)}
			}
		}()
		switch c.Fn {
		case "addVal":
			setInt(int64(resources.VerifAddVal(z(0), z(1))))
		case "subVal":
			setInt(int64(resources.VerifSubVal(z(0), z(1))))
		case "mulVal":
			setInt(int64(resources.VerifMulVal(z(0), z(1))))
		case "mulValRatio":
			setInt(int64(resources.VerifMulValRatio(z(0), fl(0))))
		case "parse":
			s := string(c.bytes())
			q, err := resources.VerifParse(s, c.Milli)
			// the exported wrappers must agree with parse
			var q2 resources.Quantity
			var err2 error
			if c.Milli {
				q2, err2 = resources.ParseVCore(s)
			} else {
				q2, err2 = resources.ParseQuantity(s)
			}
			if q != q2 || (err == nil) != (err2 == nil) {
				panic("ParseQuantity/ParseVCore disagree with parse")
			}
			obs.Kind = "parse"
			obs.Ok = err == nil
			if err == nil {
				obs.I = int64(q)
			} else {
				obs.I = resErrCode(err)
				obs.Msg = err.Error()
				if q != 0 {
					panic("parse returned an error together with a non-zero value")
				}
			}
		case "Add":
			result = resources.Add(args[0], args[1])
			setRes(result)
		case "Sub":
			result = resources.Sub(args[0], args[1])
			setRes(result)
		case "AddTo":
			mutatesReceiver = true
			args[0].AddTo(args[1])
			setRes(args[0])
		case "SubFrom":
			mutatesReceiver = true
			args[0].SubFrom(args[1])
			setRes(args[0])
		case "SubOnlyExisting":
			result = resources.SubOnlyExisting(args[0], args[1])
			setRes(result)
		case "AddOnlyExisting":
			result = resources.AddOnlyExisting(args[0], args[1])
			setRes(result)
		case "SubEliminateNegative":
			result = resources.SubEliminateNegative(args[0], args[1])
			setRes(result)
		case "SubErrorNegative":
			var err error
			result, err = resources.SubErrorNegative(args[0], args[1])
			setRes(result)
			obs.Kind, obs.B = "resb", err != nil
		case "FitIn":
			setBool(args[0].FitIn(args[1]))
		case "FitInMaxUndef":
			setBool(args[0].FitInMaxUndef(args[1]))
		case "FitInActual":
			setBool(args[0].FitInActual(args[1]))
		case "StrictlyGreaterThan":
			setBool(resources.StrictlyGreaterThan(args[0], args[1]))
		case "StrictlyGreaterThanOrEquals":
			setBool(resources.StrictlyGreaterThanOrEquals(args[0], args[1]))
		case "StrictlyGreaterThanOnlyExisting":
			setBool(args[0].StrictlyGreaterThanOnlyExisting(args[1]))
		case "StrictlyGreaterThanOrEqualsOnlyExisting":
			setBool(args[0].StrictlyGreaterThanOrEqualsOnlyExisting(args[1]))
		case "ComponentWiseMin":
			result = resources.ComponentWiseMin(args[0], args[1])
			setRes(result)
		case "ComponentWiseMinOnlyExisting":
			result = resources.ComponentWiseMinOnlyExisting(args[0], args[1])
			setRes(result)
		case "ComponentWiseMax":
			result = resources.ComponentWiseMax(args[0], args[1])
			setRes(result)
		case "MergeIfNotPresent":
			result = resources.MergeIfNotPresent(args[0], args[1])
			setRes(result)
		case "Equals":
			setBool(resources.Equals(args[0], args[1]))
		case "DeepEquals":
			setBool(resources.DeepEquals(args[0], args[1]))
		case "EqualsOrEmpty":
			setBool(resources.EqualsOrEmpty(args[0], args[1]))
		case "MatchAny":
			setBool(args[0].MatchAny(args[1]))
		case "FitInScore":
			setFlt(args[0].FitInScore(args[1]))
		case "CalculateAbsUsedCapacity":
			result = resources.CalculateAbsUsedCapacity(args[0], args[1])
			setRes(result)
		case "DominantResourceType":
			k := args[0].DominantResourceType(args[1])
			obs.Kind, obs.Key = "key", &k
		case "TypeMatching":
			setInt(int64(args[0].TypeMatching(args[1])))
		case "IsZero":
			setBool(resources.IsZero(args[0]))
		case "IsEmpty":
			setBool(args[0].IsEmpty())
		case "HasNegativeValue":
			setBool(args[0].HasNegativeValue())
		case "StrictlyGreaterThanZero":
			setBool(resources.StrictlyGreaterThanZero(args[0]))
		case "Prune":
			mutatesReceiver = true
			args[0].Prune()
			setRes(args[0])
		case "Clone":
			result = args[0].Clone()
			setRes(result)
		case "Multiply":
			result = resources.Multiply(args[0], int64(z(0)))
			setRes(result)
		case "MultiplyBy":
			result = resources.MultiplyBy(args[0], fl(0))
			setRes(result)
		case "MultiplyTo":
			mutatesReceiver = true
			args[0].MultiplyTo(fl(0))
			setRes(args[0])
		case "getFairShare":
			setFlt(resources.VerifGetFairShare(args[0], args[1], args[2]))
		case "CompUsageRatio":
			setInt(int64(resources.CompUsageRatio(args[0], args[1], args[2])))
		case "FairnessRatio":
			setFlt(resources.FairnessRatio(args[0], args[1], args[2]))
		case "CompUsageRatioSeparately":
			setInt(int64(resources.CompUsageRatioSeparately(args[0], args[1], args[2], args[3], args[4], args[5])))
		case "compareShares":
			l, r := floats(c.FL), floats(c.FR)
			l0, r0 := append([]float64{}, l...), append([]float64{}, r...)
			setInt(int64(resources.VerifCompareShares(l, r)))
			for i := range l {
				if math.Float64bits(l[i]) != math.Float64bits(l0[i]) {
					obs.Mut = 1
				}
			}
			for i := range r {
				if math.Float64bits(r[i]) != math.Float64bits(r0[i]) {
					obs.Mut = 1
				}
			}
		default:
			panic("function not wired: " + c.Fn)
		}
	}()
	// non-mutation: every argument still has its original content (the receiver of the in-place
	// methods excepted), the result is a new object, Zero is still empty
	for i := 0; i < nres; i++ {
		if mutatesReceiver && (i == 0 || c.Alias) {
			continue
		}
		src := c.vec(i)
		if c.Alias && i == 1 {
			src = c.vec(0)
		}
		if !resSame(args[i], src) {
			obs.Mut = 1
		}
	}
	if result != nil {
		for i := 0; i < nres; i++ {
			if args[i] != nil && (args[i] == result || resMapPtr(args[i]) == resMapPtr(result)) {
				obs.Mut = 2
			}
		}
		if result == resources.Zero || resMapPtr(result) == resMapPtr(resources.Zero) {
			obs.Mut = 2
		}
	}
	if resources.Zero == nil || len(resources.Zero.Resources) != 0 {
		obs.Mut = 3
		resources.Zero = resources.NewResource()
	}
}

func (c *ResCase) nontrivial() bool {
	if c.Obs == nil || c.Obs.Kind == "panic" {
		return false
	}
	nonEmpty := 0
	for _, v := range c.R {
		if v != nil && len(*v) > 0 {
			nonEmpty++
		}
	}
	switch resFns[c.Fn].sig {
	case "vals", "valratio":
		return len(c.Z) > 0 && c.Z[0] != 0
	case "parse":
		return len(c.bytes()) > 0
	case "cmpshares":
		return len(c.FL)+len(c.FR) > 0
	case "2":
		return nonEmpty == 2 || (c.Alias && nonEmpty >= 1)
	default:
		return nonEmpty >= 1
	}
}

const resRequires = `From YK Require Import Oracles.ResCheck.
From Coq Require Import List ZArith. Import ListNotations. Open Scope Z_scope.`

func resEngine(o *Opts) {
	// the calculators log a warning with a stack trace on every saturation
	log.UpdateLoggingConfig(map[string]string{"log.level": "PANIC"})
	rng := NewRng(o.Seed)
	st := NewStats("res", o.Seed, "one call of one function of pkg/common/resources per case (all exported vector operations and predicates, the four calculators, parse); vectors over <= 4 keys of a pool of 5 with values from the int64 extremes / powers of two / small / uniform, second operand correlated with the first (equal, off by one, complement to MaxInt64, negated, sub/superset of keys), nil / empty / aliased arguments; ratios incl. 0, +-1, fractions, huge, tiny, products next to 2^63, NaN/Inf; quantity strings from a grammar aware generator (valid, unicode spaces, wrong case suffixes, signs, 19/20 digit numbers, inner spaces, empty, malformed UTF-8) plus raw bytes; non-trivial = non-empty operands (vectors), non-zero operand (calculators), non-empty string; distinct by hash of call and observation")
	var all ResCases
	if o.Replay != "" {
		readJSON(o.Replay, &all)
	} else {
		all.Cases = resGenerate(rng.Fork(), o.N, o.Tier)
		if o.Tier == "thorough" && o.Shard == 1 {
			// deterministic sweep of the UTF-8 decoder / White_Space table behind strings.TrimSpace
			all.Cases = resExhaustiveTrim()
		}
	}
	shuffle := NewRng(o.Seed ^ 0x5eed)
	terms := make([]string, len(all.Cases))
	for i := range all.Cases {
		c := &all.Cases[i]
		runResCase(c)
		terms[i] = c.coq(shuffle)
		st.Count("fn." + c.Fn)
		st.Count("obs." + c.Obs.Kind)
		if c.Alias {
			st.Count("arg.aliased")
		}
		for _, v := range c.R {
			if v == nil {
				st.Count("arg.nil")
			} else if len(*v) == 0 {
				st.Count("arg.empty")
			}
		}
		if c.Obs.Kind == "panic" {
			st.Panics++
		}
		if c.Obs.Mut != 0 {
			st.Count("mutation")
		}
		if c.Obs.Kind == "parse" {
			if c.Obs.Ok {
				st.Count("parse.ok")
			} else {
				st.Count(fmt.Sprintf("parse.err%d", c.Obs.I))
			}
		}
		st.Case(c.Fn+" "+terms[i], c.nontrivial(), c)
	}
	base := filepath.Join(o.OutDir, fmt.Sprintf("cases_res_%d", o.Shard))
	var b strings.Builder
	b.WriteString(resRequires + "\n")
	b.WriteString("Definition cases : list rcase := [\n " + strings.Join(terms, ";\n ") + "\n].\n")
	b.WriteString("Definition M := Eval vm_compute in res_check cases.\nOpen Scope N_scope.\nPrint M.\n")
	writeFile(base+".v", b.String())
	writeJSON(base+".json", all)
	st.CasesFile, st.CasesJSON = base+".v", base+".json"
	if st.Samples == nil {
		st.Samples = []any{} // the driver indexes the list: never null
	}
	st.Write(base + ".stats.json")
}

func init() { engines["res"] = resEngine }
