package main

import (
	"fmt"
	"path/filepath"
	"sort"
	"strings"

	"github.com/apache/yunikorn-core/pkg/common/configs"
	"github.com/apache/yunikorn-core/pkg/common/resources"
	"github.com/apache/yunikorn-core/pkg/common/security"
	"github.com/apache/yunikorn-core/pkg/scheduler/ugm"
)

// ---- engine "ugm": ugm.Manager driven through the verif hook (fresh manager per history) ----

type UgmLimit struct {
	Users   []string          `json:"users,omitempty"`
	Groups  []string          `json:"groups,omitempty"`
	Max     map[string]string `json:"max,omitempty"` // configuration strings ("abc" = parse error)
	MaxApps uint64            `json:"maxapps,omitempty"`
}
type UgmQueue struct {
	Name   string     `json:"name"`
	Limits []UgmLimit `json:"limits,omitempty"`
	Queues []UgmQueue `json:"queues,omitempty"`
}
type UgmApp struct {
	ID     string   `json:"id"`
	User   string   `json:"user"`
	Groups []string `json:"groups,omitempty"`
	Path   string   `json:"path"`
}

// UgmOp is one generator operation.
//
//	sched:  CanRunApp, Headroom, and Increase when both admit the ask (what the scheduler does)
//	force:  Increase without asking (recovery)
//	dec:    Decrease of the allocation made by op number Alloc (skipped when that op made none);
//	        removeApp is set when it is the last live allocation of the application, unless
//	        Remove overrides it ("y"/"n": undisciplined stream; "keep": pending asks remain)
//	finish: Decrease of an empty resource with removeApp (application removed, nothing allocated)
//	decall: Decrease of the sum of the live allocations with removeApp (RemoveAllAllocations)
//	head / can: Headroom / CanRunApp alone;   conf: UpdateConfig
type UgmOp struct {
	K      string           `json:"k"`
	App    int              `json:"app,omitempty"`
	Res    map[string]int64 `json:"res,omitempty"`
	Alloc  int              `json:"alloc,omitempty"`
	Remove string           `json:"remove,omitempty"`
	Conf   *UgmQueue        `json:"conf,omitempty"`
	Out    []string         `json:"out,omitempty"` // what the implementation answered (informational)
}
type UgmCase struct {
	Note        string   `json:"note,omitempty"`
	Users       []string `json:"users"`
	Groups      []string `json:"groups"`
	Paths       []string `json:"paths"`
	Apps        []UgmApp `json:"apps"`
	Disciplined bool     `json:"disciplined"`
	Ops         []UgmOp  `json:"ops"`
}
type UgmCases struct {
	Cases []UgmCase `json:"cases"`
}

// ---- interning (see coq/Ugm/Tracker.v) ----
func ugmIDNum(s, prefix string) uint64 {
	var n uint64
	if _, err := fmt.Sscanf(s, prefix+"%d", &n); err != nil {
		panic("ugm: cannot intern " + s)
	}
	return n
}
func ugmUser(s string) uint64 {
	switch s {
	case "":
		return 0
	case "*":
		return 1
	}
	return 1 + ugmIDNum(s, "u")
}
func ugmGroup(s string) uint64 {
	switch s {
	case "":
		return 0
	case "*":
		return 1
	}
	return 1 + ugmIDNum(s, "g")
}
func ugmAppID(s string) uint64 {
	if s == "" {
		return 0
	}
	return ugmIDNum(s, "app")
}

var ugmQueueNames = map[string]uint64{"root": 0, "a": 1, "b": 2, "c": 3, "d": 4, "e": 5}

func ugmQName(s string) uint64 {
	l := strings.ToLower(s)
	id, ok := ugmQueueNames[l]
	if !ok {
		panic("ugm: unknown queue name " + s)
	}
	if l != s {
		return 1000 + id
	}
	return id
}

var ugmTypes = map[string]uint64{"memory": 0, "gpu": 1, "pods": 2}

func ugmNList(xs []uint64) string {
	items := make([]string, len(xs))
	for i, x := range xs {
		items[i] = fmt.Sprintf("%d", x)
	}
	return "[" + strings.Join(items, ";") + "]"
}
func ugmPath(p string) string {
	if p == "" {
		return "[]"
	}
	parts := strings.Split(p, ".")
	xs := make([]uint64, len(parts))
	for i, s := range parts {
		xs[i] = ugmQName(s)
	}
	return ugmNList(xs)
}
func ugmResMap(m map[string]int64) string {
	keys := make([]string, 0, len(m))
	for k := range m {
		keys = append(keys, k)
	}
	sort.Slice(keys, func(i, j int) bool { return ugmTypes[keys[i]] < ugmTypes[keys[j]] })
	neg := false
	for _, k := range keys {
		if _, ok := ugmTypes[k]; !ok {
			panic("ugm: unknown resource type " + k)
		}
		if m[k] < 0 {
			neg = true
		}
	}
	items := make([]string, len(keys))
	for i, k := range keys {
		v := m[k]
		if neg {
			if v < 0 {
				items[i] = fmt.Sprintf("(%d,true,%d)", ugmTypes[k], uint64(-v))
			} else {
				items[i] = fmt.Sprintf("(%d,false,%d)", ugmTypes[k], v)
			}
		} else {
			items[i] = fmt.Sprintf("(%d,%d)", ugmTypes[k], v)
		}
	}
	if neg {
		return "(RZ [" + strings.Join(items, ";") + "])"
	}
	return "(R [" + strings.Join(items, ";") + "])"
}
func ugmORes(r ugm.VerifRes) string {
	if r.Nil {
		return "None"
	}
	return "(Some " + ugmResMap(r.Res) + ")"
}
func ugmResOf(r *resources.Resource) ugm.VerifRes {
	if r == nil {
		return ugm.VerifRes{Nil: true}
	}
	out := ugm.VerifRes{Res: map[string]int64{}}
	for k, v := range r.Resources {
		out.Res[k] = int64(v)
	}
	return out
}

func ugmQT(q *ugm.VerifQT) string {
	apps := make([]uint64, len(q.Apps))
	for i, a := range q.Apps {
		apps[i] = ugmAppID(a)
	}
	children := make([]string, len(q.Children))
	for i, c := range q.Children {
		children[i] = fmt.Sprintf("(%d,%s)", ugmQName(c.Name), ugmQT(c))
	}
	return fmt.Sprintf("(QT %d %s %s %s %s %d %s [%s])", ugmQName(q.Name), ugmPath(q.Path), ugmORes(q.Usage), ugmNList(apps),
		ugmORes(q.Max), q.MaxApps, coqBool(q.UseWildCard), strings.Join(children, ";"))
}
func ugmUT(u *ugm.VerifUser) string {
	items := []string{}
	for _, a := range sortedKeys(u.AppGroups) {
		if u.HasGroup[a] {
			items = append(items, fmt.Sprintf("(%d,Some %d)", ugmAppID(a), ugmGroup(u.AppGroups[a])))
		} else {
			items = append(items, fmt.Sprintf("(%d,None)", ugmAppID(a)))
		}
	}
	return fmt.Sprintf("(mkUT [%s] %s)", strings.Join(items, ";"), ugmQT(u.Root))
}
func ugmGT(g *ugm.VerifGroup) string {
	items := []string{}
	for _, a := range sortedKeys(g.Apps) {
		items = append(items, fmt.Sprintf("(%d,%d)", ugmAppID(a), ugmUser(g.Apps[a])))
	}
	return fmt.Sprintf("(mkGT [%s] %s)", strings.Join(items, ";"), ugmQT(g.Root))
}
func ugmLimitCfg(l ugm.VerifLimit) string {
	return fmt.Sprintf("(mkLimit %s %d)", ugmORes(l.Max), l.MaxApps)
}
func ugmCfgMaps(st *ugm.VerifState) string {
	lim := func(m map[string]ugm.VerifLimit) string {
		items := []string{}
		for _, p := range sortedKeys(m) {
			items = append(items, fmt.Sprintf("(%s,%s)", ugmPath(p), ugmLimitCfg(m[p])))
		}
		return "[" + strings.Join(items, ";") + "]"
	}
	sub := func(m map[string]map[string]ugm.VerifLimit, intern func(string) uint64) string {
		items := []string{}
		for _, p := range sortedKeys(m) {
			inner := []string{}
			for _, n := range sortedKeys(m[p]) {
				inner = append(inner, fmt.Sprintf("(%d,%s)", intern(n), ugmLimitCfg(m[p][n])))
			}
			items = append(items, fmt.Sprintf("(%s,[%s])", ugmPath(p), strings.Join(inner, ";")))
		}
		return "[" + strings.Join(items, ";") + "]"
	}
	cg := []string{}
	for _, p := range sortedKeys(st.ConfiguredGroups) {
		gs := make([]uint64, len(st.ConfiguredGroups[p]))
		for i, g := range st.ConfiguredGroups[p] {
			gs[i] = ugmGroup(g)
		}
		cg = append(cg, fmt.Sprintf("(%s,%s)", ugmPath(p), ugmNList(gs)))
	}
	return fmt.Sprintf("(mkCfg %s %s [%s] %s %s)", lim(st.UserWild), lim(st.GroupWild), strings.Join(cg, ";"),
		sub(st.UserLimits, ugmUser), sub(st.GroupLimits, ugmGroup))
}

// ugmSnapshot is the canonical text of the state, per tracker, used to compute the difference.
type ugmSnapshot struct {
	users, groups map[string]string
	cfg           string
}

func ugmSnap(st *ugm.VerifState) *ugmSnapshot {
	s := &ugmSnapshot{users: map[string]string{}, groups: map[string]string{}, cfg: ugmCfgMaps(st)}
	for _, u := range st.Users {
		s.users[u.Name] = ugmUT(u)
	}
	for _, g := range st.Groups {
		s.groups[g.Name] = ugmGT(g)
	}
	return s
}
func ugmDelta(prev, cur *ugmSnapshot) string {
	diff := func(a, b map[string]string, intern func(string) uint64) string {
		items := []string{}
		for _, k := range sortedKeys(b) {
			if a[k] != b[k] {
				items = append(items, fmt.Sprintf("(%d,Some %s)", intern(k), b[k]))
			}
		}
		for _, k := range sortedKeys(a) {
			if _, ok := b[k]; !ok {
				items = append(items, fmt.Sprintf("(%d,None)", intern(k)))
			}
		}
		return "[" + strings.Join(items, ";") + "]"
	}
	cfg := "None"
	if prev.cfg != cur.cfg {
		cfg = "(Some " + cur.cfg + ")"
	}
	return fmt.Sprintf("(mkDelta %s %s %s)", diff(prev.users, cur.users, ugmUser), diff(prev.groups, cur.groups, ugmGroup), cfg)
}

func ugmUgi(a *UgmApp) string {
	gs := make([]uint64, len(a.Groups))
	for i, g := range a.Groups {
		gs[i] = ugmGroup(g)
	}
	return fmt.Sprintf("(%d,%s)", ugmUser(a.User), ugmNList(gs))
}

// configuration -> Coq term and -> configs.QueueConfig
func (q *UgmQueue) coq() string {
	lims := make([]string, len(q.Limits))
	for i, l := range q.Limits {
		us := make([]uint64, len(l.Users))
		for j, u := range l.Users {
			us[j] = ugmUser(u)
		}
		gs := make([]uint64, len(l.Groups))
		for j, g := range l.Groups {
			gs[j] = ugmGroup(g)
		}
		max := "None"
		if r, err := resources.NewResourceFromConf(l.Max); err == nil {
			max = "(Some " + ugmResMap(ugmResOf(r).Res) + ")"
		}
		lims[i] = fmt.Sprintf("mkLim %s %s %s %d", ugmNList(us), ugmNList(gs), max, l.MaxApps)
	}
	qs := make([]string, len(q.Queues))
	for i := range q.Queues {
		qs[i] = q.Queues[i].coq()
	}
	return fmt.Sprintf("(QConf %d [%s] [%s])", ugmQName(q.Name), strings.Join(lims, ";"), strings.Join(qs, ";"))
}
func (q *UgmQueue) toConf() configs.QueueConfig {
	out := configs.QueueConfig{Name: q.Name, Parent: len(q.Queues) > 0}
	for i, l := range q.Limits {
		out.Limits = append(out.Limits, configs.Limit{Limit: fmt.Sprintf("limit-%d", i), Users: l.Users, Groups: l.Groups, MaxResources: l.Max, MaxApplications: l.MaxApps})
	}
	for i := range q.Queues {
		out.Queues = append(out.Queues, q.Queues[i].toConf())
	}
	return out
}
func (q *UgmQueue) valid() bool {
	sc := &configs.SchedulerConfig{Partitions: []configs.PartitionConfig{{Name: "default", Queues: []configs.QueueConfig{q.toConf()}}}}
	return configs.Validate(sc) == nil
}
func (q *UgmQueue) mixedCase() bool {
	if strings.ToLower(q.Name) != q.Name {
		return true
	}
	for i := range q.Queues {
		if q.Queues[i].mixedCase() {
			return true
		}
	}
	return false
}
func (q *UgmQueue) hasLimits() bool {
	if len(q.Limits) > 0 {
		return true
	}
	for i := range q.Queues {
		if q.Queues[i].hasLimits() {
			return true
		}
	}
	return false
}

func ugmResource(m map[string]int64) *resources.Resource {
	r := resources.NewResource()
	for k, v := range m {
		r.Resources[k] = resources.Quantity(v)
	}
	return r
}

// ---- driving the real manager ----
type ugmRun struct {
	c      *UgmCase
	m      *ugm.Manager
	prev   *ugmSnapshot
	steps  []string       // Coq terms (op, ret, delta)
	live   []map[int]bool // per application: generator ops whose allocation is live
	allocs map[int]map[string]int64
	st     *Stats
	// counters for the non-trivial rule
	admitted, denied, decs, confs, reloadsHeld, crashes int
}

func (r *ugmRun) call(opTerm string, f func() string) (crashed bool) {
	ret := ""
	func() {
		defer func() {
			if e := recover(); e != nil {
				crashed = true
			}
		}()
		ret = f()
	}()
	if crashed {
		r.crashes++
		r.steps = append(r.steps, fmt.Sprintf("(%s, RCrash, mkDelta [] [] None)", opTerm))
		return true
	}
	cur := ugmSnap(r.m.VerifState())
	r.steps = append(r.steps, fmt.Sprintf("(%s, %s, %s)", opTerm, ret, ugmDelta(r.prev, cur)))
	r.prev = cur
	return false
}

func (r *ugmRun) ugi(a *UgmApp) security.UserGroup {
	return security.UserGroup{User: a.User, Groups: append([]string{}, a.Groups...)}
}

func (r *ugmRun) holdsUsage() bool {
	for _, l := range r.live {
		if len(l) > 0 {
			return true
		}
	}
	return false
}

// runOp executes one generator op; returns false when the manager panicked (history ends).
func (r *ugmRun) runOp(i int) bool {
	op := &r.c.Ops[i]
	op.Out = nil
	count := func(k string) {
		if r.st != nil {
			r.st.Count(k)
		}
	}
	var a *UgmApp
	if op.K != "conf" {
		a = &r.c.Apps[op.App]
	}
	inc := func(sched bool) bool {
		term := fmt.Sprintf("OInc %s %d (Some %s) %s %s", ugmPath(a.Path), ugmAppID(a.ID), ugmResMap(op.Res), ugmUgi(a), coqBool(sched))
		crashed := r.call(term, func() string {
			r.m.IncreaseTrackedResource(a.Path, a.ID, ugmResource(op.Res), r.ugi(a))
			return "RUnit"
		})
		r.live[op.App][i] = true
		r.allocs[i] = op.Res
		return !crashed
	}
	switch op.K {
	case "sched":
		can := false
		if r.call(fmt.Sprintf("OCanRun %s %d %s", ugmPath(a.Path), ugmAppID(a.ID), ugmUgi(a)), func() string {
			can = r.m.CanRunApp(a.Path, a.ID, r.ugi(a))
			return "RCan " + coqBool(can)
		}) {
			return false
		}
		op.Out = append(op.Out, fmt.Sprintf("can=%v", can))
		if !can {
			count("sched.denied.canrun")
			r.denied++
			return true
		}
		var head *resources.Resource
		if r.call(fmt.Sprintf("OHeadroom %s %d %s", ugmPath(a.Path), ugmAppID(a.ID), ugmUgi(a)), func() string {
			head = r.m.Headroom(a.Path, a.ID, r.ugi(a))
			return "RHead " + ugmORes(ugmResOf(head))
		}) {
			return false
		}
		op.Out = append(op.Out, "headroom="+head.String())
		if !head.FitInMaxUndef(ugmResource(op.Res)) {
			count("sched.denied.headroom")
			r.denied++
			return true
		}
		count("sched.admitted")
		r.admitted++
		return inc(true)
	case "force":
		count("inc.forced")
		return inc(false)
	case "head":
		count("headroom")
		return !r.call(fmt.Sprintf("OHeadroom %s %d %s", ugmPath(a.Path), ugmAppID(a.ID), ugmUgi(a)), func() string {
			head := r.m.Headroom(a.Path, a.ID, r.ugi(a))
			op.Out = append(op.Out, "headroom="+head.String())
			return "RHead " + ugmORes(ugmResOf(head))
		})
	case "can":
		count("canrun")
		return !r.call(fmt.Sprintf("OCanRun %s %d %s", ugmPath(a.Path), ugmAppID(a.ID), ugmUgi(a)), func() string {
			can := r.m.CanRunApp(a.Path, a.ID, r.ugi(a))
			op.Out = append(op.Out, fmt.Sprintf("can=%v", can))
			return "RCan " + coqBool(can)
		})
	case "dec", "finish", "decall":
		var res map[string]int64
		remove := true
		switch op.K {
		case "dec":
			if !r.live[op.App][op.Alloc] {
				count("dec.skipped")
				return true
			}
			res = r.allocs[op.Alloc]
			delete(r.live[op.App], op.Alloc)
			remove = len(r.live[op.App]) == 0
			switch op.Remove {
			case "y":
				remove = true
			case "n", "keep":
				remove = false
			}
		case "finish":
			if len(r.live[op.App]) > 0 {
				count("dec.skipped")
				return true
			}
			res = map[string]int64{}
		case "decall":
			res = map[string]int64{}
			for k := range r.live[op.App] {
				for t, v := range r.allocs[k] {
					res[t] += v
				}
			}
			r.live[op.App] = map[int]bool{}
		}
		count("dec." + op.K)
		if remove {
			count("dec.removeApp")
		}
		r.decs++
		term := fmt.Sprintf("ODec %s %d (Some %s) %s %s", ugmPath(a.Path), ugmAppID(a.ID), ugmResMap(res), ugmUgi(a), coqBool(remove))
		return !r.call(term, func() string {
			r.m.DecreaseTrackedResource(a.Path, a.ID, ugmResource(res), r.ugi(a), remove)
			return "RUnit"
		})
	case "conf":
		count("config")
		if op.Conf.valid() {
			count("config.valid")
		} else {
			count("config.invalid")
		}
		if op.Conf.mixedCase() {
			count("config.mixedcase")
		}
		if r.confs > 0 {
			count("config.reload")
			if r.holdsUsage() {
				count("config.reload.while-holding")
				r.reloadsHeld++
			}
		}
		r.confs++
		return !r.call(fmt.Sprintf("OConfig %s %d", op.Conf.coq(), ugmQName(op.Conf.Name)), func() string {
			err := r.m.UpdateConfig(op.Conf.toConf(), op.Conf.Name)
			op.Out = append(op.Out, fmt.Sprintf("err=%v", err != nil))
			return "RConf " + coqBool(err == nil)
		})
	}
	panic("ugm: unknown op " + op.K)
}

func newUgmRun(c *UgmCase, st *Stats) *ugmRun {
	r := &ugmRun{c: c, m: ugm.VerifNewManager(), st: st, allocs: map[int]map[string]int64{}}
	r.prev = ugmSnap(r.m.VerifState())
	r.live = make([]map[int]bool, len(c.Apps))
	for i := range r.live {
		r.live[i] = map[int]bool{}
	}
	return r
}

func (r *ugmRun) coq(fixed bool) string {
	us := make([]uint64, len(r.c.Users))
	for i, u := range r.c.Users {
		us[i] = ugmUser(u)
	}
	gs := make([]uint64, len(r.c.Groups))
	for i, g := range r.c.Groups {
		gs[i] = ugmGroup(g)
	}
	ps := make([]string, len(r.c.Paths))
	for i, p := range r.c.Paths {
		ps[i] = ugmPath(p)
	}
	return fmt.Sprintf("mkCase %s %s [%s] [0;1;2] %s %s [\n   %s]", ugmNList(us), ugmNList(gs), strings.Join(ps, ";"),
		coqBool(r.c.Disciplined), coqBool(fixed), strings.Join(r.steps, ";\n   "))
}

const ugmRequires = `From YK Require Import Base.Res Ugm.Tracker Ugm.Manager Ugm.UgmSpec Oracles.UgmCheck.
From Coq Require Import List NArith. Import ListNotations. Open Scope N_scope.`

func ugmEngine(o *Opts) {
	rng := NewRng(o.Seed)
	st := NewStats("ugm", o.Seed, "histories of <= 40 Manager calls (scheduler-decided CanRunApp+Headroom+Increase, forced increases, paired decreases, Headroom, CanRunApp, UpdateConfig) over <= 3 users x <= 3 groups x queue trees of depth <= 3 with generated limit layouts (named, wild card, nested, mixed-case names) and reloads derived from the previous configuration while applications hold resources; non-trivial = a configuration with limits was loaded, an increase was admitted and a decrease happened; distinct by hash of the full case with observations")
	var all UgmCases
	replay := o.Replay != ""
	if replay {
		readJSON(o.Replay, &all)
	}
	fixed := o.Variant != "pinned"
	terms := []string{}
	n := o.N
	if replay {
		n = len(all.Cases)
	}
	for i := 0; i < n; i++ {
		var c *UgmCase
		var r *ugmRun
		if replay {
			c = &all.Cases[i]
			r = newUgmRun(c, st)
			for j := range c.Ops {
				if !r.runOp(j) {
					break
				}
			}
		} else {
			all.Cases = append(all.Cases, UgmCase{})
			c = &all.Cases[i]
			r = genUgmCase(rng.Fork(), c, st, o.Tier)
		}
		t := r.coq(fixed)
		terms = append(terms, t)
		st.Panics += r.crashes
		withLimits := false
		for j := range c.Ops {
			if c.Ops[j].K == "conf" && c.Ops[j].Conf.hasLimits() {
				withLimits = true
			}
		}
		st.Case(t, withLimits && r.admitted > 0 && r.decs > 0, c)
		if r.reloadsHeld > 0 {
			st.Count("case.reload-while-holding")
		}
		if !c.Disciplined {
			st.Count("case.undisciplined")
		}
	}
	base := filepath.Join(o.OutDir, fmt.Sprintf("cases_ugm_%d", o.Shard))
	var b strings.Builder
	b.WriteString(ugmRequires + "\n")
	b.WriteString("Definition cases : list ucase := [\n " + strings.Join(terms, ";\n ") + "\n].\n")
	b.WriteString("Definition M := Eval vm_compute in ugm_check cases.\nPrint M.\n")
	writeFile(base+".v", b.String())
	writeJSON(base+".json", all)
	st.CasesFile, st.CasesJSON = base+".v", base+".json"
	st.Write(base + ".stats.json")
}

func init() { engines["ugm"] = ugmEngine }
