package main

import (
	"fmt"
	"go/ast"
	"go/token"
	"go/types"
	"os"
	"sort"
	"strconv"
	"strings"
)

// ---------------------------------------------------------------------------- setting up functions

func (tr *gotrans) addPackage(spec *gotransPkgSpec, p *gtPkg) {
	pc := &gtPkgCtx{spec: spec, p: p}
	tr.pkgs = append(tr.pkgs, pc)
	for _, fs := range spec.Funcs {
		fn := &gtFn{tr: tr, pc: pc, spec: fs, info: p.info}
		name := fs.Name
		litN := 0
		if i := strings.Index(name, "#"); i >= 0 {
			litN, _ = strconv.Atoi(name[i+1:])
			name = name[:i]
		}
		fn.goName = fs.Name
		if strings.HasPrefix(name, "var ") {
			// a package level variable whose initialiser becomes a definition
			vname := strings.TrimPrefix(name, "var ")
			fn.coqName = vname
			if fs.As != "" {
				fn.coqName = fs.As
			}
			for fi, file := range p.files {
				for _, d := range file.Decls {
					gd, ok := d.(*ast.GenDecl)
					if !ok || gd.Tok != token.VAR {
						continue
					}
					for _, sp := range gd.Specs {
						vs := sp.(*ast.ValueSpec)
						for _, n := range vs.Names {
							if n.Name == vname {
								if o, ok := p.info.Defs[n].(*types.Var); ok {
									fn.varObj = o
									fn.obj = o
									fn.srcFile = spec.Dir + "/" + p.names[fi]
									fn.srcLine = tr.l.fset.Position(n.Pos()).Line
								}
							}
						}
					}
				}
			}
			if fn.varObj == nil {
				fn.done = true
				fn.err = "variable not found in " + spec.Dir
			} else {
				tr.byObj[fn.obj] = fn
			}
			pc.fns = append(pc.fns, fn)
			continue
		}
		recvT, fname := "", name
		if i := strings.Index(name, "."); i >= 0 {
			recvT, fname = name[:i], name[i+1:]
		}
		fn.coqName = fname
		if litN > 0 {
			fn.coqName += "_lit" + strconv.Itoa(litN)
		}
		if fs.Crit {
			fn.coqName += "_crit"
		}
		if fs.FragStart != "" {
			fn.coqName += "_frag"
		}
		if len(fs.Skip) > 0 {
			fn.coqName += "_step"
		}
		if fs.As != "" {
			fn.coqName = fs.As
		}
		if gtReserved[fn.coqName] {
			fn.coqName += "_go"
		}
		// find the declaration
		for fi, file := range p.files {
			for _, d := range file.Decls {
				fd, ok := d.(*ast.FuncDecl)
				if !ok || fd.Name.Name != fname || fd.Body == nil {
					continue
				}
				rt := ""
				if fd.Recv != nil && len(fd.Recv.List) == 1 {
					te := fd.Recv.List[0].Type
					if st, ok := te.(*ast.StarExpr); ok {
						te = st.X
					}
					if id, ok := te.(*ast.Ident); ok {
						rt = id.Name
					}
				}
				if rt != recvT {
					continue
				}
				fn.decl = fd
				fn.srcFile = spec.Dir + "/" + p.names[fi]
				fn.srcLine = tr.l.fset.Position(fd.Pos()).Line
			}
		}
		if fn.decl == nil {
			fn.done = true
			fn.err = "function not found in " + spec.Dir
		} else if litN > 0 {
			n := 0
			ast.Inspect(fn.decl.Body, func(m ast.Node) bool {
				if l, ok := m.(*ast.FuncLit); ok {
					n++
					if n == litN {
						fn.lit = l
					}
				}
				return true
			})
			if fn.lit == nil {
				fn.done = true
				fn.err = fmt.Sprintf("function literal #%d not found", litN)
			} else {
				fn.srcLine = tr.l.fset.Position(fn.lit.Pos()).Line
			}
		} else {
			fn.obj = p.info.Defs[fn.decl.Name]
			if fn.obj != nil {
				tr.byObj[fn.obj] = fn
			}
		}
		pc.fns = append(pc.fns, fn)
	}
	for _, fn := range pc.fns {
		tr.globals[fn.coqName] = true
		tr.globals[fn.coqName+"_prefix"] = true
		tr.globals[fn.coqName+"_skipped"] = true
	}
}

func (tr *gotrans) run(final bool) {
	tr.final = final
	if final {
		for _, r := range tr.recList {
			r.frozen = true
		}
	}
	for _, pc := range tr.pkgs {
		for _, fn := range pc.fns {
			if (fn.decl != nil && (fn.lit != nil || fn.obj != nil)) || fn.varObj != nil {
				fn.done = false
				fn.err = ""
			}
		}
	}
	for _, pc := range tr.pkgs {
		for _, fn := range pc.fns {
			if !fn.done {
				tr.translate(fn)
			}
		}
	}
}

// translate produces the definition of one function (or records why it is outside the subset)
func (tr *gotrans) translate(fn *gtFn) {
	if fn.done {
		return
	}
	fn.done = true // also stops recursion: a recursive call finds done && text == "" -> handled by callee==f check
	saved := tr.cur
	tr.cur = fn.pc
	defer func() { tr.cur = saved }()
	defer func() {
		if r := recover(); r != nil {
			if e, ok := r.(gtErr); ok {
				fn.err = e.msg
				fn.text = ""
				return
			}
			panic(r)
		}
	}()
	fn.err = ""
	fn.deps = map[*gtFn]bool{}
	fn.building = true
	defer func() { fn.building = false }()
	fn.build()
}

func (f *gtFn) build() {
	f.vars = map[*types.Var]*gtVar{}
	f.names = map[string]bool{}
	f.derefs = map[*types.Var]string{}
	f.params = nil
	f.recv = nil
	f.outs = nil
	f.monadic = false
	if f.varObj != nil {
		f.buildVar()
		return
	}
	var body *ast.BlockStmt
	if f.lit != nil {
		f.ftype = f.lit.Type
		body = f.lit.Body
	} else {
		f.ftype = f.decl.Type
		body = f.decl.Body
	}
	f.body = body.List
	f.prefix = ""
	f.hasPre = false

	// receiver
	var recvObj *types.Var
	if f.lit == nil && f.decl.Recv != nil && len(f.decl.Recv.List) == 1 && len(f.decl.Recv.List[0].Names) == 1 {
		recvObj, _ = f.info.Defs[f.decl.Recv.List[0].Names[0]].(*types.Var)
	}
	if f.lit == nil && f.decl.Recv != nil && recvObj == nil {
		// unnamed receiver: cannot be used in the body
		sig := f.obj.Type().(*types.Signature)
		recvObj = sig.Recv()
	}
	if f.spec.Crit {
		if recvObj == nil {
			gtFail("critical section of a function without receiver")
		}
		cut := -1
		for i, s := range f.body {
			es, ok := s.(*ast.ExprStmt)
			if !ok || !gtIsLockCall(es.X) {
				continue
			}
			sel := es.X.(*ast.CallExpr).Fun.(*ast.SelectorExpr)
			if id, ok := sel.X.(*ast.Ident); ok && f.info.Uses[id] == recvObj && (sel.Sel.Name == "Lock" || sel.Sel.Name == "RLock") {
				cut = i
				break
			}
		}
		if cut < 0 {
			gtFail("no top level %s.Lock() / RLock() statement", recvObj.Name())
		}
		var parts []string
		for _, s := range f.body[:cut] {
			if !f.stripped(s) {
				parts = append(parts, f.pinText(s))
			}
		}
		f.prefix = strings.Join(parts, "\n")
		f.hasPre = true
		f.body = f.body[cut+1:]
	}
	f.skipped = ""
	if len(f.spec.Skip) > 0 {
		var kept []ast.Stmt
		var texts []string
		hits := make([]int, len(f.spec.Skip))
		for _, st := range f.body {
			text := gtNodeText(f.tr.l.fset, st)
			skip := false
			for i, pre := range f.spec.Skip {
				if strings.HasPrefix(text, pre) {
					hits[i]++
					skip = true
				}
			}
			if skip {
				texts = append(texts, f.pinText(st))
			} else {
				kept = append(kept, st)
			}
		}
		for i, h := range hits {
			if h != 1 {
				gtFail("skip anchor %q matches %d top level statements", f.spec.Skip[i], h)
			}
		}
		f.body = kept
		f.skipped = strings.Join(texts, "\n")
	}
	f.frag = false
	f.fragOut = nil
	var fragAfter []ast.Stmt
	fragTail := false
	if f.spec.FragStart != "" {
		start, end := -1, -1
		for i, s := range f.body {
			text := gtNodeText(f.tr.l.fset, s)
			if start < 0 {
				if strings.HasPrefix(text, f.spec.FragStart) {
					start = i
					if f.spec.FragEnd == "" {
						end = i
						break
					}
					if f.spec.FragEnd == "$" {
						end = len(f.body) - 1
						fragTail = true
						break
					}
				}
				continue
			}
			if strings.HasPrefix(text, f.spec.FragEnd) {
				end = i
				break
			}
		}
		if start < 0 || end < 0 {
			var heads []string
			for _, s := range f.body {
				t := gtNodeText(f.tr.l.fset, s)
				if len(t) > 24 {
					t = t[:24]
				}
				heads = append(heads, t)
			}
			gtFail("fragment anchors not found (%q .. %q); statements start with: %q", f.spec.FragStart, f.spec.FragEnd, heads)
		}
		fragAfter = f.body[end+1:]
		f.body = f.body[start : end+1]
		f.frag = true
	}
	bodyNode := &ast.BlockStmt{Lbrace: body.Lbrace, List: f.body, Rbrace: body.Rbrace}
	if len(f.body) > 0 {
		bodyNode.Lbrace = f.body[0].Pos() - 1
		if f.frag {
			bodyNode.Rbrace = f.body[len(f.body)-1].End()
		}
	}
	// variables a fragment reads / the rest of the function reads after it
	usedIn := func(nodes []ast.Stmt) map[*types.Var]bool {
		m := map[*types.Var]bool{}
		for _, s := range nodes {
			ast.Inspect(s, func(n ast.Node) bool {
				if id, ok := n.(*ast.Ident); ok {
					if v, ok := f.info.Uses[id].(*types.Var); ok && !v.IsField() {
						m[v] = true
					}
				}
				return true
			})
		}
		return m
	}
	var fragUses map[*types.Var]bool
	if f.frag {
		fragUses = usedIn(f.body)
		if recvObj != nil && !fragUses[recvObj] {
			recvObj = nil
		}
		bad := false
		ast.Inspect(bodyNode, func(n ast.Node) bool {
			if _, ok := n.(*ast.ReturnStmt); ok {
				bad = true
			}
			return true
		})
		if bad && !fragTail {
			gtFail("return inside a fragment that does not extend to the end of the function")
		}
	}

	if recvObj != nil {
		gv := f.declare(recvObj)
		gv.param = true
		if gv.t.k == gkPtr {
			// a receiver that is only used to select fields and to call methods that themselves take a
			// non-nil receiver is translated for non-nil receivers only (the record itself); any other
			// use (comparison with nil, passing it on, calling a nil-safe method) makes it an option
			nilCmp := false
			var stack []ast.Node
			ast.Inspect(bodyNode, func(n ast.Node) bool {
				if n == nil {
					stack = stack[:len(stack)-1]
					return true
				}
				stack = append(stack, n)
				id, ok := n.(*ast.Ident)
				if !ok || f.info.Uses[id] != recvObj {
					return true
				}
				// parent (skipping parentheses)
				pi := len(stack) - 2
				for pi >= 0 {
					if _, ok := stack[pi].(*ast.ParenExpr); !ok {
						break
					}
					pi--
				}
				if pi < 0 {
					nilCmp = true
					return true
				}
				sel, ok := stack[pi].(*ast.SelectorExpr)
				if !ok || gtUnparen(sel.X) != ast.Expr(id) {
					nilCmp = true
					return true
				}
				if gtLockNames[sel.Sel.Name] {
					return true // stripped
				}
				s, ok := f.info.Selections[sel]
				if !ok {
					nilCmp = true
					return true
				}
				if s.Kind() == types.FieldVal {
					return true
				}
				if fo, ok := s.Obj().(*types.Func); ok {
					if callee, ok := f.tr.byObj[fo.Origin()]; ok && callee != f {
						if !callee.done {
							f.tr.translate(callee)
						}
						if callee.err == "" && callee.recv != nil && (callee.recv.nonNil || callee.recv.t.k == gkRec) {
							return true
						}
					}
				}
				if os.Getenv("GOTRANS_DEBUG") != "" {
					fmt.Fprintf(os.Stderr, "nilable receiver in %s: use at %s (%T)\n", f.goName, f.pos(id), stack[pi])
				}
				nilCmp = true
				return true
			})
			gv.nonNil = !nilCmp || f.spec.Crit
			if gv.t.elem.k != gkRec {
				gtFail("receiver type is outside the subset")
			}
		}
		f.recv = gv
		f.params = append(f.params, gv)
	}
	if f.lit != nil {
		for _, v := range gtCaptured(f.info, f.lit) {
			gv := f.declare(v)
			gv.param = true
			f.params = append(f.params, gv)
		}
	}
	for _, fl := range f.ftype.Params.List {
		if len(fl.Names) == 0 {
			if f.frag {
				continue
			}
			gtFail("unnamed parameter")
		}
		for _, n := range fl.Names {
			obj, _ := f.info.Defs[n].(*types.Var)
			if obj == nil {
				gtFail("parameter %s", n.Name)
			}
			if f.frag && !fragUses[obj] {
				continue
			}
			if _, ok := obj.Type().(*types.Slice); ok && fl.Type != nil {
				if _, isEll := fl.Type.(*ast.Ellipsis); isEll {
					gtFail("variadic function")
				}
			}
			gv := f.declare(obj)
			gv.param = true
			f.params = append(f.params, gv)
		}
	}
	if f.frag {
		// locals declared before the fragment that it reads: further inputs, in order of declaration
		var extra []*types.Var
		for v := range fragUses {
			if _, ok := f.vars[v]; ok {
				continue
			}
			if v.Pkg() != nil && v.Parent() == v.Pkg().Scope() {
				continue
			}
			if gtInside(v, bodyNode) {
				continue
			}
			extra = append(extra, v)
		}
		sort.Slice(extra, func(i, j int) bool { return extra[i].Pos() < extra[j].Pos() })
		for _, v := range extra {
			gv := f.declare(v)
			gv.param = true
			f.params = append(f.params, gv)
		}
	}
	// results
	var rts []*gtT
	var named []*types.Var
	if f.frag && fragTail {
		f.frag = false // the rest is that of a function: results and returns of the enclosing function
		fragTail = true
	}
	if f.frag {
		// what the fragment hands back: variables it assigns that live outside it, and variables it
		// declares that are read afterwards
		after := usedIn(fragAfter)
		seen := map[*types.Var]bool{}
		for _, w := range f.writes(bodyNode) {
			if !w.whole || seen[w.v] {
				continue
			}
			if gtInside(w.v, bodyNode) && !after[w.v] {
				continue
			}
			seen[w.v] = true
			f.fragOut = append(f.fragOut, w.v)
			rts = append(rts, f.tr.typeOf(w.v.Type()))
		}
	} else if f.ftype.Results != nil {
		for _, fl := range f.ftype.Results.List {
			t := f.typeOfTypeExpr(fl.Type)
			if len(fl.Names) == 0 {
				rts = append(rts, t)
			}
			for _, n := range fl.Names {
				rts = append(rts, t)
				if obj, ok := f.info.Defs[n].(*types.Var); ok && obj != nil {
					named = append(named, obj)
				}
			}
		}
	}
	switch len(rts) {
	case 0:
		f.results = gtUnit
	case 1:
		f.results = rts[0]
	default:
		f.results = &gtT{k: gkTuple, tup: rts}
	}

	// out parameters: reference typed parameters the body modifies through
	wr := f.writes(bodyNode)
	whole := map[*types.Var]bool{}
	through := map[*types.Var]bool{}
	for _, w := range wr {
		if w.whole {
			whole[w.v] = true
		} else {
			through[w.v] = true
		}
	}
	if f.lit != nil {
		for _, v := range gtCaptured(f.info, f.lit) {
			if whole[v] {
				gtFail("the function literal assigns the captured variable %s", v.Name())
			}
		}
	}
	for _, p := range f.params {
		if through[p.obj] && p.isRef() {
			if whole[p.obj] {
				gtFail("parameter %s is both reassigned and modified through", p.obj.Name())
			}
			f.outs = append(f.outs, p)
		}
	}
	// freshness of locals of reference type
	f.computeFresh(bodyNode)

	// does every return yield nil / a new object?
	f.fresh = false
	if len(rts) == 1 && (rts[0].k == gkPtr || rts[0].k == gkMap || rts[0].k == gkSlice) {
		f.fresh = true
		ast.Inspect(bodyNode, func(n ast.Node) bool {
			switch x := n.(type) {
			case *ast.FuncLit:
				return false
			case *ast.ReturnStmt:
				if len(x.Results) != 1 {
					f.fresh = false
					return true
				}
				if f.freshExpr(x.Results[0]) {
					return true
				}
				if id, ok := gtUnparen(x.Results[0]).(*ast.Ident); ok {
					if v, ok := f.info.Uses[id].(*types.Var); ok {
						if gv, ok := f.freshVars[v]; ok && gv {
							return true
						}
					}
				}
				f.fresh = false
			}
			return true
		})
	}

	gen := func(mon bool) string {
		c := &gtCtx{mon: mon}
		c.ret = func(raw string) string { return gtPure(c, raw) }
		end := func() string {
			if f.frag {
				var vals []string
				for _, v := range f.fragOut {
					vals = append(vals, f.lookup(v).name)
				}
				return c.ret(f.rawReturn(vals))
			}
			if len(rts) > 0 {
				gtFail("control reaches the end of a function with results")
			}
			return c.ret(f.rawReturn(nil))
		}
		var pre []gtBind
		for _, obj := range named {
			gv := f.declare(obj)
			pre = append(pre, gtBind{pat: gv.name, rhs: f.tr.zero(gv.t)})
		}
		return gtBinds(pre, f.stmts(c, f.body, end))
	}
	snap := f.snap()
	gen(false)
	mon := f.monOps > 0
	f.restore(snap)
	f.monOps = 0
	f.monadic = mon
	bodyText := gen(mon)

	// text
	var b strings.Builder
	kind := "func " + f.goName
	b.WriteString(fmt.Sprintf("(* %s — %s", kind, f.srcFile))
	if f.spec.Crit {
		b.WriteString("; critical section only (statements after the Lock call)")
	}
	if len(f.spec.Skip) > 0 {
		b.WriteString(fmt.Sprintf("; PER-OBJECT STEP: top level statements starting with %q left out", f.spec.Skip))
	}
	if fragTail {
		b.WriteString(fmt.Sprintf("; TAIL FRAGMENT: the statements from %q to the end of the function", f.spec.FragStart))
	}
	if f.frag {
		names := []string{}
		for _, o := range f.outs {
			names = append(names, o.obj.Name())
		}
		for _, v := range f.fragOut {
			names = append(names, v.Name())
		}
		b.WriteString(fmt.Sprintf("; FRAGMENT: the statements from %q to %q; result = (%s)", f.spec.FragStart, f.spec.FragEnd, strings.Join(names, ", ")))
	}
	b.WriteString(" *)\n")
	if len(f.spec.Skip) > 0 {
		b.WriteString("Definition " + f.coqName + "_skipped : string :=\n  \"" + strings.ReplaceAll(f.skipped, "\"", "\"\"") + "\"%string.\n")
	}
	if f.hasPre {
		b.WriteString("Definition " + f.coqName + "_prefix : string :=\n  \"" + strings.ReplaceAll(f.prefix, "\"", "\"\"") + "\"%string.\n")
	}
	b.WriteString("Definition " + f.coqName)
	for _, p := range f.params {
		b.WriteString(" (" + p.name + " : " + f.tr.coqType(p.reprT()) + ")")
	}
	rt := f.tr.coqType(f.rawResultRepr())
	if mon {
		rt = "gres " + gtPar(rt)
	}
	b.WriteString(" : " + rt + " :=\n")
	b.WriteString(gtIndent(bodyText, 1) + ".\n")
	f.text = b.String()
}

// buildVar: a package level variable that is never assigned: its initialiser as a definition
func (f *gtFn) buildVar() {
	rel := f.pc.spec.Dir
	init, _ := f.tr.varInit(f.varObj, rel+"."+f.varObj.Name(), "var "+f.varObj.Name())
	f.results = f.tr.typeOf(f.varObj.Type())
	f.freshVars = map[*types.Var]bool{}
	gen := func() gtVal { return f.exprAs(init, f.results) }
	snap := f.snap()
	gen()
	mon := f.monOps > 0
	f.restore(snap)
	f.monOps = 0
	f.monadic = mon
	v := gen()
	body := v.s
	rt := f.tr.coqType(f.results)
	if mon {
		body = gtBinds(v.pre, "GOk "+gtPar(v.s))
		rt = "gres " + gtPar(rt)
	} else {
		body = gtBinds(v.pre, v.s)
	}
	f.text = fmt.Sprintf("(* %s — %s; never assigned in its package: read as a constant *)\nDefinition %s : %s :=\n%s.\n",
		f.goName, f.srcFile, f.coqName, rt, gtIndent(body, 1))
}

// rawResultRepr: like rawResult, with non-nil receivers represented by the record
func (c *gtFn) rawResultRepr() *gtT {
	var parts []*gtT
	for _, o := range c.outs {
		parts = append(parts, o.reprT())
	}
	switch c.results.k {
	case gkUnit:
	case gkTuple:
		parts = append(parts, c.results.tup...)
	default:
		parts = append(parts, c.results)
	}
	switch len(parts) {
	case 0:
		return gtUnit
	case 1:
		return parts[0]
	}
	return &gtT{k: gkTuple, tup: parts}
}

func (f *gtFn) typeOfTypeExpr(e ast.Expr) *gtT {
	tv, ok := f.info.Types[e]
	if !ok || !tv.IsType() {
		gtFail("result type cannot be resolved")
	}
	return f.tr.typeOf(tv.Type)
}

// ---------------------------------------------------------------------------- emission

const gotransPrelude = `(* GENERATED by harness/gotrans*.go - do not edit.
   Support definitions for the Gallina translations of Go functions (Generated/Go*.v):
   the panic monad, Go integer arithmetic (int64/int32 wrap through wrap64/wrap32, uint64 modulo 2^64),
   maps with string keys as association lists, slices as lists, range loops as folds. *)
From Coq Require Import List ZArith NArith Bool.
From YK Require Import Base.Int64.
Import ListNotations.
Open Scope Z_scope.

(* ---- panics ---- *)
Inductive gres (A : Type) : Type := GOk (a : A) | GPanic.
Arguments GOk {A} a.
Arguments GPanic {A}.
Definition gbind {A B} (x : gres A) (f : A -> gres B) : gres B :=
  match x with GOk a => f a | GPanic => GPanic end.
Notation "x <- e ;; k" := (gbind e (fun x => k))
  (at level 61, e at next level, right associativity).
Notation "' p <- e ;; k" := (gbind e (fun p => k))
  (at level 61, p pattern, e at next level, right associativity).

(* ---- integers ---- *)
Definition wrap32 (z : Z) : Z := ((z + 2^31) mod 2^32) - 2^31.
Definition W64 : N := 18446744073709551616.
Definition u64_add (a b : N) : N := ((a + b) mod W64)%N.
Definition u64_sub (a b : N) : N := ((a + W64 - b mod W64) mod W64)%N.
Definition u64_mul (a b : N) : N := ((a * b) mod W64)%N.
Definition u64_quot (a b : N) : gres N := if N.eqb b 0 then GPanic else GOk (a / b)%N.
Definition u64_rem (a b : N) : gres N := if N.eqb b 0 then GPanic else GOk (a mod b)%N.
Definition i64_quot (a b : Z) : gres Z := if b =? 0 then GPanic else GOk (wrap64 (Z.quot a b)).
Definition i64_rem (a b : Z) : gres Z := if b =? 0 then GPanic else GOk (Z.rem a b).
Definition i32_quot (a b : Z) : gres Z := if b =? 0 then GPanic else GOk (wrap32 (Z.quot a b)).
Definition i32_rem (a b : Z) : gres Z := if b =? 0 then GPanic else GOk (Z.rem a b).
Definition i64_to_u64 (z : Z) : N := Z.to_N (z mod 2^64).
Definition u64_to_i64 (n : N) : Z := wrap64 (Z.of_N n).

(* ---- pointers ---- *)
Definition is_nil {A} (o : option A) : bool := match o with None => true | Some _ => false end.
Definition deref {A} (o : option A) : gres A := match o with Some a => GOk a | None => GPanic end.

(* ---- map[string]V : association list, keys unique, list order = iteration order ---- *)
Fixpoint mget {V} (m : list (N * V)) (k : N) : option V :=
  match m with
  | [] => None
  | (k', v) :: t => if N.eqb k k' then Some v else mget t k
  end.
Definition mget0 {V} (d : V) (m : list (N * V)) (k : N) : V :=
  match mget m k with Some v => v | None => d end.
Definition mhas {V} (m : list (N * V)) (k : N) : bool :=
  match mget m k with Some _ => true | None => false end.
Fixpoint mset {V} (m : list (N * V)) (k : N) (v : V) : list (N * V) :=
  match m with
  | [] => [(k, v)]
  | (k', v') :: t => if N.eqb k k' then (k, v) :: t else (k', v') :: mset t k v
  end.
Fixpoint mdel {V} (m : list (N * V)) (k : N) : list (N * V) :=
  match m with
  | [] => []
  | (k', v') :: t => if N.eqb k k' then t else (k', v') :: mdel t k
  end.

(* ---- range loops ---- *)
Inductive loopr (S R : Type) : Type := LNext (s : S) | LBreak (s : S) | LReturn (r : R).
Arguments LNext {S R} s.
Arguments LBreak {S R} s.
Arguments LReturn {S R} r.
Fixpoint go_range {E S R} (l : list E) (body : E -> S -> loopr S R) (s : S) : loopr S R :=
  match l with
  | [] => LNext s
  | e :: t => match body e s with LNext s' => go_range t body s' | x => x end
  end.
Fixpoint go_range_m {E S R} (l : list E) (body : E -> S -> gres (loopr S R)) (s : S) : gres (loopr S R) :=
  match l with
  | [] => GOk (LNext s)
  | e :: t => match body e s with
              | GOk (LNext s') => go_range_m t body s'
              | x => x
              end
  end.
Fixpoint go_fold_m {E S} (body : S -> E -> gres S) (l : list E) (s : S) : gres S :=
  match l with
  | [] => GOk s
  | e :: t => match body s e with GOk s' => go_fold_m body t s' | GPanic => GPanic end
  end.
Definition indexed {A} (l : list A) : list (Z * A) := combine (map Z.of_nat (seq 0 (length l))) l.

(* ---- slices (capacity = length) ---- *)
Fixpoint upd {A} (n : nat) (x : A) (l : list A) : list A :=
  match l, n with
  | [], _ => []
  | _ :: t, O => x :: t
  | h :: t, S n' => h :: upd n' x t
  end.
Definition slice_get {A} (l : list A) (i : Z) : gres A :=
  if i <? 0 then GPanic else
  match nth_error l (Z.to_nat i) with Some a => GOk a | None => GPanic end.
Definition slice_set {A} (l : list A) (i : Z) (x : A) : gres (list A) :=
  if (i <? 0) || (Z.of_nat (length l) <=? i) then GPanic else GOk (upd (Z.to_nat i) x l).
Definition slice_sub {A} (l : list A) (a b : Z) : gres (list A) :=
  if (a <? 0) || (b <? a) || (Z.of_nat (length l) <? b) then GPanic
  else GOk (firstn (Z.to_nat (b - a)) (skipn (Z.to_nat a) l)).
Definition make_slice {A} (d : A) (n : Z) : gres (list A) :=
  if (n <? 0) || (MAX <? n) then GPanic else GOk (repeat d (Z.to_nat n)).
Definition copy_into {A} (dst src : list A) : list A :=
  firstn (length dst) src ++ skipn (length src) dst.
Definition copy_at {A} (dst : list A) (off : Z) (src : list A) : gres (list A) :=
  if (off <? 0) || (Z.of_nat (length dst) <? off) then GPanic
  else GOk (firstn (Z.to_nat off) dst ++ copy_into (skipn (Z.to_nat off) dst) src).
`

func (tr *gotrans) emit() map[string]string {
	files := map[string]string{"GoPrelude.v": gotransPrelude}
	for _, pc := range tr.pkgs {
		tr.cur = pc
		var b strings.Builder
		b.WriteString("(* GENERATED by harness/gotrans*.go from " + pc.spec.Dir + " - do not edit.\n")
		b.WriteString("   One Gallina definition per whitelisted Go function, translated structurally from the\n")
		b.WriteString("   function's AST in the current working tree. Functions:\n")
		for _, fn := range pc.fns {
			st := "ok"
			if fn.err != "" {
				st = "NOT TRANSLATED"
			}
			b.WriteString(fmt.Sprintf("     %-58s %-44s %s\n", fn.goName, "-> "+fn.coqName, st))
		}
		b.WriteString("   A function that is missing or outside the subset has NO definition (see the comment at its\n")
		b.WriteString("   place): the tie theorem that mentions it then fails to compile. *)\n")
		b.WriteString("From Coq Require Import List ZArith NArith Bool String.\n")
		imports := []string{"Base.Int64", "Base.F64", "Generated.GoPrelude"}
		// other generated modules used
		used := map[string]bool{}
		for _, fn := range pc.fns {
			for d := range fn.deps {
				if d.pc != pc {
					used[d.pc.spec.Module] = true
				}
			}
		}
		for _, r := range tr.recList {
			if r.module == pc.spec.Module {
				for _, i := range r.usedIdx() {
					tr.collectModules(tr.fieldTypeQuiet(r, r.st.Field(i)), used)
				}
			}
		}
		for _, fn := range pc.fns {
			if fn.err == "" {
				for _, p := range fn.params {
					tr.collectModules(p.t, used)
				}
				tr.collectModules(fn.results, used)
			}
		}
		delete(used, pc.spec.Module)
		var mods []string
		for m := range used {
			mods = append(mods, m)
		}
		sort.Strings(mods)
		for _, m := range mods {
			imports = append(imports, "Generated."+m)
		}
		b.WriteString("From YK Require Import " + strings.Join(imports, " ") + ".\n")
		b.WriteString("Import ListNotations.\nOpen Scope Z_scope.\n\n")
		// records of this module, dependencies first
		var recs []*gtRec
		for _, r := range tr.recList {
			if r.module == pc.spec.Module && len(r.used) > 0 {
				recs = append(recs, r)
			}
		}
		sort.Slice(recs, func(i, j int) bool { return recs[i].name < recs[j].name })
		emitted := map[*gtRec]bool{}
		var emitRec func(r *gtRec, stack map[*gtRec]bool)
		emitRec = func(r *gtRec, stack map[*gtRec]bool) {
			if emitted[r] {
				return
			}
			if stack[r] {
				b.WriteString("(* record " + r.name + " is recursive: outside the subset *)\n")
				return
			}
			stack[r] = true
			for _, i := range r.usedIdx() {
				ft := tr.fieldTypeQuiet(r, r.st.Field(i))
				for _, dep := range gtRecsOf(ft) {
					if dep.module == r.module {
						emitRec(dep, stack)
					}
				}
			}
			emitted[r] = true
			b.WriteString("(* struct " + r.name + ": the fields the translated functions use *)\n")
			idx := r.usedIdx()
			if len(idx) == 0 {
				b.WriteString("Record " + r.name + " : Type := " + r.mkName() + " { }.\n\n")
				return
			}
			b.WriteString("Record " + r.name + " : Type := " + r.mkName() + " {\n")
			for n, i := range idx {
				sep := ";"
				if n == len(idx)-1 {
					sep = " }."
				}
				b.WriteString("  " + r.fieldName(i) + " : " + tr.coqType(tr.fieldTypeQuiet(r, r.st.Field(i))) + sep + "\n")
			}
			for _, i := range idx {
				b.WriteString("Definition " + r.setterName(i) + " (r : " + r.name + ") (v : " + tr.coqType(tr.fieldTypeQuiet(r, r.st.Field(i))) + ") : " + r.name + " :=\n  " + r.mkName())
				for _, j := range idx {
					if j == i {
						b.WriteString(" v")
					} else {
						b.WriteString(" (" + r.fieldName(j) + " r)")
					}
				}
				b.WriteString(".\n")
			}
			b.WriteString("\n")
		}
		for _, r := range recs {
			emitRec(r, map[*gtRec]bool{})
		}
		// functions, dependencies first (then whitelist order)
		done := map[*gtFn]bool{}
		var emitFn func(fn *gtFn)
		emitFn = func(fn *gtFn) {
			if done[fn] {
				return
			}
			done[fn] = true
			if fn.err == "" {
				var deps []*gtFn
				for d := range fn.deps {
					if d.pc == pc {
						deps = append(deps, d)
					}
				}
				sort.Slice(deps, func(i, j int) bool { return gtFnIndex(pc, deps[i]) < gtFnIndex(pc, deps[j]) })
				for _, d := range deps {
					emitFn(d)
				}
				b.WriteString(fn.text + "\n")
			} else {
				b.WriteString("(* NOT TRANSLATED: " + fn.goName + " (" + fn.coqName + "): " + strings.ReplaceAll(fn.err, "*)", "* )") + " *)\n\n")
			}
		}
		for _, fn := range pc.fns {
			emitFn(fn)
		}
		files[pc.spec.Module+".v"] = b.String()
	}
	return files
}

func gtFnIndex(pc *gtPkgCtx, fn *gtFn) int {
	for i, x := range pc.fns {
		if x == fn {
			return i
		}
	}
	return -1
}

func gtRecsOf(t *gtT) []*gtRec {
	if t == nil {
		return nil
	}
	switch t.k {
	case gkRec:
		return []*gtRec{t.rec}
	case gkPtr, gkMap, gkSlice:
		return gtRecsOf(t.elem)
	case gkTuple:
		var out []*gtRec
		for _, e := range t.tup {
			out = append(out, gtRecsOf(e)...)
		}
		return out
	}
	return nil
}

func (tr *gotrans) collectModules(t *gtT, used map[string]bool) {
	for _, r := range gtRecsOf(t) {
		used[r.module] = true
	}
}

func (tr *gotrans) fieldTypeQuiet(r *gtRec, v *types.Var) (out *gtT) {
	defer func() {
		if x := recover(); x != nil {
			if _, ok := x.(gtErr); ok {
				out = gtUnit
				return
			}
			panic(x)
		}
	}()
	return tr.fieldType(r, v)
}

func (tr *gotrans) typeOfQuiet(t types.Type) (out *gtT) {
	defer func() {
		if r := recover(); r != nil {
			if _, ok := r.(gtErr); ok {
				out = gtUnit
				return
			}
			panic(r)
		}
	}()
	return tr.typeOf(t)
}
