package main

import (
	"fmt"

	"github.com/apache/yunikorn-core/pkg/scheduler/objects"
)

// ---- generators for the preempt engine ----

func preemptGenRes(rng *Rng, ntypes int, lo, hi int64, density int) map[string]int64 {
	m := map[string]int64{}
	for t := 0; t < ntypes; t++ {
		if rng.Chance(density) {
			m[preemptTypes[t]] = lo + int64(rng.Intn(int(hi-lo+1)))
		}
	}
	return m
}

func preemptGenResNonEmpty(rng *Rng, ntypes int, lo, hi int64, density int) map[string]int64 {
	m := preemptGenRes(rng, ntypes, lo, hi, density)
	if len(m) == 0 {
		m[preemptTypes[rng.Intn(ntypes)]] = lo + int64(rng.Intn(int(hi-lo+1)))
	}
	return m
}

var preemptNames = []string{"a", "ab", "b", "abc", "c", "d", "ba", "e"}

// preemptGenTree generates a queue tree; returns the specs and the indexes of the leaves.
func preemptGenTree(rng *Rng, ntypes int, quota bool) ([]objects.VerifPreemptQueueSpec, []int) {
	qs := []objects.VerifPreemptQueueSpec{{Name: "root", Parent: -1, Managed: true, Properties: map[string]string{}}}
	leaves := []int{}
	props := func(leaf bool) map[string]string {
		p := map[string]string{}
		switch x := rng.Intn(100); {
		case x < 15:
			p["preemption.policy"] = "fence"
		case x < 28:
			p["preemption.policy"] = "disabled"
		}
		if rng.Chance(18) {
			p["priority.policy"] = "fence"
		}
		if rng.Chance(40) {
			p["priority.offset"] = fmt.Sprint(rng.Intn(7) - 3)
		}
		if leaf && rng.Chance(50) {
			p["preemption.delay"] = []string{"1s", "30s", "10m", "bogus"}[rng.Intn(4)]
		}
		if quota && rng.Chance(60) {
			p["quota.preemption.delay"] = []string{"10s", "60s", "0s"}[rng.Intn(3)]
		}
		return p
	}
	resources := func(s *objects.VerifPreemptQueueSpec) {
		if rng.Chance(50) {
			s.Guaranteed = preemptGenRes(rng, ntypes, 0, 20, 75)
		}
		if rng.Chance(40) {
			s.Max = preemptGenRes(rng, ntypes, 8, 60, 75)
		}
	}
	var add func(parent, depth int)
	add = func(parent, depth int) {
		n := 1 + rng.Intn(3)
		perm := rng.Intn(len(preemptNames))
		for i := 0; i < n && len(qs) < 9; i++ {
			name := preemptNames[(perm+i)%len(preemptNames)]
			isParent := depth < 2 && rng.Chance(35)
			managed := !rng.Chance(8) // a few dynamic queues
			s := objects.VerifPreemptQueueSpec{Name: name, Parent: parent, Leaf: !isParent, Managed: managed}
			if managed {
				s.Properties = props(!isParent)
			}
			resources(&s)
			qs = append(qs, s)
			idx := len(qs) - 1
			if isParent {
				before := len(qs)
				add(idx, depth+1)
				if len(qs) == before { // no room for children: turn it into a leaf
					qs[idx].Leaf = true
					leaves = append(leaves, idx)
				}
			} else {
				leaves = append(leaves, idx)
			}
		}
	}
	add(0, 0)
	if rng.Chance(20) {
		qs[0].Properties = props(false)
	}
	return qs, leaves
}

func preemptGenNodes(rng *Rng, ntypes int) []objects.VerifPreemptNodeSpec {
	n := 1 + rng.Intn(4)
	out := make([]objects.VerifPreemptNodeSpec, n)
	for i := range out {
		out[i] = objects.VerifPreemptNodeSpec{ID: fmt.Sprintf("n%d", i), Total: preemptGenResNonEmpty(rng, ntypes, 6, 30, 90), Schedulable: !rng.Chance(10)}
	}
	return out
}

func preemptGenAges(rng *Rng, n int) []int64 {
	ages := make([]int64, n)
	for i := range ages {
		ages[i] = int64(10 + 7*i)
	}
	for i := n - 1; i > 0; i-- { // shuffle
		j := rng.Intn(i + 1)
		ages[i], ages[j] = ages[j], ages[i]
	}
	if rng.Chance(15) { // ties
		for i := range ages {
			ages[i] = int64(10 + 7*rng.Intn(3))
		}
	}
	return ages
}

func preemptGenAllocs(rng *Rng, ntypes int, leaves []int, nnodes int, n int, hi int64) []objects.VerifPreemptAllocSpec {
	ages := preemptGenAges(rng, n)
	out := make([]objects.VerifPreemptAllocSpec, n)
	for i := range out {
		q := leaves[rng.Intn(len(leaves))]
		out[i] = objects.VerifPreemptAllocSpec{
			Key: fmt.Sprintf("alloc-%d", i), App: fmt.Sprintf("app-q%d-%d", q, rng.Intn(2)), Queue: q, Node: rng.Intn(nnodes),
			Res: preemptGenResNonEmpty(rng, ntypes, 1, hi, 70), Priority: int32(rng.Intn(8) - 2),
			AllowPreemptSelf: rng.Chance(55), Originator: rng.Chance(10), RequiredNode: rng.Chance(8),
			Released: rng.Chance(6), Preempted: rng.Chance(8), AgeSec: ages[i],
		}
	}
	return out
}

func preemptGenAsk(rng *Rng, ntypes int, leaves []int) objects.VerifPreemptAskSpec {
	q := leaves[rng.Intn(len(leaves))]
	a := objects.VerifPreemptAskSpec{Key: "ask", App: fmt.Sprintf("app-q%d-ask", q), Queue: q, Res: preemptGenResNonEmpty(rng, ntypes, 1, 12, 70),
		Priority: int32(rng.Intn(7) - 1), AllowPreemptOther: !rng.Chance(8), RequiredNode: -1, Triggered: rng.Chance(6),
		AgeMs: []int64{500, 5000, 100000, 1000000, 1000000}[rng.Intn(5)], CheckAgeMs: []int64{-1, -1, 1000, 100000}[rng.Intn(4)]}
	if rng.Chance(3) && ntypes > 1 { // an ask with an explicit zero quantity next to a positive one
		z := rng.Intn(ntypes)
		a.Res[preemptTypes[z]] = 0
		a.Res[preemptTypes[(z+1)%ntypes]] = 1 + int64(rng.Intn(8))
	}
	return a
}

func preemptGenPlugin(rng *Rng, n int) []PreemptPlugin {
	out := make([]PreemptPlugin, n)
	for i := range out {
		d := int32(0)
		switch x := rng.Intn(100); {
		case x < 12:
			d = 1
		case x < 18:
			d = 7
		}
		out[i] = PreemptPlugin{Pred: !rng.Chance(12), Ok: !rng.Chance(12), Delta: d}
	}
	return out
}

// genPreemptCase: a random world, or (half of the time) a world biased towards successful preemption.
func genPreemptCase(rng *Rng, st *Stats) PreemptCase {
	ntypes := 1 + rng.Intn(3)
	if rng.Chance(50) {
		st.Count("queue.gen.biased")
		return genPreemptBiased(rng, ntypes)
	}
	st.Count("queue.gen.random")
	qs, leaves := preemptGenTree(rng, ntypes, false)
	nodes := preemptGenNodes(rng, ntypes)
	spec := objects.VerifPreemptWorldSpec{Queues: qs, Nodes: nodes, AttemptFrequencyMs: 15000}
	spec.Allocs = preemptGenAllocs(rng, ntypes, leaves, len(nodes), rng.Intn(15), 8)
	spec.Ask = preemptGenAsk(rng, ntypes, leaves)
	if rng.Chance(4) {
		spec.Ask.RequiredNode = rng.Intn(len(nodes))
	}
	if rng.Chance(70) {
		total := map[string]int64{}
		for _, n := range nodes {
			for k, v := range n.Total {
				total[k] += v
			}
		}
		spec.Queues[0].Max = total
	}
	return PreemptCase{Spec: spec, Plugin: preemptGenPlugin(rng, len(nodes)), NodesTried: rng.Bool()}
}

// genPreemptBiased: the ask queue has a guarantee it is under, other leaves are above theirs, nodes are nearly full,
// then random perturbations (policies, fences, offsets, flags) on top.
func genPreemptBiased(rng *Rng, ntypes int) PreemptCase {
	qs, leaves := preemptGenTree(rng, ntypes, false)
	for len(leaves) < 2 {
		qs, leaves = preemptGenTree(rng, ntypes, false)
	}
	askLeaf := leaves[rng.Intn(len(leaves))]
	nodes := preemptGenNodes(rng, ntypes)
	for i := range nodes {
		nodes[i].Schedulable = !rng.Chance(5)
	}
	spec := objects.VerifPreemptWorldSpec{Queues: qs, Nodes: nodes, AttemptFrequencyMs: 15000}
	ask := preemptGenAsk(rng, ntypes, []int{askLeaf})
	ask.AllowPreemptOther = !rng.Chance(3)
	ask.Triggered = rng.Chance(3)
	ask.AgeMs = 1000000
	ask.CheckAgeMs = []int64{-1, 100000}[rng.Intn(2)]
	ask.Priority = int32(2 + rng.Intn(4))
	// keep perturbations of policies rarer than in the random stream
	for i := range spec.Queues {
		q := &spec.Queues[i]
		if rng.Chance(70) {
			delete(q.Properties, "preemption.policy")
			delete(q.Properties, "priority.policy")
		}
		if rng.Chance(60) {
			q.Max = nil
		}
		if i == askLeaf {
			g := map[string]int64{}
			for k, v := range ask.Res {
				g[k] = v + int64(rng.Intn(10))
				if rng.Chance(60) {
					g[k] += int64(5 + rng.Intn(15))
				}
			}
			if rng.Chance(85) {
				q.Guaranteed = g
			}
			if rng.Chance(70) {
				delete(q.Properties, "preemption.delay")
			}
		} else if q.Leaf && rng.Chance(75) {
			q.Guaranteed = preemptGenRes(rng, ntypes, 0, 6, 80)
		} else if !q.Leaf && rng.Chance(60) {
			q.Guaranteed = nil
		}
	}
	spec.Ask = ask
	// fill the nodes with allocations of the other leaves
	others := []int{}
	for _, l := range leaves {
		if l != askLeaf {
			others = append(others, l)
		}
	}
	n := 3 + rng.Intn(12)
	allocs := preemptGenAllocs(rng, ntypes, others, len(nodes), n, 9)
	for i := range allocs {
		a := &allocs[i]
		a.Priority = int32(rng.Intn(6) - 1)
		a.RequiredNode = rng.Chance(5)
		a.Released = rng.Chance(4)
		a.Preempted = rng.Chance(5)
		if rng.Chance(8) {
			a.Queue = askLeaf
			a.App = fmt.Sprintf("app-q%d-0", askLeaf)
		}
	}
	spec.Allocs = allocs
	// most nodes are nearly full: capacity = what is placed on them plus a small slack
	for i := range nodes {
		if rng.Chance(20) {
			continue
		}
		tot := map[string]int64{}
		for _, a := range allocs {
			if a.Node == i {
				for k, v := range a.Res {
					tot[k] += v
				}
			}
		}
		for t := 0; t < ntypes; t++ {
			k := preemptTypes[t]
			tot[k] += []int64{0, 0, 0, 1, 2, 4, 9}[rng.Intn(7)]
			if tot[k] == 0 {
				if rng.Chance(60) {
					tot[k] = int64(4 + rng.Intn(10))
				} else {
					delete(tot, k)
				}
			}
		}
		if len(tot) > 0 {
			nodes[i].Total = tot
		}
	}
	if rng.Chance(50) {
		total := map[string]int64{}
		for _, nd := range nodes {
			for k, v := range nd.Total {
				total[k] += v
			}
		}
		spec.Queues[0].Max = total
	}
	pl := preemptGenPlugin(rng, len(nodes))
	for i := range pl {
		if rng.Chance(70) {
			pl[i] = PreemptPlugin{Pred: true, Ok: true}
		}
	}
	return PreemptCase{Spec: spec, Plugin: pl, NodesTried: rng.Bool()}
}
