package main

import (
	"fmt"
	"sort"
	"strings"

	"go.yaml.in/yaml/v3"

	"github.com/apache/yunikorn-core/pkg/common/configs"
)

// ---- engine "conf": configuration grammar generator ----
// Builds configs.SchedulerConfig values top-down so that the hierarchy rules mostly hold (budgets handed from parent
// to child), with a small probability of breaking each rule, renders them with yaml.Marshal and optionally mutates the
// YAML node tree (malformed stream: missing/duplicate/unknown keys, wrong scalar types, nil vs empty).

type confGen struct {
	r      *Rng
	viol   int  // per mille chance of breaking a rule at each decision
	noise  int  // per mille chance of odd spellings (case, spaces, invalid names)
	hier   int  // per mille chance of exceeding a budget of the hierarchy
	single bool // exactly one partition called default
	paths  []confPath
}

type confPath struct {
	path   string // lower case fully qualified
	parent bool
}

var confResNames = []string{"vcore", "memory", "gpu", "nvidia.com/gpu", "pods"}
var confQueueNames = []string{"a", "b", "c", "dev", "prod", "team-1", "x_y", "users", "default", "ns:1", "q#1", "sandbox"}
var confOddQueueNames = []string{"Dev", "PROD", "A", "root", "Root", "a b", "a.b", "", "a!", "this-queue-name-is-much-longer-than-the-sixty-four-characters-allowed-x", "@recovery@"}
var confUsers = []string{"u1", "u2", "alice", "bob.c", "svc$", "_x"}
var confOddUsers = []string{"9bad", "a b", "", "u1$x", "u~"}
var confGroups = []string{"g1", "dev", "ops", "grp:a"}
var confOddGroups = []string{"g$", "1g", "", "a/b"}

func (g *confGen) bad() bool              { return g.r.Intn(1000) < g.viol }  // per mille
func (g *confGen) odd() bool              { return g.r.Intn(1000) < g.noise } // per mille
func (g *confGen) pick(l []string) string { return l[g.r.Intn(len(l))] }

// quantity text for a value in base units (vcore: milli)
func (g *confGen) qty(name string, v int64) string {
	if g.odd() && g.r.Chance(40) {
		return g.pick([]string{"abc", "-1", "1.5", "10K", "5mi", "", "1e3", "10 k i", "9223372036854775808", "8Ei", "10000P", "1\vk", "0x10", "1 0"})
	}
	var s string
	if name == "vcore" {
		if v%1000 == 0 && g.r.Chance(70) {
			s = fmt.Sprintf("%d", v/1000)
		} else {
			s = fmt.Sprintf("%dm", v)
		}
	} else {
		type sfx struct {
			s string
			m int64
		}
		cands := []sfx{{"", 1}}
		for _, c := range []sfx{{"k", 1000}, {"M", 1000000}, {"G", 1000000000}, {"Ki", 1 << 10}, {"Mi", 1 << 20}, {"Gi", 1 << 30}, {"T", 1e12}, {"Ti", 1 << 40}} {
			if v != 0 && v%c.m == 0 {
				cands = append(cands, c)
			}
		}
		c := cands[g.r.Intn(len(cands))]
		sp := ""
		if g.r.Chance(10) {
			sp = " "
		}
		s = fmt.Sprintf("%d%s%s", v/c.m, sp, c.s)
	}
	switch g.r.Intn(25) {
	case 0:
		s = " " + s
	case 1:
		s = s + " "
	case 2:
		s = "0" + s
	case 3:
		s = s + "\t"
	}
	return s
}

var confScales = []int64{1, 1000, 1 << 10, 1000000, 1 << 20, 1 << 30, 1e12}

func (g *confGen) amount(name string) int64 {
	if g.r.Chance(3) {
		return []int64{0, 1 << 62, 9223372036854775807, 1 << 60}[g.r.Intn(4)]
	}
	sc := confScales[g.r.Intn(len(confScales))]
	if name == "vcore" {
		sc = []int64{1, 100, 1000}[g.r.Intn(3)]
	}
	return int64(1+g.r.Intn(64)) * sc
}

type confBudget map[string]int64 // missing = unlimited

func (b confBudget) clone() confBudget {
	o := confBudget{}
	for k, v := range b {
		o[k] = v
	}
	return o
}

func (g *confGen) resMap(vals map[string]int64) map[string]string {
	if vals == nil {
		return nil
	}
	m := map[string]string{}
	for k, v := range vals {
		m[k] = g.qty(k, v)
	}
	return m
}

// a value within lim (mostly)
func (g *confGen) within(name string, lim int64, has bool) int64 {
	if !has {
		return g.amount(name)
	}
	if g.bad() || g.r.Intn(1000) < g.hier {
		if lim > 1<<61 {
			return lim
		}
		return lim + 1 + int64(g.r.Intn(1000))
	}
	if lim <= 0 {
		return 0
	}
	switch g.r.Intn(4) {
	case 0:
		return lim
	case 1:
		return lim / 2
	default:
		return int64(g.r.Next() % uint64(lim+1))
	}
}

type confCarried struct {
	res  map[string]confBudget // name -> limit budget
	apps map[string]uint64
}

func (c confCarried) clone() confCarried {
	o := confCarried{res: map[string]confBudget{}, apps: map[string]uint64{}}
	for k, v := range c.res {
		o.res[k] = v.clone()
	}
	for k, v := range c.apps {
		o.apps[k] = v
	}
	return o
}

func (g *confGen) limits(qmax confBudget, qapps uint64, cu, cg confCarried) []configs.Limit {
	n := 0
	if g.r.Chance(35) {
		n = 1 + g.r.Intn(3)
	}
	var out []configs.Limit
	usedU, usedG := map[string]bool{}, map[string]bool{}
	for i := 0; i < n; i++ {
		l := configs.Limit{Limit: fmt.Sprintf("limit%d", i)}
		last := i == n-1
		nu := g.r.Intn(3)
		for j := 0; j < nu; j++ {
			u := g.pick(confUsers)
			if g.odd() {
				u = g.pick(confOddUsers)
			}
			if usedU[u] && !g.bad() {
				continue
			}
			usedU[u] = true
			l.Users = append(l.Users, u)
		}
		if (last && g.r.Chance(40) && !usedU["*"]) || g.bad() {
			l.Users = append(l.Users, "*")
			usedU["*"] = true
		}
		ng := g.r.Intn(2)
		if len(l.Users) == 0 {
			ng = 1 + g.r.Intn(2)
		}
		for j := 0; j < ng; j++ {
			gr := g.pick(confGroups)
			if g.odd() {
				gr = g.pick(confOddGroups)
			}
			if usedG[gr] && !g.bad() {
				continue
			}
			usedG[gr] = true
			l.Groups = append(l.Groups, gr)
		}
		if (last && len(usedG) > 0 && g.r.Chance(30) && !usedG["*"]) || g.bad() {
			l.Groups = append(l.Groups, "*")
			usedG["*"] = true
		}
		if len(l.Users) == 0 && len(l.Groups) == 0 && !g.bad() {
			l.Users = []string{g.pick(confUsers)}
		}
		// budget: queue max and what the ancestors carry for the names
		bud := qmax.clone()
		apps := qapps
		narrow := func(c confCarried, name string) {
			b, ok := c.res[name]
			a, oka := c.apps[name]
			if !ok && !oka {
				b, ok = c.res["*"]
				a, oka = c.apps["*"]
			}
			if ok {
				for k, v := range b {
					if cur, has := bud[k]; !has || v < cur {
						bud[k] = v
					}
				}
			}
			if oka && a != 0 && (apps == 0 || a < apps) {
				apps = a
			}
		}
		for _, u := range l.Users {
			narrow(cu, u)
		}
		for _, gr := range l.Groups {
			narrow(cg, gr)
		}
		if g.r.Chance(75) {
			vals := map[string]int64{}
			for _, rn := range confResNames {
				if g.r.Chance(35) {
					lim, has := bud[rn]
					v := g.within(rn, lim, has)
					if v == 0 && !g.bad() {
						v = 1
						if has && lim < 1 {
							continue
						}
					}
					vals[rn] = v
				}
			}
			if len(vals) > 0 || g.bad() {
				l.MaxResources = g.resMap(vals)
				for _, u := range l.Users {
					cu.res[u] = confBudget(vals).clone()
				}
				for _, gr := range l.Groups {
					cg.res[gr] = confBudget(vals).clone()
				}
			}
		}
		if len(l.MaxResources) == 0 || g.r.Chance(50) || (apps != 0 && !g.bad()) {
			if apps != 0 {
				l.MaxApplications = 1 + g.r.Next()%apps
				if g.bad() {
					l.MaxApplications = apps + 1 + uint64(g.r.Intn(5))
				}
			} else {
				l.MaxApplications = uint64(1 + g.r.Intn(50))
			}
			if g.bad() {
				l.MaxApplications = 0
			}
			for _, u := range l.Users {
				cu.apps[u] = l.MaxApplications
			}
			for _, gr := range l.Groups {
				cg.apps[gr] = l.MaxApplications
			}
		}
		out = append(out, l)
	}
	return out
}

var confACLs = []string{"", "*", "u1", "u1,u2", "u1,u2 g1", " g1", "u1 g1,g2", "admin admin", "*", "", "u1 ", "u1  g1", " * ", " u1 g1", "a b c", "u1\tg1", "u1\tg1\tx", "  ", "* *", "u1,,u2 g1"}

func (g *confGen) acl() string {
	if g.r.Chance(55) {
		return ""
	}
	if !g.odd() {
		return confACLs[g.r.Intn(10)]
	}
	return g.pick(confACLs)
}

func (g *confGen) props() map[string]string {
	if !g.r.Chance(30) {
		return nil
	}
	all := [][]string{
		{"application.sort.policy", "fifo", "fair", "stateaware", "bogus", ""},
		{"application.sort.priority", "enabled", "disabled", "Enabled", "x"},
		{"priority.policy", "default", "fence", "nope"},
		{"priority.offset", "5", "-3", "abc", "99999999999"},
		{"preemption.policy", "default", "fence", "disabled", "zzz"},
		{"preemption.delay", "30s", "1m", "-1s", "x", "0s"},
		{"quota.preemption.delay", "10s", "0s", "bad"},
		{"application.unschedasks.backoff", "3", "-1", "a"},
		{"application.unschedasks.backoff.delay", "5s", "nope"},
		{"custom.key", "v", ""},
		{"", "v"},
	}
	m := map[string]string{}
	n := 1 + g.r.Intn(3)
	for i := 0; i < n; i++ {
		p := all[g.r.Intn(len(all))]
		m[p[0]] = p[1+g.r.Intn(len(p)-1)]
	}
	return m
}

func (g *confGen) queue(name string, depth int, path string, pmax confBudget, gbud confBudget, papps uint64, cu, cg confCarried, isRoot bool) configs.QueueConfig {
	q := configs.QueueConfig{Name: name}
	eff := pmax.clone()
	var own confBudget
	if !isRoot || g.r.Chance(2) {
		if g.r.Chance(55) {
			own = confBudget{}
			for _, rn := range confResNames {
				if g.r.Chance(40) {
					lim, has := pmax[rn]
					own[rn] = g.within(rn, lim, has)
				}
			}
			q.Resources.Max = g.resMap(own)
			for k, v := range own {
				if cur, has := eff[k]; !has || v < cur {
					eff[k] = v
				}
			}
		}
	}
	// guaranteed: within own effective max and the budget handed down by the parent
	gown := confBudget{}
	gdefined := false
	if (!isRoot || g.r.Chance(2)) && g.r.Chance(40) {
		for _, rn := range confResNames {
			if g.r.Chance(35) {
				lim, has := eff[rn]
				if b, hb := gbud[rn]; hb && (!has || b < lim) {
					lim, has = b, true
				}
				gown[rn] = g.within(rn, lim, has)
				gdefined = true
			}
		}
		if gdefined {
			q.Resources.Guaranteed = g.resMap(gown)
		}
	}
	// max applications
	if papps != 0 {
		q.MaxApplications = 1 + g.r.Next()%papps
		if g.bad() {
			q.MaxApplications = []uint64{0, papps + 1}[g.r.Intn(2)]
		}
	} else if g.r.Chance(30) {
		q.MaxApplications = uint64(1 + g.r.Intn(100))
	}
	if isRoot && !g.r.Chance(20) {
		q.MaxApplications = 0
	}
	q.AdminACL = g.acl()
	q.SubmitACL = g.acl()
	q.Properties = g.props()
	cu, cg = cu.clone(), cg.clone()
	q.Limits = g.limits(eff, q.MaxApplications, cu, cg)
	// children
	nch := 0
	if depth < 4 {
		nch = []int{3, 3, 2, 1}[depth-1]
		nch = g.r.Intn(nch + 1)
		if isRoot && nch == 0 && g.r.Chance(80) {
			nch = 1
		}
	}
	// budget for the children's guaranteed: own guaranteed where defined, else what we were given, and the max
	cb := gbud.clone()
	for k, v := range gown {
		cb[k] = v
	}
	for k, v := range eff {
		if cur, has := cb[k]; !has || v < cur {
			cb[k] = v
		}
	}
	used := map[string]bool{}
	for i := 0; i < nch; i++ {
		cn := g.pick(confQueueNames)
		if g.odd() {
			cn = g.pick(confOddQueueNames)
		}
		if used[strings.ToLower(cn)] && !g.bad() {
			continue
		}
		used[strings.ToLower(cn)] = true
		share := confBudget{}
		for k, v := range cb {
			share[k] = v / int64(nch)
		}
		child := g.queue(cn, depth+1, path+"."+strings.ToLower(cn), eff, share, q.MaxApplications, cu, cg, false)
		q.Queues = append(q.Queues, child)
	}
	if len(q.Queues) > 0 {
		q.Parent = g.r.Chance(70)
	} else {
		q.Parent = g.r.Chance(15)
	}
	if isRoot {
		q.Parent = g.r.Chance(50)
	}
	if (q.Parent || len(q.Queues) > 0 || g.r.Chance(3)) && g.r.Chance(25) {
		t := configs.ChildTemplate{}
		if g.r.Chance(50) {
			t.MaxApplications = uint64(g.r.Intn(20))
		}
		if g.r.Chance(40) {
			t.Properties = g.props()
		}
		if g.r.Chance(60) {
			vals := map[string]int64{}
			for _, rn := range confResNames {
				if g.r.Chance(30) {
					vals[rn] = g.amount(rn)
				}
			}
			t.Resources.Max = g.resMap(vals)
		}
		if g.r.Chance(30) {
			vals := map[string]int64{}
			for _, rn := range confResNames {
				if g.r.Chance(30) {
					vals[rn] = g.amount(rn)
				}
			}
			t.Resources.Guaranteed = g.resMap(vals)
		}
		q.ChildTemplate = t
	}
	g.paths = append(g.paths, confPath{path: path, parent: q.Parent || len(q.Queues) > 0})
	return q
}

func (g *confGen) caseMix(s string) string {
	if !g.odd() {
		return s
	}
	switch g.r.Intn(3) {
	case 0:
		return strings.ToUpper(s)
	case 1:
		if len(s) > 0 {
			return strings.ToUpper(s[:1]) + s[1:]
		}
	}
	return s
}

func (g *confGen) filter() configs.Filter {
	f := configs.Filter{}
	if !g.r.Chance(30) {
		return f
	}
	f.Type = g.pick([]string{"", "allow", "deny", "allow", "deny", "Deny", "ALLOW"})
	userSets := [][]string{nil, {"u1"}, {"u1", "u2"}, {"^a.*"}, {"(bad"}, {"99x"}, {"u1", "99x"}, {"a|b"}, {"u 1"}, {"[ab"}, {"svc$"}, {"*"}}
	groupSets := [][]string{nil, {"g1"}, {"g1", "ops"}, {"dev.*"}, {"g1 "}, {"1g"}, {"^(a|b)$"}, {"*bad"}, {"g$"}}
	f.Users = userSets[g.r.Intn(4)]
	f.Groups = groupSets[g.r.Intn(4)]
	if g.odd() {
		f.Users = userSets[g.r.Intn(len(userSets))]
		f.Groups = groupSets[g.r.Intn(len(groupSets))]
	}
	if g.odd() {
		f.Type = "bogus"
	}
	return f
}

func (g *confGen) dynRule() configs.PlacementRule {
	r := configs.PlacementRule{Name: g.caseMix(g.pick([]string{"user", "tag", "provided", "user", "tag", "test"}))}
	if strings.ToLower(r.Name) == "tag" {
		r.Value = g.pick([]string{"namespace", "namespace", "Team", ""})
		if !g.bad() && r.Value == "" {
			r.Value = "namespace"
		}
	}
	if g.odd() {
		r.Name = g.pick([]string{"bogus", "recovery", "PrimaryGroup", "1bad", "", "_fixed", "a-b"})
	}
	r.Create = g.r.Chance(50)
	r.Filter = g.filter()
	return r
}

func (g *confGen) pathOf(wantParent bool) (string, bool) {
	var c []confPath
	for _, p := range g.paths {
		if p.parent == wantParent {
			c = append(c, p)
		}
	}
	if len(c) == 0 {
		return "", false
	}
	return c[g.r.Intn(len(c))].path, true
}

func (g *confGen) rules() []configs.PlacementRule {
	if !g.r.Chance(60) {
		return nil
	}
	n := 1 + g.r.Intn(3)
	var out []configs.PlacementRule
	for i := 0; i < n; i++ {
		var r configs.PlacementRule
		switch g.r.Intn(7) {
		case 0, 1: // fixed, qualified
			wantParent := g.bad()
			p, ok := g.pathOf(wantParent)
			if !ok {
				p = "root.nosuch"
			}
			if g.bad() {
				p = g.pick([]string{"root.nosuch", "root.nosuch.deeper", p + ".below", "rootx", "rootx.y", "nosuch", "root", "root..a", "root.a b"})
			}
			r = configs.PlacementRule{Name: g.caseMix("fixed"), Value: g.caseMix(p), Create: g.r.Chance(30), Filter: g.filter()}
		case 2, 3: // dynamic below a fixed parent
			r = g.dynRule()
			wantParent := !g.bad()
			p, ok := g.pathOf(wantParent)
			if !ok {
				p = "root"
			}
			par := configs.PlacementRule{Name: g.caseMix("fixed"), Value: g.caseMix(p), Create: g.r.Chance(30), Filter: g.filter()}
			if g.r.Chance(15) { // two level fixed chain: unqualified below qualified
				idx := strings.LastIndex(p, ".")
				if idx > 0 {
					top := configs.PlacementRule{Name: "fixed", Value: p[:idx]}
					par.Value = p[idx+1:]
					par.Parent = &top
				}
			}
			r.Parent = &par
		case 4: // fixed unqualified leaf below qualified fixed parent
			p, ok := g.pathOf(false)
			if !ok {
				p = "root.x"
			}
			idx := strings.LastIndex(p, ".")
			if idx > 0 {
				top := configs.PlacementRule{Name: g.caseMix("fixed"), Value: p[:idx]}
				r = configs.PlacementRule{Name: "fixed", Value: g.caseMix(p[idx+1:]), Parent: &top, Create: g.r.Chance(30)}
			} else {
				r = configs.PlacementRule{Name: "fixed", Value: p}
			}
			if g.bad() {
				r.Value = g.pick([]string{"", "root.a", "a.b", "no such"})
			}
		case 5: // dynamic alone or dynamic chain
			r = g.dynRule()
			if g.r.Chance(30) {
				p := g.dynRule()
				r.Parent = &p
			}
		default: // fixed below dynamic (static part ends at once)
			d := g.dynRule()
			r = configs.PlacementRule{Name: "fixed", Value: g.pick([]string{"leaf", "root.a", "x"}), Parent: &d, Create: g.r.Chance(50)}
		}
		out = append(out, r)
	}
	return out
}

func (g *confGen) partition(name string) configs.PartitionConfig {
	g.paths = nil
	p := configs.PartitionConfig{Name: name}
	cu := confCarried{res: map[string]confBudget{}, apps: map[string]uint64{}}
	cg := confCarried{res: map[string]confBudget{}, apps: map[string]uint64{}}
	rootName := "root"
	if g.odd() {
		rootName = g.pick([]string{"Root", "ROOT", "rOOt"})
	}
	root := g.queue(rootName, 1, "root", confBudget{}, confBudget{}, 0, cu, cg, true)
	switch {
	case g.r.Chance(88):
		p.Queues = []configs.QueueConfig{root}
	case g.r.Chance(50): // several top level queues: the root is inserted
		p.Queues = root.Queues
	case g.r.Chance(50): // single top level queue that is not the root
		q := root
		q.Name = g.pick(confQueueNames)
		p.Queues = []configs.QueueConfig{q}
		for i := range g.paths {
			g.paths[i].path = "root." + strings.ToLower(q.Name) + strings.TrimPrefix(g.paths[i].path, "root")
		}
	default:
		p.Queues = []configs.QueueConfig{}
	}
	p.PlacementRules = g.rules()
	if g.r.Chance(12) {
		// partition level limits: equal to the root limits, or something else
		if len(root.Limits) > 0 && !g.bad() {
			p.Limits = append([]configs.Limit{}, root.Limits...)
		} else {
			p.Limits = g.limits(confBudget{}, 0, cu.clone(), cg.clone())
		}
	}
	if g.r.Chance(30) {
		p.NodeSortPolicy.Type = g.pick([]string{"fair", "binpacking", "", "fair", "binpacking"})
		if g.odd() {
			p.NodeSortPolicy.Type = g.pick([]string{"bogus", "Fair"})
		}
		if g.r.Chance(50) {
			p.NodeSortPolicy.ResourceWeights = map[string]float64{}
			for _, rn := range confResNames {
				if g.r.Chance(40) {
					w := float64(g.r.Intn(50)) / 10
					if g.bad() {
						w = -w
					}
					p.NodeSortPolicy.ResourceWeights[rn] = w
				}
			}
		}
	}
	if g.r.Chance(20) {
		b := g.r.Bool()
		p.Preemption.Enabled = &b
		if g.r.Chance(50) {
			b2 := g.r.Bool()
			p.Preemption.QuotaPreemptionEnabled = &b2
		}
	}
	return p
}

func (g *confGen) config() *configs.SchedulerConfig {
	c := &configs.SchedulerConfig{}
	if g.single {
		c.Partitions = append(c.Partitions, g.partition("default"))
		return c
	}
	names := []string{g.pick([]string{"default", "default", "default", "", "Default"})}
	switch {
	case g.r.Chance(6):
		names = append(names, g.pick([]string{"gpu", "other", "GPU", "gpu", "other", "default", "Default", ""}))
	case g.r.Chance(1):
		names = nil
	}
	if len(names) > 0 && g.r.Chance(2) {
		names[0] = g.pick([]string{"gpu", "other"})
	}
	for _, n := range names {
		c.Partitions = append(c.Partitions, g.partition(n))
	}
	return c
}

// ---- targeted stream: limit chains ----
// A clean three or four level tree whose only interesting content is user / group limits placed on NON adjacent levels:
// an ancestor with a named entry and/or a wildcard entry (the wildcard group needs a named group in the same queue),
// optional wildcard-only or empty levels in between, and a descendant entry for the same or for a fresh name whose
// values sit on the boundaries of every comparison of checkLimitResource / checkLimitMaxApplications (equal, one
// more, smaller, absent = 0 / no resources, other resource type).  Users and groups are drawn independently.
func (g *confGen) limitEntry(name string, users, groups []string, apps uint64, mem, vcore int64) configs.Limit {
	l := configs.Limit{Limit: name, Users: users, Groups: groups, MaxApplications: apps}
	if mem > 0 || vcore > 0 {
		l.MaxResources = map[string]string{}
		if mem > 0 {
			l.MaxResources["memory"] = fmt.Sprintf("%d", mem)
		}
		if vcore > 0 {
			l.MaxResources["vcore"] = fmt.Sprintf("%dm", vcore)
		}
	}
	return l
}

func (g *confGen) limitScenario() *configs.SchedulerConfig {
	r := g.r
	pickDim := func(n string) (u, gr []string) {
		switch r.Intn(3) {
		case 0:
			return []string{n}, nil
		case 1:
			return nil, []string{n}
		}
		return []string{n}, []string{n}
	}
	// ancestor values
	a1 := uint64(r.Intn(3)) * uint64(2+r.Intn(8)) // 0 = unlimited in one case of three
	w := uint64(r.Intn(3)) * uint64(2+r.Intn(8))
	m1 := int64(r.Intn(3)) * int64(10+r.Intn(90))
	mw := int64(r.Intn(3)) * int64(10+r.Intn(90))
	if a1 == 0 && m1 == 0 {
		a1 = 6
	}
	if w == 0 && mw == 0 {
		mw = 50
	}
	xu, xg := pickDim("dev")
	var top []configs.Limit
	top = append(top, g.limitEntry("named", xu, xg, a1, m1, 0))
	hasWild := r.Chance(65)
	if hasWild {
		var wu, wg []string
		if len(xu) > 0 && (len(xg) == 0 || r.Bool()) {
			wu = []string{"*"}
		}
		if len(xg) > 0 && (wu == nil || r.Bool()) {
			wg = []string{"*"} // allowed: a named group precedes it in this queue
		}
		top = append(top, g.limitEntry("wild", wu, wg, w, mw, 0))
	}
	// the descendant: same name (named chain) or a fresh one (wildcard chain)
	name := "dev"
	if r.Chance(55) {
		name = "ops"
	}
	var cu, cg []string
	switch {
	case len(xu) > 0 && len(xg) > 0:
		cu, cg = pickDim(name)
	case len(xu) > 0:
		cu = []string{name}
	default:
		cg = []string{name}
	}
	pickApps := func() uint64 {
		if r.Chance(30) {
			return 0 // no application count: unlimited
		}
		c := []uint64{0, 1, a1, a1 + 1, w, w + 1}
		if a1 > 1 {
			c = append(c, a1-1)
		}
		if w > 1 {
			c = append(c, w-1)
		}
		return c[r.Intn(len(c))]
	}
	pickMem := func() int64 {
		c := []int64{0, 0, 1, m1, m1 + 1, mw, mw + 1}
		if m1 > 1 {
			c = append(c, m1-1)
		}
		if mw > 1 {
			c = append(c, mw-1)
		}
		return c[r.Intn(len(c))]
	}
	ca, cm := pickApps(), pickMem()
	cv := int64(0)
	if r.Chance(25) {
		cv = int64(100 * (1 + r.Intn(20))) // a type the ancestors do not define
	}
	if ca == 0 && cm == 0 && cv == 0 {
		if r.Bool() {
			cm = 1 + mw/2 + m1/2
		} else {
			ca = 1
		}
	}
	leaf := configs.QueueConfig{Name: "batch", Limits: []configs.Limit{g.limitEntry("leaf", cu, cg, ca, cm, cv)}}
	mid := configs.QueueConfig{Name: "team", Parent: true, Queues: []configs.QueueConfig{leaf}}
	switch r.Intn(6) {
	case 0: // a wildcard-only level in between (users only: a lone wildcard group is not allowed)
		mid.Limits = []configs.Limit{g.limitEntry("midwild", []string{"*"}, nil, uint64(1+r.Intn(9)), 0, 0)}
	case 1: // another name in between
		mu, mg := pickDim("qa")
		mid.Limits = []configs.Limit{g.limitEntry("midother", mu, mg, uint64(r.Intn(9)), int64(1+r.Intn(50)), 0)}
	case 2: // one more empty level
		mid = configs.QueueConfig{Name: "team", Parent: true, Queues: []configs.QueueConfig{{Name: "sub", Parent: true, Queues: []configs.QueueConfig{leaf}}}}
	}
	tenant := configs.QueueConfig{Name: "tenant", Parent: true, Limits: top, Queues: []configs.QueueConfig{mid}}
	root := configs.QueueConfig{Name: "root", Parent: true, Queues: []configs.QueueConfig{tenant}}
	if r.Chance(30) { // the ancestor entries on the root instead
		root.Limits, tenant.Limits = top, nil
		root.Queues = []configs.QueueConfig{tenant}
	}
	return &configs.SchedulerConfig{Partitions: []configs.PartitionConfig{{Name: "default", Queues: []configs.QueueConfig{root}}}}
}

// ---- YAML node level permutation and mutation ----

func confParseNode(b []byte) *yaml.Node {
	var n yaml.Node
	if err := yaml.Unmarshal(b, &n); err != nil {
		return nil
	}
	return &n
}

// shuffle the entries of every mapping node (map entries and field order)
func confShuffle(n *yaml.Node, r *Rng) {
	if n == nil {
		return
	}
	if n.Kind == yaml.MappingNode {
		k := len(n.Content) / 2
		for i := k - 1; i > 0; i-- {
			j := r.Intn(i + 1)
			n.Content[2*i], n.Content[2*j] = n.Content[2*j], n.Content[2*i]
			n.Content[2*i+1], n.Content[2*j+1] = n.Content[2*j+1], n.Content[2*i+1]
		}
	}
	for _, c := range n.Content {
		confShuffle(c, r)
	}
}

func confCollect(n *yaml.Node, kind yaml.Kind, out *[]*yaml.Node) {
	if n == nil {
		return
	}
	if n.Kind == kind {
		*out = append(*out, n)
	}
	for _, c := range n.Content {
		confCollect(c, kind, out)
	}
}

// one structural mutation of the document; returns a description
func confMutate(n *yaml.Node, r *Rng) string {
	var maps, scalars []*yaml.Node
	confCollect(n, yaml.MappingNode, &maps)
	confCollect(n, yaml.ScalarNode, &scalars)
	if len(maps) == 0 {
		return "none"
	}
	m := maps[r.Intn(len(maps))]
	k := len(m.Content) / 2
	sc := func(v, tag string) *yaml.Node {
		return &yaml.Node{Kind: yaml.ScalarNode, Value: v, Tag: tag}
	}
	switch r.Intn(9) {
	case 0: // delete a key
		if k > 0 {
			i := r.Intn(k)
			key := m.Content[2*i].Value
			m.Content = append(m.Content[:2*i], m.Content[2*i+2:]...)
			return "delete:" + key
		}
	case 1: // duplicate a key
		if k > 0 {
			i := r.Intn(k)
			m.Content = append(m.Content, m.Content[2*i], m.Content[2*i+1])
			return "duplicate:" + m.Content[2*i].Value
		}
	case 2: // unknown field
		m.Content = append(m.Content, sc("nosuchfield", "!!str"), sc("1", "!!int"))
		return "unknown-field"
	case 3: // empty sequence / map / null under a known key
		key := []string{"users", "groups", "queues", "limits", "maxresources", "max", "guaranteed", "properties", "placementrules", "resources", "childtemplate", "filter", "parent"}[r.Intn(13)]
		var v *yaml.Node
		switch r.Intn(3) {
		case 0:
			v = &yaml.Node{Kind: yaml.SequenceNode, Tag: "!!seq"}
		case 1:
			v = &yaml.Node{Kind: yaml.MappingNode, Tag: "!!map"}
		default:
			v = sc("null", "!!null")
		}
		m.Content = append(m.Content, sc(key, "!!str"), v)
		return "empty:" + key
	case 4, 5: // change a scalar value
		if len(scalars) > 0 {
			s := scalars[r.Intn(len(scalars))]
			old := s.Value
			s.Value = []string{"-5", "abc", "true", "", "18446744073709551616", "1.5", "~", "root", "*", "0"}[r.Intn(10)]
			s.Tag = ""
			s.Style = 0
			return "scalar:" + old + "->" + s.Value
		}
	case 6: // maxapplications with an odd value
		m.Content = append(m.Content, sc("maxapplications", "!!str"), sc([]string{"-1", "x", "1e3", "18446744073709551615", "0x10"}[r.Intn(5)], ""))
		return "maxapplications"
	case 7: // scalar replaced by a sequence
		if k > 0 {
			i := r.Intn(k)
			m.Content[2*i+1] = &yaml.Node{Kind: yaml.SequenceNode, Tag: "!!seq", Content: []*yaml.Node{sc("x", "!!str")}}
			return "seq-for:" + m.Content[2*i].Value
		}
	default: // parent flag with odd value
		m.Content = append(m.Content, sc("parent", "!!str"), sc([]string{"yes", "True", "1", "false"}[r.Intn(4)], ""))
		return "parentflag"
	}
	return "none"
}

func confRender(n *yaml.Node) []byte {
	b, err := yaml.Marshal(n)
	if err != nil {
		return []byte("partitions: [")
	}
	return b
}

func confSortedResNames(set map[string]bool) []string {
	ks := make([]string, 0, len(set))
	for k := range set {
		ks = append(ks, k)
	}
	sort.Strings(ks)
	return ks
}
