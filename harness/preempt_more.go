package main

import (
	"fmt"
	"math"
	"sort"
	"time"

	"github.com/apache/yunikorn-core/pkg/scheduler/objects"
)

// ---- required node preemption cases ----

type PreemptRNObs struct {
	Queues     []PreemptQueueObs `json:"queues"`
	Nodes      []PreemptNodeObs  `json:"nodes"`
	Placed     []bool            `json:"placed"`
	Sorted     []int             `json:"sorted"`
	Marked     []int             `json:"marked"`
	Announced  [][]int           `json:"announced"`
	Preempting []PreemptRes      `json:"preempting_after"`
	Triggered  bool              `json:"triggered_after"`
	Crash      string            `json:"crash,omitempty"`
}

type PreemptRNCase struct {
	Spec objects.VerifPreemptWorldSpec `json:"spec"`
	Node int                           `json:"node"`
	Obs  *PreemptRNObs                 `json:"obs,omitempty"`
}

func genPreemptRNCase(rng *Rng) PreemptRNCase {
	ntypes := 1 + rng.Intn(3)
	qs, leaves := preemptGenTree(rng, ntypes, false)
	nodes := preemptGenNodes(rng, ntypes)
	spec := objects.VerifPreemptWorldSpec{Queues: qs, Nodes: nodes, AttemptFrequencyMs: 15000}
	node := rng.Intn(len(nodes))
	allocs := preemptGenAllocs(rng, ntypes, leaves, len(nodes), 2+rng.Intn(12), 8)
	for i := range allocs {
		if rng.Chance(60) {
			allocs[i].Node = node
		}
	}
	spec.Allocs = allocs
	spec.Ask = preemptGenAsk(rng, ntypes, leaves)
	spec.Ask.RequiredNode = node
	spec.Ask.Priority = int32(rng.Intn(6))
	return PreemptRNCase{Spec: spec, Node: node}
}

func runPreemptRNCase(c *PreemptRNCase) {
	preemptInit()
	obs := &PreemptRNObs{}
	c.Obs = obs
	defer func() {
		if e := recover(); e != nil {
			obs.Crash = fmt.Sprint(e)
		}
	}()
	w, err := objects.VerifPreemptBuild(&c.Spec)
	if err != nil {
		obs.Crash = "build: " + err.Error()
		return
	}
	obs.Placed = w.Placed
	obs.Queues, obs.Nodes = preemptObserveStatic(w, &c.Spec)
	idx := preemptAllocIndex(&c.Spec)
	r := w.TryRequiredNode(c.Node)
	obs.Sorted = preemptKeysToIdx(idx, r.Sorted)
	obs.Marked = preemptMarked(w, &c.Spec)
	obs.Announced = preemptAnnounced(w, idx)
	for i := range c.Spec.Queues {
		obs.Preempting = append(obs.Preempting, preemptResOf(w.ObserveQueue(i).Preempting))
	}
	obs.Triggered, _ = w.ObserveAsk()
}

func (c *PreemptRNCase) coq() string {
	o := c.Obs
	if o.Crash != "" {
		return "RCCrash"
	}
	w := preemptWorldCoq(&c.Spec, o.Queues, o.Nodes, o.Placed, nil, false)
	return fmt.Sprintf("(RC %s\n  %s %s (mkRObs %s %s %s %s))", w, coqN(uint64(c.Node)), coqNList(o.Sorted), coqNList(o.Marked),
		coqNListList(o.Announced), preemptResListCoq(o.Preempting), coqBool(o.Triggered))
}

// ---- quota preemption histories ----

type PreemptQuoTime struct {
	DelayMs    int64 `json:"delay_ms"`
	StartSet   bool  `json:"start_set"`
	StartInSec int64 `json:"start_in_s"`
	Running    bool  `json:"running"`
}

type PreemptQuoLeaf struct {
	Queue   int        `json:"queue"`
	Pre     PreemptRes `json:"preemptable"`
	Sorted  []int      `json:"sorted"`
	Claimed PreemptRes `json:"claimed"`
}

type PreemptQuoStepObs struct {
	Times      []PreemptQuoTime `json:"times"`
	Max        []PreemptRes     `json:"max"`
	Guaranteed []PreemptRes     `json:"guaranteed"`
	Allocated  []PreemptRes     `json:"allocated"`
	Preempting []PreemptRes     `json:"preempting"`
	Acquired   bool             `json:"acquired"`
	Top        PreemptRes       `json:"top"`
	Leaves     []PreemptQuoLeaf `json:"leaves"`
	Marked     []int            `json:"marked"`
	Announced  [][]int          `json:"announced"`
	Crash      string           `json:"crash,omitempty"`
}

type PreemptQuoStep struct {
	Op         string             `json:"op"` // reconf | advance | usage | trigger | hold (tryAcquirePreemption only) | done (setQuotaPreemptionState(false))
	Queue      int                `json:"queue"`
	Max        map[string]int64   `json:"max,omitempty"`
	Guaranteed map[string]int64   `json:"guaranteed,omitempty"`
	Delay      string             `json:"delay,omitempty"`
	AdvanceSec int64              `json:"advance_s,omitempty"`
	Res        map[string]int64   `json:"res,omitempty"`
	Enabled    bool               `json:"enabled,omitempty"`
	Whole      bool               `json:"whole,omitempty"`
	Obs        *PreemptQuoStepObs `json:"obs,omitempty"`
}

type PreemptQuoObs0 struct {
	Queues []PreemptQueueObs `json:"queues"`
	Nodes  []PreemptNodeObs  `json:"nodes"`
	Placed []bool            `json:"placed"`
	Times  []PreemptQuoTime  `json:"times"`
	Crash  string            `json:"crash,omitempty"`
}

type PreemptQuoCase struct {
	Stream string                        `json:"stream,omitempty"` // generator stream ("" = the general one, "qtime")
	Spec   objects.VerifPreemptWorldSpec `json:"spec"`
	Steps  []PreemptQuoStep              `json:"steps"`
	Obs    *PreemptQuoObs0               `json:"obs,omitempty"`
}

func genPreemptQuoCase(rng *Rng) PreemptQuoCase {
	ntypes := 1 + rng.Intn(3)
	qs, leaves := preemptGenTree(rng, ntypes, true)
	nodes := preemptGenNodes(rng, ntypes)
	for i := range nodes {
		for k := range nodes[i].Total {
			nodes[i].Total[k] += 20
		}
	}
	spec := objects.VerifPreemptWorldSpec{Queues: qs, Nodes: nodes, AttemptFrequencyMs: 15000}
	spec.Allocs = preemptGenAllocs(rng, ntypes, leaves, len(nodes), 3+rng.Intn(12), 7)
	for i := range spec.Allocs {
		spec.Allocs[i].Priority = int32(rng.Intn(4))
	}
	spec.Ask = preemptGenAsk(rng, ntypes, leaves)
	c := PreemptQuoCase{Spec: spec}
	// usage per queue (sum over the subtree) to pick lowered maxima that bite
	usage := make([]map[string]int64, len(qs))
	for i := range usage {
		usage[i] = map[string]int64{}
	}
	for _, a := range spec.Allocs {
		for q := a.Queue; q >= 0; q = qs[q].Parent {
			for k, v := range a.Res {
				usage[q][k] += v
			}
		}
	}
	delays := []string{"10s", "60s", "0s", ""}
	lowered := func(q int) map[string]int64 {
		mx := map[string]int64{}
		for k, v := range usage[q] {
			if rng.Chance(75) {
				mx[k] = max(v*int64(30+rng.Intn(90))/100, 1)
			}
		}
		return mx
	}
	randomStep := func() PreemptQuoStep {
		q := 1 + rng.Intn(len(qs)-1)
		switch x := rng.Intn(100); {
		case x < 35:
			mx := lowered(q)
			if rng.Chance(10) {
				mx = nil
			}
			st := PreemptQuoStep{Op: "reconf", Queue: q, Max: mx, Guaranteed: qs[q].Guaranteed, Delay: delays[rng.Intn(4)]}
			if rng.Chance(25) {
				st.Guaranteed = preemptGenRes(rng, ntypes, 0, 10, 70)
			}
			return st
		case x < 55:
			return PreemptQuoStep{Op: "advance", AdvanceSec: []int64{5, 10, 30, 60, 120}[rng.Intn(5)]}
		case x < 65:
			l := leaves[rng.Intn(len(leaves))]
			return PreemptQuoStep{Op: "usage", Queue: l, Res: preemptGenResNonEmpty(rng, ntypes, 1, 5, 70), Enabled: !rng.Chance(20)}
		default:
			return PreemptQuoStep{Op: "trigger", Queue: q, Whole: rng.Chance(20)}
		}
	}
	if rng.Chance(75) {
		// scenario: lower the maximum of a queue that has usage, let the delay pass, trigger; noise steps in between
		cands := []int{}
		for q := 1; q < len(qs); q++ {
			if len(usage[q]) > 0 {
				cands = append(cands, q)
			}
		}
		if len(cands) > 0 {
			q := cands[rng.Intn(len(cands))]
			noise := func() {
				for rng.Chance(25) {
					c.Steps = append(c.Steps, randomStep())
				}
			}
			noise()
			c.Steps = append(c.Steps, PreemptQuoStep{Op: "reconf", Queue: q, Max: lowered(q), Guaranteed: qs[q].Guaranteed, Delay: []string{"10s", "60s"}[rng.Intn(2)]})
			noise()
			c.Steps = append(c.Steps, PreemptQuoStep{Op: "advance", AdvanceSec: []int64{10, 60, 60, 120}[rng.Intn(4)]})
			noise()
			c.Steps = append(c.Steps, PreemptQuoStep{Op: "trigger", Queue: q, Whole: rng.Chance(15)})
			if rng.Chance(50) {
				// usage grows while the victims are still terminating, the delay passes again, trigger again
				l := leaves[rng.Intn(len(leaves))]
				c.Steps = append(c.Steps, PreemptQuoStep{Op: "usage", Queue: l, Res: preemptGenResNonEmpty(rng, ntypes, 1, 5, 70), Enabled: true})
				c.Steps = append(c.Steps, PreemptQuoStep{Op: "advance", AdvanceSec: 120})
				c.Steps = append(c.Steps, PreemptQuoStep{Op: "trigger", Queue: q, Whole: rng.Chance(15)})
			}
			noise()
			return c
		}
	}
	nsteps := 2 + rng.Intn(7)
	for s := 0; s < nsteps; s++ {
		c.Steps = append(c.Steps, randomStep())
	}
	return c
}

func preemptTimes(w *objects.VerifPreemptWorld, n int) []PreemptQuoTime {
	out := make([]PreemptQuoTime, n)
	for i := 0; i < n; i++ {
		o := w.ObserveQueue(i)
		out[i] = PreemptQuoTime{DelayMs: o.QuotaDelayMs, StartSet: o.QuotaStartSet, Running: o.QuotaRunning}
		if o.QuotaStartSet {
			out[i].StartInSec = int64(math.Round(float64(o.QuotaStartInMs) / 1000))
		}
	}
	return out
}

func runPreemptQuoCase(c *PreemptQuoCase) {
	preemptInit()
	obs := &PreemptQuoObs0{}
	c.Obs = obs
	for i := range c.Steps {
		c.Steps[i].Obs = nil
	}
	defer func() {
		if e := recover(); e != nil {
			obs.Crash = fmt.Sprint(e)
		}
	}()
	w, err := objects.VerifPreemptBuild(&c.Spec)
	if err != nil {
		obs.Crash = "build: " + err.Error()
		return
	}
	nq := len(c.Spec.Queues)
	obs.Placed = w.Placed
	obs.Queues, obs.Nodes = preemptObserveStatic(w, &c.Spec)
	obs.Times = preemptTimes(w, nq)
	idx := preemptAllocIndex(&c.Spec)
	qidx := map[string]int{}
	for i, q := range obs.Queues {
		qidx[q.Path] = i
	}
	marked := map[int]bool{}
	for _, m := range preemptMarked(w, &c.Spec) {
		marked[m] = true
	}
	nann := 0
	for i := range c.Steps {
		s := &c.Steps[i]
		so := &PreemptQuoStepObs{}
		s.Obs = so
		func() {
			defer func() {
				if e := recover(); e != nil {
					so.Crash = fmt.Sprint(e)
				}
			}()
			switch s.Op {
			case "reconf":
				qs := c.Spec.Queues[s.Queue]
				qs.Max, qs.Guaranteed = s.Max, s.Guaranteed
				props := map[string]string{}
				for k, v := range qs.Properties {
					props[k] = v
				}
				if s.Delay == "" {
					delete(props, "quota.preemption.delay")
				} else {
					props["quota.preemption.delay"] = s.Delay
				}
				qs.Properties = props
				if err := w.Reconfigure(s.Queue, &qs); err != nil {
					so.Crash = "reconf: " + err.Error()
				}
			case "advance":
				w.Advance(time.Duration(s.AdvanceSec) * time.Second)
			case "usage":
				w.AddUsage(s.Queue, s.Res, s.Enabled)
			case "hold":
				so.Acquired = w.TryAcquire(s.Queue)
			case "done":
				w.QuotaDone(s.Queue)
			case "trigger":
				so.Acquired = w.TryAcquire(s.Queue)
				if so.Acquired {
					func() {
						defer w.QuotaDone(s.Queue)
						r := w.TryQuota(s.Queue, s.Whole)
						so.Top = preemptResOf(r.Preemptable)
						for _, l := range r.Leaves {
							so.Leaves = append(so.Leaves, PreemptQuoLeaf{Queue: qidx[l.Path], Pre: preemptResOf(l.Preemptable),
								Sorted: preemptKeysToIdx(idx, l.Sorted), Claimed: preemptResOf(l.Claimed)})
						}
					}()
				}
			}
		}()
		so.Times = preemptTimes(w, nq)
		for qi := 0; qi < nq; qi++ {
			o := w.ObserveQueue(qi)
			so.Max = append(so.Max, preemptResOf(o.Max))
			so.Guaranteed = append(so.Guaranteed, preemptResOf(o.Guaranteed))
			so.Allocated = append(so.Allocated, preemptResOf(o.Allocated))
			so.Preempting = append(so.Preempting, preemptResOf(o.Preempting))
		}
		so.Marked = []int{}
		for _, m := range preemptMarked(w, &c.Spec) {
			if !marked[m] {
				marked[m] = true
				so.Marked = append(so.Marked, m)
			}
		}
		sort.Ints(so.Marked)
		ann := preemptAnnounced(w, idx)
		so.Announced = ann[nann:]
		nann = len(ann)
		if so.Crash != "" {
			break
		}
	}
}

func coqOptZ(some bool, z int64) string {
	if !some {
		return "None"
	}
	return "(Some " + coqZ(z) + ")"
}

func preemptTimesCoq(ts []PreemptQuoTime) string {
	items := make([]string, len(ts))
	for i, t := range ts {
		items[i] = fmt.Sprintf("(%s, (%s, %s, %s))", coqN(uint64(i)), coqZ(t.DelayMs), coqOptZ(t.StartSet, t.StartInSec*1000), coqBool(t.Running))
	}
	return coqList(items)
}

func (c *PreemptQuoCase) coq() string {
	o := c.Obs
	if o.Crash != "" {
		return "UCCrash"
	}
	w := preemptWorldCoq(&c.Spec, o.Queues, o.Nodes, o.Placed, nil, false)
	steps := []string{}
	for _, s := range c.Steps {
		if s.Obs == nil {
			break
		}
		var op string
		so := s.Obs
		switch s.Op {
		case "reconf":
			op = fmt.Sprintf("(QReconf %s %s %s %s)", coqN(uint64(s.Queue)), so.Max[s.Queue].coq(), so.Guaranteed[s.Queue].coq(), coqZ(so.Times[s.Queue].DelayMs))
		case "advance":
			op = fmt.Sprintf("(QAdvance %s)", coqZ(s.AdvanceSec*1000))
		case "usage":
			op = fmt.Sprintf("(QUsage %s %s %s)", coqN(uint64(s.Queue)), preemptResOf(s.Res).coq(), coqBool(s.Enabled))
		case "trigger":
			op = fmt.Sprintf("(QTrigger %s %s)", coqN(uint64(s.Queue)), coqBool(s.Whole))
		case "hold":
			op = fmt.Sprintf("(QHold %s)", coqN(uint64(s.Queue)))
		case "done":
			op = fmt.Sprintf("(QDone %s)", coqN(uint64(s.Queue)))
		}
		leaves := make([]string, len(so.Leaves))
		for i, l := range so.Leaves {
			leaves[i] = fmt.Sprintf("(mkLObs %s %s %s %s)", coqN(uint64(l.Queue)), l.Pre.coq(), coqNList(l.Sorted), l.Claimed.coq())
		}
		steps = append(steps, fmt.Sprintf("(%s,\n   mkQSObs %s %s %s %s %s %s %s %s %s)", op, preemptTimesCoq(so.Times), coqBool(so.Acquired), coqBool(so.Crash != ""),
			so.Top.coq(), coqList(leaves), coqNList(so.Marked), coqNListList(so.Announced), preemptResListCoq(so.Allocated), preemptResListCoq(so.Preempting)))
	}
	return fmt.Sprintf("(UC %s\n  %s\n  %s)", w, preemptTimesCoq(o.Times), coqList(steps))
}
