package main

// ---- engine "reload" (property C16): configuration reloads of a running scheduler ----
//
// Reuses the core driver (newCoreDriver, coreDriver.step), the core op generators (genState) and the core
// emitter. In addition to the core history the cases file contains, per history,
//   * for every configuration of the world its queue tree as parsed by configs.LoadSchedulerConfigFromByteArray
//     (None when the configuration does not load), and
//   * per observed state the queue properties and the settings derived from them (not part of Core/Obs.v).
// Cases type: Core/Reload.v rcase.

import (
	"fmt"
	"path/filepath"
	"sort"
	"strings"

	"github.com/apache/yunikorn-core/pkg/common/configs"
	"github.com/apache/yunikorn-core/pkg/common/resources"
	"github.com/apache/yunikorn-core/pkg/scheduler/objects"
)

type reloadQ struct {
	name      string
	parent    bool
	children  []*reloadQ
	max, guar CoreRes
	maxApps   int
	limits    string
	props     map[string]string
}

func reloadFromGen(q *genQueue) *reloadQ {
	n := &reloadQ{name: q.name, parent: q.parent, max: q.max, guar: q.guar, maxApps: q.maxApps, limits: q.limits}
	for _, c := range q.children {
		n.children = append(n.children, reloadFromGen(c))
	}
	return n
}

func reloadCloneRes(r CoreRes) CoreRes {
	if r == nil {
		return nil
	}
	o := CoreRes{}
	for k, v := range r {
		o[k] = v
	}
	return o
}

func (q *reloadQ) clone() *reloadQ {
	n := &reloadQ{name: q.name, parent: q.parent, max: reloadCloneRes(q.max), guar: reloadCloneRes(q.guar), maxApps: q.maxApps, limits: q.limits}
	if q.props != nil {
		n.props = map[string]string{}
		for k, v := range q.props {
			n.props[k] = v
		}
	}
	for _, c := range q.children {
		n.children = append(n.children, c.clone())
	}
	return n
}

func (q *reloadQ) yaml(ind string, b *strings.Builder) {
	b.WriteString(fmt.Sprintf("%s- name: %s\n", ind, q.name))
	in := ind + "  "
	if q.parent {
		b.WriteString(in + "parent: true\n")
	}
	if q.name == "root" {
		b.WriteString(in + "submitacl: \"*\"\n")
	}
	if q.maxApps > 0 {
		b.WriteString(fmt.Sprintf("%smaxapplications: %d\n", in, q.maxApps))
	}
	if len(q.props) > 0 {
		b.WriteString(in + "properties:\n")
		for _, k := range sortedKeys(q.props) {
			b.WriteString(fmt.Sprintf("%s  %s: \"%s\"\n", in, k, q.props[k]))
		}
	}
	if q.max != nil || q.guar != nil {
		b.WriteString(in + "resources:\n")
		if q.guar != nil {
			b.WriteString(in + "  guaranteed:\n" + yamlRes(in+"    ", q.guar))
		}
		if q.max != nil {
			b.WriteString(in + "  max:\n" + yamlRes(in+"    ", q.max))
		}
	}
	if q.limits != "" {
		b.WriteString(strings.ReplaceAll(q.limits, "@", in))
	}
	if len(q.children) > 0 {
		b.WriteString(in + "queues:\n")
		for _, c := range q.children {
			c.yaml(in+"  ", b)
		}
	}
}

func reloadConfigYAML(root *reloadQ, preemption bool, nodePolicy string, rule string) string {
	var b strings.Builder
	b.WriteString("partitions:\n  - name: default\n")
	b.WriteString(fmt.Sprintf("    placementrules:\n      - name: %s\n        create: true\n", rule))
	b.WriteString(fmt.Sprintf("    nodesortpolicy:\n      type: %s\n", nodePolicy))
	b.WriteString(fmt.Sprintf("    preemption:\n      enabled: %v\n", preemption))
	b.WriteString("    queues:\n")
	root.yaml("      ", &b)
	return b.String()
}

var reloadPropPool = [][]string{
	{"application.sort.policy", "fifo", "fair", "stateaware", "bogus", "Fair"},
	{"application.sort.priority", "enabled", "disabled", "Disabled", "off"},
	{"priority.policy", "default", "fence", "Fence", "zz"},
	{"priority.offset", "5", "-3", "+2", "abc", "99999999999", "007", ""},
	{"preemption.policy", "default", "fence", "disabled", "Disabled", "off"},
	{"preemption.delay", "10s", "bad"},
	{"custom.key", "v1", "v2"},
}

func reloadRollProps(r *Rng) map[string]string {
	n := r.Intn(3)
	if n == 0 {
		return nil
	}
	out := map[string]string{}
	for i := 0; i < n; i++ {
		p := reloadPropPool[r.Intn(len(reloadPropPool))]
		out[p[0]] = p[1+r.Intn(len(p)-1)]
	}
	return out
}

func reloadDecorate(r *Rng, q *reloadQ, pct int) {
	if r.Chance(pct) {
		q.props = reloadRollProps(r)
	}
	for _, c := range q.children {
		reloadDecorate(r, c, pct)
	}
}

// fixup makes the tree pass the structural validation rules (child max within parent max, guaranteed within max,
// sum of the children's guaranteed within the parent's max, max-applications non-increasing).
func (q *reloadQ) fixup(parentMax CoreRes, parentApps int) {
	if q.name != "root" {
		if q.max != nil && parentMax != nil {
			for k, v := range q.max {
				if pv, ok := parentMax[k]; ok && v > pv {
					q.max[k] = pv
				}
			}
		}
		if q.guar != nil {
			if q.max == nil || len(q.children) > 0 {
				q.guar = nil
			} else {
				for k, v := range q.guar {
					if mv, ok := q.max[k]; ok && v > mv {
						q.guar[k] = mv
					}
				}
			}
		}
		if parentApps > 0 {
			if q.maxApps == 0 || q.maxApps > parentApps {
				q.maxApps = parentApps
			}
		}
	}
	eff := reloadCloneRes(q.max)
	if eff == nil {
		eff = reloadCloneRes(parentMax)
	} else if parentMax != nil {
		for k, v := range parentMax {
			if _, ok := eff[k]; !ok {
				eff[k] = v
			}
		}
	}
	sum := CoreRes{}
	for _, c := range q.children {
		c.fixup(eff, q.maxApps)
		for k, v := range c.guar {
			sum[k] += v
		}
	}
	if eff != nil {
		for k, v := range sum {
			if mv, ok := eff[k]; ok && v > mv {
				for _, c := range q.children {
					c.guar = nil
				}
				break
			}
		}
	}
	if len(q.children) > 0 {
		q.parent = true
	}
}

func (q *reloadQ) child(name string) *reloadQ {
	for _, c := range q.children {
		if c.name == name {
			return c
		}
	}
	return nil
}

func reloadTweak(r *Rng, q *reloadQ, ntypes int) {
	if q.max != nil && r.Chance(40) {
		for k, v := range q.max {
			q.max[k] = max(1, v+int64(r.Intn(9))-4)
		}
		q.limits = ""
	} else if r.Chance(12) {
		if q.max == nil {
			q.max = r.res(ntypes, 6, 40, true)
		} else {
			q.max = nil
			q.guar = nil
		}
		q.limits = ""
	}
	if r.Chance(20) {
		if q.guar == nil && q.max != nil {
			q.guar = CoreRes{}
			for k, v := range q.max {
				q.guar[k] = v / 2
			}
		} else {
			q.guar = nil
		}
	}
	if r.Chance(25) {
		q.maxApps = r.Intn(4)
	}
	if r.Chance(35) {
		q.props = reloadRollProps(r)
	}
}

// reloadMutate derives the next configuration: queues dropped (-> draining), dropped queues coming back
// (-> reactivated), limits and properties changed, queues added, a leaf turned into a parent and back.
func reloadMutate(r *Rng, cur *reloadQ, pool map[string]*reloadQ, ntypes int) *reloadQ {
	cp := cur.clone()
	kept := []*reloadQ{}
	for _, q := range cp.children {
		if len(cp.children) > 1 && r.Chance(22) {
			continue
		}
		kept = append(kept, q)
	}
	cp.children = kept
	for _, name := range sortedKeys(pool) {
		if cp.child(name) == nil && r.Chance(35) {
			cp.children = append(cp.children, pool[name].clone())
		}
	}
	for _, q := range cp.children {
		reloadTweak(r, q, ntypes)
		keptC := []*reloadQ{}
		for _, c := range q.children {
			if r.Chance(20) {
				continue
			}
			reloadTweak(r, c, ntypes)
			keptC = append(keptC, c)
		}
		q.children = keptC
		if q.parent && r.Chance(15) {
			name := fmt.Sprintf("c%d", r.Intn(3))
			if q.child(name) == nil {
				q.children = append(q.children, &reloadQ{name: name, max: r.res(ntypes, 3, 30, true)})
			}
		}
		if !q.parent && r.Chance(3) {
			// a leaf becomes a parent (DESIGN section 7 finding 19 when it holds applications)
			q.parent = true
			q.guar = nil
			q.children = append(q.children, &reloadQ{name: "sub"})
		} else if q.parent && r.Chance(2) {
			q.parent = false
			q.children = nil
		}
	}
	if r.Chance(25) {
		name := fmt.Sprintf("n%d", r.Intn(3))
		if cp.child(name) == nil {
			cp.children = append(cp.children, &reloadQ{name: name, max: r.res(ntypes, 5, 30, true), props: reloadRollProps(r)})
		}
	}
	if r.Chance(15) {
		cp.props = reloadRollProps(r)
	}
	cp.fixup(nil, 0)
	for _, q := range cp.children {
		if _, ok := pool[q.name]; !ok {
			pool[q.name] = q.clone()
		}
	}
	return cp
}

// reloadZeroOnly derives a configuration whose ONLY difference is a zero-valued resource type added to the max (and to
// the guaranteed, when set) of one queue without children: "gpu: 0" is a limit (nothing of that type may be used),
// while a missing type is no limit. Returns nil when no queue qualifies; otherwise the new tree, the queue path and the type.
func reloadZeroOnly(r *Rng, cur *reloadQ, ntypes int) (*reloadQ, string, string) {
	cp := cur.clone()
	type cand struct {
		q    *reloadQ
		path string
		typ  string
	}
	var cands []cand
	var walk func(q *reloadQ, prefix string)
	walk = func(q *reloadQ, prefix string) {
		path := q.name
		if prefix != "" {
			path = prefix + "." + q.name
		}
		if q.name != "root" && len(q.children) == 0 && q.max != nil {
			// prefer the types the cluster provides; any of the three otherwise
			for i, t := range coreTypes {
				if _, ok := q.max[t]; !ok && (i < ntypes || r.Chance(30)) {
					cands = append(cands, cand{q, path, t})
				}
			}
		}
		for _, c := range q.children {
			walk(c, path)
		}
	}
	walk(cp, "")
	if len(cands) == 0 {
		return nil, "", ""
	}
	c := cands[r.Intn(len(cands))]
	c.q.max[c.typ] = 0
	if c.q.guar != nil && r.Chance(60) {
		c.q.guar[c.typ] = 0
	}
	c.q.limits = ""
	return cp, c.path, c.typ
}

// scenario configurations: a twin of an existing configuration that differs in one respect, played right after it
type reloadScenario struct {
	kind       string // "maxapps": max-applications of one queue (and what validation forces below it) lowered to 1; "drop": a three-level subtree removed
	base, twin int    // configuration indices
	queue      string
	leaves     []string
}

// reloadMaxAppsTwin lowers max-applications of one top-level queue that currently allows at least two running applications.
func reloadMaxAppsTwin(r *Rng, cur *reloadQ) (*reloadQ, string, []string) {
	cp := cur.clone()
	var cands []*reloadQ
	for _, q := range cp.children {
		if q.maxApps == 0 || q.maxApps >= 2 {
			cands = append(cands, q)
		}
	}
	if len(cands) == 0 {
		return nil, "", nil
	}
	q := cands[r.Intn(len(cands))]
	q.maxApps = 1
	q.limits = ""
	cp.fixup(nil, 0)
	path := "root." + q.name
	lv, dy := map[string]bool{}, map[string]bool{}
	q.collect("root", lv, dy)
	leaves := sortedKeys(lv)
	for _, d := range sortedKeys(dy) {
		leaves = append(leaves, d+".d0")
	}
	return cp, path, leaves
}

// the deep subtree root.org -> team -> dev, test (configured queues three levels below root)
func reloadDeepSubtree(r *Rng, ntypes int) *reloadQ {
	dev := &reloadQ{name: "dev"}
	test := &reloadQ{name: "test"}
	if r.Chance(40) {
		dev.max = r.res(ntypes, 4, 20, true)
	}
	team := &reloadQ{name: "team", parent: true, children: []*reloadQ{dev, test}}
	if r.Chance(30) {
		team.props = reloadRollProps(r)
	}
	org := &reloadQ{name: "org", parent: true, children: []*reloadQ{team}}
	if r.Chance(30) {
		org.children = append(org.children, &reloadQ{name: "ops"})
	}
	return org
}

func (q *reloadQ) collect(prefix string, leaves, dyn map[string]bool) {
	path := q.name
	if prefix != "" {
		path = prefix + "." + q.name
	}
	if q.parent && len(q.children) == 0 {
		dyn[path] = true
	}
	if !q.parent {
		leaves[path] = true
	}
	for _, c := range q.children {
		c.collect(path, leaves, dyn)
	}
}

// invalid configurations: rejected by validation, by the dry run or by the placement manager
func reloadInvalidConfig(r *Rng, cur *reloadQ, preempt bool, policy string) string {
	switch r.Intn(6) {
	case 0:
		return "partitions:\n  - name: default\n    queues:\n      - name: root\n        queues:\n          - name: a\n          - name: a\n"
	case 1:
		cp := cur.clone()
		cp.children = append(cp.children, &reloadQ{name: "big", parent: true, max: CoreRes{"memory": 5}, children: []*reloadQ{{name: "kid", max: CoreRes{"memory": 50}}}})
		return reloadConfigYAML(cp, preempt, policy, "provided")
	case 2:
		return reloadConfigYAML(cur, preempt, policy, "bogus")
	case 3:
		return "partitions: [ this is not: valid yaml"
	case 4:
		cp := cur.clone()
		cp.children = append(cp.children, &reloadQ{name: "gq", max: CoreRes{"memory": 5}, guar: CoreRes{"memory": 9}})
		return reloadConfigYAML(cp, preempt, policy, "provided")
	default:
		cp := cur.clone()
		cp.children = append(cp.children, &reloadQ{name: "bad name!"})
		return reloadConfigYAML(cp, preempt, policy, "provided")
	}
}

// ---- extra observation: properties and derived settings per queue ----
type ReloadQX struct {
	Path       string
	Props      map[string]string
	Sort       string
	PrioSort   bool
	Preempt    int // 0 default 1 fence 2 disabled
	PrioFence  bool
	PrioOffset int32
}

func reloadWalk(q *objects.Queue, out *[]ReloadQX) {
	info := q.GetPartitionQueueDAOInfo(false)
	x := ReloadQX{Path: info.QueueName, Props: q.GetProperties(), Sort: info.SortingPolicy, PrioSort: info.PrioritySorting,
		PrioFence: info.IsPriorityFence, PrioOffset: info.PriorityOffset}
	if !info.PreemptionEnabled {
		x.Preempt = 2
	} else if info.IsPreemptionFence {
		x.Preempt = 1
	}
	*out = append(*out, x)
	children := q.GetCopyOfChildren()
	for _, n := range sortedKeys(children) {
		reloadWalk(children[n], out)
	}
}

func reloadExtras(d *coreDriver) []ReloadQX {
	var out []ReloadQX
	if p := d.part(); p != nil {
		reloadWalk(p.VerifRoot(), &out)
	}
	return out
}

type reloadCase struct {
	CoreCase
	Extras [][]ReloadQX // Extras[0] = initial state, Extras[i+1] = after step i
}

func (c *reloadCase) exec(d *coreDriver, op CoreOp) *CoreStep {
	c.Ops = append(c.Ops, op)
	st := d.step(&c.Ops[len(c.Ops)-1])
	c.Steps = append(c.Steps, st)
	c.Extras = append(c.Extras, reloadExtras(d))
	return &c.Steps[len(c.Steps)-1]
}

func reloadRun(c *reloadCase) error {
	d, err := newCoreDriver(&c.World)
	if err != nil {
		return err
	}
	c.Init = d.observe()
	c.Steps = nil
	c.Extras = [][]ReloadQX{reloadExtras(d)}
	ops := c.Ops
	c.Ops = nil
	for _, op := range ops {
		c.exec(d, op)
	}
	return nil
}

// per-mille thresholds: sched app_add ask release bound foreign node_add node_update drain node_remove app_remove fire_ph fire_state reload clean update (rest malformed)
var reloadMix = []int{230, 130, 170, 80, 20, 10, 15, 10, 5, 5, 30, 10, 25, 170, 70, 10}

func reloadGenCase(rng *Rng, maxOps int) (*reloadCase, error) {
	th := make([]int, len(reloadMix))
	acc := 0
	for i, m := range reloadMix {
		acc += m
		th[i] = acc
	}
	ntypes := 1 + rng.Intn(3)
	tree := reloadFromGen(genTree(rng, ntypes))
	reloadDecorate(rng, tree, 30)
	if rng.Chance(55) {
		tree.children = append(tree.children, reloadDeepSubtree(rng, ntypes))
	}
	tree.fixup(nil, 0)
	preempt := rng.Chance(35)
	policy := []string{"fair", "binpacking"}[rng.Intn(2)]
	w := CoreWorld{Configs: []string{reloadConfigYAML(tree, preempt, policy, "provided")}, ResDelayOn: rng.Chance(40), PredDeny: []int{0, 0, 10}[rng.Intn(3)], Seed: rng.Next()}
	leaves, dyn := map[string]bool{}, map[string]bool{}
	tree.collect("", leaves, dyn)
	pool := map[string]*reloadQ{}
	for _, q := range tree.children {
		pool[q.name] = q.clone()
	}
	cur := tree
	nconf := 2 + rng.Intn(3)
	zeroAt := map[int][2]string{} // configuration index -> (queue path, type) of a zero-only change against the previous configuration
	for i := 0; i < nconf; i++ {
		cur = reloadMutate(rng, cur, pool, ntypes)
		w.Configs = append(w.Configs, reloadConfigYAML(cur, preempt, policy, "provided"))
		cur.collect("", leaves, dyn)
		if rng.Chance(45) {
			if z, path, typ := reloadZeroOnly(rng, cur, ntypes); z != nil {
				zeroAt[len(w.Configs)] = [2]string{path, typ}
				w.Configs = append(w.Configs, reloadConfigYAML(z, preempt, policy, "provided"))
				if rng.Chance(50) {
					cur = z
				}
			}
		}
		if rng.Chance(25) {
			w.Configs = append(w.Configs, reloadInvalidConfig(rng, cur, preempt, policy))
		}
	}
	// a configuration that passes validation and the dry run but is refused by the real update (unknown placement rule)
	lateReject := -1
	if rng.Chance(50) {
		lateReject = len(w.Configs)
		w.Configs = append(w.Configs, reloadConfigYAML(cur, preempt, policy, "bogus"))
	}
	// scenario twins of the last configuration (or of the initial one)
	var scen []reloadScenario
	baseIdx, baseTree := len(w.Configs)-1, cur
	if strings.Contains(w.Configs[baseIdx], "this is not") || w.Configs[baseIdx] != reloadConfigYAML(cur, preempt, policy, "provided") {
		w.Configs = append(w.Configs, reloadConfigYAML(cur, preempt, policy, "provided"))
		baseIdx = len(w.Configs) - 1
	}
	if rng.Chance(60) {
		if tw, path, lv := reloadMaxAppsTwin(rng, baseTree); tw != nil && len(lv) > 0 {
			scen = append(scen, reloadScenario{kind: "maxapps", base: baseIdx, twin: len(w.Configs), queue: path, leaves: lv})
			w.Configs = append(w.Configs, reloadConfigYAML(tw, preempt, policy, "provided"))
		}
	}
	for _, bt := range []struct {
		idx int
		t   *reloadQ
	}{{baseIdx, baseTree}, {0, tree}} {
		if bt.t.child("org") != nil && len(bt.t.children) > 1 {
			tw := bt.t.clone()
			kept := []*reloadQ{}
			for _, q := range tw.children {
				if q.name != "org" {
					kept = append(kept, q)
				}
			}
			tw.children = kept
			scen = append(scen, reloadScenario{kind: "drop", base: bt.idx, twin: len(w.Configs), queue: "root.org",
				leaves: []string{"root.org.team.dev", "root.org.team.test"}})
			w.Configs = append(w.Configs, reloadConfigYAML(tw, preempt, policy, "provided"))
			break
		}
	}
	c := &reloadCase{CoreCase: CoreCase{World: w}}
	d, err := newCoreDriver(&c.World)
	if err != nil {
		return nil, fmt.Errorf("initial config rejected: %v\n%s", err, w.Configs[0])
	}
	c.Init = d.observe()
	c.Extras = [][]ReloadQX{reloadExtras(d)}
	g := &genState{r: rng, ntypes: ntypes, gangApps: map[string][]string{}, keys: map[string][]string{}, variant: "reload"}
	g.leaves = sortedKeys(leaves)
	g.dynPar = sortedKeys(dyn)
	var pending []CoreEvent
	emit := func(op CoreOp) *CoreStep {
		st := c.exec(d, op)
		for _, e := range st.Events {
			if e.Kind == "release" && (e.TType == 2 || e.TType == 3 || e.TType == 4) {
				pending = append(pending, e)
			}
		}
		return st
	}
	nn := 1 + rng.Intn(3)
	for i := 0; i < nn; i++ {
		emit(g.opNodeAdd())
	}
	nops := 10 + rng.Intn(maxOps)
	for i := 0; i < nops; i++ {
		x := rng.Intn(1000)
		switch {
		case x < th[0]:
			emit(CoreOp{Kind: "sched"})
		case x < th[1]:
			emit(g.opAppAdd())
		case x < th[2]:
			emit(g.opAsk())
		case x < th[3]:
			emit(g.opRelease(&pending))
		case x < th[4]:
			if len(g.nodes) > 0 {
				emit(g.opBound())
			}
		case x < th[5]:
			if len(g.nodes) > 0 {
				emit(g.opForeign())
			}
		case x < th[6]:
			emit(g.opNodeAdd())
		case x < th[7]:
			if n := g.pick(g.nodes); n != "" {
				emit(CoreOp{Kind: "node_update", Node: n, Cap: g.r.res(g.ntypes, 3, 24, false)})
			}
		case x < th[8]:
			if n := g.pick(g.nodes); n != "" {
				emit(CoreOp{Kind: []string{"node_drain", "node_undrain"}[rng.Intn(2)], Node: n})
			}
		case x < th[9]:
			if n := g.pick(g.nodes); n != "" {
				emit(CoreOp{Kind: "node_remove", Node: n})
			}
		case x < th[10]:
			if a := g.pick(g.apps); a != "" {
				emit(CoreOp{Kind: "app_remove", App: a})
			}
		case x < th[11]:
			if a := g.pick(g.apps); a != "" {
				emit(CoreOp{Kind: "fire_ph", App: a})
			}
		case x < th[12]:
			if a := g.pick(g.apps); a != "" {
				emit(CoreOp{Kind: "fire_state", App: a})
			}
		case x < th[13]:
			ci := rng.Intn(len(w.Configs))
			if lateReject >= 0 && rng.Chance(25) {
				// refused late, then sent again (and once more after something else happened)
				emit(CoreOp{Kind: "reload", Conf: lateReject})
				emit(CoreOp{Kind: "reload", Conf: lateReject})
				if rng.Chance(50) {
					emit(CoreOp{Kind: "sched"})
					emit(CoreOp{Kind: "reload", Conf: lateReject})
				}
				continue
			}
			if len(scen) > 0 && rng.Chance(30) {
				sc := scen[rng.Intn(len(scen))]
				plain := func(queue string) CoreOp {
					op := g.opAppAdd()
					op.Queue, op.PhAsk, op.Hard, op.Forced, op.MaxApps, op.TagMax = queue, nil, false, false, 0, nil
					delete(g.gangApps, op.App)
					return op
				}
				if st := emit(CoreOp{Kind: "reload", Conf: sc.base}); st.Err {
					continue
				}
				g.nextNode++
				big := fmt.Sprintf("node-%d", g.nextNode)
				g.nodes = append(g.nodes, big)
				emit(CoreOp{Kind: "node_add", Node: big, Cap: CoreRes{"memory": 60, "vcore": 60, "gpu": 60}})
				switch sc.kind {
				case "maxapps":
					// at least two applications Running below the queue, then max-applications drops to 1
					var started []string
					for k := 0; k < 3; k++ {
						op := plain(sc.leaves[rng.Intn(len(sc.leaves))])
						emit(op)
						started = append(started, op.App)
						emit(CoreOp{Kind: "alloc", App: op.App, Key: g.newKey(op.App), Res: CoreRes{"memory": 1}, AgeSec: 3600})
					}
					for k := 0; k < 6; k++ {
						emit(CoreOp{Kind: "sched"})
					}
					emit(CoreOp{Kind: "reload", Conf: sc.twin})
					emit(CoreOp{Kind: "sched"})
					// one application finishes, a fourth one arrives
					emit(CoreOp{Kind: "release", App: started[0], TType: 1})
					op := plain(sc.leaves[rng.Intn(len(sc.leaves))])
					emit(op)
					emit(CoreOp{Kind: "alloc", App: op.App, Key: g.newKey(op.App), Res: CoreRes{"memory": 1}, AgeSec: 3600})
					emit(CoreOp{Kind: "sched"})
					emit(CoreOp{Kind: "sched"})
				case "drop":
					// an application running three levels down, then the whole subtree leaves the configuration
					op := plain(sc.leaves[0])
					emit(op)
					emit(CoreOp{Kind: "alloc", App: op.App, Key: g.newKey(op.App), Res: CoreRes{"memory": 1}, AgeSec: 3600})
					emit(CoreOp{Kind: "sched"})
					emit(CoreOp{Kind: "sched"})
					emit(CoreOp{Kind: "reload", Conf: sc.twin})
					if rng.Chance(60) {
						// the application in the now draining queue asks for more: it must still be served
						emit(CoreOp{Kind: "alloc", App: op.App, Key: g.newKey(op.App), Res: CoreRes{"memory": 1}, AgeSec: 3600})
						emit(CoreOp{Kind: "sched"})
						emit(CoreOp{Kind: "sched"})
					}
					emit(plain(sc.leaves[0]))
					emit(plain(sc.leaves[1]))
					emit(CoreOp{Kind: "clean"})
					emit(CoreOp{Kind: "app_remove", App: op.App})
					emit(CoreOp{Kind: "clean"})
					emit(CoreOp{Kind: "clean"})
				}
				continue
			}
			if len(zeroAt) > 0 && rng.Chance(35) {
				// the zero-only pair: first the configuration without the zero-valued type, then the one with it
				// (or the other way round), so that the reload changes nothing but the key set of one limit
				zi := 0
				for _, k := range sortedIntKeys(zeroAt) {
					zi = k
					if rng.Chance(50) {
						break
					}
				}
				first, second := zi-1, zi
				if rng.Chance(30) {
					first, second = zi, zi-1
				}
				if st := emit(CoreOp{Kind: "reload", Conf: first}); !st.Err {
					if st2 := emit(CoreOp{Kind: "reload", Conf: second}); !st2.Err && second == zi {
						// use the queue: an application with asks of the type the new limit sets to zero
						z := zeroAt[zi]
						op := g.opAppAdd()
						op.Queue, op.PhAsk, op.Hard = z[0], nil, false
						delete(g.gangApps, op.App)
						emit(op)
						for k := 0; k < 2; k++ {
							emit(CoreOp{Kind: "alloc", App: op.App, Key: g.newKey(op.App), Res: CoreRes{z[1]: int64(1 + rng.Intn(2))}, AgeSec: 3600})
							emit(CoreOp{Kind: "sched"})
						}
					}
				}
				continue
			}
			st := emit(CoreOp{Kind: "reload", Conf: ci})
			if st.Err && rng.Chance(50) {
				// the same rejected configuration again: a rejection must not have left it behind as the active one
				emit(CoreOp{Kind: "reload", Conf: ci})
				if rng.Chance(50) {
					emit(CoreOp{Kind: "sched"})
				}
			}
			// aim an application at a queue that has just been put into draining
			if !st.Err && rng.Chance(50) {
				var dr []string
				for _, q := range st.Obs.Queues {
					if q.State == "Draining" && q.Leaf {
						dr = append(dr, q.Path)
					}
				}
				if len(dr) > 0 {
					op := g.opAppAdd()
					op.Queue = dr[rng.Intn(len(dr))]
					emit(op)
				}
			}
		case x < th[14]:
			emit(CoreOp{Kind: "clean"})
		case x < th[15]:
			if a := g.pick(g.apps); a != "" && len(g.keys[a]) > 0 {
				emit(CoreOp{Kind: "alloc", App: a, Key: g.pick(g.keys[a]), Res: g.r.res(g.ntypes, 1, 7, true), AgeSec: 3600})
			}
		default:
			emit(g.opMalformed())
		}
	}
	for i := 0; i < 2; i++ {
		emit(CoreOp{Kind: "sched"})
	}
	emit(CoreOp{Kind: "clean"})
	return c, nil
}

// ---- emission ----
func (e *coreEmitter) reloadStr(s string) string { return coqBytes(s) }

func (e *coreEmitter) reloadProps(m map[string]string) string {
	items := []string{}
	for _, k := range sortedKeys(m) {
		items = append(items, fmt.Sprintf("(%s, %s)", coqBytes(k), coqBytes(m[k])))
	}
	return "[" + strings.Join(items, "; ") + "]"
}

var reloadSortID = map[string]int{"fifo": 1, "fair": 2, "stateaware": 3, "undefined": 4}

func (e *coreEmitter) reloadExtras(xs []ReloadQX) string {
	items := make([]string, len(xs))
	for i, x := range xs {
		pf := 0
		if x.PrioFence {
			pf = 1
		}
		items[i] = fmt.Sprintf("mkQX %s %s %d %s %d %d %s", e.n(x.Path), e.reloadProps(x.Props), reloadSortID[x.Sort], coqBool(x.PrioSort), x.Preempt, pf, coqZ(int64(x.PrioOffset)))
	}
	return "[" + strings.Join(items, ";\n    ") + "]"
}

func reloadResFromConf(m map[string]string) (CoreRes, error) {
	r, err := resources.NewResourceFromConf(m)
	if err != nil {
		return nil, err
	}
	return resC(r), nil
}

func (e *coreEmitter) reloadConfTree(q *configs.QueueConfig, parentPath string) (string, error) {
	path := strings.ToLower(q.Name)
	if parentPath != "" {
		path = parentPath + "." + path
	}
	mx, err := reloadResFromConf(q.Resources.Max)
	if err != nil {
		return "", err
	}
	gu, err := reloadResFromConf(q.Resources.Guaranteed)
	if err != nil {
		return "", err
	}
	kids := make([]string, len(q.Queues))
	for i := range q.Queues {
		k, err := e.reloadConfTree(&q.Queues[i], path)
		if err != nil {
			return "", err
		}
		kids[i] = k
	}
	return fmt.Sprintf("(CT %s %s %s %s %d %s\n   [%s])", e.n(path), coqBool(q.Parent), e.res(mx), e.res(gu), q.MaxApplications, e.reloadProps(q.Properties),
		strings.Join(kids, ";\n    ")), nil
}

// reloadConf renders one configuration document: Some tree when it loads (parse + validation), None otherwise.
func (e *coreEmitter) reloadConf(doc string) string {
	conf, err := configs.LoadSchedulerConfigFromByteArray([]byte(doc))
	if err != nil || len(conf.Partitions) == 0 || len(conf.Partitions[0].Queues) == 0 {
		return "None"
	}
	t, err := e.reloadConfTree(&conf.Partitions[0].Queues[0], "")
	if err != nil {
		return "None"
	}
	return "(Some " + t + ")"
}

const reloadRequires = `From YK Require Import Base.Res Core.Obs Core.Reload Oracles.CoreC16.
From Coq Require Import List ZArith NArith. Import ListNotations. Open Scope N_scope.
`

func (c *reloadCase) nontrivial() bool {
	// an accepted reload while at least one application is live
	for i := range c.Steps {
		s := &c.Steps[i]
		if s.Op.Kind == "reload" && !s.Err && len(s.Obs.Apps) > 0 {
			return true
		}
	}
	return false
}

func reloadEngine(o *Opts) {
	rng := NewRng(o.Seed)
	st := NewStats("reload", o.Seed, "random histories of the core engine (SI requests, scheduling cycles, timers) with frequent configuration reloads over chains of mutated queue trees (queues dropped, coming back, limits/properties changed, leaf<->parent, new queues) and invalid documents, applications aimed at draining queues, queue cleaning; non-trivial = an accepted reload while an application is live; distinct by hash of world and ops")
	var cases []*reloadCase
	if o.Replay != "" {
		var all CoreCases
		readJSON(o.Replay, &all)
		for i := range all.Cases {
			c := &reloadCase{CoreCase: all.Cases[i]}
			if err := reloadRun(c); err != nil {
				panic(err)
			}
			cases = append(cases, c)
		}
	} else {
		maxOps := 40
		if o.Tier == "thorough" {
			maxOps = 100
		}
		for i := 0; i < o.N; i++ {
			c, err := reloadGenCase(rng.Fork(), maxOps)
			if err != nil {
				st.Count("config-rejected")
				continue
			}
			cases = append(cases, c)
		}
	}
	var b strings.Builder
	b.WriteString(reloadRequires)
	checker := "c16_check_all"
	if o.Checker != "" {
		parts := strings.SplitN(o.Checker, ":", 2)
		b.WriteString("From YK Require Import " + parts[0] + ".\n")
		checker = parts[1]
	}
	names := []string{}
	var all CoreCases
	for i, c := range cases {
		em := newCoreEmitter()
		name := fmt.Sprintf("h%d", i)
		b.WriteString(em.history(&c.CoreCase, name))
		xs := make([]string, len(c.Extras))
		for j := range c.Extras {
			xs[j] = em.reloadExtras(c.Extras[j])
		}
		b.WriteString(fmt.Sprintf("Definition x%d : list (list qextra) := [\n   %s].\n", i, strings.Join(xs, ";\n   ")))
		cs := make([]string, len(c.World.Configs))
		for j, doc := range c.World.Configs {
			cs[j] = em.reloadConf(doc)
		}
		b.WriteString(fmt.Sprintf("Definition c%d : list (option conf_tree) := [\n  %s].\n", i, strings.Join(cs, ";\n  ")))
		names = append(names, fmt.Sprintf("mkRCase h%d x%d c%d", i, i, i))
		for j := range c.Steps {
			s := &c.Steps[j]
			st.Count("op." + s.Op.Kind)
			if s.Op.Kind == "reload" {
				if s.Err {
					st.Count("reload.rejected")
				} else {
					st.Count("reload.accepted")
				}
			}
			if s.Panic != "" {
				st.Panics++
				st.Count("panic")
			}
			for _, q := range s.Obs.Queues {
				if q.State == "Draining" {
					st.Count("obs.draining-queue")
					break
				}
			}
		}
		canon := fmt.Sprintf("%v %v", c.World.Configs, c.Ops)
		st.Case(canon, c.nontrivial(), map[string]any{"nconfigs": len(c.World.Configs), "nsteps": len(c.Steps)})
		all.Cases = append(all.Cases, c.CoreCase)
	}
	b.WriteString("Definition cases : list rcase := [" + strings.Join(names, "; ") + "].\n")
	b.WriteString("Definition M := Eval vm_compute in " + checker + " cases.\nPrint M.\n")
	base := filepath.Join(o.OutDir, fmt.Sprintf("cases_reload_%d", o.Shard))
	writeFile(base+".v", b.String())
	writeJSON(base+".json", all)
	st.CasesFile, st.CasesJSON = base+".v", base+".json"
	st.Write(base + ".stats.json")
}

func init() { engines["reload"] = reloadEngine }

func sortedIntKeys(m map[int][2]string) []int {
	ks := make([]int, 0, len(m))
	for k := range m {
		ks = append(ks, k)
	}
	sort.Ints(ks)
	return ks
}
