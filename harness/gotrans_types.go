package main

import (
	"go/ast"
	"go/types"
	"sort"
	"strings"
)

// ---------------------------------------------------------------------------- Coq side types

type gtKind int

const (
	gkI64    gtKind = iota // int64, int (amd64: 64 bit), named integer types over them      -> Z, wrap64
	gkI32                  // int32                                                            -> Z, wrap32
	gkU64                  // uint64, uint                                                     -> N, mod 2^64
	gkBool                 //                                                                  -> bool
	gkF64                  // float64                                                          -> f64 (Base/F64.v)
	gkStr                  // string used as an opaque identifier (==, !=, map key only)       -> N
	gkTime                 // time.Time as an integer instant (Before/After/Equal only)        -> Z
	gkOpaque               // a type of a package outside the repository, used passively       -> N
	gkRec                  // struct value                                                     -> Record
	gkPtr                  // pointer to struct / opaque                                       -> option
	gkMap                  // map[string]V                                                     -> list (N * V)
	gkSlice                // []T                                                              -> list T
	gkTuple                // multiple results
	gkUnit                 // no value
	gkErr                  // error: only nil / non-nil is kept                              -> bool (true = an error)
)

type gtT struct {
	k    gtKind
	elem *gtT
	rec  *gtRec
	tup  []*gtT
	name string // opaque type name
}

type gtField struct {
	idx  int
	name string
	t    *gtT
}

type gtRec struct {
	named  *types.Named
	name   string // Go type name
	module string // Coq module that declares the record
	st     *types.Struct
	used   map[int]bool
	frozen bool
	rec    bool // refers to itself (directly through a pointer field)
}

func (r *gtRec) fieldName(i int) string { return r.name + "_" + r.st.Field(i).Name() }
func (r *gtRec) setterName(i int) string {
	return "set_" + r.name + "_" + r.st.Field(i).Name()
}
func (r *gtRec) mkName() string { return "mk_" + r.name }
func (r *gtRec) usedIdx() []int {
	var l []int
	for i := range r.used {
		l = append(l, i)
	}
	sort.Ints(l)
	return l
}

var (
	gtI64  = &gtT{k: gkI64}
	gtI32  = &gtT{k: gkI32}
	gtU64  = &gtT{k: gkU64}
	gtBool = &gtT{k: gkBool}
	gtF64  = &gtT{k: gkF64}
	gtStr  = &gtT{k: gkStr}
	gtTime = &gtT{k: gkTime}
	gtUnit = &gtT{k: gkUnit}
	gtErrT = &gtT{k: gkErr}
)

func (t *gtT) isInt() bool { return t.k == gkI64 || t.k == gkI32 || t.k == gkU64 }
func (t *gtT) isZ() bool   { return t.k == gkI64 || t.k == gkI32 || t.k == gkTime }
func (t *gtT) isN() bool   { return t.k == gkU64 || t.k == gkStr || t.k == gkOpaque }

func gtSameT(a, b *gtT) bool {
	if a.k != b.k {
		return false
	}
	switch a.k {
	case gkRec:
		return a.rec == b.rec
	case gkPtr, gkMap, gkSlice:
		return gtSameT(a.elem, b.elem)
	case gkOpaque:
		return a.name == b.name
	case gkTuple:
		if len(a.tup) != len(b.tup) {
			return false
		}
		for i := range a.tup {
			if !gtSameT(a.tup[i], b.tup[i]) {
				return false
			}
		}
	}
	return true
}

// ---------------------------------------------------------------------------- translator state

type gtPkgCtx struct {
	spec *gotransPkgSpec
	p    *gtPkg
	fns  []*gtFn
}

type gotrans struct {
	l       *gtLoader
	pkgs    []*gtPkgCtx
	recs    map[*types.Named]*gtRec
	recList []*gtRec
	byObj   map[types.Object]*gtFn // whitelisted functions by their types.Func
	final   bool
	cur     *gtPkgCtx
	globals map[string]bool // names of generated top level definitions
}

func newGotrans(l *gtLoader) *gotrans {
	return &gotrans{l: l, recs: map[*types.Named]*gtRec{}, byObj: map[types.Object]*gtFn{}, globals: map[string]bool{}}
}

// moduleOf returns the Coq module a repository package is translated into ("" if not whitelisted).
func (tr *gotrans) moduleOf(pkg *types.Package) string {
	if pkg == nil {
		return ""
	}
	for _, pc := range tr.pkgs {
		if pc.p.pkg == pkg {
			return pc.spec.Module
		}
	}
	return ""
}

func (tr *gotrans) isRepoPkg(pkg *types.Package) bool {
	return pkg != nil && strings.HasPrefix(pkg.Path(), tr.l.module+"/")
}

// typeOf maps a Go type to the Coq side; fails (gtErr) outside the subset.
func (tr *gotrans) typeOf(t types.Type) *gtT {
	if t == nil {
		gtFail("expression without a type")
	}
	switch x := t.(type) {
	case *types.Basic:
		switch x.Kind() {
		case types.Int64, types.Int, types.UntypedInt, types.UntypedRune:
			return gtI64
		case types.Int32:
			return gtI32
		case types.Uint64, types.Uint:
			return gtU64
		case types.Bool, types.UntypedBool:
			return gtBool
		case types.Float64, types.UntypedFloat:
			return gtF64
		case types.String, types.UntypedString:
			return gtStr
		case types.Invalid:
			gtFail("expression of unknown type (depends on a package outside the repository)")
		}
		gtFail("basic type %s is outside the subset", x.String())
	case *types.Named:
		obj := x.Obj()
		if obj.Pkg() == nil && obj.Name() == "error" {
			return gtErrT
		}
		if obj.Pkg() != nil && obj.Pkg().Path() == "time" {
			switch obj.Name() {
			case "Time":
				return gtTime
			case "Duration":
				return gtI64
			}
		}
		if obj.Pkg() != nil && !tr.isRepoPkg(obj.Pkg()) {
			return &gtT{k: gkOpaque, name: obj.Pkg().Name() + "_" + obj.Name()}
		}
		switch u := x.Underlying().(type) {
		case *types.Basic:
			return tr.typeOf(u)
		case *types.Struct:
			return &gtT{k: gkRec, rec: tr.recOf(x, u)}
		case *types.Map, *types.Slice:
			return tr.typeOf(u)
		}
		gtFail("named type %s is outside the subset", obj.Name())
	case *types.Alias:
		return tr.typeOf(types.Unalias(x))
	case *types.Pointer:
		et := tr.typeOf(x.Elem())
		if et.k != gkRec && et.k != gkOpaque {
			gtFail("pointer to %s is outside the subset", x.Elem().String())
		}
		return &gtT{k: gkPtr, elem: et}
	case *types.Map:
		kt := tr.typeOf(x.Key())
		if kt.k != gkStr {
			gtFail("map with key type %s is outside the subset (only string keys)", x.Key().String())
		}
		return &gtT{k: gkMap, elem: tr.typeOf(x.Elem())}
	case *types.Slice:
		return &gtT{k: gkSlice, elem: tr.typeOf(x.Elem())}
	case *types.Tuple:
		if x.Len() == 0 {
			return gtUnit
		}
		if x.Len() == 1 {
			return tr.typeOf(x.At(0).Type())
		}
		tt := &gtT{k: gkTuple}
		for i := 0; i < x.Len(); i++ {
			tt.tup = append(tt.tup, tr.typeOf(x.At(i).Type()))
		}
		return tt
	}
	gtFail("type %s is outside the subset", t.String())
	return nil
}

func (tr *gotrans) recOf(n *types.Named, st *types.Struct) *gtRec {
	n = n.Origin()
	if r, ok := tr.recs[n]; ok {
		return r
	}
	mod := tr.moduleOf(n.Obj().Pkg())
	if mod == "" {
		gtFail("struct %s.%s belongs to a package that is not translated", n.Obj().Pkg().Name(), n.Obj().Name())
	}
	r := &gtRec{named: n, name: n.Obj().Name(), module: mod, st: st, used: map[int]bool{}}
	tr.globals[r.name] = true
	tr.recs[n] = r
	tr.recList = append(tr.recList, r)
	return r
}

// useField marks a field as used (pass 1) and returns its index and type.
func (tr *gotrans) useField(r *gtRec, v *types.Var) (int, *gtT) {
	for i := 0; i < r.st.NumFields(); i++ {
		if r.st.Field(i) == v {
			ft := tr.fieldType(r, v)
			if !r.used[i] {
				if r.frozen {
					gtFail("internal: field %s.%s first used in pass 2", r.name, v.Name())
				}
				r.used[i] = true
			}
			return i, ft
		}
	}
	gtFail("field %s is not a direct field of struct %s (embedded/promoted fields are outside the subset)", v.Name(), r.name)
	return 0, nil
}

// fieldType: the type of a struct field. A pointer to the struct itself (Queue.parent) is an opaque
// pointer: it can be compared with nil and passed on, but not dereferenced (no recursive records).
func (tr *gotrans) fieldType(r *gtRec, v *types.Var) *gtT {
	if pt, ok := v.Type().(*types.Pointer); ok {
		if n, ok := pt.Elem().(*types.Named); ok && n.Origin() == r.named {
			return &gtT{k: gkPtr, elem: &gtT{k: gkOpaque, name: "self_" + r.name}}
		}
	}
	return tr.typeOf(v.Type())
}

// qual prefixes a name of module mod when used from another module.
func (tr *gotrans) qual(mod, name string) string {
	if tr.cur != nil && tr.cur.spec.Module == mod {
		return name
	}
	return mod + "." + name
}

func (tr *gotrans) coqType(t *gtT) string {
	switch t.k {
	case gkI64, gkI32, gkTime:
		return "Z"
	case gkU64, gkStr, gkOpaque:
		return "N"
	case gkBool, gkErr:
		return "bool"
	case gkF64:
		return "f64"
	case gkRec:
		return tr.qual(t.rec.module, t.rec.name)
	case gkPtr:
		return "option " + gtPar(tr.coqType(t.elem))
	case gkMap:
		return "list (N * " + gtPar(tr.coqType(t.elem)) + ")"
	case gkSlice:
		return "list " + gtPar(tr.coqType(t.elem))
	case gkTuple:
		parts := make([]string, len(t.tup))
		for i, e := range t.tup {
			parts[i] = gtPar(tr.coqType(e))
		}
		return strings.Join(parts, " * ")
	case gkUnit:
		return "unit"
	}
	return "?"
}

// zero value of a type as a Coq term
func (tr *gotrans) zero(t *gtT) string {
	switch t.k {
	case gkI64, gkI32:
		return "0"
	case gkU64:
		return "0%N"
	case gkBool, gkErr:
		return "false"
	case gkF64:
		return "f_zero"
	case gkPtr:
		return "(None : " + tr.coqType(t) + ")"
	case gkMap, gkSlice:
		return "([] : " + tr.coqType(t) + ")"
	}
	gtFail("zero value of this type is outside the subset")
	return ""
}

// gtPar parenthesises a term unless it is atomic or already enclosed.
func gtPar(s string) string {
	if gtAtomic(s) {
		return s
	}
	return "(" + s + ")"
}

func gtAtomic(s string) bool {
	if s == "" {
		return true
	}
	if !strings.ContainsAny(s, " \n") && !strings.HasPrefix(s, "-") {
		return true
	}
	if s[0] == '(' || s[0] == '[' {
		// enclosed by one matching pair?
		depth := 0
		for i := 0; i < len(s); i++ {
			switch s[i] {
			case '(', '[':
				depth++
			case ')', ']':
				depth--
				if depth == 0 && i != len(s)-1 {
					// allow a trailing scope annotation like (..)%N
					rest := s[i+1:]
					if strings.HasPrefix(rest, "%") && !strings.ContainsAny(rest, " \n()") {
						return true
					}
					return false
				}
			}
		}
		return depth == 0
	}
	return false
}

// ---------------------------------------------------------------------------- names

// identifiers the generated code itself uses (Coq keywords, prelude, library names): a Go
// identifier with one of these names gets a trailing underscore.
var gtReserved = map[string]bool{}

func init() {
	for _, w := range strings.Fields(`as at cofix else end exists exists2 fix for forall fun if IF in let match mod
		Prop return Set then Type using where with by Definition Fixpoint Lemma Theorem Record Inductive
		true false negb andb orb xorb eqb fst snd pair cons nil app length map fold_left fold_right filter rev
		Some None option list unit tt bool nat Z N f64 O S id
		wrap64 wrap32 MIN MAX W64 u64_add u64_sub u64_mul u64_quot u64_rem i64_quot i64_rem i32_quot i32_rem
		i64_to_u64 u64_to_i64 gres GOk GPanic gbind deref is_nil mget mget0 mhas mset mdel
		loopr LNext LBreak LReturn go_range go_range_m slice_get slice_set slice_from slice_to slice_sub make_slice_u64
		make_slice copy_into firstn skipn repeat nth_error
		f_of_Z f_zero f_one f_mul f_div f_add f_sub f_ltb f_leb f_eqb f_gtb f_geb f_is_nan f_is_zero f_make f_to_int64
		tmp`) {
		gtReserved[w] = true
	}
}

func gtSanitize(name string) string {
	if name == "_" {
		return "_"
	}
	if gtReserved[name] {
		return name + "_"
	}
	return name
}

// free variables of a function literal: variables used inside that are declared outside it and
// are not package level, in order of first use.
func gtCaptured(info *types.Info, lit *ast.FuncLit) []*types.Var {
	var out []*types.Var
	seen := map[*types.Var]bool{}
	ast.Inspect(lit.Body, func(n ast.Node) bool {
		id, ok := n.(*ast.Ident)
		if !ok {
			return true
		}
		v, ok := info.Uses[id].(*types.Var)
		if !ok || v.IsField() || seen[v] {
			return true
		}
		if v.Pkg() != nil && v.Parent() == v.Pkg().Scope() {
			return true
		}
		if v.Pos() >= lit.Pos() && v.Pos() < lit.End() {
			return true
		}
		seen[v] = true
		out = append(out, v)
		return true
	})
	return out
}
