package main

import (
	"fmt"
	"path/filepath"
	"sort"
	"strings"
)

// ---- emission of core histories as Gallina terms (format: coq/Core/Obs.v) ----

var coreStateID = map[string]uint64{"New": 1, "Accepted": 2, "Running": 3, "Rejected": 4, "Completing": 5, "Completed": 6,
	"Failing": 7, "Failed": 8, "Expired": 9, "Resuming": 10}
var coreQStateID = map[string]uint64{"Active": 1, "Draining": 2, "Stopped": 3}

type coreEmitter struct {
	in    *Interner // nodes, apps, keys, queues, users, task groups share one table
	types *Interner
}

func newCoreEmitter() *coreEmitter {
	e := &coreEmitter{in: NewInterner(), types: NewInterner()}
	for _, t := range coreTypes {
		e.types.ID(t)
	}
	return e
}

func (e *coreEmitter) n(s string) string { return fmt.Sprintf("%d", e.in.ID(s)) }
func (e *coreEmitter) res(r CoreRes) string {
	items := []string{}
	for _, k := range sortedKeys(r) {
		items = append(items, fmt.Sprintf("(%d, %s)", e.types.ID(k), coqZ(r[k])))
	}
	return "[" + strings.Join(items, "; ") + "]"
}
func (e *coreEmitter) ores(r CoreRes, isNil bool) string {
	if isNil || r == nil {
		return "None"
	}
	return "(Some " + e.res(r) + ")"
}
func (e *coreEmitter) nlist(l []string) string {
	items := make([]string, len(l))
	for i, s := range l {
		items[i] = e.n(s)
	}
	return "[" + strings.Join(items, "; ") + "]"
}
func (e *coreEmitter) pairs(l [][2]string) string {
	items := make([]string, len(l))
	for i, p := range l {
		items[i] = fmt.Sprintf("(%s, %s)", e.n(p[0]), e.n(p[1]))
	}
	return "[" + strings.Join(items, "; ") + "]"
}
func (e *coreEmitter) alloc(a *ObsAlloc) string {
	return fmt.Sprintf("(mkOA %s %s %s %s %s %s %s %s %s %s %s %s %s %s %s %s)", e.n(a.Key), e.n(a.App), e.n(a.Node), e.res(a.Res), coqBool(a.Ph),
		e.n(a.TaskGroup), coqBool(a.Allocated), coqBool(a.Released), coqBool(a.Preempted), e.n(a.Release), e.n(a.ReqNode), coqZ(int64(a.Prio)),
		coqBool(a.Foreign), coqBool(a.Originator), coqBool(a.PreemptSelf), coqBool(a.PreemptOther))
}
func (e *coreEmitter) allocs(l []ObsAlloc) string {
	items := make([]string, len(l))
	for i := range l {
		items[i] = e.alloc(&l[i])
	}
	return "[" + strings.Join(items, ";\n      ") + "]"
}
func (e *coreEmitter) app(a *ObsApp) string {
	ph := make([]string, len(a.PhData))
	for i, p := range a.PhData {
		ph[i] = fmt.Sprintf("(%s, (%s, (%s, %s)))", e.n(p.TaskGroup), coqZ(p.Count), coqZ(p.Replaced), coqZ(p.TimedOut))
	}
	sl := make([]string, len(a.StateLog))
	for i, s := range a.StateLog {
		sl[i] = fmt.Sprintf("%d", coreStateID[s])
	}
	return fmt.Sprintf("(mkOApp %s %s %d %s %s %s %s %s\n     %s\n     %s\n     %s [%s] [%s] %s %s %s %s)", e.n(a.ID), e.n(a.Queue), coreStateID[a.State], e.n(a.User),
		e.res(a.Pending), e.res(a.Allocated), e.res(a.PhAlloc), e.res(a.PhAsk), e.allocs(a.Requests), e.allocs(a.Allocs), e.pairs(a.Reservations),
		strings.Join(ph, "; "), strings.Join(sl, "; "), coqBool(a.PhTimer), coqBool(a.StateTimer), coqBool(a.Forced), coqBool(a.HasPh))
}
func (e *coreEmitter) obs(o *CoreObs) string {
	var b strings.Builder
	b.WriteString("(mkOS\n   [")
	for i := range o.Nodes {
		n := &o.Nodes[i]
		if i > 0 {
			b.WriteString(";\n    ")
		}
		b.WriteString(fmt.Sprintf("mkON %s %s %s %s %s %s %s %s %s", e.n(n.ID), e.res(n.Total), e.res(n.Occupied), e.res(n.Allocated), e.res(n.Available),
			coqBool(n.Sched), e.allocs(n.Allocs), e.allocs(n.Foreign), e.pairs(n.Reservations)))
	}
	b.WriteString("]\n   [")
	for i := range o.Apps {
		if i > 0 {
			b.WriteString(";\n    ")
		}
		b.WriteString(e.app(&o.Apps[i]))
	}
	b.WriteString("]\n   [")
	for i := range o.Queues {
		q := &o.Queues[i]
		if i > 0 {
			b.WriteString(";\n    ")
		}
		rs := []string{}
		keys := make([]string, 0, len(q.Reserved))
		for k := range q.Reserved {
			keys = append(keys, k)
		}
		sort.Strings(keys)
		for _, k := range keys {
			rs = append(rs, fmt.Sprintf("(%s, %d)", e.n(k), q.Reserved[k]))
		}
		b.WriteString(fmt.Sprintf("mkOQ %s %s %s %s %d %s %s %s %s %s %d %d %s [%s] %s", e.n(q.Path), e.n(q.Parent), coqBool(q.Leaf), coqBool(q.Managed),
			coreQStateID[q.State], e.ores(q.Max, q.MaxNil), e.ores(q.Guaranteed, q.GuarNil), e.res(q.Alloc), e.res(q.Pending), e.res(q.Preempting),
			q.Running, q.MaxRunning, e.nlist(q.Allocating), strings.Join(rs, "; "), e.nlist(q.Apps)))
	}
	b.WriteString(fmt.Sprintf("]\n   %s %s %s %s\n   %s\n   [", e.ores(o.Total, o.TotalNil), coqZ(int64(o.NAllocs)), coqZ(int64(o.NPh)), coqZ(int64(o.NReservations)), e.allocs(o.Foreign)))
	for i := range o.Completed {
		if i > 0 {
			b.WriteString(";\n    ")
		}
		b.WriteString(e.app(&o.Completed[i]))
	}
	b.WriteString("]\n   " + e.nlist(o.Rejected) + "\n   [")
	for i := range o.Ugm {
		u := &o.Ugm[i]
		if i > 0 {
			b.WriteString(";\n    ")
		}
		b.WriteString(fmt.Sprintf("mkOU %s %s %s %s %s %d %s", e.n(u.Who), coqBool(u.IsGroup), e.n(u.Path), e.res(u.Usage), e.ores(u.Max, u.MaxNil), u.MaxApps, e.nlist(u.Running)))
	}
	b.WriteString("])")
	return b.String()
}

func (e *coreEmitter) op(op *CoreOp) string {
	switch op.Kind {
	case "node_add":
		return fmt.Sprintf("(OpNodeAdd %s %s %s)", e.n(op.Node), e.res(op.Cap), coqBool(op.Drain))
	case "node_update":
		return fmt.Sprintf("(OpNodeUpdate %s %s)", e.n(op.Node), e.ores(op.Cap, op.NilRes))
	case "node_drain":
		return fmt.Sprintf("(OpNodeDrain %s)", e.n(op.Node))
	case "node_undrain":
		return fmt.Sprintf("(OpNodeUndrain %s)", e.n(op.Node))
	case "node_remove":
		return fmt.Sprintf("(OpNodeRemove %s)", e.n(op.Node))
	case "app_add":
		return fmt.Sprintf("(OpAppAdd %s %s %s %s %s %s %s %d %s)", e.n(op.App), e.n(op.Queue), e.n(op.User), coqBool(op.Forced), coqBool(op.NoUgi),
			e.ores(op.PhAsk, false), coqBool(op.Hard), op.MaxApps, e.ores(op.TagMax, false))
	case "app_remove":
		return fmt.Sprintf("(OpAppRemove %s)", e.n(op.App))
	case "alloc":
		return fmt.Sprintf("(OpAlloc (mkReq %s %s %s %s %s %s %s %s %s %s %s %s %s))", e.n(op.Key), e.n(op.App), e.n(op.Node), e.ores(op.Res, op.NilRes), coqZ(int64(op.Prio)),
			coqBool(op.Ph), e.n(op.TaskGroup), e.n(op.ReqNode), coqBool(op.Foreign), coqBool(!op.NoPreempt), coqBool(op.PreemptOther), coqBool(op.Originator), coqBool(op.Partition == ""))
	case "release":
		return fmt.Sprintf("(OpRelease %s %s %d)", e.n(op.App), e.n(op.Key), op.TType)
	case "sched":
		return "OpSched"
	case "fire_ph":
		return fmt.Sprintf("(OpFirePh %s)", e.n(op.App))
	case "fire_state":
		return fmt.Sprintf("(OpFireState %s)", e.n(op.App))
	case "reload":
		return fmt.Sprintf("(OpReload %d)", op.Conf)
	case "clean":
		return "OpClean"
	}
	return "OpClean"
}

func (e *coreEmitter) event(ev *CoreEvent) string {
	switch ev.Kind {
	case "newalloc":
		return fmt.Sprintf("ENewAlloc %s %s %s %s %s", e.n(ev.Key), e.n(ev.App), e.n(ev.Node), e.res(ev.Res), coqBool(ev.Ph))
	case "release":
		return fmt.Sprintf("ERelease %s %s %d", e.n(ev.Key), e.n(ev.App), ev.TType)
	case "appaccepted":
		return "EAppAccepted " + e.n(ev.App)
	case "apprejected":
		return "EAppRejected " + e.n(ev.App)
	case "appupdated":
		return fmt.Sprintf("EAppUpdated %s %d", e.n(ev.App), coreStateID[ev.State])
	case "nodeaccepted":
		return "ENodeAccepted " + e.n(ev.Node)
	case "noderejected":
		return "ENodeRejected " + e.n(ev.Node)
	default:
		return fmt.Sprintf("EAllocRejected %s %s", e.n(ev.Key), e.n(ev.App))
	}
}

func (e *coreEmitter) history(c *CoreCase, name string) string {
	var b strings.Builder
	steps := make([]string, len(c.Steps))
	for i := range c.Steps {
		st := &c.Steps[i]
		evs := make([]string, len(st.Events))
		for j := range st.Events {
			evs[j] = e.event(&st.Events[j])
		}
		prs := make([]string, len(st.Preds))
		for j, p := range st.Preds {
			prs[j] = fmt.Sprintf("(%s, %s, %s, %s)", e.n(p.Key), e.n(p.Node), coqBool(p.Allocate), coqBool(p.OK))
		}
		steps[i] = fmt.Sprintf("(* step %d *) mkStep %s %s [%s] [%s] %s %s\n  %s", i, e.op(&st.Op), coqBool(st.Op.Malformed), strings.Join(evs, "; "), strings.Join(prs, "; "),
			coqBool(st.Panic != ""), coqBool(st.Err), e.obs(st.Obs))
	}
	// predicate table restricted to the names of this history
	deny := []string{}
	for _, p := range c.World.DenyPairs {
		deny = append(deny, fmt.Sprintf("(%d, %d)", e.in.ID(p[0]), e.in.ID(p[1])))
	}
	if c.World.PredDeny > 0 {
		for k, kid := range e.in.ids {
			if !strings.HasPrefix(k, "alloc-") {
				continue
			}
			for n, nid := range e.in.ids {
				if strings.HasPrefix(n, "node-") && !corePredOK(c.World.Seed, c.World.PredDeny, k, n) {
					deny = append(deny, fmt.Sprintf("(%d, %d)", kid, nid))
				}
			}
		}
	}
	sort.Strings(deny)
	init := e.obs(c.Init)
	b.WriteString(fmt.Sprintf("Definition %s : ohistory := mkHist %s [%s]\n  %s\n [\n ", name, coqBool(c.World.ResDelayOn), strings.Join(deny, "; "), init))
	b.WriteString(strings.Join(steps, ";\n "))
	b.WriteString("\n ] " + coqBool(c.World.ResWaitOn) + ".\n")
	return b.String()
}

const coreRequires = `From YK Require Import Base.Res Core.Obs.
From Coq Require Import List ZArith NArith. Import ListNotations. Open Scope N_scope.
`

type CoreCases struct {
	Cases []CoreCase `json:"cases"`
}

func (c *CoreCase) nontrivial() bool {
	na := 0
	for i := range c.Steps {
		for _, e := range c.Steps[i].Events {
			if e.Kind == "newalloc" {
				na++
			}
		}
	}
	return na >= 2
}

func coreEngine(o *Opts) {
	rng := NewRng(o.Seed)
	st := NewStats("core", o.Seed, "random histories of SI requests (nodes, applications incl. gang and forced, asks, recovered and foreign allocations, releases and shim confirmations delivered late/twice/never, malformed requests) interleaved with scheduling cycles, timer firings, reloads and queue cleaning over generated queue trees; non-trivial = the scheduler announced at least two allocations; distinct by hash of ops and observations")
	var all CoreCases
	if o.Replay != "" {
		readJSON(o.Replay, &all)
		for i := range all.Cases {
			if err := runCoreCase(&all.Cases[i]); err != nil {
				panic(err)
			}
		}
	} else {
		maxOps := 45
		if o.Tier == "thorough" {
			maxOps = 110
		}
		for i := 0; i < o.N; i++ {
			c, err := genCoreCase(rng.Fork(), maxOps, o.Variant)
			if err != nil {
				st.Count("config-rejected")
				continue
			}
			all.Cases = append(all.Cases, *c)
		}
	}
	var b strings.Builder
	b.WriteString(coreRequires)
	checker := "(fun _ : list ohistory => @nil (N * N))"
	if o.Checker != "" {
		parts := strings.SplitN(o.Checker, ":", 2)
		b.WriteString("From YK Require Import " + parts[0] + ".\n")
		checker = parts[1]
	}
	names := []string{}
	for i := range all.Cases {
		c := &all.Cases[i]
		em := newCoreEmitter()
		name := fmt.Sprintf("h%d", i)
		b.WriteString(em.history(c, name))
		names = append(names, name)
		for j := range c.Steps {
			s := &c.Steps[j]
			st.Count("op." + s.Op.Kind)
			if s.Op.Malformed {
				st.Count("malformed")
			}
			if s.Panic != "" {
				st.Panics++
				st.Count("panic")
			}
			for _, e := range s.Events {
				st.Count("ev." + e.Kind)
			}
		}
		canon := fmt.Sprintf("%v", c.Ops)
		st.Case(canon, c.nontrivial(), map[string]any{"ops": c.Ops, "nsteps": len(c.Steps)})
	}
	b.WriteString("Definition cases : list ohistory := [" + strings.Join(names, "; ") + "].\n")
	b.WriteString("Definition M := Eval vm_compute in " + checker + " cases.\nPrint M.\n")
	base := filepath.Join(o.OutDir, fmt.Sprintf("cases_core_%d", o.Shard))
	writeFile(base+".v", b.String())
	writeJSON(base+".json", all)
	st.CasesFile, st.CasesJSON = base+".v", base+".json"
	st.Write(base + ".stats.json")
}

func init() { engines["core"] = coreEngine }

func init() {
	engines["core-panics"] = func(o *Opts) {
		rng := NewRng(o.Seed)
		for i := 0; i < o.N; i++ {
			c, err := genCoreCase(rng.Fork(), 45, o.Variant)
			if err != nil {
				continue
			}
			for j := range c.Steps {
				if c.Steps[j].Panic != "" {
					fmt.Printf("case %d step %d op %+v\n  panic: %s\n", i, j, c.Steps[j].Op, c.Steps[j].Panic)
				}
			}
		}
	}
}

func init() {
	engines["core-panic-trace"] = func(o *Opts) {
		coreTracePanics = true
		rng := NewRng(o.Seed)
		for i := 0; i < o.N; i++ {
			c, err := genCoreCase(rng.Fork(), 45, o.Variant)
			if err != nil {
				continue
			}
			_ = c
		}
	}
}

// core-dump: replay the cases of a JSON file and print, for case -shard and step -n, the op and the
// observation before and after (debugging aid)
func init() {
	engines["core-dump"] = func(o *Opts) {
		var all CoreCases
		var c *CoreCase
		if o.Replay != "" {
			readJSON(o.Replay, &all)
			c = &all.Cases[o.Shard]
			if err := runCoreCase(c); err != nil {
				panic(err)
			}
		} else {
			// regenerate exactly as the engine does (-tier selects the length), pick accepted case number -shard
			rng := NewRng(o.Seed)
			maxOps := 45
			if o.Tier == "thorough" {
				maxOps = 110
			}
			for i := 0; i < 100000; i++ {
				cc, err := genCoreCase(rng.Fork(), maxOps, o.Variant)
				if err != nil {
					continue
				}
				all.Cases = append(all.Cases, *cc)
				if len(all.Cases) > o.Shard {
					break
				}
			}
			c = &all.Cases[o.Shard]
		}
		for i := range c.Steps {
			if i > o.N {
				break
			}
			s := &c.Steps[i]
			fmt.Printf("step %d: %s app=%s key=%s node=%s res=%v ph=%v tg=%s tt=%d q=%s events=%+v panic=%q\n", i, s.Op.Kind, s.Op.App, s.Op.Key, s.Op.Node, s.Op.Res, s.Op.Ph, s.Op.TaskGroup, s.Op.TType, s.Op.Queue, s.Events, s.Panic)
		}
		if o.N < len(c.Steps) {
			if o.N > 0 {
				writeJSON(o.OutDir+"/pre.json", c.Steps[o.N-1].Obs)
			}
			writeJSON(o.OutDir+"/post.json", c.Steps[o.N].Obs)
		}
	}
}
