package main

import (
	"fmt"
	"path/filepath"
	"strings"
)

// ---- engine "sort": entry point, emission of cases_sort_<shard>.{v,json,stats.json} ----

const sortRequires = `From YK Require Import Base.Res Sort.Sort Sort.Cmp Sort.Nodes Sort.Score Oracles.SortCheck.
From Coq Require Import List ZArith NArith Bool. Import ListNotations. Open Scope Z_scope.`

func sortEngine(o *Opts) {
	rng := NewRng(o.Seed)
	st := NewStats("sort", o.Seed, "candidate sets of 2-12 queues/applications with colliding and extreme keys, every permutation for n<=4 (n=5 for a quarter of the sets, always in the thorough tier) and random permutations up to n=12, each permutation sorted by the real sorter; queue families / application maps sorted through Queue.sortQueues / sortApplications (runtime map order, 6 calls each); insert/remove histories on sortedRequests; node collection histories (add/remove/allocate/release/foreign/capacity/occupied/reserve/policy switch) observing both iterators, the tree, cached and recomputed scores after every step; non-trivial = at least two candidates the policy distinguishes (sorters), a slow-path insert (asks), at least one score change or reservation (nodes); distinct by hash of the case with observations")
	thorough := o.Tier == "thorough"
	var all SortCases
	if o.Replay != "" {
		readJSON(o.Replay, &all)
	} else {
		n := o.N
		for i := 0; i < n; i++ {
			all.QSort = append(all.QSort, genSortQCase(rng.Fork(), thorough, false))
		}
		for i := 0; i < n/8+1; i++ { // negative quantities: correspondence only for the share based orders
			all.QSort = append(all.QSort, genSortQCase(rng.Fork(), thorough, true))
		}
		for i := 0; i < n; i++ {
			all.ASort = append(all.ASort, genSortACase(rng.Fork(), thorough, false))
		}
		for i := 0; i < n/8+1; i++ {
			all.ASort = append(all.ASort, genSortACase(rng.Fork(), thorough, true))
		}
		for i := 0; i < n/2+1; i++ {
			all.Fam = append(all.Fam, genSortFamCase(rng.Fork()))
		}
		for i := 0; i < n; i++ {
			all.Req = append(all.Req, genSortReqCase(rng.Fork(), sortPickInt(thorough, 60, 25)))
		}
		for i := 0; i < n/2+1; i++ {
			all.Node = append(all.Node, genSortNodeCase(rng.Fork(), sortPickInt(thorough, 80, 30)))
		}
	}
	var q, a, f, r, nd []string
	for i := range all.QSort {
		c := &all.QSort[i]
		runSortQCase(c)
		t := c.coq()
		q = append(q, t)
		st.Count(fmt.Sprintf("qsort.type%d.prio%v", c.SortType, c.Prio))
		st.Count(fmt.Sprintf("qsort.n%02d", len(c.Queues)))
		st.Distribution["qsort.permutations"] += len(c.Perms)
		st.Case(t, sortDistinguishes(c.Perms), c)
	}
	for i := range all.ASort {
		c := &all.ASort[i]
		runSortACase(c)
		t := c.coq()
		a = append(a, t)
		st.Count(fmt.Sprintf("asort.which%d", c.Which))
		st.Count(fmt.Sprintf("asort.n%02d", len(c.Apps)))
		st.Distribution["asort.permutations"] += len(c.Perms)
		st.Case(t, sortDistinguishes(c.Perms), c)
	}
	for i := range all.Fam {
		c := &all.Fam[i]
		runSortFamCase(c)
		t := c.coq()
		f = append(f, t)
		st.Count("fam." + c.Kind)
		st.Case(t, len(c.Outs) > 0 && len(c.Outs[0]) > 1, c)
	}
	for i := range all.Req {
		c := &all.Req[i]
		runSortReqCase(c)
		t := c.coq()
		r = append(r, t)
		slow := false
		for j, op := range c.Ops {
			st.Count("req." + op.K)
			if op.K == "ins" && len(op.Keys) > 1 && op.Keys[len(op.Keys)-1] != op.ID {
				slow = true
				st.Count("req.ins.slowpath")
			}
			_ = j
		}
		st.Case(t, slow, c)
	}
	for i := range all.Node {
		c := &all.Node[i]
		runSortNodeCase(c)
		if c.hasNaN() {
			st.Count("node.case.nan-score(skipped)")
			c.Ops = nil
		}
		t := c.coq()
		nd = append(nd, t)
		nontriv := false
		for _, op := range c.Ops {
			if op.Kind != "" {
				st.Count("node." + op.Kind)
			} else {
				st.Count("node." + op.Op)
			}
			if op.Kind == "KAlloc" || op.Kind == "KReserve" || op.Kind == "KForeignAdd" {
				nontriv = true
			}
		}
		st.Case(t, nontriv, c)
	}
	base := filepath.Join(o.OutDir, fmt.Sprintf("cases_sort_%d", o.Shard))
	var b strings.Builder
	b.WriteString(sortRequires + "\n")
	b.WriteString("Definition qsort_cases : list qsort_case := [\n " + strings.Join(q, ";\n ") + "\n].\n")
	b.WriteString("Definition asort_cases : list asort_case := [\n " + strings.Join(a, ";\n ") + "\n].\n")
	b.WriteString("Definition fam_cases : list fam_case := [\n " + strings.Join(f, ";\n ") + "\n].\n")
	b.WriteString("Definition req_cases : list req_case := [\n " + strings.Join(r, ";\n ") + "\n].\n")
	b.WriteString("Definition node_pols : list policy := " + sortCoqPolicies() + ".\n")
	b.WriteString("Definition node_cases : list node_case := [\n " + strings.Join(nd, ";\n ") + "\n].\n")
	b.WriteString("Definition M := Eval vm_compute in (qsort_check qsort_cases ++ asort_check asort_cases ++ fam_check fam_cases ++ req_check req_cases ++ node_check node_pols node_cases).\nOpen Scope N_scope.\nPrint M.\n")
	writeFile(base+".v", b.String())
	writeJSON(base+".json", all)
	st.CasesFile, st.CasesJSON = base+".v", base+".json"
	st.Write(base + ".stats.json")
}

// some permutation was actually reordered by the sorter
func sortDistinguishes(ps []SortPerm) bool {
	for _, p := range ps {
		for i := range p.In {
			if i < len(p.Out) && p.In[i] != p.Out[i] {
				return true
			}
		}
	}
	return false
}

func init() { engines["sort"] = sortEngine }
