package main

import (
	"fmt"
	"math"
	"sort"
	"strings"

	"github.com/apache/yunikorn-core/pkg/common/resources"
	"github.com/apache/yunikorn-core/pkg/scheduler/objects"
	"github.com/apache/yunikorn-core/pkg/scheduler/policies"
)

// ---- engine "sort" (C19): queue / application sorters, sorted ask list, node collection ----
// This file: data types, generators and drivers for the sorters and the ask list.

// a resource as plain data: nil map = nil *Resource, empty map = empty resource
type sortRes = map[string]int64

var sortResNames = []string{"vcore", "memory", "gpu", "pods"}

func sortTid(name string) int {
	for i, n := range sortResNames {
		if n == name {
			return i
		}
	}
	panic("unknown resource name " + name)
}

func sortToRes(r sortRes) *resources.Resource {
	if r == nil {
		return nil
	}
	m := make(map[string]resources.Quantity, len(r))
	for k, v := range r {
		m[k] = resources.Quantity(v)
	}
	return resources.NewResourceFromMap(m)
}

func sortFromRes(r *resources.Resource) sortRes {
	if r == nil {
		return nil
	}
	m := sortRes{}
	for k, v := range r.Resources {
		m[k] = int64(v)
	}
	return m
}

func sortCoqRes(r sortRes) string {
	if r == nil {
		return "None"
	}
	type kv struct {
		k int
		v int64
	}
	var l []kv
	for k, v := range r {
		l = append(l, kv{sortTid(k), v})
	}
	sort.Slice(l, func(i, j int) bool { return l[i].k < l[j].k })
	items := make([]string, len(l))
	for i, e := range l {
		items[i] = fmt.Sprintf("(%d%%N, %s)", e.k, coqZ(e.v))
	}
	return "(Some [" + strings.Join(items, "; ") + "])"
}

func sortCoqIDs(ids []int) string {
	items := make([]string, len(ids))
	for i, v := range ids {
		items[i] = fmt.Sprintf("%d", v)
	}
	return "[" + strings.Join(items, ";") + "]%N"
}

type SortQueue struct {
	ID      int     `json:"id"`
	Fence   bool    `json:"fence,omitempty"`
	Off     int32   `json:"off,omitempty"`
	Cur     int32   `json:"cur"`
	Alloc   sortRes `json:"alloc"`
	Guar    sortRes `json:"guar"`
	Pend    sortRes `json:"pend"`
	FMax    sortRes `json:"fmax"` // slice level: the fair max handed to sortQueue; family level: observed GetFairMaxResource
	Max     sortRes `json:"max,omitempty"`
	Stopped bool    `json:"stopped,omitempty"`
}
type SortPerm struct {
	In  []int `json:"in"`
	Out []int `json:"out"`
}
type SortQCase struct {
	SortType int         `json:"sortType"`
	Prio     bool        `json:"prio"`
	Queues   []SortQueue `json:"queues"`
	Perms    []SortPerm  `json:"perms"`
}
type SortApp struct {
	ID    int     `json:"id"`
	Alloc sortRes `json:"alloc"`
	Pend  sortRes `json:"pend"`
	Prio  int32   `json:"prio"`
	Sub   int64   `json:"sub"`
}
type SortACase struct {
	Which  int        `json:"which"`
	Global sortRes    `json:"global"`
	Apps   []SortApp  `json:"apps"`
	Perms  []SortPerm `json:"perms"`
}
type SortFamCase struct {
	Kind      string      `json:"kind"` // queues | appsmap | appsleaf
	SortType  int         `json:"sortType"`
	Prio      bool        `json:"prio"`
	RootMax   sortRes     `json:"rootMax"`
	ParentMax sortRes     `json:"parentMax"`
	Queues    []SortQueue `json:"queues,omitempty"`
	Global    sortRes     `json:"global"`
	Apps      []SortApp   `json:"apps,omitempty"`
	Outs      [][]int     `json:"outs"`
}
type SortReqOp struct {
	K    string `json:"k"` // ins | rem
	ID   int    `json:"id"`
	Prio int32  `json:"prio,omitempty"`
	Time int64  `json:"time,omitempty"`
	Keys []int  `json:"keys"`
}
type SortLtProbe struct {
	P1  int32 `json:"p1"`
	T1  int64 `json:"t1"`
	P2  int32 `json:"p2"`
	T2  int64 `json:"t2"`
	Obs bool  `json:"obs"`
}
type SortReqCase struct {
	Ops    []SortReqOp   `json:"ops"`
	Probes []SortLtProbe `json:"probes"`
}
type SortCases struct {
	QSort []SortQCase    `json:"qsort"`
	ASort []SortACase    `json:"asort"`
	Fam   []SortFamCase  `json:"fam"`
	Req   []SortReqCase  `json:"req"`
	Node  []SortNodeCase `json:"node"`
}

// ---------------------------------------------------------------- drivers (real code)

func (q *SortQueue) spec() objects.VerifSortQueueSpec {
	return objects.VerifSortQueueSpec{Name: fmt.Sprintf("q%02d", q.ID), Fence: q.Fence, PriorityOffset: q.Off, CurrentPriority: q.Cur,
		Allocated: sortToRes(q.Alloc), Guaranteed: sortToRes(q.Guar), Pending: sortToRes(q.Pend), Max: sortToRes(q.Max), Stopped: q.Stopped}
}

func sortQueueID(q *objects.Queue) int {
	var id int
	if _, err := fmt.Sscanf(q.Name, "q%d", &id); err != nil {
		panic(err)
	}
	return id
}

func sortAppID(a *objects.Application) int {
	var id int
	if _, err := fmt.Sscanf(a.ApplicationID, "app%d", &id); err != nil {
		panic(err)
	}
	return id
}

func runSortQCase(c *SortQCase) {
	specs := make([]objects.VerifSortQueueSpec, len(c.Queues))
	for i := range c.Queues {
		specs[i] = c.Queues[i].spec()
	}
	_, qs, err := objects.VerifSortNewFamily(nil, nil, policies.FifoSortPolicy, true, specs)
	if err != nil {
		panic(err)
	}
	byID := map[int]*objects.Queue{}
	fm := map[int]*resources.Resource{}
	for i, q := range qs {
		byID[c.Queues[i].ID] = q
		fm[c.Queues[i].ID] = sortToRes(c.Queues[i].FMax)
	}
	for p := range c.Perms {
		in := c.Perms[p].In
		queues := make([]*objects.Queue, len(in))
		fair := make([]*resources.Resource, len(in))
		for i, id := range in {
			queues[i] = byID[id]
			fair[i] = fm[id]
		}
		objects.VerifSortQueueSlice(queues, fair, policies.SortPolicy(c.SortType), c.Prio)
		out := make([]int, len(queues))
		for i, q := range queues {
			out[i] = sortQueueID(q)
		}
		c.Perms[p].Out = out
	}
}

func (a *SortApp) build() *objects.Application {
	return objects.VerifSortNewApp(objects.VerifSortAppSpec{ID: fmt.Sprintf("app%02d", a.ID), Allocated: sortToRes(a.Alloc),
		Pending: sortToRes(a.Pend), AskMaxPriority: a.Prio, SubmissionNanos: a.Sub})
}

func runSortACase(c *SortACase) {
	byID := map[int]*objects.Application{}
	for i := range c.Apps {
		byID[c.Apps[i].ID] = c.Apps[i].build()
	}
	g := sortToRes(c.Global)
	for p := range c.Perms {
		in := c.Perms[p].In
		apps := make([]*objects.Application, len(in))
		for i, id := range in {
			apps[i] = byID[id]
		}
		objects.VerifSortAppsBy(c.Which, apps, g)
		out := make([]int, len(apps))
		for i, a := range apps {
			out[i] = sortAppID(a)
		}
		c.Perms[p].Out = out
	}
}

const sortFamRepeat = 6 // map iteration order is chosen by the runtime: call several times

func runSortFamCase(c *SortFamCase) {
	c.Outs = nil
	switch c.Kind {
	case "queues":
		specs := make([]objects.VerifSortQueueSpec, len(c.Queues))
		for i := range c.Queues {
			specs[i] = c.Queues[i].spec()
		}
		parent, qs, err := objects.VerifSortNewFamily(sortToRes(c.RootMax), sortToRes(c.ParentMax), policies.SortPolicy(c.SortType), c.Prio, specs)
		if err != nil {
			panic(err)
		}
		for i, q := range qs {
			c.Queues[i].FMax = sortFromRes(q.GetFairMaxResource())
		}
		for r := 0; r < sortFamRepeat; r++ {
			sorted := objects.VerifSortQueuesOf(parent)
			out := make([]int, len(sorted))
			for i, q := range sorted {
				out[i] = sortQueueID(q)
			}
			c.Outs = append(c.Outs, out)
		}
	case "appsmap", "appsleaf":
		apps := make([]*objects.Application, len(c.Apps))
		m := map[string]*objects.Application{}
		for i := range c.Apps {
			apps[i] = c.Apps[i].build()
			m[apps[i].ApplicationID] = apps[i]
		}
		var leaf *objects.Queue
		if c.Kind == "appsleaf" {
			var err error
			leaf, err = objects.VerifSortNewLeaf(policies.SortPolicy(c.SortType), c.Prio, sortToRes(c.Global), apps)
			if err != nil {
				panic(err)
			}
		}
		for r := 0; r < sortFamRepeat; r++ {
			var sorted []*objects.Application
			if leaf != nil {
				sorted = objects.VerifSortAppsOfLeaf(leaf)
			} else {
				sorted = objects.VerifSortApplications(m, policies.SortPolicy(c.SortType), c.Prio, sortToRes(c.Global))
			}
			out := make([]int, len(sorted))
			for i, a := range sorted {
				out[i] = sortAppID(a)
			}
			c.Outs = append(c.Outs, out)
		}
	}
}

func runSortReqCase(c *SortReqCase) {
	var s objects.VerifSortRequests
	for i := range c.Ops {
		op := &c.Ops[i]
		switch op.K {
		case "ins":
			s.Insert(fmt.Sprintf("%d", op.ID), op.Prio, op.Time)
		case "rem":
			s.Remove(fmt.Sprintf("%d", op.ID))
		}
		keys := s.Keys()
		op.Keys = make([]int, len(keys))
		for j, k := range keys {
			if _, err := fmt.Sscanf(k, "%d", &op.Keys[j]); err != nil {
				panic(err)
			}
		}
	}
	for i := range c.Probes {
		p := &c.Probes[i]
		p.Obs = objects.VerifSortLessThan(p.P1, p.T1, p.P2, p.T2)
	}
}

// ---------------------------------------------------------------- generators

var sortPrioPool = []int32{0, 0, 1, 1, 2, -1, 5, math.MinInt32, math.MaxInt32, math.MaxInt32 - 1, math.MinInt32 + 1}

func sortPick[T any](rng *Rng, pool []T) T { return pool[rng.Intn(len(pool))] }

// quantities that collide as ratios (5/10 = 50/100), with the extremes of int64 and float64 precision
var sortQtyPool = []int64{0, 1, 2, 5, 10, 10, 30, 50, 50, 100, 100, 1000, 1 << 53, 1<<53 + 1, math.MaxInt64, math.MaxInt64 - 1}
var sortSmallQty = []int64{0, 1, 2, 3, 5, 10, 30, 50, 100}

func sortGenRes(rng *Rng, pool []int64, nilPct, maxTypes int, neg bool) sortRes {
	if rng.Chance(nilPct) {
		return nil
	}
	r := sortRes{}
	n := rng.Intn(maxTypes + 1)
	for i := 0; i < n; i++ {
		v := sortPick(rng, pool)
		if neg && rng.Chance(15) {
			v = -v
		}
		r[sortResNames[rng.Intn(3)]] = v
	}
	return r
}

// pending vectors that dominate each other or are incomparable
var sortPendPool = []sortRes{
	{"vcore": 1, "memory": 1}, {"vcore": 2, "memory": 2}, {"vcore": 3}, {"memory": 3}, {"vcore": 3, "memory": 0},
	{"vcore": 2, "memory": 1}, {"vcore": 1}, {"vcore": 1, "memory": 1}, {"vcore": 5, "memory": 5}, {"gpu": 1}, {"vcore": 2, "memory": 2, "gpu": 1},
}

func sortCopyRes(r sortRes) sortRes {
	if r == nil {
		return nil
	}
	o := sortRes{}
	for k, v := range r {
		o[k] = v
	}
	return o
}

// style: 0 small colliding keys (also equal shares so that the tie-breaks decide), 1 wide/extreme keys,
// 2 "plain": distinct shares or equal pending so that the pending tie-break never has to decide
func sortGenQueue(rng *Rng, id, style int, neg bool) SortQueue {
	q := SortQueue{ID: id}
	switch style {
	case 0:
		q.Cur = sortPick(rng, []int32{0, 0, 1, 1, 2})
		if rng.Chance(20) {
			q.Off = sortPick(rng, []int32{0, 1, -1})
		}
		q.Fence = rng.Chance(10)
		base := sortPick(rng, []int64{1, 2, 10})
		ratio := sortPick(rng, []int64{0, 1, 1, 2, 5})
		q.Alloc = sortRes{"vcore": ratio * base}
		if rng.Chance(50) {
			q.Alloc["memory"] = ratio * base * sortPick(rng, []int64{1, 1, 2})
		}
		if rng.Chance(50) {
			q.Guar = sortRes{"vcore": 10 * base, "memory": 10 * base}
		}
		q.FMax = sortRes{"vcore": 10 * base, "memory": 20 * base}
		q.Pend = sortCopyRes(sortPick(rng, sortPendPool))
	case 1:
		q.Cur = sortPick(rng, sortPrioPool)
		q.Off = sortPick(rng, sortPrioPool)
		q.Fence = rng.Chance(30)
		q.Alloc = sortGenRes(rng, sortQtyPool, 5, 3, neg)
		q.Guar = sortGenRes(rng, sortQtyPool, 40, 3, neg)
		q.FMax = sortGenRes(rng, sortQtyPool, 15, 3, neg)
		q.Pend = sortGenRes(rng, sortQtyPool, 5, 3, neg)
	default:
		q.Cur = sortPick(rng, []int32{0, 1, 2, 3})
		q.Alloc = sortRes{"vcore": int64(id*7 + rng.Intn(5)), "memory": int64(rng.Intn(50))}
		q.FMax = sortRes{"vcore": 1000, "memory": 1000}
		if rng.Chance(30) {
			q.Guar = sortRes{"vcore": int64(100 + rng.Intn(3)*100)}
		}
		q.Pend = sortRes{"vcore": 1, "memory": 1}
	}
	return q
}

func sortGenApp(rng *Rng, id, style int, neg bool) SortApp {
	a := SortApp{ID: id}
	switch style {
	case 0:
		a.Prio = sortPick(rng, []int32{0, 0, 1, 2})
		a.Sub = sortPick(rng, []int64{100, 100, 200, 300, 1000})
		base := sortPick(rng, []int64{1, 2, 10})
		ratio := sortPick(rng, []int64{0, 1, 1, 2, 5})
		a.Alloc = sortRes{"vcore": ratio * base}
		if rng.Chance(60) {
			a.Alloc["memory"] = sortPick(rng, []int64{0, 1, 2, 10}) * base
		}
		if rng.Chance(20) {
			a.Alloc["gpu"] = sortPick(rng, []int64{0, 1})
		}
	default:
		a.Prio = sortPick(rng, sortPrioPool)
		a.Sub = sortPick(rng, []int64{math.MinInt64, -1, 0, 1, 1, 1 << 62, math.MaxInt64, math.MaxInt64 - 1, 1700000000000000000, 1700000000000000001})
		a.Alloc = sortGenRes(rng, sortQtyPool, 5, 3, neg)
	}
	a.Pend = sortRes{"vcore": 1}
	return a
}

func sortAllPerms(ids []int) [][]int {
	if len(ids) <= 1 {
		return [][]int{append([]int{}, ids...)}
	}
	var out [][]int
	for i := range ids {
		rest := make([]int, 0, len(ids)-1)
		rest = append(rest, ids[:i]...)
		rest = append(rest, ids[i+1:]...)
		for _, p := range sortAllPerms(rest) {
			out = append(out, append([]int{ids[i]}, p...))
		}
	}
	return out
}

func sortShuffle(rng *Rng, ids []int) []int {
	p := append([]int{}, ids...)
	for i := len(p) - 1; i > 0; i-- {
		j := rng.Intn(i + 1)
		p[i], p[j] = p[j], p[i]
	}
	return p
}

// every permutation for n <= 4 (and for n = 5 when full5), random permutations otherwise
func sortGenPerms(rng *Rng, ids []int, full5 bool, nrandom int) []SortPerm {
	var perms [][]int
	if len(ids) <= 4 || (len(ids) == 5 && full5) {
		perms = sortAllPerms(ids)
	} else {
		perms = append(perms, append([]int{}, ids...))
		rev := make([]int, len(ids))
		for i, v := range ids {
			rev[len(ids)-1-i] = v
		}
		perms = append(perms, rev)
		for i := 0; i < nrandom; i++ {
			perms = append(perms, sortShuffle(rng, ids))
		}
	}
	out := make([]SortPerm, len(perms))
	for i, p := range perms {
		out[i] = SortPerm{In: p}
	}
	return out
}

func sortGenN(rng *Rng) int {
	switch x := rng.Intn(10); {
	case x < 5:
		return 2 + rng.Intn(3) // 2..4
	case x < 7:
		return 5
	default:
		return 6 + rng.Intn(7) // 6..12
	}
}

func genSortQCase(rng *Rng, thorough, neg bool) SortQCase {
	c := SortQCase{SortType: sortPick(rng, []int{1, 1, 1, 1, 0, 2, 3}), Prio: rng.Bool()}
	n := sortGenN(rng)
	style := sortPick(rng, []int{0, 0, 1, 2, 2})
	ids := make([]int, n)
	for i := 0; i < n; i++ {
		ids[i] = i + 1
		c.Queues = append(c.Queues, sortGenQueue(rng, i+1, style, neg))
	}
	c.Perms = sortGenPerms(rng, ids, thorough || rng.Chance(25), sortPickInt(thorough, 30, 6))
	return c
}

func sortPickInt(b bool, x, y int) int {
	if b {
		return x
	}
	return y
}

func genSortACase(rng *Rng, thorough, neg bool) SortACase {
	c := SortACase{Which: rng.Intn(4)}
	n := sortGenN(rng)
	style := rng.Intn(2)
	switch rng.Intn(4) {
	case 0:
		c.Global = nil
	case 1:
		c.Global = sortRes{"vcore": 100, "memory": 100}
	case 2:
		c.Global = sortRes{"vcore": 10, "memory": 0}
	default:
		c.Global = sortGenRes(rng, sortSmallQty, 0, 3, false)
	}
	ids := make([]int, n)
	for i := 0; i < n; i++ {
		ids[i] = i + 1
		c.Apps = append(c.Apps, sortGenApp(rng, i+1, style, neg))
	}
	c.Perms = sortGenPerms(rng, ids, thorough || rng.Chance(25), sortPickInt(thorough, 30, 6))
	return c
}

func genSortFamCase(rng *Rng) SortFamCase {
	c := SortFamCase{SortType: sortPick(rng, []int{0, 1, 1, 1, 2, 3}), Prio: rng.Bool()}
	n := 2 + rng.Intn(7)
	switch rng.Intn(3) {
	case 0:
		c.Kind = "queues"
		c.RootMax = sortGenRes(rng, []int64{0, 100, 1000, 2000}, 20, 3, false)
		c.ParentMax = sortGenRes(rng, []int64{0, 50, 500, 1000}, 40, 3, false)
		style := sortPick(rng, []int{0, 2, 2})
		for i := 0; i < n; i++ {
			q := sortGenQueue(rng, i+1, style, false)
			q.FMax = nil
			q.Max = sortGenRes(rng, []int64{0, 10, 20, 100, 200}, 40, 3, false)
			q.Stopped = rng.Chance(15)
			if rng.Chance(15) {
				q.Pend = sortPick(rng, []sortRes{nil, {}, {"vcore": 0}, {"vcore": -1, "memory": 5}})
			}
			c.Queues = append(c.Queues, q)
		}
	default:
		c.Kind = sortPick(rng, []string{"appsmap", "appsleaf"})
		c.Global = sortPick(rng, []sortRes{nil, {"vcore": 100, "memory": 100}, {"vcore": 10}})
		for i := 0; i < n; i++ {
			a := sortGenApp(rng, i+1, 0, false)
			if rng.Chance(25) {
				a.Pend = sortPick(rng, []sortRes{nil, {}, {"vcore": 0}, {"vcore": -1, "memory": 5}})
			}
			c.Apps = append(c.Apps, a)
		}
	}
	return c
}

func genSortReqCase(rng *Rng, maxOps int) SortReqCase {
	var c SortReqCase
	nops := 1 + rng.Intn(maxOps)
	live := []int{}
	next := 1
	prios := []int32{0, 0, 0, 1, 2, -1, math.MaxInt32, math.MinInt32}
	clock := int64(1000)
	for i := 0; i < nops; i++ {
		if len(live) > 0 && rng.Chance(30) {
			j := rng.Intn(len(live))
			id := live[j]
			if rng.Chance(10) {
				id = 900 + rng.Intn(5) // unknown key
			} else {
				live = append(live[:j], live[j+1:]...)
			}
			c.Ops = append(c.Ops, SortReqOp{K: "rem", ID: id})
			continue
		}
		// mostly increasing creation times (the fast path), sometimes older or equal ones
		switch rng.Intn(6) {
		case 0:
			clock -= int64(rng.Intn(500))
		case 1:
		default:
			clock += int64(rng.Intn(10))
		}
		t := clock
		if rng.Chance(5) {
			t = sortPick(rng, []int64{math.MinInt64, math.MaxInt64, 0, -1})
		}
		c.Ops = append(c.Ops, SortReqOp{K: "ins", ID: next, Prio: sortPick(rng, prios), Time: t})
		live = append(live, next)
		next++
	}
	for i := 0; i < 6; i++ {
		c.Probes = append(c.Probes, SortLtProbe{P1: sortPick(rng, prios), T1: sortPick(rng, []int64{0, 1, 1, 2, math.MaxInt64, math.MinInt64}),
			P2: sortPick(rng, prios), T2: sortPick(rng, []int64{0, 1, 1, 2, math.MaxInt64, math.MinInt64})})
	}
	return c
}

// ---------------------------------------------------------------- Gallina terms

func (q *SortQueue) coq() string {
	return fmt.Sprintf("(mkQ %d %s %s %s %s %s %s %s)", q.ID, coqBool(q.Fence), coqZ(int64(q.Off)), coqZ(int64(q.Cur)),
		sortCoqRes(q.Alloc), sortCoqRes(q.Guar), sortCoqRes(q.Pend), sortCoqRes(q.FMax))
}
func (a *SortApp) coq() string {
	return fmt.Sprintf("(mkA %d %s %s %s %s)", a.ID, sortCoqRes(a.Alloc), sortCoqRes(a.Pend), coqZ(int64(a.Prio)), coqZ(a.Sub))
}
func sortCoqPerms(ps []SortPerm) string {
	items := make([]string, len(ps))
	for i, p := range ps {
		items[i] = "(" + sortCoqIDs(p.In) + ", " + sortCoqIDs(p.Out) + ")"
	}
	return coqList(items)
}
func (c *SortQCase) coq() string {
	qs := make([]string, len(c.Queues))
	for i := range c.Queues {
		qs[i] = c.Queues[i].coq()
	}
	return fmt.Sprintf("(%d%%N, %s, %s,\n   %s)", c.SortType, coqBool(c.Prio), coqList(qs), sortCoqPerms(c.Perms))
}
func (c *SortACase) coq() string {
	as := make([]string, len(c.Apps))
	for i := range c.Apps {
		as[i] = c.Apps[i].coq()
	}
	return fmt.Sprintf("(%d%%N, %s, %s,\n   %s)", c.Which, sortCoqRes(c.Global), coqList(as), sortCoqPerms(c.Perms))
}
func (c *SortFamCase) coq() string {
	outs := make([]string, len(c.Outs))
	for i, o := range c.Outs {
		outs[i] = sortCoqIDs(o)
	}
	if c.Kind == "queues" {
		qs := make([]string, len(c.Queues))
		for i := range c.Queues {
			q := &c.Queues[i]
			qs[i] = fmt.Sprintf("(%s, %s, %s)", q.coq(), sortCoqRes(q.Max), coqBool(q.Stopped))
		}
		return fmt.Sprintf("(FamQ %d%%N %s %s %s %s\n   %s)", c.SortType, coqBool(c.Prio), sortCoqRes(c.RootMax), sortCoqRes(c.ParentMax), coqList(qs), coqList(outs))
	}
	as := make([]string, len(c.Apps))
	for i := range c.Apps {
		as[i] = c.Apps[i].coq()
	}
	return fmt.Sprintf("(FamA %d%%N %s %s %s\n   %s)", c.SortType, coqBool(c.Prio), sortCoqRes(c.Global), coqList(as), coqList(outs))
}
func (c *SortReqCase) coq() string {
	ops := make([]string, len(c.Ops))
	for i, op := range c.Ops {
		var o string
		if op.K == "ins" {
			o = fmt.Sprintf("RIns (mkAsk %d %s %s)", op.ID, coqZ(int64(op.Prio)), coqZ(op.Time))
		} else {
			o = fmt.Sprintf("RRem %d", op.ID)
		}
		ops[i] = "(" + o + ", " + sortCoqIDs(op.Keys) + ")"
	}
	ps := make([]string, len(c.Probes))
	for i, p := range c.Probes {
		ps[i] = fmt.Sprintf("(mkAsk 1 %s %s, mkAsk 2 %s %s, %s)", coqZ(int64(p.P1)), coqZ(p.T1), coqZ(int64(p.P2)), coqZ(p.T2), coqBool(p.Obs))
	}
	return "(" + coqList(ops) + ",\n   " + coqList(ps) + ")"
}
