package main

import (
	"fmt"
	"path/filepath"
	"regexp"
	"sort"
	"strings"

	"go.yaml.in/yaml/v3"

	"github.com/apache/yunikorn-core/pkg/common"
	"github.com/apache/yunikorn-core/pkg/common/configs"
	"github.com/apache/yunikorn-core/pkg/scheduler"
	"github.com/apache/yunikorn-core/pkg/scheduler/objects"
	"github.com/apache/yunikorn-scheduler-interface/lib/go/si"
)

// ---- engine "place": PartitionContext.AddApplication (PlaceApplication + createQueue) on generated worlds ----
// world = queue hierarchy (ACLs, templates, draining/stopped queues) x placement rule chain x applications.
// The hierarchy goes through the real configuration path (yaml -> validation -> newPartitionContext); a rule
// chain the validator refuses is installed through AppPlacementManager.UpdateRules instead (hook).

type PlaceQueue struct {
	Name     string       `json:"name"`
	Parent   bool         `json:"parent,omitempty"`
	Submit   string       `json:"submit,omitempty"`
	Admin    string       `json:"admin,omitempty"`
	Tmpl     uint64       `json:"tmpl,omitempty"` // child template identity = its maxapplications value
	Children []PlaceQueue `json:"children,omitempty"`
}
type PlaceFilter struct {
	Type   string   `json:"type,omitempty"`
	Users  []string `json:"users,omitempty"`
	Groups []string `json:"groups,omitempty"`
}
type PlaceRule struct {
	Name   string      `json:"name"`
	Create bool        `json:"create,omitempty"`
	Filter PlaceFilter `json:"filter"`
	Value  string      `json:"value,omitempty"`
	Parent *PlaceRule  `json:"parent,omitempty"`
}
type PlaceSetOp struct {
	Kind string `json:"kind"` // drain | stop
	Path string `json:"path"`
}
type PlaceSnap struct {
	Path    string `json:"path"`
	Leaf    bool   `json:"leaf"`
	Managed bool   `json:"managed"`
	State   int    `json:"state"` // 0 Active 1 Draining 2 Stopped
	Tmpl    uint64 `json:"tmpl"`
	MaxApps uint64 `json:"maxapps"`
}
type PlaceApp struct {
	User   string      `json:"user"`
	Groups []string    `json:"groups"`
	Queue  string      `json:"queue"`
	Tags   [][2]string `json:"tags,omitempty"`
	// observations
	Out   string      `json:"out,omitempty"` // accepted | rejected | crash
	Path  string      `json:"path,omitempty"`
	Class int         `json:"class,omitempty"`
	Err   string      `json:"err,omitempty"` // message, for the reader only (never compared)
	After []PlaceSnap `json:"after,omitempty"`
	Acls  [][2]bool   `json:"acls,omitempty"` // per ancestor of the accepted queue (root first): CheckSubmitAccess, CheckAdminAccess
}
type PlaceReEntry struct {
	Pat      string   `json:"pat"`
	Compiles bool     `json:"compiles"`
	Matches  []string `json:"matches,omitempty"`
}
type PlaceCase struct {
	Root  PlaceQueue   `json:"root"`
	Ops   []PlaceSetOp `json:"ops,omitempty"`
	Rules []PlaceRule  `json:"rules,omitempty"`
	Apps  []PlaceApp   `json:"apps"`
	// observations
	Valid     bool           `json:"valid"`     // the queue configuration passed validation
	ViaUpdate bool           `json:"viaUpdate"` // the rule chain was refused by validation and installed through UpdateRules
	Loaded    bool           `json:"loaded"`    // the partition was created
	Re        []PlaceReEntry `json:"re,omitempty"`
	Snap0     []PlaceSnap    `json:"snap0,omitempty"`
}
type PlaceCases struct {
	Cases []PlaceCase `json:"cases"`
}

// reason classes (Coq: PlaceCheck.reason_class)
const (
	placeNoMatch = iota
	placeRuleInvalidName
	placeRuleParentLeaf
	placeUserRejected
	placeIllegalName
	placeCreateDenied
	placeCreateParentLeaf
	placeCreateFailed
	placeNotLeaf
	placeOther = 99
)

func placeClassify(err error) int {
	m := err.Error()
	switch {
	case strings.Contains(m, "no placement rule matched"):
		return placeNoMatch
	case strings.Contains(m, "parent rule returned a leaf queue"):
		return placeRuleParentLeaf
	case strings.Contains(m, "failed to place application") && strings.Contains(m, common.ErrorInvalidQueueName.Error()):
		return placeRuleInvalidName
	case strings.Contains(m, "illegal queue name passed in"):
		return placeIllegalName
	case strings.Contains(m, "denied during create"):
		return placeCreateDenied
	case strings.Contains(m, "parent is already a leaf"):
		return placeCreateParentLeaf
	case strings.Contains(m, "failed to create rule based queue"), strings.Contains(m, "failed to create recovery queue"):
		return placeCreateFailed
	case strings.Contains(m, "failed to find queue"):
		return placeNotLeaf
	}
	return placeOther
}

func (q *PlaceQueue) conf() configs.QueueConfig {
	c := configs.QueueConfig{Name: q.Name, Parent: q.Parent, SubmitACL: q.Submit, AdminACL: q.Admin}
	if q.Tmpl != 0 {
		c.ChildTemplate = configs.ChildTemplate{MaxApplications: q.Tmpl}
	}
	for i := range q.Children {
		c.Queues = append(c.Queues, q.Children[i].conf())
	}
	return c
}
func (r *PlaceRule) conf() configs.PlacementRule {
	c := configs.PlacementRule{Name: r.Name, Create: r.Create, Value: r.Value,
		Filter: configs.Filter{Type: r.Filter.Type, Users: r.Filter.Users, Groups: r.Filter.Groups}}
	if r.Parent != nil {
		p := r.Parent.conf()
		c.Parent = &p
	}
	return c
}

func placeLoad(root *PlaceQueue, rules []configs.PlacementRule) (*configs.SchedulerConfig, error) {
	sc := configs.SchedulerConfig{Partitions: []configs.PartitionConfig{{Name: "default", Queues: []configs.QueueConfig{root.conf()}, PlacementRules: rules}}}
	b, err := yaml.Marshal(&sc)
	if err != nil {
		return nil, err
	}
	return configs.LoadSchedulerConfigFromByteArray(b)
}

func placeSnapshot(pc *scheduler.PartitionContext) []PlaceSnap {
	var out []PlaceSnap
	var rec func(q *objects.Queue)
	rec = func(q *objects.Queue) {
		d := q.GetPartitionQueueDAOInfo(false)
		s := PlaceSnap{Path: d.QueueName, Leaf: d.IsLeaf, Managed: d.IsManaged, MaxApps: d.MaxRunningApps}
		switch d.Status {
		case "Active":
			s.State = 0
		case "Draining":
			s.State = 1
		case "Stopped":
			s.State = 2
		default:
			s.State = 9
		}
		if d.TemplateInfo != nil {
			s.Tmpl = d.TemplateInfo.MaxApplications
		}
		out = append(out, s)
		for _, c := range q.GetCopyOfChildren() {
			rec(c)
		}
	}
	rec(pc.GetQueue("root"))
	sort.Slice(out, func(i, j int) bool { return out[i].Path < out[j].Path })
	return out
}

var placeAppSeq int

// runPlaceCase drives the real code and fills in the observations.
func runPlaceCase(c *PlaceCase) {
	c.Valid, c.ViaUpdate, c.Loaded, c.Re, c.Snap0 = false, false, false, nil, nil
	for i := range c.Apps {
		a := &c.Apps[i]
		a.Out, a.Path, a.Class, a.Err, a.After, a.Acls = "", "", 0, "", nil, nil
	}
	var rules []configs.PlacementRule
	for i := range c.Rules {
		rules = append(rules, c.Rules[i].conf())
	}
	conf, err := placeLoad(&c.Root, rules)
	if err != nil {
		conf, err = placeLoad(&c.Root, nil)
		if err != nil {
			return
		}
		c.ViaUpdate = true
	}
	c.Valid = true
	// regexp answers for the filters: subjects are all users and groups of the applications (and the anonymous ones)
	subjects := map[string]bool{"nobody": true, "nogroup": true}
	for _, a := range c.Apps {
		subjects[a.User] = true
		for _, g := range a.Groups {
			subjects[g] = true
		}
	}
	seen := map[string]bool{}
	var addRe func(r *PlaceRule)
	addRe = func(r *PlaceRule) {
		for _, l := range [][]string{r.Filter.Users, r.Filter.Groups} {
			if len(l) == 1 && configs.SpecialRegExp.MatchString(l[0]) && !seen[l[0]] {
				seen[l[0]] = true
				e := PlaceReEntry{Pat: l[0]}
				if re, err := regexp.Compile(l[0]); err == nil {
					e.Compiles = true
					for _, s := range sortedKeys(subjects) {
						if re.MatchString(s) {
							e.Matches = append(e.Matches, s)
						}
					}
				}
				c.Re = append(c.Re, e)
			}
		}
		if r.Parent != nil {
			addRe(r.Parent)
		}
	}
	for i := range c.Rules {
		addRe(&c.Rules[i])
	}
	pc, err := scheduler.VerifPlaceNewPartition(conf.Partitions[0], "rm")
	if err != nil {
		return
	}
	c.Loaded = true
	if c.ViaUpdate {
		_ = scheduler.VerifPlaceUpdateRules(pc, rules) //nolint:errcheck
	}
	for _, op := range c.Ops {
		q := pc.GetQueue(op.Path)
		if q == nil {
			continue
		}
		if op.Kind == "drain" {
			q.MarkQueueForRemoval()
		} else {
			_ = objects.VerifPlaceStopQueue(q) //nolint:errcheck
		}
	}
	c.Snap0 = placeSnapshot(pc)
	for i := range c.Apps {
		a := &c.Apps[i]
		placeAppSeq++
		tags := map[string]string{}
		for _, kv := range a.Tags {
			tags[kv[0]] = kv[1]
		}
		req := &si.AddApplicationRequest{ApplicationID: fmt.Sprintf("app-%d", placeAppSeq), QueueName: a.Queue, PartitionName: "default", Tags: tags,
			Ugi: &si.UserGroupInformation{User: a.User, Groups: append([]string{}, a.Groups...)}}
		func() {
			defer func() {
				if r := recover(); r != nil {
					a.Out, a.Err = "crash", fmt.Sprint(r)
				}
			}()
			ugi, err := scheduler.VerifPlaceConvertUGI(pc, req.Ugi, common.IsAppCreationForced(tags))
			if err != nil {
				a.Out, a.Class, a.Err = "rejected", placeUserRejected, err.Error()
				return
			}
			app := objects.NewApplication(req, ugi, nil, "rm")
			if err = pc.AddApplication(app); err != nil {
				a.Out, a.Class, a.Err = "rejected", placeClassify(err), err.Error()
				return
			}
			a.Out, a.Path = "accepted", app.GetQueuePath()
			parts := strings.Split(a.Path, ".")
			for k := 1; k <= len(parts); k++ {
				q := pc.GetQueue(strings.Join(parts[:k], "."))
				if q == nil {
					a.Acls = append(a.Acls, [2]bool{false, false})
					continue
				}
				a.Acls = append(a.Acls, [2]bool{q.CheckSubmitAccess(ugi), q.CheckAdminAccess(ugi)})
			}
		}()
		a.After = placeSnapshot(pc)
	}
}

// ---- Gallina emission ----
// Repeated sub-terms (strings, paths, snapshot rows and lists) are emitted once as named definitions in
// front of the case list: parsing byte lists dominated the cost of a cases file.
type placeInterner struct {
	names map[string]string
	defs  []string
}

func (in *placeInterner) def(prefix, typ, term string) string {
	k := prefix + "|" + term
	if n, ok := in.names[k]; ok {
		return n
	}
	n := fmt.Sprintf("%s%d", prefix, len(in.names))
	in.names[k] = n
	in.defs = append(in.defs, fmt.Sprintf("Definition %s : %s := %s.", n, typ, term))
	return n
}

var placeIn = &placeInterner{names: map[string]string{}}

func placeStr(s string) string {
	if s == "" {
		return "[]"
	}
	ascii := true
	for i := 0; i < len(s); i++ {
		if s[i] < 32 || s[i] > 126 {
			ascii = false
		}
	}
	if ascii {
		return placeIn.def("s", "str", "bs \""+strings.ReplaceAll(s, "\"", "\"\"")+"\"%string")
	}
	items := make([]string, len(s))
	for i := 0; i < len(s); i++ {
		items[i] = fmt.Sprintf("%d", s[i])
	}
	return placeIn.def("s", "str", "["+strings.Join(items, ";")+"]")
}
func placeStrs(l []string) string {
	items := make([]string, len(l))
	for i, s := range l {
		items[i] = placeStr(s)
	}
	return "[" + strings.Join(items, "; ") + "]"
}
func placePath(p string) string {
	return placeIn.def("p", "list str", placeStrs(strings.Split(p, ".")))
}
func (q *PlaceQueue) coq() string {
	ch := make([]string, len(q.Children))
	for i := range q.Children {
		ch[i] = q.Children[i].coq()
	}
	return fmt.Sprintf("(QConf %s %s %s %s %d %s)", placeStr(q.Name), coqBool(q.Parent), placeStr(q.Submit), placeStr(q.Admin), q.Tmpl, coqList(ch))
}
func (r *PlaceRule) coq() string {
	p := "None"
	if r.Parent != nil {
		p = "(Some " + r.Parent.coq() + ")"
	}
	return fmt.Sprintf("(RConf %s %s (mkFConf %s %s %s) %s %s)", placeStr(r.Name), coqBool(r.Create), placeStr(r.Filter.Type), placeStrs(r.Filter.Users), placeStrs(r.Filter.Groups), placeStr(r.Value), p)
}
func placeSnaps(l []PlaceSnap) string {
	items := make([]string, len(l))
	for i, s := range l {
		items[i] = placeIn.def("q", "qsnap", fmt.Sprintf("mkSnap %s %s %s %d %d %d", placePath(s.Path), coqBool(s.Leaf), coqBool(s.Managed), s.State, s.Tmpl, s.MaxApps))
	}
	return placeIn.def("l", "list qsnap", coqList(items))
}
func (a *PlaceApp) coq() string {
	tags := make([]string, len(a.Tags))
	for i, kv := range a.Tags {
		tags[i] = "(" + placeStr(kv[0]) + ", " + placeStr(kv[1]) + ")"
	}
	var obs string
	switch a.Out {
	case "accepted":
		obs = "OAcc " + placePath(a.Path)
	case "rejected":
		obs = fmt.Sprintf("ORej %d", a.Class)
	default:
		obs = "OCrash"
	}
	acls := make([]string, len(a.Acls))
	for i, p := range a.Acls {
		acls[i] = "(" + coqBool(p[0]) + ", " + coqBool(p[1]) + ")"
	}
	return fmt.Sprintf("mkStep (mkApp %s %s %s %s) (%s) %s %s", placeStr(a.User), placeStrs(a.Groups), placeStr(a.Queue), coqList(tags), obs, placeSnaps(a.After), coqList(acls))
}
func (c *PlaceCase) coq() string {
	ops := make([]string, len(c.Ops))
	for i, o := range c.Ops {
		k := "SDrain"
		if o.Kind == "stop" {
			k = "SStop"
		}
		ops[i] = k + " " + placeStr(o.Path)
	}
	rules := make([]string, len(c.Rules))
	for i := range c.Rules {
		rules[i] = c.Rules[i].coq()
	}
	re := make([]string, len(c.Re))
	for i, e := range c.Re {
		m := "None"
		if e.Compiles {
			m = "Some " + placeStrs(e.Matches)
		}
		re[i] = "(" + placeStr(e.Pat) + ", " + m + ")"
	}
	steps := make([]string, len(c.Apps))
	for i := range c.Apps {
		steps[i] = c.Apps[i].coq()
	}
	return fmt.Sprintf("mkCase %s %s %s %s %s %s %s\n   %s", c.Root.coq(), coqList(ops), coqList(rules), coqBool(c.ViaUpdate), coqList(re), coqBool(c.Loaded), placeSnaps(c.Snap0), "["+strings.Join(steps, ";\n    ")+"]")
}

func (c *PlaceCase) nontrivial() bool {
	// at least one application accepted by a configured rule and at least one further distinct outcome
	kinds := map[string]bool{}
	acc := false
	for _, a := range c.Apps {
		kinds[fmt.Sprintf("%s/%d", a.Out, a.Class)] = true
		if a.Out == "accepted" {
			acc = true
		}
	}
	return c.Loaded && acc && (len(kinds) > 1 || len(c.Rules) > 1)
}

const placeRequires = `From YK Require Import Place.Str Place.Acl Place.Rules Place.Placement Oracles.PlaceCheck.
From Coq Require Import List NArith String. Import ListNotations. Open Scope N_scope.`

func placeEngine(o *Opts) {
	rng := NewRng(NewRng(o.Seed).Next()) // decorrelate neighbouring seeds (NewRng(s+1) is NewRng(s) advanced by one step)
	st := NewStats("place", o.Seed, "generated worlds: queue hierarchy of depth <= 3 with submit/admin ACL strings on every level, child templates, draining/stopped queues x rule chain (provided/user/tag/fixed/test/unknown, nested parent rules, create flags, allow/deny filters with user/group lists and regular expressions) x 1-6 applications (users, groups, tags, requested names: unqualified, dotted, upper case, invalid parts, recovery queue, force-create); non-trivial = partition loaded, an application accepted and at least two distinct outcomes or two configured rules; distinct by hash of the case with observations")
	var all PlaceCases
	if o.Replay != "" {
		readJSON(o.Replay, &all)
	} else {
		for len(all.Cases) < o.N {
			all.Cases = append(all.Cases, genPlaceCase(rng.Fork()))
		}
	}
	terms := []string{}
	for i := range all.Cases {
		c := &all.Cases[i]
		runPlaceCase(c)
		if !c.Valid {
			// the queue configuration does not pass validation: nothing to observe
			st.Count("world.invalid_config_dropped")
			continue
		}
		t := c.coq()
		terms = append(terms, t)
		placeCount(st, c)
		st.Case(t, c.nontrivial(), c)
	}
	base := filepath.Join(o.OutDir, fmt.Sprintf("cases_place_%d", o.Shard))
	var b strings.Builder
	b.WriteString(placeRequires + "\n")
	b.WriteString(strings.Join(placeIn.defs, "\n") + "\n")
	b.WriteString("Definition cases : list pcase := [\n " + strings.Join(terms, ";\n ") + "\n].\n")
	pinned := "false"
	if o.Variant == "pinned" {
		pinned = "true"
	}
	b.WriteString("Definition M := Eval vm_compute in place_check " + pinned + " cases.\nPrint M.\n")
	writeFile(base+".v", b.String())
	writeJSON(base+".json", all)
	st.CasesFile, st.CasesJSON = base+".v", base+".json"
	st.Write(base + ".stats.json")
}

func placeCount(st *Stats, c *PlaceCase) {
	if !c.Loaded {
		st.Count("world.load_failed")
		return
	}
	if c.ViaUpdate {
		st.Count("world.rules_via_update")
	} else {
		st.Count("world.rules_via_config")
	}
	var cr func(r *PlaceRule, depth int)
	cr = func(r *PlaceRule, depth int) {
		st.Count(fmt.Sprintf("rule.%s.depth%d", strings.ToLower(r.Name), depth))
		if r.Create {
			st.Count("rule.create")
		}
		if len(r.Filter.Users)+len(r.Filter.Groups) > 0 || r.Filter.Type != "" {
			st.Count("rule.filter." + strings.ToLower(r.Filter.Type))
		}
		if r.Parent != nil {
			cr(r.Parent, depth+1)
		}
	}
	for i := range c.Rules {
		cr(&c.Rules[i], 0)
	}
	if len(c.Rules) == 0 {
		st.Count("rule.none(implicit provided)")
	}
	for _, op := range c.Ops {
		st.Count("setup." + op.Kind)
	}
	before := map[string]bool{}
	for _, s := range c.Snap0 {
		before[s.Path] = true
	}
	for _, a := range c.Apps {
		switch a.Out {
		case "accepted":
			if before[a.Path] {
				st.Count("app.accepted.existing")
			} else {
				st.Count("app.accepted.created")
			}
			if a.Path == common.RecoveryQueueFull {
				st.Count("app.accepted.recovery")
			}
		case "rejected":
			st.Count(fmt.Sprintf("app.rejected.class%d", a.Class))
		default:
			st.Count("app.crash")
			st.Panics++
		}
		for _, s := range a.After {
			before[s.Path] = true
		}
	}
}

func init() { engines["place"] = placeEngine }
