package main

import (
	"strings"
)

// generators of the "place" engine: everything derives from the Rng handed in.

var placeUsers = []string{"alice", "bob", "carol", "dave.smith", "eve$", "Frank", "x@corp", "svc-1", "nobody"}
var placeGroups = []string{"dev", "ops", "qa", "admin", "Team-A", "g_1", "nogroup", "alice"}
var placeQNames = []string{"default", "dev", "prod", "sandbox", "alice", "bob", "team-a", "ns1", "dave_dot_smith", "x", "y"}
var placeAcls = []string{"", "", "*", "alice", "alice,bob", " dev", "alice dev", "bob,carol ops,qa", "* ", " *", "alice,* dev", "nobody nogroup",
	"dave.smith", "eve$ qa", "alice *", "bob,carol *", "*,alice", "Frank Team-A", "carol", " ops", "x@corp,svc-1", " admin,dev", "bob dev,*", "9bad,bob -g,qa"}

func placePick(r *Rng, l []string) string { return l[r.Intn(len(l))] }

func genPlaceQueue(r *Rng, name string, depth int, tmplSeq *uint64, used map[string]bool) PlaceQueue {
	q := PlaceQueue{Name: name}
	if r.Chance(55) {
		q.Submit = placePick(r, placeAcls)
	}
	if r.Chance(25) {
		q.Admin = placePick(r, placeAcls)
	}
	isParent := depth < 3 && r.Chance(45)
	if depth == 0 {
		isParent = true
	}
	if isParent {
		q.Parent = true
		if r.Chance(45) {
			*tmplSeq++
			q.Tmpl = *tmplSeq
		}
		n := r.Intn(4)
		if depth == 0 {
			n = 1 + r.Intn(4)
		}
		names := map[string]bool{}
		for i := 0; i < n; i++ {
			cn := placePick(r, placeQNames)
			if depth == 0 && r.Chance(4) {
				cn = "@recovery@"
			}
			if r.Chance(6) {
				cn = strings.ToUpper(cn[:1]) + cn[1:]
			}
			if names[strings.ToLower(cn)] {
				continue
			}
			names[strings.ToLower(cn)] = true
			q.Children = append(q.Children, genPlaceQueue(r, cn, depth+1, tmplSeq, used))
		}
		if len(q.Children) > 0 && r.Chance(30) {
			// "parent: false" with children is still a parent (applyConf)
			q.Parent = false
		}
	}
	return q
}

func placePaths(q *PlaceQueue, prefix string, leaf bool, out *[]string) {
	p := strings.ToLower(q.Name)
	if prefix != "" {
		p = prefix + "." + p
	}
	isLeaf := !q.Parent && len(q.Children) == 0
	if isLeaf == leaf {
		*out = append(*out, p)
	}
	for i := range q.Children {
		placePaths(&q.Children[i], p, leaf, out)
	}
}

func genPlaceFilter(r *Rng) PlaceFilter {
	f := PlaceFilter{}
	if !r.Chance(33) {
		return f
	}
	f.Type = placePick(r, []string{"", "allow", "deny", "deny", "Deny", "ALLOW", "DENY"})
	switch r.Intn(6) {
	case 0: // one user, maybe a regular expression
		f.Users = []string{placePick(r, append([]string{"^a.*", "b(ob|ill)", "^[a-c]", "a(", ".*", "9bad"}, placeUsers...))}
	case 1:
		n := 2 + r.Intn(2)
		for i := 0; i < n; i++ {
			f.Users = append(f.Users, placePick(r, append([]string{"9bad", "^a.*"}, placeUsers...)))
		}
	case 2:
		f.Groups = []string{placePick(r, append([]string{"^d.*", "(ops|qa)", "g[", "-bad"}, placeGroups...))}
	case 3:
		n := 2 + r.Intn(2)
		for i := 0; i < n; i++ {
			f.Groups = append(f.Groups, placePick(r, placeGroups))
		}
	case 4:
		f.Users = []string{placePick(r, placeUsers)}
		f.Groups = []string{placePick(r, placeGroups)}
	default: // empty lists: the filter is "empty", allow/deny applies to everybody
	}
	return f
}

func genPlaceRule(r *Rng, c *PlaceCase, depth int) PlaceRule {
	var leaves, parents []string
	placePaths(&c.Root, "", true, &leaves)
	placePaths(&c.Root, "", false, &parents)
	rule := PlaceRule{Create: r.Chance(50), Filter: genPlaceFilter(r)}
	x := r.Intn(100)
	switch {
	case x < 27:
		rule.Name = "provided"
	case x < 47:
		rule.Name = "user"
	case x < 67:
		rule.Name = "tag"
		rule.Value = placePick(r, []string{"namespace", "namespace", "Queue", "team", ""})
		if rule.Value == "" && !r.Chance(20) {
			rule.Value = "namespace"
		}
	case x < 95:
		rule.Name = "fixed"
		switch r.Intn(8) {
		case 0, 1:
			if len(leaves) > 0 {
				rule.Value = placePick(r, leaves)
			} else {
				rule.Value = "root.default"
			}
		case 2:
			if len(parents) > 0 {
				rule.Value = placePick(r, parents)
			}
		case 3:
			rule.Value = placePick(r, placeQNames)
		case 4:
			rule.Value = placePick(r, placeQNames) + "." + placePick(r, placeQNames)
		case 5:
			rule.Value = placePick(r, []string{"rootx", "root.@recovery@", "@recovery@", "Root.Dev", "root", "bad name", "", "rootling.a", "root.@RECOVERY@.sub"})
		default:
			if len(parents) > 0 {
				p := placePick(r, parents)
				if depth > 0 {
					p = strings.TrimPrefix(strings.TrimPrefix(p, "root"), ".")
				}
				if p == "" {
					p = placePick(r, placeQNames)
				}
				rule.Value = p
			} else {
				rule.Value = "dev"
			}
		}
		if rule.Value == "" && !r.Chance(15) {
			rule.Value = "default"
		}
	case x < 97:
		rule.Name = "test"
	case x < 98:
		rule.Name = "recovery"
	case x < 99:
		rule.Name = "bogus"
	default:
		rule.Name = "Provided"
	}
	if depth == 0 && r.Chance(8) {
		rule.Name = strings.ToUpper(rule.Name[:1]) + rule.Name[1:]
	}
	if depth < 2 && r.Chance(35-10*depth) {
		p := genPlaceRule(r, c, depth+1)
		rule.Parent = &p
	}
	return rule
}

func genPlaceApp(r *Rng, c *PlaceCase) PlaceApp {
	var leaves, parents []string
	placePaths(&c.Root, "", true, &leaves)
	placePaths(&c.Root, "", false, &parents)
	a := PlaceApp{User: placePick(r, placeUsers)}
	if r.Chance(4) {
		a.User = placePick(r, []string{"", "9bad", "with space", "@recovery@", "a.b.c"})
	}
	ng := 1 + r.Intn(2)
	for i := 0; i < ng; i++ {
		a.Groups = append(a.Groups, placePick(r, placeGroups))
	}
	name := func() string {
		switch r.Intn(14) {
		case 0:
			return ""
		case 1, 2:
			if len(leaves) > 0 {
				return placePick(r, leaves)
			}
			return "root.default"
		case 3:
			if len(parents) > 0 {
				return placePick(r, parents)
			}
			return "root"
		case 4:
			return placePick(r, placeQNames)
		case 5:
			return placePick(r, placeQNames) + "." + placePick(r, placeQNames)
		case 6:
			if len(parents) > 0 {
				return placePick(r, parents) + "." + placePick(r, append([]string{"new1", "New2", "@recovery@"}, placeQNames...))
			}
			return "root.new1"
		case 7:
			if len(leaves) > 0 {
				return placePick(r, leaves) + "." + placePick(r, placeQNames)
			}
			return "root.a.b"
		case 8:
			if len(leaves) > 0 {
				p := placePick(r, leaves)
				if len(p) > 5 {
					return p[:5] + strings.ToUpper(p[5:6]) + p[6:] // upper-case the first letter after "root."
				}
				return p
			}
			return "root.Default"
		case 9:
			return placePick(r, []string{"root..x", "root.", "root.bad!name", "root." + strings.Repeat("q", 65), strings.Repeat("z", 64), "bad name", "a.b.c.d.e.f.g.h.i.j.k.l.m.n.o", "Root.dev", "ROOT.DEV", ".", "root"})
		case 10, 11:
			return placePick(r, []string{"root.@recovery@", "root.@recovery@", "root.@RECOVERY@", "ROOT.@recovery@", "root.@recovery@.x", "root.@RECOVERY@.x", "@recovery@", "root.@Recovery@.a.b"})
		case 12:
			if len(parents) > 0 {
				return placePick(r, parents) + ".n1.n2"
			}
			return "root.n1.n2"
		default:
			return "root." + placePick(r, placeQNames)
		}
	}
	a.Queue = name()
	keys := map[string]bool{}
	addTag := func(k, v string) {
		if keys[strings.ToLower(k)] {
			return
		}
		keys[strings.ToLower(k)] = true
		a.Tags = append(a.Tags, [2]string{k, v})
	}
	if r.Chance(55) {
		v := name()
		if r.Chance(50) {
			v = placePick(r, placeQNames)
		}
		addTag(placePick(r, []string{"namespace", "namespace", "Namespace", "queue", "team"}), v)
	}
	if r.Chance(25) {
		addTag(placePick(r, []string{"application.create.force", "application.create.force", "Application.Create.Force"}),
			placePick(r, []string{"true", "true", "true", "True", "1", "t", "false", "yes", "", "TRUE"}))
	}
	if r.Chance(10) {
		addTag("other", "value")
	}
	return a
}

func genPlaceCase(r *Rng) PlaceCase {
	var c PlaceCase
	seq := uint64(0)
	for tries := 0; ; tries++ {
		c = PlaceCase{}
		c.Root = genPlaceQueue(r, "root", 0, &seq, nil)
		if r.Chance(85) {
			c.Root.Submit = placePick(r, []string{"*", "*", "*", "*", "*", "alice,bob dev", " dev,ops", "alice"})
		}
		if r.Chance(3) {
			c.Root.Children = append(c.Root.Children, PlaceQueue{Name: "oddacl", Submit: "alice  dev"})
		}
		if _, err := placeLoad(&c.Root, nil); err == nil || tries > 20 {
			break
		}
	}
	var all []string
	placePaths(&c.Root, "", true, &all)
	placePaths(&c.Root, "", false, &all)
	nops := 0
	if r.Chance(35) {
		nops = 1 + r.Intn(2)
	}
	for i := 0; i < nops; i++ {
		p := placePick(r, all)
		if p == "root" && !r.Chance(10) {
			continue
		}
		kind := "drain"
		if r.Chance(25) {
			kind = "stop"
		}
		c.Ops = append(c.Ops, PlaceSetOp{Kind: kind, Path: p})
	}
	nrules := r.Intn(5)
	for i := 0; i < nrules; i++ {
		c.Rules = append(c.Rules, genPlaceRule(r, &c, 0))
	}
	if nrules > 0 && r.Chance(35) {
		// a catch-all at the end of the chain: a fixed existing leaf or per-user queues under a parent
		var leaves, parents []string
		placePaths(&c.Root, "", true, &leaves)
		placePaths(&c.Root, "", false, &parents)
		if len(leaves) > 0 && r.Bool() {
			c.Rules = append(c.Rules, PlaceRule{Name: "fixed", Value: placePick(r, leaves)})
		} else {
			c.Rules = append(c.Rules, PlaceRule{Name: "user", Create: true, Parent: &PlaceRule{Name: "fixed", Value: placePick(r, parents)}})
		}
	}
	napps := 1 + r.Intn(6)
	for i := 0; i < napps; i++ {
		c.Apps = append(c.Apps, genPlaceApp(r, &c))
	}
	return c
}
