package main

import (
	"math"
	"strconv"
	"strings"
)

// ---- generators of engine "res" ----

const (
	resMin = math.MinInt64
	resMax = math.MaxInt64
)

func resGenVal(rng *Rng) int64 {
	switch rng.Intn(22) {
	case 0, 1:
		return 0
	case 2:
		return 1
	case 3:
		return -1
	case 4, 5:
		return int64(2 + rng.Intn(1000))
	case 6:
		return -int64(2 + rng.Intn(1000))
	case 7:
		return (int64(1) << 31) * resSign(rng)
	case 8:
		return (int64(1) << 53) * resSign(rng)
	case 9:
		return (int64(1) << 62) * resSign(rng)
	case 10:
		return resMin
	case 11:
		return resMin + 1
	case 12:
		return resMax - 1
	case 13:
		return resMax
	case 14:
		// next to a power of two
		sh := []uint{31, 32, 53, 62}[rng.Intn(4)]
		return ((int64(1) << sh) + int64(rng.Intn(3)) - 1) * resSign(rng)
	case 15:
		return resMax - int64(rng.Intn(2000))
	case 16:
		return resMin + int64(rng.Intn(2000))
	case 17:
		// around sqrt(2^63)
		return (3037000499 + int64(rng.Intn(5)) - 2) * resSign(rng)
	case 18, 19:
		return int64(rng.Next())
	default:
		return int64(rng.Next()>>uint(rng.Intn(63))) * resSign(rng)
	}
}
func resSign(rng *Rng) int64 {
	if rng.Bool() {
		return -1
	}
	return 1
}
func resGenSmall(rng *Rng) int64 {
	switch rng.Intn(6) {
	case 0:
		return 0
	case 1:
		return -int64(rng.Intn(20))
	default:
		return int64(rng.Intn(20))
	}
}

// a vector: nil, empty, or 1..4 keys of the pool
func resGenVec(rng *Rng, small bool) *ResVec {
	switch x := rng.Intn(100); {
	case x < 8:
		return nil
	case x < 16:
		return &ResVec{}
	}
	v := ResVec{}
	n := 1 + rng.Intn(4)
	for i := 0; i < n; i++ {
		k := resKeyPool[rng.Intn(len(resKeyPool))]
		if small {
			v[k] = resGenSmall(rng)
		} else {
			v[k] = resGenVal(rng)
		}
	}
	return &v
}

// second operand correlated with the first
func resGenRelated(rng *Rng, a *ResVec, small bool) *ResVec {
	if a == nil || len(*a) == 0 || rng.Chance(35) {
		return resGenVec(rng, small)
	}
	v := ResVec{}
	for _, k := range sortedKeys(*a) {
		x := (*a)[k]
		if rng.Chance(15) {
			continue // drop the key
		}
		switch rng.Intn(10) {
		case 0, 1, 2:
			v[k] = x
		case 3:
			v[k] = x + 1 // wraps for MAX: fine, still an int64
		case 4:
			v[k] = x - 1
		case 5:
			v[k] = -x
		case 6:
			v[k] = resMax - x // sum exactly MaxInt64 (wraps for negative x: fine)
		case 7:
			v[k] = resMin - x
		case 8:
			v[k] = 0
		default:
			if small {
				v[k] = resGenSmall(rng)
			} else {
				v[k] = resGenVal(rng)
			}
		}
	}
	if rng.Chance(30) {
		k := resKeyPool[rng.Intn(len(resKeyPool))]
		if _, ok := v[k]; !ok {
			if small {
				v[k] = resGenSmall(rng)
			} else {
				v[k] = resGenVal(rng)
			}
		}
	}
	return &v
}

func resGenRatio(rng *Rng, v int64) float64 {
	switch rng.Intn(24) {
	case 0:
		return 0
	case 1:
		return math.Copysign(0, -1)
	case 2:
		return 1
	case 3:
		return -1
	case 4:
		return 0.5
	case 5:
		return 1.0 / 3.0
	case 6:
		return 0.1
	case 7:
		return 1.5
	case 8:
		return 2
	case 9:
		return -2
	case 10:
		return 1e300
	case 11:
		return -math.MaxFloat64
	case 12:
		return 5e-324
	case 13:
		return 1e-300
	case 14:
		return 1 + math.Pow(2, -52)
	case 15:
		return 1 - math.Pow(2, -53)
	case 16, 17:
		// product next to +-2^63
		if v != 0 {
			r := math.Pow(2, 63) / float64(v)
			switch rng.Intn(3) {
			case 0:
				return math.Nextafter(r, 0)
			case 1:
				return math.Nextafter(r, r*2)
			}
			return r
		}
		return 3
	case 18:
		return float64(rng.Intn(100)) / 100
	case 19:
		return float64(rng.Intn(1000)) / 7
	case 20:
		return -float64(rng.Intn(1000)) / 13
	default:
		for {
			f := math.Float64frombits(rng.Next())
			if !math.IsNaN(f) && !math.IsInf(f, 0) {
				return f
			}
		}
	}
}
func resGenRatioSpecial(rng *Rng) float64 {
	switch rng.Intn(3) {
	case 0:
		return math.NaN()
	case 1:
		return math.Inf(1)
	default:
		return math.Inf(-1)
	}
}

// ---- quantity strings ----
var resUnicodeSpaces = []string{"\u0085", "\u00a0", "\u1680", "\u2000", "\u2003", "\u200a", "\u2028", "\u2029", "\u202f", "\u205f", "\u3000"}
var resAsciiSpaces = []string{" ", "\t", "\n", "\v", "\f", "\r"}
var resNotSpaces = []string{"\u200b", "\u180e", "\ufeff", "\u2060", "\u200b", "\x85", "\xa0", "\xc2", "\xe2\x80", "\x80\x80", "\xe3\x80", "\xc0\xa0", "\xe0\x80\xa0", "\xf0\x80\x80\xa0", "\x1c", "\x1f", "\x00", "\xc2\x85\xc2", "\xe2\x80\x80\x80"}
var resSuffixes = []string{"", "", "m", "k", "M", "G", "T", "P", "E", "Ki", "Mi", "Gi", "Ti", "Pi", "Ei"}
var resBadSuffixes = []string{"K", "ki", "mi", "KI", "i", "Ki ", "B", "KiB", "e3", "Zi", "mm", "kk", "Mii", "g", "ii", "E1"}

func resGenSpace(rng *Rng) string {
	var b strings.Builder
	for i := rng.Intn(3); i > 0; i-- {
		switch x := rng.Intn(100); {
		case x < 50:
			b.WriteString(resAsciiSpaces[rng.Intn(len(resAsciiSpaces))])
		case x < 95:
			b.WriteString(resUnicodeSpaces[rng.Intn(len(resUnicodeSpaces))])
		default:
			b.WriteString(resNotSpaces[rng.Intn(len(resNotSpaces))])
		}
	}
	return b.String()
}

func resGenNumber(rng *Rng) string {
	switch rng.Intn(36) {
	case 0:
		return "0"
	case 1:
		return strconv.Itoa(rng.Intn(10))
	case 2, 3:
		return strconv.Itoa(rng.Intn(100000))
	case 4:
		return "9223372036854775807"
	case 5:
		return "9223372036854775808"
	case 6:
		return "18446744073709551616"
	case 7:
		// 19 or 20 digits
		var b strings.Builder
		n := 19 + rng.Intn(2)
		for i := 0; i < n; i++ {
			b.WriteByte(byte('0' + rng.Intn(10)))
		}
		return b.String()
	case 8:
		return "000" + strconv.Itoa(rng.Intn(1000))
	case 9:
		// product next to 2^63 for some suffix: 2^63 / scale +- 1
		scales := []float64{1e3, 1e6, 1e9, 1e12, 1e15, 1e18, 1024, 1 << 20, 1 << 30, 1 << 40, 1 << 50, 1 << 60, 1e3 * 1e3, 1024 * 1e3}
		s := scales[rng.Intn(len(scales))]
		return strconv.FormatUint(uint64(math.Pow(2, 63)/s)+uint64(rng.Intn(3))-1, 10)
	case 10:
		return strconv.FormatUint(rng.Next()>>uint(rng.Intn(64)), 10)
	case 11:
		return strings.Repeat("0", 25) + "7"
	case 12:
		return "9223372036854775" + strconv.Itoa(800+rng.Intn(10))
	default:
		return strconv.Itoa(1 + rng.Intn(9223))
	}
}

func resGenString(rng *Rng) string {
	switch x := rng.Intn(100); {
	case x < 55:
		// valid shape: [space] digits [re-space] suffix [space]
		mid := ""
		if rng.Chance(25) {
			mid = []string{" ", "\t", "  ", "\n", "\f", "\r", " \t "}[rng.Intn(7)]
		}
		return resGenSpace(rng) + resGenNumber(rng) + mid + resSuffixes[rng.Intn(len(resSuffixes))] + resGenSpace(rng)
	case x < 80:
		// near valid
		switch rng.Intn(15) {
		case 0, 12:
			return resGenNumber(rng) + resBadSuffixes[rng.Intn(len(resBadSuffixes))]
		case 13, 14:
			// accepted by the regexp, not in the multiplier table
			return resGenSpace(rng) + strconv.Itoa(rng.Intn(5000)) + []string{"K", "ki", "mi", "m"}[rng.Intn(4)] + resGenSpace(rng)
		case 1:
			return []string{"+", "-", "+-", " -"}[rng.Intn(4)] + resGenNumber(rng) + resSuffixes[rng.Intn(len(resSuffixes))]
		case 2:
			return resGenNumber(rng) + resUnicodeSpaces[rng.Intn(len(resUnicodeSpaces))] + resSuffixes[rng.Intn(len(resSuffixes))]
		case 3:
			return resGenNumber(rng) + "\v" + resSuffixes[rng.Intn(len(resSuffixes))]
		case 4:
			return strconv.Itoa(rng.Intn(100)) + " " + strconv.Itoa(rng.Intn(100)) + resSuffixes[rng.Intn(len(resSuffixes))]
		case 5:
			return ""
		case 6:
			return resGenSpace(rng)
		case 7:
			return resSuffixes[rng.Intn(len(resSuffixes))]
		case 8:
			return resGenNumber(rng) + "." + strconv.Itoa(rng.Intn(10)) + resSuffixes[rng.Intn(len(resSuffixes))]
		case 9:
			return resGenNumber(rng) + resSuffixes[rng.Intn(len(resSuffixes))] + resNotSpaces[rng.Intn(len(resNotSpaces))]
		case 10:
			return resNotSpaces[rng.Intn(len(resNotSpaces))] + resGenNumber(rng) + resSuffixes[rng.Intn(len(resSuffixes))]
		default:
			return "\uff11\uff10" + resSuffixes[rng.Intn(len(resSuffixes))] // full-width digits
		}
	case x < 92:
		// random mix of the relevant alphabet
		alpha := []string{"0", "1", "9", "m", "k", "K", "M", "G", "T", "P", "E", "i", " ", "\t", "\v", "\u00a0", "\u2003", "\xe2", "\x80", "-", "+"}
		var b strings.Builder
		for i := rng.Intn(8); i > 0; i-- {
			b.WriteString(alpha[rng.Intn(len(alpha))])
		}
		return b.String()
	default:
		// raw bytes
		n := rng.Intn(8)
		b := make([]byte, n)
		for i := range b {
			b[i] = byte(rng.Next())
		}
		return string(b)
	}
}

func resStrBytes(s string) []int {
	out := make([]int, len(s))
	for i := 0; i < len(s); i++ {
		out[i] = int(s[i])
	}
	return out
}

func resGenShares(rng *Rng, special bool) []string {
	n := rng.Intn(5)
	out := make([]string, n)
	for i := range out {
		var f float64
		switch rng.Intn(8) {
		case 0:
			f = 0
		case 1:
			f = math.Copysign(0, -1)
		case 2:
			f = 1
		case 3:
			f = -float64(rng.Intn(5))
		case 4, 5:
			f = float64(rng.Intn(5)) / 4
		default:
			f = resGenRatio(rng, 3)
		}
		if special && rng.Chance(25) {
			f = resGenRatioSpecial(rng)
		}
		out[i] = resFloatBits(f)
	}
	return out
}

func resGenerate(rng *Rng, n int, tier string) []ResCase {
	names := resFnNames()
	cases := make([]ResCase, 0, n)
	for len(cases) < n {
		fn := names[rng.Intn(len(names))]
		// the calculators and parse carry most of the property: weight them up
		if x := rng.Intn(100); x < 30 {
			fn = []string{"addVal", "subVal", "mulVal", "mulValRatio", "parse", "parse", "parse"}[rng.Intn(7)]
		}
		r := rng.Fork()
		c := ResCase{Fn: fn}
		small := r.Chance(45)
		switch resFns[fn].sig {
		case "vals":
			a := resGenVal(r)
			var b int64
			switch r.Intn(8) {
			case 0:
				b = resMax - a
			case 1:
				b = resMin - a
			case 2:
				b = -a
			case 3:
				b = a
			case 4:
				if a != 0 && fn == "mulVal" {
					b = resMax/a + int64(r.Intn(3)) - 1
				} else {
					b = a + int64(r.Intn(3)) - 1
				}
			default:
				b = resGenVal(r)
			}
			c.Z = []int64{a, b}
		case "valratio":
			a := resGenVal(r)
			f := resGenRatio(r, a)
			if r.Chance(8) {
				f = resGenRatioSpecial(r)
			}
			c.Z, c.F = []int64{a}, []string{resFloatBits(f)}
		case "parse":
			c.S = resStrBytes(resGenString(r))
			c.Milli = r.Bool()
		case "2":
			a := resGenVec(r, small)
			c.R = []*ResVec{a, resGenRelated(r, a, small)}
			if r.Chance(8) {
				c.Alias = true
				c.R[1] = c.R[0]
			}
		case "1":
			c.R = []*ResVec{resGenVec(r, small)}
		case "mul":
			c.R = []*ResVec{resGenVec(r, small)}
			if r.Chance(50) {
				c.Z = []int64{resGenSmall(r)}
			} else {
				c.Z = []int64{resGenVal(r)}
			}
		case "mulby", "multo":
			v := resGenVec(r, small)
			c.R = []*ResVec{v}
			var first int64 = 3
			if v != nil {
				for _, k := range sortedKeys(*v) {
					first = (*v)[k]
					break
				}
			}
			f := resGenRatio(r, first)
			if r.Chance(8) {
				f = resGenRatioSpecial(r)
			}
			c.F = []string{resFloatBits(f)}
		case "3":
			a := resGenVec(r, small)
			c.R = []*ResVec{a, resGenRelated(r, a, small), resGenRelated(r, a, small)}
		case "6":
			a := resGenVec(r, small)
			b := resGenRelated(r, a, small)
			c.R = []*ResVec{a, resGenRelated(r, a, small), resGenRelated(r, a, small), b, resGenRelated(r, b, small), resGenRelated(r, a, small)}
		case "cmpshares":
			special := r.Chance(10)
			c.FL, c.FR = resGenShares(r, special), resGenShares(r, special)
			if r.Chance(30) && len(c.FL) > 0 {
				// common tail: the comparison has to walk down
				c.FR = append(resGenShares(r, false), c.FL[len(c.FL)-1])
			}
		}
		cases = append(cases, c)
	}
	return cases
}

// Exhaustive UTF-8 sweep for the trimming model (thorough tier, shard 0): every 2-byte sequence with
// a lead byte >= 0xC0, every lone byte >= 0x80, and the 3-byte sequences around the White_Space
// code points, placed before and after "1k".
func resExhaustiveTrim() []ResCase {
	var out []ResCase
	add := func(b []byte) {
		pre := append(append([]byte{}, b...), '1', 'k')
		post := append([]byte{'1', 'k'}, b...)
		both := append(append(append([]byte{}, b...), '1', 'k'), b...)
		for _, s := range [][]byte{pre, post, both} {
			out = append(out, ResCase{Fn: "parse", S: resStrBytes(string(s))})
		}
	}
	for b0 := 0x80; b0 <= 0xFF; b0++ {
		add([]byte{byte(b0)})
	}
	for b0 := 0xC0; b0 <= 0xFF; b0++ {
		for b1 := 0x80; b1 <= 0xBF; b1++ {
			add([]byte{byte(b0), byte(b1)})
		}
	}
	for _, b0 := range []byte{0xE0, 0xE1, 0xE2, 0xE3, 0xED, 0xEF} {
		for _, b1 := range []byte{0x80, 0x81, 0x9A, 0xA0, 0xBF} {
			for b2 := 0x7F; b2 <= 0xC0; b2++ {
				add([]byte{b0, b1, byte(b2)})
			}
		}
	}
	for _, b0 := range []byte{0xF0, 0xF4} {
		for _, b1 := range []byte{0x80, 0x8F, 0x90, 0xBF} {
			add([]byte{b0, b1, 0x80, 0x80})
		}
	}
	return out
}
