package main

import (
	"fmt"
	"go/ast"
	"go/constant"
	"go/token"
	"go/types"
	"math"
	"math/big"
	"regexp"
	"strings"
)

// ---------------------------------------------------------------------------- function context

type gtVar struct {
	obj    *types.Var
	name   string
	t      *gtT
	nonNil bool // a pointer variable represented by the record itself (receiver never compared with nil)
	param  bool
	fresh  bool // local pointer only ever assigned from fresh constructors / composite literals / nil
}

type gtFn struct {
	tr      *gotrans
	pc      *gtPkgCtx
	spec    gotransFn
	goName  string
	coqName string
	decl    *ast.FuncDecl
	lit     *ast.FuncLit
	obj     types.Object
	varObj  *types.Var // a package level variable (whitelist entry "var X")
	ftype   *ast.FuncType
	body    []ast.Stmt
	prefix  string // canonical text of the skipped prefix (Crit)
	hasPre  bool
	frag    bool
	fragOut []*types.Var // variables a fragment hands back (besides out parameters)
	skipped string       // canonical text of the top level statements left out (Skip)
	info    *types.Info
	srcFile string
	srcLine int

	// signature
	params  []*gtVar
	recv    *gtVar
	results *gtT
	outs    []*gtVar
	monadic bool
	fresh   bool // every returned pointer is nil or newly allocated
	done    bool
	err     string
	text    string
	deps    map[*gtFn]bool

	// state of one translation attempt
	vars      map[*types.Var]*gtVar
	names     map[string]bool
	tmpN      int
	monOps    int
	freshVars map[*types.Var]bool
	derefs    map[*types.Var]string // pointer variables already dereferenced in the current scope
	building  bool
}

type gtBind struct {
	pat string
	rhs string
	mon bool
}

type gtVal struct {
	pre []gtBind
	s   string
	t   *gtT
}

var gtTmpRe = regexp.MustCompile(`^tmp[0-9]+$`)

func (f *gtFn) freshName(base string) string {
	base = gtSanitize(base)
	if gtTmpRe.MatchString(base) || f.tr.globals[base] {
		base += "_"
	}
	n := base
	for i := 1; f.names[n]; i++ {
		n = fmt.Sprintf("%s_%d", base, i)
	}
	f.names[n] = true
	return n
}

func (f *gtFn) tmp() string {
	for {
		f.tmpN++
		n := fmt.Sprintf("tmp%d", f.tmpN)
		if !f.names[n] {
			f.names[n] = true
			return n
		}
	}
}

func (f *gtFn) declare(v *types.Var) *gtVar {
	if gv, ok := f.vars[v]; ok {
		return gv
	}
	gv := &gtVar{obj: v, t: f.tr.typeOf(v.Type()), fresh: f.freshVars[v]}
	if v.Name() == "_" {
		gv.name = "_"
	} else {
		gv.name = f.freshName(v.Name())
	}
	f.vars[v] = gv
	return gv
}

func (f *gtFn) lookup(v *types.Var) *gtVar {
	if gv, ok := f.vars[v]; ok {
		return gv
	}
	gtFail("variable %s is not a parameter or local of the translated function", v.Name())
	return nil
}

func (f *gtFn) pos(n ast.Node) string {
	p := f.tr.l.fset.Position(n.Pos())
	return fmt.Sprintf("line %d", p.Line)
}

// bind turns a monadic term into a temporary
func (f *gtFn) mon(pre []gtBind, rhs string) ([]gtBind, string) {
	f.monOps++
	t := f.tmp()
	return append(pre, gtBind{pat: t, rhs: rhs, mon: true}), t
}

// ---------------------------------------------------------------------------- constants

func gtIntLit(v constant.Value, t *gtT) string {
	iv := constant.ToInt(v)
	if iv.Kind() != constant.Int {
		gtFail("constant %s is not an integer", v.ExactString())
	}
	s := iv.ExactString()
	if t.k == gkU64 {
		if strings.HasPrefix(s, "-") {
			gtFail("negative constant of unsigned type")
		}
		return s + "%N"
	}
	if strings.HasPrefix(s, "-") {
		return "(" + s + ")"
	}
	return s
}

// float constant: the binary64 nearest to the exact constant value (what the Go compiler does)
func gtFloatLit(v constant.Value) string {
	fv := constant.ToFloat(v)
	if fv.Kind() != constant.Float && fv.Kind() != constant.Int {
		gtFail("constant %s is not a number", v.ExactString())
	}
	if iv := constant.ToInt(v); iv.Kind() == constant.Int {
		// f_of_Z rounds to nearest even exactly like the compiler's conversion of an integer constant
		s := iv.ExactString()
		if s == "0" {
			return "f_zero"
		}
		if strings.HasPrefix(s, "-") {
			s = "(" + s + ")"
		}
		return "(f_of_Z " + s + ")"
	}
	x, _ := constant.Float64Val(fv)
	if math.IsInf(x, 0) || math.IsNaN(x) {
		gtFail("float constant out of range")
	}
	if x == 0 {
		// a non-zero constant that underflows to zero
		return "f_zero"
	}
	// exact decomposition x = m * 2^e with integer m
	fr, ex := math.Frexp(x)
	m := new(big.Float).SetFloat64(fr)
	m.SetMantExp(m, 53)
	mi, acc := m.Int(nil)
	if acc != big.Exact {
		gtFail("internal: float decomposition inexact")
	}
	e := ex - 53
	neg := mi.Sign() < 0
	mi.Abs(mi)
	sb := "false"
	if neg {
		sb = "true"
	}
	es := fmt.Sprintf("%d", e)
	if e < 0 {
		es = "(" + es + ")"
	}
	return fmt.Sprintf("(f_make 0 %s %s %s)", sb, mi.String(), es)
}

func (f *gtFn) constVal(tv types.TypeAndValue, want *gtT) (gtVal, bool) {
	if tv.Value == nil {
		return gtVal{}, false
	}
	t := want
	if b, ok := tv.Type.Underlying().(*types.Basic); !ok || b.Info()&types.IsUntyped == 0 || want == nil {
		t = f.tr.typeOf(tv.Type)
	}
	switch t.k {
	case gkI64, gkI32, gkU64:
		return gtVal{s: gtIntLit(tv.Value, t), t: t}, true
	case gkBool:
		if constant.BoolVal(tv.Value) {
			return gtVal{s: "true", t: gtBool}, true
		}
		return gtVal{s: "false", t: gtBool}, true
	case gkF64:
		return gtVal{s: gtFloatLit(tv.Value), t: gtF64}, true
	case gkStr:
		gtFail("string constant %s: strings are only supported as opaque identifiers", tv.Value.ExactString())
	}
	gtFail("constant of a type outside the subset")
	return gtVal{}, false
}

// ---------------------------------------------------------------------------- expressions

func (f *gtFn) typeOfExpr(e ast.Expr) *gtT {
	tv, ok := f.info.Types[e]
	if !ok {
		gtFail("%s: expression without type information", f.pos(e))
	}
	return f.tr.typeOf(tv.Type)
}

func gtIsNilIdent(info *types.Info, e ast.Expr) bool {
	for {
		p, ok := e.(*ast.ParenExpr)
		if !ok {
			break
		}
		e = p.X
	}
	id, ok := e.(*ast.Ident)
	if !ok {
		return false
	}
	_, isNil := info.Uses[id].(*types.Nil)
	return isNil
}

// exprAs translates e; want is used for nil and untyped constants.
func (f *gtFn) exprAs(e ast.Expr, want *gtT) gtVal {
	if gtIsNilIdent(f.info, e) {
		if want == nil {
			gtFail("%s: nil without a known type", f.pos(e))
		}
		switch want.k {
		case gkPtr, gkMap, gkSlice, gkErr:
			return gtVal{s: f.tr.zero(want), t: want}
		}
		gtFail("%s: nil of a type outside the subset", f.pos(e))
	}
	tv, ok := f.info.Types[e]
	if ok && tv.Value != nil {
		v, _ := f.constVal(tv, want)
		return v
	}
	v := f.expr(e)
	if want != nil && !gtSameT(v.t, want) {
		gtFail("%s: internal: expression has type %s, expected %s", f.pos(e), f.tr.coqType(v.t), f.tr.coqType(want))
	}
	return v
}

func (f *gtFn) expr(e ast.Expr) gtVal {
	if tv, ok := f.info.Types[e]; ok && tv.Value != nil {
		v, _ := f.constVal(tv, nil)
		return v
	}
	switch x := e.(type) {
	case *ast.ParenExpr:
		return f.expr(x.X)
	case *ast.Ident:
		return f.ident(x)
	case *ast.UnaryExpr:
		return f.unary(x)
	case *ast.BinaryExpr:
		return f.binary(x)
	case *ast.CallExpr:
		return f.call(x, false)
	case *ast.SelectorExpr:
		return f.selector(x)
	case *ast.IndexExpr:
		return f.index(x)
	case *ast.SliceExpr:
		return f.sliceExpr(x)
	case *ast.CompositeLit:
		return f.composite(x, false)
	}
	gtFail("%s: expression form %T is outside the subset", f.pos(e), e)
	return gtVal{}
}

func (f *gtFn) ident(x *ast.Ident) gtVal {
	obj := f.info.Uses[x]
	if obj == nil {
		obj = f.info.Defs[x]
	}
	switch o := obj.(type) {
	case *types.Var:
		if o.Pkg() != nil && o.Parent() == o.Pkg().Scope() {
			return f.globalVar(o, x)
		}
		gv := f.lookup(o)
		if gv.nonNil {
			return gtVal{s: "(Some " + gv.name + ")", t: gv.t}
		}
		return gtVal{s: gv.name, t: gv.t}
	case *types.Const:
		gtFail("%s: internal: constant %s without value", f.pos(x), x.Name)
	case *types.Nil:
		gtFail("%s: nil without a known type", f.pos(x))
	}
	gtFail("%s: identifier %s does not denote a variable or constant", f.pos(x), x.Name)
	return gtVal{}
}

// a package level variable read as a constant
func (f *gtFn) globalVar(o *types.Var, at ast.Node) gtVal {
	rel := strings.TrimPrefix(o.Pkg().Path(), f.tr.l.module+"/")
	key := rel + "." + o.Name()
	if vf, ok := f.tr.byObj[o]; ok {
		// a whitelisted package level variable: its initialiser is a generated definition
		if !vf.done {
			f.tr.translate(vf)
		}
		if vf.err != "" {
			gtFail("%s: package level variable %s could not be translated", f.pos(at), key)
		}
		f.deps[vf] = true
		name := f.tr.qual(vf.pc.spec.Module, vf.coqName)
		if vf.monadic {
			pre, s := f.mon(nil, name)
			return gtVal{pre: pre, s: s, t: vf.results}
		}
		return gtVal{s: name, t: vf.results}
	}
	if !gotransConstVars[key] {
		gtFail("%s: package level variable %s is not in the list of variables read as constants", f.pos(at), key)
	}
	init, p := f.tr.varInit(o, key, f.pos(at))
	tv, ok := p.info.Types[init]
	if !ok || tv.Value == nil {
		gtFail("%s: initialiser of %s is not a constant expression", f.pos(at), key)
	}
	t := f.tr.typeOf(o.Type())
	switch t.k {
	case gkI64, gkI32, gkU64:
		return gtVal{s: gtIntLit(tv.Value, t), t: t}
	}
	gtFail("%s: package level variable %s has a type outside the subset", f.pos(at), key)
	return gtVal{}
}

// varInit returns the initialiser of a package level variable after checking that no non-test file
// of its package assigns to it or takes its address
func (tr *gotrans) varInit(o *types.Var, key, pos string) (ast.Expr, *gtPkg) {
	rel := strings.TrimPrefix(o.Pkg().Path(), tr.l.module+"/")
	p, err := tr.l.load(rel)
	if err != nil {
		gtFail("cannot load %s", rel)
	}
	var init ast.Expr
	assigned := false
	for _, file := range p.files {
		for _, d := range file.Decls {
			gd, ok := d.(*ast.GenDecl)
			if ok && gd.Tok == token.VAR {
				for _, sp := range gd.Specs {
					vs := sp.(*ast.ValueSpec)
					for i, n := range vs.Names {
						if p.info.Defs[n] == o && len(vs.Values) == len(vs.Names) {
							init = vs.Values[i]
						}
					}
				}
			}
		}
		ast.Inspect(file, func(n ast.Node) bool {
			switch s := n.(type) {
			case *ast.AssignStmt:
				for _, l := range s.Lhs {
					if id, ok := l.(*ast.Ident); ok && p.info.Uses[id] == o {
						assigned = true
					}
				}
			case *ast.IncDecStmt:
				if id, ok := s.X.(*ast.Ident); ok && p.info.Uses[id] == o {
					assigned = true
				}
			case *ast.UnaryExpr:
				if id, ok := s.X.(*ast.Ident); ok && s.Op == token.AND && p.info.Uses[id] == o {
					assigned = true
				}
			}
			return true
		})
	}
	if assigned {
		gtFail("%s: package level variable %s is assigned (or its address taken) in its package: cannot be read as a constant", pos, key)
	}
	if init == nil {
		gtFail("%s: package level variable %s has no initialiser", pos, key)
	}
	return init, p
}

func (f *gtFn) unary(x *ast.UnaryExpr) gtVal {
	switch x.Op {
	case token.NOT:
		v := f.expr(x.X)
		if v.t.k != gkBool {
			gtFail("%s: ! on a non-boolean", f.pos(x))
		}
		return gtVal{pre: v.pre, s: "negb " + gtPar(v.s), t: gtBool}
	case token.SUB:
		v := f.expr(x.X)
		switch v.t.k {
		case gkI64:
			return gtVal{pre: v.pre, s: "wrap64 (- " + gtPar(v.s) + ")", t: v.t}
		case gkI32:
			return gtVal{pre: v.pre, s: "wrap32 (- " + gtPar(v.s) + ")", t: v.t}
		case gkU64:
			return gtVal{pre: v.pre, s: "u64_sub 0%N " + gtPar(v.s), t: v.t}
		}
		gtFail("%s: unary minus on this type is outside the subset", f.pos(x))
	case token.ADD:
		v := f.expr(x.X)
		if v.t.isInt() {
			return v
		}
	case token.AND:
		if cl, ok := x.X.(*ast.CompositeLit); ok {
			return f.composite(cl, true)
		}
		gtFail("%s: address-of is only supported on composite literals", f.pos(x))
	}
	gtFail("%s: unary operator %s is outside the subset", f.pos(x), x.Op)
	return gtVal{}
}

func gtCmp(op token.Token, a, b string, t *gtT) string {
	a, b = gtPar(a), gtPar(b)
	switch {
	case t.isZ():
		switch op {
		case token.LSS:
			return a + " <? " + b
		case token.GTR:
			return b + " <? " + a
		case token.LEQ:
			return a + " <=? " + b
		case token.GEQ:
			return b + " <=? " + a
		case token.EQL:
			return a + " =? " + b
		case token.NEQ:
			return "negb (" + a + " =? " + b + ")"
		}
	case t.isN():
		if t.k != gkU64 && op != token.EQL && op != token.NEQ {
			gtFail("ordering comparison on an opaque identifier")
		}
		switch op {
		case token.LSS:
			return "N.ltb " + a + " " + b
		case token.GTR:
			return "N.ltb " + b + " " + a
		case token.LEQ:
			return "N.leb " + a + " " + b
		case token.GEQ:
			return "N.leb " + b + " " + a
		case token.EQL:
			return "N.eqb " + a + " " + b
		case token.NEQ:
			return "negb (N.eqb " + a + " " + b + ")"
		}
	case t.k == gkBool:
		switch op {
		case token.EQL:
			return "Bool.eqb " + a + " " + b
		case token.NEQ:
			return "negb (Bool.eqb " + a + " " + b + ")"
		}
	case t.k == gkF64:
		switch op {
		case token.LSS:
			return "f_ltb " + a + " " + b
		case token.GTR:
			return "f_gtb " + a + " " + b
		case token.LEQ:
			return "f_leb " + a + " " + b
		case token.GEQ:
			return "f_geb " + a + " " + b
		case token.EQL:
			return "f_eqb " + a + " " + b
		case token.NEQ:
			return "negb (f_eqb " + a + " " + b + ")"
		}
	}
	gtFail("comparison %s on this type is outside the subset", op)
	return ""
}

// arithmetic on two operands of the same kind; may add a monadic binding (division)
func (f *gtFn) arith(op token.Token, a, b gtVal, at ast.Node) gtVal {
	pre := append(append([]gtBind{}, a.pre...), b.pre...)
	t := a.t
	as, bs := gtPar(a.s), gtPar(b.s)
	wrap := ""
	switch t.k {
	case gkI64:
		wrap = "wrap64"
	case gkI32:
		wrap = "wrap32"
	}
	switch t.k {
	case gkI64, gkI32:
		p := "i64"
		if t.k == gkI32 {
			p = "i32"
		}
		switch op {
		case token.ADD:
			return gtVal{pre: pre, s: wrap + " (" + as + " + " + bs + ")", t: t}
		case token.SUB:
			return gtVal{pre: pre, s: wrap + " (" + as + " - " + bs + ")", t: t}
		case token.MUL:
			return gtVal{pre: pre, s: wrap + " (" + as + " * " + bs + ")", t: t}
		case token.QUO:
			pre, s := f.mon(pre, p+"_quot "+as+" "+bs)
			return gtVal{pre: pre, s: s, t: t}
		case token.REM:
			pre, s := f.mon(pre, p+"_rem "+as+" "+bs)
			return gtVal{pre: pre, s: s, t: t}
		}
	case gkU64:
		switch op {
		case token.ADD:
			return gtVal{pre: pre, s: "u64_add " + as + " " + bs, t: t}
		case token.SUB:
			return gtVal{pre: pre, s: "u64_sub " + as + " " + bs, t: t}
		case token.MUL:
			return gtVal{pre: pre, s: "u64_mul " + as + " " + bs, t: t}
		case token.QUO:
			pre, s := f.mon(pre, "u64_quot "+as+" "+bs)
			return gtVal{pre: pre, s: s, t: t}
		case token.REM:
			pre, s := f.mon(pre, "u64_rem "+as+" "+bs)
			return gtVal{pre: pre, s: s, t: t}
		}
	case gkF64:
		switch op {
		case token.ADD:
			return gtVal{pre: pre, s: "f_add " + as + " " + bs, t: t}
		case token.SUB:
			return gtVal{pre: pre, s: "f_sub " + as + " " + bs, t: t}
		case token.MUL:
			return gtVal{pre: pre, s: "f_mul " + as + " " + bs, t: t}
		case token.QUO:
			return gtVal{pre: pre, s: "f_div " + as + " " + bs, t: t}
		}
	}
	gtFail("%s: operator %s on this type is outside the subset", f.pos(at), op)
	return gtVal{}
}

// term that evaluates the bindings and then yields GOk s
func gtMonTerm(v gtVal) string {
	return gtBinds(v.pre, "GOk "+gtPar(v.s))
}

func gtBinds(pre []gtBind, body string) string {
	var b strings.Builder
	for _, p := range pre {
		if p.mon {
			b.WriteString(gtPatBind(p.pat) + " <- " + p.rhs + " ;;\n")
		} else {
			b.WriteString("let " + gtPatLet(p.pat) + " := " + p.rhs + " in\n")
		}
	}
	b.WriteString(body)
	return b.String()
}

func gtPatLet(p string) string {
	if strings.HasPrefix(p, "(") {
		return "'" + p
	}
	return p
}
func gtPatBind(p string) string {
	if strings.HasPrefix(p, "(") {
		return "'" + p
	}
	return p
}

func gtHasMon(pre []gtBind) bool {
	for _, p := range pre {
		if p.mon {
			return true
		}
	}
	return false
}

func (f *gtFn) binary(x *ast.BinaryExpr) gtVal {
	switch x.Op {
	case token.LAND, token.LOR:
		a := f.expr(x.X)
		var b gtVal
		f.scoped(func() string { b = f.expr(x.Y); return "" })
		if a.t.k != gkBool || b.t.k != gkBool {
			gtFail("%s: && / || on non-booleans", f.pos(x))
		}
		if len(b.pre) == 0 {
			op := " && "
			if x.Op == token.LOR {
				op = " || "
			}
			return gtVal{pre: a.pre, s: gtPar(a.s) + op + gtPar(b.s), t: gtBool}
		}
		// the right operand has bindings (it may panic): evaluate it only when Go does
		var rhs string
		if gtHasMon(b.pre) {
			if x.Op == token.LAND {
				rhs = "if " + a.s + " then (\n" + gtIndent(gtMonTerm(b), 1) + ") else GOk false"
			} else {
				rhs = "if " + a.s + " then GOk true else (\n" + gtIndent(gtMonTerm(b), 1) + ")"
			}
			pre, s := f.mon(a.pre, "("+rhs+")")
			return gtVal{pre: pre, s: s, t: gtBool}
		}
		body := gtBinds(b.pre, b.s)
		if x.Op == token.LAND {
			rhs = "if " + a.s + " then (\n" + gtIndent(body, 1) + ") else false"
		} else {
			rhs = "if " + a.s + " then true else (\n" + gtIndent(body, 1) + ")"
		}
		t := f.tmp()
		return gtVal{pre: append(a.pre, gtBind{pat: t, rhs: rhs}), s: t, t: gtBool}
	case token.EQL, token.NEQ, token.LSS, token.GTR, token.LEQ, token.GEQ:
		// comparison with nil
		ln, rn := gtIsNilIdent(f.info, x.X), gtIsNilIdent(f.info, x.Y)
		if ln || rn {
			if ln && rn {
				gtFail("%s: nil compared with nil", f.pos(x))
			}
			other := x.X
			if ln {
				other = x.Y
			}
			if x.Op != token.EQL && x.Op != token.NEQ {
				gtFail("%s: ordering comparison with nil", f.pos(x))
			}
			v := f.expr(other)
			var s string
			switch v.t.k {
			case gkErr:
				s = "negb " + gtPar(v.s)
			case gkPtr:
				s = "is_nil " + gtPar(v.s)
			case gkMap, gkSlice:
				gtFail("%s: comparing a map or slice with nil (nil and empty are not distinguished) is outside the subset", f.pos(x))
			default:
				gtFail("%s: comparison of this type with nil is outside the subset", f.pos(x))
			}
			if x.Op == token.NEQ {
				s = "negb (" + s + ")"
			}
			return gtVal{pre: v.pre, s: s, t: gtBool}
		}
		a, b := f.operands(x.X, x.Y)
		switch a.t.k {
		case gkPtr, gkRec, gkMap, gkSlice, gkTuple:
			gtFail("%s: comparison of pointers/structs/maps is outside the subset", f.pos(x))
		case gkTime:
			gtFail("%s: time.Time compared with %s (use Before/After/Equal)", f.pos(x), x.Op)
		}
		pre := append(append([]gtBind{}, a.pre...), b.pre...)
		return gtVal{pre: pre, s: gtCmp(x.Op, a.s, b.s, a.t), t: gtBool}
	case token.ADD, token.SUB, token.MUL, token.QUO, token.REM:
		a, b := f.operands(x.X, x.Y)
		return f.arith(x.Op, a, b, x)
	}
	gtFail("%s: binary operator %s is outside the subset", f.pos(x), x.Op)
	return gtVal{}
}

// operands of a binary operator: an untyped constant operand takes the type of the other one
func (f *gtFn) operands(x, y ast.Expr) (gtVal, gtVal) {
	tx, ty := f.info.Types[x], f.info.Types[y]
	var a, b gtVal
	switch {
	case tx.Value != nil && ty.Value == nil:
		b = f.expr(y)
		a = f.exprAs(x, b.t)
	case ty.Value != nil && tx.Value == nil:
		a = f.expr(x)
		b = f.exprAs(y, a.t)
	default:
		a = f.expr(x)
		b = f.expr(y)
	}
	if !gtSameT(a.t, b.t) {
		gtFail("%s: operands of different types", f.pos(x))
	}
	return a, b
}

// ---------------------------------------------------------------------------- selectors, pointers

// derefRec returns the record behind a pointer valued expression (checked: nil panics)
func (f *gtFn) derefRec(e ast.Expr) ([]gtBind, string, *gtRec) {
	// a non-nil receiver variable is the record itself
	if id, ok := gtUnparen(e).(*ast.Ident); ok {
		if v, ok := f.info.Uses[id].(*types.Var); ok {
			if gv, ok := f.vars[v]; ok && gv.nonNil {
				return nil, gv.name, gv.t.elem.rec
			}
		}
	}
	var pv *types.Var
	if id, ok := gtUnparen(e).(*ast.Ident); ok {
		if v, ok := f.info.Uses[id].(*types.Var); ok {
			if gv, ok := f.vars[v]; ok && gv.t.k == gkPtr && gv.t.elem.k == gkRec {
				pv = v
				if s, ok := f.derefs[v]; ok {
					// the pointer was dereferenced earlier in this scope and not assigned since
					return nil, s, gv.t.elem.rec
				}
			}
		}
	}
	v := f.expr(e)
	switch v.t.k {
	case gkRec:
		return v.pre, v.s, v.t.rec
	case gkPtr:
		if v.t.elem.k != gkRec {
			gtFail("%s: dereference of an opaque pointer", f.pos(e))
		}
		pre, s := f.mon(v.pre, "deref "+gtPar(v.s))
		if pv != nil {
			f.derefs[pv] = s
		}
		return pre, s, v.t.elem.rec
	}
	gtFail("%s: field access on a value that is not a struct", f.pos(e))
	return nil, "", nil
}

func gtUnparen(e ast.Expr) ast.Expr {
	for {
		p, ok := e.(*ast.ParenExpr)
		if !ok {
			return e
		}
		e = p.X
	}
}

func (f *gtFn) selector(x *ast.SelectorExpr) gtVal {
	if sel, ok := f.info.Selections[x]; ok {
		if sel.Kind() != types.FieldVal {
			gtFail("%s: method value %s is outside the subset", f.pos(x), x.Sel.Name)
		}
		if len(sel.Index()) != 1 {
			gtFail("%s: promoted field %s is outside the subset", f.pos(x), x.Sel.Name)
		}
		pre, rs, rec := f.derefRec(x.X)
		idx, ft := f.tr.useField(rec, sel.Obj().(*types.Var))
		return gtVal{pre: pre, s: f.tr.qual(rec.module, rec.fieldName(idx)) + " " + gtPar(rs), t: ft}
	}
	// qualified identifier pkg.Name
	if id, ok := x.X.(*ast.Ident); ok {
		if _, ok := f.info.Uses[id].(*types.PkgName); ok {
			switch o := f.info.Uses[x.Sel].(type) {
			case *types.Var:
				return f.globalVar(o, x)
			case *types.Const:
				gtFail("%s: internal: constant without value", f.pos(x))
			}
		}
	}
	gtFail("%s: selector %s cannot be resolved (outside the repository or outside the subset)", f.pos(x), x.Sel.Name)
	return gtVal{}
}

func (f *gtFn) index(x *ast.IndexExpr) gtVal {
	c := f.expr(x.X)
	switch c.t.k {
	case gkMap:
		k := f.exprAs(x.Index, gtStr)
		pre := append(append([]gtBind{}, c.pre...), k.pre...)
		return gtVal{pre: pre, s: "mget0 " + gtPar(f.tr.zero(c.t.elem)) + " " + gtPar(c.s) + " " + gtPar(k.s), t: c.t.elem}
	case gkSlice:
		i := f.expr(x.Index)
		pre := append(append([]gtBind{}, c.pre...), i.pre...)
		idx := f.sliceIdx(i, x.Index)
		pre, s := f.mon(pre, "slice_get "+gtPar(c.s)+" "+idx)
		return gtVal{pre: pre, s: s, t: c.t.elem}
	}
	gtFail("%s: index expression on this type is outside the subset", f.pos(x))
	return gtVal{}
}

// a slice index / length as an unbounded integer (Z): int is used as it is, uint64 is injected
func (f *gtFn) sliceIdx(i gtVal, at ast.Node) string {
	switch i.t.k {
	case gkI64, gkI32:
		return gtPar(i.s)
	case gkU64:
		return "(Z.of_N " + gtPar(i.s) + ")"
	}
	gtFail("%s: index of a non-integer type", f.pos(at))
	return ""
}

func (f *gtFn) sliceExpr(x *ast.SliceExpr) gtVal {
	if x.Slice3 {
		gtFail("%s: 3-index slices are outside the subset", f.pos(x))
	}
	c := f.expr(x.X)
	if c.t.k != gkSlice {
		gtFail("%s: slice expression on a non-slice", f.pos(x))
	}
	pre := append([]gtBind{}, c.pre...)
	lo, hi := "0", "(Z.of_nat (List.length "+gtPar(c.s)+"))"
	if x.Low != nil {
		v := f.expr(x.Low)
		pre = append(pre, v.pre...)
		lo = f.sliceIdx(v, x.Low)
	}
	if x.High != nil {
		v := f.expr(x.High)
		pre = append(pre, v.pre...)
		hi = f.sliceIdx(v, x.High)
	}
	// NOTE: the capacity of the slice is taken to be its length (s[a:b] with b > len(s) panics)
	pre, s := f.mon(pre, "slice_sub "+gtPar(c.s)+" "+lo+" "+hi)
	return gtVal{pre: pre, s: s, t: c.t}
}

func (f *gtFn) composite(x *ast.CompositeLit, addr bool) gtVal {
	t := f.typeOfExpr(x)
	if t.k != gkRec {
		gtFail("%s: composite literal of a non-struct type is outside the subset", f.pos(x))
	}
	rec := t.rec
	vals := map[int]gtVal{}
	var pre []gtBind
	for i, el := range x.Elts {
		kv, ok := el.(*ast.KeyValueExpr)
		var fv *types.Var
		var ve ast.Expr
		if ok {
			id, ok := kv.Key.(*ast.Ident)
			if !ok {
				gtFail("%s: composite literal key", f.pos(x))
			}
			fv, _ = f.info.Uses[id].(*types.Var)
			ve = kv.Value
		} else {
			fv = rec.st.Field(i)
			ve = el
		}
		if fv == nil {
			gtFail("%s: composite literal field", f.pos(x))
		}
		// fields of types outside the subset are not part of the record
		var ft *gtT
		func() {
			defer func() {
				if r := recover(); r != nil {
					if _, ok := r.(gtErr); !ok {
						panic(r)
					}
				}
			}()
			ft = f.tr.fieldType(rec, fv)
		}()
		if ft == nil {
			continue
		}
		idx, _ := f.tr.useField(rec, fv)
		v := f.exprAs(ve, ft)
		pre = append(pre, v.pre...)
		vals[idx] = v
	}
	args := []string{}
	for _, i := range rec.usedIdx() {
		if v, ok := vals[i]; ok {
			args = append(args, gtPar(v.s))
		} else {
			var z string
			ft := f.tr.fieldType(rec, rec.st.Field(i))
			z = f.tr.zero(ft)
			args = append(args, gtPar(z))
		}
	}
	s := f.tr.qual(rec.module, rec.mkName())
	if len(args) > 0 {
		s += " " + strings.Join(args, " ")
	}
	if addr {
		return gtVal{pre: pre, s: "Some (" + s + ")", t: &gtT{k: gkPtr, elem: t}}
	}
	return gtVal{pre: pre, s: s, t: t}
}

// ---------------------------------------------------------------------------- calls

func (f *gtFn) conversion(x *ast.CallExpr, to *gtT) gtVal {
	if len(x.Args) != 1 {
		gtFail("%s: conversion with %d arguments", f.pos(x), len(x.Args))
	}
	v := f.expr(x.Args[0])
	from := v.t
	s := gtPar(v.s)
	switch to.k {
	case gkI64:
		switch from.k {
		case gkI64, gkI32:
			return gtVal{pre: v.pre, s: v.s, t: to}
		case gkU64:
			return gtVal{pre: v.pre, s: "u64_to_i64 " + s, t: to}
		case gkF64:
			return gtVal{pre: v.pre, s: "f_to_int64 " + s, t: to}
		}
	case gkI32:
		switch from.k {
		case gkI32:
			return gtVal{pre: v.pre, s: v.s, t: to}
		case gkI64:
			return gtVal{pre: v.pre, s: "wrap32 " + s, t: to}
		}
	case gkU64:
		switch from.k {
		case gkU64:
			return gtVal{pre: v.pre, s: v.s, t: to}
		case gkI64, gkI32:
			return gtVal{pre: v.pre, s: "i64_to_u64 " + s, t: to}
		}
	case gkF64:
		switch from.k {
		case gkF64:
			return gtVal{pre: v.pre, s: v.s, t: to}
		case gkI64, gkI32:
			return gtVal{pre: v.pre, s: "f_of_Z " + s, t: to}
		}
	case gkStr:
		if from.k == gkStr {
			return gtVal{pre: v.pre, s: v.s, t: to}
		}
	}
	gtFail("%s: conversion between these types is outside the subset", f.pos(x))
	return gtVal{}
}

func (f *gtFn) builtin(x *ast.CallExpr, name string) gtVal {
	switch name {
	case "len":
		v := f.expr(x.Args[0])
		if v.t.k != gkMap && v.t.k != gkSlice {
			gtFail("%s: len of this type is outside the subset", f.pos(x))
		}
		return gtVal{pre: v.pre, s: "Z.of_nat (List.length " + gtPar(v.s) + ")", t: gtI64}
	case "min", "max":
		if len(x.Args) < 2 {
			gtFail("%s: %s with one argument", f.pos(x), name)
		}
		// all operands of the type of the call
		t := f.typeOfExpr(x)
		var pre []gtBind
		var acc string
		for i, a := range x.Args {
			v := f.exprAs(a, t)
			pre = append(pre, v.pre...)
			if i == 0 {
				acc = v.s
				continue
			}
			switch t.k {
			case gkI64, gkI32:
				acc = "Z." + name + " " + gtPar(acc) + " " + gtPar(v.s)
			case gkU64:
				acc = "N." + name + " " + gtPar(acc) + " " + gtPar(v.s)
			default:
				gtFail("%s: %s on a non-integer type is outside the subset", f.pos(x), name)
			}
		}
		return gtVal{pre: pre, s: acc, t: t}
	case "make":
		t := f.typeOfExpr(x)
		switch t.k {
		case gkMap:
			// the size hint is evaluated for its panics only when it is not a constant
			if len(x.Args) == 2 {
				if tv := f.info.Types[x.Args[1]]; tv.Value == nil {
					h := f.expr(x.Args[1])
					if len(h.pre) > 0 {
						gtFail("%s: map size hint that may panic", f.pos(x))
					}
				}
			}
			return gtVal{s: f.tr.zero(t), t: t}
		case gkSlice:
			if len(x.Args) != 2 {
				gtFail("%s: make of a slice with a capacity is outside the subset", f.pos(x))
			}
			n := f.expr(x.Args[1])
			pre, s := f.mon(n.pre, "make_slice "+gtPar(f.tr.zero(t.elem))+" "+f.sliceIdx(n, x.Args[1]))
			return gtVal{pre: pre, s: s, t: t}
		}
	}
	gtFail("%s: builtin %s is outside the subset", f.pos(x), name)
	return gtVal{}
}

// call translates a call in expression position (stmt=false: the callee may not have out parameters)
func (f *gtFn) call(x *ast.CallExpr, stmt bool) gtVal {
	fun := gtUnparen(x.Fun)
	// fmt.Errorf(...) / errors.New(...): a non-nil error; the message arguments are not evaluated
	if sel, ok := fun.(*ast.SelectorExpr); ok {
		if id, ok := sel.X.(*ast.Ident); ok {
			if pn, ok := f.info.Uses[id].(*types.PkgName); ok {
				ip := pn.Imported().Path()
				if (ip == "fmt" && sel.Sel.Name == "Errorf") || (ip == "errors" && sel.Sel.Name == "New") {
					return gtVal{s: "true", t: gtErrT}
				}
			}
		}
	}
	if tv, ok := f.info.Types[x.Fun]; ok && tv.IsType() {
		return f.conversion(x, f.tr.typeOf(tv.Type))
	}
	if id, ok := fun.(*ast.Ident); ok {
		if b, ok := f.info.Uses[id].(*types.Builtin); ok {
			return f.builtin(x, b.Name())
		}
	}
	// time.Time methods
	if sel, ok := fun.(*ast.SelectorExpr); ok {
		if s, ok := f.info.Selections[sel]; ok && s.Kind() == types.MethodVal {
			if fn, ok := s.Obj().(*types.Func); ok && fn.Pkg() != nil && fn.Pkg().Path() == "time" {
				recv := f.expr(sel.X)
				if recv.t.k != gkTime || len(x.Args) != 1 {
					gtFail("%s: method time.%s is outside the subset", f.pos(x), fn.Name())
				}
				arg := f.exprAs(x.Args[0], gtTime)
				pre := append(append([]gtBind{}, recv.pre...), arg.pre...)
				switch fn.Name() {
				case "Before":
					return gtVal{pre: pre, s: gtCmp(token.LSS, recv.s, arg.s, gtTime), t: gtBool}
				case "After":
					return gtVal{pre: pre, s: gtCmp(token.GTR, recv.s, arg.s, gtTime), t: gtBool}
				case "Equal":
					return gtVal{pre: pre, s: gtCmp(token.EQL, recv.s, arg.s, gtTime), t: gtBool}
				}
				gtFail("%s: method time.Time.%s is outside the subset", f.pos(x), fn.Name())
			}
		}
	}
	callee, recvExpr := f.resolveCallee(x)
	if len(callee.outs) > 0 && !stmt {
		gtFail("%s: call of %s, which modifies its arguments, inside an expression", f.pos(x), callee.goName)
	}
	v := f.callTerm(x, callee, recvExpr)
	return v
}

// resolveCallee finds the whitelisted function a call refers to
func (f *gtFn) resolveCallee(x *ast.CallExpr) (*gtFn, ast.Expr) {
	fun := gtUnparen(x.Fun)
	var obj types.Object
	var recvExpr ast.Expr
	switch fx := fun.(type) {
	case *ast.Ident:
		obj = f.info.Uses[fx]
	case *ast.SelectorExpr:
		if s, ok := f.info.Selections[fx]; ok {
			if s.Kind() != types.MethodVal {
				gtFail("%s: call of a function valued field is outside the subset", f.pos(x))
			}
			if len(s.Index()) != 1 {
				gtFail("%s: call of promoted method %s is outside the subset", f.pos(x), fx.Sel.Name)
			}
			obj = s.Obj()
			recvExpr = fx.X
		} else {
			obj = f.info.Uses[fx.Sel]
		}
	}
	fnObj, ok := obj.(*types.Func)
	if !ok || fnObj == nil {
		gtFail("%s: call target cannot be resolved (outside the repository or outside the subset): %s", f.pos(x), gtExprText(x.Fun))
	}
	callee, ok := f.tr.byObj[fnObj.Origin()]
	if !ok {
		gtFail("%s: call of %s, which is not a whitelisted function", f.pos(x), fnObj.Name())
	}
	if callee == f || callee.building {
		gtFail("%s: recursion is outside the subset", f.pos(x))
	}
	if !callee.done {
		f.tr.translate(callee)
	}
	if callee.err != "" {
		gtFail("%s: call of %s, which could not be translated", f.pos(x), callee.goName)
	}
	if callee.spec.Crit {
		gtFail("%s: call of %s, of which only the critical section is translated", f.pos(x), callee.goName)
	}
	f.deps[callee] = true
	return callee, recvExpr
}

func gtExprText(e ast.Expr) string {
	switch x := e.(type) {
	case *ast.Ident:
		return x.Name
	case *ast.SelectorExpr:
		return gtExprText(x.X) + "." + x.Sel.Name
	case *ast.CallExpr:
		return gtExprText(x.Fun) + "(...)"
	case *ast.ParenExpr:
		return gtExprText(x.X)
	}
	return fmt.Sprintf("%T", e)
}

// callTerm builds the application. The value is the callee's raw result: a tuple
// (outs..., results...) when the callee has out parameters.
func (f *gtFn) callTerm(x *ast.CallExpr, callee *gtFn, recvExpr ast.Expr) gtVal {
	var pre []gtBind
	var args []string
	ps := callee.params
	if callee.recv != nil {
		if recvExpr == nil {
			gtFail("%s: method expression call is outside the subset", f.pos(x))
		}
		if callee.recv.nonNil || callee.recv.t.k == gkRec {
			// the callee takes the record: dereference here (Go would panic inside the callee, at its
			// first field access; a callee that never touches its receiver is not distinguished)
			p, s, _ := f.derefRec(recvExpr)
			pre = append(pre, p...)
			args = append(args, gtPar(s))
		} else {
			v := f.exprAs(recvExpr, callee.recv.t)
			pre = append(pre, v.pre...)
			args = append(args, gtPar(v.s))
		}
		ps = ps[1:]
	}
	if x.Ellipsis.IsValid() || len(ps) != len(x.Args) {
		gtFail("%s: call of %s with a different number of arguments (variadic calls are outside the subset)", f.pos(x), callee.goName)
	}
	for i, a := range x.Args {
		v := f.exprAs(a, ps[i].t)
		pre = append(pre, v.pre...)
		args = append(args, gtPar(v.s))
	}
	name := f.tr.qual(callee.pc.spec.Module, callee.coqName)
	app := name
	if len(args) > 0 {
		app += " " + strings.Join(args, " ")
	}
	rt := callee.rawResult()
	if callee.monadic {
		pre, s := f.mon(pre, app)
		return gtVal{pre: pre, s: s, t: rt}
	}
	return gtVal{pre: pre, s: app, t: rt}
}

// rawResult: type of what the generated definition returns (inside GOk when monadic)
func (c *gtFn) rawResult() *gtT {
	var parts []*gtT
	for _, o := range c.outs {
		parts = append(parts, o.t)
	}
	switch c.results.k {
	case gkUnit:
	case gkTuple:
		parts = append(parts, c.results.tup...)
	default:
		parts = append(parts, c.results)
	}
	switch len(parts) {
	case 0:
		return gtUnit
	case 1:
		return parts[0]
	}
	return &gtT{k: gkTuple, tup: parts}
}
